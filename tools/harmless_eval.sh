#!/bin/bash
# usage: harmless_eval.sh <k> [ids...]   — applies /verif/harmless/harmless<k>.diff (a behaviour-preserving
# refactoring written by an independent sub-agent) to a scratch worktree of /repo and runs every check on it
# (VERIF_FULL=1: source facts and generated Gallina are regenerated from the edited copy, proofs re-checked).
# Output: one line per check in /verif/harmless/result-<k>.txt.  The expected verdict is OK everywhere; a
# "no-failing-input-found" line is a tie that is syntactic enough to notice the rewrite (see DESIGN 8b).
set -u
K=$1; shift
IDS=${*:-C01 C02 C03 C04 C05 C06 C07 C08 C09 C10 C11 C12 C13 C14 C15 C16 C17 C18 C19 C20}
export GOFLAGS=-mod=mod GOPROXY=off GOSUMDB=off GOTOOLCHAIN=local
W=/tmp/harmless/w$K
mkdir -p /tmp/harmless; rm -rf $W
git -C /repo worktree prune
git -C /repo worktree add -q --detach $W HEAD || exit 2
git -C $W apply /verif/harmless/harmless$K.diff || { git -C /repo worktree remove --force $W; exit 2; }
cd /verif
: > harmless/result-$K.txt
for P in $IDS; do
  OUT=$(VERIF_REPO=$W VERIF_FULL=1 VERIF_ALT_COQ=/tmp/harmless/coq$K timeout 2400 ./check $P 2>&1 | tail -2 | tr '\n' ' ')
  echo "$P: $OUT" >> harmless/result-$K.txt
done
git -C /repo worktree remove --force $W
rm -rf /tmp/harmless/coq$K
