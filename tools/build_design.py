#!/usr/bin/env python3
"""Assembles DESIGN.md from notes/DESIGN-head.md, notes/design-Cxx.md, seeded/*/meta.json, notes/DESIGN-tail.md."""
import glob, json, os, re
ROOT = os.path.dirname(os.path.dirname(os.path.abspath(__file__)))
props = [json.loads(l) for l in open(os.path.join(ROOT, 'properties.jsonl'))]
out = [open(os.path.join(ROOT, 'notes', 'DESIGN-head.md')).read().rstrip('\n'), '',
       '---------------------------------------------------------------------------------------', '',
       '## 7. Per property: what is modelled, proved, observed and generated (as built)', '']
for p in props:
    pid = p['id']
    out.append('### %s — %s' % (pid, p['title']))
    out.append('')
    np = os.path.join(ROOT, 'notes', 'design-%s.md' % pid)
    cp = os.path.join(ROOT, 'checks', '%s.json' % pid)
    if os.path.exists(np):
        txt = open(np).read().strip()
        txt = re.sub(r'^# .*\n', '', txt)                      # drop the note's own title
        txt = re.sub(r'^(#+) ', lambda m: '#' * (len(m.group(1)) + 3) + ' ', txt, flags=re.M)  # demote headings
        out.append(txt)
    else:
        out.append('(check not built yet)')
    if os.path.exists(cp):
        c = json.load(open(cp))
        if c.get('level_text'):
            out += ['', '*Level claimed*: ' + c['level_text']]
    out.append('')
for title, fn in [('Generated Gallina from the Go source (go2coq) — translation validation by proof', 'design-go2coq.md'),
                  ('The composed whole-client model (coq/Model/Client.v)', 'design-client.md')]:
    np = os.path.join(ROOT, 'notes', fn)
    if os.path.exists(np):
        txt = open(np).read().strip()
        txt = re.sub(r'^# .*\n', '', txt)
        txt = re.sub(r'^(#+) ', lambda m: '#' * (len(m.group(1)) + 3) + ' ', txt, flags=re.M)
        out += ['### ' + title, '', txt, '']
out += ['---------------------------------------------------------------------------------------', '',
        '## 8. Seeded breaking changes and which checks catch them', '',
        'Each change was produced by a fresh worker that saw ONLY the property text and a scratch git',
        'worktree of the repository (nothing from /verif), had to keep the package compiling and the',
        'existing suite green, and had to supply a demonstration test that passes on the clean tree and',
        'fails with the change. `tools/seed_eval.sh` re-confirmed all of that in another scratch',
        'worktree and ran `./check` against the changed copy (`VERIF_REPO`; "full" = also re-checking',
        'the tie lemmas against the copy, `VERIF_FULL=1`). Files: `seeded/<id>-<k>/{patch.diff,',
        'demo_test.go, notes.md, meta.json, replay.json}`.', '',
        '| seed | what the change does / what it needs to manifest | demo (clean / changed) | ./check verdict |',
        '|---|---|---|---|']
stats = {'total': 0, 'concrete': 0, 'tie': 0, 'other': 0, 'missed': 0, 'strengthened': 0}
for mp in sorted(glob.glob(os.path.join(ROOT, 'seeded', '*', 'meta.json'))):
    m = json.load(open(mp))
    sid = os.path.basename(os.path.dirname(mp))
    notes = os.path.join(os.path.dirname(mp), 'notes.md')
    what = m.get('summary', '')
    if not what and os.path.exists(notes):
        t = open(notes).read()
        mm = re.search(r'^#+\s*(.+)$', t, re.M)
        what = mm.group(1).strip() if mm else t.strip().split('\n')[0]
    what = what.replace('|', '/')[:230]
    conf = m.get('confirmed', {})
    demo = ('pass' if conf.get('demo_on_clean_tree', '').startswith('ok') else '??') + ' / ' + \
           ('FAIL' if 'FAIL' in conf.get('demo_with_mutant', '') else '??')
    runs = m.get('check_runs', {})
    final = None
    for k in ['full'] + sorted(kk for kk in runs if kk.startswith('full-')) + ['corr']:
        if k in runs and (final is None or (not final[1]['detected'] and runs[k]['detected'])):
            final = (k, runs[k])
    verdict = '%s: %s' % (final[0], final[1]['detected_by']) if final else 'not run'
    first = m.get('first')
    if first and final and first['detected_by'] != final[1]['detected_by']:
        verdict += ' (first run, %s: %s — the check was strengthened afterwards)' % (first['mode'], first['detected_by'])
    if m.get('remark'):
        verdict += ' — ' + m['remark']
    out.append('| %s | %s | %s | %s |' % (sid, what, demo, verdict))
    stats['total'] += 1
    if final and final[1]['detected']:
        own = final[0] in ('full', 'corr')
        if not own:
            stats['other'] += 1
        elif 'concrete' in final[1]['detected_by']:
            stats['concrete'] += 1
        else:
            stats['tie'] += 1
    else:
        stats['missed'] += 1
    if first and final and first['detected_by'] != final[1]['detected_by']:
        stats['strengthened'] += 1
out.append('')
out.append('Totals: %(total)d seeded changes (rounds 1–3: four per property, varied; round 4: two more per property, '
           'asked to be SUBTLE — changed defaults, per-client vs per-connection state, wrong receiver or lock kind, '
           'closure capture, boundary sizes; round 5: two more per property, written as the plausible '
           'bug fix / clean-up / feature of a hurried maintainer, at least one in a function no earlier change touched; round 6: one more for every property, asked for changes that need something specific to manifest); reported with a concrete failing input by the property\'s own check: '
           '%(concrete)d; reported by the own check through a broken proof/tie only (`no-failing-input-found`): %(tie)d; '
           'reported (concretely) only by a neighbouring property\'s check: %(other)d; not reported: %(missed)d. '
           '%(strengthened)d of them were missed or tie-only when first evaluated and led to a stronger generator, '
           'oracle or tie (see the remarks).' % stats)
out.append('')
tail = os.path.join(ROOT, 'notes', 'DESIGN-tail.md')
if os.path.exists(tail):
    out.append(open(tail).read().strip('\n'))
open(os.path.join(ROOT, 'DESIGN.md'), 'w').write('\n'.join(out) + '\n')
print('DESIGN.md written: %d lines' % len('\n'.join(out).split('\n')))
