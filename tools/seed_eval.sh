#!/bin/bash
# usage: seed_eval.sh <property> <k> [full|corr] [srcdir] [srcindex]
#   srcdir/srcindex: where the worker delivered it (mutant<srcindex>.diff ...); default /tmp/mut/<property>-out, index k
# Validates mutant k for <property> (delivered in /tmp/mut/<property>-out/ or, when the
# seed is already stored, in /verif/seeded/<property>-<k>/) and runs ./check on it.
#   1. scratch git worktree of /repo HEAD; demo must PASS on the clean tree
#   2. apply the patch; go build; existing suite must pass (TestPing excepted)
#   3. demo must FAIL with the mutant
#   4. ./check <property> against the mutated copy (VERIF_REPO; VERIF_FULL=1 when "full")
#   5. store /verif/seeded/<property>-<k>/{patch.diff,demo_test.go,notes.md,meta.json,replay.json}
set -u
P=$1; K=$2; MODE=${3:-corr}
export GOFLAGS=-mod=mod GOPROXY=off GOSUMDB=off GOTOOLCHAIN=local
OUT=/verif/seeded/$P-$K
SRC=${4:-/tmp/mut/$P-out}
SK=${5:-$K}
W=/tmp/seedeval/$P-$K
mkdir -p /tmp/seedeval $OUT
if [ -f $SRC/mutant$SK.diff ]; then
  cp $SRC/mutant$SK.diff $OUT/patch.diff
  cp $SRC/demo${SK}_test.go $OUT/demo_test.go
  [ -f $SRC/notes$SK.md ] && cp $SRC/notes$SK.md $OUT/notes.md
fi
DK=$(grep -o 'func TestMutantDemo[0-9]*' $OUT/demo_test.go | head -1 | grep -o '[0-9]*$')
[ -f $OUT/patch.diff ] || { echo "no patch for $P-$K"; exit 2; }
rm -rf $W
git -C /repo worktree prune
git -C /repo worktree add -q --detach $W HEAD || exit 2
DEMO=$OUT/demo_test.go
PKG=$(grep -m1 '^package ' $DEMO | awk '{print $2}')
DIR=client; [ "$PKG" = "state" ] && DIR=state
cp $DEMO $W/$DIR/zz_demo_test.go
CLEAN=$(cd $W && timeout 300 go test -vet=off -count=1 -run "TestMutantDemo$DK\$" ./$DIR 2>&1 | tail -1)
rm -f $W/$DIR/zz_demo_test.go
git -C $W apply $OUT/patch.diff || { echo "patch does not apply"; git -C /repo worktree remove --force $W; exit 2; }
BUILD=$(cd $W && go build ./... 2>&1 | tail -2)
SUITE=$(cd $W && timeout 600 go test -vet=off -count=1 ./... 2>&1 | grep -v 'no test files' | tr '\n' ' ')
if echo "$SUITE" | grep -q FAIL; then
  SUITE2=$(cd $W && timeout 600 go test -vet=off -count=1 ./... 2>&1 | grep -- '--- FAIL' | grep -v TestPing | tr '\n' ' ')
  SUITE="$SUITE | non-TestPing failures on rerun: [$SUITE2]"
fi
cp $DEMO $W/$DIR/zz_demo_test.go
MUT=$(cd $W && timeout 300 go test -vet=off -count=1 -run "TestMutantDemo$DK\$" ./$DIR 2>&1 | tail -1)
rm -f $W/$DIR/zz_demo_test.go
cd /verif
if [ "$MODE" = full ]; then
  CHECK=$(VERIF_REPO=$W VERIF_FULL=1 timeout 2400 ./check $P 2>&1 | tail -4)
else
  CHECK=$(VERIF_REPO=$W timeout 1200 ./check $P 2>&1 | tail -4)
fi
RP=$(echo "$CHECK" | grep -o 'replay=[^ ]*' | head -1 | cut -d= -f2)
[ -n "$RP" ] && [ -f /verif/$RP ] && cp /verif/$RP $OUT/replay.json
python3 - "$P" "$K" "$MODE" "$CLEAN" "$SUITE" "$MUT" "$CHECK" "$BUILD" <<'PY'
import json,sys,os
P,K,MODE,CLEAN,SUITE,MUT,CHECK,BUILD=sys.argv[1:9]
out='/verif/seeded/%s-%s/meta.json'%(P,K)
old=json.load(open(out)) if os.path.exists(out) else {}
detected='VIOLATION property=%s'%P in CHECK
runs=old.get('check_runs',{})
runs[MODE]={'output':CHECK,'detected':detected,
  'detected_by':'concrete failing input' if detected and 'no-failing-input-found' not in CHECK else ('proof/correspondence break (no-failing-input-found)' if detected else 'NOT DETECTED')}
meta={'property':P,'mutant':int(K),
 'origin':'independent sub-agent given only the property text and a scratch git worktree (no access to /verif)',
 'breaks': old.get('breaks',''),
 'needs_to_manifest': old.get('needs_to_manifest',''),
 'confirmed':{'demo_on_clean_tree':CLEAN,'go_build_with_mutant':BUILD or 'ok','existing_suite_with_mutant':SUITE,'demo_with_mutant':MUT},
 'first': old.get('first') or {'mode':MODE,'detected_by':runs[MODE]['detected_by']},
 'remark': old.get('remark',''),
 'summary': old.get('summary',''), 'round': old.get('round',''),
 'check_runs':runs,
 'ran':['git worktree add /tmp/seedeval/%s-%s HEAD; demo on clean tree; git apply patch.diff'%(P,K),'go build ./... ; go test -vet=off -count=1 ./...','go test -run TestMutantDemoN (demo copied next to the code)','VERIF_REPO=<worktree> [VERIF_FULL=1] ./check '+P,'git worktree remove --force']}
json.dump(meta,open(out,'w'),indent=1)
print('%s-%s [%s]: clean[%s] suite[%s] mutant-demo[%s] => %s'%(P,K,MODE,CLEAN[:40],SUITE[:70],MUT[:40],runs[MODE]['detected_by']))
PY
git -C /repo worktree remove --force $W
