#!/bin/bash
# usage: soak.sh <rounds> [ids...]   — runs every check <rounds> times with different seeds on the
# unchanged tree and reports any run that does not print "Cxx: OK" (flakiness / false alarms).
R=${1:-5}; shift
IDS=${@:-$(python3 -c "import json;print(' '.join(c['property_id'] for c in json.load(open('/verif/MANIFEST.json'))['checks']))")}
cd /verif
for r in $(seq 1 $R); do
  for p in $IDS; do
    seed=$((1000*r + RANDOM % 1000))
    out=$(timeout 900 ./check $p --seed $seed 2>&1 | tail -2 | tr '\n' ' ')
    if echo "$out" | grep -q "$p: OK"; then echo "ok $p seed=$seed $(echo $out | grep -o '\[[0-9.]*s\]')"; else echo "ALARM $p seed=$seed :: $out"; fi
  done
done
