// Source-facts translator: type-checks /repo/client and /repo/state (build tag verif) and
// writes Coq files with (a) package-level constants, (b) per-function digests of constant
// expressions (const-folded, so equivalent rewrites of a constant give the same text) and
// (c) syntactic/synchronisation facts (facts.go).  Output: <out>/Consts.v, <out>/Facts.v.
// It fails closed: anything it does not recognise is reported as Unrecognised.
package main

import (
	"fmt"
	"go/ast"
	"go/constant"
	"go/token"
	"go/types"
	"os"
	"path/filepath"
	"sort"
	"strings"

	"golang.org/x/tools/go/packages"
)

func coqBytes(s string) string {
	parts := make([]string, len(s))
	for i := 0; i < len(s); i++ {
		parts[i] = fmt.Sprintf("%d", s[i])
	}
	return "[" + strings.Join(parts, "; ") + "]%N"
}

func coqIdent(s string) string {
	var b strings.Builder
	for _, c := range s {
		if c == '_' || (c >= '0' && c <= '9') || (c >= 'a' && c <= 'z') || (c >= 'A' && c <= 'Z') {
			b.WriteRune(c)
		} else {
			b.WriteRune('_')
		}
	}
	return b.String()
}

type pkgInfo struct {
	pkg   *packages.Package
	funcs map[string]*ast.FuncDecl // "Recv.Name" or "Name"
}

func load(dir string) map[string]*pkgInfo {
	cfg := &packages.Config{
		Mode:       packages.NeedName | packages.NeedFiles | packages.NeedSyntax | packages.NeedTypes | packages.NeedTypesInfo | packages.NeedImports | packages.NeedDeps,
		Dir:        dir,
		BuildFlags: []string{"-tags=verif"},
		Tests:      false,
	}
	pkgs, err := packages.Load(cfg, "./client", "./state")
	if err != nil {
		fmt.Fprintln(os.Stderr, "load:", err)
		os.Exit(1)
	}
	out := map[string]*pkgInfo{}
	for _, p := range pkgs {
		if len(p.Errors) > 0 {
			for _, e := range p.Errors {
				fmt.Fprintln(os.Stderr, "package error:", e)
			}
			os.Exit(1)
		}
		pi := &pkgInfo{pkg: p, funcs: map[string]*ast.FuncDecl{}}
		for _, f := range p.Syntax {
			for _, d := range f.Decls {
				if fd, ok := d.(*ast.FuncDecl); ok {
					name := fd.Name.Name
					if fd.Recv != nil && len(fd.Recv.List) > 0 {
						t := fd.Recv.List[0].Type
						if st, ok := t.(*ast.StarExpr); ok {
							t = st.X
						}
						if id, ok := t.(*ast.Ident); ok {
							name = id.Name + "." + name
						}
					}
					pi.funcs[name] = fd
				}
			}
		}
		out[p.Name] = pi
	}
	return out
}

// digest: the maximal constant expressions inside a function body, in source order,
// const-folded.  Identifiers true/false/nil/iota and array indices are included like any
// other constant.  Strings are emitted as byte lists, integers as Z.
func digest(pi *pkgInfo, fd *ast.FuncDecl) []string {
	var out []string
	info := pi.pkg.TypesInfo
	var visit func(n ast.Node) bool
	visit = func(n ast.Node) bool {
		e, ok := n.(ast.Expr)
		if !ok {
			return true
		}
		if tv, ok := info.Types[e]; ok && tv.Value != nil {
			switch tv.Value.Kind() {
			case constant.Int:
				out = append(out, fmt.Sprintf("LInt (%s)", tv.Value.ExactString()))
			case constant.String:
				out = append(out, "LStr "+coqBytes(constant.StringVal(tv.Value)))
			case constant.Bool:
				out = append(out, fmt.Sprintf("LBool %v", constant.BoolVal(tv.Value)))
			case constant.Float:
				out = append(out, "LOther")
			default:
				out = append(out, "LOther")
			}
			return false // maximal: do not descend
		}
		return true
	}
	if fd.Body != nil {
		ast.Inspect(fd.Body, visit)
	}
	return out
}

func main() {
	repo := "/repo"
	outDir := "."
	if len(os.Args) > 1 {
		repo = os.Args[1]
	}
	if len(os.Args) > 2 {
		outDir = os.Args[2]
	}
	pkgs := load(repo)
	var b strings.Builder
	b.WriteString("(* GENERATED from the Go source by /verif/translator on every check run — do not edit. *)\n")
	b.WriteString("From Coq Require Import List ZArith NArith.\nImport ListNotations.\nLocal Open Scope Z_scope.\n\n")
	b.WriteString("Inductive lit := LInt (z : Z) | LStr (s : list N) | LBool (b : bool) | LOther.\n\n")
	// (a) package-level constants
	for _, pn := range []string{"client", "state"} {
		pi := pkgs[pn]
		if pi == nil {
			continue
		}
		scope := pi.pkg.Types.Scope()
		names := scope.Names()
		sort.Strings(names)
		for _, n := range names {
			c, ok := scope.Lookup(n).(*types.Const)
			if !ok {
				continue
			}
			switch c.Val().Kind() {
			case constant.Int:
				fmt.Fprintf(&b, "Definition const_%s_%s : Z := %s.\n", pn, coqIdent(n), c.Val().ExactString())
			case constant.String:
				fmt.Fprintf(&b, "Definition const_%s_%s : list N := %s.\n", pn, coqIdent(n), coqBytes(constant.StringVal(c.Val())))
			}
		}
	}
	b.WriteString("\n")
	// (b) per-function digests
	for _, pn := range []string{"client", "state"} {
		pi := pkgs[pn]
		if pi == nil {
			continue
		}
		var names []string
		for n := range pi.funcs {
			names = append(names, n)
		}
		sort.Strings(names)
		for _, n := range names {
			if strings.HasPrefix(n, "Verif") || strings.Contains(n, ".Verif") {
				continue
			}
			d := digest(pi, pi.funcs[n])
			fmt.Fprintf(&b, "Definition lits_%s_%s : list lit :=\n  [%s].\n", pn, coqIdent(n), strings.Join(d, ";\n   "))
		}
	}
	// (c) package-level variable initialisers: literal digests (e.g. tagsReplacer, mode tables)
	for _, pn := range []string{"client", "state"} {
		pi := pkgs[pn]
		if pi == nil {
			continue
		}
		for _, f := range pi.pkg.Syntax {
			for _, d := range f.Decls {
				gd, ok := d.(*ast.GenDecl)
				if !ok || gd.Tok != token.VAR {
					continue
				}
				for _, sp := range gd.Specs {
					vs := sp.(*ast.ValueSpec)
					for i, nm := range vs.Names {
						if i >= len(vs.Values) || nm.Name == "_" {
							continue
						}
						fake := &ast.FuncDecl{Body: &ast.BlockStmt{List: []ast.Stmt{&ast.ExprStmt{X: vs.Values[i]}}}}
						fmt.Fprintf(&b, "Definition varlits_%s_%s : list lit :=\n  [%s].\n", pn, coqIdent(nm.Name), strings.Join(digest(pi, fake), ";\n   "))
					}
				}
			}
		}
	}
	writeIfChanged(filepath.Join(outDir, "Consts.v"), b.String())
	writeIfChanged(filepath.Join(outDir, "Facts.v"), facts(pkgs))
	writeIfChanged(filepath.Join(outDir, "GoFuncs.v"), go2coq(pkgs))
	writeIfChanged(filepath.Join(outDir, "LockFacts.v"), lockFacts(pkgs))
	writeIfChanged(filepath.Join(outDir, "GoTracker.v"), go2heap(pkgs))
	writeIfChanged(filepath.Join(outDir, "GoRegistry.v"), go2heapRegistry(pkgs))
	writeIfChanged(filepath.Join(outDir, "GoLineCopy.v"), go2heapLineCopy(pkgs))
	writeIfChanged(filepath.Join(outDir, "DialFacts.v"), dialFacts(pkgs))
}

func writeIfChanged(path, txt string) {
	if old, err := os.ReadFile(path); err == nil && string(old) == txt {
		return
	}
	if err := os.WriteFile(path, []byte(txt), 0o644); err != nil {
		fmt.Fprintln(os.Stderr, err)
		os.Exit(1)
	}
}

var _ = token.NoPos
