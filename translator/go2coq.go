// go2coq: translates the BODIES of selected pure functions of /repo/client into Gallina
// definitions (coq/Gen/GoFuncs.v).  coq/Proofs/GenEq*.v prove each generated function
// extensionally equal to the hand-written model the property theorems are about, so a
// source change either leaves the equality provable (no alarm) or breaks the obligation,
// for all inputs.  See notes/design-go2coq.md.
//
// The translator FAILS CLOSED: any construct outside the supported subset makes it emit
//
//	Definition go_<pkg>_<func>_UNSUPPORTED : unit := tt.   (* reason *)
//
// instead of the function, so the equality lemma no longer compiles.  It never guesses.
//
// Scheme (details in the design note):
//
//	string,[]byte -> bytes   byte -> N   int,time.Duration,time.Time -> Z   bool -> bool
//	[]string -> list bytes   several results -> a tuple   every function returns [res T].
//	Index/slice expressions are the PARTIAL operations of Lib/GoBytes.v, bound in the res
//	monad in Go's evaluation order; && and || keep their short-circuit.
//	Statements are translated in let/continuation style; control-flow merges re-bind the
//	tuple of variables assigned in the branches; loops are local fixpoints (structural for
//	range loops, explicit fuel with Panic on exhaustion for condition loops).
//	Fields of the receiver that a method reads become parameters, fields it writes are
//	returned; sends on conn.out are collected in a list (the method's result); time.Now()
//	calls become clock-reading parameters in order of evaluation.
package main

import (
	"fmt"
	"go/ast"
	"go/constant"
	"go/token"
	"go/types"
	"sort"
	"strings"
)

// ---------------------------------------------------------------------------------------
// configuration: which functions, in dependency order (callees first)

var go2coqTargets = []string{
	"cutNewLines", "indexFragment", "splitMessage", "splitArgs",
	"DefaultNewNick", "hasPort",
	"parseUserHost", "Line.Text", "Line.Public", "Line.Target",
	"Conn.rateLimit",
	"Conn.Raw", "Conn.Pass", "Conn.Nick", "Conn.User", "Conn.Join", "Conn.Part", "Conn.Kick",
	"Conn.Quit", "Conn.Whois", "Conn.Who", "Conn.Privmsg", "Conn.Notice", "Conn.Ctcp",
	"Conn.CtcpReply", "Conn.Version", "Conn.Action", "Conn.Topic", "Conn.Mode", "Conn.Away",
	"Conn.Invite", "Conn.Oper", "Conn.VHost", "Conn.Ping", "Conn.Pong", "Conn.Cap",
	"Conn.Authenticate",
	"ParseLine",
	// stage 2: handlers (group 1)
	"Line.argslen", "Conn.Me",
	"Conn.h_PING", "Conn.h_REGISTER", "Conn.h_CTCP", "Conn.h_410",
	"Conn.h_NICK", "Conn.h_433", "Conn.h_001",
	// stage 2: capability negotiation (group 2)
	"capabilitySet", "capSet.Add", "capSet.Has", "capSet.Intersect", "capSet.Slice", "capSet.Size",
	"Conn.getRequestCapabilities", "Conn.negotiateCapabilities", "Conn.handleCapNak",
	"Conn.h_903", "Conn.h_904", "Conn.h_908",
	"Conn.handleCapAck", "Conn.h_CAP", "Conn.h_AUTHENTICATE",
	// stage 7: the two capability queries a user makes after negotiation
	"Conn.SupportsCapability", "Conn.HasCapability",
	// stage 2: state handlers (group 3) — those that need neither (*Nick).Equals nor fallthrough
	"Conn.h_STNICK", "Conn.h_PART", "Conn.h_KICK", "Conn.h_QUIT", "Conn.h_TOPIC",
	"Conn.h_324", "Conn.h_332", "Conn.h_671",
	// stage 3: the state handlers that need Nick.Equals / fallthrough
	"Conn.h_JOIN", "Conn.h_MODE", "Conn.h_311", "Conn.h_352", "Conn.h_353",
	// stage 3: package state, the nick mode parser
	"state:nick.parseModes",
	// stage 4: the channel mode parser
	"state:channel.parseModes",
	// stage 6 (d): ONE statement of a function that is otherwise outside the subset — the
	// if-statement of internalConnect whose condition calls hasPort (the address to dial)
	"stmt:hasPort:Conn.internalConnect",
	// stage 6 (c): write, with its effects as channels (sleep, I/O, the observed Debug record)
	"Conn.write",
}

// fuel override per loop ("func#k", k-th condition loop of the function, from 0); the
// default is S (sum of the lengths of the string/slice variables the condition mentions).
var go2coqFuel = map[string]string{}

// strings.* -> Lib/GoBytes.v / Lib/LineLib.v.  "const" arguments must be compile-time
// constants (checked), because the Coq function is only a faithful model under that
// restriction (split2: non-empty separator; split_byte: one-byte separator; trim: ASCII
// cutset).  fields/to_upper/to_lower/trim_space are the ASCII versions (DESIGN.md section 3).
type strFn struct {
	coq  string
	args []gtyp
	res  gtyp
}

var go2coqStrings = map[string]strFn{
	"Index":     {"index", []gtyp{tStr, tStr}, tInt},
	"LastIndex": {"last_index", []gtyp{tStr, tStr}, tInt},
	"HasPrefix": {"has_prefix", []gtyp{tStr, tStr}, tBool},
	"HasSuffix": {"has_suffix", []gtyp{tStr, tStr}, tBool},
	"ToUpper":   {"to_upper", []gtyp{tStr}, tStr},
	"ToLower":   {"to_lower", []gtyp{tStr}, tStr},
	"TrimSpace": {"trim_space", []gtyp{tStr}, tStr},
	"Fields":    {"fields", []gtyp{tStr}, tStrs},
	"Join":      {"join", []gtyp{tStrs, tStr}, tStr},
	// SplitN(_, const, 2) -> split2, Split(_, one-byte const) -> split_byte,
	// Trim(_, ASCII const) -> trim: see stdcall
}

// ---------------------------------------------------------------------------------------
// types

type gtyp int

const (
	tBad gtyp = iota
	tStr
	tByte
	tInt
	tBool
	tStrs
	tMap    // map[string]string -> option tagmap (None = nil map)
	tKMap   // map[string]bool -> CapsLib.kmap (canonical association list; never nil)
	tNBytes // []byte -> option bytes (None = nil; nil-ness is observable: x != nil)
	tErr    // error -> bool (true = non-nil)
	tPtr    // result only: pointer to a struct -> option (tuple of its fields)
	tTuple
	// effect channels (hidden outputs of a function, stage 6 c)
	tEffSleep // <-time.After(d): the list of durations waited for
	tEffIO    // conn.io.WriteString(s) / Flush(): (s, false) / ([], true)
	tEffLog   // an OBSERVED logging call: (level, format, string arguments)
)

func (t gtyp) coq() string {
	if d := t.dyn(); d != nil {
		return d.coq
	}
	switch t {
	case tUnit:
		return "unit"
	case tStr:
		return "bytes"
	case tByte:
		return "N"
	case tInt:
		return "Z"
	case tBool:
		return "bool"
	case tStrs:
		return "list bytes"
	case tMap:
		return "option tagmap"
	case tKMap:
		return "kmap"
	case tNBytes:
		return "option bytes"
	case tErr:
		return "bool"
	case tEffSleep:
		return "list Z"
	case tEffIO:
		return "list (bytes * bool)"
	case tEffLog:
		return "list (bytes * bytes * list bytes)"
	}
	return "BAD"
}

func (t gtyp) zero() string {
	if d := t.dyn(); d != nil {
		return d.zero
	}
	switch t {
	case tStr, tStrs, tEffSleep, tEffIO, tEffLog:
		return "[]"
	case tByte:
		return "0%N"
	case tInt:
		return "0"
	case tBool:
		return "false"
	case tMap, tNBytes:
		return "None"
	case tErr:
		return "false"
	}
	return "BAD"
}

type unsupported struct{ msg string }

func failf(format string, a ...interface{}) { panic(unsupported{fmt.Sprintf(format, a...)}) }

func goType(t types.Type) gtyp {
	if n, ok := t.(*types.Named); ok {
		o := n.Obj()
		if o.Pkg() == nil && o.Name() == "error" {
			return tErr
		}
		if o.Pkg() != nil && o.Pkg().Path() == "time" && (o.Name() == "Duration" || o.Name() == "Time") {
			return tInt
		}
	}
	switch u := t.Underlying().(type) {
	case *types.Basic:
		switch u.Kind() {
		case types.String, types.UntypedString:
			return tStr
		case types.Uint8:
			return tByte
		case types.Int, types.Int64, types.UntypedInt:
			return tInt
		case types.Bool, types.UntypedBool:
			return tBool
		}
	case *types.Map:
		k, kok := u.Key().Underlying().(*types.Basic)
		e, eok := u.Elem().Underlying().(*types.Basic)
		if kok && eok && k.Kind() == types.String && e.Kind() == types.String {
			return tMap
		}
		if kok && eok && k.Kind() == types.String && e.Kind() == types.Bool {
			return tKMap
		}
	case *types.Slice:
		if b, ok := u.Elem().Underlying().(*types.Basic); ok {
			if b.Kind() == types.String {
				return tStrs
			}
			if b.Kind() == types.Uint8 {
				return tNBytes
			}
		}
	}
	return goTypeDyn(t)
}

// ---------------------------------------------------------------------------------------
// Coq term tree for statements

type node interface{}

type nSeq struct { // pat := val ; body     (let when val is pure, bind otherwise)
	pat  []string
	ty   string // type annotation for a single-variable let ("" = none)
	val  node
	body node
}
type nBind struct { // name <- mterm ;; body   (mterm : res _, given as text)
	name   string
	pat    []string // instead of name: '(a, b) <- mterm
	mterm  string
	body   node
	effect bool // re-binds hidden state (receiver fields, out): not allowed under && / ||
}
type nIf struct {
	c    string
	a, b node
}
type nLeaf struct{ val string } // the value of the block: [val] (pure) / [Ok val]
type nTail struct{ t string }   // a term of the block's own type (recursive call of a loop)
type nM struct{ t string }      // a term of type res _ (forces the block to be monadic)
type nFuel struct{ body node }  // match fuel with O => Panic | S fuel' => body end
type nListMatch struct {
	l, x, l2    string
	nilc, consc node
}
type nLoop struct { // let fix name binders {struct s} : T := fbody in pat := call ; body
	name, binders, sarg, stateT string
	fbody                       node
	call                        string
	pat                         []string
	body                        node
}
type nJoin struct { // let k := fun binder => kbody in body
	name, binder string
	pat          []string
	kbody, body  node
}

func isPure(n node) bool {
	switch x := n.(type) {
	case nLeaf, nTail:
		return true
	case nSeq:
		return isPure(x.val) && isPure(x.body)
	case nIf:
		return isPure(x.a) && isPure(x.b)
	case nListMatch:
		return isPure(x.nilc) && isPure(x.consc)
	case nLoop:
		return isPure(x.fbody) && isPure(x.body)
	}
	return false
}

// simplify:  x := V ; x   ->   V     (let x := v in x / x <- m ;; Ok x)
func simplify(n node) node {
	switch x := n.(type) {
	case nSeq:
		x.val, x.body = simplify(x.val), simplify(x.body)
		if lf, ok := x.body.(nLeaf); ok && len(x.pat) == 1 && lf.val == x.pat[0] {
			if _, isTail := x.val.(nTail); !isTail {
				return x.val
			}
		}
		return x
	case nBind:
		x.body = simplify(x.body)
		if lf, ok := x.body.(nLeaf); ok && lf.val == x.name && len(x.pat) == 0 {
			return nM{x.mterm}
		}
		return x
	case nIf:
		x.a, x.b = simplify(x.a), simplify(x.b)
		return x
	case nFuel:
		x.body = simplify(x.body)
		return x
	case nListMatch:
		x.nilc, x.consc = simplify(x.nilc), simplify(x.consc)
		return x
	case nLoop:
		x.fbody, x.body = simplify(x.fbody), simplify(x.body)
		return x
	case nJoin:
		x.kbody, x.body = simplify(x.kbody), simplify(x.body)
		return x
	}
	return n
}

func tuple(xs []string) string {
	switch len(xs) {
	case 0:
		return "tt"
	case 1:
		return xs[0]
	}
	return "(" + strings.Join(xs, ", ") + ")"
}

type renderer struct {
	b   strings.Builder
	tmp *int
}

func (r *renderer) nl(ind int) { r.b.WriteString("\n" + strings.Repeat("  ", ind)) }

// bindPat writes "pat <- " / "let pat := " prefixes
func (r *renderer) letPat(pat []string, ty string) string {
	if len(pat) == 0 {
		return "let _ : unit := "
	}
	if len(pat) == 1 {
		if ty != "" {
			return "let " + pat[0] + " : " + ty + " := "
		}
		return "let " + pat[0] + " := "
	}
	return "let '" + tuple(pat) + " := "
}

// render n at indentation ind; pure selects [val] vs [Ok val] for leaves
func (r *renderer) render(n node, pure bool, ind int) {
	switch x := n.(type) {
	case nLeaf:
		if pure {
			r.b.WriteString(x.val)
		} else {
			r.b.WriteString("Ok " + atom(x.val))
		}
	case nTail:
		r.b.WriteString(x.t)
	case nM:
		r.b.WriteString(x.t)
	case nBind:
		if len(x.pat) > 1 {
			*r.tmp++
			p := fmt.Sprintf("p%d", *r.tmp)
			r.b.WriteString(p + " <- " + x.mterm + " ;;")
			r.nl(ind)
			r.b.WriteString(r.letPat(x.pat, "") + p + " in")
		} else if len(x.pat) == 1 {
			r.b.WriteString(x.pat[0] + " <- " + x.mterm + " ;;")
		} else {
			r.b.WriteString(x.name + " <- " + x.mterm + " ;;")
		}
		r.nl(ind)
		r.render(x.body, false, ind)
	case nSeq:
		vp := isPure(x.val)
		if vp || pure {
			r.b.WriteString(r.letPat(x.pat, x.ty))
			r.renderVal(x.val, true, ind)
			r.b.WriteString(" in")
		} else if len(x.pat) == 1 {
			r.b.WriteString(x.pat[0] + " <- ")
			r.renderVal(x.val, false, ind)
			r.b.WriteString(" ;;")
		} else {
			*r.tmp++
			p := fmt.Sprintf("p%d", *r.tmp)
			r.b.WriteString(p + " <- ")
			r.renderVal(x.val, false, ind)
			r.b.WriteString(" ;;")
			r.nl(ind)
			r.b.WriteString(r.letPat(x.pat, "") + p + " in")
		}
		r.nl(ind)
		r.render(x.body, pure, ind)
	case nIf:
		r.b.WriteString("if " + x.c + " then")
		r.nl(ind + 1)
		r.renderBranch(x.a, pure, ind+1)
		r.nl(ind)
		r.b.WriteString("else")
		r.nl(ind + 1)
		r.renderBranch(x.b, pure, ind+1)
	case nFuel:
		r.b.WriteString("match fuel with")
		r.nl(ind)
		r.b.WriteString("| O => Panic")
		r.nl(ind)
		r.b.WriteString("| S fuel' =>")
		r.nl(ind + 2)
		r.render(x.body, false, ind+2)
		r.nl(ind)
		r.b.WriteString("end")
	case nListMatch:
		r.b.WriteString("match " + x.l + " with")
		r.nl(ind)
		r.b.WriteString("| [] => ")
		r.renderBranch(x.nilc, pure, ind+2)
		r.nl(ind)
		r.b.WriteString("| " + x.x + " :: " + x.l2 + " =>")
		r.nl(ind + 2)
		r.render(x.consc, pure, ind+2)
		r.nl(ind)
		r.b.WriteString("end")
	case nLoop:
		fp := isPure(x.fbody)
		t := x.stateT
		if !fp {
			t = "res " + atom(t)
		}
		r.b.WriteString("let fix " + x.name + " " + x.binders + " {struct " + x.sarg + "} : " + t + " :=")
		r.nl(ind + 2)
		r.render(x.fbody, fp, ind+2)
		r.b.WriteString(" in")
		r.nl(ind)
		var call node = nTail{x.call}
		if !fp {
			call = nM{x.call}
		}
		r.render(nSeq{pat: x.pat, val: call, body: x.body}, pure, ind)
	case nJoin:
		r.b.WriteString("let " + x.name + " := fun " + x.binder + " =>")
		r.nl(ind + 2)
		if len(x.pat) > 1 {
			r.b.WriteString(r.letPat(x.pat, "") + "p in")
			r.nl(ind + 2)
		}
		r.render(x.kbody, false, ind+2)
		r.b.WriteString(" in")
		r.nl(ind)
		r.render(x.body, false, ind)
	default:
		failf("internal: unknown node %T", n)
	}
}

func (r *renderer) renderBranch(n node, pure bool, ind int) {
	switch n.(type) {
	case nLeaf, nTail, nM:
		r.render(n, pure, ind)
	default:
		r.b.WriteString("(")
		r.render(n, pure, ind)
		r.b.WriteString(")")
	}
}

func (r *renderer) renderVal(n node, pure bool, ind int) {
	switch x := n.(type) {
	case nLeaf:
		if pure {
			r.b.WriteString(x.val)
		} else {
			r.b.WriteString("Ok " + atom(x.val))
		}
	case nTail:
		r.b.WriteString(x.t)
	case nM:
		r.b.WriteString(x.t)
	default:
		r.b.WriteString("(")
		r.nl(ind + 2)
		r.render(n, pure, ind+2)
		r.b.WriteString(")")
	}
}

// atom: parenthesise unless obviously atomic
func atom(s string) string {
	if s == "" {
		return s
	}
	if balancedOuter(s, '(', ')') || balancedOuter(s, '[', ']') {
		return s
	}
	if strings.HasSuffix(s, "]%N") && balancedOuter(s[:len(s)-2], '[', ']') {
		return s
	}
	if strings.ContainsAny(s, " -") {
		return "(" + s + ")"
	}
	return s
}

func balancedOuter(s string, o, c byte) bool {
	if len(s) < 2 || s[0] != o || s[len(s)-1] != c {
		return false
	}
	d := 0
	for i := 0; i < len(s); i++ {
		switch s[i] {
		case '(', '[':
			d++
		case ')', ']':
			d--
			if d == 0 && i != len(s)-1 {
				return false
			}
		}
	}
	return d == 0
}

// ---------------------------------------------------------------------------------------
// signatures of translated functions

type fieldRef struct {
	rel string // ".cfg.SplitLen"
	ty  gtyp
}

type gsig struct {
	coq      string
	fieldIn  []fieldRef // receiver fields passed in (read or written), sorted by rel
	params   []gtyp
	variadic bool
	clocks   int
	fieldOut []fieldRef // receiver fields written, sorted by rel
	emits    bool
	effs     []string // effect channels "$sleep", "$io", "$log" (in this order)
	results  []gtyp
	resCoq   []string           // Coq type of each result
	pfields  map[int][]fieldRef // pointer parameter i (params[i] == tRoot): the fields passed instead
}

var effType = map[string]gtyp{"$sleep": tEffSleep, "$io": tEffIO, "$log": tEffLog}

// functions whose logging calls with string arguments are OBSERVED (recorded in the $log channel)
// instead of dropped: the log record is part of what the property theorems speak about
var observeLog = map[string]bool{"Conn.write": true}

func (s *gsig) resultType() string {
	var ts []string
	for _, f := range s.fieldOut {
		ts = append(ts, f.ty.coq())
	}
	if s.emits {
		ts = append(ts, "list bytes")
	}
	for _, e := range s.effs {
		ts = append(ts, effType[e].coq())
	}
	for i := range s.results {
		ts = append(ts, s.resCoq[i])
	}
	if len(ts) == 0 {
		return "unit"
	}
	return strings.Join(ts, " * ")
}

// ---------------------------------------------------------------------------------------
// per-function translation state

type gvar struct {
	name  string
	ty    gtyp
	owner types.Object // for a field of a local struct variable: that variable
	idx   int
}

// a local variable holding a pointer to a freshly allocated struct (x := &T{...}): one
// variable per field of a supported type (scalar replacement; x itself never escapes)
type structVar struct {
	named  *types.Named
	fields []*gvar // declaration order, nil for fields of unsupported type
	byName map[string]*gvar
}

type ex struct {
	pre []nBind // binds to perform first, in order (body unused)
	t   string  // pure term, WITHOUT outer parentheses
	p   int     // 0 atom, 1 application, 2 infix
	ty  gtyp
	tys []gtyp // for tTuple
}

func arg(a ex) string { // as an argument of an application
	if a.p >= 1 {
		return "(" + a.t + ")"
	}
	return a.t
}
func opd(a ex) string { // as an operand of an infix operator
	if a.p >= 2 {
		return "(" + a.t + ")"
	}
	return a.t
}

type ctx struct {
	ret  func(vals []string) node // nil: return not allowed here (inside a loop)
	cont func() node              // continue; nil outside loops
}

type ftrans struct {
	oracles    []string // extra binders: results of I/O calls, "(iow1 : Z * bool)"
	stmtSlice  bool     // the body is a selected statement of the function: parameters and results are not translated
	pi         *pkgInfo
	info       *types.Info
	sigs       map[string]*gsig
	fname      string
	recv       types.Object
	vars       map[types.Object]*gvar
	hid        map[string]*gvar // "$out", ".cfg.SplitLen" (receiver-relative)
	structs    map[types.Object]*structVar
	extra      *[]string // definitions to emit before the function (package-level replacers)
	emitted    map[string]bool
	resStruct  *types.Named // result type *T
	section    *bool        // the Tracker section has been opened
	pkgs       map[string]*pkgInfo
	refOf      map[*gvar]refInfo
	inMapRange map[*gvar]bool
	rangeKey   map[*gvar]types.Object
	roots      []rootInfo
	fd         *ast.FuncDecl
	used       map[string]bool
	synth      map[*ast.Ident]ex
	ntmp       int
	nloop      int
	ncloop     int
	njoin      int
	clocks     int
	sig        *gsig
}

var coqReserved = func() map[string]bool {
	m := map[string]bool{}
	for _, w := range strings.Fields(`as at cofix else end exists exists2 fix for forall fun if IF in let match mod
		return Set Prop Type SProp then using where with by
		res bytes Ok Panic bind len llen beq slice_to slice_from slice byte_at elem_at elems_from has_prefix has_suffix
		index last_index contains split2 split_byte fields trim trim_space to_upper to_lower join set_elem
		replace_pairs length app negb andb orb true false nat N Z bool list unit tt O S fst snd nil cons
		fuel l p out tagmap tags_set go_map_set Some None option ST trk s_ r_ p_ v_ go_is_some go_strconv_Atoi
		kmap km_empty km_set km_get km_filter km_keys km_size isort c_ go_nbytes b64_encode b64_decode`) {
		m[w] = true
	}
	return m
}()

func (f *ftrans) fresh(base string) string {
	base = coqIdent(base)
	if base == "" || base == "_" {
		base = "x"
	}
	isTmp := func(s string) bool {
		// names the translator itself invents: t1, p1, k1, u1, loop1, now1
		for _, pre := range []string{"t", "p", "k", "u", "loop", "now"} {
			if strings.HasPrefix(s, pre) && len(s) > len(pre) {
				all := true
				for _, c := range s[len(pre):] {
					if c < '0' || c > '9' {
						all = false
					}
				}
				if all {
					return true
				}
			}
		}
		return strings.HasPrefix(s, "go_")
	}
	name := base
	if coqReserved[name] || isTmp(name) {
		name = base + "_"
	}
	for i := 1; f.used[name]; i++ {
		name = fmt.Sprintf("%s_%d", base, i)
	}
	f.used[name] = true
	return name
}

func (f *ftrans) tmp() string {
	f.ntmp++
	return fmt.Sprintf("t%d", f.ntmp)
}

func (f *ftrans) declare(o types.Object) *gvar {
	ty := goType(o.Type())
	if ty == tBad {
		failf("variable %s of unsupported type %s", o.Name(), o.Type())
	}
	f.needType(ty)
	v := &gvar{name: f.fresh(o.Name()), ty: ty}
	f.vars[o] = v
	return v
}

// ---------------------------------------------------------------------------------------
// receiver fields

// a root: the receiver, or a pointer parameter of a package struct type; fields reached
// through a root are hidden variables, keyed prefix+".a.b" (prefix "" for the receiver, "#i"
// for parameter i)
type rootInfo struct {
	obj    types.Object
	prefix string
}

func (f *ftrans) rootOf(id *ast.Ident) *rootInfo {
	o := f.info.Uses[id]
	if o == nil {
		return nil
	}
	for i := range f.roots {
		if f.roots[i].obj == o {
			return &f.roots[i]
		}
	}
	return nil
}

// fieldPath: e is root.a.b... denoting struct fields only, none of them reached through a
// value-modelled pointer -> prefix+".a.b", true
func (f *ftrans) fieldPath(e ast.Expr) (string, bool) {
	se, ok := e.(*ast.SelectorExpr)
	if !ok {
		return "", false
	}
	sel := f.info.Selections[se]
	if sel == nil || sel.Kind() != types.FieldVal {
		return "", false
	}
	if id, ok := se.X.(*ast.Ident); ok {
		if r := f.rootOf(id); r != nil {
			return r.prefix + "." + se.Sel.Name, true
		}
		return "", false
	}
	if goType(f.info.TypeOf(se.X)) != tBad {
		return "", false // p.F with p a value (a *state.Nick): a partial read, not a path
	}
	p, ok := f.fieldPath(se.X)
	if !ok {
		return "", false
	}
	return p + "." + se.Sel.Name, true
}

func (f *ftrans) hidName(key string) string {
	for _, r := range f.roots {
		if r.prefix != "" && strings.HasPrefix(key, r.prefix+".") {
			return coqIdent(r.obj.Name() + strings.ReplaceAll(key[len(r.prefix):], ".", "_"))
		}
	}
	return coqIdent(f.recv.Name() + strings.ReplaceAll(key, ".", "_"))
}

// rootMethod: fn is root.M with M a translated method -> its signature and the root's prefix
func (f *ftrans) rootMethod(fn *ast.SelectorExpr) (*gsig, string) {
	sel := f.info.Selections[fn]
	if sel == nil || sel.Kind() != types.MethodVal {
		return nil, ""
	}
	id, ok := fn.X.(*ast.Ident)
	if !ok {
		return nil, ""
	}
	r := f.rootOf(id)
	if r == nil {
		return nil, ""
	}
	callee := f.sigs[recvTypeName(sel.Recv())+"."+fn.Sel.Name]
	if callee == nil {
		failf("call of method %s which is not translated", fn.Sel.Name)
	}
	return callee, r.prefix
}

// scan the body for fields read/written through the roots, sends on .out, calls of translated
// methods on a root (their needs are inherited), Tracker calls (they update the tracker)
func (f *ftrans) scan(fd *ast.FuncDecl) (in map[string]gtyp, out map[string]bool, emits bool) {
	in = map[string]gtyp{}
	out = map[string]bool{}
	addIn := func(key string, t types.Type) {
		ty := goType(t)
		if ty == tBad {
			failf("field %s of unsupported type %s", key, t)
		}
		in[key] = ty
	}
	written := func(key string) {
		if strings.HasPrefix(key, "#") {
			failf("assignment through a pointer parameter")
		}
		out[key] = true
	}
	useCallee := func(callee *gsig, prefix string) {
		for _, fr := range callee.fieldIn {
			in[prefix+fr.rel] = fr.ty
		}
		for _, fr := range callee.fieldOut {
			written(prefix + fr.rel)
		}
		if callee.emits {
			if prefix != "" {
				failf("method that sends lines called on a pointer parameter")
			}
			emits = true
		}
	}
	target := func(l ast.Expr) {
		if ix, ok := l.(*ast.IndexExpr); ok {
			l = ix.X
		}
		if p, ok := f.fieldPath(l); ok {
			addIn(p, f.info.TypeOf(l))
			written(p)
		} else if base, _, _, ok := f.valueField(l); ok {
			if bp, ok := f.fieldPath(base); ok {
				addIn(bp, f.info.TypeOf(base))
				written(bp)
			}
		}
	}
	var visit func(n ast.Node) bool
	visit = func(n ast.Node) bool {
		if st, ok := n.(ast.Stmt); ok {
			switch f.dropKind(st) {
			case "log":
				for _, a := range st.(*ast.ExprStmt).X.(*ast.CallExpr).Args {
					if !f.isRuntimeExpr(a) {
						ast.Inspect(a, visit)
					}
				}
				return false
			case "mutex", "dispatch", "runtime":
				return false
			}
		}
		switch x := n.(type) {
		case *ast.SendStmt:
			if p, ok := f.fieldPath(x.Chan); ok && p == ".out" {
				emits = true
				ast.Inspect(x.Value, visit)
				return false
			}
			failf("send on a channel other than the receiver's out queue")
		case *ast.AssignStmt:
			for _, l := range x.Lhs {
				target(l)
			}
		case *ast.IncDecStmt:
			target(x.X)
		case *ast.CallExpr:
			switch fn := x.Fun.(type) {
			case *ast.SelectorExpr:
				if callee, prefix := f.rootMethod(fn); callee != nil {
					useCallee(callee, prefix)
					for _, a := range x.Args {
						ast.Inspect(a, visit)
					}
					return false
				}
				if d := goType(f.info.TypeOf(fn.X)).dyn(); d != nil && d.kind == kIface {
					if bp, ok := f.fieldPath(fn.X); ok {
						addIn(bp, f.info.TypeOf(fn.X))
						written(bp)
					}
				}
				if d := goType(f.info.TypeOf(fn.X)).dyn(); d != nil && d.kind == kObj {
					if bp, ok := f.fieldPath(fn.X); ok {
						addIn(bp, f.info.TypeOf(fn.X))
						if callee := f.sigs[d.named.Obj().Name()+"."+fn.Sel.Name]; callee != nil && len(callee.fieldOut) > 0 {
							written(bp)
						}
					}
				}
			case *ast.Ident:
				if _, isB := f.info.Uses[fn].(*types.Builtin); isB && fn.Name == "delete" && len(x.Args) == 2 {
					target(x.Args[0])
				}
				if o, ok := f.info.Uses[fn].(*types.Func); ok && o.Pkg() == f.pi.pkg.Types {
					if callee := f.sigs[o.Name()]; callee != nil {
						for i, pt := range callee.params {
							if pt == tRoot && i < len(x.Args) {
								id, ok := x.Args[i].(*ast.Ident)
								var r *rootInfo
								if ok {
									r = f.rootOf(id)
								}
								if r == nil {
									failf("pointer argument of %s is not the receiver or a pointer parameter", callee.coq)
								}
								for _, fr := range callee.pfields[i] {
									in[r.prefix+fr.rel] = fr.ty
								}
							}
						}
					}
				}
			}
		case *ast.IndexExpr:
			if md := goType(f.info.TypeOf(x.X)).dyn(); md != nil && md.kind == kRefMap && md.valTy.dyn().kind == kSPtr {
				if p, ok := f.fieldPath(x.X); ok {
					addIn(p, f.info.TypeOf(x.X))
					written(p)
				}
			}
		case *ast.SelectorExpr:
			if p, ok := f.fieldPath(x); ok {
				if goType(f.info.TypeOf(x)) != tBad {
					addIn(p, f.info.TypeOf(x))
				}
				// a struct-valued prefix such as conn.cfg occurs only inside a longer path
				return false
			}
		}
		return true
	}
	// ast.Inspect sees the outermost selector first, i.e. the longest path
	ast.Inspect(fd.Body, visit)
	return
}

func recvTypeName(t types.Type) string {
	if p, ok := t.(*types.Pointer); ok {
		t = p.Elem()
	}
	if n, ok := t.(*types.Named); ok {
		return n.Obj().Name()
	}
	return "?"
}

// ---------------------------------------------------------------------------------------
// local struct variables, package-level replacers, slice aliasing

// structField: e is x.F with x a local struct variable (x := &T{...})
func (f *ftrans) structField(e ast.Expr) (*gvar, bool) {
	se, ok := e.(*ast.SelectorExpr)
	if !ok {
		return nil, false
	}
	id, ok := se.X.(*ast.Ident)
	if !ok {
		return nil, false
	}
	sv := f.structs[f.info.Uses[id]]
	if sv == nil {
		return nil, false
	}
	v := sv.byName[se.Sel.Name]
	if v == nil {
		failf("field %s.%s of unsupported type", id.Name, se.Sel.Name)
	}
	return v, true
}

func structFields(named *types.Named) (*types.Struct, bool) {
	st, ok := named.Underlying().(*types.Struct)
	return st, ok
}

// type of a field of a local struct; time.Time fields are not modelled (left out)
func fieldType(t types.Type) gtyp {
	if n, ok := t.(*types.Named); ok && n.Obj().Pkg() != nil && n.Obj().Pkg().Path() == "time" && n.Obj().Name() == "Time" {
		return tBad
	}
	return goType(t)
}

// x := &T{F: e, ...}
func (f *ftrans) allocStruct(id *ast.Ident, cl *ast.CompositeLit, k func() node) node {
	named, ok := f.info.TypeOf(cl).(*types.Named)
	if !ok {
		failf("composite literal of type %s", f.info.TypeOf(cl))
	}
	st, ok := structFields(named)
	if !ok {
		failf("composite literal of type %s", named)
	}
	obj := f.info.Defs[id]
	if obj == nil {
		failf("struct allocation assigned to an existing variable")
	}
	sv := &structVar{named: named, byName: map[string]*gvar{}}
	vals := map[string]ex{}
	var pre []nBind
	for _, el := range cl.Elts {
		kv, ok := el.(*ast.KeyValueExpr)
		if !ok {
			failf("unkeyed struct literal")
		}
		v := f.expr(kv.Value)
		pre = append(pre, v.pre...)
		vals[kv.Key.(*ast.Ident).Name] = v
	}
	for i := 0; i < st.NumFields(); i++ {
		fl := st.Field(i)
		ty := fieldType(fl.Type())
		if ty == tBad {
			if _, set := vals[fl.Name()]; set {
				failf("field %s of unsupported type is set", fl.Name())
			}
			sv.fields = append(sv.fields, nil)
			continue
		}
		v := &gvar{name: f.fresh(id.Name + "_" + fl.Name()), ty: ty, owner: obj, idx: i}
		sv.fields = append(sv.fields, v)
		sv.byName[fl.Name()] = v
	}
	f.structs[obj] = sv
	body := k()
	for i := len(sv.fields) - 1; i >= 0; i-- {
		v := sv.fields[i]
		if v == nil {
			continue
		}
		val := v.ty.zero()
		if e, ok := vals[st.Field(i).Name()]; ok {
			if e.ty != v.ty {
				failf("field %s initialised with a %s", st.Field(i).Name(), e.ty.coq())
			}
			val = e.t
		}
		body = nSeq{pat: []string{v.name}, ty: v.ty.coq(), val: nLeaf{val}, body: body}
	}
	return withPre(pre, body)
}

// the Coq type of a *T result and the tuple returned for a struct variable
func ptrResultType(named *types.Named) string {
	st, _ := structFields(named)
	var ts []string
	for i := 0; i < st.NumFields(); i++ {
		if ty := fieldType(st.Field(i).Type()); ty != tBad {
			ts = append(ts, ty.coq())
		}
	}
	return "option (" + strings.Join(ts, " * ") + ")"
}

// package-level  var r = strings.NewReplacer(old1, new1, ...)  ->  a list of pairs for
// LineLib.replace_pairs (generic replacer: at each position the first pair, in argument
// order, whose old string is a prefix wins; old strings must be non-empty)
func (f *ftrans) replacer(v *types.Var) string {
	name := "go_" + f.pi.pkg.Name + "_" + coqIdent(v.Name())
	if f.emitted[name] {
		return name
	}
	var init ast.Expr
	for _, file := range f.pi.pkg.Syntax {
		for _, d := range file.Decls {
			gd, ok := d.(*ast.GenDecl)
			if !ok || gd.Tok != token.VAR {
				continue
			}
			for _, sp := range gd.Specs {
				vs := sp.(*ast.ValueSpec)
				for i, nm := range vs.Names {
					if f.info.Defs[nm] == v && i < len(vs.Values) && len(vs.Values) == len(vs.Names) {
						init = vs.Values[i]
					}
				}
			}
		}
	}
	call, ok := init.(*ast.CallExpr)
	if !ok {
		failf("package variable %s is not initialised by a call", v.Name())
	}
	se, ok := call.Fun.(*ast.SelectorExpr)
	pk, _ := se.X.(*ast.Ident)
	if !ok || pk == nil || se.Sel.Name != "NewReplacer" {
		failf("package variable %s is not a strings.NewReplacer", v.Name())
	}
	if pn, ok := f.info.Uses[pk].(*types.PkgName); !ok || pn.Imported().Path() != "strings" {
		failf("package variable %s is not a strings.NewReplacer", v.Name())
	}
	if len(call.Args)%2 != 0 || call.Ellipsis.IsValid() {
		failf("strings.NewReplacer with an odd number of arguments")
	}
	var pairs []string
	for i := 0; i < len(call.Args); i += 2 {
		o, ok1 := f.constArg(call.Args[i])
		n, ok2 := f.constArg(call.Args[i+1])
		if !ok1 || !ok2 || o == "" {
			failf("strings.NewReplacer argument that is not a constant / empty old string")
		}
		pairs = append(pairs, "("+bytesLit(o)+", "+bytesLit(n)+")")
	}
	*f.extra = append(*f.extra, fmt.Sprintf("(* var %s = strings.NewReplacer(...) *)\nDefinition %s : list (bytes * bytes) :=\n  [%s].\n",
		v.Name(), name, strings.Join(pairs, "; ")))
	f.emitted[name] = true
	return name
}

// --- slice aliasing.  Slices are translated as VALUES (list bytes).  That is faithful as
// long as no element is written through one slice and later read through another slice
// sharing its backing array.  aliasKey identifies a []string variable; aliasClasses unions
// variables that may share memory (x = y, x = y[a:b], x = append(y, ...), x = f(y));
// an element assignment x[i] = v is accepted only outside loops, when x does not share
// memory with a parameter and no OTHER member of its class occurs later in the function.
type aliasField struct {
	o types.Object
	f string
}

func (f *ftrans) aliasKey(e ast.Expr) interface{} {
	switch x := e.(type) {
	case *ast.ParenExpr:
		return f.aliasKey(x.X)
	case *ast.Ident:
		if o := f.info.Uses[x]; o != nil {
			return o
		}
		if o := f.info.Defs[x]; o != nil {
			return o
		}
	case *ast.SelectorExpr:
		if id, ok := x.X.(*ast.Ident); ok {
			if o := f.info.Uses[id]; o != nil {
				return aliasField{o, x.Sel.Name}
			}
		}
	}
	return nil
}

func (f *ftrans) aliasSources(e ast.Expr) []interface{} {
	switch x := e.(type) {
	case *ast.ParenExpr:
		return f.aliasSources(x.X)
	case *ast.Ident, *ast.SelectorExpr:
		if k := f.aliasKey(x); k != nil {
			return []interface{}{k}
		}
	case *ast.SliceExpr:
		return f.aliasSources(x.X)
	case *ast.CallExpr:
		if id, ok := x.Fun.(*ast.Ident); ok {
			if b, ok := f.info.Uses[id].(*types.Builtin); ok {
				if b.Name() == "append" && len(x.Args) > 0 {
					return f.aliasSources(x.Args[0])
				}
				return nil
			}
		}
		if se, ok := x.Fun.(*ast.SelectorExpr); ok {
			if id, ok := se.X.(*ast.Ident); ok {
				if pn, ok := f.info.Uses[id].(*types.PkgName); ok && pn.Imported().Path() == "strings" {
					return nil // strings.* return fresh slices
				}
			}
		}
		var out []interface{}
		for _, a := range x.Args {
			if goType(f.info.TypeOf(a)) == tStrs {
				out = append(out, f.aliasSources(a)...)
			}
		}
		return out
	}
	return nil
}

func (f *ftrans) elemWriteOK(fd *ast.FuncDecl, target ast.Expr, inLoop bool) {
	if inLoop {
		failf("element assignment inside a loop")
	}
	parent := map[interface{}]interface{}{}
	var find func(k interface{}) interface{}
	find = func(k interface{}) interface{} {
		if p, ok := parent[k]; ok && p != k {
			r := find(p)
			parent[k] = r
			return r
		}
		parent[k] = k
		return k
	}
	union := func(a, b interface{}) { parent[find(a)] = find(b) }
	ast.Inspect(fd.Body, func(n ast.Node) bool {
		if as, ok := n.(*ast.AssignStmt); ok && len(as.Lhs) == len(as.Rhs) {
			for i := range as.Lhs {
				if goType(f.info.TypeOf(as.Lhs[i])) != tStrs {
					continue
				}
				if lk := f.aliasKey(as.Lhs[i]); lk != nil {
					for _, src := range f.aliasSources(as.Rhs[i]) {
						union(lk, src)
					}
				}
			}
		}
		return true
	})
	tk := f.aliasKey(target)
	if tk == nil {
		failf("element assignment to %s", exprText(f.pi, target))
	}
	sig := f.info.Defs[fd.Name].(*types.Func).Type().(*types.Signature)
	for i := 0; i < sig.Params().Len(); i++ {
		if find(sig.Params().At(i)) == find(tk) {
			failf("element assignment to memory shared with parameter %s", sig.Params().At(i).Name())
		}
	}
	ast.Inspect(fd.Body, func(n ast.Node) bool {
		e, ok := n.(ast.Expr)
		if !ok || n.Pos() <= target.End() {
			return true
		}
		switch e.(type) {
		case *ast.Ident, *ast.SelectorExpr:
			if k := f.aliasKey(e); k != nil && k != tk {
				if _, known := parent[k]; known && find(k) == find(tk) {
					failf("element assignment to %s while %s may share its memory and is used later", exprText(f.pi, target), exprText(f.pi, e))
				}
			}
		}
		return true
	})
}

// ---------------------------------------------------------------------------------------
// expressions

func zlit(v constant.Value) string {
	s := v.ExactString()
	if strings.HasPrefix(s, "-") {
		return "(" + s + ")"
	}
	return s
}

func bytesLit(s string) string {
	if s == "" {
		return "[]"
	}
	return coqBytes(s)
}

func (f *ftrans) constant(tv types.TypeAndValue) ex {
	ty := goType(tv.Type)
	switch tv.Value.Kind() {
	case constant.String:
		return ex{t: bytesLit(constant.StringVal(tv.Value)), ty: tStr}
	case constant.Bool:
		return ex{t: fmt.Sprintf("%v", constant.BoolVal(tv.Value)), ty: tBool}
	case constant.Int:
		switch ty {
		case tByte:
			return ex{t: tv.Value.ExactString() + "%N", ty: tByte}
		case tInt:
			return ex{t: zlit(tv.Value), ty: tInt}
		}
	}
	failf("constant of unsupported type %s", tv.Type)
	return ex{}
}

func cat(pres ...[]nBind) []nBind {
	var out []nBind
	for _, p := range pres {
		out = append(out, p...)
	}
	return out
}

func (f *ftrans) expr(e ast.Expr) ex {
	if id, ok := e.(*ast.Ident); ok {
		if s, ok := f.synth[id]; ok {
			return s
		}
	}
	if tv, ok := f.info.Types[e]; ok && tv.Value != nil {
		return f.constant(tv)
	}
	if r, ok := f.objLit(e); ok {
		return r
	}
	switch x := e.(type) {
	case *ast.ParenExpr:
		return f.expr(x.X)
	case *ast.Ident:
		o := f.info.Uses[x]
		if v, ok := f.vars[o]; ok {
			return ex{t: v.name, ty: v.ty}
		}
		if r, ok := f.pkgVar(x); ok {
			return r
		}
		failf("identifier %s is not a local variable or constant", x.Name)
	case *ast.SelectorExpr:
		if p, ok := f.fieldPath(x); ok {
			if v, ok := f.hid[p]; ok {
				return ex{t: v.name, ty: v.ty}
			}
		}
		if v, ok := f.structField(x); ok {
			return ex{t: v.name, ty: v.ty}
		}
		if base, d, i, ok := f.valueField(x); ok {
			b := f.expr(base)
			t := f.tmp()
			return ex{pre: append(cat(b.pre), nBind{name: t, mterm: d.base + "_get_" + d.fields[i] + " " + arg(b)}), t: t, ty: d.ftys[i]}
		}
		failf("selector %s", exprText(f.pi, x))
	case *ast.UnaryExpr:
		a := f.expr(x.X)
		switch {
		case x.Op == token.NOT && a.ty == tBool:
			return ex{pre: a.pre, t: "negb " + arg(a), p: 1, ty: tBool}
		case x.Op == token.SUB && a.ty == tInt:
			return ex{pre: a.pre, t: "- " + arg(a), p: 2, ty: tInt}
		}
		failf("unary operator %s", x.Op)
	case *ast.BinaryExpr:
		return f.binary(x)
	case *ast.IndexExpr:
		if r, ok := f.refMapGet(x); ok {
			return r
		}
		b, i := f.expr(x.X), f.expr(x.Index)
		pre := cat(b.pre, i.pre)
		t := f.tmp()
		switch {
		case b.ty == tStr && i.ty == tInt:
			return ex{pre: append(pre, nBind{name: t, mterm: "byte_at " + arg(b) + " " + arg(i)}), t: t, ty: tByte}
		case b.ty == tStrs && i.ty == tInt:
			return ex{pre: append(pre, nBind{name: t, mterm: "elem_at " + arg(b) + " " + arg(i)}), t: t, ty: tStr}
		case b.ty == tKMap && i.ty == tStr:
			f.ntmp-- // m[k] on a map[string]bool: total, a missing key gives false
			return ex{pre: pre, t: "go_kmap_get " + arg(b) + " " + arg(i), p: 1, ty: tBool}
		}
		failf("index expression on %s", exprText(f.pi, x.X))
	case *ast.SliceExpr:
		if x.Slice3 {
			failf("3-index slice")
		}
		b := f.expr(x.X)
		pre := cat(b.pre)
		var lo, hi *ex
		if x.Low != nil {
			l := f.expr(x.Low)
			pre = append(pre, l.pre...)
			lo = &l
		}
		if x.High != nil {
			h := f.expr(x.High)
			pre = append(pre, h.pre...)
			hi = &h
		}
		if (lo != nil && lo.ty != tInt) || (hi != nil && hi.ty != tInt) {
			failf("slice bound that is not an int")
		}
		var m string
		switch {
		case lo == nil && hi == nil:
			return ex{pre: pre, t: b.t, p: b.p, ty: b.ty}
		case b.ty == tStr && lo == nil:
			m = "slice_to " + arg(b) + " " + arg(*hi)
		case b.ty == tStr && hi == nil:
			m = "slice_from " + arg(b) + " " + arg(*lo)
		case b.ty == tStr:
			m = "slice " + arg(b) + " " + arg(*lo) + " " + arg(*hi)
		case b.ty == tStrs && hi == nil:
			m = "elems_from " + arg(b) + " " + arg(*lo)
		default:
			failf("slice expression %s", exprText(f.pi, x))
		}
		t := f.tmp()
		return ex{pre: append(pre, nBind{name: t, mterm: m}), t: t, ty: b.ty}
	case *ast.CompositeLit:
		if goType(f.info.TypeOf(x)) == tStrs {
			var pre []nBind
			var ts []string
			for _, el := range x.Elts {
				if _, ok := el.(*ast.KeyValueExpr); ok {
					failf("keyed composite literal")
				}
				a := f.expr(el)
				if a.ty != tStr {
					failf("composite literal element of type %s", a.ty.coq())
				}
				pre = append(pre, a.pre...)
				ts = append(ts, a.t)
			}
			return ex{pre: pre, t: "[" + strings.Join(ts, "; ") + "]", ty: tStrs}
		}
		failf("composite literal of type %s", f.info.TypeOf(x))
	case *ast.CallExpr:
		return f.call(x)
	}
	failf("expression %s (%T)", exprText(f.pi, e), e)
	return ex{}
}

// wrapMWith: the binds, then [last], as one term (tuple patterns through an explicit bind)
func wrapMWith(pre []nBind, last string) string {
	if len(pre) == 0 {
		return last
	}
	p := pre[0]
	rest := wrapMWith(pre[1:], last)
	if len(p.pat) > 1 {
		return "bind " + atom(p.mterm) + " (fun p_ => let '" + tuple(p.pat) + " := p_ in " + rest + ")"
	}
	n := p.name
	if len(p.pat) == 1 {
		n = p.pat[0]
	}
	return n + " <- " + p.mterm + " ;; " + rest
}

// wrapM: the expression as ONE term of type res ty
func wrapM(a ex) string {
	var b strings.Builder
	for _, p := range a.pre {
		if p.effect || len(p.pat) > 0 {
			failf("call with effects under && or ||")
		}
		b.WriteString(p.name + " <- " + p.mterm + " ;; ")
	}
	b.WriteString("Ok " + arg(a))
	return b.String()
}

func (f *ftrans) binary(x *ast.BinaryExpr) ex {
	if x.Op == token.EQL || x.Op == token.NEQ {
		var other ast.Expr
		if f.isNil(x.Y) {
			other = x.X
		} else if f.isNil(x.X) {
			other = x.Y
		}
		if other != nil {
			a := f.expr(other)
			if a.ty == tErr {
				if x.Op == token.EQL {
					return ex{pre: a.pre, t: "negb " + arg(a), p: 1, ty: tBool}
				}
				return ex{pre: a.pre, t: a.t, p: a.p, ty: tBool}
			}
			if d := a.ty.dyn(); (d != nil && (d.kind == kSPtr || d.kind == kIface || d.kind == kPure)) || a.ty == tMap || a.ty == tNBytes {
				t := "go_is_some " + arg(a)
				if x.Op == token.EQL {
					t = "negb (" + t + ")"
				}
				return ex{pre: a.pre, t: t, p: 1, ty: tBool}
			}
			failf("comparison of a %s with nil", a.ty.coq())
		}
	}
	a, b := f.expr(x.X), f.expr(x.Y)
	if x.Op == token.LAND || x.Op == token.LOR {
		if a.ty != tBool || b.ty != tBool {
			failf("logical operator on non-bool")
		}
		op, short := " && ", "Ok false"
		if x.Op == token.LOR {
			op, short = " || ", "Ok true"
		}
		if len(b.pre) == 0 {
			return ex{pre: a.pre, t: opd(a) + op + opd(b), p: 2, ty: tBool}
		}
		// the right operand has a partial operation: keep the short-circuit
		t := f.tmp()
		// variables re-bound by calls with effects in the right operand: returned with the value
		var rebound []string
		seen := map[string]bool{}
		for _, p := range b.pre {
			if !p.effect {
				continue
			}
			for _, n := range append(append([]string{}, p.pat...), p.name) {
				if n != "" && !isTmpName(n) && !seen[n] {
					seen[n] = true
					rebound = append(rebound, n)
				}
			}
		}
		if len(rebound) > 0 {
			val := tuple(append(append([]string{}, rebound...), arg(b)))
			skip := "Ok " + tuple(append(append([]string{}, rebound...), strings.TrimPrefix(short, "Ok ")))
			eval := wrapMWith(b.pre, "Ok "+val)
			var m string
			if x.Op == token.LAND {
				m = "(if " + a.t + " then " + eval + " else " + skip + ")"
			} else {
				m = "(if " + a.t + " then " + skip + " else " + eval + ")"
			}
			return ex{pre: append(cat(a.pre), nBind{pat: append(append([]string{}, rebound...), t), mterm: m, effect: true}), t: t, ty: tBool}
		}
		var m string
		if x.Op == token.LAND {
			m = "(if " + a.t + " then " + wrapM(b) + " else " + short + ")"
		} else {
			m = "(if " + a.t + " then " + short + " else " + wrapM(b) + ")"
		}
		return ex{pre: append(cat(a.pre), nBind{name: t, mterm: m}), t: t, ty: tBool}
	}
	if a.ty != b.ty {
		failf("operands of %s have different types", x.Op)
	}
	pre := cat(a.pre, b.pre)
	A, B := opd(a), opd(b)
	infix := func(op string, ty gtyp) ex { return ex{pre: pre, t: A + " " + op + " " + B, p: 2, ty: ty} }
	app := func(fn string, ty gtyp) ex { return ex{pre: pre, t: fn + " " + arg(a) + " " + arg(b), p: 1, ty: ty} }
	scopedN := func(l, op, r string) ex { return ex{pre: pre, t: "(" + l + " " + op + " " + r + ")%N", ty: tBool} }
	constNonZero := func() bool {
		tv, ok := f.info.Types[x.Y]
		return ok && tv.Value != nil && tv.Value.Kind() == constant.Int && constant.Sign(tv.Value) != 0
	}
	switch a.ty {
	case tStr:
		switch x.Op {
		case token.ADD:
			return infix("++", tStr)
		case token.EQL:
			return app("beq", tBool)
		case token.NEQ:
			return ex{pre: pre, t: "negb (beq " + arg(a) + " " + arg(b) + ")", p: 1, ty: tBool}
		}
	case tInt:
		// Go int is 64-bit two's complement; Z is unbounded: overflow is NOT modelled
		// (design note, "trusted").  / and % truncate towards zero = Z.quot / Z.rem;
		// division by anything but a non-zero constant can panic -> partial op.
		switch x.Op {
		case token.ADD:
			return infix("+", tInt)
		case token.SUB:
			return infix("-", tInt)
		case token.MUL:
			return infix("*", tInt)
		case token.QUO, token.REM:
			fn := map[token.Token]string{token.QUO: "quot", token.REM: "rem"}[x.Op]
			if constNonZero() {
				return app("Z."+fn, tInt)
			}
			t := f.tmp()
			return ex{pre: append(pre, nBind{name: t, mterm: "go_int_" + fn + " " + arg(a) + " " + arg(b)}), t: t, ty: tInt}
		case token.EQL:
			return infix("=?", tBool)
		case token.NEQ:
			return ex{pre: pre, t: "negb (" + A + " =? " + B + ")", p: 1, ty: tBool}
		case token.LSS:
			return infix("<?", tBool)
		case token.LEQ:
			return infix("<=?", tBool)
		case token.GTR:
			return infix(">?", tBool)
		case token.GEQ:
			return infix(">=?", tBool)
		}
	case tByte:
		// uint8 arithmetic wraps modulo 256 (go_byte_* in the prelude)
		switch x.Op {
		case token.ADD:
			return app("go_byte_add", tByte)
		case token.SUB:
			return app("go_byte_sub", tByte)
		case token.MUL:
			return app("go_byte_mul", tByte)
		case token.QUO:
			if constNonZero() {
				return ex{pre: pre, t: "(" + A + " / " + B + ")%N", ty: tByte}
			}
		case token.REM:
			if constNonZero() {
				return ex{pre: pre, t: "(" + A + " mod " + B + ")%N", ty: tByte}
			}
		case token.EQL:
			return scopedN(A, "=?", B)
		case token.NEQ:
			return ex{pre: pre, t: "negb (" + A + " =? " + B + ")%N", p: 1, ty: tBool}
		case token.LSS:
			return scopedN(A, "<?", B)
		case token.LEQ:
			return scopedN(A, "<=?", B)
		case token.GTR:
			return scopedN(B, "<?", A)
		case token.GEQ:
			return scopedN(B, "<=?", A)
		}
	case tBool:
		switch x.Op {
		case token.EQL:
			return app("Bool.eqb", tBool)
		case token.NEQ:
			return ex{pre: pre, t: "negb (Bool.eqb " + arg(a) + " " + arg(b) + ")", p: 1, ty: tBool}
		}
	}
	failf("operator %s on %s", x.Op, a.ty.coq())
	return ex{}
}

func (f *ftrans) constArg(e ast.Expr) (string, bool) {
	tv, ok := f.info.Types[e]
	if !ok || tv.Value == nil || tv.Value.Kind() != constant.String {
		return "", false
	}
	return constant.StringVal(tv.Value), true
}

func (f *ftrans) args(es []ast.Expr) (pre []nBind, as []ex) {
	for _, e := range es {
		a := f.expr(e)
		pre = append(pre, a.pre...)
		a.pre = nil
		as = append(as, a)
	}
	return
}

func (f *ftrans) call(x *ast.CallExpr) ex {
	// conversions
	if tv, ok := f.info.Types[x.Fun]; ok && tv.IsType() {
		if len(x.Args) != 1 {
			failf("conversion with %d arguments", len(x.Args))
		}
		a := f.expr(x.Args[0])
		to := goType(tv.Type)
		switch {
		case to == a.ty && to != tBad:
			return a // string([]byte), time.Duration(int), ...
		case to == tStr && a.ty == tByte:
			return ex{pre: a.pre, t: "go_string_of_byte " + arg(a), p: 1, ty: tStr}
		case to == tInt && a.ty == tByte:
			return ex{pre: a.pre, t: "Z.of_N " + arg(a), p: 1, ty: tInt}
		}
		failf("conversion %s", exprText(f.pi, x))
	}
	if r, ok := f.base64Call(x); ok {
		return r
	}
	switch fn := x.Fun.(type) {
	case *ast.Ident:
		switch o := f.info.Uses[fn].(type) {
		case *types.Builtin:
			return f.builtin(o.Name(), x)
		case *types.Func:
			callee := f.sigs[o.Name()]
			if callee == nil || o.Pkg() != f.pi.pkg.Types {
				failf("call of %s which is not translated", o.Name())
			}
			return f.callSig(callee, x, "")
		}
	case *ast.SelectorExpr:
		// package-qualified function
		if id, ok := fn.X.(*ast.Ident); ok {
			if pn, ok := f.info.Uses[id].(*types.PkgName); ok {
				return f.stdcall(pn.Imported().Path(), fn.Sel.Name, x)
			}
		}
		// a function-typed field (cfg.NewNick): applied as a pure function
		if sl := f.info.Selections[fn]; sl != nil && sl.Kind() == types.FieldVal && goType(f.info.TypeOf(fn)).dyn() != nil && goType(f.info.TypeOf(fn)).dyn().kind == kFunc {
			fv := f.expr(fn)
			pre, as := f.args(x.Args)
			sg := f.info.TypeOf(fn).Underlying().(*types.Signature)
			if len(as) != sg.Params().Len() {
				failf("call of %s", exprText(f.pi, fn))
			}
			t := fv.t
			for i, a := range as {
				if a.ty != basicType(sg.Params().At(i).Type()) {
					failf("call of %s: argument %d", exprText(f.pi, fn), i)
				}
				t += " " + arg(a)
			}
			return ex{pre: cat(fv.pre, pre), t: t, p: 1, ty: basicType(sg.Results().At(0).Type())}
		}
		if sel := f.info.Selections[fn]; sel != nil && sel.Kind() == types.MethodVal {
			// conn.io.WriteString / Flush: recorded in the I/O channel; the result is an oracle
			switch f.ioMethod(x) {
			case "WriteString":
				a := f.expr(x.Args[0])
				if a.ty != tStr {
					failf("WriteString of a %s", a.ty.coq())
				}
				io := f.hid["$io"]
				o := fmt.Sprintf("iow%d", len(f.oracles)+1)
				f.oracles = append(f.oracles, "("+o+" : Z * bool)")
				pre := append(append([]nBind{}, a.pre...), nBind{name: io.name, mterm: "Ok (" + io.name + " ++ [(" + a.t + ", false)])", effect: true})
				return ex{pre: pre, t: o, ty: tTuple, tys: []gtyp{tInt, tErr}}
			case "Flush":
				io := f.hid["$io"]
				o := fmt.Sprintf("ioe%d", len(f.oracles)+1)
				f.oracles = append(f.oracles, "("+o+" : bool)")
				return ex{pre: []nBind{{name: io.name, mterm: "Ok (" + io.name + " ++ [([], true)])", effect: true}}, t: o, ty: tErr}
			}
			// a method of the state.Tracker interface
			if r, ok := f.trackerCall(fn, x); ok {
				return r
			}
			// p.Equals(q) = reflect.DeepEqual on value-modelled pointers
			if r, ok := f.equalsCall(fn, x); ok {
				return r
			}
			// a method of the sasl.Client oracle
			if r, ok := f.saslCall(fn, x); ok {
				return r
			}
			// a method of an object with one modelled field (capSet)
			if r, ok := f.objCall(fn, x); ok {
				return r
			}
			// (*strings.Replacer).Replace on a package-level replacer
			if id, ok := fn.X.(*ast.Ident); ok && fn.Sel.Name == "Replace" && len(x.Args) == 1 {
				if v, ok := f.info.Uses[id].(*types.Var); ok && v.Parent() == f.pi.pkg.Types.Scope() {
					name := f.replacer(v)
					a := f.expr(x.Args[0])
					if a.ty != tStr {
						failf("Replace of a non-string")
					}
					return ex{pre: a.pre, t: "replace_pairs " + name + " " + arg(a), p: 1, ty: tStr}
				}
			}
			// method on the receiver or on a pointer parameter
			if callee, prefix := f.rootMethod(fn); callee != nil {
				return f.callSig(callee, x, prefix)
			}
			// time.Time.Sub on clock readings
			if n, ok := sel.Recv().(*types.Named); ok && n.Obj().Pkg() != nil && n.Obj().Pkg().Path() == "time" && n.Obj().Name() == "Time" && fn.Sel.Name == "Sub" && len(x.Args) == 1 {
				a, b := f.expr(fn.X), f.expr(x.Args[0])
				return ex{pre: cat(a.pre, b.pre), t: opd(a) + " - " + opd(b), p: 2, ty: tInt}
			}
		}
	}
	failf("call %s", exprText(f.pi, x.Fun))
	return ex{}
}

func (f *ftrans) builtin(name string, x *ast.CallExpr) ex {
	switch name {
	case "len":
		a := f.expr(x.Args[0])
		switch a.ty {
		case tStr:
			return ex{pre: a.pre, t: "len " + arg(a), p: 1, ty: tInt}
		case tStrs:
			return ex{pre: a.pre, t: "llen " + arg(a), p: 1, ty: tInt}
		case tKMap:
			return ex{pre: a.pre, t: "km_size " + arg(a), p: 1, ty: tInt}
		case tNBytes:
			return ex{pre: a.pre, t: "len (go_nbytes " + arg(a) + ")", p: 1, ty: tInt}
		}
	case "append":
		a := f.expr(x.Args[0])
		if a.ty != tStrs {
			failf("append on %s", a.ty.coq())
		}
		if x.Ellipsis.IsValid() {
			if len(x.Args) != 2 {
				failf("append with ... and %d arguments", len(x.Args))
			}
			b := f.expr(x.Args[1])
			if b.ty != tStrs {
				failf("append(... x...) with x not a []string")
			}
			return ex{pre: cat(a.pre, b.pre), t: opd(a) + " ++ " + opd(b), p: 2, ty: tStrs}
		}
		p, as := f.args(x.Args[1:])
		var ts []string
		for _, e := range as {
			if e.ty != tStr {
				failf("append of a non-string element")
			}
			ts = append(ts, e.t)
		}
		return ex{pre: cat(a.pre, p), t: opd(a) + " ++ [" + strings.Join(ts, "; ") + "]", p: 2, ty: tStrs}
	case "make":
		if goType(f.info.TypeOf(x)) == tMap && len(x.Args) == 1 {
			return ex{t: "Some []", p: 1, ty: tMap} // make(map[string]string)
		}
		if goType(f.info.TypeOf(x)) == tKMap && len(x.Args) == 1 {
			return ex{t: "km_empty", ty: tKMap} // make(map[string]bool)
		}
		if goType(f.info.TypeOf(x)) == tStrs && len(x.Args) == 3 {
			if tv := f.info.Types[x.Args[1]]; tv.Value != nil && constant.Sign(tv.Value) == 0 {
				c := f.expr(x.Args[2]) // make([]string, 0, cap): cap is evaluated (a negative cap would panic: not modelled)
				return ex{pre: c.pre, t: "[]", ty: tStrs}
			}
		}
		if goType(f.info.TypeOf(x)) == tStrs && len(x.Args) >= 2 {
			if tv := f.info.Types[x.Args[1]]; tv.Value != nil && constant.Sign(tv.Value) == 0 {
				return ex{t: "[]", ty: tStrs} // make([]string, 0[, cap])
			}
		}
	}
	failf("builtin %s", exprText(f.pi, x))
	return ex{}
}

func (f *ftrans) stdcall(pkg, name string, x *ast.CallExpr) ex {
	if pkg == "time" && name == "Now" && len(x.Args) == 0 {
		f.clocks++
		return ex{t: fmt.Sprintf("now%d", f.clocks), ty: tInt}
	}
	if pkg == "strconv" && name == "Atoi" && len(x.Args) == 1 {
		// not transliterated: a variable of the section (instantiated with the model's atoi)
		if !f.emitted["$atoi"] {
			f.emitted["$atoi"] = true
			f.openSection()
			*f.extra = append(*f.extra, "(* strconv.Atoi: (value, err) — a variable, as every stdlib function that is not transliterated *)\nVariable go_strconv_Atoi : bytes -> Z * bool.\n")
		}
		a := f.expr(x.Args[0])
		if a.ty != tStr {
			failf("strconv.Atoi of a %s", a.ty.coq())
		}
		return ex{pre: a.pre, t: "go_strconv_Atoi " + arg(a), p: 1, ty: tTuple, tys: []gtyp{tInt, tErr}}
	}
	if pkg == "net" && name == "JoinHostPort" && len(x.Args) == 2 {
		if !f.emitted["$joinhostport"] {
			f.emitted["$joinhostport"] = true
			f.openSection()
			*f.extra = append(*f.extra, "(* net.JoinHostPort — a variable, as every stdlib function that is not transliterated *)\nVariable go_net_JoinHostPort : bytes -> bytes -> bytes.\n")
		}
		pre, as := f.args(x.Args)
		if as[0].ty != tStr || as[1].ty != tStr {
			failf("net.JoinHostPort")
		}
		return ex{pre: pre, t: "go_net_JoinHostPort " + arg(as[0]) + " " + arg(as[1]), p: 1, ty: tStr}
	}
	if pkg != "strings" {
		failf("call %s.%s", pkg, name)
	}
	pre, as := f.args(x.Args)
	want := func(w ...gtyp) {
		if len(as) != len(w) {
			failf("strings.%s with %d arguments", name, len(as))
		}
		for i := range w {
			if as[i].ty != w[i] {
				failf("strings.%s: argument %d has type %s", name, i, as[i].ty.coq())
			}
		}
	}
	app := func(fn string, ty gtyp, n int) ex {
		t := fn
		for i := 0; i < n; i++ {
			t += " " + arg(as[i])
		}
		return ex{pre: pre, t: t, p: 1, ty: ty}
	}
	if fn, ok := go2coqStrings[name]; ok {
		want(fn.args...)
		return app(fn.coq, fn.res, len(fn.args))
	}
	switch name {
	case "SplitN":
		// split2 models SplitN(s, sep, 2) for a non-empty separator only
		want(tStr, tStr, tInt)
		sep, ok := f.constArg(x.Args[1])
		if tv := f.info.Types[x.Args[2]]; !ok || sep == "" || tv.Value == nil || tv.Value.ExactString() != "2" {
			failf("strings.SplitN other than (s, non-empty constant, 2)")
		}
		return app("split2", tStrs, 2)
	case "Split":
		// split_byte models Split(s, sep) for a one-byte separator only
		want(tStr, tStr)
		sep, ok := f.constArg(x.Args[1])
		if !ok || len(sep) != 1 {
			failf("strings.Split with a separator that is not a one-byte constant")
		}
		return ex{pre: pre, t: fmt.Sprintf("split_byte %s %d%%N", arg(as[0]), sep[0]), p: 1, ty: tStrs}
	case "Trim":
		// trim works on bytes: the same as Go's rune-wise Trim for an ASCII cutset
		want(tStr, tStr)
		cut, ok := f.constArg(x.Args[1])
		if !ok {
			failf("strings.Trim with a non-constant cutset")
		}
		for i := 0; i < len(cut); i++ {
			if cut[i] >= 0x80 {
				failf("strings.Trim with a non-ASCII cutset")
			}
		}
		return app("trim", tStr, 2)
	}
	failf("call strings.%s", name)
	return ex{}
}

// callSig: call of a translated function, or of a translated method on a root (prefix = the
// root's key prefix).  Effects of the callee (receiver fields written, lines sent) re-bind the
// caller's hidden variables, in evaluation order.
func (f *ftrans) callSig(callee *gsig, x *ast.CallExpr, prefix string) ex {
	for _, r := range callee.results {
		if r == tPtr {
			failf("call of %s which returns a struct pointer", callee.coq)
		}
	}
	pre, argv := f.callArgs(callee, x, prefix)
	var pat []string
	for _, fr := range callee.fieldOut {
		if prefix != "" {
			failf("call of %s, which writes fields, on a pointer parameter", callee.coq)
		}
		pat = append(pat, f.hid[fr.rel].name)
	}
	outTmp := ""
	if callee.emits {
		if prefix != "" {
			failf("call of %s, which sends lines, on a pointer parameter", callee.coq)
		}
		outTmp = f.tmp()
		pat = append(pat, outTmp)
	}
	t := "tt"
	if len(callee.results) > 0 {
		t = f.tmp()
		pat = append(pat, t)
	}
	b := nBind{mterm: callee.coq + argv, effect: len(callee.fieldOut) > 0 || callee.emits}
	switch len(pat) {
	case 0:
		b.name = f.tmp()
	case 1:
		b.name = pat[0]
	default:
		b.pat = pat
	}
	pre = append(pre, b)
	if callee.emits {
		out := f.hid["$out"]
		pre = append(pre, nBind{name: out.name, mterm: "Ok (" + out.name + " ++ " + outTmp + ")", effect: true})
	}
	switch len(callee.results) {
	case 0:
		return ex{pre: pre, t: "tt", ty: tUnit}
	case 1:
		return ex{pre: pre, t: t, ty: callee.results[0]}
	}
	return ex{pre: pre, t: t, ty: tTuple, tys: callee.results}
}

func (f *ftrans) callArgs(callee *gsig, x *ast.CallExpr, prefix string) (pre []nBind, argv string) {
	var ts []string
	for _, fr := range callee.fieldIn {
		v := f.hid[prefix+fr.rel]
		if v == nil {
			failf("internal: field %s not collected", prefix+fr.rel)
		}
		ts = append(ts, v.name)
	}
	np := len(callee.params)
	if callee.variadic {
		np--
	}
	if len(x.Args) < np {
		failf("call of %s with too few arguments", callee.coq)
	}
	as := make([]ex, len(x.Args))
	for i, e := range x.Args {
		if i < len(callee.params) && callee.params[i] == tRoot {
			continue
		}
		a := f.expr(e)
		pre = append(pre, a.pre...)
		a.pre = nil
		as[i] = a
	}
	for i := 0; i < np; i++ {
		if callee.params[i] == tRoot {
			id, ok := x.Args[i].(*ast.Ident)
			var r *rootInfo
			if ok {
				r = f.rootOf(id)
			}
			if r == nil {
				failf("pointer argument of %s is not the receiver or a pointer parameter", callee.coq)
			}
			for _, fr := range callee.pfields[i] {
				v := f.hid[r.prefix+fr.rel]
				if v == nil {
					failf("internal: field %s not collected", r.prefix+fr.rel)
				}
				ts = append(ts, v.name)
			}
			continue
		}
		if as[i].ty != callee.params[i] {
			failf("argument %d of %s has type %s", i, callee.coq, as[i].ty.coq())
		}
		ts = append(ts, arg(as[i]))
	}
	if callee.variadic {
		if x.Ellipsis.IsValid() {
			if len(x.Args) != np+1 || as[np].ty != tStrs {
				failf("variadic call of %s", callee.coq)
			}
			ts = append(ts, arg(as[np]))
		} else {
			var els []string
			for i := np; i < len(as); i++ {
				if as[i].ty != tStr {
					failf("variadic argument of %s has type %s", callee.coq, as[i].ty.coq())
				}
				els = append(els, as[i].t)
			}
			ts = append(ts, "["+strings.Join(els, "; ")+"]")
		}
	} else if len(x.Args) != np {
		failf("call of %s with %d arguments", callee.coq, len(x.Args))
	}
	// the callee's clock readings are clock readings of the caller, in order
	for i := 0; i < callee.clocks; i++ {
		f.clocks++
		ts = append(ts, fmt.Sprintf("now%d", f.clocks))
	}
	for _, t := range ts {
		argv += " " + t
	}
	return
}

// ---------------------------------------------------------------------------------------
// statements

func withPre(pre []nBind, body node) node {
	for i := len(pre) - 1; i >= 0; i-- {
		body = nBind{name: pre[i].name, pat: pre[i].pat, mterm: pre[i].mterm, effect: pre[i].effect, body: body}
	}
	return body
}

type lhsRef struct {
	v     *gvar
	blank bool
}

func (f *ftrans) lhs(e ast.Expr, define bool) lhsRef {
	switch x := e.(type) {
	case *ast.Ident:
		if x.Name == "_" {
			return lhsRef{blank: true}
		}
		if define {
			if o := f.info.Defs[x]; o != nil {
				return lhsRef{v: f.declare(o)}
			}
		}
		if v, ok := f.vars[f.info.Uses[x]]; ok {
			return lhsRef{v: v}
		}
	case *ast.SelectorExpr:
		if p, ok := f.fieldPath(x); ok {
			if v := f.hid[p]; v != nil {
				return lhsRef{v: v}
			}
		}
		if v, ok := f.structField(x); ok {
			return lhsRef{v: v}
		}
	}
	failf("assignment to %s", exprText(f.pi, e))
	return lhsRef{}
}

// assign vals (already evaluated, pure terms) to the left-hand sides, then k
func (f *ftrans) bindAll(ls []lhsRef, vals []ex, k func() node) node {
	var pat, ts []string
	var ty string
	for i, l := range ls {
		if l.blank {
			continue
		}
		if l.v.ty != vals[i].ty {
			failf("assignment of %s to a variable of type %s", vals[i].ty.coq(), l.v.ty.coq())
		}
		pat = append(pat, l.v.name)
		ts = append(ts, vals[i].t)
		ty = l.v.ty.coq()
	}
	if len(pat) == 0 {
		return k()
	}
	if len(pat) > 1 {
		ty = ""
	}
	return nSeq{pat: pat, ty: ty, val: nLeaf{tuple(ts)}, body: k()}
}

func isTmpName(s string) bool {
	if len(s) < 2 || s[0] != 't' {
		return false
	}
	for _, c := range s[1:] {
		if c < '0' || c > '9' {
			return false
		}
	}
	return true
}

func (f *ftrans) assign(lhsE, rhsE []ast.Expr, tok token.Token, c ctx, k func() node) node {
	define := tok == token.DEFINE
	if len(lhsE) == 1 && len(rhsE) == 1 {
		// x := &T{...}
		if u, ok := rhsE[0].(*ast.UnaryExpr); ok && u.Op == token.AND && define {
			if cl, ok := u.X.(*ast.CompositeLit); ok {
				if id, ok := lhsE[0].(*ast.Ident); ok {
					return f.allocStruct(id, cl, k)
				}
			}
		}
		// p := m[k] for a store of value-modelled objects: p stays linked to the entry
		if ix, ok := rhsE[0].(*ast.IndexExpr); ok && define {
			if md := goType(f.info.TypeOf(ix.X)).dyn(); md != nil && md.kind == kRefMap && md.valTy.dyn().kind == kSPtr {
				kid, isId := ix.Index.(*ast.Ident)
				if !isId {
					failf("store lookup with a key that is not a variable")
				}
				v := f.expr(rhsE[0])
				m := f.lhs(ix.X, false)
				kv := f.expr(kid)
				l := f.lhs(lhsE[0], true)
				if l.blank || m.v == nil {
					failf("assignment from %s", exprText(f.pi, rhsE[0]))
				}
				f.refOf[l.v] = refInfo{m.v, kv.t}
				return withPre(v.pre, f.bindAll([]lhsRef{l}, []ex{v}, k))
			}
		}
		// p.F = v through a value-modelled pointer
		if base, d, i, ok := f.valueField(lhsE[0]); ok && tok == token.ASSIGN {
			v := f.expr(rhsE[0])
			bl := f.lhs(base, false)
			if bl.blank || v.ty != d.ftys[i] {
				failf("assignment to %s", exprText(f.pi, lhsE[0]))
			}
			f.ptrWriteOK(base, c.cont != nil)
			body := k
			if ref, isRef := f.refOf[bl.v]; isRef {
				// ... and through it to the store entry it came from
				sd := ref.m.ty.dyn()
				body = func() node {
					return nBind{name: ref.m.name, mterm: "(match " + bl.v.name + " with Some v_ => Ok (" + sd.base + "_set " + ref.m.name + " " + ref.key + " v_) | None => Panic end)", body: k()}
				}
			}
			return withPre(v.pre, nBind{name: bl.v.name, mterm: d.base + "_set_" + d.fields[i] + " " + bl.v.name + " " + arg(v), body: body()})
		}
		// x[i] = v on a map or a []string (index operands and v first, then the assignment)
		if ix, ok := lhsE[0].(*ast.IndexExpr); ok && tok == token.ASSIGN {
			i, v := f.expr(ix.Index), f.expr(rhsE[0])
			base := f.lhs(ix.X, false)
			if base.blank {
				failf("assignment to %s", exprText(f.pi, lhsE[0]))
			}
			var m string
			switch {
			case base.v.ty == tKMap && i.ty == tStr && v.ty == tBool:
				if f.inMapRange[base.v] {
					failf("insertion into a map while ranging over it")
				}
				return withPre(cat(i.pre, v.pre), nSeq{pat: []string{base.v.name}, ty: "kmap",
					val: nLeaf{"km_set " + base.v.name + " " + arg(i) + " " + arg(v)}, body: k()})
			case base.v.ty == tMap && i.ty == tStr && v.ty == tStr:
				m = "go_map_set " + base.v.name + " " + arg(i) + " " + arg(v)
			case base.v.ty == tStrs && i.ty == tInt && v.ty == tStr:
				f.elemWriteOK(f.fd, ix.X, c.cont != nil)
				m = "set_elem " + base.v.name + " " + arg(i) + " " + arg(v)
			default:
				failf("assignment to %s", exprText(f.pi, lhsE[0]))
			}
			return withPre(cat(i.pre, v.pre), nBind{name: base.v.name, mterm: m, body: k()})
		}
	}
	if tok != token.DEFINE && tok != token.ASSIGN {
		// x op= e
		if len(lhsE) != 1 || len(rhsE) != 1 {
			failf("operator assignment with several operands")
		}
		ops := map[token.Token]token.Token{token.ADD_ASSIGN: token.ADD, token.SUB_ASSIGN: token.SUB, token.MUL_ASSIGN: token.MUL, token.QUO_ASSIGN: token.QUO, token.REM_ASSIGN: token.REM}
		op, ok := ops[tok]
		if !ok {
			failf("assignment operator %s", tok)
		}
		v := f.expr(&ast.BinaryExpr{X: lhsE[0], Op: op, Y: rhsE[0]})
		l := f.lhs(lhsE[0], false)
		return withPre(v.pre, f.bindAll([]lhsRef{l}, []ex{v}, k))
	}
	// several left-hand sides, one of them p.F: the values first, then one assignment after the other
	if len(lhsE) > 1 {
		setter := false
		for _, l := range lhsE {
			if _, _, _, ok := f.valueField(l); ok {
				setter = true
			}
		}
		if setter {
			var pre []nBind
			var vals []ex
			if len(rhsE) == 1 {
				v := f.expr(rhsE[0])
				if v.ty != tTuple || len(v.tys) != len(lhsE) {
					failf("multi-value assignment from %s", exprText(f.pi, rhsE[0]))
				}
				var pat []string
				for _, ty := range v.tys {
					t := f.tmp()
					pat = append(pat, t)
					vals = append(vals, ex{t: t, ty: ty})
				}
				pre = append(v.pre, nBind{pat: pat, mterm: "Ok " + atom(v.t)})
			} else {
				for _, e := range rhsE {
					v := f.expr(e)
					pre = append(pre, v.pre...)
					t := f.tmp()
					pre = append(pre, nBind{name: t, mterm: "Ok " + arg(v)})
					vals = append(vals, ex{t: t, ty: v.ty})
				}
			}
			var step func(i int) node
			step = func(i int) node {
				if i == len(lhsE) {
					return k()
				}
				if id, ok := lhsE[i].(*ast.Ident); ok && id.Name == "_" {
					return step(i + 1)
				}
				sid := ast.NewIdent("$val")
				f.synth[sid] = vals[i]
				return f.assign([]ast.Expr{lhsE[i]}, []ast.Expr{sid}, token.ASSIGN, c, func() node { return step(i + 1) })
			}
			return withPre(pre, step(0))
		}
	}
	if len(rhsE) == 1 && len(lhsE) == 2 {
		// v, ok := m[k] on an abstract store
		if ix, isIx := rhsE[0].(*ast.IndexExpr); isIx {
			if r, ok := f.refMapGet(ix); ok {
				t := f.tmp()
				l0, l1 := f.lhs(lhsE[0], define), f.lhs(lhsE[1], define)
				var pat []string
				for _, l := range []lhsRef{l0, l1} {
					if l.blank {
						pat = append(pat, "_")
					} else {
						pat = append(pat, l.v.name)
					}
				}
				if (!l0.blank && l0.v.ty != r.ty) || (!l1.blank && l1.v.ty != tBool) {
					failf("comma-ok lookup: type mismatch")
				}
				return withPre(r.pre, nSeq{pat: []string{t}, ty: r.ty.coq(), val: nLeaf{r.t},
					body: nSeq{pat: pat, val: nLeaf{"(" + t + ", go_is_some " + t + ")"}, body: k()}})
			}
		}
	}
	if len(rhsE) == 1 && len(lhsE) > 1 {
		// a, b := f()
		v := f.expr(rhsE[0])
		if v.ty != tTuple || len(v.tys) != len(lhsE) {
			failf("multi-value assignment from %s", exprText(f.pi, rhsE[0]))
		}
		var pat []string
		for i, e := range lhsE {
			l := f.lhs(e, define)
			if l.blank {
				pat = append(pat, "_")
				continue
			}
			if l.v.ty != v.tys[i] {
				failf("multi-value assignment: type mismatch")
			}
			pat = append(pat, l.v.name)
		}
		return withPre(v.pre, nSeq{pat: pat, val: nLeaf{v.t}, body: k()})
	}
	if len(rhsE) != len(lhsE) {
		failf("assignment with %d left and %d right operands", len(lhsE), len(rhsE))
	}
	// all right-hand sides first (Go: operands evaluated, then assigned)
	var pre []nBind
	var vals []ex
	for i, e := range rhsE {
		if f.isNil(e) {
			// x = nil: the zero value of x's type
			lt := goType(f.info.TypeOf(lhsE[i]))
			if lt.zero() != "None" {
				failf("assignment of nil to a %s", lt.coq())
			}
			vals = append(vals, ex{t: "None", ty: lt})
			continue
		}
		v := f.expr(e)
		pre = append(pre, v.pre...)
		vals = append(vals, v)
	}
	var ls []lhsRef
	for _, e := range lhsE {
		ls = append(ls, f.lhs(e, define))
	}
	// x := partial  ->  x <- partial ;;   instead of  t <- partial ;; let x := t
	if len(ls) == 1 && !ls[0].blank && len(pre) > 0 && len(pre[len(pre)-1].pat) == 0 && pre[len(pre)-1].name == vals[0].t && isTmpName(vals[0].t) && ls[0].v.ty == vals[0].ty {
		pre[len(pre)-1].name = ls[0].v.name
		return withPre(pre, k())
	}
	return withPre(pre, f.bindAll(ls, vals, k))
}

// --- control-flow classification

const (
	flFalls = iota // no return/continue anywhere inside
	flTerm         // always ends in return/continue
	flMixed
)

func hasJump(n ast.Node) bool {
	found := false
	ast.Inspect(n, func(x ast.Node) bool {
		switch s := x.(type) {
		case *ast.ReturnStmt:
			found = true
		case *ast.BranchStmt:
			_ = s
			found = true
		case *ast.FuncLit:
			return false
		}
		return !found
	})
	return found
}

func terminates(list []ast.Stmt) bool {
	if len(list) == 0 {
		return false
	}
	switch s := list[len(list)-1].(type) {
	case *ast.ReturnStmt:
		return true
	case *ast.BranchStmt:
		return s.Tok == token.CONTINUE
	case *ast.BlockStmt:
		return terminates(s.List)
	case *ast.IfStmt:
		if s.Else == nil {
			return false
		}
		return terminates(s.Body.List) && terminates([]ast.Stmt{s.Else})
	}
	return false
}

func flow(list []ast.Stmt) int {
	if terminates(list) {
		return flTerm
	}
	for _, s := range list {
		if hasJump(s) {
			return flMixed
		}
	}
	return flFalls
}

// variables (and hidden state) declared outside [nodes] and assigned inside, in a stable order
func (f *ftrans) assigned(nodes ...ast.Node) []*gvar {
	set := map[*gvar]token.Pos{}
	declared := map[types.Object]bool{}
	for _, n := range nodes {
		ast.Inspect(n, func(x ast.Node) bool {
			if id, ok := x.(*ast.Ident); ok {
				if o := f.info.Defs[id]; o != nil {
					declared[o] = true
				}
			}
			return true
		})
	}
	inside := func(o types.Object) bool { return declared[o] }
	var mark func(e ast.Expr)
	mark = func(e ast.Expr) {
		switch x := e.(type) {
		case *ast.Ident:
			o := f.info.Uses[x]
			if o == nil {
				return // a definition (:=) or the blank identifier
			}
			if v, ok := f.vars[o]; ok && !inside(o) {
				set[v] = o.Pos()
			} else if !ok && !inside(o) {
				if _, isVar := o.(*types.Var); isVar {
					failf("assignment to %s, which is not a local variable", x.Name)
				}
			}
		case *ast.SelectorExpr:
			if p, ok := f.fieldPath(x); ok {
				if v := f.hid[p]; v != nil {
					set[v] = token.Pos(1<<30) + token.Pos(len(set))
				}
			} else if v, ok := f.structField(x); ok && !inside(v.owner) {
				set[v] = v.owner.Pos() + token.Pos(v.idx)
			} else if base, _, _, ok := f.valueField(x); ok {
				mark(base) // p.F = v re-binds p
				if id, isId := base.(*ast.Ident); isId {
					if bv, known := f.vars[f.info.Uses[id]]; known {
						if ref, isRef := f.refOf[bv]; isRef {
							set[ref.m] = token.Pos(1<<30) + token.Pos(len(set)) // ... and the store entry p came from
						}
					}
				}
			}
		case *ast.IndexExpr:
			mark(x.X) // x[i] = v assigns x
		case *ast.ParenExpr:
			mark(x.X)
		}
	}
	for _, n := range nodes {
		ast.Inspect(n, func(x ast.Node) bool {
			switch s := x.(type) {
			case *ast.AssignStmt:
				for _, l := range s.Lhs {
					mark(l)
				}
			case *ast.IncDecStmt:
				mark(s.X)
			case *ast.RangeStmt:
				if s.Tok == token.ASSIGN {
					failf("range with = ")
				}
			case *ast.SendStmt:
				if v := f.hid["$out"]; v != nil {
					set[v] = token.Pos(1 << 31)
				}
			case *ast.UnaryExpr:
				if _, ok := f.sleepArg(s); ok {
					set[f.hid["$sleep"]] = token.Pos(1<<31) + 1
				}
			case *ast.CallExpr:
				if f.ioMethod(s) != "" {
					set[f.hid["$io"]] = token.Pos(1<<31) + 2
				}
				if _, _, _, ok := f.observedLog(s); ok {
					set[f.hid["$log"]] = token.Pos(1<<31) + 3
				}
				if se, ok := s.Fun.(*ast.SelectorExpr); ok {
					if sel := f.info.Selections[se]; sel != nil && sel.Kind() == types.MethodVal {
						if id, ok := se.X.(*ast.Ident); ok && f.rootOf(id) != nil && f.rootOf(id).prefix == "" {
							if callee := f.sigs[recvTypeName(sel.Recv())+"."+se.Sel.Name]; callee != nil {
								if callee.emits {
									set[f.hid["$out"]] = token.Pos(1 << 31)
								}
								for _, fr := range callee.fieldOut {
									set[f.hid[fr.rel]] = token.Pos(1 << 30)
								}
							}
						}
						if d := goType(f.info.TypeOf(se.X)).dyn(); d != nil && d.kind == kIface {
							mark(se.X) // a Tracker call updates the tracker
						}
						if d := goType(f.info.TypeOf(se.X)).dyn(); d != nil && d.kind == kObj {
							if callee := f.sigs[d.named.Obj().Name()+"."+se.Sel.Name]; callee != nil && len(callee.fieldOut) > 0 {
								mark(se.X) // a method that writes the object's field
							}
						}
					}
				}
				if id, ok := s.Fun.(*ast.Ident); ok && id.Name == "delete" && len(s.Args) == 2 {
					if _, isB := f.info.Uses[id].(*types.Builtin); isB {
						mark(s.Args[0])
					}
				}
				if f.isPkgCall(s, "sort") && len(s.Args) == 1 {
					mark(s.Args[0])
				}
			case *ast.IndexExpr:
				if md := goType(f.info.TypeOf(s.X)).dyn(); md != nil && md.kind == kRefMap && md.valTy.dyn().kind == kSPtr {
					mark(s.X) // an entry of the store may be written through the pointer read here
				}
			case *ast.FuncLit:
				failf("function literal")
			}
			return true
		})
	}
	var vs []*gvar
	for v := range set {
		vs = append(vs, v)
	}
	sort.Slice(vs, func(i, j int) bool {
		if set[vs[i]] != set[vs[j]] {
			return set[vs[i]] < set[vs[j]]
		}
		return vs[i].name < vs[j].name
	})
	return vs
}

func names(vs []*gvar) []string {
	var out []string
	for _, v := range vs {
		out = append(out, v.name)
	}
	return out
}

func tupleType(vs []*gvar) string {
	if len(vs) == 0 {
		return "unit"
	}
	var ts []string
	for _, v := range vs {
		ts = append(ts, v.ty.coq())
	}
	return strings.Join(ts, " * ")
}

func (f *ftrans) stmts(list []ast.Stmt, c ctx, k func() node) node {
	if len(list) == 0 {
		return k()
	}
	return f.stmt(list[0], c, func() node { return f.stmts(list[1:], c, k) })
}

func dead() node { failf("internal: continuation of a terminating block used"); return nil }

func elseList(s ast.Stmt) []ast.Stmt {
	switch e := s.(type) {
	case nil:
		return nil
	case *ast.BlockStmt:
		return e.List
	}
	return []ast.Stmt{s}
}

func (f *ftrans) ifStmt(s *ast.IfStmt, c ctx, k func() node) node {
	body := func() node {
		cond := f.expr(s.Cond)
		if cond.ty != tBool {
			failf("condition is not a bool")
		}
		A, B := s.Body.List, elseList(s.Else)
		fa, fb := flow(A), flow(B)
		var n node
		switch {
		case fa == flFalls && fb == flFalls:
			var nodes []ast.Node
			nodes = append(nodes, s.Body)
			if s.Else != nil {
				nodes = append(nodes, s.Else)
			}
			vs := f.assigned(nodes...)
			leaf := func() node { return nLeaf{tuple(names(vs))} }
			ty := ""
			if len(vs) == 1 {
				ty = vs[0].ty.coq()
			}
			n = nSeq{pat: names(vs), ty: ty, val: nIf{cond.t, f.stmts(A, c, leaf), f.stmts(B, c, leaf)}, body: k()}
		case fa == flTerm && fb == flTerm:
			n = nIf{cond.t, f.stmts(A, c, dead), f.stmts(B, c, dead)}
		case fa == flTerm:
			n = nIf{cond.t, f.stmts(A, c, dead), f.stmts(B, c, k)}
		case fb == flTerm:
			n = nIf{cond.t, f.stmts(A, c, k), f.stmts(B, c, dead)}
		default:
			// some branch may return or fall through: a join point for the continuation
			var nodes []ast.Node
			nodes = append(nodes, s.Body)
			if s.Else != nil {
				nodes = append(nodes, s.Else)
			}
			vs := f.assigned(nodes...)
			f.njoin++
			kn := fmt.Sprintf("k%d", f.njoin)
			callK := func() node { return nM{kn + " " + atom(tuple(names(vs)))} }
			binder := "(_ : unit)"
			if len(vs) == 1 {
				binder = "(" + vs[0].name + " : " + vs[0].ty.coq() + ")"
			} else if len(vs) > 1 {
				binder = "(p : " + tupleType(vs) + ")"
			}
			kbody := k()
			n = nJoin{name: kn, binder: binder, pat: names(vs), kbody: kbody,
				body: nIf{cond.t, f.stmts(A, c, callK), f.stmts(B, c, callK)}}
		}
		return withPre(cond.pre, n)
	}
	if s.Init != nil {
		return f.stmt(s.Init, c, body)
	}
	return body()
}

func (f *ftrans) switchStmt(s *ast.SwitchStmt, c ctx, k func() node) node {
	body := func() node {
		var pre []nBind
		var tagId *ast.Ident
		if s.Tag != nil {
			tag := f.expr(s.Tag)
			pre = tag.pre
			tagId = ast.NewIdent("$tag")
			f.synth[tagId] = ex{t: tag.t, ty: tag.ty}
		}
		var dflt []ast.Stmt
		hasDflt := false
		type clause struct {
			cond ast.Expr
			body []ast.Stmt
		}
		var cls []clause
		// fallthrough as the last statement of a clause: the clause continues with the body of the
		// next clause in source order (bodies computed from the last clause backwards)
		eff := make([][]ast.Stmt, len(s.Body.List))
		for i := len(s.Body.List) - 1; i >= 0; i-- {
			b := s.Body.List[i].(*ast.CaseClause).Body
			if n := len(b); n > 0 {
				if br, ok := b[n-1].(*ast.BranchStmt); ok && br.Tok == token.FALLTHROUGH {
					if i+1 >= len(s.Body.List) {
						failf("fallthrough in the last clause")
					}
					b = append(append([]ast.Stmt{}, b[:n-1]...), eff[i+1]...)
				}
			}
			eff[i] = b
		}
		for ci, cs := range s.Body.List {
			cc := &ast.CaseClause{Case: cs.(*ast.CaseClause).Case, List: cs.(*ast.CaseClause).List, Colon: cs.(*ast.CaseClause).Colon, Body: eff[ci]}
			for _, st := range cc.Body {
				if b, ok := st.(*ast.BranchStmt); ok && b.Tok != token.CONTINUE {
					failf("%s in switch", b.Tok)
				}
			}
			for _, st := range cc.Body {
				ast.Inspect(st, func(n ast.Node) bool {
					if _, nested := n.(*ast.SwitchStmt); nested {
						return false // checked when it is translated
					}
					if b, ok := n.(*ast.BranchStmt); ok && (b.Tok == token.BREAK || b.Tok == token.FALLTHROUGH || b.Tok == token.GOTO) {
						failf("%s in switch", b.Tok)
					}
					return true
				})
			}
			if cc.List == nil {
				dflt, hasDflt = cc.Body, true
				continue
			}
			var cond ast.Expr
			for _, e := range cc.List {
				var one ast.Expr = e
				if tagId != nil {
					if tv, ok := f.info.Types[e]; !ok || tv.Value == nil {
						failf("switch case that is not a constant")
					}
					one = &ast.BinaryExpr{X: tagId, Op: token.EQL, Y: e}
				}
				if cond == nil {
					cond = one
				} else {
					cond = &ast.BinaryExpr{X: cond, Op: token.LOR, Y: one}
				}
			}
			cls = append(cls, clause{cond, cc.Body})
		}
		// desugar to an if / else-if chain (cases are tried in source order; default last)
		var chain ast.Stmt
		if hasDflt {
			chain = &ast.BlockStmt{List: dflt}
		}
		for i := len(cls) - 1; i >= 0; i-- {
			chain = &ast.IfStmt{Cond: cls[i].cond, Body: &ast.BlockStmt{List: cls[i].body}, Else: chain}
		}
		if chain == nil {
			return withPre(pre, k())
		}
		return withPre(pre, f.stmt(chain, c, k))
	}
	if s.Init != nil {
		return f.stmt(s.Init, c, body)
	}
	return body()
}

func (f *ftrans) loopState(nodes ...ast.Node) (vs []*gvar, binders string) {
	vs = f.assigned(nodes...)
	for _, v := range vs {
		binders += " (" + v.name + " : " + v.ty.coq() + ")"
	}
	return
}

func (f *ftrans) forStmt(s *ast.ForStmt, c ctx, k func() node) node {
	body := func() node {
		if s.Cond == nil {
			failf("for without condition")
		}
		ast.Inspect(s.Body, func(n ast.Node) bool {
			switch b := n.(type) {
			case *ast.ReturnStmt:
				failf("return inside a loop")
			case *ast.BranchStmt:
				if b.Tok != token.CONTINUE || s.Post != nil {
					failf("%s inside a loop", b.Tok)
				}
			}
			return true
		})
		nodes := []ast.Node{s.Body}
		blist := s.Body.List
		if s.Post != nil {
			nodes = append(nodes, s.Post)
			blist = append(append([]ast.Stmt{}, blist...), s.Post)
		}
		vs, binders := f.loopState(nodes...)
		f.nloop++
		name := fmt.Sprintf("loop%d", f.nloop)
		key := fmt.Sprintf("%s#%d", f.fname, f.ncloop)
		f.ncloop++
		fuel, ok := go2coqFuel[key]
		if !ok {
			fuel = f.fuelOf(s.Cond)
		}
		rec := func() node { return nTail{name + " fuel' " + strings.Join(names(vs), " ")} }
		inner := ctx{ret: nil, cont: rec}
		cond := f.expr(s.Cond)
		if cond.ty != tBool {
			failf("loop condition is not a bool")
		}
		fbody := withPre(cond.pre, nIf{cond.t, nFuel{f.stmts(blist, inner, rec)}, nLeaf{tuple(names(vs))}})
		return nLoop{name: name, binders: "(fuel : nat)" + binders, sarg: "fuel", stateT: tupleType(vs),
			fbody: fbody, call: strings.TrimSpace(name + " " + atom(fuel) + " " + strings.Join(names(vs), " ")), pat: names(vs), body: k()}
	}
	if s.Init != nil {
		return f.stmt(s.Init, c, body)
	}
	return body()
}

// default fuel: S (sum of the lengths of the string / slice variables in the condition)
func (f *ftrans) fuelOf(cond ast.Expr) string {
	var parts []string
	seen := map[string]bool{}
	ast.Inspect(cond, func(n ast.Node) bool {
		if id, ok := n.(*ast.Ident); ok {
			if v, ok := f.vars[f.info.Uses[id]]; ok && (v.ty == tStr || v.ty == tStrs) && !seen[v.name] {
				seen[v.name] = true
				parts = append(parts, "length "+v.name)
			}
		}
		return true
	})
	if len(parts) == 0 {
		failf("no fuel for loop with condition %s", exprText(f.pi, cond))
	}
	return "S (" + strings.Join(parts, " + ") + ")"
}

func (f *ftrans) rangeStmt(s *ast.RangeStmt, c ctx, k func() node) node {
	if s.Tok != token.DEFINE {
		failf("range without :=")
	}
	overMap := goType(f.info.TypeOf(s.X)) == tKMap
	if overMap {
		// for k := range m: the keys in the canonical (sorted) order of CapsLib.kmap, taken when
		// the loop starts.  Faithful only when the loop's result does not depend on Go's random
		// order (not established here) and the body changes m at most by delete(m, k).
		if s.Value != nil {
			failf("range over a map with a value variable")
		}
		s = &ast.RangeStmt{For: s.For, Key: ast.NewIdent("_"), Value: s.Key, Tok: s.Tok, X: s.X, Body: s.Body}
	}
	if id, ok := s.Key.(*ast.Ident); !ok || id.Name != "_" {
		failf("range with an index variable")
	}
	ast.Inspect(s.Body, func(n ast.Node) bool {
		switch b := n.(type) {
		case *ast.ReturnStmt:
			failf("return inside a loop")
		case *ast.BranchStmt:
			if b.Tok != token.CONTINUE && b.Tok != token.FALLTHROUGH {
				failf("%s inside a loop", b.Tok)
			}
		}
		return true
	})
	le := f.expr(s.X)
	if overMap {
		mv := f.lhs(s.X, false)
		if mv.v == nil {
			failf("range over %s", exprText(f.pi, s.X))
		}
		f.inMapRange[mv.v] = true
		defer delete(f.inMapRange, mv.v)
		if kid, ok := s.Value.(*ast.Ident); ok {
			f.rangeKey[mv.v] = f.info.Defs[kid]
		}
		le = ex{pre: le.pre, t: "km_keys " + arg(le), p: 1, ty: tStrs}
	}
	if le.ty != tStrs {
		failf("range over %s", le.ty.coq())
	}
	var xname string
	if id, ok := s.Value.(*ast.Ident); ok && id.Name != "_" {
		xname = f.declare(f.info.Defs[id]).name
	} else if s.Value == nil || ok {
		xname = "_"
	} else {
		failf("range value %s", exprText(f.pi, s.Value))
	}
	vs, binders := f.loopState(s)
	f.nloop++
	name := fmt.Sprintf("loop%d", f.nloop)
	rec := func() node { return nTail{strings.TrimSpace(name + " l' " + strings.Join(names(vs), " "))} }
	inner := ctx{ret: nil, cont: rec}
	fbody := nListMatch{l: "l", x: xname, l2: "l'", nilc: nLeaf{tuple(names(vs))}, consc: f.stmts(s.Body.List, inner, rec)}
	return withPre(le.pre, nLoop{name: name, binders: "(l : list bytes)" + binders, sarg: "l", stateT: tupleType(vs),
		fbody: fbody, call: strings.TrimSpace(name + " " + arg(le) + " " + strings.Join(names(vs), " ")), pat: names(vs), body: k()})
}

// a call in statement position: effects of the callee are applied to the hidden state
// ---------------------------------------------------------------------------------------
// effect channels (stage 6 c)

// <-time.After(d)
func (f *ftrans) sleepArg(e ast.Expr) (ast.Expr, bool) {
	u, ok := e.(*ast.UnaryExpr)
	if !ok || u.Op != token.ARROW {
		return nil, false
	}
	call, ok := u.X.(*ast.CallExpr)
	if !ok || !f.isPkgCall(call, "time") || len(call.Args) != 1 {
		return nil, false
	}
	if se := call.Fun.(*ast.SelectorExpr); se.Sel.Name != "After" {
		return nil, false
	}
	return call.Args[0], true
}

// conn.io.WriteString(s) / conn.io.Flush(): the method name, or ""
func (f *ftrans) ioMethod(call *ast.CallExpr) string {
	se, ok := call.Fun.(*ast.SelectorExpr)
	if !ok || len(f.roots) == 0 {
		return ""
	}
	sel := f.info.Selections[se]
	if sel == nil || sel.Kind() != types.MethodVal {
		return ""
	}
	if p, ok := f.fieldPath(se.X); !ok || p != ".io" {
		return ""
	}
	switch {
	case se.Sel.Name == "WriteString" && len(call.Args) == 1:
		return "WriteString"
	case se.Sel.Name == "Flush" && len(call.Args) == 0:
		return "Flush"
	}
	failf("I/O call %s", exprText(f.pi, call.Fun))
	return ""
}

// a logging call that is recorded: logging.<Level>("constant format", ...) with at least one string argument
func (f *ftrans) observedLog(call *ast.CallExpr) (level, format string, args []ast.Expr, ok bool) {
	if !observeLog[f.fname] || !f.isPkgCall(call, "logging") || len(call.Args) == 0 {
		return
	}
	tv, isC := f.info.Types[call.Args[0]]
	if !isC || tv.Value == nil || tv.Value.Kind() != constant.String {
		return
	}
	// the string arguments are what is recorded (what such a call can leak); the others must be
	// plain variables or pure calls (d.Seconds()); a call without string arguments is dropped as before
	for _, a := range call.Args[1:] {
		if goType(f.info.TypeOf(a)) == tStr {
			args = append(args, a)
			continue
		}
		if _, isId := a.(*ast.Ident); !isId && !f.isRuntimeExpr(a) {
			return "", "", nil, false
		}
	}
	if len(args) == 0 {
		return "", "", nil, false
	}
	return call.Fun.(*ast.SelectorExpr).Sel.Name, constant.StringVal(tv.Value), args, true
}

// which effect channels the body uses
func (f *ftrans) effectSites(fd *ast.FuncDecl) map[string]bool {
	sites := map[string]bool{}
	ast.Inspect(fd.Body, func(n ast.Node) bool {
		switch x := n.(type) {
		case *ast.UnaryExpr:
			if _, ok := f.sleepArg(x); ok {
				sites["$sleep"] = true
			}
		case *ast.CallExpr:
			if f.ioMethod(x) != "" {
				sites["$io"] = true
			}
			if _, _, _, ok := f.observedLog(x); ok {
				sites["$log"] = true
			}
		}
		return true
	})
	return sites
}

// the channel c gets the element el appended
func (f *ftrans) emit(c string, el string, k func() node) node {
	v := f.hid[c]
	return nSeq{pat: []string{v.name}, ty: v.ty.coq(), val: nLeaf{v.name + " ++ [" + el + "]"}, body: k()}
}

func (f *ftrans) callStmt(x *ast.CallExpr, k func() node) node {
	if se, ok := x.Fun.(*ast.SelectorExpr); ok {
		if callee, prefix := f.rootMethod(se); callee != nil && prefix == "" && len(callee.results) == 0 {
			pre, argv := f.callArgs(callee, x, prefix)
			var pat []string
			for _, fr := range callee.fieldOut {
				pat = append(pat, f.hid[fr.rel].name)
			}
			var body node
			if callee.emits {
				t := f.tmp()
				pat = append(pat, t)
				out := f.hid["$out"]
				body = nSeq{pat: []string{out.name}, ty: "list bytes", val: nLeaf{out.name + " ++ " + t}, body: k()}
			} else {
				body = k()
			}
			return withPre(pre, nSeq{pat: pat, val: nM{callee.coq + argv}, body: body})
		}
	}
	// any other call: evaluated for its effects, the result is discarded
	v := f.expr(x)
	return withPre(v.pre, k())
}

func (f *ftrans) stmt(s ast.Stmt, c ctx, k func() node) node {
	if es, ok := s.(*ast.ExprStmt); ok {
		if d, ok := f.sleepArg(es.X); ok {
			v := f.expr(d)
			if v.ty != tInt {
				failf("time.After of a %s", v.ty.coq())
			}
			return withPre(v.pre, f.emit("$sleep", v.t, k))
		}
		if call, ok := es.X.(*ast.CallExpr); ok {
			if level, format, args, ok := f.observedLog(call); ok {
				pre, as := f.args(args)
				var ts []string
				for _, a := range as {
					ts = append(ts, a.t)
				}
				return withPre(pre, f.emit("$log", "("+bytesLit(level)+", "+bytesLit(format)+", ["+strings.Join(ts, "; ")+"])", k))
			}
		}
	}
	switch f.dropKind(s) {
	case "log":
		return f.logArgs(s.(*ast.ExprStmt).X.(*ast.CallExpr), k)
	case "mutex", "dispatch", "runtime":
		return k()
	}
	switch x := s.(type) {
	case *ast.EmptyStmt:
		return k()
	case *ast.BlockStmt:
		return f.stmts(x.List, c, k)
	case *ast.ExprStmt:
		if call, ok := x.X.(*ast.CallExpr); ok {
			if n, ok := f.specialStmt(call, k); ok {
				return n
			}
			return f.callStmt(call, k)
		}
	case *ast.SendStmt:
		if p, ok := f.fieldPath(x.Chan); ok && p == ".out" {
			v := f.expr(x.Value)
			if v.ty != tStr {
				failf("send of a non-string")
			}
			out := f.hid["$out"]
			return withPre(v.pre, nSeq{pat: []string{out.name}, ty: "list bytes", val: nLeaf{out.name + " ++ [" + v.t + "]"}, body: k()})
		}
	case *ast.AssignStmt:
		return f.assign(x.Lhs, x.Rhs, x.Tok, c, k)
	case *ast.IncDecStmt:
		tok := token.ADD_ASSIGN
		if x.Tok == token.DEC {
			tok = token.SUB_ASSIGN
		}
		one := ast.NewIdent("$one")
		f.synth[one] = ex{t: "1", ty: tInt}
		return f.assign([]ast.Expr{x.X}, []ast.Expr{one}, tok, c, k)
	case *ast.DeclStmt:
		gd, ok := x.Decl.(*ast.GenDecl)
		if !ok || gd.Tok != token.VAR {
			break
		}
		var fn func(i int) node
		specs := gd.Specs
		fn = func(i int) node {
			if i == len(specs) {
				return k()
			}
			vs := specs[i].(*ast.ValueSpec)
			if len(vs.Values) > 0 {
				var lhs []ast.Expr
				for _, n := range vs.Names {
					lhs = append(lhs, n)
				}
				return f.assign(lhs, vs.Values, token.DEFINE, c, func() node { return fn(i + 1) })
			}
			var ls []lhsRef
			var vals []ex
			for _, n := range vs.Names {
				l := f.lhs(n, true)
				ls = append(ls, l)
				if l.blank {
					vals = append(vals, ex{})
				} else {
					vals = append(vals, ex{t: l.v.ty.zero(), ty: l.v.ty})
				}
			}
			return f.bindAll(ls, vals, func() node { return fn(i + 1) })
		}
		return fn(0)
	case *ast.IfStmt:
		return f.ifStmt(x, c, k)
	case *ast.SwitchStmt:
		return f.switchStmt(x, c, k)
	case *ast.ForStmt:
		return f.forStmt(x, c, k)
	case *ast.RangeStmt:
		return f.rangeStmt(x, c, k)
	case *ast.ReturnStmt:
		if c.ret == nil {
			failf("return inside a loop")
		}
		if len(x.Results) == 0 && len(f.sig.results) > 0 {
			failf("bare return with named results")
		}
		var pre []nBind
		var vals []string
		if len(x.Results) == 1 && len(f.sig.results) > 1 {
			failf("return of a multi-value call")
		}
		for i, e := range x.Results {
			if f.sig.results[i] == tPtr {
				// nil or a local struct variable of the result type
				id, ok := e.(*ast.Ident)
				if !ok {
					failf("return of a struct pointer that is neither nil nor a local variable")
				}
				if _, isNil := f.info.Uses[id].(*types.Nil); isNil {
					vals = append(vals, "None")
					continue
				}
				sv := f.structs[f.info.Uses[id]]
				if sv == nil || sv.named != f.resStruct {
					failf("return of %s", id.Name)
				}
				var fs []string
				for _, fv := range sv.fields {
					if fv != nil {
						fs = append(fs, fv.name)
					}
				}
				vals = append(vals, "Some "+tuple(fs))
				continue
			}
			if f.sig.results[i] == tErr && f.isNil(e) {
				vals = append(vals, "false") // return nil for an error
				continue
			}
			v := f.expr(e)
			if v.ty != f.sig.results[i] {
				failf("return value %d has type %s", i, v.ty.coq())
			}
			pre = append(pre, v.pre...)
			vals = append(vals, v.t)
		}
		return withPre(pre, c.ret(vals))
	case *ast.BranchStmt:
		if x.Tok == token.CONTINUE && x.Label == nil && c.cont != nil {
			return c.cont()
		}
		failf("%s statement", x.Tok)
	}
	failf("statement %T", s)
	return nil
}

// ---------------------------------------------------------------------------------------
// one function

func (f *ftrans) function(name string, fd *ast.FuncDecl) (text string) {
	coqName := "go_" + f.pi.pkg.Name + "_" + coqIdent(name)
	sig := &gsig{coq: coqName}
	f.sig = sig
	f.fname = name
	f.fd = fd
	obj := f.info.Defs[fd.Name].(*types.Func)
	gs := obj.Type().(*types.Signature)
	if fd.Body == nil {
		failf("no body")
	}
	if gs.TypeParams() != nil {
		failf("generic function")
	}
	var binders []string
	// roots: the receiver and the pointer parameters of a package struct type
	if gs.Recv() != nil {
		if fd.Recv.List[0].Names == nil {
			failf("unnamed receiver")
		}
		f.recv = f.info.Defs[fd.Recv.List[0].Names[0]]
		f.used[coqIdent(f.recv.Name())] = true
		f.roots = append(f.roots, rootInfo{f.recv, ""})
	}
	isRootParam := func(p *types.Var) bool {
		pt, ok := p.Type().(*types.Pointer)
		if !ok || goType(p.Type()) != tBad {
			return false
		}
		n, ok := pt.Elem().(*types.Named)
		if !ok || n.Obj().Pkg() != f.pi.pkg.Types {
			return false
		}
		_, ok = n.Underlying().(*types.Struct)
		return ok
	}
	for i := 0; i < gs.Params().Len(); i++ {
		if p := gs.Params().At(i); isRootParam(p) && p.Name() != "" && p.Name() != "_" {
			f.used[coqIdent(p.Name())] = true
			f.roots = append(f.roots, rootInfo{p, fmt.Sprintf("#%d", i)})
		}
	}
	in, out := map[string]gtyp{}, map[string]bool{}
	if len(f.roots) > 0 {
		var emits bool
		in, out, emits = f.scan(fd)
		sig.emits = emits
	}
	keysOf := func(prefix string) []string {
		var ks []string
		for k := range in {
			if (prefix == "" && !strings.HasPrefix(k, "#")) || (prefix != "" && strings.HasPrefix(k, prefix+".")) {
				ks = append(ks, k)
			}
		}
		sort.Strings(ks)
		return ks
	}
	hidden := func(k string) *gvar {
		f.needType(in[k])
		v := &gvar{name: f.fresh(f.hidName(k)), ty: in[k]}
		f.hid[k] = v
		binders = append(binders, "("+v.name+" : "+v.ty.coq()+")")
		return v
	}
	if f.recv != nil {
		for _, k := range keysOf("") {
			hidden(k)
			sig.fieldIn = append(sig.fieldIn, fieldRef{k, in[k]})
			if out[k] {
				sig.fieldOut = append(sig.fieldOut, fieldRef{k, in[k]})
			}
		}
	}
	// parameters
	for i := 0; i < gs.Params().Len(); i++ {
		p := gs.Params().At(i)
		if p.Name() == "" || p.Name() == "_" {
			if isRootParam(p) {
				sig.params = append(sig.params, tRoot)
				continue
			}
			if f.stmtSlice {
				continue
			}
			failf("unnamed parameter")
		}
		if f.stmtSlice && !isRootParam(p) {
			continue // not available to the selected statement: using it is unsupported
		}
		if isRootParam(p) {
			prefix := fmt.Sprintf("#%d", i)
			if sig.pfields == nil {
				sig.pfields = map[int][]fieldRef{}
			}
			sig.pfields[i] = []fieldRef{}
			for _, k := range keysOf(prefix) {
				hidden(k)
				sig.pfields[i] = append(sig.pfields[i], fieldRef{k[len(prefix):], in[k]})
			}
			sig.params = append(sig.params, tRoot)
			continue
		}
		v := f.declare(p)
		sig.params = append(sig.params, v.ty)
		binders = append(binders, "("+v.name+" : "+v.ty.coq()+")")
	}
	sig.variadic = gs.Variadic()
	for i := 0; i < gs.Results().Len() && !f.stmtSlice; i++ {
		rt := gs.Results().At(i).Type()
		if pt, ok := rt.(*types.Pointer); ok && gs.Results().Len() == 1 && goType(rt) == tBad {
			if named, ok := pt.Elem().(*types.Named); ok {
				if _, ok := structFields(named); ok && gs.Results().At(i).Name() == "" {
					f.resStruct = named
					sig.results = append(sig.results, tPtr)
					sig.resCoq = append(sig.resCoq, ptrResultType(named))
					continue
				}
			}
		}
		ty := goType(rt)
		if ty == tBad {
			failf("result of unsupported type %s", rt)
		}
		f.needType(ty)
		sig.results = append(sig.results, ty)
		sig.resCoq = append(sig.resCoq, ty.coq())
	}
	// named results are variables initialised to their zero value
	var inits []*gvar
	for i := 0; i < gs.Results().Len() && !f.stmtSlice; i++ {
		if r := gs.Results().At(i); r.Name() != "" && r.Name() != "_" {
			inits = append(inits, f.declare(r))
		}
	}
	if sig.emits {
		v := &gvar{name: "out", ty: tStrs}
		f.hid["$out"] = v
		inits = append(inits, v)
	}
	if len(f.roots) > 0 {
		sites := f.effectSites(fd)
		for _, e := range []string{"$sleep", "$io", "$log"} {
			if sites[e] {
				v := &gvar{name: f.fresh(map[string]string{"$sleep": "sleeps", "$io": "io", "$log": "logs"}[e]), ty: effType[e]}
				f.hid[e] = v
				inits = append(inits, v)
				sig.effs = append(sig.effs, e)
			}
		}
	}
	final := func(vals []string) node {
		var all []string
		for _, fr := range sig.fieldOut {
			all = append(all, f.hid[fr.rel].name)
		}
		if sig.emits {
			all = append(all, f.hid["$out"].name)
		}
		for _, e := range sig.effs {
			all = append(all, f.hid[e].name)
		}
		all = append(all, vals...)
		return nLeaf{tuple(all)}
	}
	c := ctx{ret: final}
	body := f.stmts(fd.Body.List, c, func() node {
		if len(sig.results) > 0 {
			failf("control reaches the end of a function with results")
		}
		return final(nil)
	})
	for i := len(inits) - 1; i >= 0; i-- {
		body = nSeq{pat: []string{inits[i].name}, ty: inits[i].ty.coq(), val: nLeaf{inits[i].ty.zero()}, body: body}
	}
	sig.clocks = f.clocks
	for i := 1; i <= f.clocks; i++ {
		binders = append(binders, fmt.Sprintf("(now%d : Z)", i))
	}
	binders = append(binders, f.oracles...)
	r := &renderer{tmp: new(int)}
	r.b.WriteString("Definition " + coqName)
	for _, b := range binders {
		r.b.WriteString(" " + b)
	}
	r.b.WriteString(" : res " + atom(sig.resultType()) + " :=")
	r.nl(1)
	r.render(simplify(body), false, 1)
	r.b.WriteString(".\n")
	f.sigs[name] = sig
	return r.b.String()
}

const go2coqPrelude = `(* GENERATED from the Go source by /verif/translator (go2coq.go) on every check run — do not edit.
   One definition per translated Go function: its BODY, statement by statement, in the res
   monad of Lib/GoBytes.v.  Proofs/GenEq*.v prove each one equal to the hand-written model.
   A function outside the supported subset appears as  go_<pkg>_<func>_UNSUPPORTED. *)
From Verif Require Import GoBytes LineLib CapsLib Base64.
Open Scope Z_scope.

(* uint8 arithmetic wraps modulo 256 (operands are bytes, < 256) *)
Definition go_byte_add (a b : N) : N := ((a + b) mod 256)%N.
Definition go_byte_sub (a b : N) : N := ((a + 256 - b) mod 256)%N.
Definition go_byte_mul (a b : N) : N := ((a * b) mod 256)%N.
(* string(c) for a byte c: the UTF-8 encoding of the code point c *)
Definition go_string_of_byte (c : N) : bytes :=
  if (c <? 128)%N then [c] else [(192 + c / 64)%N; (128 + c mod 64)%N].
(* x / y and x % y on int with a divisor that is not a non-zero constant *)
Definition go_int_quot (a b : Z) : res Z := if b =? 0 then Panic else Ok (Z.quot a b).
Definition go_int_rem (a b : Z) : res Z := if b =? 0 then Panic else Ok (Z.rem a b).
(* m[k] and delete(m, k) on a map[string]bool (CapsLib.kmap) *)
Definition go_kmap_get (m : kmap) (k : bytes) : bool := match km_get m k with Some v => v | None => false end.
Definition go_kmap_delete (m : kmap) (k : bytes) : kmap := km_filter (fun x => negb (beq x k)) m.
(* a []byte is an option (None = nil); its content *)
Definition go_nbytes (b : option bytes) : bytes := match b with Some x => x | None => [] end.
(* base64.StdEncoding.DecodeString: (decoded, err) *)
Definition go_b64_decode (s : bytes) : option bytes * bool :=
  match b64_decode s with Some b => (Some b, false) | None => (None, true) end.
(* x != nil on a pointer, an interface value or a map *)
Definition go_is_some {A} (o : option A) : bool := match o with Some _ => true | None => false end.
(* m[k] = v on a map[string]string (None = nil map: assignment panics) *)
Definition go_map_set (m : option tagmap) (k v : bytes) : res (option tagmap) :=
  match m with Some mm => Ok (Some (tags_set mm k v)) | None => Panic end.

`

func go2coq(pkgs map[string]*pkgInfo) string {
	var b strings.Builder
	b.WriteString(go2coqPrelude)
	allSigs := map[string]map[string]*gsig{"client": {}, "state": {}}
	emitted := map[string]bool{}
	section := false
	resetDyn()
	ifaceMethods = map[string]ifaceMethod{}
	sectionRestVars = nil
	for _, target := range go2coqTargets {
		// "name" is a function of package client, "state:name" one of package state
		pn, name := "client", target
		stmtOf := ""
		if strings.HasPrefix(target, "stmt:") {
			// "stmt:<callee>:<function>": the one top-level if-statement of <function> whose condition calls <callee>
			parts := strings.SplitN(target, ":", 3)
			stmtOf, name = parts[1], parts[2]
		} else if i := strings.Index(target, ":"); i >= 0 {
			pn, name = target[:i], target[i+1:]
		}
		pi := pkgs[pn]
		sigs := allSigs[pn]
		var fd *ast.FuncDecl
		if pi != nil {
			fd = pi.funcs[name]
		}
		if stmtOf != "" {
			name = name + "_if_" + stmtOf
		}
		coqName := "go_" + pn + "_" + coqIdent(name)
		if fd == nil {
			fmt.Fprintf(&b, "(* %s: not found in the source *)\nDefinition %s_UNSUPPORTED : unit := tt.\n\n", name, coqName)
			continue
		}
		var extra []string
		func() {
			defer func() {
				if r := recover(); r != nil {
					u, ok := r.(unsupported)
					if !ok {
						panic(r)
					}
					msg := strings.NewReplacer("(*", "( *", "*)", "* )", "\"", "'").Replace(u.msg)
					for _, d := range extra {
						b.WriteString(d + "\n")
					}
					fmt.Fprintf(&b, "(* %s: unsupported: %s *)\nDefinition %s_UNSUPPORTED : unit := tt.\n\n", name, msg, coqName)
				}
			}()
			f := &ftrans{pi: pi, info: pi.pkg.TypesInfo, sigs: sigs, vars: map[types.Object]*gvar{},
				hid: map[string]*gvar{}, used: map[string]bool{}, synth: map[*ast.Ident]ex{},
				structs: map[types.Object]*structVar{}, extra: &extra, emitted: emitted, section: &section, inMapRange: map[*gvar]bool{}, rangeKey: map[*gvar]types.Object{}, pkgs: pkgs, refOf: map[*gvar]refInfo{}}
			if stmtOf != "" {
				var pick []ast.Stmt
				for _, st := range fd.Body.List {
					ifs, ok := st.(*ast.IfStmt)
					if !ok {
						continue
					}
					found := false
					ast.Inspect(ifs.Cond, func(n ast.Node) bool {
						if c, ok := n.(*ast.CallExpr); ok {
							if id, ok := c.Fun.(*ast.Ident); ok && id.Name == stmtOf {
								found = true
							}
						}
						return true
					})
					if found {
						pick = append(pick, st)
					}
				}
				if len(pick) != 1 {
					failf("%d top-level if-statements calling %s in their condition", len(pick), stmtOf)
				}
				fd = &ast.FuncDecl{Recv: fd.Recv, Name: fd.Name, Type: fd.Type,
					Body: &ast.BlockStmt{List: pick, Lbrace: pick[0].Pos(), Rbrace: pick[0].End()}}
				f.stmtSlice = true
			}
			txt := f.function(name, fd)
			for _, d := range extra {
				b.WriteString(d + "\n")
			}
			pos := pi.pkg.Fset.Position(fd.Pos())
			fmt.Fprintf(&b, "(* %s — %s *)\n%s\n", name, strings.TrimPrefix(pos.Filename[strings.LastIndex(pos.Filename, "/"+pn+"/")+1:], "/"), txt)
		}()
	}
	if section {
		b.WriteString("End WithTracker.\n")
		b.WriteString(sectionEpilogue())
	}
	return b.String()
}
