// go2heap: stage 5 of go2coq — the object graph of package state (tracker.go, nick.go,
// channel.go) translated over an explicit HEAP, into coq/Gen/GoTracker.v.
//
// Representation (it mirrors Model/TrackerImpl.v so that the equality lemmas are close to
// syntactic, but depends on nothing hand-written: every type and primitive is a Context variable
// of the generated section, instantiated in Proofs/GenEqTracker.v with TrackerImpl's records):
//   - *nick, *channel, *ChanPrivs are ADDRESSES into one heap per struct type; a pointer is an
//     [option positive] (None = nil); &T{...} and new(T) allocate at the counter and bump it;
//     p.f reads the object at p (a nil or dangling p is a panic), p.f = v writes it back.
//   - *NickMode / *ChanMode are INLINE values of their owner (they are created with the owner,
//     only reached through it, and copied with Copy(): any other use is refused).
//   - a map to heap pointers is a [gmap] to addresses stored inline in its owner; a *ChanPrivs
//     produced by Copy() is a VALUE (the snapshot maps hold values).
//   - the receiver *stateTracker is the state [s : HS] itself (fields nicks, chans, me; mu dropped).
//   - a computation is in the [option] monad (None = the Go code panics); functions that do not
//     write return their result only.
//   - for k, v := range m: a fold over [enum m] (a Context variable: Go's order is unspecified),
//     m evaluated once; before each round the map expression is evaluated AGAIN and an entry that
//     has been deleted in the meantime is skipped — Go's semantics for removal during range
//     (entries ADDED during the loop are not visited: the translated code adds none).
//
// Fail closed as go2coq: an unsupported construct gives  go_<f>_UNSUPPORTED.
package main

import (
	"fmt"
	"go/ast"
	"go/constant"
	"go/token"
	"go/types"
	"sort"
	"strings"
)

var heapTargets = []string{
	"newNick", "newChannel", "NewTracker",
	"nick.Nick", "channel.Channel", "nick.isOn",
	"nick.addChannel", "nick.delChannel", "channel.addNick", "channel.delNick",
	"stateTracker.NewNick", "stateTracker.GetNick", "stateTracker.NickInfo", "stateTracker.NickModes",
	"stateTracker.NewChannel", "stateTracker.GetChannel", "stateTracker.Topic", "stateTracker.ChannelModes",
	"stateTracker.Me", "stateTracker.IsOn", "stateTracker.Associate",
	"stateTracker.delNick", "stateTracker.delChannel",
	"stateTracker.ReNick", "stateTracker.DelNick", "stateTracker.DelChannel",
	"stateTracker.Dissociate", "stateTracker.Wipe",
}

// the profile of the package being translated (set by go2heap / go2heapRegistry)
var heapStructs = map[string]bool{"nick": true, "channel": true, "ChanPrivs": true}
var inlineStructs = map[string]bool{"NickMode": true, "ChanMode": true}
var snapStructs = map[string]bool{"Nick": true, "Channel": true}
var opaqueIfaces = map[string]bool{} // interface types carried as abstract values
var heapPkg, heapRoot = "state", "stateTracker"
var perTypeCounter = false // one allocation counter per struct type (addresses of different types are never compared)

func setStateProfile() {
	heapStructs = map[string]bool{"nick": true, "channel": true, "ChanPrivs": true}
	inlineStructs = map[string]bool{"NickMode": true, "ChanMode": true}
	snapStructs = map[string]bool{"Nick": true, "Channel": true}
	opaqueIfaces = map[string]bool{}
	heapPkg, heapRoot, perTypeCounter = "state", "stateTracker", false
	slicesOnHeap, strMapsOnHeap = false, false
	opaqueTypes = map[string]string{}
}

func setRegistryProfile() {
	heapStructs = map[string]bool{"hNode": true, "hList": true}
	inlineStructs = map[string]bool{}
	snapStructs = map[string]bool{}
	opaqueIfaces = map[string]bool{"Handler": true}
	heapPkg, heapRoot, perTypeCounter = "client", "hSet", true
}

var slicesOnHeap, strMapsOnHeap = false, false // []string as (backing array address, length); map[string]string as a heap object
var opaqueTypes = map[string]string{}          // "time.Time" -> "Time": named types of other packages carried as abstract values

func setLineCopyProfile() {
	heapStructs = map[string]bool{"Line": true}
	inlineStructs = map[string]bool{}
	snapStructs = map[string]bool{}
	opaqueIfaces = map[string]bool{}
	opaqueTypes = map[string]string{"time.Time": "Time"}
	heapPkg, heapRoot, perTypeCounter = "client", "", false
	slicesOnHeap, strMapsOnHeap = true, true
}

func allocNames(T string) (next, bump string) {
	if perTypeCounter {
		return "hs_next_" + T, "hs_bump_" + T
	}
	return "hs_next", "hs_bump"
}

type hkind int

const (
	hBad hkind = iota
	hStr
	hBool
	hInt
	hPtr    // pointer into the heap of struct name
	hVal    // *ChanPrivs as a value (result of Copy)
	hInline // *NickMode, *ChanMode
	hSnap   // *Nick, *Channel
	hMapSP  // map[string]*heap
	hMapPP  // map[*heap]*heap
	hMapSV  // map[string]*ChanPrivs holding values
	hUnit
	hTuple
	hStrs   // []string
	hRoot   // pointer to the root struct (the state itself): Some tt, or None = nil
	hOpaque // an interface value carried abstractly
	hPtrs   // []*T for a heap struct T
	hSliceS // []string with its backing array in the heap: (address or nil, length)
	hStrMap // map[string]string as a heap object: address or nil
)

type htype struct {
	k    hkind
	name string // struct name
	tys  []htype
}

func (t htype) coq() string {
	switch t.k {
	case hStr:
		return "bytes"
	case hBool:
		return "bool"
	case hInt:
		return "Z"
	case hPtr:
		return "option positive"
	case hVal:
		return "option " + t.name + "_obj"
	case hInline:
		return t.name + "_val"
	case hSnap:
		return "option " + t.name + "_snap"
	case hMapSP:
		return "gmap bytes positive"
	case hMapPP:
		return "gmap positive positive"
	case hMapSV:
		return "gmap bytes " + t.name + "_obj"
	case hStrs:
		return "list bytes"
	case hRoot:
		return "option unit"
	case hOpaque:
		return t.name + "_val"
	case hPtrs:
		return "list (option positive)"
	case hSliceS:
		return "option positive * Z"
	case hStrMap:
		return "option positive"
	case hUnit:
		return "unit"
	case hTuple:
		var ts []string
		for _, x := range t.tys {
			ts = append(ts, x.coq())
		}
		return strings.Join(ts, " * ")
	}
	return "BAD"
}

func (t htype) eq(u htype) bool {
	if t.k != u.k || t.name != u.name || len(t.tys) != len(u.tys) {
		return false
	}
	for i := range t.tys {
		if !t.tys[i].eq(u.tys[i]) {
			return false
		}
	}
	return true
}

type hsig struct {
	coq     string
	recv    htype
	hasRecv bool
	params  []htype
	result  htype
	writes  bool
	ins     map[string]bool // "T.f": fields written other than by delete (transitively)
	dels    map[string]bool // "T.f": map fields with an entry deleted (transitively)
}

type hvar struct {
	name string
	ty   htype
	// a local snapshot struct under construction: one variable per field
	fields map[string]*hvar
	order  []string
	snap   string
	local  string          // nl := *p: a local COPY of a heap struct of this type
	fresh  map[string]bool // fields of a local struct holding a map made in this function
}

type hex struct {
	pre []string // "x ← e;" lines
	t   string
	ty  htype
}

type heapTr struct {
	pi       *pkgInfo
	info     *types.Info
	sigs     map[string]*hsig
	vars     map[types.Object]*hvar
	recv     types.Object // the *stateTracker receiver, if any
	ntmp     int
	sig      *hsig
	fd       *ast.FuncDecl
	wr       map[string]bool // functions that write
	newState bool            // the function builds the tracker (NewTracker): no state parameter
	depth    int
}

func namedOf(t types.Type) (*types.Named, bool) {
	if p, ok := t.(*types.Pointer); ok {
		t = p.Elem()
	}
	n, ok := t.(*types.Named)
	return n, ok
}

// the type of a Go type in heap mode; *ChanPrivs is a heap pointer unless told otherwise
func heapType(t types.Type) htype {
	switch u := t.(type) {
	case *types.Basic:
		switch u.Kind() {
		case types.String, types.UntypedString:
			return htype{k: hStr}
		case types.Bool, types.UntypedBool:
			return htype{k: hBool}
		case types.Int, types.UntypedInt:
			return htype{k: hInt}
		}
	case *types.Pointer:
		if n, ok := u.Elem().(*types.Named); ok {
			if _, isStruct := n.Underlying().(*types.Struct); isStruct && pkgIs(n.Obj().Pkg(), heapPkg) {
				nm := n.Obj().Name()
				switch {
				case nm == heapRoot:
					return htype{k: hRoot}
				case heapStructs[nm]:
					return htype{k: hPtr, name: nm}
				case inlineStructs[nm]:
					return htype{k: hInline, name: nm}
				case snapStructs[nm]:
					return htype{k: hSnap, name: nm}
				}
			}
		}
	case *types.Slice:
		if b, ok := u.Elem().(*types.Basic); ok && b.Kind() == types.String {
			if slicesOnHeap {
				return htype{k: hSliceS}
			}
			return htype{k: hStrs}
		}
		if et := heapType(u.Elem()); et.k == hPtr {
			return htype{k: hPtrs, name: et.name}
		}
	case *types.Named:
		if _, isI := u.Underlying().(*types.Interface); isI && pkgIs(u.Obj().Pkg(), heapPkg) && opaqueIfaces[u.Obj().Name()] {
			return htype{k: hOpaque, name: u.Obj().Name()}
		}
		if u.Obj().Pkg() != nil {
			if nm, ok := opaqueTypes[u.Obj().Pkg().Path()+"."+u.Obj().Name()]; ok {
				return htype{k: hOpaque, name: nm}
			}
		}
	case *types.Map:
		kt, vt := heapType(u.Key()), heapType(u.Elem())
		if strMapsOnHeap && kt.k == hStr && vt.k == hStr {
			return htype{k: hStrMap}
		}
		if vt.k == hPtr {
			if kt.k == hStr {
				if vt.name == "ChanPrivs" {
					return htype{k: hMapSV, name: "ChanPrivs"} // only the snapshot maps have this type
				}
				return htype{k: hMapSP, name: vt.name}
			}
			if kt.k == hPtr {
				return htype{k: hMapPP, name: kt.name}
			}
		}
	}
	return htype{}
}

func (h *heapTr) tmp(p string) string {
	h.ntmp++
	return fmt.Sprintf("%s%d", p, h.ntmp)
}

func (h *heapTr) isRecv(e ast.Expr) bool {
	id, ok := e.(*ast.Ident)
	return ok && h.recv != nil && h.info.Uses[id] == h.recv
}

func hzero(t htype) string {
	switch t.k {
	case hStr:
		return "[]"
	case hBool:
		return "false"
	case hInt:
		return "0"
	case hPtr, hVal, hSnap, hRoot, hStrMap:
		return "None"
	case hSliceS:
		return "(None, 0)"
	case hPtrs, hStrs:
		return "[]"
	case hInline:
		return t.name + "_zero"
	case hMapSP, hMapPP, hMapSV:
		return "∅"
	}
	failf("zero value of %s", t.coq())
	return ""
}

func par(s string) string {
	if strings.ContainsAny(s, " ") && !(strings.HasPrefix(s, "(") && balancedOuter(s, '(', ')')) && !(strings.HasPrefix(s, "[") && strings.HasSuffix(s, "]%N")) {
		return "(" + s + ")"
	}
	return s
}

// read the object a heap pointer points to:  a ← p; o ← heap_T s !! a;
func (h *heapTr) deref(p hex) (pre []string, a, o string) {
	a, o = h.tmp("a"), h.tmp("o")
	pre = append(append([]string{}, p.pre...), a+" ← "+p.t+";", o+" ← heap_"+p.ty.name+" s !! "+a+";")
	return
}

func (h *heapTr) structOf(name string) *types.Struct {
	o := h.pi.pkg.Types.Scope().Lookup(name)
	return o.Type().Underlying().(*types.Struct)
}

func (h *heapTr) expr(e ast.Expr) hex {
	if tv, ok := h.info.Types[e]; ok && tv.Value != nil {
		switch tv.Value.Kind() {
		case constant.String:
			return hex{t: bytesLit(constant.StringVal(tv.Value)), ty: htype{k: hStr}}
		case constant.Bool:
			return hex{t: fmt.Sprintf("%v", constant.BoolVal(tv.Value)), ty: htype{k: hBool}}
		case constant.Int:
			return hex{t: zlit(tv.Value), ty: htype{k: hInt}}
		}
	}
	if tv, ok := h.info.Types[e]; ok && tv.IsNil() {
		return hex{t: "None", ty: htype{k: hPtr, name: "?"}}
	}
	switch x := e.(type) {
	case *ast.ParenExpr:
		return h.expr(x.X)
	case *ast.Ident:
		if v, ok := h.vars[h.info.Uses[x]]; ok && v.fields == nil {
			return hex{t: v.name, ty: v.ty}
		}
		if h.isRecv(x) {
			return hex{t: "Some tt", ty: htype{k: hRoot}} // the receiver of a method that runs is not nil
		}
		failf("identifier %s", x.Name)
	case *ast.SelectorExpr:
		sel := h.info.Selections[x]
		if sel == nil || sel.Kind() != types.FieldVal {
			failf("selector %s", exprText(h.pi, x))
		}
		fty := heapType(h.info.TypeOf(x))
		if fty.k == hBad {
			failf("field %s of unsupported type", x.Sel.Name)
		}
		if h.isRecv(x.X) {
			t := "hs_" + x.Sel.Name + " s"
			if fty.k == hPtr {
				t = "Some (" + t + ")" // a pointer field of the tracker is stored as an address
			}
			return hex{t: t, ty: fty}
		}
		if id, ok := x.X.(*ast.Ident); ok {
			if v, ok := h.vars[h.info.Uses[id]]; ok && v.fields != nil {
				fv := v.fields[x.Sel.Name]
				if fv == nil {
					failf("field %s", x.Sel.Name)
				}
				return hex{t: fv.name, ty: fv.ty}
			}
		}
		p := h.expr(x.X)
		if p.ty.k != hPtr {
			failf("field read through %s", exprText(h.pi, x.X))
		}
		pre, _, o := h.deref(p)
		return hex{pre: pre, t: p.ty.name + "_get_" + x.Sel.Name + " " + o, ty: fty}
	case *ast.IndexExpr:
		m, k := h.expr(x.X), h.expr(x.Index)
		pre := append(append([]string{}, m.pre...), k.pre...)
		switch m.ty.k {
		case hMapSP:
			return hex{pre: pre, t: par(m.t) + " !! " + par(k.t), ty: htype{k: hPtr, name: m.ty.name}}
		case hMapPP:
			a := h.tmp("a")
			pre = append(pre, a+" ← "+k.t+";")
			vn := "ChanPrivs"
			return hex{pre: pre, t: par(m.t) + " !! " + a, ty: htype{k: hPtr, name: vn}}
		}
		failf("index expression %s", exprText(h.pi, x))
	case *ast.UnaryExpr:
		if x.Op == token.NOT {
			a := h.expr(x.X)
			if a.ty.k == hBool {
				return hex{pre: a.pre, t: "negb " + par(a.t), ty: a.ty}
			}
		}
		if x.Op == token.AND {
			if cl, ok := x.X.(*ast.CompositeLit); ok {
				return h.alloc(cl)
			}
		}
		failf("unary %s", x.Op)
	case *ast.BinaryExpr:
		if x.Op == token.LAND || x.Op == token.LOR {
			a, b := h.expr(x.X), h.expr(x.Y)
			if len(b.pre) > 0 {
				// the right operand is evaluated only when the left one does not decide
				for _, p := range b.pre {
					if strings.HasPrefix(p, "let s :=") || strings.HasPrefix(p, "s ←") || strings.HasPrefix(p, "'(s,") {
						failf("effect under && / ||")
					}
				}
				c := h.tmp("c")
				inner := strings.Join(b.pre, " ") + " Some " + par(b.t)
				var line string
				if x.Op == token.LOR {
					line = c + " ← (if " + a.t + " then Some true else " + inner + ");"
				} else {
					line = c + " ← (if " + a.t + " then " + inner + " else Some false);"
				}
				return hex{pre: append(append([]string{}, a.pre...), line), t: "(" + c + " : bool)", ty: htype{k: hBool}}
			}
			op := " && "
			if x.Op == token.LOR {
				op = " || "
			}
			return hex{pre: a.pre, t: par(a.t) + op + par(b.t), ty: htype{k: hBool}}
		}
		if x.Op == token.EQL || x.Op == token.NEQ {
			a, b := h.expr(x.X), h.expr(x.Y)
			pre := append(append([]string{}, a.pre...), b.pre...)
			var t string
			switch {
			case a.ty.k == hStr && b.ty.k == hStr:
				t = "bool_decide (" + a.t + " = " + b.t + ")"
			case a.ty.k == hPtr && b.ty.k == hPtr:
				t = "bool_decide (" + a.t + " = " + b.t + ")"
			case (a.ty.k == hRoot || a.ty.k == hStrMap) && b.ty.k == hPtr && b.ty.name == "?":
				t = "bool_decide (" + a.t + " = None)"
			case a.ty.k == hInt && b.ty.k == hInt:
				t = "bool_decide (" + a.t + " = " + b.t + ")"
			default:
				failf("comparison %s", exprText(h.pi, x))
			}
			if x.Op == token.NEQ {
				t = "negb (" + t + ")"
			}
			return hex{pre: pre, t: t, ty: htype{k: hBool}}
		}
		failf("operator %s", x.Op)
	case *ast.CallExpr:
		return h.call(x)
	}
	failf("expression %s", exprText(h.pi, e))
	return hex{}
}

// &T{f: e, ...} for a heap struct: allocate
func (h *heapTr) alloc(cl *ast.CompositeLit) hex {
	n, ok := namedOf(h.info.TypeOf(cl))
	if !ok || !heapStructs[n.Obj().Name()] {
		failf("composite literal %s", exprText(h.pi, cl))
	}
	h.sig.writes = true
	st := n.Underlying().(*types.Struct)
	vals := map[string]hex{}
	var pre []string
	for _, el := range cl.Elts {
		kv, ok := el.(*ast.KeyValueExpr)
		if !ok {
			failf("unkeyed literal")
		}
		v := h.expr(kv.Value)
		pre = append(pre, v.pre...)
		vals[kv.Key.(*ast.Ident).Name] = v
	}
	args := ""
	for i := 0; i < st.NumFields(); i++ {
		ft := heapType(st.Field(i).Type())
		if ft.k == hBad {
			continue // sync.Mutex and the like
		}
		if v, ok := vals[st.Field(i).Name()]; ok {
			args += " " + par(v.t)
		} else {
			args += " " + hzero(ft)
		}
	}
	a := h.tmp("a")
	nx, bp := allocNames(n.Obj().Name())
	pre = append(pre, "let "+a+" := "+nx+" s in", "let s := put_"+n.Obj().Name()+" ("+bp+" s) "+a+" ("+n.Obj().Name()+"_mk"+args+") in")
	return hex{pre: pre, t: "Some " + a, ty: htype{k: hPtr, name: n.Obj().Name()}}
}

func (h *heapTr) call(x *ast.CallExpr) hex {
	if id, ok := x.Fun.(*ast.Ident); ok {
		switch o := h.info.Uses[id].(type) {
		case *types.Builtin:
			switch o.Name() {
			case "make":
				t := heapType(h.info.TypeOf(x))
				if t.k == hMapSP || t.k == hMapPP || t.k == hMapSV {
					var pre []string
					for _, a := range x.Args[1:] {
						pre = append(pre, h.expr(a).pre...)
					}
					return hex{pre: pre, t: "∅", ty: t}
				}
				if t.k == hSliceS && len(x.Args) == 2 {
					n := h.expr(x.Args[1])
					if n.ty.k != hInt {
						failf("make")
					}
					h.sig.writes = true
					r := h.tmp("t")
					return hex{pre: append(append([]string{}, n.pre...), "'(s, "+r+") ← go_make_strs s "+par(n.t)+";"), t: r, ty: t}
				}
				if t.k == hStrMap && len(x.Args) == 1 {
					h.sig.writes = true
					a := h.tmp("a")
					nx, bp := allocNames("StrMap")
					return hex{pre: []string{"let " + a + " := " + nx + " s in", "let s := put_StrMap (" + bp + " s) " + a + " StrMap_empty in"}, t: "Some " + a, ty: t}
				}
				if t.k == hPtrs && len(x.Args) == 2 {
					if tv, ok := h.info.Types[x.Args[1]]; ok && tv.Value != nil && constant.Sign(tv.Value) == 0 {
						return hex{t: "[]", ty: t}
					}
				}
			case "append":
				if len(x.Args) == 2 && !x.Ellipsis.IsValid() {
					l, e := h.expr(x.Args[0]), h.expr(x.Args[1])
					if l.ty.k == hPtrs && e.ty.k == hPtr {
						return hex{pre: append(append([]string{}, l.pre...), e.pre...), t: par(l.t) + " ++ [" + e.t + "]", ty: l.ty}
					}
				}
			case "new":
				n, ok := namedOf(h.info.TypeOf(x))
				if ok && inlineStructs[n.Obj().Name()] {
					return hex{t: n.Obj().Name() + "_zero", ty: htype{k: hInline, name: n.Obj().Name()}}
				}
				if ok && heapStructs[n.Obj().Name()] {
					h.sig.writes = true
					a := h.tmp("a")
					nm := n.Obj().Name()
					nx, bp := allocNames(nm)
					return hex{pre: []string{"let " + a + " := " + nx + " s in", "let s := put_" + nm + " (" + bp + " s) " + a + " " + nm + "_zero in"},
						t: "Some " + a, ty: htype{k: hPtr, name: nm}}
				}
			case "copy":
				if len(x.Args) == 2 {
					dst, src := h.expr(x.Args[0]), h.expr(x.Args[1])
					if dst.ty.k == hSliceS && src.ty.k == hSliceS {
						h.sig.writes = true
						pre := append(append([]string{}, dst.pre...), src.pre...)
						pre = append(pre, "s ← go_copy_strs s "+par(dst.t)+" "+par(src.t)+";")
						return hex{pre: pre, t: "Z.min (snd " + par(dst.t) + ") (snd " + par(src.t) + ")", ty: htype{k: hInt}}
					}
				}
			case "len":
				m := h.expr(x.Args[0])
				if m.ty.k == hSliceS {
					return hex{pre: m.pre, t: "snd " + par(m.t), ty: htype{k: hInt}}
				}
				if m.ty.k == hMapSP || m.ty.k == hMapPP || m.ty.k == hMapSV {
					return hex{pre: m.pre, t: "Z.of_nat (size " + par(m.t) + ")", ty: htype{k: hInt}}
				}
			}
			failf("builtin %s", exprText(h.pi, x))
		case *types.Func:
			callee := h.sigs[o.Name()]
			if callee == nil {
				failf("call of %s which is not translated", o.Name())
			}
			return h.apply(callee, nil, x.Args)
		}
	}
	if se, ok := x.Fun.(*ast.SelectorExpr); ok {
		if id, ok := se.X.(*ast.Ident); ok {
			if pn, ok := h.info.Uses[id].(*types.PkgName); ok && pn.Imported().Path() == "strings" && se.Sel.Name == "ToLower" && len(x.Args) == 1 {
				a := h.expr(x.Args[0])
				if a.ty.k != hStr {
					failf("strings.ToLower")
				}
				return hex{pre: a.pre, t: "ext_strings_ToLower " + par(a.t), ty: htype{k: hStr}}
			}
		}
		if sel := h.info.Selections[se]; sel != nil && sel.Kind() == types.MethodVal {
			rn, _ := namedOf(sel.Recv())
			if rn == nil {
				failf("method call %s", exprText(h.pi, x.Fun))
			}
			name := rn.Obj().Name() + "." + se.Sel.Name
			// Copy() of an inline value / of a heap *ChanPrivs
			if se.Sel.Name == "Copy" && len(x.Args) == 0 {
				h.checkCopyBody(name)
				r := h.expr(se.X)
				switch {
				case r.ty.k == hInline:
					return r // a copy of a value is the value (the pointer is never nil: owned inline)
				case r.ty.k == hPtr && r.ty.name == "ChanPrivs":
					v := h.tmp("v")
					pre := append(append([]string{}, r.pre...),
						v+" ← match "+r.t+" with Some a_ => p_ ← heap_ChanPrivs s !! a_; Some (Some p_) | None => Some None end;")
					return hex{pre: pre, t: v, ty: htype{k: hVal, name: "ChanPrivs"}}
				}
				failf("Copy of %s", exprText(h.pi, se.X))
			}
			if name == "nick.parseModes" && len(x.Args) == 1 {
				// translated by go2coq (GoFuncs.v) as a function of the mode record alone: checked here
				// that the receiver is only used as nk.modes; the function is a Context variable
				h.onlyThroughField(h.pi.funcs[name], "modes")
				r, m := h.expr(se.X), h.expr(x.Args[0])
				if r.ty.k != hPtr || m.ty.k != hStr {
					failf("parseModes")
				}
				h.sig.writes = true
				dpre, a, o := h.deref(hex{t: r.t, ty: r.ty})
				pre := append(append(append([]string{}, r.pre...), m.pre...), dpre...)
				nm := h.tmp("m")
				pre = append(pre, nm+" ← ext_nick_parseModes (nick_get_modes "+o+") "+par(m.t)+";",
					"let s := put_nick s "+a+" (nick_set_modes "+o+" "+nm+") in")
				return hex{pre: pre, t: "tt", ty: htype{k: hUnit}}
			}
			if name == "channel.parseModes" && len(x.Args) == 2 && x.Ellipsis.IsValid() {
				// translated by go2coq (GoFuncs.v) as a function of ch.modes, ch.name, the stores
				// ch.lookup and ch.nicks (here: the two maps and the ChanPrivs heap); it returns the
				// new ch.modes and the new store behind ch.nicks (the map is not changed: its type
				// in GoFuncs.v has no insertion).  The function is a field of the class.
				h.onlyThroughField(h.pi.funcs[name], "modes", "name", "lookup", "nicks")
				r, m, as := h.expr(se.X), h.expr(x.Args[0]), h.expr(x.Args[1])
				if r.ty.k != hPtr || r.ty.name != "channel" || m.ty.k != hStr || as.ty.k != hStrs {
					failf("parseModes")
				}
				h.sig.writes = true
				dpre, a, o := h.deref(hex{t: r.t, ty: r.ty})
				pre := append(append(append(append([]string{}, r.pre...), m.pre...), as.pre...), dpre...)
				rn := h.tmp("r")
				pre = append(pre, rn+" ← ext_channel_parseModes (channel_get_modes "+o+") (channel_get_name "+o+") (channel_get_lookup "+o+") (channel_get_nicks "+o+") (heap_ChanPrivs s) "+par(m.t)+" "+par(as.t)+";",
					"let s := put_channel (set_heap_ChanPrivs s (snd "+rn+")) "+a+" (channel_set_modes "+o+" (fst "+rn+")) in")
				return hex{pre: pre, t: "tt", ty: htype{k: hUnit}}
			}
			callee := h.sigs[name]
			if callee == nil {
				failf("call of method %s which is not translated", name)
			}
			if h.isRecv(se.X) {
				return h.apply(callee, nil, x.Args)
			}
			r := h.expr(se.X)
			if r.ty.k == hRoot {
				// a method of the root struct called through a pointer that may be nil: Go runs the
				// method until it uses the receiver; accepted when its first statement is
				// recv.Lock() / recv.RLock() (a nil receiver panics there), as a nil check here
				if !startsWithRecvLock(h.info, h.pi.funcs[name]) {
					failf("%s called through a pointer, and it does not start by locking its receiver", name)
				}
				v := h.apply(callee, nil, x.Args)
				v.pre = append(append(append([]string{}, r.pre...), "_ ← "+r.t+";"), v.pre...)
				return v
			}
			return h.apply(callee, &r, x.Args)
		}
	}
	failf("call %s", exprText(h.pi, x.Fun))
	return hex{}
}

// T.Copy must be:  if r == nil { return nil }; c := *r; return &c
func (h *heapTr) checkCopyBody(name string) {
	fd := h.pi.funcs[name]
	bad := func() { failf("%s is not the plain value copy", name) }
	if fd == nil || fd.Recv == nil || len(fd.Recv.List[0].Names) != 1 || len(fd.Body.List) != 3 {
		bad()
	}
	recv := h.info.Defs[fd.Recv.List[0].Names[0]]
	isRecv := func(e ast.Expr) bool { id, ok := e.(*ast.Ident); return ok && h.info.Uses[id] == recv }
	isNil := func(e ast.Expr) bool { tv, ok := h.info.Types[e]; return ok && tv.IsNil() }
	ifs, ok := fd.Body.List[0].(*ast.IfStmt)
	if !ok || ifs.Init != nil || ifs.Else != nil || len(ifs.Body.List) != 1 {
		bad()
	}
	c, ok := ifs.Cond.(*ast.BinaryExpr)
	if !ok || c.Op != token.EQL || !isRecv(c.X) || !isNil(c.Y) {
		bad()
	}
	r0, ok := ifs.Body.List[0].(*ast.ReturnStmt)
	if !ok || len(r0.Results) != 1 || !isNil(r0.Results[0]) {
		bad()
	}
	as, ok := fd.Body.List[1].(*ast.AssignStmt)
	if !ok || as.Tok != token.DEFINE || len(as.Lhs) != 1 || len(as.Rhs) != 1 {
		bad()
	}
	st, ok := as.Rhs[0].(*ast.StarExpr)
	if !ok || !isRecv(st.X) {
		bad()
	}
	r1, ok := fd.Body.List[2].(*ast.ReturnStmt)
	if !ok || len(r1.Results) != 1 {
		bad()
	}
	u, ok := r1.Results[0].(*ast.UnaryExpr)
	if !ok || u.Op != token.AND {
		bad()
	}
	id, ok := u.X.(*ast.Ident)
	if !ok || h.info.Uses[id] != h.info.Defs[as.Lhs[0].(*ast.Ident)] {
		bad()
	}
}

// every use of the receiver in fd is recv.<field>
func (h *heapTr) onlyThroughField(fd *ast.FuncDecl, fields ...string) {
	if fd == nil || fd.Recv == nil || len(fd.Recv.List[0].Names) != 1 {
		failf("parseModes not found")
	}
	recv := h.info.Defs[fd.Recv.List[0].Names[0]]
	uses, good := 0, 0
	ast.Inspect(fd.Body, func(n ast.Node) bool {
		switch x := n.(type) {
		case *ast.Ident:
			if h.info.Uses[x] == recv {
				uses++
			}
		case *ast.SelectorExpr:
			if id, ok := x.X.(*ast.Ident); ok && h.info.Uses[id] == recv {
				for _, f := range fields {
					if x.Sel.Name == f {
						good++
					}
				}
			}
		}
		return true
	})
	if uses != good {
		failf("%s uses its receiver other than through %v", fd.Name.Name, fields)
	}
}

func (h *heapTr) apply(callee *hsig, recv *hex, args []ast.Expr) hex {
	var pre []string
	t := callee.coq + " s"
	if recv != nil {
		if !recv.ty.eq(callee.recv) {
			failf("receiver of %s has type %s", callee.coq, recv.ty.coq())
		}
		pre = append(pre, recv.pre...)
		t += " " + par(recv.t)
	}
	if len(args) != len(callee.params) {
		failf("call of %s with %d arguments", callee.coq, len(args))
	}
	for i, a := range args {
		v := h.expr(a)
		if !v.ty.eq(callee.params[i]) && !(v.ty.k == hPtr && v.ty.name == "?" && callee.params[i].k == hPtr) {
			failf("argument %d of %s has type %s", i, callee.coq, v.ty.coq())
		}
		pre = append(pre, v.pre...)
		t += " " + par(v.t)
	}
	r := h.tmp("r")
	for f := range callee.ins {
		h.sig.ins[f] = true
	}
	for f := range callee.dels {
		h.sig.dels[f] = true
	}
	if callee.writes {
		h.sig.writes = true
		if callee.result.k == hUnit {
			pre = append(pre, "s ← "+t+";")
			return hex{pre: pre, t: "tt", ty: callee.result}
		}
		pre = append(pre, "'(s, "+r+") ← "+t+";")
		return hex{pre: pre, t: r, ty: callee.result}
	}
	pre = append(pre, r+" ← "+t+";")
	return hex{pre: pre, t: r, ty: callee.result}
}

// ---------------------------------------------------------------------------------------
// statements: continuation style; k gives the text of what follows

func ind(n int) string { return strings.Repeat("  ", n) }

func (h *heapTr) lines(pre []string, body string, d int) string {
	var b strings.Builder
	for _, p := range pre {
		b.WriteString(ind(d) + p + "\n")
	}
	b.WriteString(body)
	return b.String()
}

func (h *heapTr) ret(vals []hex, d int) string {
	var pre []string
	var ts []string
	for _, v := range vals {
		pre = append(pre, v.pre...)
		ts = append(ts, v.t)
	}
	r := tuple(ts)
	if len(ts) == 0 {
		r = "tt"
	}
	out := "Some " + par(r)
	if h.sig.writes || h.wr[h.sig.coq] {
		if len(ts) == 0 {
			out = "Some s"
		} else {
			out = "Some (s, " + r + ")"
		}
	}
	return h.lines(pre, ind(d)+out+"\n", d)
}

func (h *heapTr) stmts(list []ast.Stmt, d int, k func(d int) string) string {
	if len(list) == 0 {
		return k(d)
	}
	return h.stmt(list[0], d, func(d int) string { return h.stmts(list[1:], d, k) })
}

func (h *heapTr) declare(id *ast.Ident, ty htype) *hvar {
	o := h.info.Defs[id]
	if o == nil {
		o = h.info.Uses[id]
	}
	name := id.Name
	switch name {
	case "s", "o", "a", "e", "r", "v", "c", "list", "option", "positive", "bool", "unit", "nat", "fst", "snd",
		"size", "delete", "bytes", "gmap", "tt", "true", "false", "negb", "bool_decide", "is_Some", "HS":
		name = name + "_"
	}
	v := &hvar{name: name, ty: ty}
	h.vars[o] = v
	return v
}

// write a field of a heap object:  p.f = v   /  p.f[k] = v  /  delete(p.f, k)
func (h *heapTr) fieldUpdate(kind string, target *ast.SelectorExpr, upd func(old string) (pre []string, val string), d int, k func(int) string) string {
	h.sig.writes = true
	if h.isRecv(target.X) {
		if kind != "delete" {
			h.sig.ins[heapRoot+"."+target.Sel.Name] = true
		} else {
			h.sig.dels[heapRoot+"."+target.Sel.Name] = true
		}
		pre, val := upd("hs_" + target.Sel.Name + " s")
		return h.lines(pre, ind(d)+"let s := hs_set_"+target.Sel.Name+" s "+par(val)+" in\n", d) + k(d)
	}
	p := h.expr(target.X)
	if p.ty.k != hPtr {
		failf("assignment through %s", exprText(h.pi, target.X))
	}
	dpre, a, o := h.deref(hex{t: p.t, ty: p.ty})
	nm := p.ty.name
	pre2, val := upd(nm + "_get_" + target.Sel.Name + " " + o)
	// operands first, then the object is read and written back (no stale copy)
	pre := append(append(append([]string{}, p.pre...), pre2...), dpre...)
	if kind != "delete" {
		h.sig.ins[nm+"."+target.Sel.Name] = true
	} else {
		h.sig.dels[nm+"."+target.Sel.Name] = true
	}
	return h.lines(pre, ind(d)+"let s := put_"+nm+" s "+a+" ("+nm+"_set_"+target.Sel.Name+" "+o+" "+par(val)+") in\n", d) + k(d)
}

// a value to be stored where an address is expected
func storable(v hex) (pre []string, t string) {
	if v.ty.k == hPtr {
		if strings.HasPrefix(v.t, "Some ") {
			return v.pre, strings.TrimPrefix(v.t, "Some ")
		}
		return append(append([]string{}, v.pre...), "sa_ ← "+v.t+";"), "sa_"
	}
	return v.pre, v.t
}

func (h *heapTr) assign(x *ast.AssignStmt, d int, k func(int) string) string {
	if len(x.Lhs) == 2 && len(x.Rhs) == 1 {
		// v, ok := m[k]
		if ix, ok := x.Rhs[0].(*ast.IndexExpr); ok {
			v := h.expr(ix)
			var out []string
			out = append(out, v.pre...)
			t := h.tmp("t")
			out = append(out, "let "+t+" := "+v.t+" in")
			if id := x.Lhs[0].(*ast.Ident); id.Name != "_" {
				out = append(out, "let "+h.declare(id, v.ty).name+" := "+t+" in")
			}
			if id := x.Lhs[1].(*ast.Ident); id.Name != "_" {
				out = append(out, "let "+h.declare(id, htype{k: hBool}).name+" := bool_decide (is_Some "+t+") in")
			}
			return h.lines(out, "", d) + k(d)
		}
		// a, b := f()
		v := h.expr(x.Rhs[0])
		if v.ty.k != hTuple || len(v.ty.tys) != 2 {
			failf("assignment %s", exprText(h.pi, x.Rhs[0]))
		}
		out := v.pre
		for i, l := range x.Lhs {
			id := l.(*ast.Ident)
			if id.Name != "_" {
				out = append(out, "let "+h.declare(id, v.ty.tys[i]).name+" : "+v.ty.tys[i].coq()+" := "+[]string{"fst", "snd"}[i]+" "+par(v.t)+" in")
			}
		}
		return h.lines(out, "", d) + k(d)
	}
	if len(x.Lhs) != 1 || len(x.Rhs) != 1 {
		failf("assignment with several operands")
	}
	switch l := x.Lhs[0].(type) {
	case *ast.Ident:
		// nl := *p: a local copy of a heap struct, one variable per field
		if st, ok := x.Rhs[0].(*ast.StarExpr); ok && x.Tok == token.DEFINE {
			p := h.expr(st.X)
			if p.ty.k != hPtr || !heapStructs[p.ty.name] {
				failf("dereference %s", exprText(h.pi, st))
			}
			dpre, _, o := h.deref(p)
			stt := h.structOf(p.ty.name)
			sv := &hvar{name: l.Name, fields: map[string]*hvar{}, local: p.ty.name, fresh: map[string]bool{}}
			out := dpre
			for i := 0; i < stt.NumFields(); i++ {
				fn := stt.Field(i).Name()
				ft := heapType(stt.Field(i).Type())
				if ft.k == hBad {
					failf("field %s.%s", p.ty.name, fn)
				}
				fv := &hvar{name: l.Name + "_" + fn, ty: ft}
				sv.fields[fn] = fv
				sv.order = append(sv.order, fn)
				out = append(out, "let "+fv.name+" := "+p.ty.name+"_get_"+fn+" "+o+" in")
			}
			h.vars[h.info.Defs[l]] = sv
			return h.lines(out, "", d) + k(d)
		}
		// x := &Snap{...}: a snapshot under construction
		if u, ok := x.Rhs[0].(*ast.UnaryExpr); ok && u.Op == token.AND && x.Tok == token.DEFINE {
			if cl, ok := u.X.(*ast.CompositeLit); ok {
				// st := &stateTracker{chans: make(...), nicks: make(...)}: the initial state
				if n, ok := namedOf(h.info.TypeOf(cl)); ok && n.Obj().Name() == heapRoot && h.recv == nil && h.newState {
					for _, el := range cl.Elts {
						kv, ok := el.(*ast.KeyValueExpr)
						if !ok {
							failf("unkeyed literal")
						}
						if v := h.expr(kv.Value); v.t != "∅" || len(v.pre) > 0 {
							failf("initial tracker field %s", exprText(h.pi, kv.Key))
						}
					}
					h.recv = h.info.Defs[l]
					h.sig.writes = true
					return ind(d) + "let s := hs_init in\n" + k(d)
				}
				if n, ok := namedOf(h.info.TypeOf(cl)); ok && snapStructs[n.Obj().Name()] {
					st := n.Underlying().(*types.Struct)
					sv := &hvar{name: l.Name, fields: map[string]*hvar{}, snap: n.Obj().Name()}
					vals := map[string]hex{}
					var out []string
					for _, el := range cl.Elts {
						kv := el.(*ast.KeyValueExpr)
						v := h.expr(kv.Value)
						out = append(out, v.pre...)
						vals[kv.Key.(*ast.Ident).Name] = v
					}
					for i := 0; i < st.NumFields(); i++ {
						fn := st.Field(i).Name()
						ft := heapType(st.Field(i).Type())
						val := hzero(ft)
						if v, ok := vals[fn]; ok {
							val, ft = v.t, v.ty
						}
						fv := &hvar{name: l.Name + "_" + fn, ty: ft}
						sv.fields[fn] = fv
						sv.order = append(sv.order, fn)
						out = append(out, "let "+fv.name+" := "+val+" in")
					}
					h.vars[h.info.Defs[l]] = sv
					return h.lines(out, "", d) + k(d)
				}
			}
		}
		v := h.expr(x.Rhs[0])
		var hv *hvar
		if x.Tok == token.DEFINE {
			hv = h.declare(l, v.ty)
		} else {
			hv = h.vars[h.info.Uses[l]]
			if hv == nil {
				failf("assignment to %s", l.Name)
			}
		}
		return h.lines(append(v.pre, "let "+hv.name+" := "+v.t+" in"), "", d) + k(d)
	case *ast.SelectorExpr:
		v := h.expr(x.Rhs[0])
		// field of a local snapshot
		if id, ok := l.X.(*ast.Ident); ok {
			if sv, ok := h.vars[h.info.Uses[id]]; ok && sv.fields != nil {
				fv := sv.fields[l.Sel.Name]
				if fv == nil {
					failf("field %s", l.Sel.Name)
				}
				if !v.ty.eq(fv.ty) && !(v.ty.k == hPtr && v.ty.name == "?") {
					failf("assignment of a %s to %s", v.ty.coq(), fv.name)
				}
				if sv.fresh != nil {
					sv.fresh[l.Sel.Name] = isMakeCall(h.info, x.Rhs[0])
				}
				return h.lines(append(v.pre, "let "+fv.name+" := "+v.t+" in"), "", d) + k(d)
			}
		}
		ft := heapType(h.info.TypeOf(l))
		if ft.k == hMapSP || ft.k == hMapPP || ft.k == hMapSV || ft.k == hStrMap || ft.k == hSliceS {
			failf("a map / slice field of a heap object is replaced (the identity of a map must be fixed by its owner)")
		}
		if !v.ty.eq(ft) && !((ft.k == hPtr || ft.k == hRoot) && v.ty.k == hPtr && v.ty.name == "?") {
			failf("assignment of a %s to field %s", v.ty.coq(), l.Sel.Name)
		}
		return h.fieldUpdate("set", l, func(old string) ([]string, string) {
			if ft.k == hPtr && h.isRecv(l.X) {
				p, t := storable(v)
				return p, t
			}
			return v.pre, v.t
		}, d, k)
	case *ast.IndexExpr:
		// m[k] = v with m a field
		key, v := h.expr(l.Index), h.expr(x.Rhs[0])
		if se, ok := l.X.(*ast.SelectorExpr); ok {
			if id, ok := se.X.(*ast.Ident); ok {
				if sv, ok := h.vars[h.info.Uses[id]]; ok && sv.fields != nil {
					fv := sv.fields[se.Sel.Name]
					if fv != nil && fv.ty.k == hStrMap && key.ty.k == hStr && v.ty.k == hStr {
						h.sig.writes = true
						if !sv.fresh[se.Sel.Name] {
							failf("insertion into a map that was not made in this function (it may be the map ranged over)")
						}
						a, m := h.tmp("a"), h.tmp("m")
						out := append(append([]string{}, key.pre...), v.pre...)
						out = append(out, a+" ← "+fv.name+";", m+" ← heap_StrMap s !! "+a+";",
							"let s := put_StrMap s "+a+" (StrMap_set "+m+" "+par(key.t)+" "+par(v.t)+") in")
						return h.lines(out, "", d) + k(d)
					}
					if fv == nil || fv.ty.k != hMapSV || v.ty.k != hVal {
						failf("assignment %s", exprText(h.pi, l))
					}
					// a nil copy cannot occur for an entry of the map: stored as the value
					out := append(append([]string{}, key.pre...), v.pre...)
					out = append(out, "sv_ ← "+v.t+";", "let "+fv.name+" := <["+key.t+" := sv_]> "+fv.name+" in")
					return h.lines(out, "", d) + k(d)
				}
			}
			mt := heapType(h.info.TypeOf(se))
			return h.fieldUpdate("insert", se, func(old string) ([]string, string) {
				pre := append(append([]string{}, key.pre...), v.pre...)
				kt := key.t
				if mt.k == hMapPP {
					pre = append(pre, "ka_ ← "+key.t+";")
					kt = "ka_"
				}
				p2, vt := storable(hex{t: v.t, ty: v.ty})
				pre = append(pre, p2...)
				return pre, "<[" + kt + " := " + vt + "]> (" + old + ")"
			}, d, k)
		}
	}
	failf("assignment to %s", exprText(h.pi, x.Lhs[0]))
	return ""
}

// hs.Lock() / defer hs.Unlock() through an embedded sync.Mutex / RWMutex of the receiver
func (h *heapTr) recvMutexCall(call *ast.CallExpr) bool {
	se, ok := call.Fun.(*ast.SelectorExpr)
	if !ok || !h.isRecv(se.X) {
		return false
	}
	sel := h.info.Selections[se]
	if sel == nil || sel.Kind() != types.MethodVal {
		return false
	}
	fn, ok := sel.Obj().(*types.Func)
	if !ok || fn.Pkg() == nil || fn.Pkg().Path() != "sync" {
		return false
	}
	switch fn.Name() {
	case "Lock", "Unlock", "RLock", "RUnlock":
		return true
	}
	return false
}

func isMakeCall(info *types.Info, e ast.Expr) bool {
	call, ok := e.(*ast.CallExpr)
	if !ok {
		return false
	}
	id, ok := call.Fun.(*ast.Ident)
	if !ok {
		return false
	}
	b, ok := info.Uses[id].(*types.Builtin)
	return ok && b.Name() == "make"
}

// the body of a method starts with recv.Lock() / recv.RLock(): a nil receiver panics at once
func startsWithRecvLock(info *types.Info, fd *ast.FuncDecl) bool {
	if fd == nil || fd.Recv == nil || len(fd.Recv.List[0].Names) != 1 || len(fd.Body.List) == 0 {
		return false
	}
	es, ok := fd.Body.List[0].(*ast.ExprStmt)
	if !ok {
		return false
	}
	call, ok := es.X.(*ast.CallExpr)
	if !ok {
		return false
	}
	h := &heapTr{info: info, recv: info.Defs[fd.Recv.List[0].Names[0]]}
	return h.recvMutexCall(call)
}

func (h *heapTr) stmt(s ast.Stmt, d int, k func(int) string) string {
	switch x := s.(type) {
	case *ast.ExprStmt:
		if call, ok := x.X.(*ast.CallExpr); ok && h.recvMutexCall(call) {
			return k(d)
		}
	case *ast.DeferStmt:
		if h.recvMutexCall(x.Call) {
			return k(d)
		}
	}
	f := &ftrans{pi: h.pi, info: h.info}
	if h.recv != nil {
		f.recv = h.recv
	}
	switch f.dropKind(s) {
	case "log":
		// the arguments are evaluated (a nil dereference there panics)
		var pre []string
		for _, a := range s.(*ast.ExprStmt).X.(*ast.CallExpr).Args {
			func() {
				defer func() {
					if r := recover(); r != nil {
						if _, ok := r.(unsupported); !ok {
							panic(r)
						}
						panic(r)
					}
				}()
				v := h.expr(a)
				if _, isId := a.(*ast.Ident); isId && v.ty.k == hPtr {
					// a *nick / *channel is printed through its String method; package fmt recovers
					// a panic raised there (catchPanic), so nothing is evaluated that could panic here
					return
				}
				if v.ty.k == hPtr {
					failf("a heap object is printed by a logging call")
				}
				pre = append(pre, v.pre...)
			}()
		}
		return h.lines(pre, "", d) + k(d)
	case "mutex":
		return k(d)
	}
	switch x := s.(type) {
	case *ast.BlockStmt:
		return h.stmts(x.List, d, k)
	case *ast.ReturnStmt:
		var vals []hex
		if len(x.Results) == 1 && h.isRecv(x.Results[0]) && h.newState {
			h.sig.result = htype{k: hUnit}
			return ind(d) + "Some s\n"
		}
		// return &Root{f: make(...)}: the initial state
		if len(x.Results) == 1 && h.newState && h.recv == nil {
			if u, ok := x.Results[0].(*ast.UnaryExpr); ok && u.Op == token.AND {
				if cl, ok := u.X.(*ast.CompositeLit); ok {
					if n, ok := namedOf(h.info.TypeOf(cl)); ok && n.Obj().Name() == heapRoot {
						for _, el := range cl.Elts {
							kv, ok := el.(*ast.KeyValueExpr)
							if !ok {
								failf("unkeyed literal")
							}
							if v := h.expr(kv.Value); v.t != "∅" || len(v.pre) > 0 {
								failf("initial field %s", exprText(h.pi, kv.Key))
							}
						}
						h.sig.writes = true
						h.sig.result = htype{k: hUnit}
						return ind(d) + "Some hs_init\n"
					}
				}
			}
		}
		// return &nl for a local struct: it escapes here, as a fresh heap object with the current fields
		if len(x.Results) == 1 {
			if u, ok := x.Results[0].(*ast.UnaryExpr); ok && u.Op == token.AND {
				if id, ok := u.X.(*ast.Ident); ok {
					if sv, ok := h.vars[h.info.Uses[id]]; ok && sv.fields != nil && sv.local != "" {
						h.sig.writes = true
						args := ""
						for _, fn := range sv.order {
							args += " " + par(sv.fields[fn].name)
						}
						a := h.tmp("a")
						nx, bp := allocNames(sv.local)
						v := hex{pre: []string{"let " + a + " := " + nx + " s in", "let s := put_" + sv.local + " (" + bp + " s) " + a + " (" + sv.local + "_mk" + args + ") in"},
							t: "Some " + a, ty: htype{k: hPtr, name: sv.local}}
						h.noteResult([]hex{v})
						return h.ret([]hex{v}, d)
					}
				}
			}
		}
		declared := h.info.Defs[h.fd.Name].(*types.Func).Type().(*types.Signature).Results()
		for i, e := range x.Results {
			if tv, ok := h.info.Types[e]; ok && tv.IsNil() && i < declared.Len() {
				if dt := heapType(declared.At(i).Type()); dt.k == hPtrs || dt.k == hStrs {
					vals = append(vals, hex{t: "[]", ty: dt})
					continue
				}
			}
			if id, ok := e.(*ast.Ident); ok {
				if sv, ok := h.vars[h.info.Uses[id]]; ok && sv.fields != nil {
					args := ""
					for _, fn := range sv.order {
						args += " " + par(sv.fields[fn].name)
					}
					vals = append(vals, hex{t: "Some (" + sv.snap + "_mk" + args + ")", ty: htype{k: hSnap, name: sv.snap}})
					continue
				}
			}
			v := h.expr(e)
			vals = append(vals, v)
		}
		h.noteResult(vals)
		return h.ret(vals, d)
	case *ast.AssignStmt:
		return h.assign(x, d, k)
	case *ast.ExprStmt:
		call, ok := x.X.(*ast.CallExpr)
		if !ok {
			break
		}
		if id, ok := call.Fun.(*ast.Ident); ok && id.Name == "delete" && len(call.Args) == 2 {
			if se, ok := call.Args[0].(*ast.SelectorExpr); ok {
				key := h.expr(call.Args[1])
				mt := heapType(h.info.TypeOf(se))
				return h.fieldUpdate("delete", se, func(old string) ([]string, string) {
					pre := append([]string{}, key.pre...)
					kt := key.t
					if mt.k == hMapPP {
						pre = append(pre, "ka_ ← "+key.t+";")
						kt = "ka_"
					}
					return pre, "delete " + par(kt) + " (" + old + ")"
				}, d, k)
			}
		}
		v := h.expr(call)
		return h.lines(v.pre, "", d) + k(d)
	case *ast.IfStmt:
		body := func(d int) string {
			c := h.expr(x.Cond)
			if c.ty.k != hBool {
				failf("condition")
			}
			els := func(d int) string {
				if x.Else == nil {
					return k(d)
				}
				return h.stmt(x.Else, d, k)
			}
			return h.lines(c.pre, ind(d)+"if "+c.t+" then\n", d) + h.stmts(x.Body.List, d+1, k) + ind(d) + "else\n" + els(d+1)
		}
		if x.Init != nil {
			return h.stmt(x.Init, d, body)
		}
		return body(d)
	case *ast.RangeStmt:
		return h.rangeStmt(x, d, k)
	case *ast.ForStmt:
		return h.forStmt(x, d, k)
	}
	failf("statement %T", s)
	return ""
}

func (h *heapTr) noteResult(vals []hex) {
	var t htype
	switch len(vals) {
	case 0:
		t = htype{k: hUnit}
	case 1:
		t = vals[0].ty
	default:
		t = htype{k: hTuple}
		for _, v := range vals {
			t.tys = append(t.tys, v.ty)
		}
	}
	if t.k == hPtr && t.name == "?" {
		return // nil: any pointer-like result
	}
	if t.k == hTuple {
		for i := range t.tys {
			if t.tys[i].k == hPtr && t.tys[i].name == "?" && h.sig.result.k == hTuple {
				t.tys[i] = h.sig.result.tys[i]
			}
		}
	}
	if h.sig.result.k == hBad {
		h.sig.result = t
		return
	}
	// nil in one return, a value in another: keep the informative one
	if h.sig.result.k == hTuple && t.k == hTuple {
		for i := range t.tys {
			if h.sig.result.tys[i].k == hPtr && h.sig.result.tys[i].name == "?" {
				h.sig.result.tys[i] = t.tys[i]
			}
		}
		return
	}
	if !h.sig.result.eq(t) {
		failf("results of different kinds: %s and %s", h.sig.result.coq(), t.coq())
	}
}

// for init; cond; post { body }: a loop with FUEL (the class field loop_fuel of the state at loop
// entry); the condition is tested first, then running out of fuel is None, as a panic.
func (h *heapTr) forStmt(x *ast.ForStmt, d int, k func(int) string) string {
	if x.Cond == nil {
		failf("for without condition")
	}
	ast.Inspect(x.Body, func(n ast.Node) bool {
		switch n.(type) {
		case *ast.ReturnStmt, *ast.BranchStmt:
			failf("jump inside a loop")
		}
		return true
	})
	run := func(d int) string {
		list := append([]ast.Stmt{}, x.Body.List...)
		if x.Post != nil {
			list = append(list, x.Post)
		}
		blk := &ast.BlockStmt{List: list, Lbrace: x.Body.Lbrace, Rbrace: x.Body.Rbrace}
		locals := h.loopLocals(blk)
		wr := writesIn(h, blk)
		if wr {
			h.sig.writes = true
		}
		var st, tys []string
		if wr {
			st, tys = append(st, "s"), append(tys, "HS")
		}
		for _, v := range locals {
			st, tys = append(st, v.name), append(tys, par(v.ty.coq()))
		}
		if len(st) == 0 {
			failf("loop without state")
		}
		acc, accT := tuple(st), strings.Join(tys, " * ")
		open := "let " + st[0] + " := acc_ in"
		if len(st) > 1 {
			open = "let '" + acc + " := acc_ in"
		}
		c := h.expr(x.Cond)
		if c.ty.k != hBool {
			failf("condition")
		}
		body := h.stmts(list, d+3, func(d int) string { return ind(d) + "Some " + par(acc) + "\n" })
		var b strings.Builder
		pat := acc
		if len(st) > 1 {
			pat = "'" + acc
		}
		b.WriteString(ind(d) + pat + " ← go_loop (loop_fuel s)\n")
		b.WriteString(ind(d+2) + "(fun acc_ : " + accT + " =>\n" + ind(d+3) + open + "\n")
		b.WriteString(h.lines(c.pre, ind(d+3)+"Some "+par(c.t)+")\n", d+3))
		b.WriteString(ind(d+2) + "(fun acc_ : " + accT + " =>\n" + ind(d+3) + open + "\n")
		b.WriteString(body)
		b.WriteString(ind(d+2) + ") " + par(acc) + ";\n")
		return b.String() + k(d)
	}
	if x.Init != nil {
		return h.stmt(x.Init, d, run)
	}
	return run(d)
}

// locals assigned in the body of a loop and declared outside it
func (h *heapTr) loopLocals(body *ast.BlockStmt) []*hvar {
	seen := map[*hvar]bool{}
	var out []*hvar
	add := func(v *hvar) {
		if v != nil && !seen[v] {
			seen[v] = true
			out = append(out, v)
		}
	}
	ast.Inspect(body, func(n ast.Node) bool {
		if as, ok := n.(*ast.AssignStmt); ok {
			for _, l := range as.Lhs {
				root := l
				if ix, ok := root.(*ast.IndexExpr); ok {
					root = ix.X
				}
				switch r := root.(type) {
				case *ast.Ident:
					if o := h.info.Uses[r]; o != nil && (o.Pos() < body.Pos() || o.Pos() > body.End()) {
						add(h.vars[o])
					}
				case *ast.SelectorExpr:
					if id, ok := r.X.(*ast.Ident); ok {
						if sv, ok := h.vars[h.info.Uses[id]]; ok && sv.fields != nil {
							if fv := sv.fields[r.Sel.Name]; fv != nil && fv.ty.k == hStrMap && root != l {
								continue // m[k] = v writes the heap map, the variable keeps its address
							}
							add(sv.fields[r.Sel.Name])
						}
					}
				}
			}
		}
		return true
	})
	return out
}

func writesIn(h *heapTr, n ast.Node) bool {
	w := false
	ast.Inspect(n, func(x ast.Node) bool {
		switch s := x.(type) {
		case *ast.AssignStmt:
			for _, l := range s.Lhs {
				root := l
				if ix, ok := root.(*ast.IndexExpr); ok {
					root = ix.X
				}
				if se, ok := root.(*ast.SelectorExpr); ok {
					if id, ok := se.X.(*ast.Ident); ok {
						if sv, ok := h.vars[h.info.Uses[id]]; ok && sv.fields != nil {
							if fv := sv.fields[se.Sel.Name]; fv != nil && fv.ty.k == hStrMap && root != l {
								w = true // m[k] = v on a heap map
							}
							continue
						}
					}
					w = true
				}
			}
		case *ast.CallExpr:
			if id, ok := s.Fun.(*ast.Ident); ok {
				if id.Name == "delete" || id.Name == "new" {
					w = true
				}
				if fn, ok := h.info.Uses[id].(*types.Func); ok {
					if c := h.sigs[fn.Name()]; c != nil && c.writes {
						w = true
					}
				}
			}
			if se, ok := s.Fun.(*ast.SelectorExpr); ok {
				if sel := h.info.Selections[se]; sel != nil && sel.Kind() == types.MethodVal {
					rn, _ := namedOf(sel.Recv())
					if c := h.sigs[rn.Obj().Name()+"."+se.Sel.Name]; c != nil && c.writes {
						w = true
					}
				}
			}
		case *ast.CompositeLit:
			if n, ok := namedOf(h.info.TypeOf(s)); ok && heapStructs[n.Obj().Name()] {
				w = true
			}
		}
		return true
	})
	return w
}

// for k, v := range p.M with M a map[string]string of a heap object: the map VALUE at loop entry is
// enumerated (class field enumS); a nil map has no entries.  The body may only insert into maps
// made in this function (checked where the insertion is translated), so the ranged object — which
// existed before — is not written during the loop; deletions from string maps are not supported.
func (h *heapTr) rangeStrMap(x *ast.RangeStmt, m hex, d int, k func(int) string) string {
	se, ok := x.X.(*ast.SelectorExpr)
	if !ok {
		failf("range over something other than a field")
	}
	if id, ok := se.X.(*ast.Ident); ok {
		if sv, ok := h.vars[h.info.Uses[id]]; ok && sv.fields != nil {
			failf("range over the map of a local struct")
		}
	}
	ast.Inspect(x.Body, func(n ast.Node) bool {
		switch c := n.(type) {
		case *ast.ReturnStmt, *ast.BranchStmt:
			failf("jump inside a loop")
		case *ast.CallExpr:
			if id, ok := c.Fun.(*ast.Ident); ok && id.Name == "delete" {
				failf("delete inside a loop over a string map")
			}
			if _, ok := c.Fun.(*ast.Ident); !ok {
				failf("call inside a loop over a string map")
			}
		}
		return true
	})
	locals := h.loopLocals(x.Body)
	wr := writesIn(h, x.Body)
	if wr {
		h.sig.writes = true
	}
	var st, tys []string
	if wr {
		st, tys = append(st, "s"), append(tys, "HS")
	}
	for _, v := range locals {
		st, tys = append(st, v.name), append(tys, par(v.ty.coq()))
	}
	if len(st) == 0 {
		failf("loop without state")
	}
	acc, accT := tuple(st), strings.Join(tys, " * ")
	open := "let " + st[0] + " := acc_ in"
	if len(st) > 1 {
		open = "let '" + acc + " := acc_ in"
	}
	e := h.tmp("e")
	var bpre []string
	bpre = append(bpre, open)
	if id, ok := x.Key.(*ast.Ident); ok && id.Name != "_" {
		bpre = append(bpre, "let "+h.declare(id, htype{k: hStr}).name+" := fst "+e+" in")
	}
	if x.Value != nil {
		if id, ok := x.Value.(*ast.Ident); ok && id.Name != "_" {
			bpre = append(bpre, "let "+h.declare(id, htype{k: hStr}).name+" := snd "+e+" in")
		}
	}
	body := h.stmts(x.Body.List, d+3, func(d int) string { return ind(d) + "Some " + par(acc) + "\n" })
	es := h.tmp("es")
	var b strings.Builder
	b.WriteString(h.lines(m.pre, "", d))
	b.WriteString(ind(d) + es + " ← match " + m.t + " with None => Some [] | Some a_ => m_ ← heap_StrMap s !! a_; Some (enumS m_) end;\n")
	pat := acc
	if len(st) > 1 {
		pat = "'" + acc
	}
	b.WriteString(ind(d) + pat + " ← go_foldM (fun (acc_ : " + accT + ") (" + e + " : bytes * bytes) =>\n")
	b.WriteString(h.lines(bpre, "", d+3))
	b.WriteString(body)
	b.WriteString(ind(d+2) + ") " + par(acc) + " " + es + ";\n")
	return b.String() + k(d)
}

func (h *heapTr) rangeStmt(x *ast.RangeStmt, d int, k func(int) string) string {
	if x.Tok != token.DEFINE {
		failf("range without :=")
	}
	m := h.expr(x.X)
	if m.ty.k == hStrMap {
		return h.rangeStrMap(x, m, d, k)
	}
	var enum, kty, vty = "", htype{}, htype{}
	switch m.ty.k {
	case hMapPP:
		enum, kty, vty = "enumA", htype{k: hPtr, name: m.ty.name}, htype{k: hPtr, name: "ChanPrivs"}
	case hMapSP:
		enum, kty, vty = "enumN", htype{k: hStr}, htype{k: hPtr, name: m.ty.name}
	default:
		failf("range over %s", m.ty.coq())
	}
	ast.Inspect(x.Body, func(n ast.Node) bool {
		switch n.(type) {
		case *ast.ReturnStmt, *ast.BranchStmt:
			failf("jump inside a loop")
		}
		return true
	})
	// the range expression is evaluated again in every round: its variables must not change
	rangeVars := map[types.Object]bool{}
	ast.Inspect(x.X, func(n ast.Node) bool {
		if id, ok := n.(*ast.Ident); ok {
			rangeVars[h.info.Uses[id]] = true
		}
		return true
	})
	ast.Inspect(x.Body, func(n ast.Node) bool {
		if as, ok := n.(*ast.AssignStmt); ok {
			for _, l := range as.Lhs {
				if id, ok := l.(*ast.Ident); ok && as.Tok != token.DEFINE && rangeVars[h.info.Uses[id]] {
					failf("the range expression changes inside the loop")
				}
			}
		}
		return true
	})
	se, ok := x.X.(*ast.SelectorExpr)
	if !ok {
		failf("range over something other than a field")
	}
	owner := heapRoot
	if !h.isRecv(se.X) {
		n, _ := namedOf(h.info.TypeOf(se.X))
		owner = n.Obj().Name()
	}
	ranged := owner + "." + se.Sel.Name
	saved, savedD := h.sig.ins, h.sig.dels
	h.sig.ins, h.sig.dels = map[string]bool{}, map[string]bool{}
	defer func() {
		for f := range h.sig.ins {
			saved[f] = true
		}
		for f := range h.sig.dels {
			savedD[f] = true
		}
		h.sig.ins, h.sig.dels = saved, savedD
	}()
	locals := h.loopLocals(x.Body)
	wr := writesIn(h, x.Body)
	if wr {
		h.sig.writes = true
	}
	var st []string
	if wr {
		st = append(st, "s")
	}
	for _, v := range locals {
		st = append(st, v.name)
	}
	acc := tuple(st)
	if len(st) == 0 {
		acc = "tt"
	}
	e := h.tmp("e")
	var bpre []string
	if len(st) > 1 {
		bpre = append(bpre, "let '"+acc+" := acc_ in")
	} else if len(st) == 1 {
		bpre = append(bpre, "let "+st[0]+" := acc_ in")
	}
	kn, vn := "_", "_"
	if id, ok := x.Key.(*ast.Ident); ok && id.Name != "_" {
		kn = h.declare(id, kty).name
		if kty.k == hPtr {
			bpre = append(bpre, "let "+kn+" := Some (fst "+e+") in")
		} else {
			bpre = append(bpre, "let "+kn+" := fst "+e+" in")
		}
	}
	if x.Value != nil {
		if id, ok := x.Value.(*ast.Ident); ok && id.Name != "_" {
			vn = h.declare(id, vty).name
		}
	}
	cur := h.expr(x.X)
	body := h.stmts(x.Body.List, d+3, func(d int) string { return ind(d) + "Some " + par(acc) + "\n" })
	if h.sig.ins[ranged] {
		failf("an entry may be added to the map %s while it is ranged over", ranged)
	}
	// Go: an entry removed before it is reached is not visited, and the value is the one
	// the entry has when it is reached.  Needed only when the loop can delete from such a map.
	check := h.sig.dels[ranged]
	var b strings.Builder
	b.WriteString(h.lines(m.pre, "", d))
	pat := acc
	if len(st) > 1 {
		pat = "'" + acc
	}
	b.WriteString(ind(d) + pat + " ← go_foldM (fun acc_ " + e + " =>\n")
	b.WriteString(h.lines(bpre, "", d+2))
	if check {
		b.WriteString(h.lines(cur.pre, "", d+2))
		b.WriteString(ind(d+2) + "match " + par(cur.t) + " !! fst " + e + " with\n")
		b.WriteString(ind(d+2) + "| None => Some acc_\n")
		if vn != "_" {
			b.WriteString(ind(d+2) + "| Some v_ =>\n" + ind(d+3) + "let " + vn + " := Some v_ in\n")
		} else {
			b.WriteString(ind(d+2) + "| Some _ =>\n")
		}
		b.WriteString(body)
		b.WriteString(ind(d+2) + "end) ")
	} else {
		// no entry of such a map is deleted or added in the loop
		if vn != "_" {
			b.WriteString(ind(d+3) + "let " + vn + " := Some (snd " + e + ") in\n")
		}
		b.WriteString(body)
		b.WriteString(ind(d+2) + ") ")
	}
	b.WriteString(par(acc) + " (" + enum + " " + par(m.t) + ");\n")
	return b.String() + k(d)
}

// ---------------------------------------------------------------------------------------

func (h *heapTr) function(name string, fd *ast.FuncDecl) string {
	coqName := "go_" + strings.ReplaceAll(name, ".", "_")
	sig := &hsig{coq: coqName, ins: map[string]bool{}, dels: map[string]bool{}}
	h.sig = sig
	h.fd = fd
	obj := h.info.Defs[fd.Name].(*types.Func)
	gs := obj.Type().(*types.Signature)
	binders := "(s : HS)"
	if name == "NewTracker" || name == "handlerSet" {
		binders = ""
		h.newState = true
	}
	if gs.Recv() != nil {
		rn, _ := namedOf(gs.Recv().Type())
		rid := fd.Recv.List[0].Names[0]
		if rn.Obj().Name() == heapRoot {
			h.recv = h.info.Defs[rid]
		} else {
			t := heapType(gs.Recv().Type())
			if t.k != hPtr {
				failf("receiver type %s", gs.Recv().Type())
			}
			sig.hasRecv, sig.recv = true, t
			binders += " (" + h.declare(rid, t).name + " : " + t.coq() + ")"
		}
	}
	for i := 0; i < gs.Params().Len(); i++ {
		p := gs.Params().At(i)
		t := heapType(p.Type())
		if t.k == hBad {
			failf("parameter %s of type %s", p.Name(), p.Type())
		}
		sig.params = append(sig.params, t)
		id := fd.Type.Params.List[0].Names[0]
		// find the ident of parameter i
		cnt := 0
		for _, fl := range fd.Type.Params.List {
			for _, nm := range fl.Names {
				if cnt == i {
					id = nm
				}
				cnt++
			}
		}
		binders += " (" + h.declare(id, t).name + " : " + t.coq() + ")"
	}
	if gs.Results().Len() == 0 {
		sig.result = htype{k: hUnit}
	}
	// two passes: whether the function writes is known after the first
	body := h.stmts(fd.Body.List, 1, func(d int) string {
		if gs.Results().Len() > 0 {
			failf("control reaches the end of a function with results")
		}
		return h.ret(nil, d)
	})
	if sig.writes && !h.wr[coqName] {
		h.wr[coqName] = true
		return "" // translate again, now returning the state
	}
	rt := sig.result.coq()
	if sig.writes {
		if sig.result.k == hUnit {
			rt = "HS"
		} else {
			rt = "HS * " + par(rt)
		}
	}
	h.sigs[name] = sig
	return "Definition " + coqName + " " + binders + " : option (" + rt + ") :=\n" + strings.TrimRight(body, "\n") + ".\n"
}

const heapPrelude = `From stdpp Require Import gmap.
Open Scope Z_scope.
Notation bytes := (list N) (only parsing).

Fixpoint go_foldM {A S} (f : S -> A -> option S) (s : S) (l : list A) : option S :=
  match l with
  | [] => Some s
  | x :: l' => match f s x with Some s' => go_foldM f s' l' | None => None end
  end.

`

// the class from the Variable / Context lines, then the section header
func classOf(vars string) string {
	var cls strings.Builder
	cls.WriteString("Class heap_ops := {\n")
	for _, ln := range strings.Split(strings.TrimSpace(vars), "\n") {
		switch {
		case strings.HasPrefix(ln, "Variable "):
			cls.WriteString("  " + strings.TrimSuffix(strings.TrimPrefix(ln, "Variable "), ".") + ";\n")
		case strings.HasPrefix(ln, "Context {"):
			for _, t := range strings.Fields(strings.TrimSuffix(strings.TrimPrefix(ln, "Context {"), " : Type}.")) {
				cls.WriteString("  " + t + " : Type;\n")
			}
		case ln != "":
			cls.WriteString("  " + ln + "\n")
		}
	}
	return strings.TrimSuffix(cls.String(), ";\n") + "\n}.\n\nSection Heap.\nContext `{heap_ops}.\n\n"
}

func heapFunctions(b *strings.Builder, pi *pkgInfo, targets []string, dir string) {
	sigs := map[string]*hsig{}
	wr := map[string]bool{}
	for _, name := range targets {
		fd := pi.funcs[name]
		coqName := "go_" + strings.ReplaceAll(name, ".", "_")
		if fd == nil {
			fmt.Fprintf(b, "(* %s: not found *)\nDefinition %s_UNSUPPORTED : unit := tt.\n\n", name, coqName)
			continue
		}
		func() {
			defer func() {
				if r := recover(); r != nil {
					u, ok := r.(unsupported)
					if !ok {
						panic(r)
					}
					msg := strings.NewReplacer("(*", "( *", "*)", "* )", "\"", "'").Replace(u.msg)
					fmt.Fprintf(b, "(* %s: unsupported: %s *)\nDefinition %s_UNSUPPORTED : unit := tt.\n\n", name, msg, coqName)
				}
			}()
			var txt string
			for pass := 0; pass < 2 && txt == ""; pass++ {
				h := &heapTr{pi: pi, info: pi.pkg.TypesInfo, sigs: sigs, vars: map[types.Object]*hvar{}, wr: wr}
				txt = h.function(name, fd)
			}
			pos := pi.pkg.Fset.Position(fd.Pos())
			fmt.Fprintf(b, "(* %s — %s/%s *)\n%s\n", name, dir, pos.Filename[strings.LastIndex(pos.Filename, "/")+1:], txt)
		}()
	}
	b.WriteString("End Heap.\n")
}

var registryTargets = []string{"handlerSet", "hSet.add", "hSet.remove", "hNode.Remove", "hSet.getHandlers"}

// The handler registry of client/dispatch.go: the root is *hSet (field set; the embedded RWMutex is
// dropped: tie_C04_locks pins the locking), heap structs hNode and hList with ALL their fields as
// getters / setters (next, prev : pointers; set : pointer to the root, Some tt or nil; event;
// handler : an abstract value), one allocation counter per struct type, strings.ToLower and the
// fuel of the for loop as fields of the class.
func go2heapRegistry(pkgs map[string]*pkgInfo) string {
	setRegistryProfile()
	defer setStateProfile()
	pi := pkgs["client"]
	top := `(* GENERATED from the Go source by /verif/translator (go2heap.go) on every check run — do not edit.
   The handler registry of client/dispatch.go (handlerSet, hSet.add, hSet.remove, hNode.Remove,
   hSet.getHandlers) over an explicit heap of hNode and hList objects; every type and primitive is a
   field of the class heap_ops, instantiated in Proofs/GenEqRegistry.v.  See translator/go2heap.go. *)
` + heapPrelude + `(* for init; cond; post { body }: the condition first, then out of fuel = None (as a panic) *)
Fixpoint go_loop {S} (fuel : nat) (cond : S -> option bool) (body : S -> option S) (st : S) : option S :=
  match cond st with
  | Some true => match fuel with
                 | O => None
                 | S f => match body st with Some st' => go_loop f cond body st' | None => None end
                 end
  | Some false => Some st
  | None => None
  end.

`
	if pi == nil {
		return top
	}
	var b strings.Builder
	scope := pi.pkg.Types.Scope()
	var ctypes []string
	ctypes = append(ctypes, "HS")
	for _, n := range []string{"hNode", "hList"} {
		ctypes = append(ctypes, n+"_obj")
	}
	ctypes = append(ctypes, "Handler_val")
	b.WriteString("Context {" + strings.Join(ctypes, " ") + " : Type}.\n")
	st := scope.Lookup(heapRoot).Type().Underlying().(*types.Struct)
	for i := 0; i < st.NumFields(); i++ {
		ft := heapType(st.Field(i).Type())
		if ft.k == hBad {
			continue
		}
		fmt.Fprintf(&b, "Variable hs_%s : HS -> %s.\nVariable hs_set_%s : HS -> %s -> HS.\n", st.Field(i).Name(), ft.coq(), st.Field(i).Name(), ft.coq())
	}
	b.WriteString("(* the set before anything is registered: an empty map, empty heaps *)\nVariable hs_init : HS.\n")
	for _, n := range []string{"hNode", "hList"} {
		fmt.Fprintf(&b, "Variable hs_next_%s : HS -> positive.\nVariable hs_bump_%s : HS -> HS.\n", n, n)
		fmt.Fprintf(&b, "Variable heap_%s : HS -> gmap positive %s_obj.\nVariable put_%s : HS -> positive -> %s_obj -> HS.\n", n, n, n, n)
		s := scope.Lookup(n).Type().Underlying().(*types.Struct)
		var args []string
		for i := 0; i < s.NumFields(); i++ {
			ft := heapType(s.Field(i).Type())
			if ft.k == hBad {
				failf("field %s.%s", n, s.Field(i).Name())
			}
			args = append(args, par(ft.coq()))
			fmt.Fprintf(&b, "Variable %s_get_%s : %s_obj -> %s.\nVariable %s_set_%s : %s_obj -> %s -> %s_obj.\n",
				n, s.Field(i).Name(), n, ft.coq(), n, s.Field(i).Name(), n, ft.coq(), n)
		}
		fmt.Fprintf(&b, "Variable %s_mk : %s -> %s_obj.\n", n, strings.Join(args, " -> "), n)
	}
	b.WriteString("(* strings.ToLower: a variable, as every stdlib function that is not transliterated *)\nVariable ext_strings_ToLower : bytes -> bytes.\n")
	b.WriteString("(* the fuel of a for loop, read from the state at loop entry *)\nVariable loop_fuel : HS -> nat.\n")
	hdr := classOf(b.String())
	b.Reset()
	b.WriteString(top + hdr)
	heapFunctions(&b, pi, registryTargets, "client")
	return b.String()
}

// (*Line).Copy of client/line.go: heap struct Line (all fields; time.Time opaque), []string as
// (backing array address, length) with the arrays in a heap of their own, map[string]string as a
// heap object of an abstract map type; ONE allocation counter.
func go2heapLineCopy(pkgs map[string]*pkgInfo) string {
	setLineCopyProfile()
	defer setStateProfile()
	pi := pkgs["client"]
	top := `(* GENERATED from the Go source by /verif/translator (go2heap.go) on every check run — do not edit.
   Line.Copy (method of *Line) of client/line.go over an explicit heap of Line objects, string arrays (the backing
   arrays of []string) and string maps; every type and primitive is a field of the class heap_ops,
   instantiated in Proofs/GenEqLineCopy.v.  See translator/go2heap.go. *)
` + heapPrelude
	if pi == nil {
		return top
	}
	var b strings.Builder
	scope := pi.pkg.Types.Scope()
	b.WriteString("Context {HS Line_obj StrMap_val Time_val : Type}.\n")
	b.WriteString("Variable hs_next : HS -> positive.\nVariable hs_bump : HS -> HS.\n")
	b.WriteString("Variable heap_Line : HS -> gmap positive Line_obj.\nVariable put_Line : HS -> positive -> Line_obj -> HS.\n")
	st := scope.Lookup("Line").Type().Underlying().(*types.Struct)
	var args []string
	for i := 0; i < st.NumFields(); i++ {
		ft := heapType(st.Field(i).Type())
		if ft.k == hBad {
			failf("field Line.%s", st.Field(i).Name())
		}
		args = append(args, par(ft.coq()))
		fmt.Fprintf(&b, "Variable Line_get_%s : Line_obj -> %s.\nVariable Line_set_%s : Line_obj -> %s -> Line_obj.\n",
			st.Field(i).Name(), ft.coq(), st.Field(i).Name(), ft.coq())
	}
	fmt.Fprintf(&b, "Variable Line_mk : %s -> Line_obj.\n", strings.Join(args, " -> "))
	b.WriteString("(* the backing arrays of []string *)\nVariable heap_StrArr : HS -> gmap positive (list bytes).\nVariable put_StrArr : HS -> positive -> list bytes -> HS.\n")
	b.WriteString("(* map[string]string objects, of an abstract map type *)\nVariable heap_StrMap : HS -> gmap positive StrMap_val.\nVariable put_StrMap : HS -> positive -> StrMap_val -> HS.\n")
	b.WriteString("Variable StrMap_empty : StrMap_val.\nVariable StrMap_set : StrMap_val -> bytes -> bytes -> StrMap_val.\n")
	b.WriteString("(* the order in which range visits a string map *)\nVariable enumS : StrMap_val -> list (bytes * bytes).\n")
	hdr := classOf(b.String())
	b.Reset()
	b.WriteString(top + hdr)
	b.WriteString(`(* make([]string, n): a fresh array of n empty strings *)
Definition go_make_strs (s : HS) (n : Z) : option (HS * (option positive * Z)) :=
  if n <? 0 then None
  else let a := hs_next s in Some (put_StrArr (hs_bump s) a (replicate (Z.to_nat n) []), (Some a, n)).
(* copy(dst, src): min(len dst, len src) elements, from index 0 of both backing arrays (slices with
   an offset are not produced by the translated code); nothing is read when that number is 0; a
   slice longer than its backing array cannot exist in Go: None *)
Definition go_copy_strs (s : HS) (dst src : option positive * Z) : option HS :=
  let n := Z.min (snd dst) (snd src) in
  if n <=? 0 then Some s
  else ad ← fst dst; as_ ← fst src; arrd ← heap_StrArr s !! ad; arrs ← heap_StrArr s !! as_;
       if (Z.of_nat (length arrs) <? n) || (Z.of_nat (length arrd) <? n) then None
       else Some (put_StrArr s ad (take (Z.to_nat n) arrs ++ drop (Z.to_nat n) arrd)).

`)
	heapFunctions(&b, pi, []string{"Line.Copy"}, "client")
	return b.String()
}

func go2heap(pkgs map[string]*pkgInfo) string {
	setStateProfile()
	pi := pkgs["state"]
	var b strings.Builder
	b.WriteString(`(* GENERATED from the Go source by /verif/translator (go2heap.go) on every check run — do not edit.
   Package state's object graph (tracker.go, nick.go, channel.go) over an explicit heap; every type
   and primitive is a Context variable, instantiated in Proofs/GenEqTracker.v with the records of
   Model/TrackerImpl.v.  See the header of translator/go2heap.go for the representation. *)
` + heapPrelude)
	if pi == nil {
		return b.String()
	}
	top := b.String()
	b.Reset()
	// the Context: one abstract type per struct with constructor, getters and setters
	scope := pi.pkg.Types.Scope()
	b.WriteString("Context {HS : Type}.\n")
	var ctypes []string
	for _, n := range []string{"nick", "channel", "ChanPrivs"} {
		ctypes = append(ctypes, n+"_obj")
	}
	ctypes = append(ctypes, "NickMode_val", "ChanMode_val", "Nick_snap", "Channel_snap")
	b.WriteString("Context {" + strings.Join(ctypes, " ") + " : Type}.\n")
	b.WriteString("Variable NickMode_zero : NickMode_val.\nVariable ChanMode_zero : ChanMode_val.\nVariable ChanPrivs_zero : ChanPrivs_obj.\n")
	// tracker fields
	st := scope.Lookup("stateTracker").Type().Underlying().(*types.Struct)
	for i := 0; i < st.NumFields(); i++ {
		ft := heapType(st.Field(i).Type())
		if ft.k == hBad {
			continue
		}
		c := ft.coq()
		if ft.k == hPtr {
			c = "positive"
		}
		fmt.Fprintf(&b, "Variable hs_%s : HS -> %s.\nVariable hs_set_%s : HS -> %s -> HS.\n", st.Field(i).Name(), c, st.Field(i).Name(), c)
	}
	b.WriteString("(* the tracker before its fields are set: empty maps, an empty heap *)\nVariable hs_init : HS.\n")
	b.WriteString("Variable hs_next : HS -> positive.\nVariable hs_bump : HS -> HS.\n")
	for _, n := range []string{"nick", "channel", "ChanPrivs"} {
		fmt.Fprintf(&b, "Variable heap_%s : HS -> gmap positive %s_obj.\nVariable put_%s : HS -> positive -> %s_obj -> HS.\n", n, n, n, n)
	}
	for _, n := range []string{"nick", "channel"} {
		s := scope.Lookup(n).Type().Underlying().(*types.Struct)
		var args []string
		for i := 0; i < s.NumFields(); i++ {
			ft := heapType(s.Field(i).Type())
			if ft.k == hBad {
				continue
			}
			args = append(args, ft.coq())
			fmt.Fprintf(&b, "Variable %s_get_%s : %s_obj -> %s.\nVariable %s_set_%s : %s_obj -> %s -> %s_obj.\n",
				n, s.Field(i).Name(), n, ft.coq(), n, s.Field(i).Name(), n, ft.coq(), n)
		}
		fmt.Fprintf(&b, "Variable %s_mk : %s -> %s_obj.\n", n, strings.Join(args, " -> "), n)
	}
	for _, n := range []string{"Nick", "Channel"} {
		s := scope.Lookup(n).Type().Underlying().(*types.Struct)
		var args []string
		for i := 0; i < s.NumFields(); i++ {
			ft := heapType(s.Field(i).Type())
			if ft.k == hBad {
				failf("snapshot field")
			}
			args = append(args, ft.coq())
		}
		fmt.Fprintf(&b, "Variable %s_mk : %s -> %s_snap.\n", n, strings.Join(args, " -> "), n)
	}
	b.WriteString("Variable set_heap_ChanPrivs : HS -> gmap positive ChanPrivs_obj -> HS.\n")
	b.WriteString("(* channel.parseModes as translated in GoFuncs.v: ch.modes, ch.name, ch.lookup, ch.nicks, the ChanPrivs heap, modes, modeargs *)\nVariable ext_channel_parseModes : ChanMode_val -> bytes -> gmap bytes positive -> gmap positive positive -> gmap positive ChanPrivs_obj -> bytes -> list bytes -> option (ChanMode_val * gmap positive ChanPrivs_obj).\n")
	b.WriteString("(* nick.parseModes as translated in GoFuncs.v, on the mode record *)\nVariable ext_nick_parseModes : NickMode_val -> bytes -> option NickMode_val.\n")
	b.WriteString("(* the order in which range visits a map *)\nVariable enumA : gmap positive positive -> list (positive * positive).\nVariable enumN : gmap bytes positive -> list (bytes * positive).\n\n")

	// the primitives as ONE class, so that a generated function has one parameter
	hdr := classOf(b.String())
	b.Reset()
	b.WriteString(top + hdr)
	heapFunctions(&b, pi, heapTargets, "state")
	_ = sort.Strings
	return b.String()
}
