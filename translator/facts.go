package main

import "strings"

// facts: syntactic / synchronisation facts read off the AST (extended as the models need them)
func facts(pkgs map[string]*pkgInfo) string {
	var b strings.Builder
	b.WriteString("(* GENERATED from the Go source by /verif/translator on every check run — do not edit. *)\n")
	b.WriteString("From Coq Require Import List ZArith NArith Bool.\nImport ListNotations.\n\n")
	b.WriteString("Inductive fact (A : Type) := Known (a : A) | Unrecognised.\nArguments Known {A} a.\nArguments Unrecognised {A}.\n\n")
	for _, f := range factFns {
		f(pkgs, &b)
	}
	return b.String()
}

var factFns []func(map[string]*pkgInfo, *strings.Builder)
