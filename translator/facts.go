package main

import (
	"bytes"
	"fmt"
	"go/ast"
	"go/constant"
	"go/printer"
	"go/token"
	"sort"
	"strings"
)

// facts: syntactic / synchronisation facts read off the AST.
//   chan_sends / chan_recvs : (function, channel expression) for every send statement /
//                             receive expression (select cases included)
//   go_stmts                : (function, callee) for every go statement
//   flow_<pkg>_<func>       : the ordered skeleton of a function body: calls (callee text,
//                             prefixed "go " / "defer "), "return", "{" "}" around function
//                             literals, "select{" "case" "}" around selects, "for{" "}" loops.
//                             Calls into logging.* / fmt.* , builtins and conversions are
//                             left out so that adding a log line is not a change.
func facts(pkgs map[string]*pkgInfo) string {
	var b strings.Builder
	b.WriteString("(* GENERATED from the Go source by /verif/translator on every check run — do not edit. *)\n")
	b.WriteString("From Coq Require Import String List.\nImport ListNotations.\nLocal Open Scope string_scope.\n\n")
	for _, pn := range []string{"client", "state"} {
		pi := pkgs[pn]
		if pi == nil {
			continue
		}
		var names []string
		for n := range pi.funcs {
			if strings.HasPrefix(n, "Verif") || strings.Contains(n, ".Verif") {
				continue
			}
			names = append(names, n)
		}
		sort.Strings(names)
		var sends, recvs, gos, cfguses, iousers, writecallers []string
		for _, n := range names {
			fd := pi.funcs[n]
			if fd.Body == nil {
				continue
			}
			// single-writer discipline of the socket: which functions touch conn.io (the bufio
			// reader/writer pair) and which call conn.write
			usesIO, callsWrite := false, false
			ast.Inspect(fd.Body, func(x ast.Node) bool {
				switch v := x.(type) {
				case *ast.SelectorExpr:
					if exprText(pi, v) == "conn.io" {
						usesIO = true
					}
				case *ast.CallExpr:
					if exprText(pi, v.Fun) == "conn.write" {
						callsWrite = true
					}
				}
				return true
			})
			if usesIO {
				iousers = append(iousers, coqStr(n))
			}
			if callsWrite {
				writecallers = append(writecallers, coqStr(n))
			}
			// every read/write of a Config field through conn.cfg / cfg, per function
			seen := map[string]bool{}
			ast.Inspect(fd.Body, func(x ast.Node) bool {
				if se, ok := x.(*ast.SelectorExpr); ok {
					base := exprText(pi, se.X)
					if base == "conn.cfg" || base == "cfg" {
						k := n + "." + se.Sel.Name
						if !seen[k] {
							seen[k] = true
							cfguses = append(cfguses, fmt.Sprintf("(%s, %s)", coqStr(n), coqStr(se.Sel.Name)))
						}
					}
				}
				return true
			})
			flow := skeleton(pi, fd, n, &sends, &recvs, &gos)
			fmt.Fprintf(&b, "Definition flow_%s_%s : list string :=\n  [%s].\n", pn, coqIdent(n), strings.Join(flow, "; "))
			// the source text of every if / for / switch-case condition, in source order, and the
			// field names initialised by composite literals (e.g. Client(): lastsent: time.Now())
			var conds, inits, assigns []string
			ast.Inspect(fd.Body, func(x ast.Node) bool {
				switch v := x.(type) {
				case *ast.AssignStmt:
					// plain assignments to a FIELD of a local object, as source text "x.f = e"
					// (e.g. Client(): dialer.Timeout = cfg.Timeout); conn.* fields are in the flow
					if v.Tok == token.ASSIGN && len(v.Lhs) == 1 && len(v.Rhs) == 1 {
						if se, ok := v.Lhs[0].(*ast.SelectorExpr); ok {
							if l := exprText(pi, se); !strings.HasPrefix(l, "conn.") {
								assigns = append(assigns, coqStr(l+" = "+exprText(pi, v.Rhs[0])))
							}
						}
					}
				case *ast.IfStmt:
					conds = append(conds, coqStr(exprText(pi, v.Cond)))
				case *ast.ForStmt:
					if v.Cond != nil {
						conds = append(conds, coqStr("for "+exprText(pi, v.Cond)))
					}
				case *ast.CompositeLit:
					for _, e := range v.Elts {
						if kv, ok := e.(*ast.KeyValueExpr); ok {
							if id, ok := kv.Key.(*ast.Ident); ok {
								inits = append(inits, coqStr(id.Name+": "+exprText(pi, kv.Value)))
							}
						}
					}
				}
				return true
			})
			fmt.Fprintf(&b, "Definition conds_%s_%s : list string :=\n  [%s].\n", pn, coqIdent(n), strings.Join(conds, "; "))
			if len(inits) > 0 {
				fmt.Fprintf(&b, "Definition inits_%s_%s : list string :=\n  [%s].\n", pn, coqIdent(n), strings.Join(inits, "; "))
			}
			if len(assigns) > 0 {
				fmt.Fprintf(&b, "Definition assigns_%s_%s : list string :=\n  [%s].\n", pn, coqIdent(n), strings.Join(assigns, "; "))
			}
		}
		fmt.Fprintf(&b, "\nDefinition chan_sends_%s : list (string * string) :=\n  [%s].\n", pn, strings.Join(sends, "; "))
		fmt.Fprintf(&b, "Definition chan_recvs_%s : list (string * string) :=\n  [%s].\n", pn, strings.Join(recvs, "; "))
		fmt.Fprintf(&b, "Definition go_stmts_%s : list (string * string) :=\n  [%s].\n", pn, strings.Join(gos, "; "))
		fmt.Fprintf(&b, "Definition cfg_uses_%s : list (string * string) :=\n  [%s].\n", pn, strings.Join(cfguses, "; "))
		fmt.Fprintf(&b, "Definition conn_io_users_%s : list string :=\n  [%s].\n", pn, strings.Join(iousers, "; "))
		fmt.Fprintf(&b, "Definition conn_write_callers_%s : list string :=\n  [%s].\n\n", pn, strings.Join(writecallers, "; "))
	}
	// every use of the logging package: (function, level, const-folded format, argument expressions)
	for _, pn := range []string{"client", "state"} {
		pi := pkgs[pn]
		if pi == nil {
			continue
		}
		var names []string
		for n := range pi.funcs {
			if strings.HasPrefix(n, "Verif") || strings.Contains(n, ".Verif") {
				continue
			}
			names = append(names, n)
		}
		sort.Slice(names, func(i, j int) bool {
			a, c := pi.funcs[names[i]], pi.funcs[names[j]]
			fa, fc := pi.pkg.Fset.Position(a.Pos()), pi.pkg.Fset.Position(c.Pos())
			if fa.Filename != fc.Filename {
				return fa.Filename < fc.Filename
			}
			return fa.Offset < fc.Offset
		})
		var calls []string
		for _, n := range names {
			fd := pi.funcs[n]
			if fd.Body == nil {
				continue
			}
			handled := map[ast.Node]bool{}
			ast.Inspect(fd.Body, func(x ast.Node) bool {
				if ce, ok := x.(*ast.CallExpr); ok {
					if se, ok := ce.Fun.(*ast.SelectorExpr); ok {
						if id, ok := se.X.(*ast.Ident); ok && id.Name == "logging" {
							handled[se] = true
							lvl := se.Sel.Name
							switch lvl {
							case "Debug", "Info", "Warn", "Error":
								format := "<<nonconst>>"
								var args []string
								if len(ce.Args) > 0 {
									if tv, ok := pi.pkg.TypesInfo.Types[ce.Args[0]]; ok && tv.Value != nil && tv.Value.Kind() == constant.String {
										format = constant.StringVal(tv.Value)
									}
									for _, a := range ce.Args[1:] {
										args = append(args, coqStr(exprText(pi, a)))
									}
								}
								calls = append(calls, fmt.Sprintf("(%s, %s, %s, [%s])", coqStr(n), coqStr(lvl), coqStr(format), strings.Join(args, "; ")))
							default:
								calls = append(calls, fmt.Sprintf("(%s, %s, %s, [])", coqStr(n), coqStr("OTHER"), coqStr(exprText(pi, ce))))
							}
						}
					}
				}
				if se, ok := x.(*ast.SelectorExpr); ok && !handled[se] {
					if id, ok := se.X.(*ast.Ident); ok && id.Name == "logging" {
						calls = append(calls, fmt.Sprintf("(%s, %s, %s, [])", coqStr(n), coqStr("OTHER"), coqStr(exprText(pi, se))))
					}
				}
				return true
			})
		}
		fmt.Fprintf(&b, "Definition log_calls_%s : list (string * string * string * list string) :=\n  [%s].\n\n", pn, strings.Join(calls, ";\n   "))
	}
	// the defaults NewConfig installs: (field, value expression) of its composite literal
	if pi := pkgs["client"]; pi != nil {
		if fd := pi.funcs["NewConfig"]; fd != nil && fd.Body != nil {
			var kv []string
			ast.Inspect(fd.Body, func(x ast.Node) bool {
				if cl, ok := x.(*ast.CompositeLit); ok && exprText(pi, cl.Type) == "Config" {
					for _, e := range cl.Elts {
						if k, ok := e.(*ast.KeyValueExpr); ok {
							kv = append(kv, fmt.Sprintf("(%s, %s)", coqStr(exprText(pi, k.Key)), coqStr(exprText(pi, k.Value))))
						}
					}
					return false
				}
				return true
			})
			fmt.Fprintf(&b, "Definition newconfig_defaults : list (string * string) :=\n  [%s].\n\n", strings.Join(kv, "; "))
		}
	}
	// package-level variable initialisers (e.g. tagsReplacer, handler tables): literal digests
	for _, pn := range []string{"client", "state"} {
		pi := pkgs[pn]
		if pi == nil {
			continue
		}
		for _, f := range pi.pkg.Syntax {
			for _, d := range f.Decls {
				gd, ok := d.(*ast.GenDecl)
				if !ok || gd.Tok != token.VAR {
					continue
				}
				for _, sp := range gd.Specs {
					vs := sp.(*ast.ValueSpec)
					for i, nm := range vs.Names {
						if i >= len(vs.Values) || nm.Name == "_" {
							continue
						}
						var keys []string
						ast.Inspect(vs.Values[i], func(n ast.Node) bool {
							if e, ok := n.(ast.Expr); ok {
								if tv, ok := pi.pkg.TypesInfo.Types[e]; ok && tv.Value != nil {
									keys = append(keys, coqStr(tv.Value.ExactString()))
									return false
								}
								if se, ok := e.(*ast.SelectorExpr); ok {
									keys = append(keys, coqStr(exprText(pi, se)))
									return false
								}
							}
							return true
						})
						fmt.Fprintf(&b, "Definition var_%s_%s : list string :=\n  [%s].\n", pn, coqIdent(nm.Name), strings.Join(keys, "; "))
					}
				}
			}
		}
	}
	return b.String()
}

func coqStr(s string) string {
	var b strings.Builder
	b.WriteByte('"')
	for i := 0; i < len(s); i++ {
		c := s[i]
		switch {
		case c == '"':
			b.WriteString("\"\"")
		case c < 32 || c > 126:
			fmt.Fprintf(&b, "\\x%02x", c)
		default:
			b.WriteByte(c)
		}
	}
	b.WriteByte('"')
	return b.String()
}

func exprText(pi *pkgInfo, e ast.Expr) string {
	var buf bytes.Buffer
	printer.Fprint(&buf, pi.pkg.Fset, e)
	return strings.Join(strings.Fields(buf.String()), " ")
}

var skipCallPrefixes = []string{"logging.", "fmt.", "runtime.", "strings.Join"}
var builtins = map[string]bool{"len": true, "cap": true, "append": true, "make": true, "new": true, "copy": true, "delete": true, "string": true}

func skeleton(pi *pkgInfo, fd *ast.FuncDecl, fname string, sends, recvs, gos *[]string) []string {
	var out []string
	info := pi.pkg.TypesInfo
	emit := func(s string) { out = append(out, coqStr(s)) }
	calleeText := func(c *ast.CallExpr) (string, bool) {
		if tv, ok := info.Types[c.Fun]; ok && tv.IsType() {
			return "", false // conversion
		}
		if _, ok := c.Fun.(*ast.FuncLit); ok {
			return "func", true
		}
		t := exprText(pi, c.Fun)
		if builtins[t] {
			return "", false
		}
		for _, p := range skipCallPrefixes {
			if strings.HasPrefix(t, p) {
				return "", false
			}
		}
		return t, true
	}
	var walk func(n ast.Node, prefix string)
	walkList := func(l []ast.Stmt) {
		for _, s := range l {
			walk(s, "")
		}
	}
	walk = func(n ast.Node, prefix string) {
		switch x := n.(type) {
		case nil:
			return
		case *ast.GoStmt:
			if t, ok := calleeText(x.Call); ok {
				*gos = append(*gos, fmt.Sprintf("(%s, %s)", coqStr(fname), coqStr(t)))
			}
			walk(x.Call, "go ")
		case *ast.DeferStmt:
			walk(x.Call, "defer ")
		case *ast.CallExpr:
			if t, ok := calleeText(x); ok {
				emit(prefix + t)
			}
			if fl, ok := x.Fun.(*ast.FuncLit); ok {
				emit("{")
				walkList(fl.Body.List)
				emit("}")
			} else {
				walk(x.Fun, "")
			}
			for _, a := range x.Args {
				walk(a, "")
			}
		case *ast.FuncLit:
			emit("{")
			walkList(x.Body.List)
			emit("}")
		case *ast.ReturnStmt:
			for _, r := range x.Results {
				walk(r, "")
			}
			emit("return")
		case *ast.SendStmt:
			ch := exprText(pi, x.Chan)
			*sends = append(*sends, fmt.Sprintf("(%s, %s)", coqStr(fname), coqStr(ch)))
			walk(x.Value, "")
			emit("send " + ch)
		case *ast.UnaryExpr:
			if x.Op == token.ARROW {
				ch := exprText(pi, x.X)
				*recvs = append(*recvs, fmt.Sprintf("(%s, %s)", coqStr(fname), coqStr(ch)))
				walk(x.X, "")
				emit("recv " + ch)
				return
			}
			walk(x.X, "")
		case *ast.SelectStmt:
			emit("select{")
			for _, c := range x.Body.List {
				cc := c.(*ast.CommClause)
				if cc.Comm == nil {
					emit("default")
				} else {
					emit("case")
					walk(cc.Comm, "")
				}
				walkList(cc.Body)
			}
			emit("}")
		case *ast.ForStmt:
			emit("for{")
			walk(x.Init, "")
			if x.Cond != nil {
				walk(x.Cond, "")
			}
			walk(x.Post, "")
			walkList(x.Body.List)
			emit("}")
		case *ast.RangeStmt:
			emit("for{")
			walk(x.X, "")
			walkList(x.Body.List)
			emit("}")
		case *ast.IfStmt:
			walk(x.Init, "")
			walk(x.Cond, "")
			emit("if{")
			walkList(x.Body.List)
			emit("}")
			if x.Else != nil {
				emit("else{")
				walk(x.Else, "")
				emit("}")
			}
		case *ast.BlockStmt:
			walkList(x.List)
		case *ast.ExprStmt:
			walk(x.X, "")
		case *ast.AssignStmt:
			for _, r := range x.Rhs {
				walk(r, "")
			}
			for _, l := range x.Lhs {
				// assignments to connection fields matter for the lifecycle model
				t := exprText(pi, l)
				if strings.HasPrefix(t, "conn.") && !strings.Contains(t, "[") {
					emit("set " + t)
				}
			}
		case *ast.DeclStmt:
			if gd, ok := x.Decl.(*ast.GenDecl); ok {
				for _, sp := range gd.Specs {
					if vs, ok := sp.(*ast.ValueSpec); ok {
						for _, v := range vs.Values {
							walk(v, "")
						}
					}
				}
			}
		case *ast.SwitchStmt:
			walk(x.Init, "")
			if x.Tag != nil {
				walk(x.Tag, "")
			}
			emit("switch{")
			for _, c := range x.Body.List {
				cc := c.(*ast.CaseClause)
				emit("case")
				walkList(cc.Body)
			}
			emit("}")
		case *ast.TypeSwitchStmt:
			emit("switch{")
			for _, c := range x.Body.List {
				cc := c.(*ast.CaseClause)
				emit("case")
				walkList(cc.Body)
			}
			emit("}")
		case *ast.LabeledStmt:
			walk(x.Stmt, "")
		case *ast.IncDecStmt, *ast.BranchStmt, *ast.EmptyStmt:
		case *ast.BinaryExpr:
			walk(x.X, "")
			walk(x.Y, "")
		case *ast.ParenExpr:
			walk(x.X, "")
		case *ast.SelectorExpr:
			walk(x.X, "")
		case *ast.IndexExpr:
			walk(x.X, "")
			walk(x.Index, "")
		case *ast.SliceExpr:
			walk(x.X, "")
			walk(x.Low, "")
			walk(x.High, "")
		case *ast.StarExpr:
			walk(x.X, "")
		case *ast.CompositeLit:
			for _, e := range x.Elts {
				walk(e, "")
			}
		case *ast.KeyValueExpr:
			walk(x.Value, "")
		case *ast.TypeAssertExpr:
			walk(x.X, "")
		case *ast.Ident, *ast.BasicLit:
		default:
		}
	}
	walkList(fd.Body.List)
	return out
}
