// go2coq, stage 2: what the HANDLERS need on top of the pure subset of go2coq.go.
//
//   - value-modelled pointers: a *T for a struct T of package state (state.Nick, ...) is an
//     [option] of the tuple of its string/bool fields; p.F is a partial read (nil -> Panic),
//     p.F = v a partial update.  Sound while no two live variables point to the same object
//     and one is written (checked syntactically, fail closed: ptrWriteOK).
//   - function-typed fields (cfg.NewNick): a parameter of function type, applied purely.
//   - the state.Tracker interface: an [option ST] for an abstract state type ST plus a record
//     [go_state_Tracker ST] with one function per interface method, each returning the new
//     state and the result; x.M(a) on a nil interface is Panic.
//   - pointer parameters of a package struct type (line *Line): the fields read through them
//     become parameters, exactly as for the receiver; they may not be written.
//   - calls with effects (receiver fields written, lines sent) may occur inside expressions:
//     they are bound, in evaluation order, before the expression; not under && / ||.
//   - dropped statements, each a documented assumption: logging.* calls (their ARGUMENTS are
//     still evaluated, because an index expression there can panic); sync mutex operations
//     (sequential semantics); defer conn.dispatch(...) (event dispatch belongs to the LTS
//     models); assignments from package runtime (only feed log messages).
package main

import (
	"fmt"
	"go/ast"
	"go/printer"
	"go/token"
	"go/types"
	"io"
	"strings"
)

func printerFprint(w io.Writer, pi *pkgInfo, n ast.Node) { printer.Fprint(w, pi.pkg.Fset, n) }

// ---------------------------------------------------------------------------------------
// dynamic types

type dynKind int

const (
	kSPtr dynKind = iota
	kFunc
	kIface
	kObj    // *T for a package struct T with exactly ONE modelled field (capSet): the value of that field
	kPure   // an interface whose methods are pure functions of their arguments (sasl.Client)
	kHandle // *T for a package struct T that is not modelled (state's *nick): an abstract reference
	kRefMap // map[K]*T with K a string or a handle: an abstract store with get (and set when T is value-modelled)
)

type dynType struct {
	kind   dynKind
	coq    string
	zero   string
	named  *types.Named
	field  string   // kObj: the modelled field
	fty    gtyp     // kObj: its type
	base   string   // kSPtr: go_state_Nick
	fields []string // kSPtr: supported fields
	ftys   []gtyp
	all    []string // kSPtr: every field name, for the comment
	rest   bool     // kSPtr: the struct has fields that are not modelled: one abstract component for them
	keyTy  gtyp     // kRefMap
	valTy  gtyp     // kRefMap: a handle (get only) or a value-modelled pointer (get and set)
}

const tDyn gtyp = 100
const tUnit gtyp = 99
const tRoot gtyp = 98 // a pointer parameter whose fields are passed instead

var dynTypes []dynType
var dynIndex = map[string]gtyp{}

func resetDyn() { dynTypes = nil; dynIndex = map[string]gtyp{} }

func (t gtyp) dyn() *dynType {
	if t >= tDyn && int(t-tDyn) < len(dynTypes) {
		return &dynTypes[t-tDyn]
	}
	return nil
}

func addDyn(key string, d dynType) gtyp {
	if t, ok := dynIndex[key]; ok {
		return t
	}
	dynTypes = append(dynTypes, d)
	t := tDyn + gtyp(len(dynTypes)-1)
	dynIndex[key] = t
	return t
}

func pkgIs(p *types.Package, last string) bool {
	return p != nil && (p.Path() == last || strings.HasSuffix(p.Path(), "/"+last))
}

// value-modelled struct: a struct of package state
func valueStruct(t types.Type) (*types.Named, *types.Struct, bool) {
	p, ok := t.(*types.Pointer)
	if !ok {
		return nil, nil, false
	}
	n, ok := p.Elem().(*types.Named)
	if !ok || !pkgIs(n.Obj().Pkg(), "state") || !n.Obj().Exported() {
		return nil, nil, false
	}
	st, ok := n.Underlying().(*types.Struct)
	return n, st, ok
}

func basicType(t types.Type) gtyp {
	if b, ok := t.Underlying().(*types.Basic); ok {
		switch b.Kind() {
		case types.String:
			return tStr
		case types.Bool:
			return tBool
		case types.Int:
			return tInt
		}
	}
	return tBad
}

func goTypeDyn(t types.Type) gtyp {
	if n, st, ok := valueStruct(t); ok {
		base := "go_" + n.Obj().Pkg().Name() + "_" + n.Obj().Name()
		d := dynType{kind: kSPtr, coq: "option " + base, zero: "None", named: n, base: base}
		for i := 0; i < st.NumFields(); i++ {
			d.all = append(d.all, st.Field(i).Name())
			if ty := basicType(st.Field(i).Type()); ty != tBad {
				d.fields = append(d.fields, st.Field(i).Name())
				d.ftys = append(d.ftys, ty)
			}
		}
		if len(d.fields) == 0 {
			return tBad
		}
		d.rest = len(d.fields) < len(d.all)
		return addDyn("sptr:"+n.String(), d)
	}
	if sg, ok := t.Underlying().(*types.Signature); ok && !sg.Variadic() && sg.Results().Len() == 1 && sg.Recv() == nil {
		if _, isNamed := t.(*types.Named); !isNamed {
			var ts []string
			for i := 0; i < sg.Params().Len(); i++ {
				ty := basicType(sg.Params().At(i).Type())
				if ty == tBad {
					return tBad
				}
				ts = append(ts, ty.coq())
			}
			r := basicType(sg.Results().At(0).Type())
			if r == tBad || len(ts) == 0 {
				return tBad
			}
			ts = append(ts, r.coq())
			return addDyn("func:"+strings.Join(ts, "->"), dynType{kind: kFunc, coq: strings.Join(ts, " -> "), zero: "BAD"})
		}
	}
	// *T, T a struct of the translated package with one modelled field besides mutexes
	if pt, ok := t.(*types.Pointer); ok {
		if n, ok := pt.Elem().(*types.Named); ok && n.Obj().Pkg() != nil && n.Obj().Pkg().Name() == "client" {
			if st, ok := n.Underlying().(*types.Struct); ok {
				var field string
				fty := tBad
				cnt, other := 0, 0
				for i := 0; i < st.NumFields(); i++ {
					ft := st.Field(i).Type()
					if fn, ok := ft.(*types.Named); ok && fn.Obj().Pkg() != nil && fn.Obj().Pkg().Path() == "sync" {
						continue
					}
					if _, isPtr := ft.(*types.Pointer); isPtr {
						other++
						continue
					}
					if ty := goType(ft); ty != tBad {
						cnt++
						field, fty = st.Field(i).Name(), ty
					} else {
						other++
					}
				}
				if cnt == 1 && other == 0 && st.NumFields() > 1 {
					return addDyn("obj:"+n.String(), dynType{kind: kObj, coq: fty.coq(), zero: "BAD", named: n, field: field, fty: fty})
				}
			}
		}
	}
	if n, ok := t.(*types.Named); ok && n.Obj().Pkg() != nil && strings.HasSuffix(n.Obj().Pkg().Path(), "go-sasl") && n.Obj().Name() == "Client" {
		if _, ok := n.Underlying().(*types.Interface); ok {
			return addDyn("pure:"+n.String(), dynType{kind: kPure, coq: "option go_sasl_Client", zero: "None", named: n})
		}
	}
	// *T for an unexported struct of package state (nick, channel): an abstract reference
	if pt, ok := t.(*types.Pointer); ok {
		if n, ok := pt.Elem().(*types.Named); ok && pkgIs(n.Obj().Pkg(), "state") && !n.Obj().Exported() {
			if _, ok := n.Underlying().(*types.Struct); ok {
				base := "go_state_" + n.Obj().Name() + "_ref"
				return addDyn("handle:"+n.String(), dynType{kind: kHandle, coq: "option " + base, zero: "None", named: n, base: base})
			}
		}
	}
	// map[string]*T / map[*T]*U of package state: an abstract store
	if mt, ok := t.Underlying().(*types.Map); ok {
		kt, vt := goType(mt.Key()), goType(mt.Elem())
		kd, vd := kt.dyn(), vt.dyn()
		if (kt == tStr || (kd != nil && kd.kind == kHandle)) && vd != nil && (vd.kind == kHandle || vd.kind == kSPtr) {
			kn := "string"
			if kd != nil {
				kn = kd.named.Obj().Name()
			}
			base := "go_map_" + kn + "_" + vd.named.Obj().Name()
			return addDyn("refmap:"+t.String(), dynType{kind: kRefMap, coq: base, zero: "BAD", base: base, keyTy: kt, valTy: vt})
		}
	}
	if n, ok := t.(*types.Named); ok && pkgIs(n.Obj().Pkg(), "state") && n.Obj().Name() == "Tracker" {
		if _, ok := n.Underlying().(*types.Interface); ok {
			return addDyn("iface:"+n.String(), dynType{kind: kIface, coq: "option ST", zero: "None", named: n})
		}
	}
	return tBad
}

// definitions for a value-modelled struct: the tuple type, a partial getter and setter per field.
// Fields that are not modelled (pointers, maps) are ONE abstract component of type <base>_rest,
// a variable of the section together with a boolean equality on it: enough for nil tests, reads
// and writes of the modelled fields, and reflect.DeepEqual of two such values.
func sptrDefs(d *dynType) string {
	var b strings.Builder
	var tys, xs, ys0 []string
	for i := range d.fields {
		tys = append(tys, d.ftys[i].coq())
		xs = append(xs, fmt.Sprintf("x%d", i+1))
		ys0 = append(ys0, fmt.Sprintf("y%d", i+1))
	}
	fmt.Fprintf(&b, "(* type %s struct { %s }: the fields %s", d.named.Obj().Name(), strings.Join(d.all, ", "), strings.Join(d.fields, ", "))
	if d.rest {
		fmt.Fprintf(&b, " and one abstract component for the others")
		tys = append(tys, d.base+"_rest")
		xs = append(xs, "xr")
		ys0 = append(ys0, "yr")
	}
	fmt.Fprintf(&b, "; a *%s is an option (None = nil) *)\n", d.named.Obj().Name())
	if d.rest {
		fmt.Fprintf(&b, "Context {%s_rest : Type}.\nVariable %s_rest_eqb : %s_rest -> %s_rest -> bool.\n", d.base, d.base, d.base, d.base)
	}
	fmt.Fprintf(&b, "Definition %s : Type := (%s)%%type.\n", d.base, strings.Join(tys, " * "))
	pat := tuple(xs)
	for i, fl := range d.fields {
		fmt.Fprintf(&b, "Definition %s_get_%s (p : option %s) : res %s :=\n  match p with Some %s => Ok %s | None => Panic end.\n",
			d.base, fl, d.base, atom(d.ftys[i].coq()), pat, xs[i])
		ys := append([]string{}, xs...)
		ys[i] = "v"
		fmt.Fprintf(&b, "Definition %s_set_%s (p : option %s) (v : %s) : res (option %s) :=\n  match p with Some %s => Ok (Some %s) | None => Panic end.\n",
			d.base, fl, d.base, d.ftys[i].coq(), d.base, pat, tuple(ys))
	}
	// reflect.DeepEqual of two pointers to this struct
	var eqs []string
	for i := range d.fields {
		switch d.ftys[i] {
		case tStr:
			eqs = append(eqs, "beq "+xs[i]+" "+ys0[i])
		case tBool:
			eqs = append(eqs, "Bool.eqb "+xs[i]+" "+ys0[i])
		case tInt:
			eqs = append(eqs, "("+xs[i]+" =? "+ys0[i]+")")
		}
	}
	if d.rest {
		eqs = append(eqs, d.base+"_rest_eqb xr yr")
	}
	fmt.Fprintf(&b, "Definition %s_eqb (p q : option %s) : bool :=\n  match p, q with\n  | Some %s, Some %s => %s\n  | None, None => true\n  | _, _ => false\n  end.\n",
		d.base, d.base, pat, tuple(ys0), strings.Join(eqs, " && "))
	return b.String()
}

func (f *ftrans) openSection() {
	if !*f.section {
		*f.section = true
		*f.extra = append(*f.extra, "Section WithTracker.\n")
	}
}

func (f *ftrans) needType(t gtyp) {
	d := t.dyn()
	if d == nil {
		return
	}
	switch d.kind {
	case kSPtr:
		if !f.emitted[d.base] {
			f.emitted[d.base] = true
			f.openSection()
			*f.extra = append(*f.extra, sptrDefs(d))
			if d.rest {
				sectionRestVars = append(sectionRestVars, d.base+"_rest")
			}
		}
	case kIface:
		f.needTracker(d)
	case kPure:
		f.needSasl(d)
	case kHandle:
		if !f.emitted[d.base] {
			f.emitted[d.base] = true
			f.openSection()
			*f.extra = append(*f.extra, fmt.Sprintf("(* *%s (package state, not modelled): an abstract reference; nil = None *)\nContext {%s : Type}.\n", d.named.Obj().Name(), d.base))
		}
	case kRefMap:
		f.needType(d.keyTy)
		f.needType(d.valTy)
		if !f.emitted[d.base] {
			f.emitted[d.base] = true
			f.openSection()
			vd := d.valTy.dyn()
			txt := fmt.Sprintf("(* a Go map to pointers, as an abstract store: m[k] (nil when k is missing)")
			decl := fmt.Sprintf("Context {%s : Type}.\nVariable %s_get : %s -> %s -> %s.\n", d.base, d.base, d.base, d.keyTy.coq(), d.valTy.coq())
			if vd.kind == kSPtr {
				txt += ", and the write through that pointer"
				decl += fmt.Sprintf("Variable %s_set : %s -> %s -> %s -> %s.\n", d.base, d.base, d.keyTy.coq(), vd.base, d.base)
			}
			*f.extra = append(*f.extra, txt+" *)\n"+decl)
		}
	}
}

// a local variable bound to m[k] for a store m of value-modelled objects: a write p.F = v through
// it is also a write to the store at k
type refInfo struct {
	m   *gvar
	key string
}

// m[k] on an abstract store
func (f *ftrans) refMapGet(x *ast.IndexExpr) (ex, bool) {
	ty := goType(f.info.TypeOf(x.X))
	d := ty.dyn()
	if d == nil || d.kind != kRefMap {
		return ex{}, false
	}
	f.needType(ty)
	m, k := f.expr(x.X), f.expr(x.Index)
	if k.ty != d.keyTy {
		failf("map index of type %s", k.ty.coq())
	}
	return ex{pre: cat(m.pre, k.pre), t: d.base + "_get " + arg(m) + " " + arg(k), p: 1, ty: d.valTy}, true
}

// sasl.Client: Start() (mech string, ir []byte, err error); Next(challenge []byte) (response
// []byte, err error).  A []byte is an [option bytes] here (nil = None), an error a [bool] (true
// = non-nil); the client is an oracle: its answers are data, it has no state of its own.
func (f *ftrans) needSasl(d *dynType) {
	if f.emitted["$sasl"] {
		return
	}
	f.emitted["$sasl"] = true
	*f.extra = append(*f.extra, `(* type Client interface of package go-sasl, as an oracle: Start() = (mech, ir, err),
   Next(challenge) = (response, err); a []byte is an option (None = nil), an error a bool *)
Record go_sasl_Client := {
  go_sasl_Client_Start : bytes * option bytes * bool;
  go_sasl_Client_Next : option bytes -> option bytes * bool
}.
`)
}

// ---------------------------------------------------------------------------------------
// objects with one modelled field (capSet)

// x.M(args) with x a variable / field of an object type
func (f *ftrans) objCall(fn *ast.SelectorExpr, x *ast.CallExpr) (ex, bool) {
	sel := f.info.Selections[fn]
	if sel == nil || sel.Kind() != types.MethodVal {
		return ex{}, false
	}
	d := goType(f.info.TypeOf(fn.X)).dyn()
	if d == nil || d.kind != kObj {
		return ex{}, false
	}
	if id, ok := fn.X.(*ast.Ident); ok && f.rootOf(id) != nil {
		return ex{}, false // the receiver itself: handled as a root
	}
	callee := f.sigs[d.named.Obj().Name()+"."+fn.Sel.Name]
	if callee == nil {
		failf("call of method %s which is not translated", fn.Sel.Name)
	}
	for _, fr := range callee.fieldIn {
		if fr.rel != "."+d.field {
			failf("method %s uses field %s", fn.Sel.Name, fr.rel)
		}
	}
	if callee.emits || callee.clocks > 0 {
		failf("method %s of an object sends lines", fn.Sel.Name)
	}
	base := f.expr(fn.X)
	var ts []string
	if len(callee.fieldIn) > 0 {
		ts = append(ts, arg(base))
	}
	pre := cat(base.pre)
	np := len(callee.params)
	if callee.variadic {
		np--
	}
	if len(x.Args) < np || (!callee.variadic && len(x.Args) != np) {
		failf("call of %s with %d arguments", callee.coq, len(x.Args))
	}
	p, as := f.args(x.Args)
	pre = append(pre, p...)
	for i := 0; i < np; i++ {
		if as[i].ty != callee.params[i] {
			failf("argument %d of %s has type %s", i, callee.coq, as[i].ty.coq())
		}
		ts = append(ts, arg(as[i]))
	}
	if callee.variadic {
		if x.Ellipsis.IsValid() {
			if len(as) != np+1 || as[np].ty != tStrs {
				failf("variadic call of %s", callee.coq)
			}
			ts = append(ts, arg(as[np]))
		} else {
			var els []string
			for i := np; i < len(as); i++ {
				if as[i].ty != tStr {
					failf("variadic argument of %s", callee.coq)
				}
				els = append(els, as[i].t)
			}
			ts = append(ts, "["+strings.Join(els, "; ")+"]")
		}
	}
	m := callee.coq
	for _, t := range ts {
		m += " " + t
	}
	var pat []string
	if len(callee.fieldOut) > 0 {
		l := f.lhs(fn.X, false)
		if l.v == nil {
			failf("call of %s on %s", callee.coq, exprText(f.pi, fn.X))
		}
		if f.inMapRange[l.v] {
			failf("update of a map while ranging over it")
		}
		pat = append(pat, l.v.name)
	}
	r := ex{t: "tt", ty: tUnit}
	if len(callee.results) > 0 {
		t := f.tmp()
		pat = append(pat, t)
		r = ex{t: t, ty: callee.results[0]}
		if len(callee.results) > 1 {
			r.ty, r.tys = tTuple, callee.results
		}
	}
	b := nBind{mterm: m, effect: len(callee.fieldOut) > 0}
	switch len(pat) {
	case 0:
		b.name = f.tmp()
	case 1:
		b.name = pat[0]
	default:
		b.pat = pat
	}
	r.pre = append(pre, b)
	return r, true
}

// &T{F: e} for an object type: the value of its one field
func (f *ftrans) objLit(e ast.Expr) (ex, bool) {
	u, ok := e.(*ast.UnaryExpr)
	if !ok || u.Op != token.AND {
		return ex{}, false
	}
	cl, ok := u.X.(*ast.CompositeLit)
	if !ok {
		return ex{}, false
	}
	d := goType(f.info.TypeOf(e)).dyn()
	if d == nil || d.kind != kObj {
		return ex{}, false
	}
	for _, el := range cl.Elts {
		kv, ok := el.(*ast.KeyValueExpr)
		if !ok {
			failf("unkeyed struct literal")
		}
		if kv.Key.(*ast.Ident).Name == d.field {
			v := f.expr(kv.Value)
			if v.ty != d.fty {
				failf("field %s initialised with a %s", d.field, v.ty.coq())
			}
			v.ty = goType(f.info.TypeOf(e))
			return v, true
		}
	}
	failf("struct literal without its field %s (a nil map)", d.field)
	return ex{}, false
}

// delete(m, k) and sort.Strings(x) in statement position
func (f *ftrans) specialStmt(call *ast.CallExpr, k func() node) (node, bool) {
	if id, ok := call.Fun.(*ast.Ident); ok {
		if b, ok := f.info.Uses[id].(*types.Builtin); ok && b.Name() == "delete" && len(call.Args) == 2 {
			m := f.lhs(call.Args[0], false)
			key := f.expr(call.Args[1])
			if m.v == nil || m.v.ty != tKMap || key.ty != tStr {
				failf("delete on %s", exprText(f.pi, call.Args[0]))
			}
			if f.inMapRange[m.v] {
				if kid, ok := call.Args[1].(*ast.Ident); !ok || f.rangeKey[m.v] != f.info.Uses[kid] {
					failf("delete of another key while ranging over the map")
				}
			}
			return withPre(key.pre, nSeq{pat: []string{m.v.name}, ty: "kmap",
				val: nLeaf{"go_kmap_delete " + m.v.name + " " + arg(key)}, body: k()}), true
		}
	}
	if f.isPkgCall(call, "sort") && call.Fun.(*ast.SelectorExpr).Sel.Name == "Strings" && len(call.Args) == 1 {
		x := f.lhs(call.Args[0], false)
		if x.v == nil || x.v.ty != tStrs {
			failf("sort.Strings on %s", exprText(f.pi, call.Args[0]))
		}
		return nSeq{pat: []string{x.v.name}, ty: "list bytes", val: nLeaf{"isort " + x.v.name}, body: k()}, true
	}
	return nil, false
}

// a package-level variable that is initialised with a constant []string literal and never
// assigned anywhere in the package: its value
func (f *ftrans) pkgVar(id *ast.Ident) (ex, bool) {
	v, ok := f.info.Uses[id].(*types.Var)
	if !ok || v.Parent() != f.pi.pkg.Types.Scope() || goType(v.Type()) != tStrs {
		return ex{}, false
	}
	var init ast.Expr
	for _, file := range f.pi.pkg.Syntax {
		ast.Inspect(file, func(n ast.Node) bool {
			switch x := n.(type) {
			case *ast.ValueSpec:
				for i, nm := range x.Names {
					if f.info.Defs[nm] == v && len(x.Values) == len(x.Names) {
						init = x.Values[i]
					}
				}
			case *ast.AssignStmt:
				for _, l := range x.Lhs {
					ast.Inspect(l, func(m ast.Node) bool {
						if li, ok := m.(*ast.Ident); ok && f.info.Uses[li] == v {
							failf("package variable %s is assigned", v.Name())
						}
						return true
					})
				}
			case *ast.UnaryExpr:
				if li, ok := x.X.(*ast.Ident); ok && x.Op == token.AND && f.info.Uses[li] == v {
					failf("address of package variable %s is taken", v.Name())
				}
			}
			return true
		})
	}
	cl, ok := init.(*ast.CompositeLit)
	if !ok {
		failf("package variable %s is not initialised with a literal", v.Name())
	}
	var els []string
	for _, el := range cl.Elts {
		sv, ok := f.constArg(el)
		if !ok {
			failf("package variable %s: element that is not a constant", v.Name())
		}
		els = append(els, bytesLit(sv))
	}
	name := "go_" + f.pi.pkg.Name + "_" + coqIdent(v.Name())
	if !f.emitted[name] {
		f.emitted[name] = true
		*f.extra = append(*f.extra, fmt.Sprintf("(* var %s = []string{...}, never assigned in the package *)\nDefinition %s : list bytes := [%s].\n",
			v.Name(), name, strings.Join(els, "; ")))
	}
	return ex{t: name, ty: tStrs}, true
}

// the Tracker interface as a record of functions over an abstract state
type ifaceMethod struct {
	name     string
	params   []gtyp
	variadic bool
	res      string // Coq type of the result ("" = none)
	resTy    gtyp   // single result
	resTys   []gtyp // several results
}

var ifaceMethods = map[string]ifaceMethod{}

// the abstract "other fields" types declared in the section, in order; after the section is
// closed they are leading implicit arguments of everything that mentions them
var sectionRestVars []string

// after End: the projections of the Tracker record take all their type arguments implicitly
func sectionEpilogue() string {
	var names []string
	for n := range ifaceMethods {
		names = append(names, n)
	}
	sortStrings(names)
	var b strings.Builder
	for _, n := range names {
		fmt.Fprintf(&b, "Arguments go_state_Tracker_%s {%s} _.\n", n, strings.Join(append(append([]string{}, sectionRestVars...), "ST"), " "))
	}
	return b.String()
}

func sortStrings(a []string) {
	for i := 1; i < len(a); i++ {
		for j := i; j > 0 && a[j] < a[j-1]; j-- {
			a[j], a[j-1] = a[j-1], a[j]
		}
	}
}

func (f *ftrans) needTracker(d *dynType) {
	if f.emitted["$tracker"] {
		return
	}
	f.emitted["$tracker"] = true
	it := d.named.Underlying().(*types.Interface)
	var b strings.Builder
	var fields, argsDecl []string
	for i := 0; i < it.NumMethods(); i++ {
		m := it.Method(i)
		sg := m.Type().(*types.Signature)
		im := ifaceMethod{name: m.Name(), variadic: sg.Variadic()}
		ok := true
		var ts []string
		for j := 0; j < sg.Params().Len(); j++ {
			ty := goType(sg.Params().At(j).Type())
			if ty != tStr && ty != tStrs && ty != tBool && ty != tInt {
				ok = false
			}
			im.params = append(im.params, ty)
			ts = append(ts, ty.coq())
		}
		var rs []string
		for j := 0; j < sg.Results().Len(); j++ {
			ty := goType(sg.Results().At(j).Type())
			if ty == tBad || (ty.dyn() != nil && ty.dyn().kind != kSPtr) {
				ok = false
				break
			}
			f.needType(ty)
			im.resTys = append(im.resTys, ty)
			rs = append(rs, ty.coq())
		}
		if !ok {
			continue
		}
		rt := "ST"
		if len(rs) > 0 {
			im.res = strings.Join(rs, " * ")
			if len(rs) == 1 {
				im.resTy = im.resTys[0]
			} else {
				im.resTy = tTuple
			}
			rt = "ST * " + atom(im.res)
		}
		fields = append(fields, fmt.Sprintf("  go_state_Tracker_%s : %s", m.Name(), strings.Join(append(append([]string{"ST"}, ts...), rt), " -> ")))
		argsDecl = append(argsDecl, fmt.Sprintf("Arguments go_state_Tracker_%s {ST} _.", m.Name()))
		ifaceMethods[m.Name()] = im
	}
	b.WriteString("(* type Tracker interface of package state: an abstract state ST and one function per method,\n   from the state and the arguments to the new state and the result *)\n")
	b.WriteString("Record go_state_Tracker (ST : Type) := {\n" + strings.Join(fields, ";\n") + "\n}.\n")
	b.WriteString(strings.Join(argsDecl, "\n") + "\n\n")
	b.WriteString("Context {ST : Type}.\nVariable trk : go_state_Tracker ST.\n")
	f.openSection()
	*f.extra = append(*f.extra, b.String())
}

// x.M(args) on a Tracker-typed variable
func (f *ftrans) trackerCall(fn *ast.SelectorExpr, x *ast.CallExpr) (ex, bool) {
	ty := goType(f.info.TypeOf(fn.X))
	d := ty.dyn()
	if d == nil || d.kind != kIface {
		return ex{}, false
	}
	f.needType(ty)
	im, ok := ifaceMethods[fn.Sel.Name]
	if !ok {
		failf("Tracker method %s has an unsupported signature", fn.Sel.Name)
	}
	base := f.lhs(fn.X, false)
	if base.blank || base.v == nil {
		failf("Tracker call on %s", exprText(f.pi, fn.X))
	}
	pre, as := f.args(x.Args)
	var ts []string
	np := len(im.params)
	if im.variadic {
		np--
	}
	if len(as) < np || (!im.variadic && len(as) != np) {
		failf("Tracker call %s with %d arguments", fn.Sel.Name, len(as))
	}
	for i := 0; i < np; i++ {
		if as[i].ty != im.params[i] {
			failf("Tracker call %s: argument %d has type %s", fn.Sel.Name, i, as[i].ty.coq())
		}
		ts = append(ts, arg(as[i]))
	}
	if im.variadic {
		if x.Ellipsis.IsValid() {
			if len(as) != np+1 || as[np].ty != tStrs {
				failf("Tracker call %s: variadic argument", fn.Sel.Name)
			}
			ts = append(ts, arg(as[np]))
		} else {
			var els []string
			for i := np; i < len(as); i++ {
				if as[i].ty != tStr {
					failf("Tracker call %s: variadic argument", fn.Sel.Name)
				}
				els = append(els, as[i].t)
			}
			ts = append(ts, "["+strings.Join(els, "; ")+"]")
		}
	}
	call := "go_state_Tracker_" + fn.Sel.Name + " trk s_"
	for _, t := range ts {
		call += " " + t
	}
	st := base.v.name
	t := f.tmp()
	var m string
	r := ex{t: t, ty: im.resTy, tys: im.resTys}
	if im.res == "" {
		m = "(match " + st + " with None => Panic | Some s_ => Ok (Some (" + call + "), tt) end)"
		r.ty = tUnit
	} else {
		m = "(match " + st + " with None => Panic | Some s_ => let '(s_, r_) := " + call + " in Ok (Some s_, r_) end)"
	}
	r.pre = append(pre, nBind{pat: []string{st, t}, mterm: m, effect: true})
	return r, true
}

// ---------------------------------------------------------------------------------------
// dropped statements

func (f *ftrans) isPkgCall(call *ast.CallExpr, pkg string) bool {
	se, ok := call.Fun.(*ast.SelectorExpr)
	if !ok {
		return false
	}
	id, ok := se.X.(*ast.Ident)
	if !ok {
		return false
	}
	pn, ok := f.info.Uses[id].(*types.PkgName)
	return ok && pkgIs(pn.Imported(), pkg)
}

func (f *ftrans) isMutexCall(call *ast.CallExpr) bool {
	se, ok := call.Fun.(*ast.SelectorExpr)
	if !ok {
		return false
	}
	switch se.Sel.Name {
	case "Lock", "Unlock", "RLock", "RUnlock":
	default:
		return false
	}
	t := f.info.TypeOf(se.X)
	if p, ok := t.(*types.Pointer); ok {
		t = p.Elem()
	}
	n, ok := t.(*types.Named)
	return ok && n.Obj().Pkg() != nil && n.Obj().Pkg().Path() == "sync" && (n.Obj().Name() == "Mutex" || n.Obj().Name() == "RWMutex")
}

func (f *ftrans) isRuntimeExpr(e ast.Expr) bool {
	call, ok := e.(*ast.CallExpr)
	if !ok {
		return false
	}
	if f.isPkgCall(call, "runtime") {
		return true
	}
	if se, ok := call.Fun.(*ast.SelectorExpr); ok {
		t := f.info.TypeOf(se.X)
		if p, ok := t.(*types.Pointer); ok {
			t = p.Elem()
		}
		if n, ok := t.(*types.Named); ok && n.Obj().Pkg() != nil && n.Obj().Pkg().Path() == "runtime" {
			return true
		}
		// d.Seconds() and the like on a time.Duration value: pure, cannot panic
		if n, ok := t.(*types.Named); ok && n.Obj().Pkg() != nil && n.Obj().Pkg().Path() == "time" && n.Obj().Name() == "Duration" && len(call.Args) == 0 {
			return true
		}
	}
	return false
}

// dropKind: "" (translate), "log", "mutex", "dispatch", "runtime"
func (f *ftrans) dropKind(s ast.Stmt) string {
	switch x := s.(type) {
	case *ast.ExprStmt:
		if call, ok := x.X.(*ast.CallExpr); ok {
			if f.isPkgCall(call, "logging") {
				return "log"
			}
			if f.isMutexCall(call) {
				return "mutex"
			}
		}
	case *ast.DeferStmt:
		if f.isMutexCall(x.Call) {
			return "mutex"
		}
		if se, ok := x.Call.Fun.(*ast.SelectorExpr); ok && se.Sel.Name == "dispatch" {
			if id, ok := se.X.(*ast.Ident); ok && f.recv != nil && f.info.Uses[id] == f.recv {
				return "dispatch"
			}
		}
	case *ast.AssignStmt:
		if len(x.Rhs) == 1 && f.isRuntimeExpr(x.Rhs[0]) {
			return "runtime"
		}
	}
	return ""
}

// a logging call: only the partial operations inside its arguments remain
func (f *ftrans) logArgs(call *ast.CallExpr, k func() node) node {
	var pre []nBind
	for _, a := range call.Args {
		if f.isRuntimeExpr(a) {
			continue // runtime.Func.Name() and the like: no effect, no panic
		}
		func() {
			defer func() {
				if r := recover(); r != nil {
					if _, ok := r.(unsupported); !ok {
						panic(r)
					}
					if _, isId := a.(*ast.Ident); isId {
						return // reading a variable of a type that is not modelled (an error value)
					}
					panic(r)
				}
			}()
			v := f.expr(a)
			for _, p := range v.pre {
				if p.effect {
					failf("call with effects inside a logging call")
				}
			}
			pre = append(pre, v.pre...)
		}()
	}
	return withPre(pre, k())
}

// ---------------------------------------------------------------------------------------
// value-modelled pointers: field reads, field writes, nil tests

// e is p.F with p of a value-modelled pointer type
func (f *ftrans) valueField(e ast.Expr) (base ast.Expr, d *dynType, idx int, ok bool) {
	se, isSel := e.(*ast.SelectorExpr)
	if !isSel {
		return nil, nil, 0, false
	}
	sel := f.info.Selections[se]
	if sel == nil || sel.Kind() != types.FieldVal {
		return nil, nil, 0, false
	}
	ty := goType(f.info.TypeOf(se.X))
	d = ty.dyn()
	if d == nil || d.kind != kSPtr {
		return nil, nil, 0, false
	}
	for i, fl := range d.fields {
		if fl == se.Sel.Name {
			f.needType(ty)
			return se.X, d, i, true
		}
	}
	failf("field %s of %s is not modelled", se.Sel.Name, d.named.Obj().Name())
	return nil, nil, 0, false
}

// p.F = v is accepted when no OTHER variable of the same pointer type is used later in the
// function (it could point to the same object) and the statement is not in a loop
func (f *ftrans) ptrWriteOK(target ast.Expr, inLoop bool) {
	tk := exprText(f.pi, target)
	tt := goType(f.info.TypeOf(target))
	ast.Inspect(f.fd.Body, func(n ast.Node) bool {
		e, ok := n.(ast.Expr)
		// in a loop "later" is anywhere in the function
		if !ok || (!inLoop && n.Pos() <= target.End()) {
			return true
		}
		switch e.(type) {
		case *ast.Ident, *ast.SelectorExpr:
			if tv, ok := f.info.Types[e]; ok && tv.IsValue() && goType(tv.Type) == tt && exprText(f.pi, e) != tk {
				failf("field assignment through %s while %s may point to the same object and is used later", tk, exprText(f.pi, e))
			}
		}
		return true
	})
}

func (f *ftrans) isNil(e ast.Expr) bool {
	tv, ok := f.info.Types[e]
	return ok && tv.IsNil()
}

var _ = token.NoPos

// conn.cfg.Sasl.Start() / .Next(challenge) on the oracle record; a nil interface panics
func (f *ftrans) saslCall(fn *ast.SelectorExpr, x *ast.CallExpr) (ex, bool) {
	ty := goType(f.info.TypeOf(fn.X))
	d := ty.dyn()
	if d == nil || d.kind != kPure {
		return ex{}, false
	}
	f.needType(ty)
	base := f.expr(fn.X)
	pre, as := f.args(x.Args)
	pre = append(cat(base.pre), pre...)
	var call string
	var tys []gtyp
	switch {
	case fn.Sel.Name == "Start" && len(as) == 0:
		call, tys = "go_sasl_Client_Start c_", []gtyp{tStr, tNBytes, tErr}
	case fn.Sel.Name == "Next" && len(as) == 1 && as[0].ty == tNBytes:
		call, tys = "go_sasl_Client_Next c_ "+arg(as[0]), []gtyp{tNBytes, tErr}
	default:
		failf("call %s", exprText(f.pi, fn))
	}
	t := f.tmp()
	pre = append(pre, nBind{name: t, mterm: "(match " + arg(base) + " with None => Panic | Some c_ => Ok (" + call + ") end)"})
	return ex{pre: pre, t: t, ty: tTuple, tys: tys}, true
}

// base64.StdEncoding.EncodeToString(b) / DecodeString(s): Lib/Base64.v
func (f *ftrans) base64Call(x *ast.CallExpr) (ex, bool) {
	fn, ok := x.Fun.(*ast.SelectorExpr)
	if !ok {
		return ex{}, false
	}
	in, ok := fn.X.(*ast.SelectorExpr)
	if !ok || in.Sel.Name != "StdEncoding" {
		return ex{}, false
	}
	id, ok := in.X.(*ast.Ident)
	if !ok {
		return ex{}, false
	}
	pn, ok := f.info.Uses[id].(*types.PkgName)
	if !ok || pn.Imported().Path() != "encoding/base64" || len(x.Args) != 1 {
		return ex{}, false
	}
	a := f.expr(x.Args[0])
	switch {
	case fn.Sel.Name == "EncodeToString" && a.ty == tNBytes:
		return ex{pre: a.pre, t: "b64_encode (go_nbytes " + arg(a) + ")", p: 1, ty: tStr}, true
	case fn.Sel.Name == "DecodeString" && a.ty == tStr:
		return ex{pre: a.pre, t: "go_b64_decode " + arg(a), p: 1, ty: tTuple, tys: []gtyp{tNBytes, tErr}}, true
	}
	failf("call %s", exprText(f.pi, fn))
	return ex{}, false
}

// p.Equals(q) on value-modelled pointers, when the method's body in package state is
// `return reflect.DeepEqual(recv, arg)`: equality of the two values (nil = nil)
func (f *ftrans) equalsCall(fn *ast.SelectorExpr, x *ast.CallExpr) (ex, bool) {
	if fn.Sel.Name != "Equals" || len(x.Args) != 1 {
		return ex{}, false
	}
	ty := goType(f.info.TypeOf(fn.X))
	d := ty.dyn()
	if d == nil || d.kind != kSPtr || goType(f.info.TypeOf(x.Args[0])) != ty {
		return ex{}, false
	}
	// check the source of the method
	sp := f.pkgs[d.named.Obj().Pkg().Name()]
	if sp == nil {
		failf("package %s is not loaded", d.named.Obj().Pkg().Name())
	}
	fd := sp.funcs[d.named.Obj().Name()+".Equals"]
	ok := false
	if fd != nil && fd.Body != nil && len(fd.Body.List) == 1 && fd.Recv != nil && len(fd.Recv.List[0].Names) == 1 && len(fd.Type.Params.List) == 1 && len(fd.Type.Params.List[0].Names) == 1 {
		if rs, isRet := fd.Body.List[0].(*ast.ReturnStmt); isRet && len(rs.Results) == 1 {
			if call, isCall := rs.Results[0].(*ast.CallExpr); isCall && len(call.Args) == 2 {
				if se, isSel := call.Fun.(*ast.SelectorExpr); isSel && se.Sel.Name == "DeepEqual" {
					if pk, isId := se.X.(*ast.Ident); isId && pk.Name == "reflect" {
						a0, ok0 := call.Args[0].(*ast.Ident)
						a1, ok1 := call.Args[1].(*ast.Ident)
						if ok0 && ok1 && a0.Name == fd.Recv.List[0].Names[0].Name && a1.Name == fd.Type.Params.List[0].Names[0].Name {
							ok = true
						}
					}
				}
			}
		}
	}
	if !ok {
		failf("method %s.Equals is not reflect.DeepEqual(receiver, argument)", d.named.Obj().Name())
	}
	f.needType(ty)
	a, b := f.expr(fn.X), f.expr(x.Args[0])
	return ex{pre: cat(a.pre, b.pre), t: d.base + "_eqb " + arg(a) + " " + arg(b), p: 1, ty: tBool}, true
}

// ---------------------------------------------------------------------------------------
// lock_panic_sites: statements that can panic while a mutex is held WITHOUT a deferred unlock.
//
// For every function of the packages: a mutex x is "held without defer" between a statement
// x.Lock() / x.RLock() and the next x.Unlock() / x.RUnlock() statement (source order; to the end
// of the function when there is none), unless the function defers the unlock of x.  A statement
// or control-statement header in such a region is a SITE when it contains, conservatively,
// something that can panic: an index expression on a non-map, a slice expression, a type
// assertion without comma-ok, a call of panic, a division, or a call of a function / method
// that go2coq translates (their generated type is res).  A panic there leaves the mutex locked
// for ever (the callers recover).  Emitted as (function, text) pairs, in source order.
func lockFacts(pkgs map[string]*pkgInfo) string {
	var b strings.Builder
	b.WriteString("(* GENERATED from the Go source by /verif/translator (go2coq2.go: lockFacts) on every check run — do not edit.\n")
	b.WriteString("   lock_panic_sites_<pkg>: (function, statement) pairs: a statement that can panic (conservatively:\n")
	b.WriteString("   index on a non-map, slice expression, unchecked type assertion, panic(), division, call of a\n")
	b.WriteString("   translated function) executed while a mutex locked in the SAME function is held without a\n")
	b.WriteString("   deferred unlock. *)\n")
	b.WriteString("From Coq Require Import String List.\nImport ListNotations.\nLocal Open Scope string_scope.\n\n")
	translated := map[string]bool{}
	for _, t := range go2coqTargets {
		translated[t] = true
	}
	for _, pn := range []string{"client", "state"} {
		pi := pkgs[pn]
		if pi == nil {
			continue
		}
		f := &ftrans{pi: pi, info: pi.pkg.TypesInfo}
		var names []string
		for n := range pi.funcs {
			if strings.HasPrefix(n, "Verif") || strings.Contains(n, ".Verif") {
				continue
			}
			names = append(names, n)
		}
		sortStrings(names)
		var sites []string
		for _, n := range names {
			fd := pi.funcs[n]
			if fd.Body == nil {
				continue
			}
			type span struct{ lo, hi token.Pos }
			deferred := map[string]bool{}
			type ev struct {
				pos  token.Pos
				x    string
				lock bool
			}
			var evs []ev
			ast.Inspect(fd.Body, func(nd ast.Node) bool {
				switch s := nd.(type) {
				case *ast.FuncLit:
					return false
				case *ast.DeferStmt:
					if f.isMutexCall(s.Call) {
						deferred[exprText(pi, s.Call.Fun.(*ast.SelectorExpr).X)] = true
					}
					return false
				case *ast.ExprStmt:
					if call, ok := s.X.(*ast.CallExpr); ok && f.isMutexCall(call) {
						se := call.Fun.(*ast.SelectorExpr)
						evs = append(evs, ev{s.Pos(), exprText(pi, se.X), se.Sel.Name == "Lock" || se.Sel.Name == "RLock"})
					}
				}
				return true
			})
			var spans []span
			for i, e := range evs {
				if !e.lock || deferred[e.x] {
					continue
				}
				hi := fd.Body.End()
				for _, u := range evs[i+1:] {
					if !u.lock && u.x == e.x {
						hi = u.pos
						break
					}
				}
				spans = append(spans, span{e.pos, hi})
			}
			if len(spans) == 0 {
				continue
			}
			inSpan := func(p token.Pos) bool {
				for _, s := range spans {
					if p > s.lo && p < s.hi {
						return true
					}
				}
				return false
			}
			canPanic := func(nd ast.Node) bool {
				found := false
				ast.Inspect(nd, func(x ast.Node) bool {
					switch e := x.(type) {
					case *ast.FuncLit:
						return false
					case *ast.IndexExpr:
						if _, isMap := pi.pkg.TypesInfo.TypeOf(e.X).Underlying().(*types.Map); !isMap {
							found = true
						}
					case *ast.SliceExpr:
						found = true
					case *ast.TypeAssertExpr:
						found = true // the comma-ok form is told apart below
					case *ast.BinaryExpr:
						if e.Op == token.QUO || e.Op == token.REM {
							found = true
						}
					case *ast.CallExpr:
						if id, ok := e.Fun.(*ast.Ident); ok {
							if id.Name == "panic" {
								found = true
							}
							if fn, ok := pi.pkg.TypesInfo.Uses[id].(*types.Func); ok && fn.Pkg() == pi.pkg.Types && translated[fn.Name()] && pn == "client" {
								found = true
							}
						}
						if se, ok := e.Fun.(*ast.SelectorExpr); ok {
							if sel := pi.pkg.TypesInfo.Selections[se]; sel != nil && sel.Kind() == types.MethodVal && pn == "client" {
								if translated[recvTypeName(sel.Recv())+"."+se.Sel.Name] {
									found = true
								}
							}
						}
					}
					return !found
				})
				return found
			}
			add := func(nd ast.Node) {
				if nd == nil || !inSpan(nd.Pos()) || !canPanic(nd) {
					return
				}
				var sb strings.Builder
				printerFprint(&sb, pi, nd)
				txt := strings.Join(strings.Fields(sb.String()), " ")
				sites = append(sites, fmt.Sprintf("(%s, %s)", coqStr(n), coqStr(txt)))
			}
			ast.Inspect(fd.Body, func(nd ast.Node) bool {
				switch s := nd.(type) {
				case *ast.FuncLit:
					return false
				case *ast.AssignStmt:
					if len(s.Rhs) == 1 {
						if ta, ok := s.Rhs[0].(*ast.TypeAssertExpr); ok && len(s.Lhs) == 2 {
							add(ta.X) // v, ok := x.(T) does not panic
							return false
						}
					}
					add(s)
					return false
				case *ast.ExprStmt, *ast.IncDecStmt, *ast.SendStmt, *ast.ReturnStmt, *ast.GoStmt:
					add(s)
					return false
				case *ast.IfStmt:
					add(s.Cond)
				case *ast.ForStmt:
					if s.Cond != nil {
						add(s.Cond)
					}
				case *ast.RangeStmt:
					add(s.X)
				case *ast.SwitchStmt:
					if s.Tag != nil {
						add(s.Tag)
					}
				case *ast.CaseClause:
					for _, e := range s.List {
						add(e)
					}
				}
				return true
			})
		}
		fmt.Fprintf(&b, "Definition lock_panic_sites_%s : list (string * string) :=\n  [%s].\n\n", pn, strings.Join(sites, ";\n   "))
	}
	return b.String()
}

// ---------------------------------------------------------------------------------------
// stage 6 (d): where package client dials, and what it passes as the address.
//
//	dial_sites_client    every call x.Dial / x.DialContext / x.DialTimeout: (function, callee, address argument)
//	server_writes_client every assignment to a cfg.Server field: (function, right-hand side)
//	dial_seq_client      for the function holding the hasPort if-statement, in source order:
//	                     ("addr", condition) for that statement, ("dial", callee) for a dial call,
//	                     ("call", callee) for a call of a function of the package that contains a dial call
func dialFacts(pkgs map[string]*pkgInfo) string {
	var b strings.Builder
	b.WriteString("(* GENERATED from the Go source by /verif/translator (go2coq2.go: dialFacts) on every check run — do not edit.\n")
	b.WriteString("   dial_sites_client: every call of a method Dial / DialContext / DialTimeout in package client:\n")
	b.WriteString("   (function, callee, address argument = the last argument).  server_writes_client: every assignment\n")
	b.WriteString("   to a field path ending in cfg.Server: (function, right-hand side).  dial_seq_client: for the function\n")
	b.WriteString("   with the top-level if-statement on hasPort, in source order: that statement (addr, condition), the dial\n")
	b.WriteString("   calls (dial, callee) and the calls of package functions that contain a dial call (call, callee). *)\n")
	b.WriteString("From Coq Require Import String List.\nImport ListNotations.\nLocal Open Scope string_scope.\n\n")
	pi := pkgs["client"]
	if pi == nil {
		return b.String()
	}
	q := func(s string) string { return "\"" + strings.ReplaceAll(s, "\"", "\"\"") + "\"" }
	var names []string
	for n := range pi.funcs {
		if strings.HasPrefix(n, "Verif") || strings.Contains(n, ".Verif") {
			continue
		}
		names = append(names, n)
	}
	sortStrings(names)
	isDial := func(c *ast.CallExpr) bool {
		se, ok := c.Fun.(*ast.SelectorExpr)
		return ok && (se.Sel.Name == "Dial" || se.Sel.Name == "DialContext" || se.Sel.Name == "DialTimeout") && len(c.Args) > 0
	}
	var sites, writes []string
	dials := map[string]bool{} // functions containing a dial call
	for _, n := range names {
		fd := pi.funcs[n]
		if fd.Body == nil {
			continue
		}
		ast.Inspect(fd.Body, func(nd ast.Node) bool {
			switch x := nd.(type) {
			case *ast.CallExpr:
				if isDial(x) {
					dials[fd.Name.Name] = true
					sites = append(sites, "("+q(n)+", "+q(exprText(pi, x.Fun))+", "+q(exprText(pi, x.Args[len(x.Args)-1]))+")")
				}
			case *ast.AssignStmt:
				for i, l := range x.Lhs {
					if strings.HasSuffix(exprText(pi, l), "cfg.Server") {
						r := "?"
						if len(x.Rhs) == len(x.Lhs) {
							r = exprText(pi, x.Rhs[i])
						}
						writes = append(writes, "("+q(n)+", "+q(r)+")")
					}
				}
			}
			return true
		})
	}
	var seq []string
	for _, n := range names {
		fd := pi.funcs[n]
		if fd.Body == nil {
			continue
		}
		var addr *ast.IfStmt
		for _, st := range fd.Body.List {
			if ifs, ok := st.(*ast.IfStmt); ok && strings.Contains(exprText(pi, ifs.Cond), "hasPort(") {
				addr = ifs
			}
		}
		if addr == nil {
			continue
		}
		ast.Inspect(fd.Body, func(nd ast.Node) bool {
			switch x := nd.(type) {
			case *ast.IfStmt:
				if x == addr {
					seq = append(seq, "("+q("addr")+", "+q(exprText(pi, x.Cond))+")")
				}
			case *ast.CallExpr:
				if isDial(x) {
					seq = append(seq, "("+q("dial")+", "+q(exprText(pi, x.Fun))+")")
				} else if se, ok := x.Fun.(*ast.SelectorExpr); ok && dials[se.Sel.Name] {
					seq = append(seq, "("+q("call")+", "+q(exprText(pi, x.Fun))+")")
				} else if id, ok := x.Fun.(*ast.Ident); ok && dials[id.Name] {
					seq = append(seq, "("+q("call")+", "+q(id.Name)+")")
				}
			}
			return true
		})
	}
	list := func(name, ty string, xs []string) {
		fmt.Fprintf(&b, "Definition %s : list (%s) :=\n  [%s].\n\n", name, ty, strings.Join(xs, ";\n   "))
	}
	list("dial_sites_client", "string * string * string", sites)
	list("server_writes_client", "string * string", writes)
	list("dial_seq_client", "string * string", seq)
	return b.String()
}
