(* modelrun.ml — property-independent driver for the extracted Coq model.
   usage: modelrun <property id> < cases.txt
   each input line:  <hex field> ... | <hex field> ...     ("-" is the empty field)
   each output line: <oracle 0/1> <agree 0/1> <model fields in hex>
   All decoding of fields into numbers / structures happens inside Gallina (coq/Entry). *)
open Model

let rec pos_of_int n = if n = 1 then XH else if n land 1 = 1 then XI (pos_of_int (n lsr 1)) else XO (pos_of_int (n lsr 1))
let n_of_int n = if n = 0 then N0 else Npos (pos_of_int n)
let rec int_of_pos = function XH -> 1 | XO p -> 2 * int_of_pos p | XI p -> 2 * int_of_pos p + 1
let int_of_n = function N0 -> 0 | Npos p -> int_of_pos p

let hexval c = match c with
  | '0'..'9' -> Char.code c - 48 | 'a'..'f' -> Char.code c - 87 | 'A'..'F' -> Char.code c - 55
  | _ -> failwith "bad hex"
let bytes_of_hex s =
  if s = "-" then [] else begin
    let n = String.length s / 2 in
    let rec go i acc = if i < 0 then acc
      else go (i - 1) (n_of_int (hexval s.[2*i] * 16 + hexval s.[2*i+1]) :: acc) in
    go (n - 1) [] end
let hex_of_bytes l =
  if l = [] then "-" else begin
    let b = Buffer.create 64 in
    List.iter (fun x -> Buffer.add_string b (Printf.sprintf "%02x" (int_of_n x land 255))) l;
    Buffer.contents b end

let split_ws s = List.filter (fun x -> x <> "") (String.split_on_char ' ' s)

let () =
  (* the extracted code allocates heavily through deep non-tail recursion (List.app on 4-70 kB
     lines): a large minor heap avoids most of the minor-collection root scanning *)
  Gc.set { (Gc.get ()) with Gc.minor_heap_size = 8 * 1024 * 1024; Gc.space_overhead = 200 };
  let id = Sys.argv.(1) in
  let idb = List.init (String.length id) (fun i -> n_of_int (Char.code id.[i])) in
  let e = try List.assoc idb all_entries with Not_found -> (prerr_endline ("unknown property " ^ id); exit 2) in
  (try while true do
    let line = input_line stdin in
    if line <> "" then begin
      let (a, b) = match String.index_opt line '|' with
        | Some k -> (String.sub line 0 k, String.sub line (k+1) (String.length line - k - 1))
        | None -> (line, "") in
      let inp = List.map bytes_of_hex (split_ws a) and obs = List.map bytes_of_hex (split_ws b) in
      let m = e.e_model inp in
      let ag = e.e_agree inp obs and orc = e.e_oracle inp obs in
      print_string (if orc then "1 " else "0 ");
      print_string (if ag then "1" else "0");
      List.iter (fun f -> print_char ' '; print_string (hex_of_bytes f)) m;
      print_newline ()
    end
  done with End_of_file -> ())
