package main

// C18: registration and keep-alive follow the protocol.
//
// kind "reg":   a fresh client per configuration; record the address handed to the in-memory
//               dialer and (non-SSL) the first lines on the wire up to and including USER.  With
//               SSL the server end is closed at once: Connect fails in the TLS handshake, only
//               the dial address is observed.
// kind "pong":  one session; per item a line from the server (PING in several shapes, or other
//               traffic), then the marker "PING :~~m<k>~~"; the PONG lines written before the
//               marker's PONG are the item's observation.
// kind "pings": PingFreq as given; count the client's own "PING :<payload>" lines in a window.
//
// input / observation layout: see coq/Entry/EntryC18.v

import (
	"bufio"
	"fmt"
	"net"
	"net/url"
	"runtime"
	"strings"
	"sync"
	"sync/atomic"
	"time"

	"github.com/fluffle/goirc/client"
	"golang.org/x/net/proxy"
)

func init() {
	props["C18"] = &Prop{Gen: c18Gen, Exec: c18Exec, Class: c18Class}
}

var (
	c18KeySeq  int64
	c18Cache   = map[string]Fields{}
	c18CacheMu sync.Mutex
)

func c18Exec(in Fields) Fields {
	key := in.String()
	c18CacheMu.Lock()
	if o, ok := c18Cache[key]; ok {
		delete(c18Cache, key)
		c18CacheMu.Unlock()
		return o
	}
	c18CacheMu.Unlock()
	return c18Run(in)
}

func c18Run(in Fields) Fields {
	switch in.S(0) {
	case "reg":
		return c18Reg(in)
	case "pong":
		return c18Pong(in)
	case "pings":
		return c18Pings(in)
	case "busy":
		return c18Busy(in)
	}
	return F("<<BAD-KIND>>")
}

// a proxy dialer WITHOUT DialContext: dialProxy then takes its conn.proxyDialer.Dial branch
type c18DialOnly struct{ key string }

func (d c18DialOnly) Dial(network, addr string) (net.Conn, error) {
	return memDialer{key: d.key}.Dial(network, addr)
}

var c18Once sync.Once

func c18ProxyURL(ms *MemServer, variant string) string {
	if variant != "dial" {
		return ms.URL()
	}
	c18Once.Do(func() {
		proxy.RegisterDialerType("c18dial", func(u *url.URL, _ proxy.Dialer) (proxy.Dialer, error) {
			return c18DialOnly{key: u.Host}, nil
		})
	})
	return "c18dial://" + ms.Key
}

func c18Server() *MemServer {
	return NewMemServer(fmt.Sprintf("c18-%d", atomic.AddInt64(&c18KeySeq, 1)))
}

func c18Drop(ms *MemServer) {
	memMu.Lock()
	delete(memServers, ms.Key)
	memMu.Unlock()
}

func c18Close(srv net.Conn, conn *client.Conn) {
	if srv != nil {
		srv.Close()
	}
	done := make(chan struct{})
	go func() { conn.Close(); close(done) }()
	select {
	case <-done:
	case <-time.After(5 * time.Second):
	}
}

// ---------- reg ----------
func c18Reg(in Fields) Fields {
	nick, ident, name, pass := in.S(1), in.S(2), in.S(3), in.S(4)
	neg, ssl, server := in.S(5) == "t", in.S(6) == "t", in.S(7)
	var freq int64
	fmt.Sscanf(in.S(8), "%d", &freq)
	ms := c18Server()
	defer c18Drop(ms)
	cfg := client.NewConfig(nick, ident, name)
	cfg.Server = server
	cfg.Pass = pass
	cfg.Proxy = c18ProxyURL(ms, in.S(9))
	cfg.Flood = true
	cfg.PingFreq = time.Duration(freq)
	cfg.EnableCapabilityNegotiation = neg
	cfg.SSL = ssl
	conn := client.Client(cfg)
	errc := make(chan error, 1)
	if in.S(9) == "again" && !ssl {
		// variant "again": a first connection is made with Connect(), registered and closed; the
		// OBSERVED registration is the second one, made with ConnectTo(<the server as configured>)
		// and no password argument: it must offer the same PASS/NICK/USER to the same address
		e1 := make(chan error, 1)
		go func() { e1 <- conn.Connect() }()
		select {
		case s1 := <-ms.Conns:
			select {
			case <-ms.Addrs:
			default:
			}
			select {
			case <-e1:
			case <-time.After(10 * time.Second):
			}
			rd1 := bufio.NewReaderSize(s1, 1<<16)
			s1.SetReadDeadline(time.Now().Add(5 * time.Second))
			for {
				l, err := rd1.ReadString('\n')
				if err != nil || strings.HasPrefix(l, "USER") {
					break
				}
			}
			c18Close(s1, conn)
		case <-time.After(10 * time.Second):
			return F("<<NO-CONNECT-1>>")
		}
		go func() { errc <- conn.ConnectTo(server) }()
	} else {
		go func() { errc <- conn.Connect() }()
	}
	var srv net.Conn
	failed := false
	select {
	case srv = <-ms.Conns:
	case err := <-errc:
		// Connect may already have failed (the TLS handshake refuses a nil SSLConfig before any
		// I/O): the dial has happened all the same
		failed = err != nil
		errc <- err // keep it for the receive below
		select {
		case srv = <-ms.Conns:
		default:
			return F("<<NO-DIAL>>", fmt.Sprint(err))
		}
	case <-time.After(10 * time.Second):
		return F("<<NO-CONNECT>>")
	}
	addr := ""
	select {
	case addr = <-ms.Addrs:
	default:
		addr = "<<NO-ADDR>>"
	}
	if ssl {
		srv.Close() // no handshake against the in-memory peer: Connect fails, nothing else to see
		select {
		case <-errc:
		case <-time.After(10 * time.Second):
			return F(addr, "<<CONNECT-HANGS>>")
		}
		return F(addr, 0)
	}
	_ = failed
	if err := <-errc; err != nil {
		srv.Close()
		return F(addr, "<<CONNECT-ERROR>>", err.Error())
	}
	rd := bufio.NewReaderSize(srv, 1<<16)
	var lines []string
	srv.SetReadDeadline(time.Now().Add(10 * time.Second))
	for {
		s, err := rd.ReadString('\n')
		if err != nil {
			lines = append(lines, "<<NO-USER>>"+s)
			break
		}
		s = strings.TrimSuffix(s, "\r\n")
		lines = append(lines, s)
		if strings.HasPrefix(s, "USER ") || s == "USER" {
			break
		}
	}
	c18Close(srv, conn)
	return F(addr, len(lines), lines)
}

// ---------- pong ----------
func c18ItemLine(form, payload string) string {
	switch form {
	case "t":
		return "PING :" + payload
	case "m":
		return "PING " + payload
	case "s":
		return ":irc.example PING :" + payload
	case "u":
		return ":nick!user@host.example PING :" + payload
	}
	return payload
}

func c18Pong(in Fields) Fields {
	n := in.I(1)
	ms := c18Server()
	defer c18Drop(ms)
	cfg := client.NewConfig("vbot", "vident", "v name")
	cfg.Server = "irc.example"
	cfg.Proxy = ms.URL()
	cfg.Flood = true
	cfg.PingFreq = 0
	conn := client.Client(cfg)
	errc := make(chan error, 1)
	go func() { errc <- conn.Connect() }()
	var srv net.Conn
	select {
	case srv = <-ms.Conns:
	case <-time.After(10 * time.Second):
		return F("<<NO-CONNECT>>")
	}
	if err := <-errc; err != nil {
		return F("<<CONNECT-ERROR>>", err.Error())
	}
	rd := bufio.NewReaderSize(srv, 1<<16)
	step := func(k int, msg string) []string {
		out := msg + fmt.Sprintf("PING :~~m%d~~\r\n", k)
		go func() {
			srv.SetWriteDeadline(time.Now().Add(10 * time.Second))
			srv.Write([]byte(out))
		}()
		want := fmt.Sprintf("PONG :~~m%d~~", k)
		var pongs []string
		srv.SetReadDeadline(time.Now().Add(10 * time.Second))
		for {
			s, err := rd.ReadString('\n')
			if err != nil {
				pongs = append(pongs, "PONG <<NO-MARKER>>"+s)
				break
			}
			s = strings.TrimSuffix(s, "\r\n")
			if s == want {
				break
			}
			if s == "PONG" || strings.HasPrefix(s, "PONG ") {
				pongs = append(pongs, s)
			}
		}
		return pongs
	}
	step(0, "") // registration
	var obs Fields
	for k := 0; k < n; k++ {
		form, payload := in.S(2+2*k), in.S(3+2*k)
		pongs := step(k+1, c18ItemLine(form, payload)+"\r\n")
		obs = append(obs, F(len(pongs), pongs)...)
	}
	c18Close(srv, conn)
	return obs
}

// ---------- busy ----------
// a foreground handler blocks the event loop; meanwhile the server writes one PING per token (more
// than conn.in holds), then the handler is released: every PING must be answered, in order
func c18Busy(in Fields) Fields {
	n := in.I(1)
	ms := c18Server()
	defer c18Drop(ms)
	cfg := client.NewConfig("vbot", "vident", "v name")
	cfg.Server = "irc.example"
	cfg.Proxy = ms.URL()
	cfg.Flood = true
	cfg.PingFreq = 0
	conn := client.Client(cfg)
	entered := make(chan struct{}, 4)
	release := make(chan struct{})
	conn.HandleFunc("PRIVMSG", func(*client.Conn, *client.Line) {
		entered <- struct{}{}
		<-release
	})
	errc := make(chan error, 1)
	go func() { errc <- conn.Connect() }()
	var srv net.Conn
	select {
	case srv = <-ms.Conns:
	case <-time.After(10 * time.Second):
		return F("<<NO-CONNECT>>")
	}
	if err := <-errc; err != nil {
		return F("<<CONNECT-ERROR>>", err.Error())
	}
	var sb strings.Builder
	sb.WriteString(":x!y@z PRIVMSG vbot :block\r\n")
	for k := 0; k < n; k++ {
		sb.WriteString("PING :" + in.S(2+k) + "\r\n")
	}
	sb.WriteString("PING :~~end~~\r\n")
	go func() {
		srv.SetWriteDeadline(time.Now().Add(20 * time.Second))
		srv.Write([]byte(sb.String()))
	}()
	rd := bufio.NewReaderSize(srv, 1<<16)
	pongs := []string{}
	got := make(chan string, 1024)
	go func() {
		srv.SetReadDeadline(time.Now().Add(20 * time.Second))
		for {
			s, err := rd.ReadString('\n')
			if err != nil {
				got <- "PONG <<NO-END>>" + s
				close(got)
				return
			}
			s = strings.TrimSuffix(s, "\r\n")
			if s == "PONG :~~end~~" {
				close(got)
				return
			}
			if s == "PONG" || strings.HasPrefix(s, "PONG ") {
				got <- s
			}
		}
	}()
	select {
	case <-entered:
	case <-time.After(10 * time.Second):
		pongs = append(pongs, "PONG <<HANDLER-NOT-ENTERED>>")
	}
	time.Sleep(60 * time.Millisecond) // let recv fill the input queue and block behind it
	close(release)
	for s := range got {
		pongs = append(pongs, s)
	}
	c18Close(srv, conn)
	return F(len(pongs), pongs)
}

// ---------- pings ----------
func c18Pings(in Fields) Fields {
	var freq int64
	fmt.Sscanf(in.S(1), "%d", &freq)
	window := time.Duration(in.I(2)) * time.Millisecond
	ms := c18Server()
	defer c18Drop(ms)
	cfg := client.NewConfig("vbot", "vident", "v name")
	cfg.Server = "irc.example"
	cfg.Proxy = ms.URL()
	cfg.Flood = true
	cfg.PingFreq = time.Duration(freq)
	conn := client.Client(cfg)
	// optional 4th field: number of earlier connections of the SAME client (each registered,
	// then closed) before the measured one: keep-alive belongs to every connection
	rounds := 0
	if len(in) > 3 {
		rounds = in.I(3)
	}
	var srv net.Conn
	var start time.Time
	for k := 0; k <= rounds; k++ {
		errc := make(chan error, 1)
		go func() { errc <- conn.Connect() }()
		select {
		case srv = <-ms.Conns:
		case <-time.After(10 * time.Second):
			return F("<<NO-CONNECT>>")
		}
		start = time.Now()
		if err := <-errc; err != nil {
			return F("<<CONNECT-ERROR>>", err.Error())
		}
		if k < rounds {
			rd := bufio.NewReaderSize(srv, 1<<16)
			srv.SetReadDeadline(time.Now().Add(10 * time.Second))
			for {
				s, err := rd.ReadString('\n')
				if err != nil || strings.HasPrefix(s, "USER ") {
					break
				}
			}
			time.Sleep(time.Duration(5*k) * time.Millisecond)
			c18Close(srv, conn)
		}
	}
	if len(in) > 4 && in.S(4) == "busy" && freq > 0 {
		// a talkative server: a line from it every third of PingFreq for the whole window
		// (keep-alive is periodic "exactly when PingFreq is positive", whatever else arrives)
		every := time.Duration(freq) / 3
		if every < 3*time.Millisecond {
			every = 3 * time.Millisecond
		}
		stopChat := make(chan struct{})
		defer close(stopChat)
		go func(srv net.Conn) {
			for k := 0; ; k++ {
				select {
				case <-stopChat:
					return
				case <-time.After(every):
				}
				srv.SetWriteDeadline(time.Now().Add(2 * time.Second))
				line := ":irc.example NOTICE vbot :chatter\r\n"
				if k%4 == 3 {
					line = "PING :srv-" + fmt.Sprint(k) + "\r\n"
				}
				if _, err := srv.Write([]byte(line)); err != nil {
					return
				}
			}
		}(srv)
	}
	rd := bufio.NewReaderSize(srv, 1<<16)
	count, wellformed := 0, true
	srv.SetReadDeadline(start.Add(window))
	for {
		s, err := rd.ReadString('\n')
		if err != nil {
			break
		}
		s = strings.TrimSuffix(s, "\r\n")
		if s == "PING" || strings.HasPrefix(s, "PING ") {
			count++
			p := strings.TrimPrefix(s, "PING :")
			if p == s || p == "" {
				wellformed = false
			}
			for i := 0; i < len(p); i++ {
				if p[i] < '0' || p[i] > '9' {
					wellformed = false
				}
			}
		}
	}
	elapsed := time.Since(start)
	c18Close(srv, conn)
	return F(count > 0, wellformed, count, int(elapsed/time.Millisecond)+1)
}

func c18Class(in Fields) string {
	switch in.S(0) {
	case "reg":
		cls := "reg"
		if in.S(6) == "t" {
			cls += ":ssl"
		} else {
			cls += ":plain"
		}
		if strings.Contains(in.S(7), ":") {
			cls += ":port-or-v6"
		} else {
			cls += ":noport"
		}
		if in.S(9) == "dial" {
			cls += ":dial-only"
		}
		return cls
	case "pong":
		return "pong"
	case "busy":
		return "busy"
	case "pings":
		var freq int64
		fmt.Sscanf(in.S(1), "%d", &freq)
		switch {
		case freq > 0:
			return "pings:positive"
		case freq == 0:
			return "pings:zero"
		}
		return "pings:negative"
	}
	return "?"
}

// ---------- generation ----------
func c18RegInput(nick, ident, name, pass string, neg, ssl bool, server string, freq int64) Fields {
	return F("reg", nick, ident, name, pass, neg, ssl, server, freq, "ctx")
}

var c18TokAlpha = []byte("abcdefghijklmnopqrstuvwxyzABCXYZ0123456789 :!@#$%^&*()-_=+[]{};'\",.<>/?\\|`~\x01\x7f\x80\xfe\xff\t")

func c18Token(r *Rand) string {
	var t string
	switch r.Intn(12) {
	case 0:
		t = "" // empty but present
	case 1:
		t = string(r.Bytes(r.Range(300, 480), c18TokAlpha)) // very long
		if r.Chance(40) { // beyond 512 bytes and beyond bufio's 4096-byte buffers
			t = string(r.Bytes([]int{498, 503, 504, 505, 506, 510, 512, 600, 1024, 4090, 4100, 6000}[r.Intn(12)], c18TokAlpha))
		}
	case 2:
		t = ":" + string(r.Bytes(r.Intn(6), c18TokAlpha))
	case 3:
		t = string(r.Bytes(r.Range(1, 5), c18TokAlpha)) + " :" + string(r.Bytes(r.Range(0, 5), c18TokAlpha))
	case 4:
		t = fmt.Sprintf("%d", r.U64()) // what servers really send
	case 5:
		t = "irc.example"
	case 6:
		t = r.Pick([]string{" ", "  ", " x", "x ", "::", ": :", "PONG :x", "~~m"})
	default:
		t = string(r.Bytes(r.Range(1, 24), c18TokAlpha))
	}
	if strings.HasPrefix(t, "~~m") {
		t = "x" + t
	}
	return t
}

func c18MiddleOK(t string) bool {
	if t == "" || t[0] == ':' {
		return false
	}
	for i := 0; i < len(t); i++ {
		switch t[i] {
		case 0, 9, 10, 11, 12, 13, 32:
			return false
		}
	}
	return true
}

var c18Other = []string{
	":irc.example NOTICE vbot :hello", ":x!y@z PRIVMSG vbot :PING :not a ping", ":x!y@z PRIVMSG vbot :\x01VERSION\x01",
	":x!y@z PRIVMSG vbot :\x01PING 12345\x01", ":irc.example PONG irc.example :tok", ":irc.example 372 vbot :- PING :motd",
	"PING", ":irc.example PING", "PING :", "ping :lower", ":irc.example pInG mixed", "PING a b", "PING a :b c", "@t=1 PING :tagged",
	"ERROR :PING", ":irc.example 001 vbot :Welcome vbot!u@h", "", ":", "PINGX :x", " PING :lead",
}

func c18PongCase(r *Rand, items int) Fields {
	f := F("pong", items)
	for k := 0; k < items; k++ {
		switch {
		case r.Chance(25):
			f = append(f, F("r", r.Pick(c18Other))...)
		default:
			t := c18Token(r)
			form := r.Pick([]string{"t", "t", "s", "u", "m"})
			if form == "m" && !c18MiddleOK(t) {
				if r.Chance(70) {
					form = "t"
				}
			}
			f = append(f, F(form, t)...)
		}
	}
	return f
}

func c18Gen(r *Rand, tier string, scale int, emit func(in Fields)) {
	var ins []Fields
	// 1. reg: the full product
	nicks := []string{"vbot", "", "n\rx"}
	idents := []string{"vident", ""}
	names := []string{"v name", "na\r\nme"}
	passes := []string{"", "pw", "p w :x", "p\nw"}
	servers := []string{"irc.example", "irc.example:7000", "10.1.2.3", "[::1]:6697"}
	for _, nick := range nicks {
		for _, ident := range idents {
			for _, name := range names {
				for _, pass := range passes {
					for _, neg := range []bool{false, true} {
						for _, ssl := range []bool{false, true} {
							for _, server := range servers {
								freq := int64(0)
								if (len(ins)+len(pass))%3 == 0 {
									freq = int64(3 * time.Minute)
								}
								ins = append(ins, c18RegInput(nick, ident, name, pass, neg, ssl, server, freq))
							}
						}
					}
				}
			}
		}
	}
	// the same addresses through a proxy dialer that has no DialContext (dialProxy's other branch)
	for _, server := range servers {
		for _, ssl := range []bool{false, true} {
			for _, neg := range []bool{false, true} {
				in := c18RegInput("vbot", "vident", "v name", "pw", neg, ssl, server, 0)
				in[9] = []byte("dial")
				ins = append(ins, in)
			}
		}
	}
	// the observed registration is the client's second one, through ConnectTo(server)
	for _, server := range []string{"irc.example", "irc.example:7000", "10.1.2.3"} {
		for _, pass := range []string{"pw", "", "p w :x"} {
			for _, neg := range []bool{false, true} {
				in := c18RegInput("vbot", "vident", "v name", pass, neg, false, server, 0)
				in[9] = []byte("again")
				ins = append(ins, in)
			}
		}
	}
	for _, server := range []string{"h", "[::1]", "::1", "host:"} {
		in := c18RegInput("vbot", "vident", "v name", "", false, false, server, 0)
		in[9] = []byte("dial")
		ins = append(ins, in)
	}
	// odd servers and odd fields (IPv6 literals are outside the claim: agreement with the model only)
	for _, server := range []string{"::1", "[::1]", "[fe80::1%eth0]", "[fe80::1%eth0]:6667", "host:", ":6667", "a:b:c", "host]:1", "[host", "h", "irc.example:ircd", "x y"} {
		for _, ssl := range []bool{false, true} {
			ins = append(ins, c18RegInput("vbot", "vident", "v name", "", false, ssl, server, -1))
		}
	}
	for i := 0; i < 60; i++ {
		al := []byte("ab :\r\n_9")
		ins = append(ins, c18RegInput(string(r.Bytes(r.Range(0, 5), al)), string(r.Bytes(r.Range(0, 5), al)), string(r.Bytes(r.Range(0, 8), al)),
			string(r.Bytes(r.Range(0, 6), al)), r.Bool(), false, r.Pick(servers), []int64{0, -5, 180000000000}[r.Intn(3)]))
	}
	// 2. pong: about 2000 tokens (thorough 20000) in sessions of 40 items
	sessions := 66
	if tier == "thorough" {
		sessions = 660
	}
	for i := 0; i < sessions; i++ {
		ins = append(ins, c18PongCase(r.Fork(), 40))
	}
	// 2b. busy: 40 (and 31..34, 64, 100) PINGs while a foreground handler blocks the event loop
	for _, n := range []int{40, 40, 31, 32, 33, 34, 64, 100} {
		f := F("busy", n)
		for k := 0; k < n; k++ {
			t := fmt.Sprintf("b%d-%d", len(ins), k)
			if k%7 == 3 {
				t = c18Token(r)
			}
			f = append(f, []byte(t))
		}
		ins = append(ins, f)
	}
	// 3. pings
	reps := 2
	window := 200
	if tier == "thorough" {
		reps, window = 6, 600
	}
	for i := 0; i < reps; i++ {
		for _, freq := range []int64{0, -1, -int64(time.Second), int64(30 * time.Millisecond), int64(45 * time.Millisecond)} {
			ins = append(ins, F("pings", freq, window+i)) // +i keeps the inputs distinct
		}
		// the measured connection is the client's second or third one
		ins = append(ins, F("pings", int64(30*time.Millisecond), window+i, 1+i%2), F("pings", int64(0), window+i, 1))
		// the same against a server that keeps talking
		ins = append(ins, F("pings", int64(30*time.Millisecond), window+i, 0, "busy"), F("pings", int64(45*time.Millisecond), window+i, 1, "busy"))
	}
	// parallel execution (own client and socket per case), emitted in order
	workers := runtime.NumCPU()
	if workers > 8 {
		workers = 8
	}
	jobs := make(chan Fields, 64)
	var wg sync.WaitGroup
	for w := 0; w < workers; w++ {
		wg.Add(1)
		go func() {
			defer wg.Done()
			for in := range jobs {
				o := c18Run(in)
				c18CacheMu.Lock()
				c18Cache[in.String()] = o
				c18CacheMu.Unlock()
			}
		}()
	}
	seen := map[string]bool{}
	for _, in := range ins {
		if !seen[in.String()] {
			seen[in.String()] = true
			jobs <- in
		}
	}
	close(jobs)
	wg.Wait()
	for _, in := range ins {
		emit(in)
	}
}
