package main

import (
	"bufio"
	"fmt"
	"io"
	"net"
	"runtime"
	"strings"
	"sync"
	"sync/atomic"
	"time"

	"github.com/fluffle/goirc/client"
)

// C05: with state tracking enabled every user handler for line k sees a tracker that already
// reflects line k, a foreground one sees no later line.  Script: 001, our own JOIN of #c, then
// TOPIC / 332 / MODE +k lines whose effect on the tracker is the line's serial.
func init() {
	props["C05"] = &Prop{Gen: c05Gen, Exec: c05Exec, Class: dspClass}
}

func c05Gen(r *Rand, tier string, scale int, emit func(Fields)) {
	if scale == 0 {
		scale = 40
	}
	for n := 0; n < scale; n++ {
		o := dspGenOpt{track: true, ends: n%4 == 3}
		c := dspGenCase(r, o, n < 3)
		if n%3 == 1 {
			c.late = true // EnableStateTracking() AFTER Connect(), before the traffic
		}
		emit(c.encode())
	}
	// "storm" sessions (seeded C05-9: a completion counter in hSet.dispatch that can reach 0
	// before every handler is counted, seen once in 15k..300k dispatches): tens of thousands of
	// NICK lines renaming US, the one verb with TWO internal handlers (h_NICK + h_STNICK), two
	// foreground handlers and one background handler reading StateTracker().Me().Nick.
	storms, per := 6, 60000
	if tier == "thorough" {
		storms = 40
	}
	for n := 0; n < storms; n++ {
		emit(F(16, 1, 0, 0, 0, 0, 0, 0, 0, int(r.U64()%1000000007), 0, 0, 0, 0, "storm", per))
	}
}

func c05Exec(in Fields) Fields {
	if len(in) == 16 && in.S(14) == "storm" {
		return c05Storm(in)
	}
	return dspRunChild(in)
}

// c05Storm: 001 is line 0 (nick "me"), line k = 1..N is ":<cur>!i@h NICK s<k>".  The tracker
// reflects line j exactly when Me().Nick is "s<j>": sample a = j+1 (a = 1 for "me").  The log
// keeps the events of the first 12 lines and EVERY event whose sample the monitor chk5 rejects
// (foreground: a <> k+1, background: a < k+1), at most 200: C05_ok judges each event by itself.
func c05Storm(in Fields) Fields {
	n := in.I(15)
	if n > 65000 {
		n = 65000
	}
	old := runtime.GOMAXPROCS(in.I(0))
	defer runtime.GOMAXPROCS(old)
	dspKeySeq++
	ms := NewMemServer(fmt.Sprintf("storm%d", dspKeySeq))
	cfg := client.NewConfig("me", "ident", "name")
	cfg.Server = "irc.example"
	cfg.Proxy = ms.URL()
	cfg.PingFreq = 0
	cfg.Flood = true
	conn := client.Client(cfg)
	conn.EnableStateTracking()
	var mu sync.Mutex
	var evs []dspEvent
	var bgLive int64
	sample := func() int {
		nk := conn.StateTracker().Me().Nick
		if nk == "me" {
			return 1
		}
		return dspAtoi(strings.TrimPrefix(nk, "s")) + 1
	}
	h := func(kind, i int) client.HandlerFunc {
		return func(c *client.Conn, line *client.Line) {
			if kind == dspKBg {
				defer atomic.AddInt64(&bgLive, -1)
			}
			if len(line.Args) < 1 || !strings.HasPrefix(line.Args[0], "s") {
				return
			}
			k := dspAtoi(line.Args[0][1:])
			for tag := 0; tag < 2; tag++ {
				a := sample()
				bad := a != k+1
				if kind == dspKBg {
					bad = a < k+1
				}
				if k <= 12 || bad {
					mu.Lock()
					if len(evs) < 200 {
						evs = append(evs, dspEvent{tag, kind, k, i, a})
					}
					mu.Unlock()
				}
			}
		}
	}
	conn.HandleFunc("NICK", h(dspKFg, 0))
	conn.HandleFunc("NICK", h(dspKFg, 1))
	conn.HandleBG("NICK", client.HandlerFunc(func(c *client.Conn, l *client.Line) {
		atomic.AddInt64(&bgLive, 1)
		h(dspKBg, 0)(c, l)
	}))
	end := make(chan struct{})
	var endOnce sync.Once
	conn.HandleFunc("DSPEND", func(*client.Conn, *client.Line) { endOnce.Do(func() { close(end) }) })
	errc := make(chan error, 1)
	go func() { errc <- conn.Connect() }()
	var srv net.Conn
	select {
	case srv = <-ms.Conns:
	case <-time.After(5 * time.Second):
		return F("end:noconnect")
	}
	go io.Copy(io.Discard, srv)
	if err := <-errc; err != nil {
		return F("end:connecterr")
	}
	status := "ok"
	wdone := make(chan struct{})
	go func() {
		defer close(wdone)
		w := bufio.NewWriterSize(srv, 1<<16)
		fmt.Fprintf(w, ":irc.example 001 me :welcome\r\n")
		cur := "me"
		for k := 1; k <= n; k++ {
			fmt.Fprintf(w, ":%s!i@h NICK s%d\r\n", cur, k)
			cur = fmt.Sprintf("s%d", k)
		}
		fmt.Fprintf(w, "DSPEND\r\n")
		w.Flush()
	}()
	select {
	case <-end:
	case <-time.After(120 * time.Second):
		status = "storm-timeout"
	}
	for t := 0; t < 4000 && atomic.LoadInt64(&bgLive) > 0; t++ {
		time.Sleep(500 * time.Microsecond)
	}
	srv.Close()
	tdone := make(chan struct{})
	go func() { conn.Close(); close(tdone) }()
	select {
	case <-tdone:
	case <-time.After(5 * time.Second):
	}
	<-wdone
	mu.Lock()
	defer mu.Unlock()
	var obs Fields
	for _, e := range evs {
		obs = append(obs, []byte{byte(e.tag), byte(e.kind), byte(e.k >> 8), byte(e.k), byte(e.i), byte(e.a >> 8), byte(e.a)})
	}
	return append(obs, []byte("end:"+status))
}
