package main

// C05: with state tracking enabled every user handler for line k sees a tracker that already
// reflects line k, a foreground one sees no later line.  Script: 001, our own JOIN of #c, then
// TOPIC / 332 / MODE +k lines whose effect on the tracker is the line's serial.
func init() {
	props["C05"] = &Prop{Gen: c05Gen, Exec: dspRunChild, Class: dspClass}
}

func c05Gen(r *Rand, tier string, scale int, emit func(Fields)) {
	if scale == 0 {
		scale = 40
	}
	for n := 0; n < scale; n++ {
		o := dspGenOpt{track: true, ends: n%4 == 3}
		c := dspGenCase(r, o, n < 3)
		if n%3 == 1 {
			c.late = true // EnableStateTracking() AFTER Connect(), before the traffic
		}
		emit(c.encode())
	}
}
