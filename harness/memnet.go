package main

// An in-memory "IRC server" reachable through goirc's public API: a proxy dialer type
// "mem" is registered with golang.org/x/net/proxy, Config.Proxy = "mem://<key>" makes
// internalConnect hand us the dial address and take one end of a net.Pipe.

import (
	"context"
	"net"
	"net/url"
	"sync"

	"golang.org/x/net/proxy"
)

type MemServer struct {
	Key   string
	Conns chan net.Conn // server ends of accepted connections
	Addrs chan string   // addresses dialled
	Fail  error         // when non-nil, dialling fails with it
}

var (
	memMu      sync.Mutex
	memServers = map[string]*MemServer{}
	memOnce    sync.Once
)

type memDialer struct{ key string }

func (d memDialer) Dial(network, addr string) (net.Conn, error) {
	return d.DialContext(context.Background(), network, addr)
}
func (d memDialer) DialContext(ctx context.Context, network, addr string) (net.Conn, error) {
	memMu.Lock()
	s := memServers[d.key]
	memMu.Unlock()
	if s == nil {
		return nil, &net.OpError{Op: "dial", Net: "mem", Err: net.UnknownNetworkError(d.key)}
	}
	select {
	case s.Addrs <- addr:
	default:
	}
	if s.Fail != nil {
		return nil, s.Fail
	}
	c, srv := net.Pipe()
	s.Conns <- srv
	return c, nil
}

func NewMemServer(key string) *MemServer {
	memOnce.Do(func() {
		proxy.RegisterDialerType("mem", func(u *url.URL, _ proxy.Dialer) (proxy.Dialer, error) {
			return memDialer{key: u.Host}, nil
		})
	})
	s := &MemServer{Key: key, Conns: make(chan net.Conn, 64), Addrs: make(chan string, 64)}
	memMu.Lock()
	memServers[key] = s
	memMu.Unlock()
	return s
}

func (s *MemServer) URL() string { return "mem://" + s.Key }
