package main

// C03: foreground handlers see events one at a time, in wire order; CONNECTED / DISCONNECTED
// placement.  Sessions of 20..400 lines over 2..5 verbs (0..3 foreground, 0..2 background
// handlers each), a 001 line, the connection left up / ended by EOF / by a user Close().
func init() {
	props["C03"] = &Prop{Gen: c03Gen, Exec: dspRunChild, Class: dspClass}
}

func c03Gen(r *Rand, tier string, scale int, emit func(Fields)) {
	if scale == 0 {
		scale = 50
	}
	for n := 0; n < scale; n++ {
		o := dspGenOpt{ends: true, panics: n%5 == 4, parks: n%7 == 6}
		emit(dspGenCase(r, o, n < 3).encode())
	}
}
