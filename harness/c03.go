package main

// C03: foreground handlers see events one at a time, in wire order; CONNECTED / DISCONNECTED
// placement.  Every session has a line of 4097..12000 bytes (long trailing or long IRCv3 tag) whose
// handlers check that it arrived whole; a sixth of the sessions are of the kind "reconnect while
// closing" (endmode 3).  Sessions of 20..400 lines over 2..5 verbs (0..3 foreground, 0..2 background
// handlers each), a 001 line, the connection left up / ended by EOF / by a user Close().
func init() {
	props["C03"] = &Prop{Gen: c03Gen, Exec: dspRunChild, Class: dspClass}
}

func c03Gen(r *Rand, tier string, scale int, emit func(Fields)) {
	if scale == 0 {
		scale = 50
	}
	for n := 0; n < scale; n++ {
		o := dspGenOpt{ends: true, panics: n%5 == 4, parks: n%7 == 6}
		c := dspGenCase(r, o, n < 3)
		if n >= 3 {
			dspForceLong(c) // at least one line longer than the 4096-byte read buffer
		}
		if n%6 == 5 {
			dspMakeReconnect(r, c) // Close() and Connect() issued during a slow foreground handler
		}
		if n%5 == 2 {
			dspMakeBatch(c) // BATCH +ref, tagged and untagged lines interleaved, BATCH -ref
		}
		emit(c.encode())
	}
}
