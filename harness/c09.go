package main

import (
	"fmt"
	"runtime"
	"sync"
	"time"

	"github.com/fluffle/goirc/client"
)

// C09: n concurrent senders (user goroutines and foreground/background handlers) hand
// lines "<sender>:<seq>:<payload>" to Raw; the server end reads fast, byte-wise or in
// bursts; observation = every byte the server received.
func init() {
	props["C09"] = &Prop{
		Gen:  c09Gen,
		Exec: c09Exec,
		Class: func(in Fields) string {
			return fmt.Sprintf("senders=%d procs=%d pace=%d", in.I(0), in.I(1), in.I(2))
		},
	}
}

func c09Gen(r *Rand, tier string, scale int, emit func(Fields)) {
	if scale == 0 {
		scale = 30
	}
	senderChoices := []int{1, 2, 8, 64}
	procs := []int{1, 2, 4, 16}
	alphabet := []byte("abcdefghijklmnopqrstuvwxyzABCDEFGHIJKLMNOPQRSTUVWXYZ0123456789 .,:;!?#@%\\\"\x01\x00\xff")
	for c := 0; c < scale; c++ {
		ns := senderChoices[r.Intn(len(senderChoices))]
		total := r.Range(1, 500)
		if tier == "thorough" && r.Chance(20) {
			total = r.Range(500, 3000)
		}
		f := F(ns, procs[r.Intn(len(procs))], r.Intn(5))
		for s := 0; s < ns; s++ {
			cnt := total / ns
			if s == 0 {
				cnt += total % ns
			}
			if r.Chance(10) {
				cnt = 0
			}
			f = append(f, []byte(fmt.Sprintf("%d", cnt)))
			for q := 0; q < cnt; q++ {
				l := r.Intn(40)
				if r.Chance(5) {
					l = r.Range(200, 400)
				}
				line := append([]byte(fmt.Sprintf("%d:%d:", s, q)), r.Bytes(l, alphabet)...)
				f = append(f, line)
			}
		}
		emit(f)
	}
}

func c09Exec(in Fields) Fields {
	ns, procs, pace := in.I(0), in.I(1), in.I(2)
	old := runtime.GOMAXPROCS(procs)
	defer runtime.GOMAXPROCS(old)
	var issued [][]string
	p := 3
	for s := 0; s < ns; s++ {
		cnt := in.I(p)
		p++
		var ls []string
		for q := 0; q < cnt && p < len(in); q++ {
			ls = append(ls, string(in[p]))
			p++
		}
		issued = append(issued, ls)
	}
	var tweak func(*client.Config)
	if pace == 4 {
		// a short Config.Timeout: it governs dialling only, so a server that stalls for
		// longer than that in the middle of a line must not change a byte on the wire
		tweak = func(cfg *client.Config) { cfg.Timeout = 12 * time.Millisecond }
	}
	ws := NewWireSession(tweak)
	defer ws.Close()
	pr := &Rand{s: uint64(ns*1000003 + procs*101 + pace)}
	var pmu sync.Mutex
	switch pace {
	case 1: // one byte at a time
		ws.Pace = func() int { return 1 }
	case 2: // bursts with pauses
		ws.Pace = func() int {
			pmu.Lock()
			defer pmu.Unlock()
			if pr.Chance(3) {
				time.Sleep(time.Duration(pr.Intn(3)) * time.Millisecond)
			}
			return 1 + pr.Intn(700)
		}
	case 3: // slow small reads
		ws.Pace = func() int {
			pmu.Lock()
			defer pmu.Unlock()
			if pr.Chance(1) {
				time.Sleep(200 * time.Microsecond)
			}
			return 1 + pr.Intn(16)
		}
	case 4: // takes a few bytes, then stalls for several Config.Timeouts (at most 8 stalls)
		stalls, pending := 0, false
		ws.Pace = func() int {
			pmu.Lock()
			defer pmu.Unlock()
			if pending { // the previous read took only part of what the client is writing
				pending = false
				time.Sleep(30 * time.Millisecond)
			}
			if stalls < 8 && pr.Chance(25) {
				stalls++
				pending = true
				return 1 + pr.Intn(12)
			}
			return 1 + pr.Intn(700)
		}
	}
	// a third of the senders run as handlers (foreground or background) triggered by a line
	// from the server, the others as free goroutines
	var wg sync.WaitGroup
	start := make(chan struct{})
	// an observer goroutine keeps asking the client for its status (Conn.String, Connected, Me):
	// looking at a client must never disturb what it sends
	obsStop, obsDone := make(chan struct{}), make(chan struct{})
	go func() {
		defer close(obsDone)
		for {
			select {
			case <-obsStop:
				return
			default:
				_ = ws.Conn.String()
				_ = ws.Conn.Connected()
				_ = ws.Conn.Me()
				time.Sleep(100 * time.Microsecond)
			}
		}
	}()
	defer func() { close(obsStop); <-obsDone }()
	w := ws.Call(func() {
		for s := 0; s < ns; s++ {
			ls := issued[s]
			viaPong := s%4 == 3 // every fourth sender goes through a command method instead of Raw
			wg.Add(1)
			body := func() {
				defer wg.Done()
				<-start
				for q, l := range ls {
					if viaPong && q%2 == 1 {
						ws.Conn.Pong(l) // wire: "PONG :" + l  (the Entry strips that prefix before reading the tag)
					} else {
						ws.Conn.Raw(l)
					}
				}
			}
			switch s % 3 {
			case 1:
				done := false
				var once sync.Mutex
				name := fmt.Sprintf("GO%d", s)
				h := client.HandlerFunc(func(c *client.Conn, l *client.Line) {
					once.Lock()
					d := done
					done = true
					once.Unlock()
					if !d {
						body()
					}
				})
				if s%2 == 0 {
					ws.Conn.Handle(name, h)
				} else {
					ws.Conn.HandleBG(name, h)
				}
				go ws.Srv.Write([]byte(":srv " + name + " x\r\n"))
			default:
				go body()
			}
		}
		close(start)
		wg.Wait()
	})
	return F(w)
}
