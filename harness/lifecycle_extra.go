package main

// Two more session kinds of the lifecycle harness.
//
// "lcquit" (C07): Quit() on connection 1, the server hangs up, the client reconnects at once
//   (from the DISCONNECTED handler or from a goroutine woken by it); connection 2 is then left
//   alone: it must still answer a marker 5.6 s after the Quit and must not have seen
//   DISCONNECTED — "a fresh connection that is unaffected by the teardown of the previous one: it
//   stays up until something ends it".   input = ["lcquit"; origin]
//
// "lcslow" (C06): ConnectContext with a deadline through a proxy dialer that has NO DialContext
//   and whose Dial sleeps past the deadline and then SUCCEEDS.  The connection is established
//   (postConnect ran) with an already expired context: Connect must return nil and have fired
//   REGISTER once, and the connection ends with exactly one DISCONNECTED; a Connect that reports
//   an error must not have established anything.   input = ["lcslow"; deadline ms; dial ms]

import (
	"context"
	"fmt"
	"net"
	"net/url"
	"strings"
	"sync"
	"time"

	"github.com/fluffle/goirc/client"
	"golang.org/x/net/proxy"
)

func lcRunQuit(in Fields) lcResult {
	origin := in.I(1)
	k := &lcCase{log: &lcLog{}, fresh: true, discCh: make(chan int, 16), handlerConn: make(chan error, 16)}
	return lcWrap(k, func(label string) { k.runQuit(origin) })
}

func (k *lcCase) runQuit(origin int) {
	k.srv = lcNewServer(k.log)
	cfg := client.NewConfig("vbot", "vident", "v name")
	cfg.Server = "irc.example"
	cfg.Proxy = "lcmem://" + k.srv.key
	cfg.Flood = true
	cfg.PingFreq = 0
	conn := client.Client(cfg)
	k.conn = conn
	conn.HandleFunc(client.REGISTER, func(c *client.Conn, l *client.Line) {
		k.log.add("rg:%d", k.srv.curGen())
	})
	conn.HandleFunc(client.DISCONNECTED, func(c *client.Conn, l *client.Line) {
		g := k.srv.curGen()
		k.log.add("dc:%d", g)
		k.log.add("sm:D:%d:%s", g, lcB(c.Connected()))
		k.discCh <- g
		if g == 1 && origin == 0 {
			k.handlerConn <- k.connect()
		}
	})
	accept := func(g int) *lcSrvConn {
		select {
		case s := <-k.srv.conns:
			if !s.waitFor(func(ls []string) bool { return len(ls) >= 2 }, lcBudget) {
				k.unfresh("generation %d: registration lines did not arrive", g)
			}
			return s
		case <-time.After(lcBudget):
			k.fail("generation %d: no connection accepted", g)
			return nil
		}
	}
	if err := k.connect(); err != nil {
		k.fail("first Connect failed: %v", err)
		return
	}
	s1 := accept(1)
	if s1 == nil {
		return
	}
	if !s1.marker("q1", lcBudget) {
		k.unfresh("connection 1 does not answer")
		return
	}
	// Quit; the server sees it and hangs up, as servers do
	k.log.add("en:1")
	quitAt := time.Now()
	conn.Quit("bye")
	if !s1.waitFor(func(ls []string) bool {
		return lcHas(ls, func(l string) bool { return strings.HasPrefix(l, "QUIT") })
	}, lcBudget) {
		k.unfresh("QUIT did not reach the server")
	}
	s1.c.Close()
	select {
	case <-k.discCh:
	case <-time.After(lcBudget):
		k.fail("DISCONNECTED(1) not delivered")
		return
	}
	var cerr error
	if origin == 0 {
		select {
		case cerr = <-k.handlerConn:
		case <-time.After(lcBudget):
			k.fail("Connect from the DISCONNECTED handler did not return")
			return
		}
	} else {
		cerr = k.connect()
	}
	if cerr != nil {
		k.unfresh("reconnect after Quit failed: %v", cerr)
		return
	}
	s2 := accept(2)
	if s2 == nil {
		return
	}
	// nothing ends connection 2: it must still be there, and working, 5.6 s after the Quit
	if d := 5600*time.Millisecond - time.Since(quitAt); d > 0 {
		time.Sleep(d)
	}
	select {
	case g := <-k.discCh:
		k.unfresh("DISCONNECTED(%d) although nothing ended connection 2 (%.1f s after Quit on connection 1)", g, time.Since(quitAt).Seconds())
		return
	default:
	}
	if !s2.marker("q2", lcBudget) {
		k.unfresh("connection 2 does not answer %.1f s after Quit on connection 1", time.Since(quitAt).Seconds())
		return
	}
	k.log.add("en:2")
	c := k.newCall()
	k.log.add("xc:%d", c)
	conn.Close()
	k.log.add("xr:%d", c)
	select {
	case <-k.discCh:
	case <-time.After(lcBudget):
		k.fail("DISCONNECTED(2) not delivered")
	}
	s2.c.Close()
}

// ---------- a proxy dialer without DialContext whose Dial is slow ----------
type lcSlowDialer struct{ key string }

var (
	lcSlowOnce  sync.Once
	lcSlowDelay sync.Map // server key -> time.Duration
)

func (d lcSlowDialer) Dial(network, addr string) (net.Conn, error) {
	if v, ok := lcSlowDelay.Load(d.key); ok {
		time.Sleep(v.(time.Duration)) // ignores the connect context: a plain proxy.Dialer cannot see it
	}
	c, err := lcDialer{key: d.key}.DialContext(context.Background(), network, addr)
	if err == nil {
		lcMu.Lock()
		s := lcServers[d.key]
		lcMu.Unlock()
		if s != nil {
			s.log.add("en:%d", s.curGen()) // the context of this connection has already expired
		}
	}
	return c, err
}

func lcRunSlowDial(in Fields) lcResult {
	deadlineMs, dialMs := in.I(1), in.I(2)
	k := &lcCase{log: &lcLog{}, fresh: true, discCh: make(chan int, 16)}
	return lcWrap(k, func(label string) { k.runSlowDial(deadlineMs, dialMs) })
}

func (k *lcCase) runSlowDial(deadlineMs, dialMs int) {
	lcSlowOnce.Do(func() {
		proxy.RegisterDialerType("lcslow", func(u *url.URL, _ proxy.Dialer) (proxy.Dialer, error) {
			return lcSlowDialer{key: u.Host}, nil
		})
	})
	k.srv = lcNewServer(k.log)
	lcSlowDelay.Store(k.srv.key, time.Duration(dialMs)*time.Millisecond)
	defer lcSlowDelay.Delete(k.srv.key)
	cfg := client.NewConfig("vbot", "vident", "v name")
	cfg.Server = "irc.example"
	cfg.Proxy = "lcslow://" + k.srv.key
	cfg.Flood = true
	cfg.PingFreq = 0
	conn := client.Client(cfg)
	k.conn = conn
	conn.HandleFunc(client.REGISTER, func(c *client.Conn, l *client.Line) {
		g := k.srv.curGen()
		k.log.add("rg:%d", g)
		k.log.add("sm:R:%d:%s", g, lcB(c.Connected()))
	})
	conn.HandleFunc(client.DISCONNECTED, func(c *client.Conn, l *client.Line) {
		g := k.srv.curGen()
		k.log.add("dc:%d", g)
		k.log.add("sm:D:%d:%s", g, lcB(c.Connected()))
		k.discCh <- g
	})
	go func() { // the server end: just read
		for s := range k.srv.conns {
			_ = s
		}
	}()
	c := k.newCall()
	id := lcGoID()
	k.srv.mu.Lock()
	k.srv.calls[id] = c
	k.srv.mu.Unlock()
	ctx, cancel := context.WithTimeout(context.Background(), time.Duration(deadlineMs)*time.Millisecond)
	defer cancel()
	k.log.add("cc:%d", c)
	errc := make(chan error, 1)
	go func() {
		// the dial must be attributed to this call: it runs in the goroutine that calls Connect
		k.srv.mu.Lock()
		k.srv.calls[lcGoID()] = c
		k.srv.mu.Unlock()
		errc <- conn.ConnectContext(ctx)
	}()
	var err error
	select {
	case err = <-errc:
	case <-time.After(lcBudget):
		k.fail("ConnectContext did not return")
		return
	}
	k.srv.mu.Lock()
	g, ok := k.srv.genOf[c]
	k.srv.mu.Unlock()
	switch {
	case err == nil && ok:
		k.log.add("cr:%d:%d", c, g)
	case err == nil:
		k.log.add("cr:%d:0", c)
	default:
		k.log.add("cr:%d:-", c)
		k.note(fmt.Sprintf("ConnectContext returned %v", err))
	}
	if ok { // a connection was established: its context is done, it must end, once
		select {
		case <-k.discCh:
		case <-time.After(lcBudget):
			k.fail("the connection established with an expired context never got its DISCONNECTED")
			return
		}
	}
	time.Sleep(20 * time.Millisecond)
	cc := k.newCall()
	k.log.add("xc:%d", cc)
	conn.Close()
	k.log.add("xr:%d", cc)
}
