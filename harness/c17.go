package main

// C17: the client always knows its own current nick.
//
// kind "script": a FRESH real client (NewConfig(nick, ident, name), Config.NewNick = one of three
// generators, optionally EnableStateTracking) is connected to the in-memory server and the harness
// plays the SCRIPTED SERVER of coq/Model/NickHandlers.v: per event it decides from its own state
// (registered?, the nick it uses for the client, the client's unanswered NICK requests READ OFF THE
// WIRE, the nicks of other users) whether the event is conformant, sends the line(s) / performs the
// client-side action, then the sync marker "PING :m<k>" and collects what the client wrote before
// "PONG :m<k>".  At each marker: Config().Me (nil?, Nick) BEFORE calling Me(), then Me() (nil?, Nick),
// then Config().Me again, the nil-ness of Config().Me seen by a foreground CONNECTED handler during
// the step, and the NICK lines the client wrote during the step.
// kind "dnn": client.DefaultNewNick on one string.
//
// input / observation layout: see coq/Entry/EntryC17.v

import (
	"bufio"
	"fmt"
	"net"
	"runtime"
	"strings"
	"sync"
	"sync/atomic"
	"time"

	"github.com/fluffle/goirc/client"
)

func init() {
	props["C17"] = &Prop{Gen: c17Gen, Exec: c17Exec, Class: c17Class}
}

type c17Ev struct{ tag, p1, p2 string }

type c17Case struct {
	track              bool
	gen                string
	nick, ident, name  string
	others             []string
	script             []c17Ev
}

func c17Input(c c17Case) Fields {
	f := F("script", c.track, c.gen, c.nick, c.ident, c.name, len(c.others), c.others, len(c.script))
	for _, e := range c.script {
		f = append(f, F(e.tag, e.p1, e.p2)...)
	}
	return f
}

func c17Decode(in Fields) c17Case {
	c := c17Case{track: in.S(1) == "t", gen: in.S(2), nick: in.S(3), ident: in.S(4), name: in.S(5)}
	p := 6
	n := in.I(p)
	p++
	for i := 0; i < n && p < len(in); i++ {
		c.others = append(c.others, in.S(p))
		p++
	}
	n = in.I(p)
	p++
	for i := 0; i < n && p+2 < len(in)+0; i++ {
		c.script = append(c.script, c17Ev{in.S(p), in.S(p + 1), in.S(p + 2)})
		p += 3
	}
	return c
}

func c17GenFunc(name string) func(string) string {
	switch name {
	case "append":
		return func(s string) string { return s + "_" }
	case "rotate":
		return func(s string) string {
			if s == "" {
				return ""
			}
			return s[1:] + s[:1]
		}
	}
	return client.DefaultNewNick
}

// ---------- the scripted server (mirror of NickHandlers.v: enabled / srv_act / srv_post) ----------
type c17Srv struct {
	reg     bool
	nick    string
	pending []string
	others  []string
}

func c17NickOK(n string) bool {
	if n == "" || n[0] == ':' {
		return false
	}
	for i := 0; i < len(n); i++ {
		switch n[i] {
		case 0, 9, 10, 11, 12, 13, 32, '!', '@':
			return false
		}
	}
	return true
}

// a user / host name the server can put in a prefix: a word without '!' and '@'
func c17NameOK(n string) bool {
	if n == "" {
		return false
	}
	for i := 0; i < len(n); i++ {
		switch n[i] {
		case 0, 9, 10, 11, 12, 13, 32, '!', '@':
			return false
		}
	}
	return true
}

// "user@host" as the events carry it (split at the FIRST '@', like Entry/EntryC17.dec_uh)
func c17UH(p string) (string, string, bool) {
	i := strings.Index(p, "@")
	if i < 0 {
		return p, "", false
	}
	u, h := p[:i], p[i+1:]
	return u, h, c17NameOK(u) && c17NameOK(h)
}

// the tail of the welcome text: "" = bare nick, else user@host
func c17TailOK(p string) bool {
	if p == "" {
		return true
	}
	_, _, ok := c17UH(p)
	return ok
}

func (s *c17Srv) inUse(n string) bool {
	for _, o := range s.others {
		if o == n {
			return true
		}
	}
	return false
}

func (s *c17Srv) curOrStar() string {
	if s.reg {
		return s.nick
	}
	return "*"
}

func c17IsNoise(l string) bool {
	// recv: strings.Trim(s, "\r\n") then ParseLine
	ln := client.ParseLine(strings.Trim(l+"\r\n", "\r\n"))
	if ln == nil {
		return true
	}
	return !(ln.Cmd == "001" || ln.Cmd == "433" || ln.Cmd == "NICK")
}

func (s *c17Srv) enabled(e c17Ev) bool {
	switch e.tag {
	case "coll":
		return len(s.pending) > 0 && c17NickOK(s.pending[0]) && !(s.reg && s.pending[0] == s.nick)
	case "welsame":
		return !s.reg && len(s.pending) > 0 && c17NickOK(s.pending[0]) && !s.inUse(s.pending[0]) && c17TailOK(e.p1)
	case "weldiff":
		return !s.reg && c17NickOK(e.p1) && !s.inUse(e.p1) && c17TailOK(e.p2)
	case "req":
		return s.reg
	case "confirm":
		_, _, ok := c17UH(e.p1)
		return s.reg && len(s.pending) > 0 && c17NickOK(s.pending[0]) && !s.inUse(s.pending[0]) && s.pending[0] != s.nick && ok
	case "ignore":
		return len(s.pending) > 0
	case "force":
		_, _, ok := c17UH(e.p2)
		return s.reg && c17NickOK(e.p1) && !s.inUse(e.p1) && e.p1 != s.nick && ok
	case "other":
		return s.reg && s.inUse(e.p1) && c17NickOK(e.p1) && c17NickOK(e.p2) && !s.inUse(e.p2) && e.p2 != s.nick
	case "new":
		return c17NickOK(e.p1) && !s.inUse(e.p1) && !(s.reg && e.p1 == s.nick)
	case "track":
		return s.inUse(e.p1)
	case "forget", "me":
		return true
	case "raw":
		return c17IsNoise(e.p1)
	}
	return false
}

const c17Src = ":irc.example "

// act: what an event amounts to.  line != "" : sent to the client; action: "nick"/"track"/"forget"/"me"
func (s *c17Srv) act(e c17Ev) (line, action, arg string) {
	if e.tag == "raw" {
		return e.p1, "", ""
	}
	if !s.enabled(e) {
		return "", "", ""
	}
	switch e.tag {
	case "coll":
		x := s.pending[0]
		line = c17Src + "433 " + s.curOrStar() + " " + x + " :Nickname is already in use"
		s.pending = s.pending[1:]
	case "welsame", "weldiff":
		n, tail := e.p1, e.p2
		if e.tag == "welsame" {
			n, tail = s.pending[0], e.p1
		}
		line = c17Src + "001 " + n + " :Welcome to the net " + n
		if tail != "" {
			line += "!" + tail
		}
		s.reg, s.nick, s.pending = true, n, nil
	case "req":
		action, arg = "nick", e.p1
	case "confirm":
		x := s.pending[0]
		line = ":" + s.nick + "!" + e.p1 + " NICK " + x
		s.nick, s.pending = x, s.pending[1:]
	case "ignore":
		x := s.pending[0]
		if !c17NickOK(x) {
			x = "*"
		}
		line = c17Src + "432 " + s.curOrStar() + " " + x + " :Erroneous Nickname"
		s.pending = s.pending[1:]
	case "force":
		line = ":" + s.nick + "!" + e.p2 + " NICK " + e.p1
		s.nick = e.p1
	case "other":
		line = ":" + e.p1 + "!u@host.example NICK " + e.p2
		for i, o := range s.others {
			if o == e.p1 {
				s.others[i] = e.p2
			}
		}
	case "new":
		s.others = append(s.others, e.p1)
	case "track":
		action, arg = "track", e.p1
	case "forget":
		action, arg = "forget", e.p1
	case "me":
		action = "me"
	}
	return
}

func (s *c17Srv) post(nickLines []string) {
	for _, l := range nickLines {
		if strings.HasPrefix(l, "NICK ") {
			s.pending = append(s.pending, l[5:])
		}
	}
}

var c17KeySeq int64

// parallel pre-computation (see c17Gen): observations of generated inputs, keyed by the input line
var (
	c17Cache   = map[string]Fields{}
	c17CacheMu sync.Mutex
)

func c17Exec(in Fields) Fields {
	key := in.String()
	c17CacheMu.Lock()
	if o, ok := c17Cache[key]; ok {
		delete(c17Cache, key)
		c17CacheMu.Unlock()
		return o
	}
	c17CacheMu.Unlock()
	return c17Run(in)
}

func c17Run(in Fields) Fields {
	if in.S(0) == "dnn" {
		return F(client.DefaultNewNick(in.S(1)))
	}
	c := c17Decode(in)
	ms := NewMemServer(fmt.Sprintf("c17-%d", atomic.AddInt64(&c17KeySeq, 1)))
	defer func() {
		memMu.Lock()
		delete(memServers, ms.Key)
		memMu.Unlock()
	}()
	cfg := client.NewConfig(c.nick, c.ident, c.name)
	cfg.Server = "irc.example"
	cfg.Proxy = ms.URL()
	cfg.Flood = true
	cfg.PingFreq = 0
	cfg.NewNick = c17GenFunc(c.gen)
	conn := client.Client(cfg)
	if c.track {
		conn.EnableStateTracking()
	} else if (len(c.script)+len(c.nick))%2 == 0 {
		// half of the untracked cases: tracking was switched on and off again before the
		// session; the client must behave exactly like one that never tracked
		conn.EnableStateTracking()
		conn.DisableStateTracking()
	}
	// where user code would dereference it: a foreground CONNECTED handler looks at Config().Me
	var connMu sync.Mutex
	var connSeen []byte
	conn.HandleFunc(client.CONNECTED, func(cc *client.Conn, _ *client.Line) {
		b := byte('o')
		if cc.Config().Me == nil {
			b = 'n'
		}
		connMu.Lock()
		connSeen = append(connSeen, b)
		connMu.Unlock()
	})
	errc := make(chan error, 1)
	go func() { errc <- conn.Connect() }()
	var srv net.Conn
	select {
	case srv = <-ms.Conns:
	case <-time.After(10 * time.Second):
		return F("<<NO-CONNECT>>")
	}
	if err := <-errc; err != nil {
		return F("<<CONNECT-ERROR>>", err.Error())
	}
	rd := bufio.NewReaderSize(srv, 1<<16)
	// send msg (may be empty) and the marker; return the client's lines before the matching PONG
	marker := func(k int, msg string) []string {
		out := msg + fmt.Sprintf("PING :m%d\r\n", k)
		go func() {
			srv.SetWriteDeadline(time.Now().Add(10 * time.Second))
			srv.Write([]byte(out))
		}()
		want := fmt.Sprintf("PONG :m%d", k)
		var lines []string
		srv.SetReadDeadline(time.Now().Add(10 * time.Second))
		for {
			s, err := rd.ReadString('\n')
			if err != nil {
				lines = append(lines, "NICK <<NO-PONG>>"+s)
				break
			}
			s = strings.TrimSuffix(s, "\r\n")
			if s == want {
				break
			}
			lines = append(lines, s)
		}
		return lines
	}
	nickOnly := func(ls []string) []string {
		var out []string
		for _, l := range ls {
			if strings.HasPrefix(l, "NICK ") {
				out = append(out, l)
			}
		}
		return out
	}
	sv := &c17Srv{others: append([]string{}, c.others...)}
	sv.post(nickOnly(marker(0, ""))) // registration: NICK <nick> is the first pending request
	var obs Fields
	for k, e := range c.script {
		line, action, arg := sv.act(e)
		switch action {
		case "nick":
			conn.Nick(arg)
		case "track":
			if st := conn.StateTracker(); st != nil {
				st.NewNick(arg)
			}
		case "forget":
			if st := conn.StateTracker(); st != nil {
				st.DelNick(arg)
			}
		case "me":
			conn.Me()
		}
		msg := ""
		if line != "" || e.tag == "raw" {
			msg = line + "\r\n"
		}
		nl := nickOnly(marker(k+1, msg))
		sv.post(nl)
		cm := conn.Config().Me
		if cm == nil {
			obs = append(obs, F("nil", "")...)
		} else {
			obs = append(obs, F("ok", cm.Nick)...)
		}
		me := conn.Me()
		if me == nil {
			obs = append(obs, F("nil", "")...)
		} else {
			obs = append(obs, F("ok", me.Nick)...)
		}
		if cm2 := conn.Config().Me; cm2 == nil {
			obs = append(obs, F("nil", "")...)
		} else {
			obs = append(obs, F("ok", cm2.Nick)...)
		}
		connMu.Lock()
		seen := append([]byte{}, connSeen...)
		connSeen = connSeen[:0]
		connMu.Unlock()
		obs = append(obs, F(seen)...)
		obs = append(obs, F(len(nl), nl)...)
	}
	srv.Close()
	done := make(chan struct{})
	go func() { conn.Close(); close(done) }()
	select {
	case <-done:
	case <-time.After(5 * time.Second):
	}
	return obs
}

func c17Class(in Fields) string {
	if in.S(0) == "dnn" {
		switch n := len(in.S(1)); {
		case n <= 1:
			return "dnn:len<=1"
		case n == 2:
			return "dnn:len2"
		default:
			return "dnn:longer"
		}
	}
	c := c17Decode(in)
	cls := "exhaustive"
	if len(c.script) > 6 {
		cls = "random"
	}
	tr := "untracked"
	if c.track {
		tr = "tracked"
	}
	wild := ""
	for _, e := range c.script {
		if e.tag == "raw" && !c17IsNoise(e.p1) {
			wild = ":wild"
			break
		}
	}
	return fmt.Sprintf("%s:%s:%s%s", cls, tr, c.gen, wild)
}

// ---------- generation ----------
// abstract simulation used only to ENUMERATE conformant scripts (the Coq side recomputes
// conformance by itself from the observed wire)
type c17Sim struct {
	sv      c17Srv
	tracked []string
	gen     func(string) string
}

func (m *c17Sim) clone() *c17Sim {
	n := &c17Sim{gen: m.gen}
	n.sv = c17Srv{reg: m.sv.reg, nick: m.sv.nick,
		pending: append([]string{}, m.sv.pending...), others: append([]string{}, m.sv.others...)}
	n.tracked = append([]string{}, m.tracked...)
	return n
}

func c17Cut(s string) string {
	if i := strings.IndexAny(s, "\r\n"); i >= 0 {
		// cutNewLines cuts at the first CR, then at the first LF of what is left
		if j := strings.Index(s, "\r"); j >= 0 {
			s = s[:j]
		}
		if j := strings.Index(s, "\n"); j >= 0 {
			s = s[:j]
		}
	}
	return s
}

func (m *c17Sim) apply(e c17Ev) {
	if e.tag != "raw" && !m.sv.enabled(e) {
		return
	}
	var refused string
	if e.tag == "coll" {
		refused = m.sv.pending[0]
	}
	m.sv.act(e)
	switch e.tag {
	case "coll":
		m.sv.pending = append(m.sv.pending, c17Cut(m.gen(refused)))
	case "req":
		m.sv.pending = append(m.sv.pending, c17Cut(e.p1))
	case "track":
		m.tracked = append(m.tracked, e.p1)
	case "other":
		for i, t := range m.tracked {
			if t == e.p1 {
				m.tracked[i] = e.p2
			}
		}
	}
}

func c17Has(xs []string, x string) bool {
	for _, y := range xs {
		if y == x {
			return true
		}
	}
	return false
}

// look-alikes of the base nick: itself, prefixes, extensions, case variants, generator outputs
func c17Pool(base string) []string {
	p := []string{base, base + "_", strings.ToUpper(base), base[:len(base)-1], base + base[len(base)-1:],
		strings.ToUpper(base[:1]) + base[1:], client.DefaultNewNick(base), base[1:] + base[:1], base[:1]}
	var out []string
	for _, x := range p {
		if x != "" && !c17Has(out, x) {
			out = append(out, x)
		}
	}
	return out
}

func (m *c17Sim) free(pool []string, skip int) string {
	for _, x := range pool {
		if !m.sv.inUse(x) && !(m.sv.reg && x == m.sv.nick) && !c17Has(m.sv.pending, x) {
			if skip == 0 {
				return x
			}
			skip--
		}
	}
	return ""
}

const (
	c17UHStd   = "u@host.example"
	c17UHCloak = "~u@cloak.example"
)

// what a server may show as the client's user@host: the welcomed one, a cloak / vhost, other case
var c17UHs = []string{c17UHStd, c17UHCloak, "U@HOST.EXAMPLE", "u@host.example.", "u@10.0.0.1"}

// the enabled events (canonical parameters) in the current state
func (m *c17Sim) moves(pool []string, track bool) []c17Ev {
	var ev []c17Ev
	add := func(e c17Ev) {
		if m.sv.enabled(e) {
			ev = append(ev, e)
		}
	}
	add(c17Ev{"coll", "", ""})
	if !m.sv.reg {
		// the welcome text ends in nick!user@host (the client records that host) or in the bare nick
		add(c17Ev{"welsame", c17UHStd, ""})
		add(c17Ev{"welsame", "", ""})
		if len(m.sv.pending) > 0 && len(m.sv.pending[0]) > 1 {
			add(c17Ev{"weldiff", m.sv.pending[0][:len(m.sv.pending[0])-1], c17UHStd}) // truncated by the server
		}
		add(c17Ev{"weldiff", "Guest1", ""})
		// a user holding exactly the nick the client asks for: the reason for a collision
		if len(m.sv.pending) > 0 {
			add(c17Ev{"new", m.sv.pending[0], ""})
		}
	} else {
		if y := m.free(pool, 0); y != "" {
			add(c17Ev{"req", y, ""})
		}
		if len(m.sv.others) > 0 {
			add(c17Ev{"req", m.sv.others[0], ""}) // will be refused
		}
		// the client's own NICK lines: prefixed with the welcomed user@host, or with a cloak
		add(c17Ev{"confirm", c17UHStd, ""})
		add(c17Ev{"confirm", c17UHCloak, ""})
		add(c17Ev{"ignore", "", ""})
		if y := m.free(pool, 1); y != "" {
			add(c17Ev{"force", y, c17UHs[len(m.sv.pending)%len(c17UHs)]})
		}
		if len(m.sv.others) > 0 {
			if b := m.free(pool, 0); b != "" {
				add(c17Ev{"other", m.sv.others[len(m.sv.others)-1], b})
			}
		}
		if a := m.free(pool, 2); a != "" {
			add(c17Ev{"new", a, ""})
		}
	}
	if track {
		for _, o := range m.sv.others {
			if !c17Has(m.tracked, o) {
				add(c17Ev{"track", o, ""})
				break
			}
		}
	}
	return ev
}

func c17Exhaustive(depth int, track bool, gen, nick string, others []string, out *[]Fields) {
	pool := c17Pool(nick)
	root := &c17Sim{gen: c17GenFunc(gen)}
	root.sv = c17Srv{pending: []string{nick}, others: append([]string{}, others...)}
	var rec func(m *c17Sim, script []c17Ev)
	rec = func(m *c17Sim, script []c17Ev) {
		mv := m.moves(pool, track)
		if len(script) == depth || len(mv) == 0 {
			// maximal scripts only: every prefix is observed at its own marker
			*out = append(*out, c17Input(c17Case{track: track, gen: gen, nick: nick, ident: "vident", name: "v name",
				others: others, script: append([]c17Ev{}, script...)}))
			return
		}
		for _, e := range mv {
			n := m.clone()
			n.apply(e)
			rec(n, append(script, e))
		}
	}
	rec(root, nil)
}

var c17WildLines = []string{
	"433", ":irc.example 433", ":irc.example 433 *", ":irc.example 433 * :only", "433 a b", ":irc.example 433 * %N :in use",
	":irc.example 433 %N %N :in use", ":irc.example 433 * %O :in use", ":irc.example 433 * %N extra :in use",
	"001", ":irc.example 001", ":irc.example 001 %N", ":irc.example 001 %N :", ":irc.example 001 %O :Welcome %O!u@h",
	":irc.example 001 :Welcome x!y@z", ":irc.example 001 %N :Welcome  ", ":irc.example 001 %N :Welcome !@", ":irc.example 001 %N :a!b", "001 %N %N %N",
	"NICK", ":%N NICK", ":%N!u@h NICK", ":%N!u@h NICK :", ":%N!u@h NICK %N", ":%N!u@h NICK %O", ":%O!u@h NICK %N", ":%N NICK :new nick",
	"NICK solo", ":!@ NICK x", ":%N!u@h nick lower", "@t=1 :%N!u@h NICK tagged",
	":irc.example NOTICE * :noise", "PRIVMSG %N :hello", ":x!y@z PRIVMSG %N :\x01VERSION\x01", ":irc.example 432 * bad :Erroneous", ":irc.example 437 * %N :unavailable",
	":x!y@z JOIN #c", ":%N!u@h JOIN #c", ":irc.example 352 %N #c u h s %O H :0 name", "", " ", ":", "::", "\x00",
}

// does the line carry one of the verbs of stHandlers other than NICK (which the model covers)?
func c17StateVerb(l string) bool {
	ln := client.ParseLine(strings.Trim(l+"\r\n", "\r\n"))
	if ln == nil {
		return false
	}
	switch ln.Cmd {
	case "JOIN", "KICK", "MODE", "PART", "QUIT", "TOPIC", "311", "324", "332", "352", "353", "671":
		return true
	}
	return false
}

func c17Random(r *Rand) Fields {
	nick := r.Pick([]string{"bob", "bob", "nick9", "a", "x}", "Zed~", "longernickname", "b"})
	if r.Chance(4) {
		nick = r.Pick([]string{"", "sp ace", ":colon", "b!b", "cr\rlf"})
	}
	gen := r.Pick([]string{"default", "default", "append", "rotate"})
	track := r.Bool()
	base := nick
	if base == "" || !c17NickOK(base) {
		base = "bob"
	}
	pool := c17Pool(base)
	var others []string
	for _, x := range pool[1:] {
		if r.Chance(20) {
			others = append(others, x)
		}
	}
	ident := r.Pick([]string{"vident", "vident", "", "i d"})
	m := &c17Sim{gen: c17GenFunc(gen)}
	first := c17Cut(nick)
	if nick == "" {
		first = "__idiot__"
	}
	m.sv = c17Srv{pending: []string{first}, others: append([]string{}, others...)}
	wildPct := r.Pick([]string{"0", "0", "5", "25"})
	n := r.Range(7, 60)
	var script []c17Ev
	for len(script) < n {
		var e c17Ev
		switch {
		case wildPct != "0" && r.Chance(map[string]int{"5": 5, "25": 25}[wildPct]):
			l := r.Pick(c17WildLines)
			cur := m.sv.nick
			if !m.sv.reg {
				cur = first
			}
			oth := "somebody"
			if len(m.sv.others) > 0 {
				oth = m.sv.others[r.Intn(len(m.sv.others))]
			}
			l = strings.ReplaceAll(strings.ReplaceAll(l, "%N", cur), "%O", oth)
			if track && c17StateVerb(l) {
				// with tracking on h_JOIN / h_MODE / h_311 / h_352 ... call conn.Me(), which refreshes
				// cfg.Me from the tracker, and they change the tracker: outside Model/NickHandlers.v
				// (that interplay is Model/Client.v, compared in ./check C02 kind "transcript")
				l = ":irc.example NOTICE * :noise"
			}
			if r.Chance(30) {
				// a non-enabled semantic event (skipped by the server, flags the script)
				e = c17PickEv(r, []c17Ev{{"confirm", c17UHStd, ""}, {"confirm", "nohost", ""}, {"coll", "", ""}, {"welsame", "", ""}, {"force", oth, c17UHStd}, {"force", "zz", "bad host@x"}, {"other", cur, "q"}, {"new", cur, ""}, {"weldiff", oth, ""}, {"track", "nobody", ""}})
			} else {
				e = c17Ev{"raw", l, ""}
			}
		default:
			mv := m.moves(pool, track)
			// richer parameters than the canonical ones
			if m.sv.reg && r.Chance(30) {
				mv = append(mv, c17Ev{"req", r.Pick(pool), ""}, c17Ev{"force", r.Pick(pool), r.Pick(c17UHs)}, c17Ev{"new", r.Pick(pool), ""},
					c17Ev{"confirm", r.Pick(c17UHs), ""})
				if len(m.sv.others) > 0 {
					mv = append(mv, c17Ev{"other", r.Pick(m.sv.others), r.Pick(pool)})
				}
			}
			if track && len(m.tracked) > 0 && r.Chance(10) {
				mv = append(mv, c17Ev{"forget", r.Pick(m.tracked), ""})
			}
			if r.Chance(8) {
				mv = append(mv, c17Ev{"me", "", ""})
			}
			if r.Chance(5) {
				mv = append(mv, c17Ev{"req", r.Pick([]string{"", "two words", "x\r\ny", ":lead", m.sv.nick}), ""})
			}
			if len(mv) == 0 {
				mv = []c17Ev{{"ignore", "", ""}, {"weldiff", "Guest1", c17UHStd}}
			}
			e = mv[r.Intn(len(mv))]
			// stay in the registration phase for a while now and then
			if !m.sv.reg && (e.tag == "welsame" || e.tag == "weldiff") && r.Chance(50) {
				e = c17Ev{"coll", "", ""}
			} else if e.tag == "welsame" && r.Chance(30) {
				e.p1 = r.Pick(c17UHs)
			}
		}
		script = append(script, e)
		m.apply(e)
	}
	return c17Input(c17Case{track: track, gen: gen, nick: nick, ident: ident, name: "v name", others: others, script: script})
}

func c17PickEv(r *Rand, xs []c17Ev) c17Ev { return xs[r.Intn(len(xs))] }

func c17Gen(r *Rand, tier string, scale int, emit func(in Fields)) {
	if scale <= 0 {
		scale = 6000
	}
	var ins []Fields
	// 1. exhaustive: all conformant scripts up to the depth, both tracking modes, three generators
	depth := 5
	if tier == "thorough" {
		depth = 6
	}
	for _, track := range []bool{false, true} {
		c17Exhaustive(depth, track, "default", "bob", []string{"bo"}, &ins)
		c17Exhaustive(depth-1, track, "append", "bob", []string{"bob_"}, &ins)
		c17Exhaustive(depth-1, track, "rotate", "b", nil, &ins) // rotate("b") = "b": the generator that never moves
		c17Exhaustive(depth-1, track, "rotate", "bob", []string{"obb"}, &ins)
	}
	nex := len(ins)
	// 2. random scripts up to length 60, with wild lines
	nrand := scale / 4
	if nrand < 200 {
		nrand = 200
	}
	for i := 0; i < nrand; i++ {
		ins = append(ins, c17Random(r.Fork()))
	}
	// 3. DefaultNewNick
	for b := 0; b < 256; b++ {
		ins = append(ins, F("dnn", []byte{byte(b)}))
	}
	ins = append(ins, F("dnn", ""))
	n2 := 2000
	if tier == "thorough" {
		n2 = 65536
	}
	for i := 0; i < n2; i++ {
		var s []byte
		if tier == "thorough" {
			s = []byte{byte(i >> 8), byte(i)}
		} else {
			s = r.Bytes(2, nil)
		}
		ins = append(ins, F("dnn", s))
	}
	for i := 0; i < 1000; i++ {
		s := r.Bytes(r.Range(3, 40), nil)
		if r.Bool() {
			s[len(s)-1] = byte(r.Pick([]string{"0", "9", "A", "Z", "a", "z", "}", "|", "_", "`", "@", "~", "/", ":"})[0])
		}
		ins = append(ins, F("dnn", s))
	}
	_ = nex
	// run the session cases in parallel (each has its own client and in-memory socket), then
	// hand them to emit in order; c17Exec finds the observation in the cache
	workers := runtime.NumCPU()
	if workers > 12 {
		workers = 12
	}
	jobs := make(chan Fields, 64)
	var wg sync.WaitGroup
	for w := 0; w < workers; w++ {
		wg.Add(1)
		go func() {
			defer wg.Done()
			for in := range jobs {
				o := c17Run(in)
				c17CacheMu.Lock()
				c17Cache[in.String()] = o
				c17CacheMu.Unlock()
			}
		}()
	}
	seen := map[string]bool{}
	for _, in := range ins {
		if in.S(0) == "script" && !seen[in.String()] {
			seen[in.String()] = true
			jobs <- in
		}
	}
	close(jobs)
	wg.Wait()
	for _, in := range ins {
		emit(in)
	}
}
