package main

import (
	"fmt"
	"sort"
	"strconv"
	"strings"

	"github.com/fluffle/goirc/state"
)

// C12: operation sequences over a fresh state.NewTracker(me).
// input = [me; #N; nick names...; #C; channel names...; (opcode; #args; args...)*]
// obs   = per operation: canonicalised return value, then a full query sweep
//         (GetNick for every nick name, GetChannel for every channel name, IsOn for every
//         pair, Me).  Rendering: see coq/Model/TrackerObs.v.

func init() {
	props["C12"] = &Prop{Gen: c12Gen, Exec: c12Exec, Class: c12Class}
}

type c12Op struct {
	code string
	args []string
}

type c12Case struct {
	me           string
	nicks, chans []string
	ops          []c12Op
}

func (c *c12Case) fields() Fields {
	f := F(c.me, len(c.nicks), c.nicks, len(c.chans), c.chans)
	for _, o := range c.ops {
		f = append(f, F(o.code, len(o.args), o.args)...)
	}
	return f
}

func c12Parse(in Fields) (*c12Case, bool) {
	c := &c12Case{}
	i := 0
	next := func() (string, bool) {
		if i >= len(in) {
			return "", false
		}
		s := string(in[i])
		i++
		return s, true
	}
	num := func() (int, bool) {
		s, ok := next()
		if !ok {
			return 0, false
		}
		n, err := strconv.Atoi(s)
		if err != nil || n < 0 {
			return 0, false
		}
		return n, true
	}
	var ok bool
	if c.me, ok = next(); !ok {
		return nil, false
	}
	for _, dst := range []*[]string{&c.nicks, &c.chans} {
		n, ok := num()
		if !ok {
			return nil, false
		}
		for k := 0; k < n; k++ {
			s, ok := next()
			if !ok {
				return nil, false
			}
			*dst = append(*dst, s)
		}
	}
	for i < len(in) {
		code, _ := next()
		n, ok := num()
		if !ok {
			return nil, false
		}
		o := c12Op{code: code}
		for k := 0; k < n; k++ {
			s, ok := next()
			if !ok {
				return nil, false
			}
			o.args = append(o.args, s)
		}
		c.ops = append(c.ops, o)
	}
	return c, true
}

// ---------- canonical rendering ----------
func c12Flag(b bool, ch byte) string {
	if b {
		return string(ch)
	}
	return ""
}

func c12Privs(p *state.ChanPrivs) string {
	return c12Flag(p.Owner, 'q') + c12Flag(p.Admin, 'a') + c12Flag(p.Op, 'o') + c12Flag(p.HalfOp, 'h') + c12Flag(p.Voice, 'v')
}

func c12OptPrivs(p *state.ChanPrivs) string {
	if p == nil {
		return "nil"
	}
	return "P" + c12Privs(p)
}

func c12Pairs(m map[string]*state.ChanPrivs) Fields {
	keys := make([]string, 0, len(m))
	for k := range m {
		keys = append(keys, k)
	}
	sort.Strings(keys)
	f := F(len(m))
	for _, k := range keys {
		if m[k] == nil {
			f = append(f, F(k, "nilprivs")...)
		} else {
			f = append(f, F(k, c12Privs(m[k]))...)
		}
	}
	return f
}

func c12Nick(n *state.Nick) Fields {
	if n == nil {
		return F("nil")
	}
	modes := "nilmodes"
	if m := n.Modes; m != nil {
		modes = c12Flag(m.Bot, 'B') + c12Flag(m.Invisible, 'i') + c12Flag(m.Oper, 'o') + c12Flag(m.WallOps, 'w') + c12Flag(m.HiddenHost, 'x') + c12Flag(m.SSL, 'z')
	}
	return F("N", n.Nick, n.Ident, n.Host, n.Name, modes, c12Pairs(n.Channels))
}

func c12Chan(c *state.Channel) Fields {
	if c == nil {
		return F("nil")
	}
	if c.Modes == nil {
		return F("C", c.Name, c.Topic, "nilmodes", "", 0, c12Pairs(c.Nicks))
	}
	m := c.Modes
	flags := c12Flag(m.Private, 'p') + c12Flag(m.Secret, 's') + c12Flag(m.ProtectedTopic, 't') + c12Flag(m.NoExternalMsg, 'n') +
		c12Flag(m.Moderated, 'm') + c12Flag(m.InviteOnly, 'i') + c12Flag(m.OperOnly, 'O') + c12Flag(m.SSLOnly, 'z') +
		c12Flag(m.Registered, 'r') + c12Flag(m.AllSSL, 'Z')
	return F("C", c.Name, c.Topic, flags, m.Key, m.Limit, c12Pairs(c.Nicks))
}

func c12Arg(o c12Op, i int) string {
	if i < len(o.args) {
		return o.args[i]
	}
	return ""
}

// one operation on the real tracker
func c12Apply(st state.Tracker, o c12Op) Fields {
	a := func(i int) string { return c12Arg(o, i) }
	switch o.code {
	case "NN":
		return c12Nick(st.NewNick(a(0)))
	case "GN":
		return c12Nick(st.GetNick(a(0)))
	case "RN":
		return c12Nick(st.ReNick(a(0), a(1)))
	case "DN":
		return c12Nick(st.DelNick(a(0)))
	case "NI":
		return c12Nick(st.NickInfo(a(0), a(1), a(2), a(3)))
	case "NM":
		return c12Nick(st.NickModes(a(0), a(1)))
	case "NC":
		return c12Chan(st.NewChannel(a(0)))
	case "GC":
		return c12Chan(st.GetChannel(a(0)))
	case "DC":
		return c12Chan(st.DelChannel(a(0)))
	case "TO":
		return c12Chan(st.Topic(a(0), a(1)))
	case "CM":
		var rest []string
		if len(o.args) > 2 {
			rest = o.args[2:]
		}
		return c12Chan(st.ChannelModes(a(0), a(1), rest...))
	case "ME":
		return c12Nick(st.Me())
	case "IO":
		p, ok := st.IsOn(a(0), a(1))
		return F(c12OptPrivs(p), ok)
	case "AS":
		return F(c12OptPrivs(st.Associate(a(0), a(1))))
	case "DI":
		st.Dissociate(a(0), a(1))
		return F("u")
	case "WI":
		st.Wipe()
		return F("u")
	}
	return F("badop")
}

func c12Sweep(st state.Tracker, c *c12Case) Fields {
	var f Fields
	for _, n := range c.nicks {
		f = append(f, c12Nick(st.GetNick(n))...)
	}
	for _, ch := range c.chans {
		f = append(f, c12Chan(st.GetChannel(ch))...)
	}
	for _, ch := range c.chans {
		for _, n := range c.nicks {
			p, ok := st.IsOn(ch, n)
			f = append(f, F(c12OptPrivs(p), ok)...)
		}
	}
	f = append(f, c12Nick(st.Me())...)
	return f
}

// runs the case; returns the observation and the last sweep (the state's identity over the universe)
func c12Run(c *c12Case) (obs Fields, last string) {
	defer func() {
		if r := recover(); r != nil {
			obs = append(obs, []byte("panic"))
			last = "panic"
		}
	}()
	st := state.Tracker(state.NewTracker(c.me))
	for _, o := range c.ops {
		obs = append(obs, c12Apply(st, o)...)
		sw := c12Sweep(st, c)
		obs = append(obs, sw...)
		last = sw.String()
	}
	return obs, last
}

func c12Exec(in Fields) Fields {
	c, ok := c12Parse(in)
	if !ok {
		return F("bad")
	}
	obs, _ := c12Run(c)
	return obs
}

func c12Class(in Fields) string {
	c, ok := c12Parse(in)
	if !ok {
		return "bad"
	}
	kind := "random"
	if len(c.nicks) == 4 {
		kind = "closure"
	} else if len(c.nicks) == 6 {
		kind = "scenario"
	}
	n := len(c.ops)
	switch {
	case n <= 12:
		return fmt.Sprintf("%s:len=%02d", kind, n)
	case n < 50:
		return kind + ":len=13-49"
	case n < 150:
		return kind + ":len=50-149"
	case n < 300:
		return kind + ":len=150-299"
	}
	return kind + ":len=300+"
}

// ---------- generators ----------
func c12O(code string, args ...string) c12Op { return c12Op{code, args} }

// hand-written interactions named by the property (rename then mode change, delete channel
// then re-create, wipe with shared nicks, ...); universe of 4 nick names marks the class
func c12Scenarios() []*c12Case {
	u := func(ops ...c12Op) *c12Case {
		return &c12Case{me: "me", nicks: []string{"", "me", "al", "bo", "bob", "Bob"}, chans: []string{"", "#x", "#y", "#X"}, ops: ops}
	}
	return []*c12Case{
		u(c12O("NC", "#x"), c12O("AS", "#x", "me"), c12O("NN", "al"), c12O("AS", "#x", "al"), c12O("CM", "#x", "+o", "al"),
			c12O("RN", "al", "bo"), c12O("CM", "#x", "+v-o", "bo", "bo"), c12O("GN", "bo"), c12O("RN", "me", "al"), c12O("ME"),
			c12O("CM", "#x", "+ntk", "key"), c12O("CM", "#x", "-k+l", "12")),
		u(c12O("NC", "#x"), c12O("NC", "#y"), c12O("AS", "#x", "me"), c12O("AS", "#y", "me"), c12O("NN", "al"), c12O("NN", "bo"),
			c12O("AS", "#x", "al"), c12O("AS", "#y", "al"), c12O("AS", "#x", "bo"), c12O("DC", "#x"), c12O("NC", "#x"), c12O("GC", "#x"),
			c12O("AS", "#x", "al"), c12O("DI", "#y", "me"), c12O("GN", "al")),
		u(c12O("NC", "#x"), c12O("NC", "#y"), c12O("AS", "#x", "me"), c12O("NN", "al"), c12O("NN", "bo"), c12O("AS", "#x", "al"),
			c12O("AS", "#y", "al"), c12O("WI"), c12O("GN", "al"), c12O("GN", "bo"), c12O("ME")),
		u(c12O("NN", "al"), c12O("NC", "#x"), c12O("AS", "#x", "al"), c12O("DN", "al"), c12O("GC", "#x"), c12O("DN", "me"),
			c12O("RN", "me", ""), c12O("ME"), c12O("NN", ""), c12O("RN", "", "me"), c12O("NN", "al"), c12O("AS", "#x", "al"), c12O("DI", "#x", "al")),
		u(c12O("NC", "#x"), c12O("AS", "#x", "me"), c12O("NN", "al"), c12O("AS", "#x", "al"), c12O("AS", "#x", "al"),
			c12O("CM", "#x", "+l", "99999999999999999999"), c12O("CM", "#x", "+l", "-99999999999999999999"), c12O("CM", "#x", "+l", "+17"),
			c12O("CM", "#x", "+l", "1x"), c12O("CM", "#x", "+l", ""), c12O("CM", "#x", "+l", "-"), c12O("CM", "#x", "+l", "9223372036854775807"),
			c12O("CM", "#x", "+l", "9223372036854775808"), c12O("CM", "#x", "+l", "-9223372036854775808"), c12O("CM", "#x", "+l", "0012"),
			c12O("CM", "#x", "+k"), c12O("CM", "#x", "+ok", "al", "al"), c12O("NM", "me", "+iwx-w+Bz?o"), c12O("NI", "al", "i", "h", "n"), c12O("TO", "#x", "topic")),
		// list modes b e I skip their mask (D10): with and without argument, before and after arg-taking letters
		u(c12O("NC", "#x"), c12O("AS", "#x", "me"), c12O("NN", "al"), c12O("AS", "#x", "al"), c12O("NN", "bo"),
			c12O("CM", "#x", "+bo", "*!*@*", "al"), c12O("CM", "#x", "-b", "*!*@*"), c12O("CM", "#x", "+eI", "m1", "m2"),
			c12O("CM", "#x", "+b"), c12O("CM", "#x", "-o+bv", "al", "al", "al"), c12O("CM", "#x", "+bk", "mask", "key"),
			c12O("CM", "#x", "+kbl", "k2", "mask", "7"), c12O("CM", "#x", "-bo", "me"), c12O("CM", "#x", "+Ibeq", "a", "b", "c", "me"),
			c12O("CM", "#x", "+ob", "al"), c12O("CM", "#x", "-eIbv", "x", "y", "z", "al"), c12O("CM", "#x", "+bv", "bo", "me")),
		// case variants: rename between them, privilege changes naming a variant of a member,
		// re-creation of a freed name in another case, channels differing in case only
		u(c12O("NC", "#x"), c12O("AS", "#x", "me"), c12O("NN", "bob"), c12O("AS", "#x", "bob"), c12O("RN", "bob", "Bob"),
			c12O("CM", "#x", "+o", "Bob"), c12O("CM", "#x", "+v", "bob"), c12O("RN", "Bob", "al"), c12O("CM", "#x", "+v", "bob"),
			c12O("CM", "#x", "+h", "Bob"), c12O("DI", "#x", "al"), c12O("CM", "#x", "+o", "bob"), c12O("NN", "Bob"),
			c12O("AS", "#x", "Bob"), c12O("NN", "bob"), c12O("AS", "#x", "bob"), c12O("CM", "#x", "+ov", "bob", "Bob"),
			c12O("NC", "#X"), c12O("AS", "#X", "me"), c12O("AS", "#X", "bob"), c12O("CM", "#X", "+q", "Bob"), c12O("DC", "#x"),
			c12O("GN", "bob"), c12O("GN", "Bob"), c12O("RN", "me", "Bob"), c12O("RN", "me", "bo"), c12O("ME")),
	}
}

// (i) closure: breadth-first over the states reachable in the small universe; every
// transition is executed on a fresh tracker by replaying the shortest path to its source.
func c12Closure(limit int, emit func(Fields)) (states int, closed bool) {
	// names are exact byte strings for the tracker: "a"/"A" and "#x"/"#X" are different names
	nicks := []string{"", "a", "A", "b"}
	chans := []string{"", "#x", "#X"}
	var alphabet []c12Op
	for _, n := range nicks {
		alphabet = append(alphabet, c12O("NN", n), c12O("DN", n))
		for _, m := range nicks {
			alphabet = append(alphabet, c12O("RN", n, m))
		}
	}
	for _, c := range chans {
		alphabet = append(alphabet, c12O("NC", c), c12O("DC", c))
		for _, n := range nicks {
			alphabet = append(alphabet, c12O("AS", c, n), c12O("DI", c, n))
		}
	}
	for _, c := range chans[1:] {
		alphabet = append(alphabet, c12O("CM", c, "+t"), c12O("CM", c, "-t"), c12O("CM", c, "+k", "x"), c12O("CM", c, "-k"))
		for _, n := range nicks {
			alphabet = append(alphabet, c12O("CM", c, "+o", n), c12O("CM", c, "-o", n), c12O("CM", c, "+bo", "*!*@*", n))
		}
	}
	alphabet = append(alphabet, c12O("WI"))
	seen := map[string]bool{}
	queue := [][]c12Op{nil}
	emitted := 0
	for len(queue) > 0 {
		path := queue[0]
		queue = queue[1:]
		states++
		for _, o := range alphabet {
			if emitted >= limit {
				return states, false
			}
			ops := append(append([]c12Op{}, path...), o)
			c := &c12Case{me: "a", nicks: nicks, chans: chans, ops: ops}
			emit(c.fields())
			emitted++
			_, key := c12Run(c)
			if !seen[key] {
				seen[key] = true
				queue = append(queue, ops)
			}
		}
	}
	return states, true
}

// case variants of the same letters are DIFFERENT names (the tracker compares byte strings)
var c12Nicks = []string{"", "me", "Me", "al", "bob", "Bob", "BOB"}
var c12Chans = []string{"", "#x", "#X", "#y"}

// a mode string and its arguments from a grammar; [isOn] answers membership on the channel
// the string will be applied to.  Where the property leaves the consumption of arguments
// open (a privilege letter whose argument names a nick not on the channel; -k), no
// argument-consuming letter (+k, +l, b e I, q a o h v) follows in the same string.
func c12ModeString(r *Rand, isOn func(n string) bool) (string, []string) {
	nargs := r.Intn(5)
	var args []string
	for i := 0; i < nargs; i++ {
		switch r.Intn(10) {
		case 0:
			args = append(args, r.Pick([]string{"key", "", "s3cret", "*!*@*", "*!*@host.example"}))
		case 1:
			args = append(args, r.Pick([]string{"5", "-3", "+7", "abc", "", "12x", "0", "99999999999999999999", "40"}))
		default:
			args = append(args, r.Pick(c12Nicks))
		}
	}
	n := r.Range(1, 7)
	var sb strings.Builder
	opAdd := false
	open := false
	rest := args
	for i := 0; i < n; i++ {
		var ch byte
		switch k := r.Intn(20); {
		case k < 3:
			ch = '+'
		case k < 5:
			ch = '-'
		case k < 9:
			ch = "imnprstzZO"[r.Intn(10)]
		case k < 11:
			ch = 'k'
		case k < 13:
			ch = 'l'
		case k < 16:
			ch = "qaohv"[r.Intn(5)]
		case k < 18:
			ch = "beI"[r.Intn(3)] // list modes: skip their mask
		default:
			ch = "XyE!?"[r.Intn(5)]
		}
		switch ch {
		case '+':
			opAdd = true
		case '-':
			opAdd = false
		case 'k', 'l':
			if opAdd {
				if open {
					continue
				}
				if len(rest) > 0 {
					rest = rest[1:]
				}
			} else if ch == 'k' {
				open = true
			}
		case 'b', 'e', 'I':
			if open {
				continue
			}
			if len(rest) > 0 {
				rest = rest[1:]
			}
		case 'q', 'a', 'o', 'h', 'v':
			if open {
				continue
			}
			if len(rest) > 0 {
				if isOn(rest[0]) {
					rest = rest[1:]
				} else {
					open = true
				}
			}
		}
		sb.WriteByte(ch)
	}
	return sb.String(), args
}

func c12NickModeString(r *Rand) string {
	n := r.Range(0, 6)
	b := make([]byte, n)
	for i := range b {
		b[i] = "++--BiowxzBiowxzqk!"[r.Intn(19)]
	}
	return string(b)
}

// (ii) one random sequence; a shadow tracker (the real code) is consulted only for the
// membership question of the mode-string rule above
func c12Random(r *Rand, nops int) *c12Case {
	me := "me"
	if r.Chance(5) {
		me = ""
	}
	c := &c12Case{me: me, nicks: c12Nicks, chans: c12Chans}
	shadow := state.Tracker(state.NewTracker(me))
	N := func() string { return r.Pick(c12Nicks) }
	C := func() string {
		if r.Chance(4) {
			return ""
		}
		return c12Chans[1+r.Intn(3)]
	}
	for i := 0; i < nops; i++ {
		var o c12Op
		switch k := r.Intn(100); {
		case k < 12:
			o = c12O("NN", N())
		case k < 36:
			o = c12O("AS", C(), N())
		case k < 46:
			o = c12O("NC", C())
		case k < 56:
			o = c12O("DI", C(), N())
		case k < 64:
			o = c12O("RN", N(), N())
		case k < 68:
			o = c12O("DN", N())
		case k < 71:
			o = c12O("DC", C())
		case k < 72:
			o = c12O("WI")
		case k < 84:
			ch := C()
			ms, args := c12ModeString(r, func(n string) bool {
				_, ok := shadow.IsOn(ch, n)
				return ok
			})
			o = c12O("CM", append([]string{ch, ms}, args...)...)
		case k < 88:
			o = c12O("NM", N(), c12NickModeString(r))
		case k < 91:
			o = c12O("NI", N(), r.Pick([]string{"", "id", "ident"}), r.Pick([]string{"", "host.example"}), r.Pick([]string{"", "Real Name"}))
		case k < 94:
			o = c12O("TO", C(), r.Pick([]string{"", "a topic", "t"}))
		case k < 95:
			o = c12O("GN", N())
		case k < 96:
			o = c12O("GC", C())
		case k < 97:
			o = c12O("IO", C(), N())
		default:
			o = c12O("ME")
		}
		c.ops = append(c.ops, o)
		func() {
			defer func() { recover() }()
			c12Apply(shadow, o)
		}()
	}
	return c
}

func c12Gen(r *Rand, tier string, scale int, emit func(Fields)) {
	if scale == 0 {
		scale = 300
	}
	limit := 12 * scale // quick: 3600 transitions from the first states in breadth-first order
	if tier == "thorough" {
		limit = 150000
	}
	c12Closure(limit, emit)
	for _, c := range c12Scenarios() {
		emit(c.fields())
	}
	lo, hi := 50, 400
	for i := 0; i < scale; i++ {
		emit(c12Random(r.Fork(), r.Range(lo, hi)).fields())
	}
}
