package main

import (
	"bytes"
	"fmt"
	"net"
	"sync"
	"time"

	"github.com/fluffle/goirc/client"
)

// WireSession: one real client connected to an in-memory server whose reader collects
// every byte the client writes.  Call(f) returns exactly the bytes written for f().
type WireSession struct {
	Conn   *client.Conn
	Srv    net.Conn
	mu     sync.Mutex
	cond   *sync.Cond
	buf    []byte
	closed bool
	seq    int
	// Pace, when set, is called by the server-side reader before every Read and returns
	// the maximum number of bytes to read (slow / bursty server); 0 = as much as possible.
	Pace func() int
}

var wireKeySeq int

func NewWireSession(tweak func(*client.Config)) *WireSession {
	wireKeySeq++
	ms := NewMemServer(fmt.Sprintf("wire%d", wireKeySeq))
	cfg := client.NewConfig("vbot", "vident", "v name")
	cfg.Server = "irc.example"
	cfg.Proxy = ms.URL()
	cfg.Flood = true
	cfg.PingFreq = 0
	if tweak != nil {
		tweak(cfg)
	}
	c := client.Client(cfg)
	ws := &WireSession{Conn: c}
	ws.cond = sync.NewCond(&ws.mu)
	errc := make(chan error, 1)
	go func() { errc <- c.Connect() }()
	ws.Srv = <-ms.Conns
	go ws.reader()
	if err := <-errc; err != nil {
		panic(err)
	}
	// swallow registration
	ws.Call(func() {})
	return ws
}

func (ws *WireSession) reader() {
	b := make([]byte, 65536)
	for {
		lim := len(b)
		if ws.Pace != nil {
			if k := ws.Pace(); k > 0 && k < lim {
				lim = k
			}
		}
		n, err := ws.Srv.Read(b[:lim])
		ws.mu.Lock()
		ws.buf = append(ws.buf, b[:n]...)
		if err != nil {
			ws.closed = true
		}
		ws.cond.Broadcast()
		ws.mu.Unlock()
		if err != nil {
			return
		}
	}
}

// Call runs f (which may call any command methods) and returns the bytes the server
// received for it: everything before a unique sentinel line sent right after f.
func (ws *WireSession) Call(f func()) []byte {
	ws.seq++
	sentinel := []byte(fmt.Sprintf("VERIFSENTINEL-%d\r\n", ws.seq))
	f()
	ws.Conn.Raw(string(sentinel[:len(sentinel)-2]))
	deadline := time.Now().Add(20 * time.Second)
	ws.mu.Lock()
	defer ws.mu.Unlock()
	for {
		if k := bytes.Index(ws.buf, sentinel); k >= 0 {
			out := append([]byte{}, ws.buf[:k]...)
			ws.buf = ws.buf[k+len(sentinel):]
			return out
		}
		if ws.closed || time.Now().After(deadline) {
			out := append([]byte("<<NO-SENTINEL>>"), ws.buf...)
			ws.buf = nil
			return out
		}
		// cond.Wait with a coarse timeout
		t := time.AfterFunc(500*time.Millisecond, func() { ws.mu.Lock(); ws.cond.Broadcast(); ws.mu.Unlock() })
		ws.cond.Wait()
		t.Stop()
	}
}

func (ws *WireSession) Close() {
	ws.Srv.Close()
	done := make(chan struct{})
	go func() { ws.Conn.Close(); close(done) }()
	select {
	case <-done:
	case <-time.After(5 * time.Second):
	}
}

// splitCRLF splits wire bytes into CRLF-terminated lines (a trailing unterminated rest is
// returned as a last element prefixed by "<<UNTERMINATED>>")
func splitCRLF(w []byte) []string {
	var out []string
	for len(w) > 0 {
		k := bytes.Index(w, []byte("\r\n"))
		if k < 0 {
			out = append(out, "<<UNTERMINATED>>"+string(w))
			break
		}
		out = append(out, string(w[:k]))
		w = w[k+2:]
	}
	return out
}

// callMethod invokes the exported command method named m with positional+variadic args.
func callMethod(c *client.Conn, m string, a []string) {
	arg := func(i int) string {
		if i < len(a) {
			return a[i]
		}
		return ""
	}
	rest := func(i int) []string {
		if i < len(a) {
			return a[i:]
		}
		return nil
	}
	switch m {
	case "Raw":
		c.Raw(arg(0))
	case "Pass":
		c.Pass(arg(0))
	case "Nick":
		c.Nick(arg(0))
	case "User":
		c.User(arg(0), arg(1))
	case "Join":
		c.Join(arg(0), rest(1)...)
	case "Part":
		c.Part(arg(0), rest(1)...)
	case "Kick":
		c.Kick(arg(0), arg(1), rest(2)...)
	case "Quit":
		c.Quit(rest(0)...)
	case "Whois":
		c.Whois(arg(0))
	case "Who":
		c.Who(arg(0))
	case "Privmsg":
		c.Privmsg(arg(0), arg(1))
	case "Privmsgln":
		c.Privmsgln(arg(0), arg(1))
	case "Privmsgf":
		c.Privmsgf(arg(0), "%s", arg(1))
	case "Notice":
		c.Notice(arg(0), arg(1))
	case "Ctcp":
		c.Ctcp(arg(0), arg(1), rest(2)...)
	case "CtcpReply":
		c.CtcpReply(arg(0), arg(1), rest(2)...)
	case "Version":
		c.Version(arg(0))
	case "Action":
		c.Action(arg(0), arg(1))
	case "Topic":
		c.Topic(arg(0), rest(1)...)
	case "Mode":
		c.Mode(arg(0), rest(1)...)
	case "Away":
		c.Away(rest(0)...)
	case "Invite":
		c.Invite(arg(0), arg(1))
	case "Oper":
		c.Oper(arg(0), arg(1))
	case "VHost":
		c.VHost(arg(0), arg(1))
	case "Ping":
		c.Ping(arg(0))
	case "Pong":
		c.Pong(arg(0))
	case "Cap":
		c.Cap(arg(0), rest(1)...)
	case "Authenticate":
		c.Authenticate(arg(0))
	default:
		panic("unknown method " + m)
	}
}

var allMethods = []string{"Raw", "Pass", "Nick", "User", "Join", "Part", "Kick", "Quit", "Whois", "Who",
	"Privmsg", "Privmsgln", "Privmsgf", "Notice", "Ctcp", "CtcpReply", "Version", "Action",
	"Topic", "Mode", "Away", "Invite", "Oper", "VHost", "Ping", "Pong", "Cap", "Authenticate"}
