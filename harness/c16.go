package main

// C16: handlers that panic (string, error, runtime error, custom struct; default LogPanic or a
// counting custom Recover that calls recover()), background handlers parked forever, built-in
// handlers made to panic by short lines (zero-argument ones included: PING, 433, CAP, JOIN).
// The connection stays up; every line must be delivered.
//
// Every session of C03 / C05 / C16 runs in a CHILD process (this binary re-executed as
// "h DSPchild", one session per process): a panic that escapes the recovery function kills the
// whole process, and that must become an observation ("dead" + the first line of the crash
// report), not the death of the harness; and nothing of one session (a background handler that
// starts or panics late, its log records, GOMAXPROCS) can leak into the next one.

import (
	"bufio"
	"bytes"
	"fmt"
	"os"
	"os/exec"
	"strings"
	"syscall"
	"time"
)

func init() {
	props["C16"] = &Prop{Gen: c16Gen, Exec: dspRunChild, Class: dspClass}
	props["DSPchild"] = &Prop{
		Gen:  func(r *Rand, tier string, scale int, emit func(Fields)) { dspChildMain() },
		Exec: func(in Fields) Fields { return F("bad") },
	}
}

func c16Gen(r *Rand, tier string, scale int, emit func(Fields)) {
	if scale == 0 {
		scale = 50
	}
	for n := 0; n < scale; n++ {
		o := dspGenOpt{panics: true, parks: true, shorts: true, track: n%4 == 3}
		if n%5 == 4 {
			// the connection ENDS (server EOF / Close() from a free goroutine) while background
			// handlers are parked for ever: DISCONNECTED must still be delivered, Close must return
			o = dspGenOpt{panics: true, parks: true, shorts: true, ends: true}
		}
		c := dspGenCase(r, o, n < 3)
		switch {
		case n%2 == 0:
			c.recmode = 0 // the default LogPanic in every other session
		case n%8 == 1:
			c.recmode = 2 // the hook installed after part of the registrations
		case n%8 == 5:
			c.recmode = 3 // the hook set through the retained *Config after Client(cfg)
		}
		if n%8 == 3 && c.endmode == 0 {
			c.seed = c.seed/8*8 + 1 // fg handlers register / remove a bg handler while bg handlers are parked
			c.parkPct = 50
		}
		if n%5 == 4 {
			c.endmode = 1 + r.Intn(2)
			c.parkPct = 50
			if c.dfg == 0 {
				c.dfg = 1
			}
			if c.vbg[1] == 0 {
				c.vbg[1] = 1
			}
		}
		emit(c.encode())
	}
}

func dspChildMain() {
	sc := bufio.NewScanner(os.Stdin)
	sc.Buffer(make([]byte, 1<<20), 1<<28)
	if !sc.Scan() {
		os.Exit(3)
	}
	in, err := ParseFields(sc.Text())
	if err != nil {
		os.Exit(3)
	}
	dspSetup()
	obs := dspExec(in)
	fmt.Println("OBS " + obs.String())
}

// dspRunChild runs one session in a child.  Outcomes: the observation the child printed; "dead" +
// crash report when it died; "dead" "stalled" + goroutine dump when its watchdog saw no progress
// (a blocked client or harness: always a failure); when the child is still making progress at the
// overall timeout (an overloaded machine) it is asked for a dump, killed and the same input is run
// ONCE more before "dead" "child timed out twice" is reported.
func dspRunChild(in Fields) Fields {
	obs, slow := dspRunChildOnce(in)
	if slow {
		fmt.Fprintln(os.Stderr, "dsp: child still making progress at the timeout (overloaded machine?); running the session once more")
		obs2, slow2 := dspRunChildOnce(in)
		if !slow2 {
			return obs2
		}
		return F("dead", "child timed out twice", string(obs[len(obs)-1]))
	}
	return obs
}

func dspRunChildOnce(in Fields) (Fields, bool) {
	exe, err := os.Executable()
	if err != nil {
		exe = os.Args[0]
	}
	cmd := exec.Command(exe, "DSPchild")
	cmd.Stdin = strings.NewReader(in.String() + "\n")
	var out, errb bytes.Buffer
	cmd.Stdout = &out
	cmd.Stderr = &errb
	if err := cmd.Start(); err != nil {
		return F("dead", "cannot-start-child: "+err.Error()), false
	}
	done := make(chan error, 1)
	timedOut := false
	go func() { done <- cmd.Wait() }()
	select {
	case err = <-done:
	case <-time.After(time.Duration(dspEnvSecs("DSP_CHILD_SECS", 150)) * time.Second):
		// ask the Go runtime for a goroutine dump (lands in the crash report), then kill
		cmd.Process.Signal(syscall.SIGQUIT)
		select {
		case <-done:
		case <-time.After(5 * time.Second):
			cmd.Process.Kill()
			<-done
		}
		err = fmt.Errorf("child timed out")
		timedOut = true
	}
	for _, l := range strings.Split(out.String(), "\n") {
		if strings.HasPrefix(l, "OBS ") && err == nil {
			if obs, perr := ParseFields(l[4:]); perr == nil {
				return obs, false
			}
		}
	}
	dump := errb.String()
	if len(dump) > 200000 {
		dump = dump[:200000]
	}
	if strings.Contains(dump, "DSPSTALL") {
		return F("dead", "stalled", dump), false
	}
	if timedOut {
		return F("dead", "child timed out", dump), true
	}
	// the process died: first line of the crash report (panic value)
	rep := strings.Split(strings.TrimSpace(dump), "\n")
	first := ""
	if len(rep) > 0 {
		first = rep[0]
	}
	if err != nil && first == "" {
		first = err.Error()
	}
	if len(first) > 300 {
		first = first[:300]
	}
	return F("dead", first), false
}
