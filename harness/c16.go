package main

// C16: handlers that panic (string, error, runtime error, custom struct; default LogPanic or a
// counting custom Recover that calls recover()), background handlers parked forever, built-in
// handlers made to panic by short lines.  The connection stays up; every line must be delivered.
func init() {
	props["C16"] = &Prop{Gen: c16Gen, Exec: dspExec, Setup: dspSetup, Class: dspClass}
}

func c16Gen(r *Rand, tier string, scale int, emit func(Fields)) {
	if scale == 0 {
		scale = 50
	}
	for n := 0; n < scale; n++ {
		o := dspGenOpt{panics: true, parks: true, shorts: true, track: n%4 == 3}
		emit(dspGenCase(r, o, n < 3).encode())
	}
}
