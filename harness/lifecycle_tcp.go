package main

// C07, session kind "lctcp": the client dials through ITS OWN net.Dialer (no proxy) to a
// throw-away TCP listener on 127.0.0.1:0 that speaks the same scripted server as the in-memory
// one.  Config.Timeout is small, the first connection is held LONGER than Config.Timeout, then
// the client is disconnected and must connect again — from inside the DISCONNECTED handler or
// from a goroutine woken by it — as often as the script says: "the same client can connect again
// any number of times".  What the dialer was given in Client() (Timeout per dial, no absolute
// deadline) is invisible to the in-memory sessions, which bypass the dialer.
//
// input  = ["lctcp"; timeout ms; hold ms; cycles; then per cycle: origin (0 handler / 1 goroutine);
//           ender (0 Close / 1 server EOF); pause ms before the ender]
// obs    = the same as for the in-memory sessions (event history, leaked, hung, fresh); a Connect
//          after a completed disconnect that fails makes fresh = false.  If no listener can be
//          bound the case is reported as skipped (an empty incomplete run), never as a violation.

import (
	"fmt"
	"net"
	"strings"
	"sync"
	"sync/atomic"
	"time"

	"github.com/fluffle/goirc/client"
)

type lcTCPCycle struct{ origin, ender, pauseMs int }

func lcRunTCP(in Fields) lcResult {
	timeoutMs, holdMs, ncy := in.I(1), in.I(2), in.I(3)
	if ncy > 8 {
		ncy = 8
	}
	var cycles []lcTCPCycle
	for i := 0; i < ncy; i++ {
		cycles = append(cycles, lcTCPCycle{origin: in.I(4 + 3*i), ender: in.I(5 + 3*i), pauseMs: in.I(6 + 3*i)})
	}
	k := &lcCase{log: &lcLog{}, fresh: true, discCh: make(chan int, 16), handlerConn: make(chan error, 16)}
	return lcWrap(k, func(label string) { k.runTCP(timeoutMs, holdMs, cycles) })
}

func (k *lcCase) runTCP(timeoutMs, holdMs int, cycles []lcTCPCycle) {
	ln, err := net.Listen("tcp", "127.0.0.1:0")
	if err != nil {
		k.mu.Lock()
		k.skipped = true
		k.mu.Unlock()
		k.note("cannot listen on 127.0.0.1: %v", err)
		return
	}
	defer ln.Close()
	var gen, curCall int32
	conns := make(chan *lcSrvConn, 16)
	go func() { // the scripted server: one lcSrvConn per accepted connection
		for {
			c, err := ln.Accept()
			if err != nil {
				return
			}
			g := int(atomic.AddInt32(&gen, 1))
			sc := &lcSrvConn{gen: g, c: c}
			sc.cond = sync.NewCond(&sc.mu)
			k.log.add("es:%d:%d", g, atomic.LoadInt32(&curCall))
			go sc.reader()
			conns <- sc
		}
	}()

	cfg := client.NewConfig("vbot", "vident", "v name")
	cfg.Server = ln.Addr().String()
	cfg.Flood = true
	cfg.PingFreq = 0
	cfg.Timeout = time.Duration(timeoutMs) * time.Millisecond
	conn := client.Client(cfg)
	k.conn = conn

	var cycle int32
	connect := func() error {
		c := k.newCall()
		atomic.StoreInt32(&curCall, int32(c))
		k.log.add("cc:%d", c)
		errc := make(chan error, 1)
		go func() { errc <- conn.Connect() }()
		var err error
		select {
		case err = <-errc:
		case <-time.After(lcBudget):
			k.fail("Connect call %d did not return within the budget", c)
			return fmt.Errorf("hung")
		}
		if err == nil {
			k.log.add("cr:%d:%d", c, atomic.LoadInt32(&cycle)+1)
		} else {
			k.log.add("cr:%d:-", c)
		}
		return err
	}
	conn.HandleFunc(client.REGISTER, func(c *client.Conn, l *client.Line) {
		k.log.add("rg:%d", atomic.LoadInt32(&cycle)+1)
	})
	conn.HandleFunc(client.DISCONNECTED, func(c *client.Conn, l *client.Line) {
		i := int(atomic.LoadInt32(&cycle))
		g := i + 1
		k.log.add("dc:%d", g)
		k.log.add("sm:D:%d:%s", g, lcB(c.Connected()))
		k.discCh <- g
		if i < len(cycles) && cycles[i].origin == 0 {
			atomic.StoreInt32(&cycle, int32(i+1))
			k.handlerConn <- connect()
		}
	})

	// serve: the connection of generation g is up; registration first, then it answers
	serve := func(g int) *lcSrvConn {
		var s *lcSrvConn
		select {
		case s = <-conns:
		case <-time.After(lcBudget):
			k.fail("generation %d: no connection accepted", g)
			return nil
		}
		if !s.waitFor(func(ls []string) bool { return len(ls) >= 2 }, lcBudget) {
			k.unfresh("generation %d: registration lines did not arrive", g)
			return s
		}
		s.mu.Lock()
		l0, l1 := s.lines[0], s.lines[1]
		s.mu.Unlock()
		if !strings.HasPrefix(l0, "NICK vbot") || !strings.HasPrefix(l1, "USER vident") {
			k.unfresh("generation %d: transcript begins %q %q", g, l0, l1)
		}
		return s
	}

	if err := connect(); err != nil {
		k.fail("first Connect failed: %v", err)
		return
	}
	for i := 0; i <= len(cycles); i++ {
		g := i + 1
		s := serve(g)
		if s == nil {
			return
		}
		// held longer than Config.Timeout (the first one), and still working afterwards
		hold := 20
		if i == 0 {
			hold = holdMs
		} else if i-1 < len(cycles) {
			hold += cycles[i-1].pauseMs
		}
		time.Sleep(time.Duration(hold) * time.Millisecond)
		if !s.marker(fmt.Sprintf("tcp%d", g), lcBudget) {
			k.unfresh("generation %d: connection does not answer after %d ms", g, hold)
			s.c.Close()
			return
		}
		// end it
		last := i == len(cycles)
		k.log.add("en:%d", g)
		closed := make(chan struct{})
		if last || cycles[i].ender == 0 {
			c := k.newCall()
			k.log.add("xc:%d", c)
			go func() { conn.Close(); k.log.add("xr:%d", c); close(closed) }()
		} else {
			s.c.Close()
			close(closed)
		}
		select {
		case <-k.discCh:
		case <-time.After(lcBudget):
			k.fail("generation %d: DISCONNECTED not delivered within %v", g, lcBudget)
			return
		}
		if last {
			select {
			case <-closed:
			case <-time.After(lcBudget):
				k.fail("final Close did not return")
			}
			s.c.Close()
			return
		}
		// the next connection: every Connect after a completed disconnect must succeed
		var cerr error
		if cycles[i].origin == 0 {
			select {
			case cerr = <-k.handlerConn:
			case <-time.After(lcBudget):
				k.fail("generation %d: Connect from the DISCONNECTED handler did not return", g)
				return
			}
		} else {
			select {
			case <-closed:
			case <-time.After(lcBudget):
				k.fail("generation %d: Close did not return", g)
				return
			}
			atomic.StoreInt32(&cycle, int32(i+1))
			cerr = connect()
		}
		select {
		case <-closed:
		case <-time.After(lcBudget):
			k.fail("generation %d: Close did not return", g)
			return
		}
		s.c.Close()
		if cerr != nil {
			origin := "the DISCONNECTED handler"
			if cycles[i].origin == 1 {
				origin = "a goroutine woken by DISCONNECTED"
			}
			k.unfresh("reconnect %d from %s, %d ms after Client() with Config.Timeout = %d ms, failed: %v",
				i+1, origin, holdMs, timeoutMs, cerr)
			return
		}
	}
}
