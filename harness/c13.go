package main

// C13: tracked state vs the server's ground truth.
//
// kind "sim": a Go network SIMULATOR mirroring coq/Model/Net.v (truth: users, channels,
// memberships with privilege sets; events; the lines a conformant server shows the client)
// plays the server for a REAL client with EnableStateTracking() over the in-memory socket.
// kind "rob": arbitrary / hostile lines for the 13 state-handler verbs.
// At every marker the harness sends "PING :m<k>", waits for "PONG :m<k>" (all earlier lines
// have been handled by then: Conn.dispatch waits for the internal handler set), records what
// the client wrote meanwhile (its MODE/WHO requests) and dumps the tracker through its public
// API.  Formats: coq/Model/NetObs.v.

import (
	"bufio"
	"fmt"
	"net"
	"sort"
	"strconv"
	"strings"
	"time"

	"github.com/fluffle/goirc/client"
	"github.com/fluffle/goirc/state"
)

func init() {
	props["C13"] = &Prop{Gen: c13Gen, Exec: c13Exec, Class: c13Class}
}

// ---------- the case ----------
type c13Chg struct {
	add    bool
	letter byte
	arg    string
}

type c13Item struct {
	op   string // CO JO PA KI QU NI TO MO RM RW RN MK L
	a    []string
	chgs []c13Chg
}

type c13Case struct {
	kind                 string
	me, user, host, real string
	// registration: the nick the 001 greets the client under, does its text end in nick!user@host
	greet  string
	mask   bool
	hasReg bool
	nicks, chans         []string
	items                []c13Item
}

func (c *c13Case) fields() Fields {
	f := F(c.kind, c.me, c.user, c.host, c.real, len(c.nicks), c.nicks, len(c.chans), c.chans)
	if c.hasReg {
		f = append(f, F("RG", c.greet, c.mask)...)
	}
	for _, it := range c.items {
		f = append(f, []byte(it.op))
		if it.op == "MO" {
			f = append(f, F(it.a[0], it.a[1], len(it.chgs))...)
			for _, g := range it.chgs {
				s := "-"
				if g.add {
					s = "+"
				}
				f = append(f, F(s+string(g.letter), g.arg)...)
			}
			continue
		}
		f = append(f, F(it.a)...)
	}
	return f
}

var c13Arity = map[string]int{"CO": 4, "JO": 2, "PA": 3, "KI": 4, "QU": 2, "NI": 2, "TO": 3, "RM": 1, "RW": 1, "RN": 1, "MK": 0, "L": 1}

func c13Parse(in Fields) (*c13Case, bool) {
	if len(in) < 7 {
		return nil, false
	}
	c := &c13Case{kind: in.S(0), me: in.S(1), user: in.S(2), host: in.S(3), real: in.S(4)}
	p := 5
	take := func() ([]string, bool) {
		if p >= len(in) {
			return nil, false
		}
		n, err := strconv.Atoi(in.S(p))
		p++
		if err != nil || n < 0 || p+n > len(in) {
			return nil, false
		}
		var out []string
		for i := 0; i < n; i++ {
			out = append(out, in.S(p))
			p++
		}
		return out, true
	}
	var ok bool
	if c.nicks, ok = take(); !ok {
		return nil, false
	}
	if c.chans, ok = take(); !ok {
		return nil, false
	}
	c.greet, c.mask = c.me, true
	if p+3 <= len(in) && in.S(p) == "RG" {
		c.greet, c.mask, c.hasReg = in.S(p+1), in.S(p+2) == "t", true
		p += 3
	}
	for p < len(in) {
		op := in.S(p)
		p++
		it := c13Item{op: op}
		if op == "MO" {
			if p+3 > len(in) {
				return nil, false
			}
			it.a = []string{in.S(p), in.S(p + 1)}
			k, err := strconv.Atoi(in.S(p + 2))
			p += 3
			if err != nil || k < 0 || p+2*k > len(in) {
				return nil, false
			}
			for i := 0; i < k; i++ {
				g := in.S(p)
				if len(g) != 2 || (g[0] != '+' && g[0] != '-') {
					return nil, false
				}
				it.chgs = append(it.chgs, c13Chg{add: g[0] == '+', letter: g[1], arg: in.S(p + 1)})
				p += 2
			}
		} else {
			n, known := c13Arity[op]
			if !known || p+n > len(in) || (op == "L") != (c.kind == "rob") && op != "MK" {
				return nil, false
			}
			for i := 0; i < n; i++ {
				it.a = append(it.a, in.S(p))
				p++
			}
		}
		c.items = append(c.items, it)
	}
	return c, c.kind == "sim" || c.kind == "rob"
}

// ---------- the network (truth), mirroring coq/Model/Net.v ----------
type c13User struct{ user, host, real string }
type c13Chan struct {
	topic string
	flags map[byte]bool
	key   string
	limit int64
}
type c13Net struct {
	me     string
	users  map[string]*c13User
	chans  map[string]*c13Chan
	member map[string]map[string]*[5]bool // channel -> nick -> q a o h v
}

const c13Srv = "irc.example"
const c13PrivLetters = "qaohv"
const c13Prefixes = "~&@%+"
const c13FlagLetters = "pstnmiOzrZ"
const c13ListLetters = "beI"
const c13NamesPerLine = 4

func c13NewNet(me, user, host, real string) *c13Net {
	return &c13Net{me: me, users: map[string]*c13User{me: {user, host, real}}, chans: map[string]*c13Chan{}, member: map[string]map[string]*[5]bool{}}
}

func c13WordOK(w string) bool {
	if w == "" {
		return false
	}
	for i := 0; i < len(w); i++ {
		switch w[i] {
		case 0, 9, 10, 11, 12, 13, 32:
			return false
		}
	}
	return true
}
func c13NameOK(w string) bool { return c13WordOK(w) && !strings.ContainsAny(w, "!@") }
func c13NickOK(w string) bool { return c13NameOK(w) && !strings.ContainsRune("~&@%+#:", rune(w[0])) }
func c13ChanOK(w string) bool { return c13WordOK(w) && w[0] == '#' }
func c13TextOK(t string) bool { return !strings.ContainsAny(t, "\x00\r\n") }
func c13MiddleOK(w string) bool {
	return c13WordOK(w) && w[0] != ':'
}

func (nt *c13Net) on(c, n string) bool {
	m, ok := nt.member[c]
	if !ok {
		return false
	}
	_, ok = m[n]
	return ok
}
func (nt *c13Net) shares(n string) bool {
	for c := range nt.chans {
		if nt.on(c, nt.me) && nt.on(c, n) {
			return true
		}
	}
	return false
}

func (nt *c13Net) chgValid(c string, g c13Chg) bool {
	switch {
	case g.letter == 'k':
		return c13MiddleOK(g.arg)
	case g.letter == 'l':
		if !g.add {
			return true
		}
		l, ok := c13Dec(g.arg)
		return ok && l > 0 && l <= 2147483647
	case strings.IndexByte(c13PrivLetters, g.letter) >= 0:
		return nt.on(c, g.arg)
	case strings.IndexByte(c13ListLetters, g.letter) >= 0:
		return c13MiddleOK(g.arg)
	default:
		return strings.IndexByte(c13FlagLetters, g.letter) >= 0
	}
}

// GoBytes.Z_of_dec: optional '-', then one or more digits, nothing else
func c13Dec(s string) (int64, bool) {
	t := s
	if strings.HasPrefix(t, "-") {
		t = t[1:]
	}
	if t == "" || len(t) > 18 {
		return 0, false
	}
	for i := 0; i < len(t); i++ {
		if t[i] < '0' || t[i] > '9' {
			return 0, false
		}
	}
	v, err := strconv.ParseInt(s, 10, 64)
	return v, err == nil
}

func (nt *c13Net) valid(it c13Item) bool {
	a := it.a
	switch it.op {
	case "CO":
		_, ex := nt.users[a[0]]
		return c13NickOK(a[0]) && c13NameOK(a[1]) && c13NameOK(a[2]) && c13TextOK(a[3]) && c13MiddleOK(a[1]) && c13MiddleOK(a[2]) && !ex
	case "JO":
		_, ex := nt.users[a[0]]
		return ex && c13ChanOK(a[1]) && !nt.on(a[1], a[0])
	case "PA":
		return nt.on(a[1], a[0]) && c13TextOK(a[2])
	case "KI":
		_, ex := nt.users[a[0]]
		return nt.on(a[1], a[2]) && ex && c13TextOK(a[3])
	case "QU":
		_, ex := nt.users[a[0]]
		return ex && a[0] != nt.me && c13TextOK(a[1])
	case "NI":
		_, ex := nt.users[a[0]]
		_, ex2 := nt.users[a[1]]
		return ex && !ex2 && c13NickOK(a[1])
	case "TO":
		_, ex := nt.chans[a[1]]
		_, exu := nt.users[a[0]]
		return ex && exu && c13TextOK(a[2])
	case "MO":
		_, ex := nt.chans[a[1]]
		_, exu := nt.users[a[0]]
		if !ex || !exu || len(it.chgs) < 1 || len(it.chgs) > 8 {
			return false
		}
		for _, g := range it.chgs {
			if !nt.chgValid(a[1], g) {
				return false
			}
		}
		return true
	case "RM":
		return true
	case "RW":
		return c13ChanOK(a[0])
	case "RN":
		return c13NickOK(a[0])
	}
	return false
}

func (nt *c13Net) src(n string) string {
	if u, ok := nt.users[n]; ok {
		return ":" + n + "!" + u.user + "@" + u.host
	}
	return ":" + c13Srv
}

func c13Prefix(p *[5]bool) string {
	for i := 0; i < 5; i++ {
		if p[i] {
			return string(c13Prefixes[i])
		}
	}
	return ""
}

func (nt *c13Net) sortedMembers(c string) []string {
	var ns []string
	for n := range nt.member[c] {
		ns = append(ns, n)
	}
	sort.Strings(ns)
	return ns
}

func c13RenderModes(chgs []c13Chg) (string, []string) {
	var sb strings.Builder
	var args []string
	first := true
	cur := false
	for _, g := range chgs {
		if first || cur != g.add {
			if g.add {
				sb.WriteByte('+')
			} else {
				sb.WriteByte('-')
			}
		}
		first, cur = false, g.add
		sb.WriteByte(g.letter)
		switch {
		case g.letter == 'k':
			args = append(args, g.arg)
		case g.letter == 'l':
			if g.add {
				l, _ := c13Dec(g.arg)
				args = append(args, strconv.FormatInt(l, 10))
			}
		case strings.IndexByte(c13PrivLetters, g.letter) >= 0, strings.IndexByte(c13ListLetters, g.letter) >= 0:
			args = append(args, g.arg)
		}
	}
	return sb.String(), args
}

func (ch *c13Chan) replyChanges() []c13Chg {
	var out []c13Chg
	for i := 0; i < len(c13FlagLetters); i++ {
		if ch.flags[c13FlagLetters[i]] {
			out = append(out, c13Chg{add: true, letter: c13FlagLetters[i]})
		}
	}
	if ch.key != "" {
		out = append(out, c13Chg{add: true, letter: 'k', arg: ch.key})
	}
	if ch.limit != 0 {
		out = append(out, c13Chg{add: true, letter: 'l', arg: strconv.FormatInt(ch.limit, 10)})
	}
	return out
}

func c13Join(xs ...string) string { return strings.Join(xs, " ") }

// the event's effect on the truth AND the lines the client is shown (Net.v: step, lines_for)
func (nt *c13Net) apply(it c13Item) []string {
	if !nt.valid(it) {
		return nil
	}
	a := it.a
	me := nt.me
	var out []string
	leave := func(c, n string) {
		delete(nt.member[c], n)
		if len(nt.member[c]) == 0 {
			delete(nt.member, c)
			delete(nt.chans, c)
		}
	}
	switch it.op {
	case "CO":
		nt.users[a[0]] = &c13User{a[1], a[2], a[3]}
	case "JO":
		n, c := a[0], a[1]
		src := nt.src(n)
		wasOn := nt.on(c, me)
		_, ex := nt.chans[c]
		p := &[5]bool{}
		if !ex {
			nt.chans[c] = &c13Chan{flags: map[byte]bool{}}
			nt.member[c] = map[string]*[5]bool{}
			p[2] = true
		}
		nt.member[c][n] = p
		if n == me {
			out = append(out, c13Join(src, "JOIN", c))
			if t := nt.chans[c].topic; t != "" {
				out = append(out, c13Join(":"+c13Srv, "332", me, c, ":"+t))
			}
			ns := nt.sortedMembers(c)
			for i := 0; i < len(ns); i += c13NamesPerLine {
				j := i + c13NamesPerLine
				if j > len(ns) {
					j = len(ns)
				}
				var toks []string
				for _, x := range ns[i:j] {
					toks = append(toks, c13Prefix(nt.member[c][x])+x)
				}
				out = append(out, c13Join(":"+c13Srv, "353", me, "=", c, ":"+strings.Join(toks, " ")))
			}
			out = append(out, c13Join(":"+c13Srv, "366", me, c, ":End of /NAMES list."))
		} else if wasOn {
			out = append(out, c13Join(src, "JOIN", c))
		}
	case "PA":
		if nt.on(a[1], me) {
			out = append(out, c13Join(nt.src(a[0]), "PART", a[1], ":"+a[2]))
		}
		leave(a[1], a[0])
	case "KI":
		if nt.on(a[1], me) {
			out = append(out, c13Join(nt.src(a[0]), "KICK", a[1], a[2], ":"+a[3]))
		}
		leave(a[1], a[2])
	case "QU":
		if nt.shares(a[0]) {
			out = append(out, c13Join(nt.src(a[0]), "QUIT", ":"+a[1]))
		}
		for c := range nt.chans {
			if nt.on(c, a[0]) {
				leave(c, a[0])
			}
		}
		delete(nt.users, a[0])
	case "NI":
		if a[0] == me || nt.shares(a[0]) {
			out = append(out, c13Join(nt.src(a[0]), "NICK", a[1]))
		}
		nt.users[a[1]] = nt.users[a[0]]
		delete(nt.users, a[0])
		for _, m := range nt.member {
			if p, ok := m[a[0]]; ok {
				delete(m, a[0])
				m[a[1]] = p
			}
		}
		if a[0] == me {
			nt.me = a[1]
		}
	case "TO":
		if nt.on(a[1], me) {
			out = append(out, c13Join(nt.src(a[0]), "TOPIC", a[1], ":"+a[2]))
		}
		nt.chans[a[1]].topic = a[2]
	case "MO":
		c := a[1]
		if nt.on(c, me) {
			ms, args := c13RenderModes(it.chgs)
			out = append(out, c13Join(append([]string{nt.src(a[0]), "MODE", c, ms}, args...)...))
		}
		ch := nt.chans[c]
		for _, g := range it.chgs {
			switch {
			case g.letter == 'k':
				if g.add {
					ch.key = g.arg
				} else {
					ch.key = ""
				}
			case g.letter == 'l':
				if g.add {
					ch.limit, _ = c13Dec(g.arg)
				} else {
					ch.limit = 0
				}
			case strings.IndexByte(c13PrivLetters, g.letter) >= 0:
				nt.member[c][g.arg][strings.IndexByte(c13PrivLetters, g.letter)] = g.add
			case strings.IndexByte(c13ListLetters, g.letter) >= 0:
			default:
				ch.flags[g.letter] = g.add
			}
		}
	case "RM":
		if ch, ok := nt.chans[a[0]]; ok {
			chgs := ch.replyChanges()
			ms, args := c13RenderModes(chgs)
			if len(chgs) == 0 {
				ms = "+"
			}
			out = append(out, c13Join(append([]string{":" + c13Srv, "324", me, a[0], ms}, args...)...))
		}
	case "RW":
		c := a[0]
		if nt.on(c, me) {
			for _, n := range nt.sortedMembers(c) {
				u := nt.users[n]
				out = append(out, c13Join(":"+c13Srv, "352", me, c, u.user, u.host, c13Srv, n, "H"+c13Prefix(nt.member[c][n]), ":0 "+u.real))
			}
		}
		out = append(out, c13Join(":"+c13Srv, "315", me, c, ":End of /WHO list."))
	case "RN":
		if u, ok := nt.users[a[0]]; ok {
			out = append(out, c13Join(":"+c13Srv, "352", me, "*", u.user, u.host, c13Srv, a[0], "H", ":0 "+u.real))
		}
		out = append(out, c13Join(":"+c13Srv, "315", me, a[0], ":End of /WHO list."))
	}
	return out
}

// ---------- the dump (rendering shared with C12: coq/Model/TrackerObs.v) ----------
func c13Dump(st state.Tracker, c *c13Case) Fields {
	f := c12Nick(st.Me())
	for _, n := range c.nicks {
		if nk := st.GetNick(n); nk != nil {
			f = append(f, c12Nick(nk)...)
		}
	}
	for _, ch := range c.chans {
		if x := st.GetChannel(ch); x != nil {
			f = append(f, c12Chan(x)...)
		}
	}
	f = append(f, []byte("I"))
	for _, ch := range c.chans {
		if st.GetChannel(ch) == nil {
			continue
		}
		for _, n := range c.nicks {
			if st.GetNick(n) == nil {
				continue
			}
			p, _ := st.IsOn(ch, n)
			f = append(f, []byte(c12OptPrivs(p)))
		}
	}
	return f
}

func c13Rec(tag string, fs Fields) Fields {
	return append(F(tag, len(fs)), fs...)
}

// ---------- running a case against the real client ----------
var c13KeySeq int

func c13Exec(in Fields) Fields {
	c, ok := c13Parse(in)
	if !ok {
		return F("bad")
	}
	c13KeySeq++
	ms := NewMemServer(fmt.Sprintf("c13-%d", c13KeySeq))
	defer func() {
		memMu.Lock()
		delete(memServers, ms.Key)
		memMu.Unlock()
	}()
	cfg := client.NewConfig(c.me, c.user, c.real)
	cfg.Server = c13Srv
	cfg.Proxy = ms.URL()
	cfg.Flood = true
	cfg.PingFreq = 0
	conn := client.Client(cfg)
	conn.EnableStateTracking()
	errc := make(chan error, 1)
	go func() { errc <- conn.Connect() }()
	var srv net.Conn
	select {
	case srv = <-ms.Conns:
	case <-time.After(10 * time.Second):
		return F("<<NO-CONNECT>>")
	}
	if err := <-errc; err != nil {
		return F("<<CONNECT-ERROR>>", err.Error())
	}
	defer func() {
		srv.Close()
		done := make(chan struct{})
		go func() { conn.Close(); close(done) }()
		select {
		case <-done:
		case <-time.After(5 * time.Second):
		}
	}()
	// everything the client writes, line by line
	got := make(chan string, 1<<16)
	go func() {
		rd := bufio.NewReaderSize(srv, 1<<16)
		for {
			s, err := rd.ReadString('\n')
			if err != nil {
				close(got)
				return
			}
			got <- strings.TrimRight(s, "\r\n")
		}
	}()
	send := func(lines []string) bool {
		if len(lines) == 0 {
			return true
		}
		srv.SetWriteDeadline(time.Now().Add(20 * time.Second))
		_, err := srv.Write([]byte(strings.Join(lines, "\r\n") + "\r\n"))
		return err == nil
	}
	mark := 0
	// sync: returns the lines the client wrote before the PONG of this marker
	sync := func() ([]string, bool) {
		mark++
		if !send([]string{fmt.Sprintf("PING :m%d", mark)}) {
			return nil, false
		}
		want := fmt.Sprintf("PONG :m%d", mark)
		var lines []string
		timeout := time.After(20 * time.Second)
		for {
			select {
			case s, ok := <-got:
				if !ok {
					return lines, false
				}
				if s == want {
					return lines, true
				}
				lines = append(lines, s)
			case <-timeout:
				return lines, false
			}
		}
	}
	// registration through the real 001 path (h_001): the server greets the client under c.greet
	// (which may differ from the configured nick: NICKLEN truncation, forced nick) and tells it
	// its user@host iff c.mask
	welcome := fmt.Sprintf(":%s 001 %s :Welcome to the network %s", c13Srv, c.greet, c.greet)
	if c.mask {
		welcome += "!" + c.user + "@" + c.host
	}
	if !send([]string{welcome}) {
		return F("<<NO-WRITE>>")
	}
	if _, ok := sync(); !ok {
		return F("<<NO-PONG>>")
	}
	st := conn.StateTracker()
	nt := c13NewNet(c.greet, c.user, c.host, c.real)
	var obs Fields
	for _, it := range c.items {
		switch it.op {
		case "MK":
			q, ok := sync()
			if !ok {
				return append(obs, []byte("<<NO-PONG>>"))
			}
			obs = append(obs, c13Rec("Q", F(q))...)
			obs = append(obs, c13Rec("D", c13Dump(st, c))...)
		case "L":
			if !send([]string{it.a[0]}) {
				return append(obs, []byte("<<NO-WRITE>>"))
			}
		default:
			lines := nt.apply(it)
			obs = append(obs, c13Rec("L", F(lines))...)
			if !send(lines) {
				return append(obs, []byte("<<NO-WRITE>>"))
			}
		}
	}
	return obs
}

func c13Class(in Fields) string {
	c, ok := c13Parse(in)
	if !ok {
		return "bad"
	}
	n := len(c.items)
	sz := "len<=12"
	switch {
	case n > 200:
		sz = "len>200"
	case n > 100:
		sz = "len=101-200"
	case n > 50:
		sz = "len=51-100"
	case n > 12:
		sz = "len=13-50"
	}
	cls := c.kind
	if c.kind == "sim" {
		for _, it := range c.items {
			if it.op == "MO" && !c13InClaim(it.chgs) {
				cls = "sim-drift(-k)"
				break
			}
		}
	}
	return cls + ":" + sz
}

// Net.v modes_inclaim: no argument-taking letter (for the tracker: +k, +l, privileges, list
// modes) after "-k" in the same line
func c13Consumes(g c13Chg) bool {
	return (g.letter == 'k' && g.add) || (g.letter == 'l' && g.add) || strings.IndexByte(c13PrivLetters, g.letter) >= 0 ||
		strings.IndexByte(c13ListLetters, g.letter) >= 0
}
func c13InClaim(chgs []c13Chg) bool {
	dirty := false
	for _, g := range chgs {
		if dirty && c13Consumes(g) {
			return false
		}
		if g.letter == 'k' && !g.add {
			dirty = true
		}
	}
	return true
}

// ---------- generators ----------
func c13Min(a, b int) int {
	if a < b {
		return a
	}
	return b
}

var c13NickPool = []string{"al", "bo", "cy", "di", "ed", "fay", "gus", "hal", "al_", "bo2", "Zed", "x1", "[w]"}
var c13MePool = []string{"vbot", "vbot_", "vb2"}

// nicks a server may greet the client under instead of the configured "vbot"
var c13GreetPool = []string{"vbo", "vbot_", "Guest7"}

// the registration of a generated case: half of the cases say it explicitly; of those 70% are
// greeted under another nick than the configured one; with / without the trailing hostmask
func c13Reg(r *Rand, c *c13Case) {
	c.greet, c.mask = c.me, true
	if r.Chance(50) {
		c.hasReg = true
		if r.Chance(70) {
			c.greet = r.Pick(c13GreetPool)
		}
		c.mask = r.Bool()
	}
}
var c13ChanPool = []string{"#x", "#y", "#go", "#z-1", "#A"}
var c13Topics = []string{"", "hi there", "t", ":odd :topic", "a  b   c ", "http://example.org/?q=1#frag"}
var c13Msgs = []string{"", "bye", "see you later", ":x", " leading", "trailing "}
var c13Reals = []string{"", "Real Name", "r", "A. N. Other :)", " x"}

type c13Gener struct {
	r       *Rand
	nt      *c13Net
	items   []c13Item
	nicks   []string // names other users may carry
	chans   []string
	pending []c13Item // reply events scheduled for later
	freed   []string  // recently freed nick names
	drift   bool
	nev     int
}

// spellings of a nick that differ from it only in the case of letters (IRC servers treat them as
// the same nick: a change between them is a rename of the same user)
func c13CaseVariants(n string) []string {
	var out []string
	if n == "" {
		return out
	}
	title := strings.ToUpper(n[:1]) + strings.ToLower(n[1:])
	for _, v := range []string{strings.ToUpper(n), strings.ToLower(n), title} {
		dup := v == n
		for _, w := range out {
			dup = dup || w == v
		}
		if !dup {
			out = append(out, v)
		}
	}
	return out
}

// is the nick, up to case, carried by a user other than `self`? Two users whose nicks differ only
// in case never coexist on a network: the generator does not emit such a connect / nick change
func (g *c13Gener) foldTaken(n, self string) bool {
	for u := range g.nt.users {
		if u != self && u != n && strings.EqualFold(u, n) {
			return true
		}
	}
	return false
}

func (g *c13Gener) emit(it c13Item) {
	if it.op == "CO" && g.foldTaken(it.a[0], "") || it.op == "NI" && g.foldTaken(it.a[1], it.a[0]) {
		return
	}
	// schedule the replies to the requests the client will make
	me := g.nt.me
	if it.op == "JO" && g.nt.valid(it) {
		if it.a[0] == me {
			g.pending = append(g.pending, c13Item{op: "RM", a: []string{it.a[1]}}, c13Item{op: "RW", a: []string{it.a[1]}})
		} else if g.nt.on(it.a[1], me) && !g.nt.shares(it.a[0]) {
			g.pending = append(g.pending, c13Item{op: "RN", a: []string{it.a[0]}})
		}
	}
	if (it.op == "QU" || it.op == "NI") && g.nt.valid(it) {
		g.freed = append(g.freed, it.a[0])
	}
	g.nt.apply(it)
	g.items = append(g.items, it)
	g.nev++
}

func (g *c13Gener) someUser() string {
	var us []string
	for u := range g.nt.users {
		us = append(us, u)
	}
	sort.Strings(us)
	return us[g.r.Intn(len(us))]
}
func (g *c13Gener) otherUser() (string, bool) {
	var us []string
	for u := range g.nt.users {
		if u != g.nt.me {
			us = append(us, u)
		}
	}
	if len(us) == 0 {
		return "", false
	}
	sort.Strings(us)
	return us[g.r.Intn(len(us))], true
}
func (g *c13Gener) memberOf(c string) (string, bool) {
	ns := g.nt.sortedMembers(c)
	if len(ns) == 0 {
		return "", false
	}
	return ns[g.r.Intn(len(ns))], true
}
func (g *c13Gener) myChan() (string, bool) {
	var cs []string
	for c := range g.nt.chans {
		if g.nt.on(c, g.nt.me) {
			cs = append(cs, c)
		}
	}
	if len(cs) == 0 {
		return "", false
	}
	sort.Strings(cs)
	return cs[g.r.Intn(len(cs))], true
}
func (g *c13Gener) anyChan() string {
	// biased to the client's channels: events elsewhere are invisible
	if c, ok := g.myChan(); ok && g.r.Chance(75) {
		return c
	}
	return g.r.Pick(g.chans)
}
func (g *c13Gener) freeNick() string {
	if len(g.freed) > 0 && g.r.Chance(60) {
		return g.freed[len(g.freed)-1-g.r.Intn(c13Min(3, len(g.freed)))]
	}
	return g.r.Pick(g.nicks)
}

func (g *c13Gener) modeChanges(c string) []c13Chg {
	n := g.r.Range(1, 4)
	if g.r.Chance(10) {
		n = g.r.Range(5, 8)
	}
	var out []c13Chg
	dirty := false
	for len(out) < n {
		var ch c13Chg
		ch.add = g.r.Chance(60)
		switch k := g.r.Intn(20); {
		case k < 6:
			ch.letter = c13FlagLetters[g.r.Intn(len(c13FlagLetters))]
		case k < 8:
			ch.letter = 'k'
			ch.arg = g.r.Pick([]string{"key", "s3cret", "k:k", "*"})
		case k < 10:
			ch.letter = 'l'
			if ch.add {
				ch.arg = g.r.Pick([]string{"5", "12", "100", "2147483647", "1"})
			}
		case k < 17:
			ch.letter = c13PrivLetters[g.r.Intn(5)]
			if g.r.Chance(50) {
				ch.letter = "ov"[g.r.Intn(2)]
			}
			m, ok := g.memberOf(c)
			if !ok {
				continue
			}
			ch.arg = m
		default:
			// list modes with their mask, anywhere in the line (D10 fixed: inside the claim)
			ch.letter = c13ListLetters[g.r.Intn(3)]
			ch.arg = g.r.Pick([]string{"*!*@*", "al!*@*", "*!*@host.example"})
		}
		if dirty && c13Consumes(ch) && !g.drift {
			continue // inside the claim: nothing argument-taking after -k
		}
		if ch.letter == 'k' && !ch.add {
			dirty = true
		}
		out = append(out, ch)
	}
	return out
}

func (g *c13Gener) event() {
	r := g.r
	me := g.nt.me
	// deliver a pending reply?
	if len(g.pending) > 0 && r.Chance(45) {
		i := 0
		if r.Chance(30) {
			i = r.Intn(len(g.pending))
		}
		it := g.pending[i]
		g.pending = append(g.pending[:i], g.pending[i+1:]...)
		g.emit(it)
		return
	}
	nmine := 0
	for c := range g.nt.chans {
		if g.nt.on(c, me) {
			nmine++
		}
	}
	if nmine < 2 && r.Chance(30) {
		g.emit(c13Item{op: "JO", a: []string{me, r.Pick(g.chans)}})
		return
	}
	switch k := r.Intn(100); {
	case k < 6: // a user connects (often under a recently freed name)
		g.emit(c13Item{op: "CO", a: []string{g.freeNick(), r.Pick([]string{"u", "~id", "user9"}), r.Pick([]string{"h.example", "10.0.0.7", "host-2.example.org"}), r.Pick(c13Reals)}})
	case k < 16: // the client joins (re-joins) a channel
		g.emit(c13Item{op: "JO", a: []string{me, r.Pick(g.chans)}})
	case k < 36: // somebody else joins
		if u, ok := g.otherUser(); ok {
			g.emit(c13Item{op: "JO", a: []string{u, g.anyChan()}})
		}
	case k < 44: // part
		c := g.anyChan()
		n := me
		if r.Chance(85) {
			if m, ok := g.memberOf(c); ok {
				n = m
			}
		}
		g.emit(c13Item{op: "PA", a: []string{n, c, r.Pick(c13Msgs)}})
	case k < 51: // kick (the client itself one time in five)
		c := g.anyChan()
		v := me
		if r.Chance(80) {
			if m, ok := g.memberOf(c); ok {
				v = m
			}
		}
		g.emit(c13Item{op: "KI", a: []string{g.someUser(), c, v, r.Pick(c13Msgs)}})
	case k < 54: // quit
		if u, ok := g.otherUser(); ok {
			g.emit(c13Item{op: "QU", a: []string{u, r.Pick(c13Msgs)}})
		}
	case k < 56: // a burst of joins
		for i := r.Range(2, 4); i > 0; i-- {
			if u, ok := g.otherUser(); ok {
				g.emit(c13Item{op: "JO", a: []string{u, g.anyChan()}})
			}
		}
	case k < 66: // nick change (the client itself sometimes; onto freed names; case-only changes)
		o := me
		neu := r.Pick(c13MePool)
		if r.Chance(80) {
			if u, ok := g.otherUser(); ok {
				o, neu = u, g.freeNick()
			}
		}
		if r.Chance(35) {
			// the same user under another capitalisation (Bob -> bob): a rename like any other,
			// followed by traffic under the new spelling
			if vs := c13CaseVariants(o); len(vs) > 0 {
				neu = vs[r.Intn(len(vs))]
				g.emit(c13Item{op: "NI", a: []string{o, neu}})
				if _, ok := g.nt.users[neu]; ok && neu != g.nt.me {
					for c := range g.nt.chans {
						if g.nt.on(c, neu) && g.nt.on(c, g.nt.me) && r.Chance(70) {
							g.emit(c13Item{op: "MO", a: []string{g.someUser(), c}, chgs: []c13Chg{{add: r.Bool(), letter: "ov"[r.Intn(2)], arg: neu}}})
							break
						}
					}
					switch r.Intn(5) {
					case 0:
						g.emit(c13Item{op: "QU", a: []string{neu, r.Pick(c13Msgs)}})
					case 1:
						if c, ok := g.myChan(); ok {
							g.emit(c13Item{op: "PA", a: []string{neu, c, r.Pick(c13Msgs)}})
						}
					case 2:
						if c, ok := g.myChan(); ok {
							g.emit(c13Item{op: "KI", a: []string{g.someUser(), c, neu, r.Pick(c13Msgs)}})
						}
					}
				}
				return
			}
		}
		g.emit(c13Item{op: "NI", a: []string{o, neu}})
	case k < 73: // topic
		g.emit(c13Item{op: "TO", a: []string{g.someUser(), g.anyChan(), r.Pick(c13Topics)}})
	case k < 93: // mode
		c := g.anyChan()
		g.emit(c13Item{op: "MO", a: []string{g.someUser(), c}, chgs: g.modeChanges(c)})
	case k < 95:
		g.emit(c13Item{op: "RM", a: []string{g.anyChan()}})
	case k < 97:
		g.emit(c13Item{op: "RW", a: []string{g.anyChan()}})
	case k < 98:
		g.emit(c13Item{op: "RN", a: []string{g.someUser()}})
	default: // deliberately invalid: unknown user / channel, nick in use
		switch r.Intn(4) {
		case 0:
			g.emit(c13Item{op: "NI", a: []string{g.someUser(), g.someUser()}})
		case 1:
			g.emit(c13Item{op: "PA", a: []string{"nobody", g.anyChan(), ""}})
		case 2:
			g.emit(c13Item{op: "MO", a: []string{g.someUser(), g.anyChan()}, chgs: []c13Chg{{add: true, letter: 'o', arg: "nobody"}}})
		default:
			g.emit(c13Item{op: "JO", a: []string{"nobody", "#x"}})
		}
	}
}

func c13Sim(r *Rand, nev, nusers, nchans, spare int, drift bool) *c13Case {
	c := &c13Case{kind: "sim", me: "vbot", user: "vident", host: "client.example", real: "v name"}
	c13Reg(r, c)
	g := &c13Gener{r: r, nt: c13NewNet(c.greet, c.user, c.host, c.real), drift: drift}
	g.nicks = append([]string{}, c13NickPool[:c13Min(len(c13NickPool), nusers+spare)]...)
	g.chans = append([]string{}, c13ChanPool[:nchans]...)
	for i := 0; i < nusers; i++ {
		g.emit(c13Item{op: "CO", a: []string{g.nicks[i], r.Pick([]string{"u", "~id"}) + strconv.Itoa(i), "h" + strconv.Itoa(i) + ".example", r.Pick(c13Reals)}})
	}
	next := r.Range(3, 20)
	for g.nev < nev {
		g.event()
		next--
		if next <= 0 {
			g.items = append(g.items, c13Item{op: "MK"})
			next = r.Range(5, 25)
		}
	}
	for _, it := range g.pending { // the outstanding replies arrive at last
		g.emit(it)
	}
	g.items = append(g.items, c13Item{op: "MK"})
	c.items = g.items
	c.nicks = append(append([]string{""}, c13MePool...), g.nicks...)
	c.nicks = append(c.nicks, "nobody", "vbo", "Guest7")
	// every spelling a case-only nick change can produce
	seen := map[string]bool{}
	for _, n := range c.nicks {
		seen[n] = true
	}
	for _, n := range append([]string{}, c.nicks...) {
		if n == "" {
			continue
		}
		for _, v := range c13CaseVariants(n) {
			if !seen[v] {
				seen[v] = true
				c.nicks = append(c.nicks, v)
			}
		}
	}
	c.chans = append([]string{""}, g.chans...)
	return c
}

// ----- hostile lines for the 13 verbs of the state handlers -----
var c13RobVerbs = []string{"JOIN", "KICK", "MODE", "NICK", "PART", "QUIT", "TOPIC", "311", "324", "332", "352", "353", "671"}

func c13RobCase(r *Rand, nlines int) *c13Case {
	c := &c13Case{kind: "rob", me: "vbot", user: "vident", host: "client.example", real: "v name"}
	c13Reg(r, c)
	names := []string{"vbot", "vbot_", "al", "bo", "cy", "#x", "#y", "@al", "+bo", ""}
	used := map[string]bool{c.greet: true}
	for _, n := range names {
		used[n] = true
	}
	me := c.greet // the generator's guess of the client's nick (hostile NICK lines may change it)
	N := func() string {
		if r.Chance(25) {
			return me
		}
		return r.Pick(names)
	}
	C := func() string {
		if r.Chance(70) {
			return r.Pick([]string{"#x", "#y"})
		}
		return r.Pick(names)
	}
	src := func() string {
		switch r.Intn(10) {
		case 0:
			return ""
		case 1:
			return ":" + c13Srv + " "
		case 2:
			return ":" + N() + " "
		default:
			return ":" + N() + "!" + r.Pick([]string{"u", "id", ""}) + "@" + r.Pick([]string{"h.example", "h", ""}) + " "
		}
	}
	tok := func() string {
		n := N()
		switch r.Intn(6) {
		case 0:
			n = string(c13Prefixes[r.Intn(5)]) + n
		case 1:
			n = string(c13Prefixes[r.Intn(5)]) + string(c13Prefixes[r.Intn(5)]) + n
			used[n[1:]] = true
		}
		return n
	}
	modes := func() string {
		k := r.Range(0, 5)
		b := make([]byte, k)
		for i := range b {
			b[i] = "++--ovkltnqahbiIzB"[r.Intn(18)]
		}
		return string(b)
	}
	arg := func() string {
		switch r.Intn(8) {
		case 0:
			return C()
		case 1:
			return modes()
		case 2:
			return r.Pick([]string{"key", "12", "-3", "0 real name", "0", "H", "H*", "GB@", "=", "*"})
		default:
			return N()
		}
	}
	line := func() string {
		verb := r.Pick(c13RobVerbs)
		if r.Chance(8) {
			verb = strings.ToLower(verb)
		}
		// a shaped line most of the time, with random deviations in the number of arguments
		var a []string
		tr := ""
		hasTr := false
		switch strings.ToUpper(verb) {
		case "JOIN":
			a = []string{C()}
		case "PART":
			a = []string{C()}
			tr, hasTr = "bye", r.Bool()
		case "KICK":
			a = []string{C(), N()}
			tr, hasTr = "out", r.Bool()
		case "NICK":
			a = []string{N()}
		case "QUIT":
			tr, hasTr = "gone", r.Bool()
		case "TOPIC":
			a = []string{C()}
			tr, hasTr = r.Pick(c13Topics), true
		case "MODE":
			a = []string{C(), modes()}
			if r.Chance(20) {
				a[0] = N()
			}
			for k := r.Intn(4); k > 0; k-- {
				a = append(a, arg())
			}
		case "324":
			a = []string{N(), C(), modes()}
			for k := r.Intn(3); k > 0; k-- {
				a = append(a, arg())
			}
		case "332":
			a = []string{N(), C()}
			tr, hasTr = r.Pick(c13Topics), true
		case "353":
			a = []string{N(), "=", C()}
			var toks []string
			for k := r.Intn(6); k > 0; k-- {
				toks = append(toks, tok())
			}
			tr, hasTr = strings.Join(toks, r.Pick([]string{" ", " ", "  "})), r.Chance(90)
			if r.Chance(10) {
				tr += " "
			}
		case "352":
			a = []string{N(), C(), "u", "h", c13Srv, N(), r.Pick([]string{"H", "G", "H*", "H@", "HB", "*"})}
			tr, hasTr = r.Pick([]string{"0 real name", "0", "3 x", "", "0 "}), r.Chance(90)
		case "311":
			a = []string{N(), N(), "u", "h", "*"}
			tr, hasTr = "Real Name", r.Chance(90)
		case "671":
			a = []string{N(), N()}
			tr, hasTr = "is using a secure connection", r.Bool()
		}
		switch r.Intn(10) {
		case 0: // drop arguments
			if len(a) > 0 {
				a = a[:r.Intn(len(a))]
			}
		case 1: // no arguments at all
			a, hasTr = nil, false
		case 2: // an extra / odd argument
			a = append(a, arg())
		case 3: // an empty trailing instead
			a, tr, hasTr = a[:len(a)/2], "", true
		}
		s := src() + verb
		for _, x := range a {
			if x == "" || strings.ContainsAny(x, " ") || x[0] == ':' {
				continue // cannot be written as a middle parameter
			}
			s += " " + x
		}
		if hasTr {
			s += " :" + tr
		}
		return s
	}
	// a conformant-looking prologue so that there is state to attack
	pro := []string{
		":" + me + "!vident@client.example JOIN #x",
		":" + c13Srv + " 353 " + me + " = #x :@al +bo " + me,
		":" + me + "!vident@client.example JOIN #y",
		":" + c13Srv + " 353 " + me + " = #y :cy al",
	}
	for _, l := range pro[:r.Intn(len(pro)+1)] {
		c.items = append(c.items, c13Item{op: "L", a: []string{l}})
	}
	next := r.Range(5, 40)
	for i := 0; i < nlines; i++ {
		l := line()
		if strings.HasPrefix(l, ":"+me+"!") || strings.HasPrefix(l, ":"+me+" ") {
			if k := strings.Index(l, " NICK "); k >= 0 && len(l) > k+6 {
				me = strings.TrimPrefix(l[k+6:], ":") // keep guessing who the client is
			}
		}
		c.items = append(c.items, c13Item{op: "L", a: []string{l}})
		next--
		if next <= 0 {
			c.items = append(c.items, c13Item{op: "MK"})
			next = r.Range(10, 60)
		}
	}
	c.items = append(c.items, c13Item{op: "MK"})
	// the universe: every word of every line (a hostile line can make any of them a nick or
	// a channel), also without its source decoration / one NAMES prefix
	for _, it := range c.items {
		if it.op != "L" {
			continue
		}
		for _, w := range strings.Split(it.a[0], " ") {
			w = strings.TrimPrefix(w, ":")
			used[w] = true
			if k := strings.IndexByte(w, '!'); k >= 0 {
				used[w[:k]] = true
			}
			if w != "" && strings.IndexByte(c13Prefixes, w[0]) >= 0 {
				used[w[1:]] = true
			}
		}
	}
	var u []string
	for n := range used {
		u = append(u, n)
	}
	sort.Strings(u)
	c.nicks, c.chans = u, u
	return c
}

func c13Gen(r *Rand, tier string, scale int, emit func(in Fields)) {
	if scale <= 0 {
		scale = 100
	}
	// tiny cases first: they fit the in-Coq cross-check of the first cases
	for i := 0; i < 12; i++ {
		emit(c13Sim(r.Fork(), r.Range(3, 7), 2, 1, 0, false).fields())
	}
	for i := 0; i < 10; i++ {
		emit(c13RobCase(r.Fork(), r.Range(2, 6)).fields())
	}
	// two scripted tiny sessions: a user / the client itself changes only the CASE of its nick
	// (the same user for the server), then traffic under the new spelling
	ev := func(op string, a ...string) c13Item { return c13Item{op: op, a: a} }
	for _, own := range []bool{false, true} {
		c := &c13Case{kind: "sim", me: "vbot", user: "vident", host: "client.example", real: "v name", greet: "vbot", mask: true,
			nicks: []string{"vbot", "VBOT", "Vbot", "Bob", "bob", "BOB"}, chans: []string{"#x"}}
		c.items = []c13Item{ev("CO", "Bob", "u", "h.example", "Bob B"), ev("JO", "vbot", "#x"), ev("JO", "Bob", "#x"), ev("MK")}
		if own {
			c.items = append(c.items, ev("NI", "vbot", "VBOT"), ev("MK"),
				c13Item{op: "MO", a: []string{"Bob", "#x"}, chgs: []c13Chg{{add: true, letter: 'v', arg: "VBOT"}}}, ev("NI", "VBOT", "Vbot"), ev("MK"))
		} else {
			c.items = append(c.items, ev("NI", "Bob", "bob"), ev("MK"),
				c13Item{op: "MO", a: []string{"vbot", "#x"}, chgs: []c13Chg{{add: true, letter: 'v', arg: "bob"}}}, ev("NI", "bob", "BOB"),
				ev("PA", "BOB", "#x", "bye"), ev("MK"))
		}
		emit(c.fields())
	}
	lo, hi := 50, 300
	if tier == "thorough" {
		hi = 1000
	}
	for i := 0; i < scale; i++ {
		drift := i%25 == 24 // a few sessions with argument-taking letters after -k (outside the claim): not gated
		emit(c13Sim(r.Fork(), r.Range(lo, hi), r.Range(3, 8), r.Range(2, 5), 4, drift).fields())
	}
	for i := 0; i < 2*scale; i++ {
		emit(c13RobCase(r.Fork(), r.Range(30, 200)).fields())
	}
}
