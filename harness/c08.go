package main

import (
	"strings"
	"sync"
	"time"
)

// C08: every exported command method with hostile strings in every argument position;
// observation = the exact bytes the server end received for that one call.
var c08ws *WireSession

// a second client in the same process, used by the "pressure" cases (SplitLen 6000): while the
// first client's long line is being taken slowly by its server, the second one keeps writing
// long lines of its own.  Nothing of one client's traffic may show up on the other's wire.
var c08ws2 *WireSession

const c08Pressure = 6000

func init() {
	props["C08"] = &Prop{
		Setup:    func() { c08ws = NewWireSession(nil) },
		Teardown: func() {
			c08ws.Close()
			if c08ws2 != nil {
				c08ws2.Close()
			}
		},
		Gen:      c08Gen,
		Exec:     c08Exec,
		Class: func(in Fields) string {
			k := "plain"
			for _, a := range in[3:] {
				if strings.ContainsAny(string(a), "\r\n") {
					k = "crlf"
				}
			}
			return in.S(0) + ":" + k
		},
	}
}

// positional arity and whether a variadic tail follows
var c08Arity = map[string][2]int{
	"Raw": {1, 0}, "Pass": {1, 0}, "Nick": {1, 0}, "User": {2, 0}, "Join": {1, 1}, "Part": {1, 1},
	"Kick": {2, 1}, "Quit": {0, 1}, "Whois": {1, 0}, "Who": {1, 0}, "Privmsg": {2, 0}, "Privmsgln": {2, 0},
	"Privmsgf": {2, 0}, "Notice": {2, 0}, "Ctcp": {2, 1}, "CtcpReply": {2, 1}, "Version": {1, 0},
	"Action": {2, 0}, "Topic": {1, 1}, "Mode": {1, 1}, "Away": {0, 1}, "Invite": {2, 0}, "Oper": {2, 0},
	"VHost": {2, 0}, "Ping": {1, 0}, "Pong": {1, 0}, "Cap": {1, 1}, "Authenticate": {1, 0},
}

func c08Atom(r *Rand) string {
	switch r.Intn(16) {
	case 0:
		return "\r"
	case 1:
		return "\n"
	case 2:
		return "\r\n"
	case 3:
		return "\n\r"
	case 4:
		return "\x00"
	case 5:
		return "\x01"
	case 6:
		return ""
	case 7:
		return strings.Repeat("x", 600)
	case 8:
		return " :"
	case 9:
		return "\nQUIT :pwned"
	case 10:
		return "abc\r\nQUIT :pwned\r\n"
	case 11:
		return []string{"#chan", "100%", "%s%d%n%!", "50%% off\r\nQUIT"}[r.Intn(4)]
	case 12:
		return string(r.Bytes(r.Range(1, 12), nil))
	case 13:
		return "hello world. this is: a test, ok? " + string(r.Bytes(r.Range(0, 5), []byte("\r\n ab")))
	case 14:
		return strings.Repeat("word. ", r.Range(50, 200)) + "\rX"
	default:
		return string(r.Bytes(r.Range(1, 30), []byte("abcXYZ #:!\r\n\x01")))
	}
}

func c08Benign(r *Rand) string {
	return r.Pick([]string{"a", "#c", "nick", "some text", "x y", "", "k"})
}

func asciiVerb(r *Rand) string {
	// CTCP verb argument: ASCII only (see checks/C08.json), still hostile
	return string(r.Bytes(r.Range(0, 8), []byte("aZ9 \r\n\x01:vV")))
}

func c08Gen(r *Rand, tier string, scale int, emit func(Fields)) {
	if scale == 0 {
		scale = 6000
	}
	lens := []int{-5, 0, 12, 13, 14, 50, 450, 1000}
	for i := 0; i < scale; i++ {
		m := allMethods[i%len(allMethods)]
		ar := c08Arity[m]
		n := ar[0]
		if ar[1] == 1 {
			n += r.Intn(4)
		}
		args := make([]string, n)
		hostile := -1
		if n > 0 {
			hostile = r.Intn(n)
		}
		for j := range args {
			switch {
			case j == hostile || r.Chance(25):
				args[j] = c08Atom(r)
			default:
				args[j] = c08Benign(r)
			}
		}
		if (m == "Ctcp" || m == "CtcpReply") && len(args) > 1 {
			args[1] = asciiVerb(r)
		}
		qm := "GoBye!"
		if r.Chance(20) {
			qm = c08Atom(r)
		}
		sl := lens[r.Intn(len(lens))]
		if r.Chance(3) && n > 0 {
			// pressure case: one very long argument (lines beyond bufio's 4096-byte buffer)
			sl = c08Pressure
			args[hostile] = strings.Repeat(r.Pick([]string{"x", "ab ", "word. "}), 1+r.Range(4200, 5200)/3) + c08Atom(r)
			if (m == "Ctcp" || m == "CtcpReply") && hostile == 1 {
				args[1] = asciiVerb(r)
			}
		}
		emit(F(m, sl, qm, args))
	}
}

func c08Exec(in Fields) Fields {
	m := in.S(0)
	cfg := c08ws.Conn.Config()
	cfg.SplitLen = in.I(1)
	cfg.QuitMessage = in.S(2)
	var args []string
	for _, a := range in[3:] {
		args = append(args, string(a))
	}
	if in.I(1) == c08Pressure {
		if c08ws2 == nil {
			c08ws2 = NewWireSession(nil)
		}
		var pmu sync.Mutex
		c08ws.Pace = func() int { // the first client's server takes 64 bytes at a time, slowly
			pmu.Lock()
			defer pmu.Unlock()
			time.Sleep(40 * time.Microsecond)
			return 64
		}
		stop, stopped := make(chan struct{}), make(chan struct{})
		other := "OTHER " + strings.Repeat("o", 4000)
		go func() {
			defer close(stopped)
			for {
				select {
				case <-stop:
					return
				default:
					c08ws2.Conn.Raw(other)
				}
			}
		}()
		defer func() {
			close(stop)
			<-stopped
			c08ws.Pace = nil
			c08ws2.Call(func() {}) // cut the second session's buffer
		}()
	}
	w := c08ws.Call(func() { callMethod(c08ws.Conn, m, args) })
	return F(w)
}
