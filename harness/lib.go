// Correspondence harness for the Coq development in /verif/coq.
//
// One sub-command per property.  Every property supplies
//   Gen  : derives inputs (lists of byte-string fields) from ONE splitmix64 state, and
//   Exec : runs the real goirc code on one input and returns the observation fields.
// The harness writes "<input fields> | <observation fields>" lines (fields in hex), which
// the extracted model (ocaml/modelrun) then judges.  Replay = Exec on stored inputs.
package main

import (
	"bufio"
	"encoding/hex"
	"flag"
	"fmt"
	"os"
	"sort"
	"strings"
)

// ---------- PRNG: splitmix64, the only source of randomness ----------
type Rand struct{ s uint64 }

func (r *Rand) U64() uint64 {
	r.s += 0x9e3779b97f4a7c15
	z := r.s
	z = (z ^ (z >> 30)) * 0xbf58476d1ce4e5b9
	z = (z ^ (z >> 27)) * 0x94d049bb133111eb
	return z ^ (z >> 31)
}
func (r *Rand) Intn(n int) int {
	if n <= 0 {
		return 0
	}
	return int(r.U64() % uint64(n))
}
func (r *Rand) Range(lo, hi int) int { return lo + r.Intn(hi-lo+1) } // inclusive
func (r *Rand) Bool() bool           { return r.U64()&1 == 1 }
func (r *Rand) Chance(pct int) bool  { return r.Intn(100) < pct }
func (r *Rand) Pick(xs []string) string {
	return xs[r.Intn(len(xs))]
}
func (r *Rand) Bytes(n int, alphabet []byte) []byte {
	b := make([]byte, n)
	for i := range b {
		if alphabet == nil {
			b[i] = byte(r.Intn(256))
		} else {
			b[i] = alphabet[r.Intn(len(alphabet))]
		}
	}
	return b
}
func (r *Rand) Fork() *Rand { return &Rand{s: r.U64()} }

// ---------- fields ----------
type Fields [][]byte

func F(xs ...interface{}) Fields {
	var f Fields
	for _, x := range xs {
		switch v := x.(type) {
		case string:
			f = append(f, []byte(v))
		case []byte:
			f = append(f, v)
		case int:
			f = append(f, []byte(fmt.Sprintf("%d", v)))
		case int64:
			f = append(f, []byte(fmt.Sprintf("%d", v)))
		case bool:
			if v {
				f = append(f, []byte("t"))
			} else {
				f = append(f, []byte("f"))
			}
		case []string:
			for _, s := range v {
				f = append(f, []byte(s))
			}
		case Fields:
			f = append(f, v...)
		default:
			panic(fmt.Sprintf("F: unsupported %T", x))
		}
	}
	return f
}

func (f Fields) String() string {
	parts := make([]string, len(f))
	for i, x := range f {
		if len(x) == 0 {
			parts[i] = "-"
		} else {
			parts[i] = hex.EncodeToString(x)
		}
	}
	return strings.Join(parts, " ")
}

func ParseFields(s string) (Fields, error) {
	var f Fields
	for _, p := range strings.Fields(s) {
		if p == "-" {
			f = append(f, []byte{})
			continue
		}
		b, err := hex.DecodeString(p)
		if err != nil {
			return nil, err
		}
		f = append(f, b)
	}
	return f, nil
}

func (f Fields) S(i int) string {
	if i < len(f) {
		return string(f[i])
	}
	return ""
}
func (f Fields) I(i int) int {
	var n int
	fmt.Sscanf(f.S(i), "%d", &n)
	return n
}

// ---------- property registry ----------
type Prop struct {
	// Gen emits inputs; scale is the tier's case budget
	Gen func(r *Rand, tier string, scale int, emit func(in Fields))
	// Exec runs the implementation on one input
	Exec func(in Fields) Fields
	// Setup / Teardown bracket a batch of Exec calls (optional)
	Setup    func()
	Teardown func()
	// Class labels an input for the distribution report (optional)
	Class func(in Fields) string
}

var props = map[string]*Prop{}

func main() {
	if len(os.Args) < 2 {
		fmt.Fprintln(os.Stderr, "usage: h <property> [-seed n] [-tier quick|thorough] [-n scale] [-out file] [-inputs file]")
		os.Exit(2)
	}
	id := os.Args[1]
	fs := flag.NewFlagSet(id, flag.ExitOnError)
	seed := fs.Uint64("seed", 1, "PRNG seed")
	tier := fs.String("tier", "quick", "quick|thorough")
	n := fs.Int("n", 0, "case budget (0 = tier default)")
	out := fs.String("out", "", "output file (default stdout)")
	inputs := fs.String("inputs", "", "file of stored inputs to run INSTEAD of generating (corpus / replay)")
	dist := fs.String("dist", "", "write the input distribution (class counts) to this file")
	fs.Parse(os.Args[2:])
	p, ok := props[id]
	if !ok {
		fmt.Fprintln(os.Stderr, "unknown property", id)
		os.Exit(2)
	}
	w := bufio.NewWriter(os.Stdout)
	if *out != "" {
		f, err := os.Create(*out)
		if err != nil {
			panic(err)
		}
		defer f.Close()
		w = bufio.NewWriter(f)
	}
	defer w.Flush()
	classes := map[string]int{}
	if p.Setup != nil {
		p.Setup()
	}
	// journal of the case in flight: if the process dies inside Exec (a crash of the library on
	// another goroutine, runaway allocation, a kill after a timeout) the driver finds the input
	// that was being executed in <out>.inflight and reports it as the failing case
	inflight := ""
	if *out != "" {
		inflight = *out + ".inflight"
	}
	run := func(in Fields) {
		if inflight != "" {
			os.WriteFile(inflight, []byte(in.String()+"\n"), 0o644)
		}
		obs := p.Exec(in)
		if inflight != "" {
			os.Remove(inflight)
		}
		fmt.Fprintf(w, "%s | %s\n", in.String(), obs.String())
		w.Flush() // a run cut short by a timeout still leaves every finished case behind
		if p.Class != nil {
			classes[p.Class(in)]++
		}
	}
	if *inputs != "" {
		f, err := os.Open(*inputs)
		if err != nil {
			panic(err)
		}
		sc := bufio.NewScanner(f)
		sc.Buffer(make([]byte, 1<<20), 1<<28)
		for sc.Scan() {
			line := sc.Text()
			if k := strings.Index(line, "|"); k >= 0 {
				line = line[:k]
			}
			if strings.TrimSpace(line) == "" || strings.HasPrefix(line, "#") {
				continue
			}
			in, err := ParseFields(line)
			if err != nil {
				panic(err)
			}
			run(in)
		}
		f.Close()
	} else {
		r := &Rand{s: *seed}
		p.Gen(r, *tier, *n, run)
	}
	if p.Teardown != nil {
		p.Teardown()
	}
	if *dist != "" {
		keys := make([]string, 0, len(classes))
		for k := range classes {
			keys = append(keys, k)
		}
		sort.Strings(keys)
		f, _ := os.Create(*dist)
		for _, k := range keys {
			fmt.Fprintf(f, "%s\t%d\n", k, classes[k])
		}
		f.Close()
	}
}
