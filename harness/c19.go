package main

// C19: capability negotiation / SASL dialogues.  A case is a client configuration (wanted
// capabilities, SASL none / PLAIN / EXTERNAL) plus a server script of raw lines.  Every case
// gets a FRESH client (the capability sets live in the Conn and are never reset) connected to
// the in-memory server; after each script line the server sends "PING :s<k>" and everything the
// client wrote before the matching "PONG :s<k>" is that step's output.  Step 0 is registration.

import (
	"bufio"
	"encoding/base64"
	"fmt"
	"net"
	"sort"
	"strings"
	"time"

	sasl "github.com/emersion/go-sasl"
	"github.com/fluffle/goirc/client"
)

func init() {
	props["C19"] = &Prop{Gen: c19Gen, Exec: c19Exec, Class: c19Class}
}

var c19KeySeq int

// input layout: see coq/Entry/EntryC19.v
func c19Input(kind, id, user, pass string, wanted, universe, script []string) Fields {
	return F(kind, id, user, pass, len(wanted), wanted, len(universe), universe, len(script), script)
}

type c19Case struct {
	kind, id, user, pass string
	wanted, universe     []string
	script               []string
}

func c19Decode(in Fields) c19Case {
	c := c19Case{kind: in.S(0), id: in.S(1), user: in.S(2), pass: in.S(3)}
	p := 4
	take := func() []string {
		n := in.I(p)
		p++
		var out []string
		for i := 0; i < n && p < len(in); i++ {
			out = append(out, in.S(p))
			p++
		}
		return out
	}
	c.wanted = take()
	c.universe = take()
	c.script = take()
	return c
}

func c19Exec(in Fields) Fields {
	c := c19Decode(in)
	c19KeySeq++
	ms := NewMemServer(fmt.Sprintf("c19-%d", c19KeySeq))
	defer func() {
		memMu.Lock()
		delete(memServers, ms.Key)
		memMu.Unlock()
	}()
	cfg := client.NewConfig("vbot", "vident", "v name")
	cfg.Server = "irc.example"
	cfg.Proxy = ms.URL()
	cfg.Flood = true
	cfg.PingFreq = 0
	cfg.EnableCapabilityNegotiation = true
	cfg.Capabilites = append([]string{}, c.wanted...)
	switch c.kind {
	case "plain":
		cfg.Sasl = sasl.NewPlainClient(c.id, c.user, c.pass)
	case "external":
		cfg.Sasl = sasl.NewExternalClient(c.id)
	}
	conn := client.Client(cfg)
	errc := make(chan error, 1)
	go func() { errc <- conn.Connect() }()
	var srv net.Conn
	select {
	case srv = <-ms.Conns:
	case <-time.After(10 * time.Second):
		return F("<<NO-CONNECT>>")
	}
	if err := <-errc; err != nil {
		return F("<<CONNECT-ERROR>>", err.Error())
	}
	rd := bufio.NewReaderSize(srv, 1<<16)
	var obs Fields
	// one step: optionally send a script line, then the sentinel PING; collect until its PONG
	step := func(k int, line *string) {
		msg := ""
		if line != nil {
			msg = *line + "\r\n"
		}
		msg += fmt.Sprintf("PING :s%d\r\n", k)
		go func() {
			srv.SetWriteDeadline(time.Now().Add(10 * time.Second))
			srv.Write([]byte(msg))
		}()
		want := fmt.Sprintf("PONG :s%d", k)
		var lines []string
		srv.SetReadDeadline(time.Now().Add(10 * time.Second))
		for {
			s, err := rd.ReadString('\n')
			if err != nil {
				lines = append(lines, "<<NO-PONG>>"+s)
				break
			}
			if !strings.HasSuffix(s, "\r\n") {
				lines = append(lines, "<<BAD-FRAMING>>"+s)
				continue
			}
			s = s[:len(s)-2]
			if s == want {
				break
			}
			lines = append(lines, s)
		}
		obs = append(obs, F(len(lines), lines)...)
	}
	step(0, nil)
	for k := range c.script {
		step(k+1, &c.script[k])
	}
	for _, u := range c.universe {
		obs = append(obs, F(conn.HasCapability(u), conn.SupportsCapability(u))...)
	}
	srv.Close()
	done := make(chan struct{})
	go func() { conn.Close(); close(done) }()
	select {
	case <-done:
	case <-time.After(5 * time.Second):
	}
	return obs
}

func c19Class(in Fields) string {
	c := c19Decode(in)
	cls := "enum" // universe a b c sasl
	switch {
	case len(c.wanted) > 8:
		cls = "long"
	case c19Contains(c.universe, "A"):
		cls = "history"
	case len(c.universe) == 3:
		cls = "creds"
	}
	has := func(sub string) bool {
		for _, l := range c.script {
			if strings.Contains(l, sub) {
				return true
			}
		}
		return false
	}
	out := ""
	switch {
	case has(" NAK "):
		out = "nak"
	case has(" ACK :-"):
		out = "ack+minus"
	case has(" ACK "):
		out = "ack"
	default:
		out = "noreply"
	}
	for _, o := range []string{"903", "904", "908"} {
		if has(" " + o + " ") {
			out += "+" + o
			break
		}
	}
	return cls + ":" + c.kind + ":" + out + c19DataTag(c) + c19TargetTag(c)
}

// ":tgt" when some CAP reply of the script is addressed to neither "*" nor the client's nick
func c19TargetTag(c c19Case) string {
	for _, l := range c.script {
		f := strings.Fields(strings.TrimPrefix(l, c19Src))
		if len(f) >= 3 && strings.EqualFold(f[0], "CAP") && f[1] != "*" && f[1] != "vbot" {
			return ":tgt"
		}
	}
	return ""
}

// c19DataTag: does this script make the client send its SASL initial response (an ACK carrying
// "sasl" followed by an AUTHENTICATE from the server), and if so what does the STANDARD base64 of
// that response (computed here from the INPUT, not taken from the client) look like:
//   ":data"      sent, encoding free of '+' and '/' (identical under the URL-safe alphabet)
//   ":data+/"    sent, encoding contains '+' or '/'
//   "...:ge400"  the encoding is 400 bytes or longer (IRCv3 would chunk it)
func c19DataTag(c c19Case) string {
	var ir []byte
	switch c.kind {
	case "plain":
		ir = []byte(c.id + "\x00" + c.user + "\x00" + c.pass)
	case "external":
		ir = []byte(c.id)
	default:
		return ""
	}
	armed, sent := false, false
	for _, l := range c.script {
		k := strings.Index(l, " ACK ")
		if strings.Contains(l, "CAP ") && k >= 0 {
			if t := strings.Index(l, " :"); t >= 0 && c19Contains(strings.Fields(l[t+2:]), "sasl") {
				armed = true
			}
		}
		if armed && (strings.HasPrefix(l, "AUTHENTICATE") || strings.HasPrefix(l, c19Src+"AUTHENTICATE")) {
			sent = true
			break
		}
	}
	if !sent || len(ir) == 0 {
		return ""
	}
	enc := base64.StdEncoding.EncodeToString(ir)
	tag := ":data"
	if strings.ContainsAny(enc, "+/") {
		tag += "+/"
	}
	if len(enc) >= 400 {
		tag += ":ge400"
	}
	return tag
}

// ---------- credentials ----------
// Drawn from alphabets chosen so that the base64 of "authzid NUL authcid NUL passwd" uses all 64
// symbols: ASCII incl. '>' '?' '~' DEL (the only ASCII bytes that can produce sextets 62/63, and
// only at offsets = 2 mod 3), bytes 0x80-0xff, UTF-8 multi-byte text, arbitrary bytes; lengths
// 0..24 (all residues mod 3), sometimes 300..700 (encoding longer than 400 bytes).
var c19Runes = []string{"ü", "é", "ñ", "ß", "ø", "å", "日", "本", "語", "п", "а", "р", "о", "л", "ь", "🔑", "€", "ÿ", "\u07ff", "\uffff", "þ", "¿", "¾"}
var c19Ascii = []byte("abcxyzABCXYZ0189 >?~\x7f>?~!:+/-_=.,@")

func c19Cred(r *Rand, maxLen int) string {
	n := r.Intn(maxLen + 1)
	mode := r.Intn(5)
	var b []byte
	for len(b) < n {
		m := mode
		if m == 4 {
			m = r.Intn(4)
		}
		switch m {
		case 0:
			b = append(b, c19Ascii[r.Intn(len(c19Ascii))])
		case 1:
			b = append(b, byte(0x80+r.Intn(128)))
		case 2:
			b = append(b, c19Runes[r.Intn(len(c19Runes))]...)
		default:
			b = append(b, byte(r.Intn(256)))
		}
	}
	return string(b)
}

func c19Creds(r *Rand, kind string) (id, user, pass string) {
	switch kind {
	case "plain":
		if r.Chance(35) {
			id = c19Cred(r, 12)
		}
		user = c19Cred(r, 16)
		if r.Chance(8) {
			pass = c19Cred(r, 400) + c19Cred(r, 300) + c19Cred(r, 24)
		} else {
			pass = c19Cred(r, 24)
		}
	case "external":
		if r.Chance(60) {
			id = c19Cred(r, 20)
			if r.Chance(8) {
				id += c19Cred(r, 600)
			}
		}
	}
	return
}

// hand-picked credentials (the seeded URL-alphabet mutant's notes, plus boundary lengths)
var c19FixedCreds = [][3]string{
	{"", "bot", "top~secret"}, {"", "bot", "why?"}, {"", "jürgen", "pässwörd"}, {"", "\xff\xfe>", "x"},
	{"admin", "bot", "a>b"}, {"", "example", "password"}, {"", "", ""}, {"", "u", "~"}, {"", "u", "~~"}, {"", "u", "~~~"},
	{"日本語", "пароль", "🔑€"}, {"", "bot", strings.Repeat("p?~", 120)}, {"", "bot", strings.Repeat("~", 297)},
	{"", "b", strings.Repeat("\xfb\xff\xbf", 100)},
}

// a SASL login with the given credentials; the server also advertises a and b
func c19Login(r *Rand, kind, id, user, pass string) Fields {
	var wanted []string
	for _, x := range []string{"a", "b"} {
		if r.Chance(40) {
			wanted = append(wanted, x)
		}
	}
	req := c19Intersect(wanted, true, []string{"a", "b", "sasl"})
	script := []string{c19Src + "CAP " + c19Target(r) + " LS :" + r.Pick([]string{"sasl a b", "a sasl b", "b a sasl"}),
		c19Src + "CAP " + c19Target(r) + " ACK :" + strings.Join(req, " "), "AUTHENTICATE +"}
	switch r.Intn(5) {
	case 0:
		script = append(script, c19Src+"904 vbot :SASL authentication failed")
	case 1:
		script = append(script, c19Src+"908 vbot PLAIN,EXTERNAL :are available SASL mechanisms", c19Src+"904 vbot :SASL authentication failed")
	case 2:
		script = append(script, "AUTHENTICATE +", c19Src+"903 vbot :SASL authentication successful")
	default:
		script = append(script, c19Src+"903 vbot :SASL authentication successful")
	}
	return c19Input(kind, id, user, pass, wanted, []string{"sasl", "a", "b"}, script)
}

const c19Src = ":irc.example "

// the first parameter of a server's CAP reply (the "client identifier"): "*" before registration,
// the nick afterwards — or whatever the server believes the nick to be: a bouncer's placeholder
// (goirc sends CAP LS before NICK), a case variant, a truncated or altered nick.  handlers.go does
// not look at it, and neither may the outcome of the negotiation depend on it.
func c19Target(r *Rand) string {
	switch k := r.Intn(20); {
	case k < 6:
		return "*"
	case k < 11:
		return "vbot"
	default:
		return r.Pick([]string{"unknown-nick", "VBOT", "Vbot", "vbo", "vbot_", "v", "someone-else", "vbot|away", "**"})
	}
}

func c19Subsets(xs []string) [][]string {
	var out [][]string
	for m := 0; m < 1<<len(xs); m++ {
		var s []string
		for i, x := range xs {
			if m&(1<<i) != 0 {
				s = append(s, x)
			}
		}
		out = append(out, s)
	}
	return out
}

func c19Intersect(wanted []string, withSasl bool, adv []string) []string {
	set := map[string]bool{}
	for _, w := range wanted {
		set[w] = true
	}
	if withSasl {
		set["sasl"] = true
	}
	var out []string
	for _, a := range adv {
		if set[a] {
			out = append(out, a)
			delete(set, a)
		}
	}
	sort.Strings(out)
	return out
}

func c19Contains(xs []string, x string) bool {
	for _, y := range xs {
		if y == x {
			return true
		}
	}
	return false
}

// the conformant dialogue for one point of the product
func c19Dialogue(r *Rand, wanted, adv []string, reply, kind, outcome string) (Fields, bool) {
	id, user, pass := c19Creds(r, kind)
	req := c19Intersect(wanted, kind != "none", adv)
	script := []string{c19Src + "CAP " + c19Target(r) + " LS :" + strings.Join(adv, " ")}
	acked := []string{}
	if len(req) > 0 {
		switch reply {
		case "ackall", "ackminus":
			acked = req
			script = append(script, c19Src+"CAP "+c19Target(r)+" ACK :"+strings.Join(req, " "))
		case "acksub":
			acked = req[1:] // a strict subset: everything but the first name
			if len(req)%2 == 0 {
				acked = req[:len(req)-1]
			}
			script = append(script, c19Src+"CAP "+c19Target(r)+" ACK :"+strings.Join(acked, " "))
		case "nak":
			script = append(script, c19Src+"CAP "+c19Target(r)+" NAK :"+strings.Join(req, " "))
		}
	} else if reply != "ackall" {
		return nil, false // nothing was requested: the reply dimension collapses
	}
	if kind != "none" && c19Contains(acked, "sasl") {
		script = append(script, "AUTHENTICATE +")
		switch outcome {
		case "903":
			script = append(script, c19Src+"903 vbot :SASL authentication successful")
		case "904":
			script = append(script, c19Src+"904 vbot :SASL authentication failed")
		case "908":
			script = append(script, c19Src+"908 vbot PLAIN,EXTERNAL :are available SASL mechanisms")
		}
	} else if outcome != "none" {
		return nil, false // SASL never started: the outcome dimension collapses
	}
	if reply == "ackminus" && len(acked) > 0 {
		script = append(script, c19Src+"CAP "+c19Target(r)+" ACK :-"+acked[0])
	}
	universe := []string{"a", "b", "c", "sasl"}
	return c19Input(kind, id, user, pass, wanted, universe, script), true
}

var c19Alpha = []byte("abcdefghijklmnopqrstuvwxyz0123456789./-")

func c19Name(r *Rand, lo, hi int) string {
	for {
		s := string(r.Bytes(r.Range(lo, hi), c19Alpha))
		if s == "" || s[0] != '-' {
			return s
		}
	}
}

// random large sets: the REQ must be split over several lines; LS arrives in several lines
func c19Long(r *Rand) Fields {
	n := r.Range(40, 120)
	seen := map[string]bool{}
	var names []string
	for len(names) < n {
		s := c19Name(r, 4, 24)
		if r.Chance(3) {
			s = strings.Repeat("x", r.Range(430, 470)) + s // a single name around / over the budget
		}
		if !seen[s] {
			seen[s] = true
			names = append(names, s)
		}
	}
	var wanted, adv []string
	for _, s := range names {
		w, a := r.Chance(80), r.Chance(85)
		if w {
			wanted = append(wanted, s)
		}
		if a {
			adv = append(adv, s)
		}
	}
	kind := r.Pick([]string{"none", "plain", "external"})
	if kind != "none" && r.Bool() {
		adv = append(adv, "sasl")
	}
	// shuffle the advertisement
	for i := len(adv) - 1; i > 0; i-- {
		j := r.Intn(i + 1)
		adv[i], adv[j] = adv[j], adv[i]
	}
	var script []string
	parts := r.Range(1, 3)
	per := (len(adv) + parts - 1) / parts
	for p := 0; p < parts; p++ {
		lo, hi := p*per, (p+1)*per
		if lo > len(adv) {
			lo = len(adv)
		}
		if hi > len(adv) {
			hi = len(adv)
		}
		star := ""
		if p < parts-1 {
			star = "* "
		}
		script = append(script, c19Src+"CAP "+c19Target(r)+" LS "+star+":"+strings.Join(adv[lo:hi], " "))
	}
	req := c19Intersect(wanted, kind != "none", adv)
	if len(req) > 0 {
		// acknowledge in two lines
		h := len(req) / 2
		script = append(script, c19Src+"CAP "+c19Target(r)+" ACK :"+strings.Join(req[:h], " "))
		script = append(script, c19Src+"CAP "+c19Target(r)+" ACK :"+strings.Join(req[h:], " "))
		if c19Contains(req, "sasl") {
			script = append(script, "AUTHENTICATE +", c19Src+"903 vbot :ok")
		}
	}
	universe := []string{"sasl"}
	for i := 0; i < 6; i++ {
		universe = append(universe, names[r.Intn(len(names))])
	}
	id, user, pass := c19Creds(r, kind)
	return c19Input(kind, id, user, pass, wanted, universe, script)
}

// arbitrary histories over the event alphabet, including non-conformant junk
func c19History(r *Rand) Fields {
	kind := r.Pick([]string{"none", "plain", "external", "plain"})
	pool := []string{"a", "b", "c", "sasl"}
	var wanted []string
	for _, x := range []string{"a", "b", "c"} {
		if r.Chance(60) {
			wanted = append(wanted, x)
		}
	}
	if r.Chance(15) {
		wanted = append(wanted, r.Pick([]string{"-a", "-", "sasl", "a", "-sasl", "b c"})) // drift: not gated
	}
	toks := func() string {
		var t []string
		for k := r.Intn(5); k > 0; k-- {
			x := r.Pick(pool)
			if r.Chance(20) {
				x = "-" + x
			}
			t = append(t, x)
		}
		if r.Chance(5) {
			t = append(t, r.Pick([]string{"-", "--a", "sasl=PLAIN", "A"}))
		}
		return strings.Join(t, r.Pick([]string{" ", " ", " ", "  ", "\t"}))
	}
	var script []string
	for k := r.Range(1, 9); k > 0; k-- {
		var l string
		switch r.Intn(16) {
		case 0, 1, 2:
			l = c19Src + "CAP " + c19Target(r) + " LS :" + toks()
		case 3:
			l = c19Src + "CAP " + c19Target(r) + " LS * :" + toks()
		case 4, 5, 6:
			l = c19Src + "CAP " + c19Target(r) + " ACK :" + toks()
		case 7:
			l = c19Src + "CAP " + c19Target(r) + " NAK :" + toks()
		case 8, 9:
			l = "AUTHENTICATE +"
		case 10:
			l = r.Pick([]string{"AUTHENTICATE", "AUTHENTICATE :", "AUTHENTICATE " + base64.StdEncoding.EncodeToString(r.Bytes(r.Intn(7), nil)),
				"AUTHENTICATE QQ=", "AUTHENTICATE =", c19Src + "AUTHENTICATE + +"})
		case 11:
			l = c19Src + "903 vbot :SASL authentication successful"
		case 12:
			l = c19Src + "904 vbot :SASL authentication failed"
		case 13:
			l = c19Src + r.Pick([]string{"908 vbot PLAIN,EXTERNAL :are available SASL mechanisms", "908 vbot :x", "908 vbot", "908"})
		case 14:
			l = r.Pick([]string{"CAP", "CAP LS", "CAP * LS", "CAP * ACK", "CAP * NAK", c19Src + "CAP * LIST :a b", c19Src + "CAP * NEW :a",
				c19Src + "CAP * DEL :a", "cap * ls :a b c", c19Src + "CAP * ls :a", c19Src + "410 vbot FOO :Invalid CAP command", c19Src + "410 vbot",
				c19Src + "CAP * ACK a", c19Src + "CAP * LS a b", "@t=1 " + c19Src + "CAP * LS :a sasl", c19Src + "CAP * LS :", c19Src + "CAP * ACK :"})
		default:
			l = c19Src + "CAP " + c19Target(r) + " " + r.Pick([]string{"LS", "ACK", "NAK"}) + " :" + toks()
		}
		script = append(script, l)
	}
	universe := []string{"a", "b", "c", "sasl", "", "-a", "A"}
	id, user, pass := c19Creds(r, kind)
	return c19Input(kind, id, user, pass, wanted, universe, script)
}

func c19Gen(r *Rand, tier string, scale int, emit func(in Fields)) {
	if scale <= 0 {
		scale = 3000
	}
	// 1. the exhaustive product (all of it when the budget allows, else a PRNG sample)
	var enum []Fields
	names := []string{"a", "b", "c"}
	for _, wanted := range c19Subsets(names) {
		for _, adv := range c19Subsets([]string{"a", "b", "c", "sasl"}) {
			for _, reply := range []string{"ackall", "acksub", "nak", "ackminus"} {
				for _, kind := range []string{"none", "plain", "external"} {
					for _, outcome := range []string{"903", "904", "908", "none"} {
						if in, ok := c19Dialogue(r.Fork(), wanted, adv, reply, kind, outcome); ok {
							enum = append(enum, in)
						}
					}
				}
			}
		}
	}
	budget := scale * 7 / 10
	if tier == "thorough" || budget >= len(enum) {
		for _, in := range enum {
			emit(in)
		}
		budget = len(enum)
	} else {
		for i := 0; i < budget; i++ {
			emit(enum[r.Intn(len(enum))])
		}
	}
	rest := scale - budget
	if rest < 60 {
		rest = 60
	}
	// 2. large sets forcing split REQ lines, multi-line LS
	nlong := rest / 6
	for i := 0; i < nlong; i++ {
		emit(c19Long(r.Fork()))
	}
	// 3. SASL logins with credentials from wide alphabets: first the hand-picked ones, then random
	ncreds := rest / 4
	for i := 0; i < ncreds; i++ {
		rr := r.Fork()
		if i < 2*len(c19FixedCreds) {
			c := c19FixedCreds[i/2]
			if i%2 == 0 {
				emit(c19Login(rr, "plain", c[0], c[1], c[2]))
			} else {
				emit(c19Login(rr, "external", c[2], "", ""))
			}
			continue
		}
		kind := "plain"
		if rr.Chance(25) {
			kind = "external"
		}
		id, user, pass := c19Creds(rr, kind)
		if kind == "external" && id == "" {
			id = c19Cred(rr, 20) + "?"
		}
		emit(c19Login(rr, kind, id, user, pass))
	}
	// 4. arbitrary histories / junk
	for i := 0; i < rest-nlong-ncreds; i++ {
		emit(c19History(r.Fork()))
	}
}
