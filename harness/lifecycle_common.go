package main

// Shared machinery of C06 / C07 (connection lifecycle).  One CASE = one fault script run on a
// real client over an in-memory socket.  The observation is the totally ordered EVENT
// HISTORY of the case (same vocabulary as coq/Model/LifecycleLts.v: cc/es/rg/cr/xc/dc/xr/
// en/sm) plus "leaked / hung / fresh" measurements; the extracted predicates C06_ok / C07_ok
// judge it.  All identifiers are prefixed lc.
//
// Log discipline (what makes the order meaningful): an event is logged BEFORE the harness
// performs an action that may cause something (a call, an ender) and AFTER it has observed
// a result (a return value, a sample); all logging goes through one mutex per case.

import (
	"bufio"
	"bytes"
	"context"
	"fmt"
	"net"
	"net/url"
	"os"
	"os/exec"
	"runtime"
	"runtime/pprof"
	"strconv"
	"strings"
	"sync"
	"sync/atomic"
	"time"

	"github.com/fluffle/goirc/client"
	"golang.org/x/net/proxy"
)

const lcBudget = 10 * time.Second // generous budget for Close / DISCONNECTED / Connect

// ---------- goroutine identity (to attribute a dial to the Connect call that made it) ----------
func lcGoID() int64 {
	var b [64]byte
	n := runtime.Stack(b[:], false)
	f := strings.Fields(string(b[:n]))
	if len(f) < 2 {
		return -1
	}
	id, _ := strconv.ParseInt(f[1], 10, 64)
	return id
}

// ---------- the event log ----------
type lcLog struct {
	mu sync.Mutex
	ev []string
}

func (l *lcLog) add(f string, a ...interface{}) {
	l.mu.Lock()
	l.ev = append(l.ev, fmt.Sprintf(f, a...))
	l.mu.Unlock()
}
func (l *lcLog) snapshot() []string {
	l.mu.Lock()
	defer l.mu.Unlock()
	return append([]string{}, l.ev...)
}

// ---------- in-memory server with its own dialer type ----------
type lcServer struct {
	key   string
	log   *lcLog
	mu    sync.Mutex
	gen   int             // generations dialled so far
	fail  error           // when non-nil dialling fails
	calls map[int64]int   // goroutine id -> id of the Connect call it is making
	genOf map[int]int     // call id -> generation it established
	conns chan *lcSrvConn // accepted connections
}

var (
	lcMu      sync.Mutex
	lcServers = map[string]*lcServer{}
	lcOnce    sync.Once
	lcKeySeq  int64
)

type lcDialer struct{ key string }

func (d lcDialer) Dial(network, addr string) (net.Conn, error) {
	return d.DialContext(context.Background(), network, addr)
}
func (d lcDialer) DialContext(ctx context.Context, network, addr string) (net.Conn, error) {
	lcMu.Lock()
	s := lcServers[d.key]
	lcMu.Unlock()
	if s == nil {
		return nil, fmt.Errorf("lcmem: no server %q", d.key)
	}
	s.mu.Lock()
	defer s.mu.Unlock()
	if s.fail != nil {
		return nil, s.fail
	}
	call, ok := s.calls[lcGoID()]
	if !ok {
		call = 999
	}
	c, srv := net.Pipe()
	s.gen++
	s.genOf[call] = s.gen
	sc := &lcSrvConn{gen: s.gen, c: srv, cli: c}
	sc.cond = sync.NewCond(&sc.mu)
	s.log.add("es:%d:%d", s.gen, call) // dial succeeded (postConnect follows under the lock)
	go sc.reader()
	s.conns <- sc
	return c, nil
}

func lcNewServer(log *lcLog) *lcServer {
	lcOnce.Do(func() {
		proxy.RegisterDialerType("lcmem", func(u *url.URL, _ proxy.Dialer) (proxy.Dialer, error) {
			return lcDialer{key: u.Host}, nil
		})
	})
	k := fmt.Sprintf("lc%d", atomic.AddInt64(&lcKeySeq, 1))
	s := &lcServer{key: k, log: log, calls: map[int64]int{}, genOf: map[int]int{}, conns: make(chan *lcSrvConn, 16)}
	lcMu.Lock()
	lcServers[k] = s
	lcMu.Unlock()
	return s
}
func (s *lcServer) drop() {
	lcMu.Lock()
	delete(lcServers, s.key)
	lcMu.Unlock()
}
func (s *lcServer) curGen() int {
	s.mu.Lock()
	defer s.mu.Unlock()
	return s.gen
}
func (s *lcServer) setFail(e error) {
	s.mu.Lock()
	s.fail = e
	s.mu.Unlock()
}

// server end of one connection
type lcSrvConn struct {
	gen    int
	c      net.Conn // server end
	cli    net.Conn // client end (only for deadline-based error injection)
	mu     sync.Mutex
	cond   *sync.Cond
	lines  []string
	paused bool
	eof    bool
}

func (sc *lcSrvConn) reader() {
	b := make([]byte, 65536)
	var rest []byte
	for {
		sc.mu.Lock()
		for sc.paused {
			sc.cond.Wait()
		}
		sc.mu.Unlock()
		n, err := sc.c.Read(b)
		sc.mu.Lock()
		rest = append(rest, b[:n]...)
		for {
			k := bytes.Index(rest, []byte("\r\n"))
			if k < 0 {
				break
			}
			sc.lines = append(sc.lines, string(rest[:k]))
			rest = rest[k+2:]
		}
		if err != nil {
			sc.eof = true
		}
		sc.cond.Broadcast()
		sc.mu.Unlock()
		if err != nil {
			return
		}
	}
}
func (sc *lcSrvConn) pause(p bool) {
	sc.mu.Lock()
	sc.paused = p
	sc.cond.Broadcast()
	sc.mu.Unlock()
}

// waitFor waits until pred holds on the lines received so far
func (sc *lcSrvConn) waitFor(pred func(lines []string) bool, d time.Duration) bool {
	deadline := time.Now().Add(d)
	t := time.AfterFunc(d+10*time.Millisecond, func() { sc.mu.Lock(); sc.cond.Broadcast(); sc.mu.Unlock() })
	defer t.Stop()
	sc.mu.Lock()
	defer sc.mu.Unlock()
	for {
		if pred(sc.lines) {
			return true
		}
		if sc.eof || time.Now().After(deadline) {
			return false
		}
		sc.cond.Wait()
	}
}
func (sc *lcSrvConn) write(s string) error {
	sc.c.SetWriteDeadline(time.Now().Add(lcBudget))
	_, err := sc.c.Write([]byte(s))
	return err
}

// marker: "PING :<m>" must be answered by "PONG :<m>" — through recv, the event loop, the
// PING handler, the out queue and send: the connection is "fully working"
func (sc *lcSrvConn) marker(m string, d time.Duration) bool {
	errc := make(chan error, 1)
	go func() { errc <- sc.write("PING :" + m + "\r\n") }()
	want := "PONG :" + m
	ok := sc.waitFor(func(ls []string) bool {
		for _, l := range ls {
			if l == want {
				return true
			}
		}
		return false
	}, d)
	return ok
}

// ---------- library goroutines of one case, from the labelled goroutine profile ----------
var lcEntry = []string{"client.(*Conn).send+", "client.(*Conn).recv+", "client.(*Conn).runLoop+",
	"client.(*Conn).ping+", "client.(*Conn).postConnect.func1+", "client.(*Conn).closeIf.func1+"}

func lcLibGoroutines(label string) (int, string) {
	var buf bytes.Buffer
	pprof.Lookup("goroutine").WriteTo(&buf, 1)
	total := 0
	var which []string
	want := fmt.Sprintf("\"lc\":%q", label)
	for _, blk := range strings.Split(buf.String(), "\n\n") {
		if !strings.Contains(blk, want) {
			continue
		}
		hit := ""
		for _, e := range lcEntry {
			if strings.Contains(blk, e) {
				hit = e
			}
		}
		if hit == "" {
			continue
		}
		n := 0
		fmt.Sscanf(blk, "%d @", &n)
		if n == 0 {
			n = 1
		}
		total += n
		which = append(which, fmt.Sprintf("%dx%s", n, strings.TrimSuffix(hit, "+")))
	}
	return total, strings.Join(which, ",")
}

func lcDump(why string) {
	buf := make([]byte, 1<<20)
	n := runtime.Stack(buf, true)
	fmt.Fprintf(os.Stderr, "==== lifecycle harness: %s; goroutine dump follows ====\n%s\n==== end of dump ====\n", why, buf[:n])
}

// ---------- the script ----------
type lcCycle struct {
	welcome  bool // server sends 001 (and JOINs when tracking) before anything else happens
	hs       int  // handler state when the enders fire: 0 idle, 1 running (parked), 2 blocked in a send
	inN      int  // inbound backlog (lines written by the server behind the busy handler)
	segs     int  // ... in how many Write calls
	outN     int  // outbound backlog
	outBy    int  // 0 none, 1 the foreground handler, 2 a free goroutine
	closeN   int  // enders: Close from closeN goroutines
	eof      bool // server closes its end
	rderr    bool // read error (deadline) on the client end
	wrerr    bool // write error on the client end
	cancel   bool // connect context cancelled
	origin   int  // who connects for the NEXT cycle: 0 the DISCONNECTED handler, 1 a goroutine woken by it
	refA     int  // refused Connects while connected ("already connected")
	refN     int  // refused Connects with Server == ""
	refD     int  // failing dials before this cycle's successful Connect
	hlock    bool // the parked handler calls Connected() after the enders fired (D12)
	relFirst bool // release the parked handler just before (instead of just after) the enders
	errLine  int  // bit 1: the server says "ERROR :Closing Link ..." before it hangs up (eof); bit 2: an ERROR line mid-session that is NOT followed by a close
}
type lcScript struct {
	tracking bool
	pingMs   int
	flood    bool // true = flood protection ON (cfg.Flood = false)
	ctx      bool // ConnectContext with a cancellable context
	cycles   []lcCycle
}

const lcCycleFields = 18

func (sc lcScript) fields() Fields {
	b := func(x bool) int {
		if x {
			return 1
		}
		return 0
	}
	f := F("lc", b(sc.tracking), sc.pingMs, b(sc.flood), b(sc.ctx), len(sc.cycles))
	for _, c := range sc.cycles {
		f = append(f, F(b(c.welcome), c.hs, c.inN, c.segs, c.outN, c.outBy, c.closeN, b(c.eof), b(c.rderr),
			b(c.wrerr), b(c.cancel), c.origin, c.refA, c.refN, c.refD, b(c.hlock), b(c.relFirst), c.errLine)...)
	}
	return f
}
func lcParse(in Fields) lcScript {
	sc := lcScript{tracking: in.I(1) == 1, pingMs: in.I(2), flood: in.I(3) == 1, ctx: in.I(4) == 1}
	n := in.I(5)
	for i := 0; i < n && i < 8; i++ {
		p := 6 + i*lcCycleFields
		sc.cycles = append(sc.cycles, lcCycle{welcome: in.I(p) == 1, hs: in.I(p + 1), inN: in.I(p + 2), segs: in.I(p + 3),
			outN: in.I(p + 4), outBy: in.I(p + 5), closeN: in.I(p + 6), eof: in.I(p+7) == 1, rderr: in.I(p+8) == 1,
			wrerr: in.I(p+9) == 1, cancel: in.I(p+10) == 1, origin: in.I(p + 11), refA: in.I(p + 12), refN: in.I(p + 13),
			refD: in.I(p + 14), hlock: in.I(p+15) == 1, relFirst: in.I(p+16) == 1, errLine: in.I(p + 17)})
	}
	return sc
}
func (c lcCycle) enders() string {
	s := ""
	if c.closeN > 0 {
		s += fmt.Sprintf("close%d", c.closeN)
	}
	for _, p := range []struct {
		b bool
		n string
	}{{c.eof, "eof"}, {c.rderr, "rderr"}, {c.wrerr, "wrerr"}, {c.cancel, "cancel"}} {
		if p.b {
			if s != "" {
				s += "+"
			}
			s += p.n
		}
	}
	return s
}

// ---------- running one case ----------
type lcResult struct {
	skipped               bool // the case could not be set up (no listener): judged as an empty, incomplete run
	complete, hung, fresh bool
	leaked                int
	note                  string
	ev                    []string
}

func (r lcResult) fields() Fields {
	if r.skipped {
		return F(false, 0, false, true, "skipped: "+r.note)
	}
	f := F(r.complete, r.leaked, r.hung, r.fresh, r.note)
	for _, e := range r.ev {
		f = append(f, []byte(e))
	}
	return f
}

var lcCaseSeq int64

type lcCase struct {
	sc      lcScript
	log     *lcLog
	srv     *lcServer
	conn    *client.Conn
	mu      sync.Mutex
	callSeq int
	notes   []string
	hung    bool
	fresh   bool
	skipped bool
	cancel  context.CancelFunc // of the current connection's context
	// handler plumbing
	connectedCh chan int        // CONNECTED handler finished for generation g
	parkedCh    chan struct{}   // the parked handler is in
	releaseCh   []chan struct{} // per cycle: closed to release it
	emitCh      chan struct{}   // the emitting handler has started
	discCh      chan int        // DISCONNECTED handler invoked for generation g
	handlerConn chan error      // result of the Connect made inside the DISCONNECTED handler
	cycle       int32           // index of the cycle whose connection is current
	closersBack [8]int32        // per cycle: Close callers of that cycle that have returned
	discSeen    int32           // highest generation whose DISCONNECTED handler has started
}

func (k *lcCase) note(f string, a ...interface{}) {
	k.mu.Lock()
	k.notes = append(k.notes, fmt.Sprintf(f, a...))
	k.mu.Unlock()
}
func (k *lcCase) newCall() int {
	k.mu.Lock()
	defer k.mu.Unlock()
	k.callSeq++
	return k.callSeq
}

// connect performs one Connect call (logged), expecting success or not
func (k *lcCase) connect() error {
	c := k.newCall()
	id := lcGoID()
	k.srv.mu.Lock()
	k.srv.calls[id] = c
	k.srv.mu.Unlock()
	k.log.add("cc:%d", c)
	var err error
	done := make(chan struct{})
	go func() {
		select {
		case <-done:
		case <-time.After(lcBudget):
			k.mu.Lock()
			k.hung = true
			k.mu.Unlock()
			k.note("Connect call %d did not return within the budget", c)
			lcDump(fmt.Sprintf("Connect call %d hung", c))
		}
	}()
	if k.sc.ctx {
		ctx, cancel := context.WithCancel(context.Background())
		err = k.conn.ConnectContext(ctx)
		if err == nil {
			k.mu.Lock()
			k.cancel = cancel
			k.mu.Unlock()
		} else {
			cancel()
		}
	} else {
		err = k.conn.Connect()
	}
	close(done)
	k.srv.mu.Lock()
	g, ok := k.srv.genOf[c]
	delete(k.srv.calls, id)
	k.srv.mu.Unlock()
	if err == nil && ok {
		k.log.add("cr:%d:%d", c, g)
	} else if err == nil {
		k.log.add("cr:%d:0", c) // "succeeded" without dialling: judged by the oracle
	} else {
		k.log.add("cr:%d:-", c)
	}
	return err
}

// connectCycle: the failing dials of cycle i, then its successful Connect
func (k *lcCase) connectCycle(i int) error {
	cy := k.sc.cycles[i]
	for j := 0; j < cy.refD; j++ {
		k.srv.setFail(fmt.Errorf("lcmem: dial refused"))
		if err := k.connect(); err == nil {
			k.note("Connect succeeded although the dial failed")
		}
		k.srv.setFail(nil)
	}
	atomic.StoreInt32(&k.cycle, int32(i))
	return k.connect()
}

func lcRunCase(sc lcScript) lcResult {
	k := &lcCase{sc: sc, log: &lcLog{}, fresh: true,
		connectedCh: make(chan int, 16), parkedCh: make(chan struct{}, 16),
		emitCh: make(chan struct{}, 16), discCh: make(chan int, 16), handlerConn: make(chan error, 16)}
	for range sc.cycles {
		k.releaseCh = append(k.releaseCh, make(chan struct{}))
	}
	return lcWrap(k, k.run)
}

// lcWrap runs the body of a case under a goroutine label and a deadline, then measures what
// is left of the library's goroutines
func lcWrap(k *lcCase, body func(label string)) lcResult {
	label := fmt.Sprintf("%d", atomic.AddInt64(&lcCaseSeq, 1))
	var res lcResult
	fin := make(chan struct{})
	go pprof.Do(context.Background(), pprof.Labels("lc", label), func(context.Context) {
		defer close(fin)
		body(label)
	})
	select {
	case <-fin:
	case <-time.After(6 * lcBudget):
		k.mu.Lock()
		k.hung = true
		k.mu.Unlock()
		k.note("case did not finish")
		lcDump("case did not finish")
	}
	k.mu.Lock()
	res.hung = k.hung
	res.fresh = k.fresh
	res.note = strings.Join(k.notes, "; ")
	k.mu.Unlock()
	res.ev = k.log.snapshot()
	res.complete = !res.hung
	if res.hung {
		n, which := lcLibGoroutines(label)
		res.note += fmt.Sprintf("; library goroutines alive: %d (%s)", n, which)
	}
	if !res.hung {
		// settle: the goroutines of a finished connection are on their way out
		deadline := time.Now().Add(3 * time.Second)
		for {
			n, which := lcLibGoroutines(label)
			res.leaked = n
			if n == 0 || time.Now().After(deadline) {
				if n != 0 {
					res.note += "; leaked " + which
					lcDump("leaked goroutines " + which)
				}
				break
			}
			time.Sleep(2 * time.Millisecond)
		}
	}
	if k.srv != nil {
		k.srv.drop()
	}
	res.skipped = k.skipped
	return res
}

func (k *lcCase) fail(f string, a ...interface{}) {
	k.mu.Lock()
	k.hung = true
	k.mu.Unlock()
	k.note(f, a...)
	lcDump(fmt.Sprintf(f, a...))
}
func (k *lcCase) unfresh(f string, a ...interface{}) {
	k.mu.Lock()
	k.fresh = false
	k.mu.Unlock()
	k.note(f, a...)
}

func (k *lcCase) run(label string) {
	sc := k.sc
	k.srv = lcNewServer(k.log)
	cfg := client.NewConfig("vbot", "vident", "v name")
	cfg.Server = "irc.example"
	cfg.Proxy = "lcmem://" + k.srv.key
	cfg.Flood = !sc.flood
	cfg.PingFreq = time.Duration(sc.pingMs) * time.Millisecond
	conn := client.Client(cfg)
	k.conn = conn
	if sc.tracking {
		conn.EnableStateTracking()
	}
	conn.HandleFunc(client.REGISTER, func(c *client.Conn, l *client.Line) {
		g := k.srv.curGen()
		k.log.add("rg:%d", g)
		k.log.add("sm:R:%d:%s", g, lcB(c.Connected()))
	})
	conn.HandleFunc(client.CONNECTED, func(c *client.Conn, l *client.Line) {
		g := k.srv.curGen()
		k.log.add("sm:L:%d:%s", g, lcB(c.Connected()))
		k.connectedCh <- g
	})
	conn.HandleFunc("PRIVMSG", func(c *client.Conn, l *client.Line) {
		ci := atomic.LoadInt32(&k.cycle)
		cy := sc.cycles[ci]
		switch l.Text() {
		case "park":
			g := k.srv.curGen()
			k.log.add("sm:L:%d:%s", g, lcB(c.Connected())) // before any ender of this cycle
			k.parkedCh <- struct{}{}
			<-k.releaseCh[ci]
			if cy.hlock {
				// a handler asks "still connected?" while the disconnect is in flight (D12, fixed
				// a078b17: this used to block for ever, and Close with it)
				k.log.add("sm:L:%d:%s", g, lcB(c.Connected()))
			}
		case "emit":
			k.emitCh <- struct{}{}
			for i := 0; i < cy.outN; i++ {
				c.Raw(fmt.Sprintf("PRIVMSG #h :%d", i))
			}
		default:
			// a line of the inbound backlog "c<cycle>n<k>": the server sent it on the connection
			// of that cycle; it may only be delivered there, never on a later connection
			var lc, ln int
			if n, _ := fmt.Sscanf(l.Text(), "c%dn%d", &lc, &ln); n == 2 && lc != int(ci) {
				k.unfresh("line %d the server sent on connection %d was delivered on connection %d", ln, lc+1, ci+1)
			}
		}
	})
	conn.HandleFunc(client.DISCONNECTED, func(c *client.Conn, l *client.Line) {
		g := k.srv.curGen()
		atomic.StoreInt32(&k.discSeen, int32(g)) // producers of the application stop sending
		k.log.add("dc:%d", g)
		k.log.add("sm:D:%d:%s", g, lcB(c.Connected()))
		i := int(atomic.LoadInt32(&k.cycle))
		if g != i+1 {
			// not the connection the script is working on: a stale or duplicate teardown;
			// the history carries it, the oracle judges it
			k.discCh <- g
			return
		}
		cy := sc.cycles[i]
		if i+1 < len(sc.cycles) && cy.origin == 0 {
			// reconnect from inside the handler, once the other Close callers are back
			want := int32(cy.closeN - 1)
			for t := 0; atomic.LoadInt32(&k.closersBack[i]) < want && t < 2000; t++ {
				time.Sleep(time.Millisecond)
			}
			k.discCh <- g
			k.handlerConn <- k.connectCycle(i + 1)
			return
		}
		k.discCh <- g
	})

	if err := k.connectCycle(0); err != nil {
		k.fail("first Connect failed: %v", err)
		return
	}
	for i := range sc.cycles {
		if !k.cycleBody(i) {
			return
		}
	}
	// a Close on the now idle client does nothing
	c := k.newCall()
	k.log.add("xc:%d", c)
	conn.Close()
	k.log.add("xr:%d", c)
}

func lcB(b bool) string {
	if b {
		return "t"
	}
	return "f"
}

func lcHas(ls []string, pred func(string) bool) bool {
	for _, l := range ls {
		if pred(l) {
			return true
		}
	}
	return false
}

// cycleBody: the connection of cycle i is up (Connect returned nil); drive it to its end and
// get the next one connected.  false = abandon the case.
func (k *lcCase) cycleBody(i int) bool {
	sc, cy, conn := k.sc, k.sc.cycles[i], k.conn
	g := i + 1
	var s *lcSrvConn
	select {
	case s = <-k.srv.conns:
	case <-time.After(lcBudget):
		k.fail("no connection accepted for cycle %d", i)
		return false
	}
	if s.gen != g {
		k.unfresh("cycle %d: accepted generation %d, expected %d", i, s.gen, g)
	}
	// registration lines first
	// (lines a goroutine of the application sent after the previous DISCONNECTED are outside the
	// claim and may turn up anywhere: they are left out of the comparison)
	own := func(ls []string) []string {
		var o []string
		for _, l := range ls {
			if !strings.HasPrefix(l, "PRIVMSG #g :") && !strings.HasPrefix(l, "PRIVMSG #h :") && l != "PING :w" {
				o = append(o, l)
			}
		}
		return o
	}
	if !s.waitFor(func(ls []string) bool { return len(own(ls)) >= 2 }, lcBudget) {
		k.unfresh("cycle %d: registration lines did not arrive", i)
	} else {
		s.mu.Lock()
		o := own(s.lines)
		// lines of the application in front of the registration: a handler's lines (#h) were all
		// handed to Raw before the old event loop ended, none may turn up here; of a free
		// goroutine's lines (#g, "PING :w") at most the ONE whose Raw call straddled the reconnect
		nH, nG := 0, 0
		for _, l := range s.lines {
			if strings.HasPrefix(l, "NICK ") {
				break
			}
			if strings.HasPrefix(l, "PRIVMSG #h :") {
				nH++
			} else if strings.HasPrefix(l, "PRIVMSG #g :") || l == "PING :w" {
				nG++
			}
		}
		s.mu.Unlock()
		if !strings.HasPrefix(o[0], "NICK vbot") || !strings.HasPrefix(o[1], "USER vident") {
			k.unfresh("cycle %d: transcript begins %q %q", i, o[0], o[1])
		}
		if nH > 0 || nG > 1 {
			k.unfresh("cycle %d: %d+%d stale lines of the previous connection written before the registration", i, nH, nG)
		}
	}
	if sc.tracking {
		st := conn.StateTracker()
		if st.GetChannel("#c") != nil || st.GetNick("other") != nil || st.Me() == nil || st.Me().Nick != "vbot" {
			k.unfresh("cycle %d: tracker not reset to the client itself", i)
		}
	}
	if i > 0 {
		// the new connection stays up: still answers after 200 ms
		time.Sleep(200 * time.Millisecond)
		if !s.marker(fmt.Sprintf("up%d", i), lcBudget) {
			k.unfresh("cycle %d: new connection does not answer 200 ms after reconnect", i)
			return k.abandon(s)
		}
	}
	if cy.welcome {
		go s.write(":irc.example 001 vbot :Welcome\r\n")
		select {
		case <-k.connectedCh:
		case <-time.After(lcBudget):
			k.fail("cycle %d: CONNECTED handler did not run", i)
			return false
		}
		if sc.tracking {
			s.write(":vbot!vident@h JOIN #c\r\n:other!o@h JOIN #c\r\n")
			if !s.marker(fmt.Sprintf("tr%d", i), lcBudget) {
				k.unfresh("cycle %d: no answer after JOINs", i)
				return k.abandon(s)
			}
		}
	}
	// an ERROR line in the middle of the session that is NOT followed by a close (servers send
	// them, e.g. for a refused oper command): the connection must go on working
	if cy.errLine&2 != 0 {
		go s.write("ERROR :no privileges, carry on\r\n")
		if !s.marker(fmt.Sprintf("er%d", i), lcBudget) {
			k.unfresh("cycle %d: connection not working after an ERROR line from the server", i)
			return k.abandon(s)
		}
	}
	// refused Connects on the live connection, each followed by a marker round trip
	for j := 0; j < cy.refA+cy.refN; j++ {
		if j >= cy.refA {
			conn.Config().Server = ""
		}
		err := k.connect()
		conn.Config().Server = "irc.example:6667"
		if err == nil {
			k.note("cycle %d: Connect on a connected client returned nil", i)
		}
		if !s.marker(fmt.Sprintf("rf%d-%d", i, j), lcBudget) {
			k.unfresh("cycle %d: connection not working after a refused Connect", i)
			return k.abandon(s)
		}
	}
	// ---- build the state in which the connection ends ----
	parked := false
	if cy.hs == 1 {
		go s.write(":a!b@c PRIVMSG vbot :park\r\n")
		select {
		case <-k.parkedCh:
			parked = true
		case <-time.After(lcBudget):
			k.fail("cycle %d: handler did not park", i)
			return false
		}
	}
	if cy.outN > 0 {
		s.pause(true) // the server stops reading: send blocks in its write, the out queue fills
		if cy.outBy == 1 && cy.hs == 2 {
			go s.write(":a!b@c PRIVMSG vbot :emit\r\n")
			select {
			case <-k.emitCh:
			case <-time.After(lcBudget):
				k.fail("cycle %d: emitting handler did not start", i)
				return false
			}
		} else {
			n := cy.outN
			go func() { // a goroutine of the application; it may stay blocked in Raw for ever
				for j := 0; j < n && atomic.LoadInt32(&k.discSeen) <= int32(i); j++ {
					conn.Raw(fmt.Sprintf("PRIVMSG #g :%d", j))
				}
			}()
		}
		time.Sleep(3 * time.Millisecond)
	}
	inDone := make(chan struct{})
	if cy.inN > 0 {
		segs := cy.segs
		if segs < 1 {
			segs = 1
		}
		go func() { // may block once bufio's buffer and the in queue are full
			defer close(inDone)
			per := (cy.inN + segs - 1) / segs
			sent := 0
			for sent < cy.inN {
				var b strings.Builder
				for j := 0; j < per && sent < cy.inN; j++ {
					fmt.Fprintf(&b, ":a!b@c PRIVMSG vbot :c%dn%d\r\n", i, sent)
					sent++
				}
				if s.write(b.String()) != nil {
					return
				}
			}
		}()
		select { // give the backlog time to build up (it cannot finish while the handler is busy)
		case <-inDone:
		case <-time.After(5 * time.Millisecond):
		}
	} else {
		close(inDone)
	}
	// ---- fire the enders, all at once ----
	k.log.add("en:%d", g)
	start := make(chan struct{})
	var cw sync.WaitGroup
	for j := 0; j < cy.closeN; j++ {
		cw.Add(1)
		c := k.newCall()
		k.log.add("xc:%d", c)
		go func() {
			defer cw.Done()
			<-start
			conn.Close()
			k.log.add("xr:%d", c)
			atomic.AddInt32(&k.closersBack[i], 1)
		}()
	}
	if cy.eof {
		go func() {
			<-start
			if cy.errLine&1 != 0 { // what every real server does before it hangs up
				s.c.SetWriteDeadline(time.Now().Add(300 * time.Millisecond))
				s.c.Write([]byte("ERROR :Closing Link: vbot[h] (Quit: bye)\r\n"))
			}
			s.c.Close()
		}()
	}
	if cy.rderr {
		go func() { <-start; s.cli.SetReadDeadline(time.Unix(1, 0)) }()
	}
	if cy.wrerr {
		go func() {
			<-start
			s.cli.SetWriteDeadline(time.Unix(1, 0))
			conn.Raw("PING :w") // make sure send has something to write (may block: own goroutine)
		}()
	}
	if cy.cancel {
		k.mu.Lock()
		cancel := k.cancel
		k.mu.Unlock()
		if cancel != nil {
			go func() { <-start; cancel() }()
		}
	}
	if parked && cy.relFirst {
		close(k.releaseCh[i])
		parked = false
	}
	close(start)
	if parked {
		time.Sleep(2 * time.Millisecond)
		close(k.releaseCh[i])
	}
	// ---- the disconnect must complete ----
	select {
	case gd := <-k.discCh:
		if gd != g {
			k.note("cycle %d: DISCONNECTED handler ran for generation %d", i, gd)
		}
	case <-time.After(lcBudget):
		k.fail("cycle %d (%s): DISCONNECTED not delivered within %v", i, cy.enders(), lcBudget)
		return false
	}
	last := i+1 >= len(sc.cycles)
	if !last && cy.origin == 0 {
		select {
		case err := <-k.handlerConn:
			if err != nil {
				k.fail("cycle %d: Connect from the DISCONNECTED handler failed: %v", i, err)
				return false
			}
		case <-time.After(lcBudget):
			k.fail("cycle %d: Connect from the DISCONNECTED handler did not return", i)
			return false
		}
	}
	cdone := make(chan struct{})
	go func() { cw.Wait(); close(cdone) }()
	select {
	case <-cdone:
	case <-time.After(lcBudget):
		k.fail("cycle %d (%s): a Close call did not return within %v", i, cy.enders(), lcBudget)
		return false
	}
	s.pause(false)
	s.c.Close()
	if !last && cy.origin == 1 {
		// "another goroutine woken by the handler"
		errc := make(chan error, 1)
		go func() { errc <- k.connectCycle(i + 1) }()
		select {
		case err := <-errc:
			if err != nil {
				k.fail("cycle %d: reconnect failed: %v", i, err)
				return false
			}
		case <-time.After(lcBudget):
			k.fail("cycle %d: reconnect did not return", i)
			return false
		}
	}
	return true
}

func (k *lcCase) abandon(s *lcSrvConn) bool {
	s.c.Close()
	return false
}

// ---------- child processes and parallel pre-execution ----------
// Every case runs in a CHILD process (this binary re-executed as "h LCchild"): an unrecovered
// panic on a goroutine of the library (e.g. a nil socket) kills the whole process, and that
// must become an observation — "dead" + the first line of the crash report, for exactly the
// script that was in flight — not the death of the harness.  A child runs its batch of
// scripts one after the other; 12 children run side by side.  Gen derives every input from the
// seed first, hands them to the children, and Exec looks the result up (an input that was
// not pre-run — corpus, replay — gets a child of its own).
func init() {
	props["LCchild"] = &Prop{
		Gen:  func(r *Rand, tier string, scale int, emit func(Fields)) { lcChildMain() },
		Exec: func(in Fields) Fields { return F("bad") },
	}
}

// child: one input per stdin line; journal on stdout: "B <input>" when a case begins,
// "R <input> | <obs>" when it has finished
func lcChildMain() {
	sc := bufio.NewScanner(os.Stdin)
	sc.Buffer(make([]byte, 1<<20), 1<<28)
	out := bufio.NewWriter(os.Stdout)
	for sc.Scan() {
		line := strings.TrimSpace(sc.Text())
		if line == "" {
			continue
		}
		in, err := ParseFields(line)
		if err != nil {
			os.Exit(3)
		}
		fmt.Fprintf(out, "B %s\n", in.String())
		out.Flush()
		var obs Fields
		switch in.S(0) {
		case "lctcp":
			obs = lcRunTCP(in).fields()
		case "lcquit":
			obs = lcRunQuit(in).fields()
		case "lcslow":
			obs = lcRunSlowDial(in).fields()
		default:
			obs = lcRunCase(lcParse(in)).fields()
		}
		fmt.Fprintf(out, "R %s | %s\n", in.String(), obs.String())
		out.Flush()
	}
}

// a bounded tail of the child's stderr (also forwarded to ours: goroutine dumps of hung cases)
type lcTail struct {
	mu  sync.Mutex
	buf []byte
}

func (t *lcTail) Write(b []byte) (int, error) {
	t.mu.Lock()
	t.buf = append(t.buf, b...)
	if len(t.buf) > 1<<16 {
		t.buf = t.buf[len(t.buf)-1<<16:]
	}
	t.mu.Unlock()
	return os.Stderr.Write(b)
}

// the crash report's headline: "panic: ..." / "fatal error: ..." and the [signal ...] line
func (t *lcTail) headline() string {
	t.mu.Lock()
	defer t.mu.Unlock()
	var keep []string
	for _, l := range strings.Split(string(t.buf), "\n") {
		if strings.HasPrefix(l, "panic:") || strings.HasPrefix(l, "fatal error:") || strings.HasPrefix(l, "[signal") {
			keep = append(keep, strings.TrimSpace(l))
		}
	}
	if len(keep) > 3 {
		keep = keep[len(keep)-3:]
	}
	return strings.Join(keep, " ")
}

// lcRunBatch runs the inputs in child processes, restarting after a crash with what is left
func lcRunBatch(inputs []Fields, deliver func(key string, obs Fields)) {
	exe, err := os.Executable()
	if err != nil {
		exe = os.Args[0]
	}
	remaining := append([]Fields{}, inputs...)
	drop := func(key string) {
		for i, in := range remaining {
			if in.String() == key {
				remaining = append(remaining[:i], remaining[i+1:]...)
				return
			}
		}
	}
	for len(remaining) > 0 {
		var stdin strings.Builder
		for _, in := range remaining {
			stdin.WriteString(in.String() + "\n")
		}
		cmd := exec.Command(exe, "LCchild")
		cmd.Stdin = strings.NewReader(stdin.String())
		tail := &lcTail{}
		cmd.Stderr = tail
		pipe, err := cmd.StdoutPipe()
		if err == nil {
			err = cmd.Start()
		}
		if err != nil {
			for _, in := range remaining {
				deliver(in.String(), F("dead", "cannot-start-child: "+err.Error()))
			}
			return
		}
		lines := make(chan string, 64)
		go func() {
			sc := bufio.NewScanner(pipe)
			sc.Buffer(make([]byte, 1<<20), 1<<28)
			for sc.Scan() {
				lines <- sc.Text()
			}
			close(lines)
		}()
		inflight, why := "", ""
	read:
		for {
			select {
			case l, ok := <-lines:
				if !ok {
					break read
				}
				switch {
				case strings.HasPrefix(l, "B "):
					inflight = strings.TrimSpace(l[2:])
				case strings.HasPrefix(l, "R "):
					k := strings.Index(l, "|")
					if k < 0 {
						continue
					}
					key := strings.TrimSpace(l[2:k])
					if obs, perr := ParseFields(l[k+1:]); perr == nil {
						deliver(key, obs)
						drop(key)
						inflight = ""
					}
				}
			case <-time.After(8*lcBudget + 30*time.Second):
				why = "child made no progress; killed"
				cmd.Process.Kill()
				break read
			}
		}
		for range lines { // drain after a kill
		}
		werr := cmd.Wait()
		if len(remaining) == 0 {
			return
		}
		// the child ended with work left: the script in flight is the one that killed it
		if why == "" {
			why = tail.headline()
			if why == "" && werr != nil {
				why = werr.Error()
			}
		}
		victim := inflight
		if victim == "" {
			victim = remaining[0].String() // died before it even began: do not loop for ever
		}
		deliver(victim, F("dead", why))
		drop(victim)
	}
}

var (
	lcCacheMu sync.Mutex
	lcCache   = map[string]chan Fields{}
)

func lcPrefetch(inputs []Fields, workers int) {
	batches := make([][]Fields, workers)
	n := 0
	for _, in := range inputs {
		key := in.String()
		lcCacheMu.Lock()
		if _, dup := lcCache[key]; dup {
			lcCacheMu.Unlock()
			continue
		}
		lcCache[key] = make(chan Fields, 1)
		lcCacheMu.Unlock()
		batches[n%workers] = append(batches[n%workers], in)
		n++
	}
	for _, b := range batches {
		if len(b) == 0 {
			continue
		}
		b := b
		go lcRunBatch(b, func(key string, obs Fields) {
			lcCacheMu.Lock()
			ch := lcCache[key]
			lcCacheMu.Unlock()
			if ch != nil {
				select {
				case ch <- obs:
				default:
				}
			}
		})
	}
}
func lcExec(in Fields) Fields {
	lcCacheMu.Lock()
	ch, ok := lcCache[in.String()]
	lcCacheMu.Unlock()
	if ok {
		obs := <-ch
		lcCacheMu.Lock()
		delete(lcCache, in.String())
		lcCacheMu.Unlock()
		return obs
	}
	var got Fields
	lcRunBatch([]Fields{in}, func(_ string, obs Fields) { got = obs })
	if got == nil {
		got = F("dead", "no observation")
	}
	return got
}

func lcClass(in Fields) string {
	switch in.S(0) {
	case "lctcp":
		return fmt.Sprintf("tcp timeout=%dms hold=%dms cycles=%d", in.I(1), in.I(2), in.I(3))
	case "lcquit":
		return fmt.Sprintf("quit-then-reconnect origin=%d", in.I(1))
	case "lcslow":
		return "slow dial past the connect deadline"
	}
	sc := lcParse(in)
	if len(sc.cycles) == 0 {
		return "empty"
	}
	c := sc.cycles[0]
	bk := func(n int) string {
		switch {
		case n == 0:
			return "0"
		case n <= 32:
			return "<=32"
		case n <= 67:
			return "33..67"
		default:
			return ">67"
		}
	}
	return fmt.Sprintf("cycles=%d enders=%s hs=%d in=%s out=%s", len(sc.cycles), c.enders(), c.hs, bk(c.inN), bk(c.outN))
}
