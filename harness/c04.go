package main

// C04: every registered handler runs exactly once per matching event.
//
// A case is a HISTORY (see coq/Entry/EntryC04.v for the field format): registrations into the
// foreground / background sets, removals, incoming events, scripts that handlers perform when
// they are invoked (registration / removal from inside a running handler, self-removal) and
// free goroutines racing Handle*/Remove against dispatch.  It is run against a real client over
// the in-memory socket.  Every registry call and every handler entry is stamped with one global
// atomic clock; the observation is the stamped registrations, per event and set the interval in
// which the snapshot was taken, and the per-handler invocation counts.

import (
	"bytes"
	"fmt"
	"runtime"
	"sort"
	"strconv"
	"strings"
	"sync"
	"sync/atomic"
	"time"

	"github.com/fluffle/goirc/client"
)

func init() {
	props["C04"] = &Prop{
		Gen:  c04Gen,
		Exec: c04Exec,
		Class: func(in Fields) string {
			nE, nN, nOps := 0, 0, 0
			for i := 1; i+3 < len(in); i += 4 {
				switch in.S(i) {
				case "E":
					nE++
				case "N":
					nN++
				}
				nOps++
			}
			b := "ops<=15"
			if nOps > 40 {
				b = "ops>40"
			} else if nOps > 15 {
				b = "ops16-40"
			}
			n := "flat"
			if nN > 0 {
				n = "nested"
			}
			return in.S(0) + ":" + b + ":" + n
		},
	}
}

type c04Op struct {
	op, name string
	a, b     int
}

type c04RegRec struct {
	start, ret, rmStart, rmRet int64
}

type c04Key struct {
	kind, serial int
}

type c04State struct {
	ws      *WireSession
	clock   atomic.Int64
	mu      sync.Mutex
	regs    map[int]*c04RegRec     // rid -> stamps
	rems    map[int]client.Remover // rid -> Remover
	used    map[int]bool           // rid -> Remove() already called
	scripts map[[2]int][]c04Op     // (hid, serial) -> script
	fired   map[[2]int]bool        // script already performed
	counts  map[c04Key]map[int]int // (kind, serial) -> hid -> invocations
	first   map[c04Key]int64       // (kind, serial) -> first handler entry stamp
	touched map[c04Key]bool        // a nested op touched set kind while event serial was in flight
	info    map[int][2]string      // rid -> (kind, lower-cased name): used ONLY to decide how long to wait
	curSer  int
	started atomic.Int64
	done    atomic.Int64
	signal  chan struct{} // poked on every handler entry / exit
	slow    bool          // a long wait already timed out in this case: keep the remaining ones short
	fmu     sync.Mutex
	flights map[int64]*c04Flight // registry calls that have started and not yet returned
	fseq    int64
	hung    string        // non-empty: the case was abandoned, with what was in flight
	release chan struct{} // closed by the U record (or at the end): handlers parked by nW go on
	relOnce sync.Once
	parked  atomic.Int64 // handlers currently parked in nW (they do not count as running)
}

func (st *c04State) unpark() { st.relOnce.Do(func() { close(st.release) }) }

// a start barrier for free goroutines (G records with b = 1): they park in a spin loop until the
// next Z record releases all of them together, so that their registry calls really overlap
type c04Barrier struct {
	n        int
	ready    atomic.Int64
	released atomic.Bool
}

// a registry call in flight: who issued it and since when
type c04Flight struct {
	desc  string
	since atomic.Int64 // unix nanoseconds of the call's start; 0 = not in flight
}

// "registering or removing handlers from within a handler neither deadlocks ..." is part of the
// property: a registry call or an event's handlers that have not completed within this budget
// (normal: microseconds) make the case "hung"
const c04Budget = 3 * time.Second

// cases abandoned as hung in this run; after 3 the run stops executing cases
var c04HungCases int

// registers a flight record for a call that is about to be made; the hot path of the call itself then
// only does atomic stores (no mutex, no formatting), so that calls released from a barrier overlap
func (st *c04State) flight(o c04Op, who string) *c04Flight {
	arg := fmt.Sprintf("name=%q hid=%d rid=%d", o.name, o.a, o.b)
	if strings.HasSuffix(o.op, "R") {
		arg = fmt.Sprintf("rid=%d", o.a)
	}
	f := &c04Flight{desc: fmt.Sprintf("%s %s issued by %s", o.op, arg, who)}
	st.fmu.Lock()
	st.fseq++
	st.flights[st.fseq] = f
	st.fmu.Unlock()
	return f
}

// the registry calls that have been in flight for longer than d (oldest first)
func (st *c04State) stuck(d time.Duration) string {
	st.fmu.Lock()
	defer st.fmu.Unlock()
	now := time.Now().UnixNano()
	ids := make([]int64, 0)
	for id, f := range st.flights {
		if t := f.since.Load(); t != 0 && time.Duration(now-t) > d {
			ids = append(ids, id)
		}
	}
	sort.Slice(ids, func(i, j int) bool { return ids[i] < ids[j] })
	var out []string
	for _, id := range ids {
		out = append(out, st.flights[id].desc)
	}
	return strings.Join(out, "; ")
}
func (st *c04State) inFlight() string {
	return st.stuck(-1)
}

func (st *c04State) poke() {
	select {
	case st.signal <- struct{}{}:
	default:
	}
}

// one registry operation, stamped; used by the main goroutine, by handler scripts and by free goroutines
func (st *c04State) perform(o c04Op, who string) {
	st.prepare(o, who)()
}

// prepare does everything that can be done ahead of the call (handler closure, records, journal
// entry) and returns the call itself
func (st *c04State) prepare(o c04Op, who string) func() {
	fl := st.flight(o, who)
	switch strings.TrimLeft(o.op, "ng") {
	case "H", "HF", "B":
		hid, rid := o.a, o.b
		kind := 0
		if strings.HasSuffix(o.op, "B") {
			kind = 1
		}
		h := st.handler(kind, hid)
		rec := &c04RegRec{}
		var call func(name string, h client.HandlerFunc) client.Remover
		switch strings.TrimLeft(o.op, "ng") {
		case "H":
			call = func(name string, h client.HandlerFunc) client.Remover { return st.ws.Conn.Handle(name, h) }
		case "HF":
			call = st.ws.Conn.HandleFunc
		default:
			call = func(name string, h client.HandlerFunc) client.Remover { return st.ws.Conn.HandleBG(name, h) }
		}
		info := [2]string{strconv.Itoa(kind), strings.ToLower(o.name)}
		return func() {
			fl.since.Store(time.Now().UnixNano())
			rec.start = st.clock.Add(1)
			rm := call(o.name, h)
			rec.ret = st.clock.Add(1)
			fl.since.Store(0)
			st.mu.Lock()
			st.regs[rid] = rec
			st.rems[rid] = rm
			st.info[rid] = info
			st.touched[c04Key{kind, st.curSer}] = true
			st.mu.Unlock()
		}
	case "W": // nW: the handler blocks until the history releases it (a slow background handler)
		return func() {
			st.parked.Add(1)
			st.poke()
			select {
			case <-st.release:
			case <-time.After(60 * time.Second):
			}
			st.parked.Add(-1)
		}
	case "R":
		rid := o.a
		return func() {
			st.mu.Lock()
			rm, ok := st.rems[rid]
			rec := st.regs[rid]
			if ok && st.used[rid] {
				ok = false
			}
			if ok {
				st.used[rid] = true
				st.touched[c04Key{0, st.curSer}] = true
				st.touched[c04Key{1, st.curSer}] = true
			}
			st.mu.Unlock()
			if !ok {
				return
			}
			fl.since.Store(time.Now().UnixNano())
			t0 := st.clock.Add(1)
			rm.Remove()
			t1 := st.clock.Add(1)
			fl.since.Store(0)
			st.mu.Lock()
			rec.rmStart, rec.rmRet = t0, t1
			st.mu.Unlock()
		}
	}
	return func() {}
}

func (st *c04State) handler(kind, hid int) client.HandlerFunc {
	return func(c *client.Conn, l *client.Line) {
		stamp := st.clock.Add(1)
		st.started.Add(1)
		serial := 0
		if len(l.Args) > 0 {
			serial, _ = strconv.Atoi(l.Args[0])
		}
		k := c04Key{kind, serial}
		st.mu.Lock()
		if st.counts[k] == nil {
			st.counts[k] = map[int]int{}
		}
		st.counts[k][hid]++
		if f, ok := st.first[k]; !ok || stamp < f {
			st.first[k] = stamp
		}
		sk := [2]int{hid, serial}
		script := st.scripts[sk]
		if st.fired[sk] {
			script = nil
		}
		st.fired[sk] = true
		st.mu.Unlock()
		st.poke()
		for _, o := range script {
			st.perform(o, fmt.Sprintf("handler hid=%d (set %d) while running for event %d", hid, kind, serial))
		}
		st.done.Add(1)
		st.poke()
	}
}

// wait until cond() or the deadline; woken by handler activity
// number of cases of this run in which a long wait timed out: a badly broken implementation must
// not make the whole run take hours, so after a few of them the long waits are cut down
var c04SlowCases int

func (st *c04State) waitFor(d time.Duration, cond func() bool) bool {
	if st.slow && d > 100*time.Millisecond {
		d = 100 * time.Millisecond
	}
	if c04SlowCases >= 5 && d > 300*time.Millisecond {
		d = 300 * time.Millisecond
	}
	long := d >= time.Second
	return st.waitUntil(d, long, cond)
}

// waitHard is waitFor without the shortening: used for the hang budget
func (st *c04State) waitHard(d time.Duration, cond func() bool) bool {
	return st.waitUntil(d, false, cond)
}

func (st *c04State) waitUntil(d time.Duration, long bool, cond func() bool) bool {
	deadline := time.Now().Add(d)
	for {
		if cond() {
			return true
		}
		if st.stuck(c04Budget) != "" {
			return false
		}
		left := time.Until(deadline)
		if left <= 0 {
			if long && !st.slow {
				st.slow = true
				c04SlowCases++
			}
			return false
		}
		if left > 2*time.Millisecond {
			left = 2 * time.Millisecond
		}
		select {
		case <-st.signal:
		case <-time.After(left):
		}
	}
}

func (st *c04State) waitWire(marker string, d time.Duration) bool {
	ws := st.ws
	m := []byte(marker)
	deadline := time.Now().Add(d)
	ws.mu.Lock()
	defer ws.mu.Unlock()
	for {
		if k := bytes.Index(ws.buf, m); k >= 0 {
			ws.buf = ws.buf[k+len(m):]
			return true
		}
		if ws.closed || time.Now().After(deadline) {
			return false
		}
		t := time.AfterFunc(20*time.Millisecond, func() { ws.mu.Lock(); ws.cond.Broadcast(); ws.mu.Unlock() })
		ws.cond.Wait()
		t.Stop()
	}
}

func c04Parse(in Fields) (string, []c04Op) {
	var ops []c04Op
	for i := 1; i+3 < len(in); i += 4 {
		ops = append(ops, c04Op{in.S(i), in.S(i + 1), in.I(i + 2), in.I(i + 3)})
	}
	return in.S(0), ops
}

func c04Exec(in Fields) Fields {
	_, ops := c04Parse(in)
	if c04HungCases >= 3 {
		return F("notrun")
	}
	st := &c04State{
		regs: map[int]*c04RegRec{}, rems: map[int]client.Remover{}, used: map[int]bool{},
		scripts: map[[2]int][]c04Op{}, fired: map[[2]int]bool{},
		counts: map[c04Key]map[int]int{}, first: map[c04Key]int64{}, touched: map[c04Key]bool{}, info: map[int][2]string{},
		signal: make(chan struct{}, 1), flights: map[int64]*c04Flight{}, release: make(chan struct{}),
	}
	st.ws = NewWireSession(nil)
	// a hung client is abandoned (leaked): closing it could block as well
	defer func() {
		if st.hung == "" {
			st.ws.Close()
		}
	}()
	defer st.unpark()
	giveUp := func(what string) Fields {
		fl := st.inFlight()
		if fl == "" {
			fl = "none"
		}
		st.hung = what + " within " + c04Budget.String() + "; registry calls in flight: " + fl
		c04HungCases++
		return F("hung", st.hung)
	}
	// a registry call of the main goroutine, under the watchdog
	guarded := func(o c04Op) bool {
		done := make(chan struct{})
		go func() { st.perform(o, "the main goroutine"); close(done) }()
		select {
		case <-done:
			return true
		case <-time.After(c04Budget):
			return false
		}
	}
	var wg sync.WaitGroup
	joined := func() bool {
		done := make(chan struct{})
		go func() { wg.Wait(); close(done) }()
		select {
		case <-done:
			return true
		case <-time.After(c04Budget):
			return false
		}
	}

	// pre-load handler scripts; collect the bodies of free goroutines
	type gor struct{ ops []c04Op }
	gors := map[int]*gor{} // index of the G record -> body
	var top []int          // indices of top-level records
	for i := 0; i < len(ops); i++ {
		switch ops[i].op {
		case "N":
			key := [2]int{ops[i].a, ops[i].b}
			j := i + 1
			for j < len(ops) && strings.HasPrefix(ops[j].op, "n") {
				st.scripts[key] = append(st.scripts[key], ops[j])
				j++
			}
			i = j - 1
		case "G":
			g := &gor{}
			j := i + 1
			for j < len(ops) && strings.HasPrefix(ops[j].op, "g") {
				g.ops = append(g.ops, ops[j])
				j++
			}
			gors[i] = g
			top = append(top, i)
			i = j - 1
		default:
			top = append(top, i)
		}
	}

	type snapRec struct{ lo, hi int64 }
	snaps := map[c04Key]*snapRec{}
	serial := 0
	var bar *c04Barrier
	defer func() { // never leave goroutines spinning behind
		if bar != nil {
			bar.released.Store(true)
		}
	}()
	for _, i := range top {
		o := ops[i]
		switch o.op {
		case "H", "HF", "B", "R":
			if !guarded(o) {
				return giveUp(fmt.Sprintf("%s by the main goroutine (after event %d) did not return", o.op, serial))
			}
		case "G":
			g := gors[i]
			var myBar *c04Barrier
			if o.b == 1 {
				if bar == nil {
					bar = &c04Barrier{}
				}
				bar.n++
				myBar = bar
			}
			wg.Add(1)
			go func() {
				defer wg.Done()
				ops := g.ops
				if myBar != nil && len(ops) > 0 {
					first := st.prepare(ops[0], fmt.Sprintf("free goroutine %d", o.a))
					ops = ops[1:]
					myBar.ready.Add(1)
					for !myBar.released.Load() {
						runtime.Gosched()
					}
					first()
				}
				for _, x := range ops {
					st.perform(x, fmt.Sprintf("free goroutine %d", o.a))
				}
			}()
		case "U": // release the handlers parked by nW
			st.unpark()
		case "Z": // release the parked goroutines, once all of them have reached the barrier
			if bar != nil {
				b := bar
				st.waitHard(c04Budget, func() bool { return int(b.ready.Load()) == b.n })
				b.released.Store(true)
				bar = nil
			}
		case "J":
			if !joined() {
				return giveUp("the free goroutines did not finish")
			}
		case "E":
			serial++
			kf, kb := c04Key{0, serial}, c04Key{1, serial}
			st.mu.Lock()
			st.curSer = serial
			// the background registrations the harness believes live under this name: used ONLY to
			// decide how long to wait, never to judge
			expect := 0
			for rid, inf := range st.info {
				if inf[0] == "1" && inf[1] == strings.ToLower(o.name) && !st.used[rid] {
					expect++
				}
			}
			st.mu.Unlock()
			lo := st.clock.Add(1)
			snaps[kf] = &snapRec{lo: lo}
			snaps[kb] = &snapRec{lo: lo}
			line := fmt.Sprintf(":srv %s %d\r\nPING :m%d\r\n", o.name, serial, serial)
			if _, err := st.ws.Srv.Write([]byte(line)); err != nil {
				break
			}
			// the PONG proves the internal PING handler ran, hence (runLoop is sequential) that the
			// foreground dispatch of the event line has completed
			if !st.waitWire(fmt.Sprintf("PONG :m%d\r\n", serial), c04Budget) {
				return giveUp(fmt.Sprintf("event %d (%s): the foreground dispatch did not complete (no PONG)", serial, o.name))
			}
			syncStamp := st.clock.Add(1)
			// background: pinned by the sentinel (any background handler entry proves the snapshot)
			bgCount := func() int {
				st.mu.Lock()
				defer st.mu.Unlock()
				n := 0
				for _, c := range st.counts[kb] {
					n += c
				}
				return n
			}
			st.waitFor(2*time.Second, func() bool {
				st.mu.Lock()
				_, ok := st.first[kb]
				st.mu.Unlock()
				return ok
			})
			bgStamp := st.clock.Add(1)
			quiet := func() bool { return st.started.Load() == st.done.Load()+st.parked.Load() }
			if !st.waitFor(200*time.Millisecond, func() bool { return quiet() && bgCount() >= expect }) {
				st.mu.Lock()
				window := st.touched[kb]
				st.mu.Unlock()
				if !window {
					st.waitFor(1800*time.Millisecond, func() bool { return quiet() && bgCount() >= expect })
				}
			}
			if !st.waitHard(c04Budget, quiet) {
				return giveUp(fmt.Sprintf("event %d (%s): a handler did not return", serial, o.name))
			}
			st.mu.Lock()
			if f, ok := st.first[kf]; ok && f < syncStamp {
				snaps[kf].hi = f
			} else {
				snaps[kf].hi = syncStamp
			}
			if f, ok := st.first[kb]; ok && f < bgStamp {
				snaps[kb].hi = f
			} else {
				snaps[kb].hi = bgStamp
			}
			st.curSer = 0
			st.mu.Unlock()
		}
	}
	st.unpark()
	if !joined() {
		return giveUp("the free goroutines did not finish")
	}
	if !st.waitHard(c04Budget, func() bool { return st.started.Load() == st.done.Load() }) {
		return giveUp("a handler did not return by the end of the history")
	}
	time.Sleep(200 * time.Microsecond)

	// ---- observation ----
	var obs Fields
	st.mu.Lock()
	defer st.mu.Unlock()
	rids := make([]int, 0, len(st.regs))
	for r := range st.regs {
		rids = append(rids, r)
	}
	sort.Ints(rids)
	for _, r := range rids {
		x := st.regs[r]
		obs = append(obs, F("r", r, x.start, x.ret, x.rmStart, x.rmRet)...)
	}
	for s := 1; s <= serial; s++ {
		for kind := 0; kind < 2; kind++ {
			k := c04Key{kind, s}
			obs = append(obs, F("s", kind, s, snaps[k].lo, snaps[k].hi, 0)...)
		}
	}
	keys := make([]c04Key, 0, len(st.counts))
	for k := range st.counts {
		keys = append(keys, k)
	}
	sort.Slice(keys, func(i, j int) bool {
		if keys[i].serial != keys[j].serial {
			return keys[i].serial < keys[j].serial
		}
		return keys[i].kind < keys[j].kind
	})
	for _, k := range keys {
		hids := make([]int, 0)
		for h := range st.counts[k] {
			hids = append(hids, h)
		}
		sort.Ints(hids)
		for _, h := range hids {
			obs = append(obs, F("c", k.kind, k.serial, h, st.counts[k][h], 0)...)
		}
	}
	return obs
}

// ---------------- generator ----------------

var c04Bases = []string{"foo", "bar", "baz"}

func c04Variant(r *Rand, base string) string {
	switch r.Intn(4) {
	case 0:
		return base
	case 1:
		return strings.ToUpper(base)
	case 2:
		return strings.ToUpper(base[:1]) + base[1:]
	default:
		b := []byte(base)
		for i := range b {
			if r.Bool() {
				b[i] = b[i] - 32
			}
		}
		return string(b)
	}
}

// the generator's own picture of the registry (what a sequential run would give); it only steers
// the choice of operations — removals of a Remover that does not exist at run time are skipped by
// the harness and by the model alike
type c04Shadow struct {
	lists   map[string][]int // "<kind>/<lower name>" -> live rids in registration order
	hidOf   map[int]int
	keyOf   map[int]string
	removed map[int]bool // a Remove op for this rid was already emitted (each Remover at most once)
	nextRid int
	sentBg  map[string]bool
}

func c04NewShadow() *c04Shadow {
	return &c04Shadow{lists: map[string][]int{}, hidOf: map[int]int{}, keyOf: map[int]string{}, removed: map[int]bool{}, sentBg: map[string]bool{}}
}
func (s *c04Shadow) reg(kind int, name string, hid int) int {
	rid := s.nextRid
	s.nextRid++
	k := fmt.Sprintf("%d/%s", kind, strings.ToLower(name))
	s.lists[k] = append(s.lists[k], rid)
	s.hidOf[rid] = hid
	s.keyOf[rid] = k
	return rid
}
func (s *c04Shadow) remove(rid int) {
	s.removed[rid] = true
	k := s.keyOf[rid]
	l := s.lists[k]
	for i, x := range l {
		if x == rid {
			s.lists[k] = append(append([]int{}, l[:i]...), l[i+1:]...)
			return
		}
	}
}

// pick a removable rid at the wanted list position (0 first, 1 middle, 2 last, 3 only); sentinels (hid >= 100) stay
func (s *c04Shadow) pick(r *Rand, pos int) (int, bool) {
	keys := make([]string, 0, len(s.lists))
	for k := range s.lists {
		keys = append(keys, k)
	}
	sort.Strings(keys)
	off := r.Intn(len(keys) + 1)
	for j := range keys {
		l := s.lists[keys[(j+off)%len(keys)]]
		var c int
		switch {
		case pos == 3 && len(l) == 1:
			c = l[0]
		case pos == 0 && len(l) >= 2:
			c = l[0]
		case pos == 2 && len(l) >= 2:
			c = l[len(l)-1]
		case pos == 1 && len(l) >= 3:
			c = l[1+r.Intn(len(l)-2)]
		default:
			continue
		}
		if s.hidOf[c] < 100 && !s.removed[c] {
			return c, true
		}
	}
	// any removable
	for j := range keys {
		for _, c := range s.lists[keys[(j+off)%len(keys)]] {
			if s.hidOf[c] < 100 && !s.removed[c] {
				return c, true
			}
		}
	}
	return 0, false
}

func c04RegOp(r *Rand, s *c04Shadow, prefix string, name string) (Fields, int) {
	hid := 1 + r.Intn(12)
	var op string
	kind := 0
	switch r.Intn(5) {
	case 0, 1:
		op = "H"
	case 2:
		op = "HF"
	default:
		op = "B"
		kind = 1
	}
	if name == "" {
		name = c04Variant(r, r.Pick(c04Bases))
	}
	rid := s.reg(kind, name, hid)
	return F(prefix+op, name, hid, rid), rid
}

func c04GenOne(r *Rand, race bool) Fields {
	s := c04NewShadow()
	in := F(map[bool]string{false: "seq", true: "race"}[race])
	nOps := r.Range(5, 60)
	serial := 0
	pos := r.Intn(4)
	raceOpen := false
	raceAt := -1
	if race {
		raceAt = r.Intn(nOps/2 + 1)
	}
	for n := 0; n < nOps; n++ {
		if race && n == raceAt {
			ng := r.Range(2, 8)
			for g := 0; g < ng; g++ {
				in = append(in, F("G", "", g, 0)...)
				for j := 0; j < r.Range(1, 4); j++ {
					if r.Chance(60) {
						f, _ := c04RegOp(r, s, "g", "")
						in = append(in, f...)
					} else if rid, ok := s.pick(r, r.Intn(4)); ok {
						s.remove(rid)
						in = append(in, F("gR", "", rid, 0)...)
					}
				}
			}
			raceOpen = true
		}
		if raceOpen && n > raceAt+r.Range(2, 6) {
			in = append(in, F("J", "", 0, 0)...)
			raceOpen = false
		}
		x := r.Intn(100)
		switch {
		case x < 35:
			f, _ := c04RegOp(r, s, "", "")
			in = append(in, f...)
		case x < 55:
			if rid, ok := s.pick(r, pos); ok {
				pos = (pos + 1) % 4
				s.remove(rid)
				in = append(in, F("R", "", rid, 0)...)
			} else {
				f, _ := c04RegOp(r, s, "", "")
				in = append(in, f...)
			}
		default:
			base := r.Pick(c04Bases)
			if !s.sentBg[base] {
				// the permanently registered sentinel that pins the start of background dispatch
				s.sentBg[base] = true
				rid := s.reg(1, base, 100)
				in = append(in, F("B", c04Variant(r, base), 100, rid)...)
			}
			serial++
			// scripts for handlers of this event: ~30% of all registrations/removals come from here
			for kind := 0; kind < 2; kind++ {
				l := s.lists[fmt.Sprintf("%d/%s", kind, base)]
				done := map[int]bool{}
				for _, rid := range l {
					hid := s.hidOf[rid]
					if hid >= 100 || done[hid] || !r.Chance(22) {
						continue
					}
					done[hid] = true
					in = append(in, F("N", "", hid, serial)...)
					for j := 0; j < r.Range(1, 3); j++ {
						switch r.Intn(5) {
						case 0: // self-removal
							if !s.removed[rid] {
								s.remove(rid)
								in = append(in, F("nR", "", rid, 0)...)
							}
						case 1: // removal of another handler (often of this very event)
							var c int
							var ok bool
							if r.Bool() && len(l) > 1 {
								c, ok = l[r.Intn(len(l))], true
								ok = s.hidOf[c] < 100 && !s.removed[c]
							} else {
								c, ok = s.pick(r, r.Intn(4))
							}
							if ok {
								s.remove(c)
								in = append(in, F("nR", "", c, 0)...)
							}
						case 2: // registration under the name being dispatched
							f, _ := c04RegOp(r, s, "n", c04Variant(r, base))
							in = append(in, f...)
						default:
							f, _ := c04RegOp(r, s, "n", "")
							in = append(in, f...)
						}
					}
				}
			}
			in = append(in, F("E", c04Variant(r, base), 0, 0)...)
		}
	}
	if raceOpen {
		in = append(in, F("J", "", 0, 0)...)
	}
	// after everything has returned: one more event per base name that has a sentinel
	for _, base := range c04Bases {
		if s.sentBg[base] {
			in = append(in, F("E", c04Variant(r, base), 0, 0)...)
		}
	}
	return in
}

// all histories of length <= maxLen over 2 names x 2 handlers (sentinels registered first)
func c04Exhaustive(maxLen int, emit func(Fields)) {
	type sym struct {
		op, name string
		hid      int
	}
	alpha := []sym{{"H", "foo", 1}, {"H", "BAR", 2}, {"B", "foo", 1}, {"B", "BAR", 2},
		{"R", "", 0}, {"R", "", 1}, {"R", "", 2}, {"E", "FOO", 0}, {"E", "bar", 0}}
	var rec func(prefix []sym)
	rec = func(prefix []sym) {
		if len(prefix) > 0 {
			in := F("seq", "B", "Foo", 100, 0, "B", "bAR", 100, 1)
			rid := 2
			var rids []int
			usedR := map[int]bool{}
			okCase := true
			for _, x := range prefix {
				switch x.op {
				case "H", "B":
					in = append(in, F(x.op, x.name, x.hid, rid)...)
					rids = append(rids, rid)
					rid++
				case "R":
					if x.hid >= len(rids) || usedR[x.hid] {
						okCase = false // each Remover at most once, and only one that was handed out
					} else {
						usedR[x.hid] = true
						in = append(in, F("R", "", rids[x.hid], 0)...)
					}
				case "E":
					in = append(in, F("E", x.name, 0, 0)...)
				}
			}
			if okCase {
				emit(in)
			}
		}
		if len(prefix) == maxLen {
			return
		}
		for _, x := range alpha {
			rec(append(append([]sym{}, prefix...), x))
		}
	}
	rec(nil)
}

// "burst" histories: per round a FRESH event name (never used before on this connection) and
//
//	A: 4-16 free goroutines, released together from a barrier, each registering one handler (its own
//	   hid) under a letter-case variant of that name in the SAME set; after all calls have returned an
//	   event of that name: every one of them must run exactly once (no call overlaps the snapshot, so
//	   the interval oracle is exact); in half of the rounds one or two of the Removers are then used
//	   and the event is sent again;
//	B: one handler registered by the main goroutine (the ONLY one of that name), then — released
//	   together — one goroutine removing it and 1-3 goroutines registering under the same name.
//
// Foreground rounds first register the background sentinel of the name (another set: the name stays
// fresh in the foreground set); background rounds need none (any of the new handlers pins the start).
func c04GenBurst(r *Rand) Fields {
	in := F("burst")
	rid := 0
	rounds := r.Range(3, 6)
	for k := 0; k < rounds; k++ {
		base := "fresh" + string(rune('a'+k))
		kind := 0
		if r.Chance(25) {
			kind = 1
		}
		regOp := func(j int) string {
			if kind == 1 {
				return "gB"
			}
			return []string{"gH", "gHF"}[j%2]
		}
		if kind == 0 {
			in = append(in, F("B", c04Variant(r, base), 100, rid)...)
			rid++
		}
		var rids []int
		if r.Chance(70) {
			n := r.Range(4, 16)
			for j := 0; j < n; j++ {
				in = append(in, F("G", "", j, 1)...)
				in = append(in, F(regOp(j), c04Variant(r, base), 1+j, rid)...)
				rids = append(rids, rid)
				rid++
			}
			in = append(in, F("Z", "", 0, 0, "J", "", 0, 0, "E", c04Variant(r, base), 0, 0)...)
			if r.Bool() {
				for j := 0; j < r.Range(1, 2); j++ {
					in = append(in, F("R", "", rids[r.Intn(len(rids))], 0)...) // a repeated rid is skipped by the harness
				}
				in = append(in, F("E", c04Variant(r, base), 0, 0)...)
			}
		} else {
			only := rid
			in = append(in, F(map[int]string{0: "H", 1: "B"}[kind], c04Variant(r, base), 20, only)...)
			rid++
			in = append(in, F("G", "", 0, 1, "gR", "", only, 0)...)
			n := r.Range(1, 3)
			for j := 0; j < n; j++ {
				in = append(in, F("G", "", 1+j, 1)...)
				in = append(in, F(regOp(j), c04Variant(r, base), 1+j, rid)...)
				rid++
			}
			in = append(in, F("Z", "", 0, 0, "J", "", 0, 0, "E", c04Variant(r, base), 0, 0)...)
		}
	}
	return in
}

// "park" history: 34-40 events of one name, each with a background handler that blocks until the END
// of the history (a slow background handler), a foreground handler and the background sentinel:
// background handlers "do not block the event loop" — every event's foreground handler (and the
// sentinel) must still be invoked; after the release one more event.
func c04GenPark(r *Rand) Fields {
	base := r.Pick(c04Bases)
	in := F("park", "B", c04Variant(r, base), 100, 0, "H", c04Variant(r, base), 1, 1, "B", c04Variant(r, base), 2, 2)
	n := r.Range(34, 40)
	for k := 1; k <= n; k++ {
		in = append(in, F("N", "", 2, k, "nW", "", 0, 0, "E", c04Variant(r, base), 0, 0)...)
	}
	return append(in, F("U", "", 0, 0, "E", c04Variant(r, base), 0, 0)...)
}

// "live" history: snapshot semantics made visible.  150-250 handlers under one name in one set; the
// first of them that gets to run for event 1 registers a new handler under the same name and removes
// the LAST one.  The dispatcher is then still busy starting the goroutines of that long list: the new
// handler must NOT run for event 1 and the removed one MUST (both calls start after the first handler
// entry, i.e. after the snapshot: the interval oracle is exact); event 2 sees the new state.
func c04GenLive(r *Rand, kind int) Fields {
	base := r.Pick(c04Bases)
	op := []string{"H", "B"}[kind]
	in := F("live")
	rid := 0
	if kind == 0 {
		in = append(in, F("B", c04Variant(r, base), 100, rid)...)
		rid++
	}
	in = append(in, F(op, c04Variant(r, base), 1, rid)...)
	rid++
	n := r.Range(150, 250)
	for j := 0; j < n; j++ {
		in = append(in, F([]string{op, map[int]string{0: "HF", 1: "B"}[kind]}[j%2], c04Variant(r, base), 50, rid)...)
		rid++
	}
	tail := rid
	in = append(in, F(op, c04Variant(r, base), 51, tail)...)
	rid++
	// the script belongs to the filler handlers (hid 50): whichever of them runs first performs it
	in = append(in, F("N", "", 50, 1, "n"+op, c04Variant(r, base), 52, rid, "nR", "", tail, 0)...)
	in = append(in, F("E", c04Variant(r, base), 0, 0, "E", c04Variant(r, base), 0, 0)...)
	return in
}

func c04Gen(r *Rand, tier string, scale int, emit func(Fields)) {
	if scale == 0 {
		scale = 300
	}
	// after 3 hung cases the run stops executing (c04Exec answers "notrun"): stop generating too
	live := func(in Fields) {
		if c04HungCases < 3 {
			emit(in)
		}
	}
	for i := 0; i < scale && c04HungCases < 3; i++ {
		if i%6 == 5 {
			live(c04GenBurst(r.Fork()))
			continue
		}
		if i == 8 || i == 150 {
			live(c04GenPark(r.Fork()))
			continue
		}
		if i == 9 || i == 10 || i == 151 || i == 152 {
			live(c04GenLive(r.Fork(), i%2))
			continue
		}
		live(c04GenOne(r.Fork(), i%4 == 3))
	}
	if tier == "thorough" {
		c04Exhaustive(5, live)
	} else {
		c04Exhaustive(3, live)
	}
}
