package main

// Shared machinery of C03 / C05 / C16 (coq/Model/DispatchLts.v): one real client on the
// in-memory socket, a scripted server, user handlers registered through the public API that
// record (enter | exit | panic | recovered, kind, serial, handler index, tracker sample) into
// ONE log in a total order, and the framing / timing noise: the byte stream is cut at random
// points, handlers sleep, GOMAXPROCS varies.  Everything is derived from the input fields.
//
// (recmode 0 default LogPanic | 1 counting hook set in the Config before Client() | 2 the same hook
// installed through conn.Config().Recover AFTER the built-in handlers and half of the user handlers
// were registered: the function configured when the panic happens must get it | 3 the hook set
// through the caller's retained *Config after Client(cfg), before Connect().  seed%3 == 0: a small
// cfg.Timeout (the dial timeout, unrelated to handlers) together with handlers slower than it.)
// track 0 off | 1 EnableStateTracking() before Connect() | 2 after Connect(), before the traffic.
// endmode 0 up | 1 server EOF | 2 user Close() | 3 "reconnect while closing": the last line of
// connection 1 (line close_at-1) has a slow foreground handler; while it runs goroutine A calls
// Close() and goroutine B calls Connect() (same Conn, fresh server end); lines close_at.. arrive on
// connection 2.
// input  = [procs; track; recmode; endmode; close_at; c_fg; c_bg; d_fg; d_bg; seed; panic%; park%;
//           V; (n_fg n_bg) x V; L; code x L; arg x L]
//          code = verb index (0 = the 001 line) | 900 our JOIN of #c | short lines that make a built-in
//          handler panic: 901 "PING", 902 "433 a", 903 "433", 904 "CAP", 905 "JOIN" (tracking on)
//          (+1000: the line is padded beyond bufio's 4096-byte buffer); arg = the serial in the
//          name u<arg> of the member the line acts on (tracking sessions; 0 = none)
//          every line carries its serial in the IRCv3 tag s: "@s=<k> :<prefix> VERB ..."
// obs    = one 7-byte field per event: tag kind k_hi k_lo i a_hi a_lo
//          tag 0 enter 1 exit 2 panic 3 recovered; kind 0 int 1 fg 2 bg 3 connfg 4 connbg 5 discfg 6 discbg
//          and a last field "end:<status>"

import (
	"errors"
	"fmt"
	"net"
	"os"
	"runtime"
	"strconv"
	"strings"
	"sync"
	"sync/atomic"
	"time"

	"github.com/fluffle/goirc/client"
	"github.com/fluffle/goirc/logging"
	"github.com/fluffle/goirc/state"
)

const (
	dspKInt = iota
	dspKFg
	dspKBg
	dspKConnFg
	dspKConnBg
	dspKDiscFg
	dspKDiscBg
)

type dspCase struct {
	procs, track, recmode, endmode, closeAt int
	cfg, cbg, dfg, dbg                      int
	seed                                    uint64
	panicPct, parkPct                       int
	vfg, vbg                                []int
	codes                                   []int
	late                                    bool     // tracking switched on after Connect()
	texts                                   []string // wire text per line
	args                                    []int    // per line: target member (tracking sessions)
}

func dspDecode(in Fields) *dspCase {
	c := &dspCase{procs: in.I(0), track: in.I(1), recmode: in.I(2), endmode: in.I(3), closeAt: in.I(4),
		cfg: in.I(5), cbg: in.I(6), dfg: in.I(7), dbg: in.I(8), seed: uint64(in.I(9)),
		panicPct: in.I(10), parkPct: in.I(11)}
	if c.track == 2 {
		c.track, c.late = 1, true
	}
	v := in.I(12)
	p := 13
	for j := 0; j < v; j++ {
		c.vfg = append(c.vfg, in.I(p))
		c.vbg = append(c.vbg, in.I(p+1))
		p += 2
	}
	l := in.I(p)
	p++
	for j := 0; j < l && p < len(in); j++ {
		c.codes = append(c.codes, in.I(p))
		p++
	}
	for j := 0; j < l; j++ {
		c.args = append(c.args, in.I(p)) // 0 when absent
		p++
	}
	return c
}

func (c *dspCase) encode() Fields {
	tr := c.track
	if c.late {
		tr = 2
	}
	f := F(c.procs, tr, c.recmode, c.endmode, c.closeAt, c.cfg, c.cbg, c.dfg, c.dbg, int(c.seed),
		c.panicPct, c.parkPct, len(c.vfg))
	for j := range c.vfg {
		f = append(f, F(c.vfg[j], c.vbg[j])...)
	}
	f = append(f, F(len(c.codes))...)
	for _, x := range c.codes {
		f = append(f, F(x)...)
	}
	for k := range c.codes {
		a := 0
		if k < len(c.args) {
			a = c.args[k]
		}
		f = append(f, F(a)...)
	}
	return f
}

// The verb pool.  Index 0 is the 001 line.  Without tracking the pool starts with verbs the
// client itself reacts to through built-in INTERNAL handlers (PING -> PONG, CTCP VERSION -> a
// NOTICE reply, NICK of somebody else), so that user handlers sit next to built-in ones, then
// verbs nobody but the user handlers cares about.  With tracking on the pool is EVERY verb of
// stHandlers; each line leaves evidence of its serial in the tracker (see sample()).
var dspTrackVerbs = []string{"TOPIC", "332", "MODE", "324", "JOIN", "PART", "KICK", "QUIT", "NICK", "353", "352", "311", "671"}

func dspVerbName(track, v int) string {
	if v == 0 {
		return "001"
	}
	if track == 1 {
		return dspTrackVerbs[(v-1)%len(dspTrackVerbs)]
	}
	return []string{"PING", "PRIVMSG", "CTCP", "NICK", "NOTICE", "372", "V7"}[(v-1)%7]
}

func (c *dspCase) smallTimeout() bool { return c.seed%3 == 0 }

// tracking sessions that stay up, every other seed: the JOIN line (of a new nick) before which the
// application floods conn.out while the server end is not reading; -1 = none
func (c *dspCase) floodAt() int {
	if c.track != 1 || c.endmode != 0 || c.seed%2 != 0 {
		return -1
	}
	for k := len(c.codes) / 2; k < len(c.codes); k++ {
		if c.codes[k] == 5 {
			return k
		}
	}
	return -1
}

// the IRCv3 batch window (non-tracking sessions whose generator put BATCH lines in)
func (c *dspCase) batchWin() (int, int, bool) {
	b0 := len(c.codes) / 4
	b1 := b0 + 7
	if c.track == 1 || b1 >= len(c.codes) || c.codes[b0]%1000 != 906 || c.codes[b1]%1000 != 907 {
		return 0, 0, false
	}
	return b0, b1, true
}

func (c *dspCase) arg(k int) int {
	if k < len(c.args) {
		return c.args[k]
	}
	return 0
}

// the wire text of line k
func (c *dspCase) lineText(k int) string {
	code := c.codes[k]
	long := code >= 1000
	code %= 1000
	pad := ""
	tag := fmt.Sprintf("@s=%d ", k)
	if long {
		// longer than bufio's 4096-byte buffer: 4097..12000 bytes, in the trailing or in a tag
		fill := strings.Repeat("x", 4097+int(dspHash(c.seed, 77, k, 0)%7800)) + fmt.Sprintf("E%d", k)
		if dspHash(c.seed, 78, k, 0)%3 == 0 {
			tag = fmt.Sprintf("@s=%d;p=%s ", k, fill)
		} else {
			pad = " " + fill
		}
	}
	src := fmt.Sprintf("%s:%d!u@h ", tag, k)
	tgt := fmt.Sprintf("u%d", c.arg(k))
	switch code {
	case 900:
		return tag + ":n0!u@h JOIN #c"
	case 901:
		return src + "PING"
	case 902:
		return src + "433 a"
	case 903:
		return src + "433"
	case 904:
		return src + "CAP"
	case 905:
		return src + "JOIN"
	case 906:
		return src + "BATCH +r7 example"
	case 907:
		return src + "BATCH -r7"
	}
	if b0, b1, ok := c.batchWin(); ok && k > b0 && k < b1 && k%2 == 1 && !long {
		// a line of the batch; the untagged lines in between must not overtake it
		tag = fmt.Sprintf("@s=%d;batch=r7 ", k)
		src = fmt.Sprintf("%s:%d!u@h ", tag, k)
	}
	vn := dspVerbName(c.track, code)
	if c.track == 1 {
		switch vn {
		case "TOPIC":
			return fmt.Sprintf("%sTOPIC #c :%d%s", src, k, pad)
		case "332":
			return fmt.Sprintf("%s332 me #c :%d%s", src, k, pad)
		case "MODE":
			if c.arg(k) > 0 {
				return fmt.Sprintf("%sMODE #c +o %s", src, tgt)
			}
			return fmt.Sprintf("%sMODE #c +k %d", src, k)
		case "324":
			return fmt.Sprintf("%s324 me #c +k %d", src, k)
		case "JOIN":
			return fmt.Sprintf("%s:u%d!i@h JOIN #c", tag, k)
		case "PART":
			return fmt.Sprintf("%s:%s!i@h PART #c :bye%s", tag, tgt, pad)
		case "KICK":
			return fmt.Sprintf("%sKICK #c %s :out%s", src, tgt, pad)
		case "QUIT":
			return fmt.Sprintf("%s:%s!i@h QUIT :gone%s", tag, tgt, pad)
		case "NICK":
			return fmt.Sprintf("%s:%s!i@h NICK u%d", tag, tgt, k)
		case "353":
			pre := ""
			if k%3 == 0 {
				pre = "+"
			}
			return fmt.Sprintf("%s353 me = #c :%su%d", src, pre, k)
		case "352":
			return fmt.Sprintf("%s352 me #c i%d h%d srv %s H :0 real", src, k, k, tgt)
		case "311":
			return fmt.Sprintf("%s311 me %s i%d h%d * :real", src, tgt, k, k)
		case "671":
			return fmt.Sprintf("%s671 me %s :is using a secure connection", src, tgt)
		}
	}
	switch vn {
	case "001":
		return fmt.Sprintf("%s001 n%d :Welcome%s", src, k, pad)
	case "PING":
		return fmt.Sprintf("%sPING :%d%s", src, k, pad)
	case "CTCP":
		return fmt.Sprintf("%sPRIVMSG me :\x01VERSION\x01", src)
	case "NICK":
		return fmt.Sprintf("%sNICK x%d", src, k)
	default:
		return fmt.Sprintf("%s%s #c :%d%s", src, vn, k, pad)
	}
}

// serial of a scripted line as a handler sees it (-1: not a scripted line)
func dspSerial(line *client.Line) int {
	if line == nil || line.Tags == nil {
		return -1
	}
	if v, ok := line.Tags["s"]; ok {
		return dspAtoi(v)
	}
	return -1
}

func dspHash(seed uint64, a, b, c int) uint64 {
	r := Rand{s: seed ^ (uint64(a)*0x9e3779b97f4a7c15 + uint64(b)*0xbf58476d1ce4e5b9 + uint64(c)*0x94d049bb133111eb)}
	r.U64()
	return r.U64()
}

type dspEvent struct{ tag, kind, k, i, a int }

type dspPanicVal struct{ Kind, K, I int }

func (v dspPanicVal) String() string { return fmt.Sprintf("dsp:%d:%d:%d", v.Kind, v.K, v.I) }

type dspRun struct {
	c           *dspCase
	conn        *client.Conn
	mu          sync.Mutex
	log         []dspEvent
	seq         int64 // atomic: number of events (cross-check of the log length)
	pend        map[*client.Line][3]int
	pendQ       [][3]int // fg nil-map panics waiting for their LogPanic record (recmode 0)
	park        chan struct{}
	bgLive      int64
	endSeen     chan struct{}
	endOnce     sync.Once
	discN       int64
	slowEntered chan struct{}
	slowOnce    sync.Once
	// evidence tables for the tracker sample (tracking sessions), from the script
	opLine  map[string]int // name -> serial of the MODE +o line on it
	sslLine map[string]int // name -> serial of its 671 line
	rem     []dspRemoval   // PART / KICK / QUIT lines, increasing serial
}

type dspRemoval struct {
	k    int
	name string
	j    int // the serial in the name
}

func (r *dspRun) rec(tag, kind, k, i, a int) {
	r.mu.Lock()
	r.log = append(r.log, dspEvent{tag, kind, k, i, a})
	r.mu.Unlock()
	atomic.AddInt64(&r.seq, 1)
	r.noteDone(tag, kind)
}

// a foreground DISCONNECTED invocation is finished once its exit or its recovery is on record
// (NOT when its body unwinds: the recovery function runs after the body's own deferred calls)
func (r *dspRun) noteDone(tag, kind int) {
	if kind == dspKDiscFg && (tag == 1 || tag == 3) {
		atomic.AddInt64(&r.discN, 1)
	}
}

func dspAtoi(s string) int {
	n, err := strconv.Atoi(s)
	if err != nil {
		return -1
	}
	return n
}

func dspFirstTok(s string) string {
	if j := strings.IndexByte(s, ' '); j >= 0 {
		return s[:j]
	}
	return s
}

// What a handler sees when it asks the tracker: 1 + the serial of the last line applied.
// Every line of a tracking session leaves evidence of its serial: 001 -> our nick n<k>; our JOIN ->
// #c exists; TOPIC/332 -> topic <k>; MODE +k/324 -> key <k>; JOIN/353/NICK -> a member named u<k>;
// 352/311 -> host h<k> of a member; MODE +o / 671 -> the Op / SSL flag of a member (one such line
// per member: table from the script); PART/KICK/QUIT of u<j> -> u<j> is gone although evidence
// younger than j is visible (the generator removes only members older than the latest topic/key,
// which persists).  Evidence appears only when its line is applied and the evidence of the last
// applied line is visible until the next line is applied, so 1 + max is the sample.
func (r *dspRun) sample() int {
	if r.c.track != 1 {
		return 0
	}
	st := r.conn.StateTracker()
	if st == nil {
		return 0
	}
	// the channel and its members are read in several calls: when the tracker moved on in
	// between (a member of the channel snapshot is gone or renamed) read again; a later state
	// only has a larger sample and foreground handlers never see the tracker move
	for try := 0; ; try++ {
		if a, ok := r.sampleOnce(st); ok || try > 50 {
			return a
		}
	}
}

func (r *dspRun) sampleOnce(st state.Tracker) (int, bool) {
	m := -1
	up := func(k int) {
		if k > m {
			m = k
		}
	}
	num := func(s, pre string) int {
		if !strings.HasPrefix(s, pre) || len(s) == len(pre) {
			return -1
		}
		return dspAtoi(s[len(pre):])
	}
	if me := st.Me(); me != nil {
		up(num(me.Nick, "n"))
	}
	ch := st.GetChannel("#c")
	if ch == nil {
		return m + 1, true
	}
	up(1)
	up(dspAtoi(dspFirstTok(ch.Topic)))
	if ch.Modes != nil && ch.Modes.Key != "" {
		up(dspAtoi(ch.Modes.Key))
	}
	nickSideStale := -1
	for name, pr := range ch.Nicks {
		if !strings.HasPrefix(name, "u") {
			continue
		}
		up(num(name, "u"))
		if pr != nil && pr.Op {
			if k, ok := r.opLine[name]; ok {
				up(k)
			}
		}
		nk := st.GetNick(name)
		if nk == nil {
			return 0, false
		}
		if k, ok := r.opLine[name]; ok && pr != nil && pr.Op {
			// the NICK-side view of the same privilege must agree with the channel-side one
			if np := nk.Channels["#c"]; np == nil || !np.Op {
				nickSideStale = k
			}
		}
		up(num(nk.Host, "h"))
		if nk.Modes != nil && nk.Modes.SSL {
			if k, ok := r.sslLine[name]; ok {
				up(k)
			}
		}
	}
	for _, x := range r.rem {
		if _, on := ch.Nicks[x.name]; !on && m > x.j {
			up(x.k)
		}
	}
	if nickSideStale >= 0 && nickSideStale <= m {
		// GetNick(n).Channels still shows the privileges from before line nickSideStale:
		// the tracker does not (consistently) reflect that line
		return nickSideStale, true
	}
	return m + 1, true
}

func (r *dspRun) buildEvidence() {
	r.opLine, r.sslLine = map[string]int{}, map[string]int{}
	if r.c.track != 1 {
		return
	}
	for k, code := range r.c.codes {
		code %= 1000
		if code >= 900 || code == 0 {
			continue
		}
		name := fmt.Sprintf("u%d", r.c.arg(k))
		switch dspVerbName(1, code) {
		case "MODE":
			if r.c.arg(k) > 0 {
				r.opLine[name] = k
			}
		case "671":
			r.sslLine[name] = k
		case "PART", "KICK", "QUIT":
			r.rem = append(r.rem, dspRemoval{k, name, r.c.arg(k)})
		}
	}
}

func (r *dspRun) sleep(kind, k, i int) {
	h := dspHash(r.c.seed, 1000+kind, k, i) % 1000
	switch {
	case h < 550:
	case h < 850:
		time.Sleep(time.Duration(dspHash(r.c.seed, 2000+kind, k, i)%500) * time.Microsecond)
	case h < 992:
		time.Sleep(time.Duration(dspHash(r.c.seed, 3000+kind, k, i)%2000) * time.Microsecond)
	default:
		if r.c.smallTimeout() {
			time.Sleep(70 * time.Millisecond) // longer than cfg.Timeout
		} else {
			time.Sleep(20 * time.Millisecond)
		}
	}
}

// handler i of a kind; serial taken from the line (or from the tracker for CONNECTED)
func (r *dspRun) handler(kind, i int) client.HandlerFunc {
	return func(conn *client.Conn, line *client.Line) {
		k := 0
		switch kind {
		case dspKFg, dspKBg:
			k = dspSerial(line)
			if k >= 0 && k < len(r.c.texts) && line.Raw != r.c.texts[k] {
				k = 65003 // the line did not arrive whole (cut or glued)
			}
			if k < 0 {
				return // not a scripted line (our own JOIN echo has handlers of its verb but is line 1: no tag-less lines exist; the end marker is handled elsewhere)
			}
		case dspKConnFg:
			k = dspAtoi(strings.TrimPrefix(conn.Me().Nick, "n"))
		}
		isBg := kind == dspKBg || kind == dspKConnBg || kind == dspKDiscBg
		if isBg {
			atomic.AddInt64(&r.bgLive, 1)
			defer atomic.AddInt64(&r.bgLive, -1)
		}
		r.rec(0, kind, k, i, r.sample())
		if isBg && int(dspHash(r.c.seed, 4000+kind, k, i)%100) < r.c.parkPct {
			atomic.AddInt64(&r.bgLive, -1)
			<-r.park // a background handler that never returns (released at teardown)
			atomic.AddInt64(&r.bgLive, 1)
			return
		}
		if kind == dspKFg && r.c.seed%8 == 1 && dspHash(r.c.seed, 7000, k, i)%100 < 6 {
			// a foreground handler changes the background set while (possibly) a background
			// handler of an earlier event never returns
			rm := conn.HandleBG("DSPNOP", client.HandlerFunc(func(*client.Conn, *client.Line) {}))
			rm.Remove()
		}
		if r.c.endmode == 3 && kind == dspKFg && k == r.c.closeAt-1 {
			// the slow foreground handler during which Close() and Connect() are issued
			r.slowOnce.Do(func() { close(r.slowEntered) })
			time.Sleep(80 * time.Millisecond)
		} else {
			r.sleep(kind, k, i)
		}
		if int(dspHash(r.c.seed, 5000+kind, k, i)%100) < r.c.panicPct {
			what := int(dspHash(r.c.seed, 6000+kind, k, i) % 4)
			if r.c.recmode == 0 && what == 2 && kind != dspKFg {
				what = 0 // under LogPanic a runtime error carries no identity: foreground only
			}
			id := [3]int{kind, k, i}
			r.mu.Lock()
			r.pend[line] = id
			if r.c.recmode == 0 && what == 2 {
				r.pendQ = append(r.pendQ, id)
			}
			r.log = append(r.log, dspEvent{2, kind, k, i, 0})
			r.mu.Unlock()
			atomic.AddInt64(&r.seq, 1)
			switch what {
			case 0:
				panic(fmt.Sprintf("dsp:%d:%d:%d", kind, k, i))
			case 1:
				panic(errors.New(fmt.Sprintf("dsp:%d:%d:%d", kind, k, i)))
			case 2:
				var m map[string]int
				m["x"] = 1 // runtime error: assignment to entry in nil map
			default:
				panic(dspPanicVal{kind, k, i})
			}
		}
		a := r.sample()
		if kind == dspKConnFg {
			// still the same welcome line
			if k2 := dspAtoi(strings.TrimPrefix(conn.Me().Nick, "n")); k2 != k {
				k = 65000
			}
		}
		r.rec(1, kind, k, i, a)
	}
}

// custom recovery function (recmode 1): calls recover(), records which invocation it was
func (r *dspRun) recoverHook(conn *client.Conn, line *client.Line) {
	if v := recover(); v != nil {
		r.mu.Lock()
		id, ok := r.pend[line]
		delete(r.pend, line)
		if !ok { // a built-in handler: serial from the line
			id = [3]int{dspKInt, dspSerial(line), 0}
			if id[1] < 0 {
				id[1] = 65001
			}
		}
		r.log = append(r.log, dspEvent{3, id[0], id[1], id[2], 0})
		r.mu.Unlock()
		atomic.AddInt64(&r.seq, 1)
		r.noteDone(3, id[0])
	}
}

// logger seeing the default LogPanic records (recmode 0)
type dspLogger struct{}

var dspCur atomic.Value // *dspRun

func (dspLogger) Debug(f string, a ...interface{}) {}
func (dspLogger) Info(f string, a ...interface{})  {}
func (dspLogger) Warn(f string, a ...interface{})  {}
func (dspLogger) Error(f string, a ...interface{}) {
	r, _ := dspCur.Load().(*dspRun)
	if r == nil {
		return
	}
	msg := fmt.Sprintf(f, a...)
	j := strings.Index(msg, "panic: ")
	if j < 0 {
		return
	}
	val := msg[j+7:]
	if r.c.recmode != 0 {
		// a panic went to LogPanic although another recovery function is configured
		r.rec(9, dspKInt, 0, 0, 0)
		return
	}
	id := [3]int{dspKInt, 0, 0}
	var x, y, z int
	r.mu.Lock()
	if n, _ := fmt.Sscanf(val, "dsp:%d:%d:%d", &x, &y, &z); n == 3 {
		id = [3]int{x, y, z}
	} else if strings.Contains(val, "nil map") && len(r.pendQ) > 0 {
		id = r.pendQ[0]
		r.pendQ = r.pendQ[1:]
	}
	r.log = append(r.log, dspEvent{3, id[0], id[1], id[2], 0})
	r.mu.Unlock()
	atomic.AddInt64(&r.seq, 1)
	r.noteDone(3, id[0])
}

func dspSetup() { logging.SetLogger(dspLogger{}) }

var dspKeySeq int

func dspExec(in Fields) Fields {
	c := dspDecode(in)
	old := runtime.GOMAXPROCS(c.procs)
	defer runtime.GOMAXPROCS(old)
	dspKeySeq++
	ms := NewMemServer(fmt.Sprintf("dsp%d", dspKeySeq))
	cfg := client.NewConfig("me", "ident", "name")
	cfg.Server = "irc.example"
	cfg.Proxy = ms.URL()
	cfg.Flood = true
	cfg.PingFreq = 0
	r := &dspRun{c: c, pend: map[*client.Line][3]int{}, park: make(chan struct{}), endSeen: make(chan struct{}), slowEntered: make(chan struct{})}
	for k := range c.codes {
		c.texts = append(c.texts, c.lineText(k))
	}
	r.buildEvidence()
	stopWatch := dspWatchdog(r)
	defer stopWatch()
	if c.recmode == 1 {
		cfg.Recover = r.recoverHook
	}
	if c.smallTimeout() {
		cfg.Timeout = 30 * time.Millisecond
	}
	conn := client.Client(cfg)
	r.conn = conn
	if c.recmode == 3 {
		// through the caller's retained *Config, after Client(cfg) and before Connect()
		cfg.Recover = r.recoverHook
	}
	if c.track == 1 && !c.late {
		conn.EnableStateTracking()
	}
	dspCur.Store(r)
	defer dspCur.Store((*dspRun)(nil))
	// handlers, through the three public registration calls
	reg := func(name string, kind, n int, bg bool) {
		for i := 0; i < n; i++ {
			h := r.handler(kind, i)
			switch {
			case bg:
				conn.HandleBG(name, h)
			case i%2 == 0:
				conn.Handle(name, h)
			default:
				conn.HandleFunc(name, h)
			}
		}
	}
	for pass := 0; pass < 2; pass++ {
		if pass == 1 && c.recmode == 2 {
			// reconfigure the recovery function between registrations
			conn.Config().Recover = r.recoverHook
		}
		for v := range c.vfg {
			if v%2 != pass {
				continue
			}
			reg(dspVerbName(c.track, v), dspKFg, c.vfg[v], false)
			reg(dspVerbName(c.track, v), dspKBg, c.vbg[v], true)
		}
		if pass == 0 {
			reg(client.CONNECTED, dspKConnFg, c.cfg, false)
			reg(client.CONNECTED, dspKConnBg, c.cbg, true)
		} else {
			reg(client.DISCONNECTED, dspKDiscFg, c.dfg, false)
			reg(client.DISCONNECTED, dspKDiscBg, c.dbg, true)
		}
	}
	conn.HandleFunc("DSPEND", func(*client.Conn, *client.Line) { r.endOnce.Do(func() { close(r.endSeen) }) })
	discSeen := make(chan struct{})
	var discOnce sync.Once
	conn.HandleFunc(client.DISCONNECTED, func(*client.Conn, *client.Line) { discOnce.Do(func() { close(discSeen) }) })

	errc := make(chan error, 1)
	go func() { errc <- conn.Connect() }()
	var srv net.Conn
	select {
	case srv = <-ms.Conns:
	case <-time.After(5 * time.Second):
		return F("end:noconnect")
	}
	var paused int32 // the server end stops reading the client's output for a while
	go func() {      // whatever the client says (NICK, USER, PONG, MODE, WHO) is read and dropped
		b := make([]byte, 4096)
		for {
			for atomic.LoadInt32(&paused) == 1 {
				time.Sleep(time.Millisecond)
			}
			n, err := srv.Read(b)
			atomic.AddInt64(&dspProgress, int64(n)+1)
			if err != nil {
				return
			}
		}
	}()
	if err := <-errc; err != nil {
		return F("end:connecterr")
	}
	if c.track == 1 && c.late {
		conn.EnableStateTracking() // on the live connection, before any traffic
	}

	// the script, cut into writes at random points
	var sb strings.Builder
	offs := make([]int, len(c.codes)+1)
	for k := range c.codes {
		sb.WriteString(c.texts[k])
		sb.WriteString("\r\n")
		offs[k+1] = sb.Len()
	}
	if c.endmode == 0 || c.endmode == 3 {
		sb.WriteString(":x!u@h DSPEND x\r\n")
	}
	stream := []byte(sb.String())
	var stream2 []byte // endmode 3: what connection 2 carries
	if c.endmode == 3 {
		cut := offs[c.closeAt]
		stream, stream2 = stream[:cut], stream[cut:]
	}
	stopAt := len(stream)
	if c.endmode == 2 && c.closeAt < len(offs) {
		stopAt = offs[c.closeAt]
	}
	wr := &Rand{s: c.seed*7 + 1}
	closed := make(chan struct{})
	closeCalled := make(chan struct{})
	writerDone := make(chan struct{})
	chunk := func() int {
		switch x := wr.Intn(100); {
		case x < 15:
			return 1
		case x < 60:
			return 1 + wr.Intn(40)
		case x < 90:
			return 1 + wr.Intn(400)
		}
		return 1 + wr.Intn(9000)
	}
	play := func(to net.Conn, data []byte) {
		for p := 0; p < len(data); {
			n := chunk()
			if p+n > len(data) {
				n = len(data) - p
			}
			to.SetWriteDeadline(time.Now().Add(10 * time.Second))
			if _, err := to.Write(data[p : p+n]); err != nil {
				return
			}
			p += n
			atomic.AddInt64(&dspProgress, 1)
		}
	}
	drain := func(from net.Conn) {
		b := make([]byte, 4096)
		for {
			n, err := from.Read(b)
			atomic.AddInt64(&dspProgress, int64(n)+1)
			if err != nil {
				return
			}
		}
	}
	var srv2 net.Conn
	reconnected := make(chan struct{})
	if c.endmode == 3 {
		go func() { // goroutine A
			<-r.slowEntered
			close(closeCalled)
			conn.Close()
			close(closed)
		}()
		go func() { // goroutine B
			<-r.slowEntered
			time.Sleep(3 * time.Millisecond)
			cerr := make(chan error, 1)
			go func() { cerr <- conn.Connect() }()
			select {
			case srv2 = <-ms.Conns:
			case <-time.After(30 * time.Second):
				return
			}
			go drain(srv2)
			if err := <-cerr; err != nil {
				return
			}
			close(reconnected)
			play(srv2, stream2)
		}()
	}
	go func() {
		defer close(writerDone)
		if c.endmode == 3 {
			play(srv, stream)
			return
		}
		p := 0
		fired := false
		floodAt, flooded := c.floodAt(), false
		for p < len(stream) {
			if floodAt >= 0 && !flooded && p == offs[floodAt] {
				// the application floods its output while the server is not reading: conn.out
				// fills up; then somebody new JOINs (h_JOIN wants to send a WHO)
				flooded = true
				atomic.StoreInt32(&paused, 1)
				go func() {
					for j := 0; j < 40; j++ {
						conn.Privmsg("#x", "flood")
					}
				}()
				time.Sleep(40 * time.Millisecond)
				time.AfterFunc(80*time.Millisecond, func() { atomic.StoreInt32(&paused, 0) })
			}
			if c.endmode == 2 && !fired && p >= stopAt {
				fired = true
				go func() { // a user goroutine calling Close() at some moment
					time.Sleep(time.Duration(wr.Intn(300)) * time.Microsecond)
					close(closeCalled)
					conn.Close()
					close(closed)
				}()
			}
			n := 1
			switch x := wr.Intn(100); {
			case x < 15:
				n = 1
			case x < 60:
				n = 1 + wr.Intn(40)
			case x < 90:
				n = 1 + wr.Intn(400)
			default:
				n = 1 + wr.Intn(9000)
			}
			if p+n > len(stream) {
				n = len(stream) - p
			}
			if floodAt >= 0 && !flooded && p+n > offs[floodAt] {
				n = offs[floodAt] - p
			}
			srv.SetWriteDeadline(time.Now().Add(10 * time.Second))
			if _, err := srv.Write(stream[p : p+n]); err != nil {
				return
			}
			p += n
			atomic.AddInt64(&dspProgress, 1)
		}
		if c.endmode == 2 && !fired {
			close(closeCalled)
			conn.Close()
			close(closed)
		}
		if c.endmode == 1 {
			srv.Close() // EOF at the client
		}
	}()

	status := "ok"
	var hungDump []byte
	wait := func(ch <-chan struct{}, what string, d time.Duration) {
		if status != "ok" {
			return
		}
		select {
		case <-ch:
		case <-time.After(d):
			status = "hung-" + what
			buf := make([]byte, 1<<20)
			hungDump = buf[:runtime.Stack(buf, true)] // the stacks at the moment the wait ran out
		}
	}
	// the script itself may take a while (slow handlers, a loaded machine); the disconnect
	// (from the EOF resp. the call of Close() to the end of DISCONNECTED) gets 10 s
	const whole, teardown = 90 * time.Second, 10 * time.Second
	switch c.endmode {
	case 0:
		wait(r.endSeen, "end", whole)
	case 1:
		wait(writerDone, "writer", whole)
		wait(discSeen, "disc", teardown)
	case 2:
		wait(closeCalled, "closecall", whole)
		wait(closed, "close", teardown)
	default:
		wait(closeCalled, "closecall", whole)
		wait(reconnected, "reconnect", 20*time.Second)
		wait(r.endSeen, "end", 20*time.Second)
		// whether Close() #1 ever returns is C07's subject, not C03's: give it a moment so that
		// DISCONNECTED #1 normally is in the log, then judge the log as it is
		select {
		case <-closed:
		case <-time.After(3 * time.Second):
		}
	}
	if c.endmode != 0 {
		// every foreground DISCONNECTED handler finished (closeIf returns after the dispatch)
		for t := 0; t < 4000 && atomic.LoadInt64(&r.discN) < int64(c.dfg) && status == "ok"; t++ {
			time.Sleep(500 * time.Microsecond)
		}
	}
	// let the background handlers that do return finish
	for t := 0; t < 4000 && atomic.LoadInt64(&r.bgLive) > 0; t++ {
		time.Sleep(500 * time.Microsecond)
	}
	r.mu.Lock()
	evs := append([]dspEvent{}, r.log...)
	r.mu.Unlock()
	// teardown
	close(r.park)
	srv.Close()
	if srv2 != nil {
		srv2.Close()
	}
	tdone := make(chan struct{})
	go func() { conn.Close(); close(tdone) }()
	select {
	case <-tdone:
	case <-time.After(5 * time.Second):
	}
	<-writerDone
	var obs Fields
	for _, e := range evs {
		k, a := e.k, e.a
		if k < 0 || k > 65535 {
			k = 65535
		}
		if a < 0 || a > 65535 {
			a = 65535
		}
		obs = append(obs, []byte{byte(e.tag), byte(e.kind), byte(k >> 8), byte(k), byte(e.i), byte(a >> 8), byte(a)})
	}
	if status != "ok" {
		// a wait of the harness ran out: keep the stacks for the diagnosis (this field does
		// not decode as an event, so the session fails whatever follows)
		obs = append(obs, append([]byte("stacks when the wait ran out:\n"), hungDump...))
	}
	obs = append(obs, []byte("end:"+status))
	return obs
}

// ---------- stall watchdog (child process) ----------
// Progress = events recorded + chunks written by the server side + bytes read from the client.
// A session in which NOTHING of that moves for dspStallSecs seconds (default 12; handlers sleep 80 ms at
// most; every wait of the harness is shorter) is stalled: the child writes "DSPSTALL" and the
// stacks of all goroutines to stderr and exits; the parent turns that into obs "dead" "stalled"
// + the dump.  A child that is merely slow (overloaded machine) keeps making progress.
var dspProgress int64

func dspEnvSecs(name string, def int) int {
	if v := os.Getenv(name); v != "" {
		if n, err := strconv.Atoi(v); err == nil && n > 0 {
			return n
		}
	}
	return def
}

func dspWatchdog(r *dspRun) func() {
	stop := make(chan struct{})
	limit := dspEnvSecs("DSP_STALL_SECS", 12)
	go func() {
		last, idle := int64(-1), 0
		for {
			select {
			case <-stop:
				return
			case <-time.After(time.Second):
			}
			p := atomic.LoadInt64(&dspProgress) + atomic.LoadInt64(&r.seq)
			if p != last {
				last, idle = p, 0
				continue
			}
			idle++
			if idle >= limit {
				buf := make([]byte, 4<<20)
				n := runtime.Stack(buf, true)
				fmt.Fprintf(os.Stderr, "DSPSTALL no progress for %d s (progress %d)\n%s\n", limit, p, buf[:n])
				os.Exit(4)
			}
		}
	}()
	return func() { close(stop) }
}

// ---------- generator shared by the three checks ----------
type dspGenOpt struct {
	track               bool
	panics, parks, ends bool
	shorts              bool
}

func dspGenCase(r *Rand, o dspGenOpt, small bool) *dspCase {
	c := &dspCase{procs: []int{1, 2, 4, 16}[r.Intn(4)], seed: r.U64() % 1000000007}
	if o.track {
		c.track = 1
	}
	c.recmode = r.Intn(3)
	nl := r.Range(20, 400)
	if r.Chance(60) {
		nl = r.Range(20, 120)
	}
	if small {
		nl = r.Range(3, 6)
	}
	if o.ends {
		c.endmode = r.Intn(3)
		c.closeAt = r.Intn(nl + 1)
		if o.track && !small {
			// everything in a tracking session depends on our JOIN and on the members: the end
			// (and the discards around it) must come late enough (see dspGenTrackLines)
			c.endmode = 1 + r.Intn(2)
			nl = r.Range(300, 400)
			c.closeAt = r.Range(280, nl)
		} else if o.track {
			c.endmode = 0
		}
	}
	c.cfg, c.cbg, c.dfg, c.dbg = r.Intn(3), r.Intn(2), r.Intn(3), r.Intn(2)
	if o.panics {
		c.panicPct = []int{5, 15, 40}[r.Intn(3)]
	}
	if o.parks {
		c.parkPct = []int{0, 10, 50}[r.Intn(3)]
	}
	nv := r.Range(3, 7) // always PING and PRIVMSG, often CTCP / NICK / plain verbs
	if o.track {
		nv = 1 + len(dspTrackVerbs) // every verb of stHandlers
	}
	for v := 0; v < nv; v++ {
		c.vfg = append(c.vfg, r.Intn(4))
		c.vbg = append(c.vbg, r.Intn(3))
	}
	if c.vfg[1] == 0 { // PING (or TOPIC) always has foreground handlers
		c.vfg[1] = 2
	}
	if !o.track && c.vfg[2] == 0 {
		c.vfg[2] = 1
	}
	if o.track {
		for v := 1; v < nv; v++ { // a user handler of some kind on every state verb
			if c.vfg[v]+c.vbg[v] == 0 {
				if r.Bool() {
					c.vfg[v] = 1
				} else {
					c.vbg[v] = 1
				}
			}
		}
	}
	short := func() int {
		// short lines whose built-in handler panics; zero-argument ones included
		xs := []int{901, 902, 903, 904}
		if o.track {
			xs = append(xs, 905)
		}
		return xs[r.Intn(len(xs))]
	}
	if o.track {
		dspGenTrackLines(r, c, nl, o, small, short)
	} else {
		for k := 0; k < nl; k++ {
			code := 1 + r.Intn(nv-1)
			switch {
			case k == nl/3:
				code = 0
			case r.Chance(2):
				code = 0 // a further welcome line
			case o.shorts && (r.Chance(6) || k == 1):
				code = short()
				if k == 1 {
					code = 901
				}
			}
			if vn := dspVerbName(c.track, code); code < 900 && vn != "CTCP" && vn != "NICK" && r.Chance(3) && !small {
				code += 1000
			}
			c.codes = append(c.codes, code)
			c.args = append(c.args, 0)
		}
	}
	return c
}

// a tracking session: 001, our JOIN of #c, a TOPIC, then lines of every state verb acting on a
// simulated membership of #c so that each line has a visible effect (see sample())
func dspGenTrackLines(r *Rand, c *dspCase, nl int, o dspGenOpt, small bool, short func() int) {
	type member struct {
		cur           int  // the serial in its current name u<cur>
		decorated     bool // target of MODE +o / 352 / 311 / 671; never renamed
		op, ssl, gone bool
	}
	var ms []*member
	vidx := map[string]int{}
	for i, n := range dspTrackVerbs {
		vidx[n] = i + 1
	}
	perm := 0 // serial of the latest topic / key line: evidence that persists
	// When the connection ends, lines received shortly before may be discarded (the property
	// allows it), possibly leaving holes.  From 250 lines before the end on (bufio's 4096-byte
	// buffer + the 32-slot queue) lines act only on members whose name is older than that, so
	// that the evidence of every line that IS applied does not depend on a discarded one.
	w := 1 << 30
	switch c.endmode {
	case 1:
		w = nl - 250
	case 2:
		w = c.closeAt - 250
	}
	pick := func(ok func(*member) bool) *member {
		var c []*member
		for _, m := range ms {
			if !m.gone && m.cur < w-1 && ok(m) {
				c = append(c, m)
			}
		}
		if len(c) == 0 {
			return nil
		}
		return c[r.Intn(len(c))]
	}
	live := func() int {
		n := 0
		for _, m := range ms {
			if !m.gone {
				n++
			}
		}
		return n
	}
	for k := 0; k < nl; k++ {
		code, arg := 0, 0
		switch {
		case k == 0:
			code = 0
		case k == 1:
			code = 900
		case k == 2:
			code = vidx["TOPIC"]
			perm = k
		case r.Chance(1):
			code = 0 // a further welcome line renames us
		case o.shorts && (r.Chance(6) || k == 3):
			code = short()
			if k == 3 {
				code = 905
			}
		default:
			vn := dspTrackVerbs[r.Intn(len(dspTrackVerbs))]
			if live() > 24 && (vn == "JOIN" || vn == "353") {
				vn = "QUIT"
			}
			var m *member
			switch vn {
			case "JOIN", "353":
				ms = append(ms, &member{cur: k, decorated: r.Bool()})
			case "NICK":
				if m = pick(func(m *member) bool { return !m.decorated }); m != nil {
					arg = m.cur
					m.cur = k
				}
			case "PART", "KICK", "QUIT":
				if m = pick(func(m *member) bool { return m.cur < perm }); m != nil {
					arg = m.cur
					m.gone = true
				}
			case "MODE":
				if m = pick(func(m *member) bool { return m.decorated && !m.op }); m != nil && r.Bool() {
					arg = m.cur
					m.op = true
				} else {
					m = &member{} // MODE +k needs no target
					perm = k
				}
			case "671":
				if m = pick(func(m *member) bool { return m.decorated && !m.ssl }); m != nil {
					arg = m.cur
					m.ssl = true
				}
			case "352", "311":
				if m = pick(func(m *member) bool { return m.decorated }); m != nil {
					arg = m.cur
				}
			case "TOPIC", "332", "324":
				perm = k
			}
			needs := vn == "NICK" || vn == "PART" || vn == "KICK" || vn == "QUIT" || vn == "671" || vn == "352" || vn == "311"
			if needs && m == nil {
				vn = "JOIN" // nobody suitable yet: somebody joins instead
				ms = append(ms, &member{cur: k, decorated: r.Bool()})
			}
			code = vidx[vn]
			if (vn == "TOPIC" || vn == "332" || vn == "PART" || vn == "KICK" || vn == "QUIT") && r.Chance(3) && !small {
				code += 1000
			}
		}
		c.codes = append(c.codes, code)
		c.args = append(c.args, arg)
	}
}

// put an IRCv3 batch into a non-tracking session: BATCH +r7, lines of which every other one is
// tagged batch=r7, BATCH -r7
func dspMakeBatch(c *dspCase) {
	b0 := len(c.codes) / 4
	b1 := b0 + 7
	if c.track == 1 || b1 >= len(c.codes)-1 || b0 < 2 {
		return
	}
	if c.endmode == 3 && c.closeAt-1 >= b0 && c.closeAt-1 <= b1 {
		return
	}
	c.codes[b0], c.codes[b1] = 906, 907
}

// make one line in the second half of a non-tracking session a long one
func dspForceLong(c *dspCase) {
	if c.track == 1 {
		return
	}
	for k := len(c.codes) / 2; k < len(c.codes); k++ {
		code := c.codes[k]
		if code >= 900 {
			continue
		}
		if vn := dspVerbName(0, code); vn != "CTCP" && vn != "NICK" {
			c.codes[k] = code + 1000
			return
		}
	}
}

// turn a non-tracking session into the kind "reconnect while closing": line closeAt-1 is a PING
// (verb 1, which always has foreground handlers) whose foreground handlers are slow; lines from
// closeAt on arrive on connection 2
func dspMakeReconnect(r *Rand, c *dspCase) {
	n := len(c.codes)
	if c.track == 1 || n < 12 {
		return
	}
	c.endmode = 3
	c.closeAt = r.Range(4, n-4)
	c.codes[c.closeAt-1] = 1
	if c.vfg[1] == 0 {
		c.vfg[1] = 2
	}
}

func dspClass(in Fields) string {
	c := dspDecode(in)
	n := len(c.codes)
	b := "20-99"
	switch {
	case n < 20:
		b = "<20"
	case n >= 200:
		b = "200+"
	case n >= 100:
		b = "100-199"
	}
	return fmt.Sprintf("lines=%s procs=%d end=%d rec=%d", b, c.procs, c.endmode, c.recmode)
}
