package main

// C15: each handler invocation gets its own copy of the line.
//
// For one line sent by the in-memory server, 1-6 foreground and 1-6 background handlers (plus a
// late background handler that starts a few milliseconds after the others) are registered for its
// verb on a real client.  Every handler FIRST takes a deep snapshot of the *Line it was given and
// THEN scribbles over it (overwrites every Args[i], appends, sets and deletes Tags entries,
// rewrites scalar fields) following a PRNG-chosen program.  The observation is every handler's
// entry snapshot; they must all equal ParseLine of the sent line.

import (
	"fmt"
	"runtime"
	"sort"
	"strings"
	"sync"
	"time"

	"github.com/fluffle/goirc/client"
)

var c15ws *WireSession
var c15serial int

// No cross-talk between cases, by construction: the background dispatch of a line takes its snapshot
// "some time after" the line arrived, possibly after the NEXT case has registered its handlers.
// (a) the generator gives every case its own verb; (b) should a verb nevertheless come back within
// one session (stored inputs, replays), the case gets a FRESH client, whose handler sets no dispatch
// of an earlier line can reach; (c) every handler ignores a line whose Raw is not this case's line.
var c15verbs = map[string]bool{}

func init() {
	props["C15"] = &Prop{
		Setup:    func() { c15ws = NewWireSession(nil) },
		Teardown: func() { c15ws.Close() },
		Gen:      c15Gen,
		Exec:     c15Exec,
		Class: func(in Fields) string {
			if in.S(5) == "burst" {
				return "burst"
			}
			if in.S(1) == "PRIVMSG" {
				return "addressed-privmsg:gomaxprocs1=" + in.S(6)
			}
			if in.S(5) != "" {
				return fmt.Sprintf("%s:fg%d:bg%d:gomaxprocs1=%s", in.S(5), in.I(2), in.I(3), in.S(6))
			}
			t := "notags"
			if strings.HasPrefix(in.S(0), "@") {
				t = "tags"
			}
			n := strings.Count(strings.SplitN(in.S(0), " :", 2)[0], " ")
			b := "args0-2"
			if n > 8 {
				b = "args8+"
			} else if n > 3 {
				b = "args3-7"
			}
			return t + ":" + b
		},
	}
}

type c15Snap struct {
	ok   bool
	scal [6]string
	args []string
	tags map[string]string
	nil_ bool
}

func c15Take(l *client.Line) c15Snap {
	s := c15Snap{ok: true, scal: [6]string{l.Nick, l.Ident, l.Host, l.Src, l.Cmd, l.Raw}}
	s.args = append([]string{}, l.Args...)
	if l.Tags == nil {
		s.nil_ = true
	} else {
		s.tags = map[string]string{}
		for k, v := range l.Tags {
			s.tags[k] = v
		}
	}
	return s
}

func c15Scribble(r *Rand, l *client.Line) {
	n := r.Range(3, 12)
	for k := 0; k < n; k++ {
		switch r.Intn(8) {
		case 0, 1:
			for i := range l.Args {
				l.Args[i] = fmt.Sprintf("X%d", r.Intn(1000))
			}
		case 2:
			l.Args = append(l.Args, "appended")
		case 3:
			if l.Tags != nil {
				l.Tags[fmt.Sprintf("k%d", r.Intn(5))] = "scribble"
				for key := range l.Tags {
					l.Tags[key] = "overwritten"
					break
				}
			}
		case 4:
			if l.Tags != nil {
				for key := range l.Tags {
					delete(l.Tags, key)
					break
				}
			}
		case 5:
			l.Nick, l.Cmd, l.Raw = "evil", "EVIL", "evil"
		case 6:
			if len(l.Args) > 0 {
				l.Args[r.Intn(len(l.Args))] = ""
				l.Args = l.Args[:len(l.Args)-1]
			}
		default:
			runtime.Gosched()
		}
	}
}

// the lone handler of a set: record, then IMMEDIATELY overwrite everything reachable from the
// *Line — every argument, the slice itself, every tag, and the scalar fields of the struct
func c15ScribbleAll(l *client.Line) {
	for i := range l.Args {
		l.Args[i] = "LONE"
	}
	l.Args = append(l.Args, "lone-appended")
	if l.Tags != nil {
		for k := range l.Tags {
			l.Tags[k] = "lone"
		}
		l.Tags["lone-key"] = "lone"
	}
	l.Nick, l.Ident, l.Host, l.Src, l.Raw = "lone", "lone", "lone", "lone", "lone"
	l.Cmd = "LONE"
}

// modes (field 5): "" = free running (plus a late background handler);
// "lonefg": the foreground set has exactly ONE handler, which scribbles over everything right after
//
//	recording and then closes a channel; the background handlers record only after that;
//
// "lonebg": the same with the roles of the sets exchanged (no late handler in the lone modes).
// field 6 = "1": the case runs with GOMAXPROCS(1), so that goroutines started by the dispatchers
// only get to evaluate line.Copy() after the code that started them has blocked or finished.
func c15Exec(in Fields) Fields {
	line, verb, nfg, nbg := in.S(0), in.S(1), in.I(2), in.I(3)
	seed := uint64(in.I(4))
	mode := in.S(5)
	if in.S(6) == "1" {
		defer runtime.GOMAXPROCS(runtime.GOMAXPROCS(1))
	}
	if lv := strings.ToLower(verb); c15verbs[lv] {
		c15ws.Close()
		c15ws = NewWireSession(nil)
		c15verbs = map[string]bool{lv: true}
	} else {
		c15verbs[lv] = true
	}
	c := c15ws.Conn
	total := nfg + nbg + 1
	if mode != "" {
		total = nfg + nbg
	}
	scribbled := make(chan struct{}) // closed by the lone handler when it has finished scribbling
	loneIdx := -1
	switch mode {
	case "lonefg", "first": // "first": any set sizes; handler 0 scribbles (and ADDS tags), all others look afterwards
		loneIdx = 0
	case "lonebg":
		loneIdx = nfg
	case "laterbg", "laterfg":
		return c15ExecLater(in)
	case "burst":
		return c15ExecBurst(in)
	}
	snaps := make([]c15Snap, total)
	var mu sync.Mutex
	var wg sync.WaitGroup
	wg.Add(total)
	var rems []client.Remover
	mk := func(idx int, late bool) client.HandlerFunc {
		var once sync.Once
		return func(_ *client.Conn, l *client.Line) {
			if l.Raw != line {
				return // not this case's line
			}
			ran := false
			once.Do(func() { ran = true })
			if !ran {
				return
			}
			r := &Rand{s: seed*1000003 + uint64(idx)}
			if mode != "" {
				if idx == loneIdx {
					s := c15Take(l)
					c15ScribbleAll(l)
					close(scribbled)
					mu.Lock()
					snaps[idx] = s
					mu.Unlock()
					wg.Done()
					return
				}
				// a handler of the OTHER set: look at the line only after the lone one has scribbled
				select {
				case <-scribbled:
				case <-time.After(2 * time.Second):
				}
			}
			if late {
				time.Sleep(time.Duration(2+r.Intn(4)) * time.Millisecond)
			} else if r.Chance(30) {
				runtime.Gosched()
			}
			s := c15Take(l) // FIRST: record what was received
			mu.Lock()
			snaps[idx] = s
			mu.Unlock()
			c15Scribble(r, l) // THEN: scribble
			wg.Done()
		}
	}
	for i := 0; i < nfg; i++ {
		rems = append(rems, c.HandleFunc(verb, mk(i, false)))
	}
	for i := 0; i < nbg; i++ {
		rems = append(rems, c.HandleBG(verb, mk(nfg+i, false)))
	}
	if mode == "" {
		rems = append(rems, c.HandleBG(verb, mk(nfg+nbg, true)))
	}

	c15serial++
	marker := fmt.Sprintf("PONG :c15m%d\r\n", c15serial)
	c15ws.Srv.Write([]byte(line + "\r\n" + fmt.Sprintf("PING :c15m%d\r\n", c15serial)))
	st := &c04State{ws: c15ws}
	st.waitWire(marker, 5*time.Second)
	done := make(chan struct{})
	go func() { wg.Wait(); close(done) }()
	patience := 2 * time.Second
	if mode != "" {
		patience = time.Second // the sync marker has passed and nobody sleeps in these modes
	}
	select {
	case <-done:
	case <-time.After(patience):
	}
	for _, rm := range rems {
		rm.Remove()
	}

	var obs Fields
	mu.Lock()
	defer mu.Unlock()
	for idx, s := range snaps {
		who := "late"
		if idx < nfg {
			who = fmt.Sprintf("f%d", idx)
		} else if idx < nfg+nbg {
			who = fmt.Sprintf("b%d", idx-nfg)
		}
		obs = append(obs, c15Render(who, s)...)
	}
	return obs
}

func c15Render(who string, s c15Snap) Fields {
	if !s.ok {
		return F(who, "MISSING")
	}
	obs := F(who, s.scal[0], s.scal[1], s.scal[2], s.scal[3], s.scal[4], s.scal[5], len(s.args), s.args)
	if s.nil_ {
		return append(obs, F("nil")...)
	}
	keys := make([]string, 0, len(s.tags))
	for k := range s.tags {
		keys = append(keys, k)
	}
	sort.Strings(keys)
	obs = append(obs, F(len(keys))...)
	for _, k := range keys {
		obs = append(obs, F(k, s.tags[k])...)
	}
	return obs
}

// "later invocation" modes: ONE handler registration is invoked for two successive events of the same
// verb (field 0 = first line, field 7 = second line).
//
//	laterbg: background handler; the invocation for event 1 records its entry snapshot (a0) and parks;
//	         the invocation for event 2 records (b), scribbles over ITS line and releases the first one,
//	         which records what its own line looks like now (a1).
//	laterfg: foreground handler that KEEPS its *Line after returning; after event 2 was dispatched
//	         (and its invocation has scribbled) the kept line is read again (a1).
//
// a0 and a1 must both be ParseLine(line 1), b must be ParseLine(line 2).
func c15ExecLater(in Fields) Fields {
	line1, verb, mode, line2 := in.S(0), in.S(1), in.S(5), in.S(7)
	if in.S(6) == "1" {
		defer runtime.GOMAXPROCS(runtime.GOMAXPROCS(1))
	}
	c := c15ws.Conn
	var mu sync.Mutex
	var a0, a1, b c15Snap
	var kept *client.Line
	entered := make(chan struct{})    // invocation 1 has recorded its entry snapshot
	secondDone := make(chan struct{}) // invocation 2 has finished scribbling
	firstDone := make(chan struct{})  // invocation 1 has recorded its second look
	var once1, once2 sync.Once
	h := client.HandlerFunc(func(_ *client.Conn, l *client.Line) {
		switch l.Raw {
		case line1:
			once1.Do(func() {
				s := c15Take(l)
				mu.Lock()
				a0, kept = s, l
				mu.Unlock()
				close(entered)
				if mode == "laterbg" {
					select {
					case <-secondDone:
					case <-time.After(2 * time.Second):
					}
					s = c15Take(l)
					mu.Lock()
					a1 = s
					mu.Unlock()
					close(firstDone)
				}
			})
		case line2:
			once2.Do(func() {
				s := c15Take(l)
				c15ScribbleAll(l)
				mu.Lock()
				b = s
				mu.Unlock()
				close(secondDone)
			})
		}
	})
	var rm client.Remover
	if mode == "laterbg" {
		rm = c.HandleBG(verb, h)
	} else {
		rm = c.HandleFunc(verb, h)
	}
	st := &c04State{ws: c15ws}
	send := func(l string) {
		c15serial++
		c15ws.Srv.Write([]byte(l + "\r\n" + fmt.Sprintf("PING :c15m%d\r\n", c15serial)))
		st.waitWire(fmt.Sprintf("PONG :c15m%d\r\n", c15serial), 5*time.Second)
	}
	wait := func(ch chan struct{}) {
		select {
		case <-ch:
		case <-time.After(2 * time.Second):
		}
	}
	send(line1)
	wait(entered)
	send(line2)
	wait(secondDone)
	if mode == "laterbg" {
		wait(firstDone)
	} else {
		mu.Lock()
		k := kept
		mu.Unlock()
		if k != nil {
			s := c15Take(k) // the line the first invocation kept
			mu.Lock()
			a1 = s
			mu.Unlock()
		}
	}
	rm.Remove()
	mu.Lock()
	defer mu.Unlock()
	return append(append(c15Render("a0", a0), c15Render("a1", a1)...), c15Render("b", b)...)
}

// "burst": field 0 and fields 7.. are >= 300 DISTINCT lines of one verb, written to the socket in one
// go; nbg background handlers each record a deep snapshot of every line they are handed.  Per handler
// the snapshots are sorted by Raw (the lines are generated so that this is their sending order) and
// reported in that order: each must equal the parse of ITS line, each line once per handler.
func c15ExecBurst(in Fields) Fields {
	verb, nbg := in.S(1), in.I(3)
	lines := []string{in.S(0)}
	for _, f := range in[7:] {
		lines = append(lines, string(f))
	}
	c := c15ws.Conn
	var mu sync.Mutex
	got := make([][]c15Snap, nbg)
	total := 0
	var rems []client.Remover
	for k := 0; k < nbg; k++ {
		k := k
		rems = append(rems, c.HandleBG(verb, client.HandlerFunc(func(_ *client.Conn, l *client.Line) {
			s := c15Take(l)
			mu.Lock()
			got[k] = append(got[k], s)
			total++
			mu.Unlock()
		})))
	}
	c15serial++
	var buf strings.Builder
	for _, l := range lines {
		buf.WriteString(l + "\r\n")
	}
	buf.WriteString(fmt.Sprintf("PING :c15m%d\r\n", c15serial))
	c15ws.Srv.Write([]byte(buf.String()))
	st := &c04State{ws: c15ws}
	st.waitWire(fmt.Sprintf("PONG :c15m%d\r\n", c15serial), 10*time.Second)
	deadline := time.Now().Add(2 * time.Second)
	for time.Now().Before(deadline) {
		mu.Lock()
		n := total
		mu.Unlock()
		if n >= nbg*len(lines) {
			break
		}
		time.Sleep(time.Millisecond)
	}
	time.Sleep(5 * time.Millisecond) // a surplus invocation would show up as well
	for _, rm := range rems {
		rm.Remove()
	}
	mu.Lock()
	defer mu.Unlock()
	var obs Fields
	for k := range got {
		sort.SliceStable(got[k], func(i, j int) bool { return got[k][i].scal[5] < got[k][j].scal[5] })
		for _, s := range got[k] {
			obs = append(obs, c15Render(fmt.Sprintf("b%d", k), s)...)
		}
	}
	return obs
}

func c15Word(r *Rand) string {
	return string(r.Bytes(r.Range(1, 8), []byte("abcdefghXYZ0123456789#&+-_")))
}

// one line: tag section (tags: -1 none, 0 an EMPTY section, n > 0 that many tags), optional source,
// verb, nargs arguments (the last one possibly a trailing " :" argument)
func c15Line(r *Rand, verb string, tags, nargs int) string {
	var b strings.Builder
	if tags >= 0 {
		b.WriteString("@")
		for j := 0; j < tags; j++ {
			if j > 0 {
				b.WriteString(";")
			}
			b.WriteString(fmt.Sprintf("t%d", r.Intn(6)))
			switch r.Intn(4) {
			case 0: // key only
			case 1:
				b.WriteString("=")
			case 2:
				b.WriteString("=va\\sl\\:ue\\\\")
			default:
				b.WriteString("=" + c15Word(r))
			}
		}
		if tags == 0 {
			b.WriteString(r.Pick([]string{"", ";", ";;"})) // present but empty: a non-nil EMPTY map
		}
		b.WriteString(" ")
	}
	switch r.Intn(3) {
	case 0:
		b.WriteString(":nick!ident@host.example ")
	case 1:
		b.WriteString(":irc.server.example ")
	}
	b.WriteString(verb)
	trailing := nargs > 0 && r.Chance(60)
	for j := 0; j < nargs; j++ {
		if trailing && j == nargs-1 {
			b.WriteString(" :" + c15Word(r) + " " + c15Word(r) + " :x")
		} else {
			b.WriteString(" " + c15Word(r))
		}
	}
	return b.String()
}

func c15Gen(r *Rand, tier string, scale int, emit func(Fields)) {
	if scale == 0 {
		scale = 300
	}
	verbs := []string{"ZOT", "zot", "PRIVMSG", "NOTICE", "123", "Quux"}
	for i := 0; i < scale; i++ {
		verb := fmt.Sprintf("%s%d", r.Pick(verbs), i) // a verb of its own for every case of the run
		tags := -1
		if r.Chance(50) {
			tags = r.Range(0, 4)
		}
		nargs := i % 16 // 0..15 in turn
		switch {
		case i < 72:
			// in EVERY run: the set-size combinations in which one set has a lone handler
			// {fg:1,bg:1} (both roles), {fg:1,bg:>=2}, {fg:>=2,bg:1}, {fg:1,bg:0}, {fg:0,bg:1}, each with
			// and without GOMAXPROCS(1)
			combos := [][3]interface{}{{"lonefg", 1, 1}, {"lonebg", 1, 1}, {"lonefg", 1, r.Range(2, 5)},
				{"lonebg", r.Range(2, 5), 1}, {"lonefg", 1, 0}, {"lonebg", 0, 1}}
			cb := combos[i%6]
			emit(F(c15Line(r, verb, tags, nargs), verb, cb[1].(int), cb[2].(int), r.Intn(1000000), cb[0].(string), (i/6)%2, ""))
		case i < 96:
			// an EMPTY tag section; handler 0 ADDS tags, every other handler (both sets) looks afterwards
			nfg, nbg := r.Range(0, 4), r.Range(0, 4)
			if nfg+nbg < 2 {
				nfg, nbg = 1, 1
			}
			emit(F(c15Line(r, verb, 0, nargs), verb, nfg, nbg, r.Intn(1000000), "first", i%2, ""))
		case i < 132:
			// the same registration invoked for two successive events of the verb
			n1 := r.Range(0, 15)
			n2 := r.Range(0, 15)
			if i%3 == 0 && n2 > n1 {
				n1, n2 = n2, n1 // the second line fits into the storage of the first
			}
			t2 := -1
			if r.Bool() {
				t2 = r.Range(0, 3)
			}
			mode := "laterbg"
			if i%2 == 1 {
				mode = "laterfg"
			}
			l1 := c15Line(r, verb, tags, n1)
			l2 := c15Line(r, verb, t2, n2)
			if l1 == l2 {
				l2 += " differs"
			}
			emit(F(l1, verb, 1, 0, r.Intn(1000000), mode, (i/2)%2, l2))
		case i < 144:
			// a channel PRIVMSG addressed to the client ("<ownnick>: text" / "<ownnick>, text") with
			// background handlers only (the exact verb PRIVMSG: such a case gets a fresh client)
			sep := []string{": ", ", ", ":", ","}[i%4]
			l := ":nick!ident@host.example PRIVMSG #chan :" + []string{"vbot", "VBot"}[(i/4)%2] + sep + c15Word(r) + " " + c15Word(r)
			if i%3 == 0 {
				l = "@t1=x " + l
			}
			emit(F(l, "PRIVMSG", 0, r.Range(2, 5), r.Intn(1000000), "", (i/2)%2, ""))
		case i < 147:
			// a burst of 300-400 distinct lines written in one go, 3-6 background handlers
			n := r.Range(300, 400)
			styleTags := i%2 == 0
			f := F("", verb, 0, r.Range(3, 6), r.Intn(1000000), "burst", 0)
			for j := 0; j < n; j++ {
				var l string
				if styleTags {
					l = fmt.Sprintf("@s=%04d;t=%s :irc.server.example %s", j, c15Word(r), verb)
				} else {
					l = fmt.Sprintf(":n%04d!ident@host.example %s", j, verb)
				}
				for a := 0; a < j%5; a++ {
					l += " " + c15Word(r)
				}
				if j%3 == 0 {
					l += " :" + c15Word(r) + " " + c15Word(r)
				}
				if j == 0 {
					f[0] = []byte(l)
				} else {
					f = append(f, []byte(l))
				}
			}
			emit(f)
		default:
			emit(F(c15Line(r, verb, tags, nargs), verb, r.Range(1, 6), r.Range(1, 6), r.Intn(1000000), "", 0, ""))
		}
	}
}
