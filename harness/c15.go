package main

// C15: each handler invocation gets its own copy of the line.
//
// For one line sent by the in-memory server, 1-6 foreground and 1-6 background handlers (plus a
// late background handler that starts a few milliseconds after the others) are registered for its
// verb on a real client.  Every handler FIRST takes a deep snapshot of the *Line it was given and
// THEN scribbles over it (overwrites every Args[i], appends, sets and deletes Tags entries,
// rewrites scalar fields) following a PRNG-chosen program.  The observation is every handler's
// entry snapshot; they must all equal ParseLine of the sent line.

import (
	"fmt"
	"runtime"
	"sort"
	"strings"
	"sync"
	"time"

	"github.com/fluffle/goirc/client"
)

var c15ws *WireSession
var c15serial int

// No cross-talk between cases, by construction: the background dispatch of a line takes its snapshot
// "some time after" the line arrived, possibly after the NEXT case has registered its handlers.
// (a) the generator gives every case its own verb; (b) should a verb nevertheless come back within
// one session (stored inputs, replays), the case gets a FRESH client, whose handler sets no dispatch
// of an earlier line can reach; (c) every handler ignores a line whose Raw is not this case's line.
var c15verbs = map[string]bool{}

func init() {
	props["C15"] = &Prop{
		Setup:    func() { c15ws = NewWireSession(nil) },
		Teardown: func() { c15ws.Close() },
		Gen:      c15Gen,
		Exec:     c15Exec,
		Class: func(in Fields) string {
			if in.S(5) != "" {
				return fmt.Sprintf("%s:fg%d:bg%d:gomaxprocs1=%s", in.S(5), in.I(2), in.I(3), in.S(6))
			}
			t := "notags"
			if strings.HasPrefix(in.S(0), "@") {
				t = "tags"
			}
			n := strings.Count(strings.SplitN(in.S(0), " :", 2)[0], " ")
			b := "args0-2"
			if n > 8 {
				b = "args8+"
			} else if n > 3 {
				b = "args3-7"
			}
			return t + ":" + b
		},
	}
}

type c15Snap struct {
	ok   bool
	scal [6]string
	args []string
	tags map[string]string
	nil_ bool
}

func c15Take(l *client.Line) c15Snap {
	s := c15Snap{ok: true, scal: [6]string{l.Nick, l.Ident, l.Host, l.Src, l.Cmd, l.Raw}}
	s.args = append([]string{}, l.Args...)
	if l.Tags == nil {
		s.nil_ = true
	} else {
		s.tags = map[string]string{}
		for k, v := range l.Tags {
			s.tags[k] = v
		}
	}
	return s
}

func c15Scribble(r *Rand, l *client.Line) {
	n := r.Range(3, 12)
	for k := 0; k < n; k++ {
		switch r.Intn(8) {
		case 0, 1:
			for i := range l.Args {
				l.Args[i] = fmt.Sprintf("X%d", r.Intn(1000))
			}
		case 2:
			l.Args = append(l.Args, "appended")
		case 3:
			if l.Tags != nil {
				l.Tags[fmt.Sprintf("k%d", r.Intn(5))] = "scribble"
				for key := range l.Tags {
					l.Tags[key] = "overwritten"
					break
				}
			}
		case 4:
			if l.Tags != nil {
				for key := range l.Tags {
					delete(l.Tags, key)
					break
				}
			}
		case 5:
			l.Nick, l.Cmd, l.Raw = "evil", "EVIL", "evil"
		case 6:
			if len(l.Args) > 0 {
				l.Args[r.Intn(len(l.Args))] = ""
				l.Args = l.Args[:len(l.Args)-1]
			}
		default:
			runtime.Gosched()
		}
	}
}

// the lone handler of a set: record, then IMMEDIATELY overwrite everything reachable from the
// *Line — every argument, the slice itself, every tag, and the scalar fields of the struct
func c15ScribbleAll(l *client.Line) {
	for i := range l.Args {
		l.Args[i] = "LONE"
	}
	l.Args = append(l.Args, "lone-appended")
	if l.Tags != nil {
		for k := range l.Tags {
			l.Tags[k] = "lone"
		}
		l.Tags["lone-key"] = "lone"
	}
	l.Nick, l.Ident, l.Host, l.Src, l.Raw = "lone", "lone", "lone", "lone", "lone"
	l.Cmd = "LONE"
}

// modes (field 5): "" = free running (plus a late background handler);
// "lonefg": the foreground set has exactly ONE handler, which scribbles over everything right after
//           recording and then closes a channel; the background handlers record only after that;
// "lonebg": the same with the roles of the sets exchanged (no late handler in the lone modes).
// field 6 = "1": the case runs with GOMAXPROCS(1), so that goroutines started by the dispatchers
// only get to evaluate line.Copy() after the code that started them has blocked or finished.
func c15Exec(in Fields) Fields {
	line, verb, nfg, nbg := in.S(0), in.S(1), in.I(2), in.I(3)
	seed := uint64(in.I(4))
	mode := in.S(5)
	if in.S(6) == "1" {
		defer runtime.GOMAXPROCS(runtime.GOMAXPROCS(1))
	}
	if lv := strings.ToLower(verb); c15verbs[lv] {
		c15ws.Close()
		c15ws = NewWireSession(nil)
		c15verbs = map[string]bool{lv: true}
	} else {
		c15verbs[lv] = true
	}
	c := c15ws.Conn
	total := nfg + nbg + 1
	if mode != "" {
		total = nfg + nbg
	}
	scribbled := make(chan struct{}) // closed by the lone handler when it has finished scribbling
	loneIdx := -1
	switch mode {
	case "lonefg":
		loneIdx = 0
	case "lonebg":
		loneIdx = nfg
	}
	snaps := make([]c15Snap, total)
	var mu sync.Mutex
	var wg sync.WaitGroup
	wg.Add(total)
	var rems []client.Remover
	mk := func(idx int, late bool) client.HandlerFunc {
		var once sync.Once
		return func(_ *client.Conn, l *client.Line) {
			if l.Raw != line {
				return // not this case's line
			}
			ran := false
			once.Do(func() { ran = true })
			if !ran {
				return
			}
			r := &Rand{s: seed*1000003 + uint64(idx)}
			if mode != "" {
				if idx == loneIdx {
					s := c15Take(l)
					c15ScribbleAll(l)
					close(scribbled)
					mu.Lock()
					snaps[idx] = s
					mu.Unlock()
					wg.Done()
					return
				}
				// a handler of the OTHER set: look at the line only after the lone one has scribbled
				select {
				case <-scribbled:
				case <-time.After(2 * time.Second):
				}
			}
			if late {
				time.Sleep(time.Duration(2+r.Intn(4)) * time.Millisecond)
			} else if r.Chance(30) {
				runtime.Gosched()
			}
			s := c15Take(l) // FIRST: record what was received
			mu.Lock()
			snaps[idx] = s
			mu.Unlock()
			c15Scribble(r, l) // THEN: scribble
			wg.Done()
		}
	}
	for i := 0; i < nfg; i++ {
		rems = append(rems, c.HandleFunc(verb, mk(i, false)))
	}
	for i := 0; i < nbg; i++ {
		rems = append(rems, c.HandleBG(verb, mk(nfg+i, false)))
	}
	if mode == "" {
		rems = append(rems, c.HandleBG(verb, mk(nfg+nbg, true)))
	}

	c15serial++
	marker := fmt.Sprintf("PONG :c15m%d\r\n", c15serial)
	c15ws.Srv.Write([]byte(line + "\r\n" + fmt.Sprintf("PING :c15m%d\r\n", c15serial)))
	st := &c04State{ws: c15ws}
	st.waitWire(marker, 5*time.Second)
	done := make(chan struct{})
	go func() { wg.Wait(); close(done) }()
	patience := 2 * time.Second
	if mode != "" {
		patience = time.Second // the sync marker has passed and nobody sleeps in these modes
	}
	select {
	case <-done:
	case <-time.After(patience):
	}
	for _, rm := range rems {
		rm.Remove()
	}

	var obs Fields
	mu.Lock()
	defer mu.Unlock()
	for idx, s := range snaps {
		who := "late"
		if idx < nfg {
			who = fmt.Sprintf("f%d", idx)
		} else if idx < nfg+nbg {
			who = fmt.Sprintf("b%d", idx-nfg)
		}
		if !s.ok {
			obs = append(obs, F(who, "MISSING")...)
			continue
		}
		obs = append(obs, F(who, s.scal[0], s.scal[1], s.scal[2], s.scal[3], s.scal[4], s.scal[5], len(s.args), s.args)...)
		if s.nil_ {
			obs = append(obs, F("nil")...)
		} else {
			keys := make([]string, 0, len(s.tags))
			for k := range s.tags {
				keys = append(keys, k)
			}
			sort.Strings(keys)
			obs = append(obs, F(len(keys))...)
			for _, k := range keys {
				obs = append(obs, F(k, s.tags[k])...)
			}
		}
	}
	return obs
}

func c15Word(r *Rand) string {
	return string(r.Bytes(r.Range(1, 8), []byte("abcdefghXYZ0123456789#&+-_")))
}

func c15Gen(r *Rand, tier string, scale int, emit func(Fields)) {
	if scale == 0 {
		scale = 300
	}
	verbs := []string{"ZOT", "zot", "PRIVMSG", "NOTICE", "123", "Quux"}
	for i := 0; i < scale; i++ {
		var b strings.Builder
		if r.Chance(50) {
			b.WriteString("@")
			nt := r.Range(0, 4)
			for j := 0; j < nt; j++ {
				if j > 0 {
					b.WriteString(";")
				}
				b.WriteString(fmt.Sprintf("t%d", r.Intn(6)))
				switch r.Intn(4) {
				case 0: // key only
				case 1:
					b.WriteString("=")
				case 2:
					b.WriteString("=va\\sl\\:ue\\\\")
				default:
					b.WriteString("=" + c15Word(r))
				}
			}
			if nt == 0 {
				b.WriteString("only")
			}
			b.WriteString(" ")
		}
		switch r.Intn(3) {
		case 0:
			b.WriteString(":nick!ident@host.example ")
		case 1:
			b.WriteString(":irc.server.example ")
		}
		verb := fmt.Sprintf("%s%d", r.Pick(verbs), i) // a verb of its own for every case of the run
		b.WriteString(verb)
		nargs := i % 16 // 0..15 in turn
		trailing := nargs > 0 && r.Chance(60)
		for j := 0; j < nargs; j++ {
			if trailing && j == nargs-1 {
				b.WriteString(" :" + c15Word(r) + " " + c15Word(r) + " :x")
			} else {
				b.WriteString(" " + c15Word(r))
			}
		}
		// in EVERY run: the set-size combinations in which one set has a lone handler
		// {fg:1,bg:1} (both roles), {fg:1,bg:>=2}, {fg:>=2,bg:1}, {fg:1,bg:0}, {fg:0,bg:1}, each with
		// and without GOMAXPROCS(1); the remaining cases run free
		if i < 72 {
			combos := [][3]interface{}{{"lonefg", 1, 1}, {"lonebg", 1, 1}, {"lonefg", 1, r.Range(2, 5)},
				{"lonebg", r.Range(2, 5), 1}, {"lonefg", 1, 0}, {"lonebg", 0, 1}}
			cb := combos[i%6]
			emit(F(b.String(), verb, cb[1].(int), cb[2].(int), r.Intn(1000000), cb[0].(string), (i/6)%2))
			continue
		}
		emit(F(b.String(), verb, r.Range(1, 6), r.Range(1, 6), r.Intn(1000000), "", 0))
	}
}
