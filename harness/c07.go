package main

// C07: disconnect always completes, leaks nothing, and the client can reconnect.
// Cases are fault scripts (lifecycle_common.go) at the boundary sizes of the inbound and
// outbound backlogs, with the foreground handler idle / running / blocked in a send, each
// disconnect cause, reconnects from the DISCONNECTED handler or from a woken goroutine, 1..5
// cycles; observation = event history + leaked / hung / fresh, judged by the extracted C07_ok.

func init() {
	props["C07"] = &Prop{Gen: c07Gen, Exec: lcExec, Class: lcClass}
}

var c07In = []int{0, 1, 31, 32, 33, 64, 65, 66, 67, 100, 400}
var c07Out = []int{1, 32, 33, 64, 65, 300}

func c07Ender(k int) c06Ender {
	switch k % 5 {
	case 0:
		return c06Ender{closeN: 1}
	case 1:
		return c06Ender{eof: true}
	case 2:
		return c06Ender{cancel: true}
	case 3:
		return c06Ender{rderr: true}
	default:
		return c06Ender{wrerr: true}
	}
}

func c07Gen(r *Rand, tier string, scale int, emit func(Fields)) {
	if scale == 0 {
		scale = 120
	}
	var scripts []lcScript
	add := func(sc lcScript) {
		lcFix(&sc)
		scripts = append(scripts, sc)
	}
	mk := func(e c06Ender) lcCycle {
		return lcCycle{closeN: e.closeN, eof: e.eof, rderr: e.rderr, wrerr: e.wrerr, cancel: e.cancel, segs: 1,
			origin: 1, welcome: true}
	}
	k := 0
	// 1. inbound backlog behind a running handler, every boundary size x three causes
	for _, in := range c07In {
		for e := 0; e < 3; e++ {
			c := mk(c07Ender(e))
			c.hs, c.inN, c.segs = 1, in, 1+r.Intn(4)
			c.relFirst = r.Chance(25)
			add(lcScript{tracking: k%2 == 0, cycles: []lcCycle{c}})
			k++
		}
	}
	// 2. outbound backlog from the handler (blocked in a send) or a free goroutine
	for _, out := range c07Out {
		for by := 1; by <= 2; by++ {
			for e := 0; e < 3; e++ {
				c := mk(c07Ender(e + by))
				c.outN, c.outBy = out, by
				if by == 1 {
					c.hs = 2
				}
				sc := lcScript{cycles: []lcCycle{c}}
				if k%7 == 0 {
					sc.pingMs = 2
				}
				add(sc)
				k++
			}
		}
	}
	// 3. both at once
	for _, p := range [][2]int{{32, 32}, {33, 33}, {66, 65}, {67, 300}, {400, 300}} {
		for e := 0; e < 5; e++ {
			c := mk(c07Ender(e))
			c.hs, c.inN, c.outN, c.outBy, c.segs = 2, p[0], p[1], 1, 1+r.Intn(3)
			add(lcScript{tracking: e%2 == 1, cycles: []lcCycle{c}})
		}
	}
	// 4. being rate-limited: flood control on, a few lines
	for e := 0; e < 2; e++ {
		c := mk(c07Ender(e))
		c.outN, c.outBy = 8, 2
		add(lcScript{flood: true, cycles: []lcCycle{c}})
	}
	// 5. cycles 2..5, both reconnect origins, assorted backlogs
	for ncy := 2; ncy <= 5; ncy++ {
		for origin := 0; origin < 2; origin++ {
			sc := lcScript{tracking: true}
			for i := 0; i < ncy; i++ {
				c := mk(c07Ender(r.Intn(5)))
				c.origin = origin
				c.hs = r.Intn(3)
				c.inN = r.Pick2([]int{0, 1, 33, 66, 100})
				if c.hs == 2 || r.Chance(30) {
					c.outN = r.Pick2([]int{1, 33, 65})
				}
				c.refD = r.Intn(2)
				sc.cycles = append(sc.cycles, c)
			}
			add(sc)
		}
	}
	// 5b. leftovers: lines still queued when connection N ends — in conn.out (the application
	//     keeps sending while the server has stopped reading) and in conn.in (a burst behind a
	//     slow handler) — then a reconnect: connection N+1 must carry its own registration first
	//     and deliver only its own lines
	for j, q := range [][4]int{{0, 0, 65, 1}, {0, 0, 300, 1}, {0, 0, 65, 2}, {0, 0, 300, 2},
		{1, 100, 0, 0}, {1, 400, 0, 0}, {2, 67, 300, 1}, {2, 66, 65, 1}, {1, 100, 300, 2}, {1, 400, 65, 2}} {
		c := mk(c07Ender(j % 3))
		c.hs, c.inN, c.outN, c.outBy, c.segs = q[0], q[1], q[2], q[3], 1+j%3
		if c.outBy == 1 {
			c.hs = 2
		}
		c.origin = j % 2
		c2 := mk(c07Ender(0))
		c2.inN, c2.hs = 3, 0 // its own lines, delivered on its own connection
		add(lcScript{tracking: j%2 == 0, ctx: true, cycles: []lcCycle{c, c2}})
	}
	// 6. D12: a handler asks Connected() while the teardown waits for it — every cause
	for e := 0; e < 5; e++ {
		c := mk(c07Ender(e))
		c.hs, c.hlock = 1, true
		c.inN = []int{0, 33, 0, 66, 1}[e]
		add(lcScript{ctx: true, cycles: []lcCycle{c}})
	}
	// 6b. sessions through the client's OWN dialer (TCP listener on 127.0.0.1): Config.Timeout small,
	//     the first connection held longer than that, then reconnects from both origins
	var tcp []Fields
	ntcp := 4
	if tier == "thorough" {
		ntcp = 10
	}
	for i := 0; i < ntcp; i++ {
		timeout := r.Range(150, 300)
		f := F("lctcp", timeout, timeout+r.Range(60, 150))
		ncy := r.Range(2, 3)
		f = append(f, F(ncy)...)
		for j := 0; j < ncy; j++ {
			origin := (i + j) % 2 // both origins in every session
			f = append(f, F(origin, r.Intn(2), r.Intn(40))...)
		}
		tcp = append(tcp, f)
	}
	// 6c. Quit() on connection 1, hang-up, reconnect at once: connection 2 must still be up 5.6 s
	//     after the Quit (placed first so that they run side by side in different children)
	nq := 2
	if tier == "thorough" {
		nq = 4
	}
	for i := 0; i < nq; i++ {
		tcp = append([]Fields{F("lcquit", i%2, r.Intn(1000))}, tcp...)
	}
	// 7. random fill / thorough product
	extra := scale - len(scripts) - len(tcp)
	if tier == "thorough" {
		extra += scale * 2
	}
	for i := 0; i < extra; i++ {
		sc := lcScript{tracking: r.Bool(), ctx: r.Bool()}
		if r.Chance(20) {
			sc.pingMs = 2
		}
		ncy := r.Range(1, 3)
		if tier == "thorough" {
			ncy = r.Range(1, 5)
		}
		for j := 0; j < ncy; j++ {
			e := c06Ender{closeN: r.Intn(3), eof: r.Chance(30), rderr: r.Chance(15), wrerr: r.Chance(15), cancel: r.Chance(30)}
			c := mk(e)
			c.origin, c.hs = r.Intn(2), r.Intn(3)
			c.inN, c.segs = r.Pick2(c07In), 1+r.Intn(5)
			if r.Chance(50) {
				c.outN, c.outBy = r.Pick2(c07Out), 1+r.Intn(2)
			}
			c.relFirst = r.Chance(25)
			sc.cycles = append(sc.cycles, c)
		}
		add(sc)
	}
	var ins []Fields
	for _, sc := range scripts {
		ins = append(ins, sc.fields())
	}
	ins = append(tcp, ins...) // the long sessions first: one per child
	lcPrefetch(ins, 12)
	for _, in := range ins {
		emit(in)
	}
}
