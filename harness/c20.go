package main

// C20: the connection password never reaches the log.
//
// A case is ONE configuration + ONE session script + a PAIR of passwords (p1, p2).  The same
// session is run twice on the real client, once per password, with a capturing logging.Logger
// installed (all four levels; a record is (level, fmt.Sprintf(format, args...))).  The
// observation is the two record streams.  Layout: see coq/Entry/EntryC20.v.
//
// The logger of package logging is process-global: cases run strictly one after the other, and
// a run only returns after the client's DISCONNECTED event (dispatched by closeIf AFTER all
// three connection goroutines have exited) — nothing of a finished run can log into the next.
//
// The socket is a net.Pipe end wrapped in c20Conn, reached through goirc's public proxy hook
// (schemes "c20mem" / "c20memnc": with / without DialContext).  The wrapper can fail the k-th
// Write with a given error text and turn the final EOF into a read error with a given text, so
// that failing connections are deterministic.
//
// Synchronisation without timing: the server end sends the whole script followed by
// "PING :c20end"; the out queue is FIFO and the send goroutine sequential, so once the record
// "-> PONG :c20end" has been logged every earlier line has been dispatched, answered and logged.
// Then the server end closes (EOF) and the run waits for DISCONNECTED.

import (
	"bufio"
	"context"
	"errors"
	"fmt"
	"io"
	"net"
	"net/url"
	"os"
	"strings"
	"sync"
	"time"

	"github.com/fluffle/goirc/client"
	"github.com/fluffle/goirc/logging"
	"golang.org/x/net/proxy"
)

func init() {
	props["C20"] = &Prop{Gen: c20Gen, Exec: c20Exec, Class: c20Class,
		Teardown: func() { logging.SetLogger(nil) }}
}

// ---------- capturing logger ----------
type c20Rec struct{ lvl, msg string }

type c20Logger struct {
	mu    sync.Mutex
	recs  []c20Rec
	watch string        // when a record with exactly this message arrives ...
	hit   chan struct{} // ... this channel is closed (once)
	done  bool
}

func (l *c20Logger) add(lvl, f string, a []interface{}) {
	m := fmt.Sprintf(f, a...)
	l.mu.Lock()
	l.recs = append(l.recs, c20Rec{lvl, m})
	if !l.done && l.watch != "" && m == l.watch {
		l.done = true
		close(l.hit)
	}
	l.mu.Unlock()
}
func (l *c20Logger) Debug(f string, a ...interface{}) { l.add("D", f, a) }
func (l *c20Logger) Info(f string, a ...interface{})  { l.add("I", f, a) }
func (l *c20Logger) Warn(f string, a ...interface{})  { l.add("W", f, a) }
func (l *c20Logger) Error(f string, a ...interface{}) { l.add("E", f, a) }
func (l *c20Logger) snapshot() []c20Rec {
	l.mu.Lock()
	defer l.mu.Unlock()
	return append([]c20Rec{}, l.recs...)
}

// ---------- the socket ----------
type c20Conn struct {
	net.Conn
	mu     sync.Mutex
	writes int
	failAt int    // index of the Write call that fails (-1: none)
	werr   string // its error text
	rerr   string // when non-empty, io.EOF from Read becomes this error
}

func (c *c20Conn) Write(b []byte) (int, error) {
	c.mu.Lock()
	k := c.writes
	c.writes++
	c.mu.Unlock()
	if k == c.failAt {
		return 0, errors.New(c.werr)
	}
	return c.Conn.Write(b)
}
func (c *c20Conn) Read(b []byte) (int, error) {
	n, err := c.Conn.Read(b)
	if err == io.EOF && c.rerr != "" {
		err = errors.New(c.rerr)
	}
	return n, err
}

type c20Server struct {
	dialErr string
	failAt  int
	werr    string
	rerr    string
	conns   chan net.Conn
}

var (
	c20Mu   sync.Mutex
	c20Srv  *c20Server // the server behind "c20mem://c20" for the run in progress
	c20Once sync.Once
)

type c20Dialer struct{}

func (c20Dialer) Dial(network, addr string) (net.Conn, error) {
	c20Mu.Lock()
	s := c20Srv
	c20Mu.Unlock()
	if s == nil {
		return nil, errors.New("c20: no server")
	}
	if s.dialErr != "" {
		return nil, errors.New(s.dialErr)
	}
	c, srv := net.Pipe()
	s.conns <- srv
	return &c20Conn{Conn: c, failAt: s.failAt, werr: s.werr, rerr: s.rerr}, nil
}

type c20CtxDialer struct{ c20Dialer }

func (d c20CtxDialer) DialContext(ctx context.Context, network, addr string) (net.Conn, error) {
	return d.Dial(network, addr)
}

func c20Register() {
	c20Once.Do(func() {
		proxy.RegisterDialerType("c20mem", func(*url.URL, proxy.Dialer) (proxy.Dialer, error) { return c20CtxDialer{}, nil })
		proxy.RegisterDialerType("c20memnc", func(*url.URL, proxy.Dialer) (proxy.Dialer, error) { return c20Dialer{}, nil })
	})
}

// ---------- one case ----------
type c20Case struct {
	scen                      string // "sess" | "dialerr" | "wfail"
	neg, track, flood, ctxd   bool
	nick, ident, name, server string
	p1, p2                    string
	bad0                      int64 // preset flood penalty in ns (0: fresh client)
	errtext                   string
	failAt                    int
	viaConnectTo              bool
	script                    []string
}

const c20End = "c20end"

func c20Input(c c20Case) Fields {
	return F(c.scen, c.neg, c.track, c.flood, c.ctxd, c.nick, c.ident, c.name, c.server, c.p1, c.p2,
		c.bad0, c.errtext, c.failAt, c.viaConnectTo, len(c.script), c.script)
}

func c20Decode(in Fields) c20Case {
	b := func(i int) bool { return in.S(i) == "t" }
	c := c20Case{scen: in.S(0), neg: b(1), track: b(2), flood: b(3), ctxd: b(4),
		nick: in.S(5), ident: in.S(6), name: in.S(7), server: in.S(8), p1: in.S(9), p2: in.S(10),
		errtext: in.S(12), failAt: in.I(13), viaConnectTo: b(14)}
	fmt.Sscanf(in.S(11), "%d", &c.bad0)
	n := in.I(15)
	for i := 0; i < n && 16+i < len(in); i++ {
		c.script = append(c.script, in.S(16+i))
	}
	return c
}

func c20Exec(in Fields) Fields {
	c := c20Decode(in)
	if os.Getenv("C20DEBUG") != "" {
		fmt.Fprintf(os.Stderr, "%q\n", in)
	}
	r1 := c20Run(c, c.p1)
	r2 := c20Run(c, c.p2)
	var obs Fields
	for _, rs := range [][]c20Rec{r1, r2} {
		obs = append(obs, F(len(rs))...)
		for _, r := range rs {
			obs = append(obs, F(r.lvl, r.msg)...)
		}
	}
	return obs
}

// c20Run runs the session once with password pw and returns every record logged.
func c20Run(c c20Case, pw string) []c20Rec {
	c20Register()
	lg := &c20Logger{hit: make(chan struct{}), watch: "-> PONG :" + c20End}
	fail := func(what string) []c20Rec {
		return append(lg.snapshot(), c20Rec{"X", "<<" + what + ">>"})
	}
	srv := &c20Server{failAt: -1, conns: make(chan net.Conn, 1)}
	switch c.scen {
	case "dialerr":
		srv.dialErr = c.errtext
	case "wfail":
		srv.failAt, srv.werr = c.failAt, c.errtext
	case "sess":
		srv.rerr = c.errtext
	}
	c20Mu.Lock()
	c20Srv = srv
	c20Mu.Unlock()

	cfg := client.NewConfig(c.nick, c.ident, c.name)
	cfg.Server = c.server
	if c.ctxd {
		cfg.Proxy = "c20mem://c20"
	} else {
		cfg.Proxy = "c20memnc://c20"
	}
	cfg.Flood = c.flood
	cfg.PingFreq = 0
	cfg.EnableCapabilityNegotiation = c.neg
	if !c.viaConnectTo {
		cfg.Pass = pw
	}
	logging.SetLogger(lg)
	defer logging.SetLogger(nil)
	conn := client.Client(cfg)
	if c.track {
		conn.EnableStateTracking()
	}
	disc := make(chan struct{}, 4)
	conn.HandleFunc(client.DISCONNECTED, func(*client.Conn, *client.Line) { disc <- struct{}{} })
	if c.bad0 > 0 {
		// leaves badness = bad0 (minus a few microseconds) and lastsent = now
		conn.VerifRateLimit(0, time.Duration(c.bad0)-2*time.Second, time.Now())
	}
	errc := make(chan error, 1)
	go func() {
		if c.viaConnectTo {
			errc <- conn.ConnectTo(c.server, pw)
		} else {
			errc <- conn.Connect()
		}
	}()
	var err error
	select {
	case err = <-errc:
	case <-time.After(20 * time.Second):
		return fail("CONNECT-STALL")
	}
	if c.scen == "dialerr" {
		if err == nil {
			conn.Close()
			return fail("DIAL-DID-NOT-FAIL")
		}
		return lg.snapshot()
	}
	if err != nil {
		return fail("CONNECT-ERROR " + err.Error())
	}
	end := <-srv.conns
	waitDisc := func() bool {
		select {
		case <-disc:
			return true
		case <-time.After(30 * time.Second):
			return false
		}
	}
	if c.scen == "wfail" {
		// the server end reads whatever arrives and never sends; the k-th write fails, send calls
		// closeIf, which closes the socket
		go io.Copy(io.Discard, end)
		ok := waitDisc()
		end.Close()
		if !ok {
			conn.Close()
			return fail("NO-DISCONNECT")
		}
		return lg.snapshot()
	}
	// "sess"
	pong := make(chan struct{})
	go func() {
		rd := bufio.NewReaderSize(end, 1<<16)
		seen := false
		for {
			s, err := rd.ReadString('\n')
			if err != nil {
				return
			}
			if !seen && strings.TrimRight(s, "\r\n") == "PONG :"+c20End {
				seen = true
				close(pong)
			}
		}
	}()
	var sb strings.Builder
	for _, l := range c.script {
		sb.WriteString(l)
		sb.WriteString("\r\n")
	}
	sb.WriteString("PING :" + c20End + "\r\n")
	go func() {
		end.SetWriteDeadline(time.Now().Add(60 * time.Second))
		end.Write([]byte(sb.String()))
	}()
	select {
	case <-pong:
	case <-time.After(60 * time.Second):
		end.Close()
		conn.Close()
		return fail("NO-PONG")
	}
	select {
	case <-lg.hit:
	case <-time.After(10 * time.Second):
		end.Close()
		conn.Close()
		return fail("NO-PONG-RECORD")
	}
	end.Close()
	if !waitDisc() {
		conn.Close()
		return fail("NO-DISCONNECT")
	}
	return lg.snapshot()
}

func c20Class(in Fields) string {
	c := c20Decode(in)
	b := func(x bool, s string) string {
		if x {
			return s
		}
		return "-"
	}
	pw := "short"
	switch {
	case strings.ContainsAny(c.p1, "\r\n"):
		pw = "crlf"
	case strings.HasPrefix(c.p1, "PASS"):
		pw = "PASS.."
	case strings.Contains(c.p1, "%"):
		pw = "verbs"
	case strings.HasPrefix(c.p1, ":"):
		pw = "colon"
	case strings.Contains(c.p1, " "):
		pw = "space"
	case len(c.p1) >= 16:
		pw = "long"
	}
	return fmt.Sprintf("%s:%s%s%s%s:%s", c.scen, b(c.neg, "n"), b(c.track, "t"), b(c.flood, "F"), b(c.bad0 > 0, "B"), pw)
}

// ---------- generator ----------
const c20Alnum = "abcdefghijklmnopqrstuvwxyzABCDEFGHIJKLMNOPQRSTUVWXYZ0123456789"

func c20Rand(r *Rand, n int, alphabet string) string {
	return string(r.Bytes(n, []byte(alphabet)))
}

func c20Printable(r *Rand, n int) string {
	b := make([]byte, n)
	for i := range b {
		b[i] = byte(0x21 + r.Intn(0x7e-0x21+1)) // no space: runs of spaces could occur in a record by accident
	}
	return string(b)
}

// c20PassPair returns two DIFFERENT passwords of the same style with len(cutNewLines(p)) equal
// (sameLen) or not necessarily (only used with Flood = true).
func c20PassPair(r *Rand, style string, n int, sameLen bool) (string, string) {
	one := func(n int, cut int) string {
		if n < 1 {
			n = 1
		}
		switch style {
		case "PASS":
			// (not "PASS **************": a password that occurs in the masked constant "occurs by
			// accident", the case the substring oracle cannot judge — see ok_model's hypothesis)
			pre := r.Pick([]string{"PASS", "PASS ", "PASS *", "PASSWORD=", "PASS :"})
			if len(pre) >= n {
				return pre[:n]
			}
			return pre + c20Rand(r, n-len(pre), c20Alnum)
		case "verbs":
			s := ""
			for len(s) < n {
				s += r.Pick([]string{"%s", "%d", "%n", "%v", "%!s(MISSING)", "%%", "%q", "%.2f", "%[1]s", "%*d"}) + c20Rand(r, r.Range(1, 6), c20Alnum)
			}
			return s[:n]
		case "space":
			s := r.Pick([]string{" ", "  ", ""})
			for len(s) < n {
				s += c20Rand(r, r.Range(1, 7), c20Alnum) + r.Pick([]string{" ", " ", "  ", "\t"})
			}
			return s[:n]
		case "colon":
			return (":" + c20Rand(r, n, c20Alnum))[:n]
		case "crlf":
			if cut > n-1 {
				cut = n - 1
			}
			s := c20Rand(r, cut, c20Alnum) + r.Pick([]string{"\r\n", "\n", "\r", "\n\r"})
			if len(s) >= n {
				return s
			}
			return s + c20Rand(r, n-len(s), c20Alnum)
		case "printable":
			return c20Printable(r, n)
		}
		return c20Rand(r, n, c20Alnum)
	}
	cut := r.Intn(n + 1)
	if r.Chance(15) {
		cut = 0
	}
	for try := 0; ; try++ {
		if try == 20 { // the style cannot give two different passwords of this length
			style = "plain"
		}
		n2 := n
		if !sameLen {
			n2 = r.Range(1, 200)
		}
		a, b := one(n, cut), one(n2, cut)
		if a != b && a != "" && b != "" && (!sameLen || len(client.VerifCutNewLines(a)) == len(client.VerifCutNewLines(b))) {
			return a, b
		}
	}
}

var c20Styles = []string{"plain", "plain", "printable", "PASS", "verbs", "space", "colon", "crlf"}

func c20Len(r *Rand, max int) int {
	switch r.Intn(6) {
	case 0:
		return r.Range(1, 3)
	case 1:
		return r.Range(16, 24)
	case 2:
		return max
	default:
		return r.Range(1, max)
	}
}

// a script line the client answers (charged by flood control) or not
func c20Line(r *Rand, c *c20Case, replying bool) string {
	tok := c20Rand(r, r.Range(1, 8), c20Alnum)
	other := "x" + c20Rand(r, r.Range(1, 6), c20Alnum)
	if replying {
		switch r.Intn(9) {
		case 0, 1:
			return "PING :" + tok
		case 2:
			return ":irc.example 433 * " + c.nick + " :Nickname is already in use"
		case 3:
			return ":irc.example 433 * " + other + " :Nickname is already in use"
		case 4:
			return ":irc.example CAP * LS :multi-prefix sasl " + tok
		case 5:
			return ":irc.example CAP " + c.nick + " " + r.Pick([]string{"ACK", "NAK", "LIST"}) + " :" + tok
		case 6:
			return ":irc.example " + r.Pick([]string{"903", "904"}) + " " + c.nick + " :SASL " + tok
		case 7:
			return ":irc.example 908 " + c.nick + " PLAIN,EXTERNAL :are available SASL mechanisms"
		default:
			return ":irc.example 410 " + c.nick + " " + tok + " :Invalid CAP command"
		}
	}
	switch r.Intn(13) {
	case 0:
		return ":irc.example 001 " + c.nick + " :Welcome to the network " + c.nick + "!" + c.ident + "@host.example"
	case 1:
		return ":irc.example 001 " + other + " :Welcome " + other
	case 2:
		return ":" + c.nick + "!u@h NICK :" + other
	case 3:
		return ":" + other + "!u@h NICK :" + tok
	case 4:
		return ":" + c.nick + "!u@h NICK " + c.nick
	case 5:
		return ":irc.example " + r.Pick([]string{"FOO", "372", "005", "ERROR", "251"}) + " " + tok + " :" + tok + " %s %d"
	case 6:
		return ":a!b@c PRIVMSG #chan :hello " + tok
	case 7:
		return ":irc.example NOTICE * :*** Looking up your hostname"
	case 8:
		return "   "
	case 9:
		return ":onlyprefix"
	case 10:
		return "@time=2026;k=v\\s :irc.example FOO " + tok
	case 11:
		return ""
	default:
		return "ERROR :Closing Link: " + tok + " (Bad Password)"
	}
}

func c20Base(r *Rand) c20Case {
	c := c20Case{ctxd: !r.Chance(15), nick: "vbot", ident: "vident", name: "v name", server: "irc.example",
		failAt: -1, viaConnectTo: r.Bool(), neg: r.Bool(), track: r.Bool(), flood: r.Chance(70)}
	if r.Chance(30) {
		c.nick = "n" + c20Rand(r, r.Range(1, 8), c20Alnum)
		c.ident = c20Rand(r, r.Range(1, 8), c20Alnum)
		c.name = c20Rand(r, r.Range(1, 12), c20Alnum+" ")
		if strings.TrimSpace(c.name) == "" {
			c.name = "r n"
		}
	}
	c.server = r.Pick([]string{"irc.example", "irc.example", "irc.example:6697", "10.0.0.1", "[::1]:6667"})
	return c
}

func c20Gen(r *Rand, tier string, scale int, emit func(in Fields)) {
	n := scale
	if n <= 0 {
		n = 300
	}
	slow, slowFull := 1, 0
	if tier == "thorough" {
		slow, slowFull = 6, 2
	}
	for i := 0; i < n; i++ {
		c := c20Base(r)
		style := r.Pick(c20Styles)
		k := r.Intn(100)
		switch {
		case k < 10:
			c.scen = "dialerr"
			c.errtext = r.Pick([]string{"connection refused", "dial tcp 10.0.0.1:6667: i/o timeout", "no route to host %s %d", "c20: refused"})
			c.p1, c.p2 = c20PassPair(r, style, c20Len(r, 200), r.Bool())
		case k < 30:
			c.scen = "wfail"
			c.failAt = r.Intn(3) // PASS, NICK, USER, or CAP LS, PASS, NICK
			if c.neg {
				c.failAt = r.Intn(4)
			}
			c.errtext = r.Pick([]string{"write: broken pipe", "c20: write refused", "write tcp: connection reset by peer %v"})
			// flood control on: at most four lines are charged, stay below 10 s
			c.p1, c.p2 = c20PassPair(r, style, c20Len(r, 150), !c.flood || r.Bool())
		default:
			c.scen = "sess"
			if r.Chance(15) {
				c.errtext = r.Pick([]string{"read: connection reset by peer", "c20: read failed %s"})
			}
			if c.flood {
				c.p1, c.p2 = c20PassPair(r, style, c20Len(r, 200), r.Bool())
				for j, m := 0, r.Intn(9); j < m; j++ {
					c.script = append(c.script, c20Line(r, &c, r.Chance(45)))
				}
			} else {
				// flood control ON: PASS, NICK, USER and the final PONG are charged (8.1 s + chars/120);
				// keep 0.6 s below the 10 s threshold so that no line sleeps: no negotiation, no answered
				// line, password at most 100 bytes
				c.neg = false
				c.p1, c.p2 = c20PassPair(r, style, c20Len(r, 100), true)
				for j, m := 0, r.Intn(6); j < m; j++ {
					c.script = append(c.script, c20Line(r, &c, false))
				}
			}
		}
		emit(c20Input(c))
	}
	// flood control ON and the threshold exceeded AT the PASS line (penalty preset to 9.5 s):
	// the flood message prints the PASS line's charge, i.e. depends on the password's length.
	// Each such line really sleeps for 2+ s.
	for i := 0; i < slow; i++ {
		c := c20Base(r)
		c.scen, c.neg, c.flood, c.bad0 = "wfail", false, false, 9500000000
		c.failAt = 0 // the PASS write itself fails after its sleep: one sleep per run
		c.errtext = "write: broken pipe"
		c.p1, c.p2 = c20PassPair(r, r.Pick(c20Styles), r.Range(1, 60), true)
		emit(c20Input(c))
	}
	for i := 0; i < slowFull; i++ {
		c := c20Base(r)
		c.scen, c.neg, c.flood, c.bad0 = "sess", false, false, 9500000000
		c.p1, c.p2 = c20PassPair(r, r.Pick(c20Styles), r.Range(1, 60), true)
		c.script = []string{c20Line(r, &c, false)}
		emit(c20Input(c))
	}
}
