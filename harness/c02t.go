package main

// C02, kind "transcript": a whole server session through a REAL client, compared line for line
// with the composed Coq model (coq/Model/Client.v, case format in coq/Model/ClientObs.v).
//
// input  = "transcript"; mode (bit 0 state tracking, bit 1 capability negotiation, bit 2 SASL
//          PLAIN); nick; ident; name; password; version; split_len; sasl user; sasl password;
//          #W wanted caps..; #N nick universe..; #C channel universe..; #K capability universe..;
//          #V observed verbs..; items: "L" raw-line | "M" (the k-th "M" is the server line "PING :m<k+1>"; m1 follows
//          Connect directly)
// observer: ONE foreground user handler registered under every verb of #V writes
//          "OBS <Cmd> <me> <chan bits> <nick bits> <cap bits>" (tracker and capability state as it
//          finds them): the foreground set runs after all internal handlers of the line.
// obs    = records [tag; #fields; fields..]: "R" registration lines (before PONG :m1); per "M" a
//          "Q" with the lines written since the previous marker's PONG; then "E" Config().Me
//          (nil-ness, Nick) read first and Me() (nil-ness, Nick); "D" tracker dump (rendering of
//          c12/c13); "H" HasCapability/SupportsCapability per universe name; "X" reason when the
//          client stalled or died.
//
// Why the per-marker grouping is deterministic although handlers run on goroutines: runLoop
// calls conn.dispatch(line) for one line at a time; dispatch first runs intHandlers.dispatch,
// which starts one goroutine per internal handler of THAT line and waits for all of them
// (wg.Wait) — every conn.Raw of an internal handler is a send on conn.out performed before
// its handler returns, and conn.out is drained in order by the single send goroutine.  So all
// output caused by line k is queued before line k+1 is dispatched, and the marker's PONG comes
// after it.  Only the relative order of lines queued by two internal handlers of the SAME line
// is scheduling-dependent; the only verb with two internal handlers is NICK while tracking
// (h_NICK, h_STNICK), and neither sends anything.  No user handlers are registered here.

import (
	"bufio"
	"bytes"
	"fmt"
	"net"
	"os"
	"os/exec"
	"runtime"
	"strings"
	"sync"
	"sync/atomic"
	"time"

	sasl "github.com/emersion/go-sasl"
	"github.com/fluffle/goirc/client"
	"github.com/fluffle/goirc/state"
)

func init() {
	// hidden sub-command: generate / replay transcripts only (development, mutant runs)
	props["C02t"] = &Prop{
		Gen:   func(r *Rand, tier string, scale int, emit func(Fields)) { c02tGen(r, tier, emit) },
		Exec:  c02tExec,
		Class: c02tClass,
	}
}

type c02tCase struct {
	mode                                           int
	nick, ident, name, pass, version, suser, spass string
	splitLen                                       int
	wanted, nicks, chans, caps, verbs              []string
	items                                          []string // "" = marker, else "L"+raw
}

func c02tCounted(in Fields, p int) ([]string, int, bool) {
	if p >= len(in) {
		return nil, p, false
	}
	n := in.I(p)
	p++
	if n < 0 || p+n > len(in) {
		return nil, p, false
	}
	var out []string
	for k := 0; k < n; k++ {
		out = append(out, in.S(p+k))
	}
	return out, p + n, true
}

func c02tDecode(in Fields) (*c02tCase, bool) {
	if len(in) < 14 || in.S(0) != "transcript" {
		return nil, false
	}
	c := &c02tCase{mode: in.I(1), nick: in.S(2), ident: in.S(3), name: in.S(4), pass: in.S(5),
		version: in.S(6), splitLen: in.I(7), suser: in.S(8), spass: in.S(9)}
	p := 10
	var ok bool
	if c.wanted, p, ok = c02tCounted(in, p); !ok {
		return nil, false
	}
	if c.nicks, p, ok = c02tCounted(in, p); !ok {
		return nil, false
	}
	if c.chans, p, ok = c02tCounted(in, p); !ok {
		return nil, false
	}
	if c.caps, p, ok = c02tCounted(in, p); !ok {
		return nil, false
	}
	if c.verbs, p, ok = c02tCounted(in, p); !ok {
		return nil, false
	}
	for p < len(in) {
		switch in.S(p) {
		case "M":
			c.items = append(c.items, "")
			p++
		case "L":
			if p+1 >= len(in) {
				return nil, false
			}
			c.items = append(c.items, "L"+in.S(p+1))
			p += 2
		default:
			return nil, false
		}
	}
	return c, true
}

func (c *c02tCase) fields() Fields {
	f := F("transcript", c.mode, c.nick, c.ident, c.name, c.pass, c.version, c.splitLen, c.suser, c.spass)
	f = append(f, F(len(c.wanted), c.wanted, len(c.nicks), c.nicks, len(c.chans), c.chans, len(c.caps), c.caps, len(c.verbs), c.verbs)...)
	for _, it := range c.items {
		if it == "" {
			f = append(f, []byte("M"))
		} else {
			f = append(f, []byte("L"), []byte(it[1:]))
		}
	}
	return f
}

// ---------- the dump (copies of c13Dump / c12Nick / c12Chan: rendering of coq/Model/TrackerObs.v) ----------
func c02tFlag(b bool, ch byte) string {
	if b {
		return string(ch)
	}
	return ""
}

func c02tPrivs(p *state.ChanPrivs) string {
	return c02tFlag(p.Owner, 'q') + c02tFlag(p.Admin, 'a') + c02tFlag(p.Op, 'o') + c02tFlag(p.HalfOp, 'h') + c02tFlag(p.Voice, 'v')
}

func c02tPairs(m map[string]*state.ChanPrivs) Fields {
	keys := make([]string, 0, len(m))
	for k := range m {
		keys = append(keys, k)
	}
	// insertion sort: bytewise order (sort.Strings)
	for i := 1; i < len(keys); i++ {
		for j := i; j > 0 && keys[j] < keys[j-1]; j-- {
			keys[j], keys[j-1] = keys[j-1], keys[j]
		}
	}
	f := F(len(m))
	for _, k := range keys {
		if m[k] == nil {
			f = append(f, F(k, "nilprivs")...)
		} else {
			f = append(f, F(k, c02tPrivs(m[k]))...)
		}
	}
	return f
}

func c02tNick(n *state.Nick) Fields {
	if n == nil {
		return F("nil")
	}
	modes := "nilmodes"
	if m := n.Modes; m != nil {
		modes = c02tFlag(m.Bot, 'B') + c02tFlag(m.Invisible, 'i') + c02tFlag(m.Oper, 'o') + c02tFlag(m.WallOps, 'w') + c02tFlag(m.HiddenHost, 'x') + c02tFlag(m.SSL, 'z')
	}
	return F("N", n.Nick, n.Ident, n.Host, n.Name, modes, c02tPairs(n.Channels))
}

func c02tChan(c *state.Channel) Fields {
	if c == nil {
		return F("nil")
	}
	if c.Modes == nil {
		return F("C", c.Name, c.Topic, "nilmodes", "", 0, c02tPairs(c.Nicks))
	}
	m := c.Modes
	flags := c02tFlag(m.Private, 'p') + c02tFlag(m.Secret, 's') + c02tFlag(m.ProtectedTopic, 't') + c02tFlag(m.NoExternalMsg, 'n') +
		c02tFlag(m.Moderated, 'm') + c02tFlag(m.InviteOnly, 'i') + c02tFlag(m.OperOnly, 'O') + c02tFlag(m.SSLOnly, 'z') +
		c02tFlag(m.Registered, 'r') + c02tFlag(m.AllSSL, 'Z')
	return F("C", c.Name, c.Topic, flags, m.Key, m.Limit, c02tPairs(c.Nicks))
}

func c02tDump(st state.Tracker, nicks, chans []string) Fields {
	f := c02tNick(st.Me())
	for _, n := range nicks {
		if nk := st.GetNick(n); nk != nil {
			f = append(f, c02tNick(nk)...)
		}
	}
	for _, ch := range chans {
		if x := st.GetChannel(ch); x != nil {
			f = append(f, c02tChan(x)...)
		}
	}
	f = append(f, []byte("I"))
	for _, ch := range chans {
		if st.GetChannel(ch) == nil {
			continue
		}
		for _, n := range nicks {
			if st.GetNick(n) == nil {
				continue
			}
			p, _ := st.IsOn(ch, n)
			if p == nil {
				f = append(f, []byte("nil"))
			} else {
				f = append(f, []byte("P"+c02tPrivs(p)))
			}
		}
	}
	return f
}

func c02tRec(tag string, fs Fields) Fields {
	return append(F(tag, len(fs)), fs...)
}

// ---------- running one transcript against the real client ----------
var c02tKeySeq int64

var (
	c02tCache   = map[string]Fields{}
	c02tCacheMu sync.Mutex
)

func c02tExec(in Fields) Fields {
	key := in.String()
	c02tCacheMu.Lock()
	if o, ok := c02tCache[key]; ok {
		delete(c02tCache, key)
		c02tCacheMu.Unlock()
		return o
	}
	c02tCacheMu.Unlock()
	return c02tRunSafe(in)
}

// A transcript holding a line of more than 300 bytes (the "long homogeneous payloads" that the
// built-in handlers re-send through splitMessage) runs in a CHILD PROCESS ("h C02t -inputs
// /dev/stdin"): a handler that never returns keeps spinning (and allocating) on its goroutine, which
// cannot be stopped from outside — in the child it dies with the process, after the marker's PONG has
// been missed for c02tPongWait ("X no-pong", a failing case with the whole transcript as replay).
var c02tPongWait = 8 * time.Second
var c02tCloseWait = 5 * time.Second

func c02tIsChild() bool { return os.Getenv("C02T_CHILD") != "" }

func init() {
	if c02tIsChild() {
		c02tPongWait, c02tCloseWait = 4*time.Second, 500*time.Millisecond
		go func() { // memory cap: see harness/c02.go, child side
			var m runtime.MemStats
			for {
				time.Sleep(100 * time.Millisecond)
				runtime.ReadMemStats(&m)
				if m.HeapAlloc > 768<<20 {
					fmt.Fprintf(os.Stderr, "memory-runaway heap=%dMB\n", m.HeapAlloc>>20)
					os.Exit(3)
				}
			}
		}()
	}
}

func c02tRisky(in Fields) bool {
	for _, f := range in {
		if len(f) > 300 {
			return true
		}
	}
	return false
}

func c02tRunSafe(in Fields) Fields {
	if c02tIsChild() || !c02tRisky(in) {
		return c02tRun(in)
	}
	exe, err := os.Executable()
	if err != nil {
		exe = os.Args[0]
	}
	cmd := exec.Command(exe, "C02t", "-inputs", "/dev/stdin")
	cmd.Env = append(os.Environ(), "C02T_CHILD=1")
	cmd.Stdin = strings.NewReader(in.String() + "\n")
	var out, errb bytes.Buffer
	cmd.Stdout = &out
	cmd.Stderr = &errb
	if err := cmd.Start(); err != nil {
		return c02tRec("X", F("cannot-start-child", err.Error()))
	}
	done := make(chan error, 1)
	go func() { done <- cmd.Wait() }()
	select {
	case err = <-done:
	case <-time.After(60 * time.Second):
		cmd.Process.Kill()
		<-done
		err = fmt.Errorf("child timed out")
	}
	line := strings.TrimSpace(out.String())
	if k := strings.Index(line, "|"); err == nil && k >= 0 && !strings.Contains(line, "\n") {
		if obs, perr := ParseFields(line[k+1:]); perr == nil {
			return obs
		}
	}
	first := strings.SplitN(strings.TrimSpace(errb.String()), "\n", 2)[0]
	return c02tRec("X", F("child-died", fmt.Sprint(err), first))
}

func c02tRun(in Fields) Fields {
	c, ok := c02tDecode(in)
	if !ok {
		return F("bad")
	}
	ms := NewMemServer(fmt.Sprintf("c02t-%d", atomic.AddInt64(&c02tKeySeq, 1)))
	defer func() {
		memMu.Lock()
		delete(memServers, ms.Key)
		memMu.Unlock()
	}()
	cfg := client.NewConfig(c.nick, c.ident, c.name)
	cfg.Server = "irc.example"
	cfg.Proxy = ms.URL()
	cfg.Flood = true
	cfg.PingFreq = 0
	cfg.Pass = c.pass
	cfg.Version = c.version
	cfg.SplitLen = c.splitLen
	cfg.EnableCapabilityNegotiation = c.mode&2 != 0
	cfg.Capabilites = append([]string{}, c.wanted...)
	if c.mode&4 != 0 {
		cfg.Sasl = sasl.NewPlainClient("", c.suser, c.spass)
	}
	conn := client.Client(cfg)
	if c.mode&1 != 0 {
		conn.EnableStateTracking()
	}
	bits := func(n int, f func(int) bool) string {
		b := make([]byte, n)
		for i := range b {
			b[i] = '0'
			if f(i) {
				b[i] = '1'
			}
		}
		return string(b)
	}
	observer := func(cc *client.Conn, line *client.Line) {
		me, cb, nb := "-", "-", "-"
		if st := cc.StateTracker(); st != nil {
			me = st.Me().Nick
			cb = bits(len(c.chans), func(i int) bool { return st.GetChannel(c.chans[i]) != nil })
			nb = bits(len(c.nicks), func(i int) bool { return st.GetNick(c.nicks[i]) != nil })
		}
		kb := bits(len(c.caps), func(i int) bool { return cc.HasCapability(c.caps[i]) })
		cc.Raw("OBS " + line.Cmd + " " + me + " " + cb + " " + nb + " " + kb)
	}
	for _, v := range c.verbs {
		conn.HandleFunc(v, observer)
	}
	errc := make(chan error, 1)
	go func() { errc <- conn.Connect() }()
	var srv net.Conn
	select {
	case srv = <-ms.Conns:
	case <-time.After(10 * time.Second):
		return c02tRec("X", F("no-connect"))
	}
	if err := <-errc; err != nil {
		return c02tRec("X", F("connect-error", err.Error()))
	}
	defer func() {
		srv.Close()
		done := make(chan struct{})
		go func() { conn.Close(); close(done) }()
		select {
		case <-done:
		case <-time.After(c02tCloseWait):
		}
	}()
	rd := bufio.NewReaderSize(srv, 1<<16)
	// send the batch followed by the marker; the client's lines before the marker's PONG
	step := func(k int, batch []string) ([]string, string) {
		var b strings.Builder
		for _, l := range batch {
			b.WriteString(l)
			b.WriteString("\r\n")
		}
		b.WriteString(fmt.Sprintf("PING :m%d\r\n", k))
		msg := b.String()
		go func() {
			srv.SetWriteDeadline(time.Now().Add(15 * time.Second))
			srv.Write([]byte(msg))
		}()
		want := fmt.Sprintf("PONG :m%d", k)
		var lines []string
		srv.SetReadDeadline(time.Now().Add(c02tPongWait))
		for {
			s, err := rd.ReadString('\n')
			if err != nil {
				return lines, "no-pong: " + err.Error()
			}
			if !strings.HasSuffix(s, "\r\n") {
				return lines, "bad-framing"
			}
			s = s[:len(s)-2]
			if s == want {
				return lines, ""
			}
			lines = append(lines, s)
		}
	}
	var obs Fields
	mark := 1
	lines, why := step(mark, nil)
	obs = append(obs, c02tRec("R", F(lines))...)
	if why != "" {
		return append(obs, c02tRec("X", F(why))...)
	}
	var batch []string
	for _, it := range c.items {
		if it != "" {
			batch = append(batch, it[1:])
			continue
		}
		mark++
		lines, why = step(mark, batch)
		batch = nil
		obs = append(obs, c02tRec("Q", F(lines))...)
		if why != "" {
			return append(obs, c02tRec("X", F(why))...)
		}
	}
	if !conn.Connected() {
		return append(obs, c02tRec("X", F("disconnected"))...)
	}
	var e Fields
	if cm := conn.Config().Me; cm == nil {
		e = append(e, F("nil", "")...)
	} else {
		e = append(e, F("ok", cm.Nick)...)
	}
	if me := conn.Me(); me == nil {
		e = append(e, F("nil", "")...)
	} else {
		e = append(e, F("ok", me.Nick)...)
	}
	obs = append(obs, c02tRec("E", e)...)
	var d Fields
	if st := conn.StateTracker(); st != nil {
		d = c02tDump(st, c.nicks, c.chans)
	}
	obs = append(obs, c02tRec("D", d)...)
	var h Fields
	for _, u := range c.caps {
		h = append(h, F(conn.HasCapability(u), conn.SupportsCapability(u))...)
	}
	obs = append(obs, c02tRec("H", h)...)
	return obs
}

func c02tClass(in Fields) string {
	m := in.I(1)
	c, ok := c02tDecode(in)
	n := 0
	if ok {
		n = len(c.items)
	}
	size := "items<60"
	if n >= 200 {
		size = "items>=200"
	} else if n >= 120 {
		size = "items<200"
	} else if n >= 60 {
		size = "items<120"
	}
	return fmt.Sprintf("transcript:tracking=%d:negotiation=%d:sasl=%d:%s", m&1, (m>>1)&1, (m>>2)&1, size)
}

// ---------- generator: a light model of the network so that conformant lines reach deep branches ----------
type c02tUser struct{ user, host string }

type c02tGener struct {
	r       *Rand
	c       *c02tCase
	me      string
	users   map[string]c02tUser
	joined  map[string]bool
	members map[string]map[string]bool
}

var c02tNickPool = []string{"al", "bo", "cy", "di", "al_", "Zed"}
var c02tChanPool = []string{"#x", "#y", "#go"}
var c02tCapPool = []string{"sasl", "multi-prefix", "away-notify", "x", "account-tag"}

func (g *c02tGener) line(s string) {
	b := []byte(s)
	for i := range b {
		b[i] &= 0x7f // the executable model instance is ASCII (see checks/C02.json)
		if b[i] == '\n' {
			b[i] = '\r' // the server end frames with CR LF itself; a LF inside would be two lines
		}
	}
	s = string(b)
	g.c.items = append(g.c.items, "L"+s)
}
// raw: a line kept byte for byte (only LF is replaced): used for payloads that sit in the TRAILING
// parameter, where no Unicode-aware stdlib function looks at them (Fields sees the part before " :",
// ToUpper the verb and the CTCP verb), so the ASCII model instance is exact for every byte value
func (g *c02tGener) raw(s string) {
	g.c.items = append(g.c.items, "L"+strings.ReplaceAll(s, "\n", "\r"))
}

// a long homogeneous payload through a handler that re-sends it (c02.go: c02EchoLine), sized around
// THIS session's effective split length (the 433 form, payload among the middles, is space-free ASCII)
func (g *c02tGener) echo() {
	eff := g.c.splitLen
	if eff < 13 {
		eff = 450
	}
	g.raw(c02EchoLine(g.r, g.me, eff, true))
	if g.r.Chance(70) {
		g.mark()
	}
}
func (g *c02tGener) idx() int    { return len(g.c.items) }
func (g *c02tGener) tok() string { return fmt.Sprintf("tk%d", g.idx()) }
func (g *c02tGener) mark()       { g.c.items = append(g.c.items, "") }

func (g *c02tGener) src(n string) string {
	if n == g.me {
		return n + "!" + g.c.ident + "@client.example"
	}
	if u, ok := g.users[n]; ok {
		return n + "!" + u.user + "@" + u.host
	}
	return n + "!u@h"
}
func (g *c02tGener) anyNick() string {
	if g.r.Chance(25) {
		return g.me
	}
	return g.r.Pick(c02tNickPool)
}
func (g *c02tGener) anyChan() string { return g.r.Pick(c02tChanPool) }
func (g *c02tGener) myChan() string {
	var cs []string
	for _, c := range c02tChanPool {
		if g.joined[c] {
			cs = append(cs, c)
		}
	}
	if len(cs) == 0 || g.r.Chance(15) {
		return g.anyChan()
	}
	return g.r.Pick(cs)
}
func (g *c02tGener) memberOf(c string) string {
	var ns []string
	for _, n := range append([]string{g.me}, c02tNickPool...) {
		if g.members[c][n] {
			ns = append(ns, n)
		}
	}
	if len(ns) == 0 || g.r.Chance(15) {
		return g.anyNick()
	}
	return g.r.Pick(ns)
}
func (g *c02tGener) add(c, n string) {
	if g.members[c] == nil {
		g.members[c] = map[string]bool{}
	}
	g.members[c][n] = true
	if n == g.me {
		g.joined[c] = true
	}
}
func (g *c02tGener) del(c, n string) {
	if n == g.me {
		delete(g.joined, c)
		delete(g.members, c)
		return
	}
	delete(g.members[c], n)
}
func (g *c02tGener) rename(o, n string) {
	for _, m := range g.members {
		if m[o] {
			delete(m, o)
			m[n] = true
		}
	}
	if u, ok := g.users[o]; ok {
		delete(g.users, o)
		g.users[n] = u
	}
	if o == g.me {
		g.me = n
	}
}

const c02tSrv = "irc.example"

func (g *c02tGener) conformant() {
	r := g.r
	switch k := r.Intn(100); {
	case k < 14: // server PING, assorted tokens; the tagged ones are C02's in-order probes
		t := g.tok()
		switch r.Intn(10) {
		case 0, 1, 2, 3, 4:
			g.line("PING :" + t)
		case 5:
			g.line(":" + c02tSrv + " PING :" + t)
		case 6:
			g.line("PING " + t)
		case 7:
			g.line("PING :" + r.Pick([]string{"a b c", "", " ", ":x", "irc.example", strings.Repeat("p", 300), "LAG1234567"}))
		case 8:
			g.line("PING " + t + " :second")
		default:
			g.line("ping :" + t)
		}
	case k < 26: // CTCP requests
		from := g.src(r.Pick(c02tNickPool))
		to := g.me
		if r.Chance(30) {
			to = g.myChan()
		}
		verb := "PRIVMSG"
		if r.Chance(10) {
			verb = "NOTICE"
		}
		body := ""
		switch r.Intn(9) {
		case 0, 1:
			body = "VERSION"
		case 2, 3, 4:
			body = "PING " + g.tok()
		case 5:
			body = r.Pick([]string{"PING", "ping " + g.tok(), "version", "VERSION extra words", "PING " + g.tok() + " more", "PING  " + g.tok()})
		case 6:
			body = "ACTION " + r.Pick([]string{"waves", "", "does a thing"})
		default:
			body = r.Pick([]string{"TIME", "FINGER", "CLIENTINFO x", "DCC SEND f 1 2 3"})
		}
		src := ":" + from + " "
		if r.Chance(5) {
			src = ""
		}
		g.line(src + verb + " " + to + " :\x01" + body + "\x01")
	case k < 29:
		n := g.me
		if r.Chance(25) {
			n = g.anyNick()
		}
		g.line(fmt.Sprintf(":%s 001 %s :Welcome to the net %s!%s@client.example", c02tSrv, n, n, g.c.ident))
		g.rename(g.me, n)
	case k < 33:
		refused := g.me
		if r.Chance(40) {
			refused = g.anyNick()
		}
		g.line(fmt.Sprintf(":%s 433 %s %s :Nickname is already in use", c02tSrv, r.Pick([]string{"*", g.me}), refused))
		if refused == g.me {
			g.rename(g.me, client.DefaultNewNick(g.me))
		}
	case k < 39:
		o := g.anyNick()
		n := r.Pick(append([]string{"vb2", "al2", g.me}, c02tNickPool...))
		g.line(":" + g.src(o) + " NICK " + r.Pick([]string{"", ":"}) + n)
		g.rename(o, n)
	case k < 51:
		c := g.anyChan()
		n := g.anyNick()
		if !g.joined[c] && r.Chance(70) {
			n = g.me
		}
		g.line(":" + g.src(n) + " JOIN " + r.Pick([]string{"", ":"}) + c)
		if n == g.me || g.joined[c] {
			g.add(c, n)
		}
		if n == g.me && r.Chance(60) {
			g.line(fmt.Sprintf(":%s 353 %s = %s :%s", c02tSrv, g.me, c, g.names(c)))
			g.line(fmt.Sprintf(":%s 366 %s %s :End of /NAMES list.", c02tSrv, g.me, c))
		}
	case k < 55:
		c := g.myChan()
		n := g.memberOf(c)
		g.line(":" + g.src(n) + " PART " + c + r.Pick([]string{"", " :bye", " :"}))
		g.del(c, n)
	case k < 59:
		c := g.myChan()
		v := g.memberOf(c)
		g.line(":" + g.src(g.memberOf(c)) + " KICK " + c + " " + v + r.Pick([]string{"", " :out", " :"}))
		g.del(c, v)
	case k < 62:
		n := r.Pick(c02tNickPool)
		g.line(":" + g.src(n) + " QUIT :" + r.Pick([]string{"", "gone", "Ping timeout"}))
		for c := range g.members {
			delete(g.members[c], n)
		}
	case k < 70:
		c := g.myChan()
		if r.Chance(20) {
			g.line(":" + g.src(g.me) + " MODE " + g.me + " " + r.Pick([]string{"+i", "+iwx", "-i", "+Bz", "+o"}))
		} else {
			m := r.Pick([]string{"+o", "-o", "+v", "+ov", "+k", "-k", "+l", "+nt", "+b", "+ob", "+imnpst", "-l+k", "+qah", "+e-v"})
			args := ""
			for i := strings.Count(m, "o") + strings.Count(m, "v") + strings.Count(m, "k") + strings.Count(m, "l") + strings.Count(m, "b") + strings.Count(m, "q") + strings.Count(m, "a") + strings.Count(m, "h") + strings.Count(m, "e"); i > 0; i-- {
				args += " " + r.Pick([]string{g.memberOf(c), "key", "25", "*!*@*", g.me})
			}
			g.line(":" + g.src(g.memberOf(c)) + " MODE " + c + " " + m + args)
		}
	case k < 73:
		c := g.myChan()
		g.line(":" + g.src(g.memberOf(c)) + " TOPIC " + c + " :" + r.Pick([]string{"", "hi there", ":odd :topic", "a  b "}))
	case k < 77:
		c := g.myChan()
		g.line(fmt.Sprintf(":%s 353 %s %s %s :%s", c02tSrv, g.me, r.Pick([]string{"=", "@", "*"}), c, g.names(c)))
	case k < 81:
		c := g.myChan()
		n := g.memberOf(c)
		u := g.users[n]
		g.line(fmt.Sprintf(":%s 352 %s %s %s %s %s %s %s :%s", c02tSrv, g.me, c, r.Pick([]string{u.user, "u"}), r.Pick([]string{u.host, "h"}), c02tSrv, n,
			r.Pick([]string{"H", "G", "H*", "H@", "G*+", "HB", "H*B@"}), r.Pick([]string{"0 Real Name", "0", "3 x", "0 "})))
	case k < 83:
		c := g.myChan()
		g.line(fmt.Sprintf(":%s 324 %s %s %s", c02tSrv, g.me, c, r.Pick([]string{"+nt", "+ntk key", "+ntl 25", "+klnt key 9", "+", "+sp"})))
	case k < 85:
		c := g.myChan()
		g.line(fmt.Sprintf(":%s 332 %s %s :%s", c02tSrv, g.me, c, r.Pick([]string{"a topic", "", ":x"})))
	case k < 87:
		n := g.anyNick()
		g.line(fmt.Sprintf(":%s 311 %s %s %s %s * :%s", c02tSrv, g.me, n, "uu", "hh.example", r.Pick([]string{"Real", "", "A B"})))
	case k < 88:
		g.line(fmt.Sprintf(":%s 671 %s %s :is using a secure connection", c02tSrv, g.me, g.anyNick()))
	case k < 94: // capability negotiation
		sub := r.Pick([]string{"LS", "LS", "ACK", "ACK", "NAK", "LIST", "NEW", "ls"})
		var toks []string
		for i := r.Intn(4); i >= 0; i-- {
			t := r.Pick(c02tCapPool)
			if r.Chance(10) {
				t = "-" + t
			}
			if r.Chance(12) {
				t = c02HostileCapTok(r)
			}
			toks = append(toks, t)
		}
		star := ""
		if sub == "LS" && r.Chance(15) {
			star = "* "
		}
		g.line(fmt.Sprintf(":%s CAP %s %s %s:%s", c02tSrv, r.Pick([]string{"*", g.me}), sub, star, strings.Join(toks, " ")))
	case k < 96:
		g.line("AUTHENTICATE " + r.Pick([]string{"+", "+", "AGFiYw==", "****", "="}))
	case k < 98:
		switch r.Intn(3) {
		case 0:
			g.line(fmt.Sprintf(":%s 903 %s :SASL authentication successful", c02tSrv, g.me))
		case 1:
			g.line(fmt.Sprintf(":%s 904 %s :SASL authentication failed", c02tSrv, g.me))
		default:
			g.line(fmt.Sprintf(":%s 908 %s PLAIN,EXTERNAL :are available SASL mechanisms", c02tSrv, g.me))
		}
	default: // verbs no internal handler listens to — and three the dispatcher DOES know
		g.line(r.Pick([]string{
			":" + c02tSrv + " 005 " + g.me + " CHANTYPES=# PREFIX=(ov)@+ :are supported by this server",
			":" + c02tSrv + " 372 " + g.me + " :- motd",
			":" + c02tSrv + " NOTICE " + g.me + " :*** Looking up your hostname",
			":" + g.src("al") + " PRIVMSG " + g.me + " :hello there",
			":" + g.src("al") + " INVITE " + g.me + " #x",
			"ERROR :Closing link",
			":" + c02tSrv + " 410 " + g.me + " FOO :Invalid CAP command",
			"REGISTER", "CONNECTED", "DISCONNECTED", ":x REGISTER a b",
			"CTCP VERSION", "CTCP PING a " + g.tok(), "CTCPREPLY VERSION x", "ACTION", ":al!a@h CTCP VERSION " + g.me,
			":" + c02tSrv + " PONG " + c02tSrv + " :" + "x",
		}))
	}
}

func (g *c02tGener) names(c string) string {
	var out []string
	for _, n := range append([]string{g.me}, c02tNickPool...) {
		if g.members[c][n] || g.r.Chance(15) {
			out = append(out, g.r.Pick([]string{"", "", "@", "+", "~", "&", "%", "@+"})+n)
		}
	}
	if g.r.Chance(20) {
		out = append(out, "")
	}
	return strings.Join(out, " ")
}

// hostile CAP payload tokens: odd first bytes, IRCv3.2 "=value" shapes, empty token, very long
var c02CapToks = []string{"=x", "=", "-", "--a", "a=b", "a=", "-a=b", "=PLAIN", "-=", "sasl=PLAIN,EXTERNAL", "", "~a", ":", "=sasl"}

func c02HostileCapTok(r *Rand) string {
	if r.Chance(8) {
		return strings.Repeat(r.Pick([]string{"x", "=", "-", "a="}), r.Range(100, 600))
	}
	return r.Pick(c02CapToks)
}

// a CAP LS / ACK / NAK line whose payload holds at least one hostile token
func c02HostileCapLine(r *Rand, me string) string {
	var toks []string
	for i := r.Range(1, 4); i > 0; i-- {
		if r.Chance(70) {
			toks = append(toks, c02HostileCapTok(r))
		} else {
			toks = append(toks, r.Pick(c02tCapPool))
		}
	}
	sub := r.Pick([]string{"LS", "LS", "ACK", "ACK", "NAK"})
	star := ""
	if sub == "LS" && r.Chance(15) {
		star = "* "
	}
	colon := ":"
	if len(toks) == 1 && r.Chance(20) {
		colon = ""
	}
	return fmt.Sprintf(":%s CAP %s %s %s%s%s", c02tSrv, r.Pick([]string{"*", me}), sub, star, colon, strings.Join(toks, " "))
}

// well-formed lines of the verbs that have a visible reply, placed AFTER hostile ones: the oracle
// (coq/Model/ClientObs.v) requires each to be handled in its marker interval
func (g *c02tGener) probes() {
	r := g.r
	g.line("PING :" + g.tok())
	g.line(fmt.Sprintf(":pr%d!u@h PRIVMSG %s :\x01VERSION\x01", g.idx(), g.me))
	g.line(fmt.Sprintf(":%s 433 * q%dx :Nickname is already in use", c02tSrv, g.idx()))
	g.line(":probe.example CAP * LS :" + r.Pick([]string{"a b", "a", "zz multi-prefix"}))
	g.line(":probe.example CAP * ACK :" + r.Pick([]string{"a", "a b"}))
	if r.Bool() {
		g.line(":probe.example CAP * LS :a b")
		g.line(":probe.example CAP * ACK :a")
	}
	g.mark()
}

func (g *c02tGener) hostile() {
	if g.r.Chance(12) {
		g.line(c02HostileCapLine(g.r, g.me))
		return
	}
	var s string
	switch g.r.Intn(10) {
	case 0:
		s = string(g.r.Bytes(g.r.Range(0, 12), c02Alphabet))
	case 1:
		s = string(g.r.Bytes(g.r.Range(0, 30), nil))
	case 2, 3:
		s = c02CtcpLine(g.r)
	default:
		s = c02Line(g.r, g.r.Pick(append([]string{"REGISTER"}, c02Verbs...)))
	}
	if strings.Contains(s, "tk") || strings.Contains(strings.ToUpper(s), "PING :M") || strings.Contains(strings.ToUpper(s), "PING M") {
		s = "x"
	}
	g.line(s)
}

func c02tSession(r *Rand, i int) Fields {
	mode := i % 8
	c := &c02tCase{mode: mode, nick: "vbot", ident: "vident", name: "v name", splitLen: 450,
		version: "Powered by GoIRC", suser: "jilles", spass: "sesame"}
	if r.Chance(15) {
		c.nick = r.Pick([]string{"vb2", "al", "v"})
	}
	if r.Chance(30) {
		c.pass = r.Pick([]string{"pw", "p w :x"})
	}
	if r.Chance(40) {
		c.version = r.Pick([]string{"", "v1", "line1\nline2", strings.Repeat("long version. ", 40), "a  b"})
	}
	if r.Chance(40) {
		c.splitLen = []int{0, 5, 13, 20, 60}[r.Intn(5)]
	}
	for _, w := range c02tCapPool {
		if r.Chance(40) {
			c.wanted = append(c.wanted, w)
		}
	}
	c.nicks = append([]string{c.nick, client.DefaultNewNick(c.nick), "vb2", "al2"}, c02tNickPool...)
	c.chans = append([]string{}, c02tChanPool...)
	c.caps = append([]string{}, c02tCapPool...)
	c.verbs = append([]string{"REGISTER", "ACTION", "CTCPREPLY", "005", "PONG", "INVITE"}, c02Verbs...)
	if r.Chance(20) {
		c.verbs = nil // no user handler at all
	}
	g := &c02tGener{r: r, c: c, me: c.nick, users: map[string]c02tUser{}, joined: map[string]bool{}, members: map[string]map[string]bool{}}
	for k, n := range c02tNickPool {
		g.users[n] = c02tUser{fmt.Sprintf("u%d", k), fmt.Sprintf("h%d.example", k)}
	}
	nlines := r.Range(30, 150)
	hostilePct := []int{0, 20, 40, 70}[r.Intn(4)]
	for n := 0; n < nlines; n++ {
		if r.Chance(hostilePct) {
			g.hostile()
		} else {
			g.conformant()
		}
		if r.Chance(60) {
			g.mark()
		}
		if r.Chance(3) {
			g.probes()
		}
		if r.Chance(2) {
			g.echo()
		}
	}
	if r.Chance(50) {
		g.echo()
	}
	// every session: at least one hostile CAP LS and ACK line, then (after everything else) the probes
	if r.Chance(70) {
		g.line(":" + c02tSrv + " CAP * " + r.Pick([]string{"LS", "ACK"}) + " :" + r.Pick([]string{"=PLAIN", "=x", "a =", "= b", "-= sasl"}))
	}
	g.line(c02HostileCapLine(r, g.me))
	if r.Bool() {
		g.mark()
	}
	g.probes()
	return c.fields()
}

func c02tGen(r *Rand, tier string, emit func(Fields)) {
	n := 150
	if tier == "thorough" {
		n = 1500
	}
	var ins []Fields
	for i := 0; i < n; i++ {
		ins = append(ins, c02tSession(r.Fork(), i))
	}
	workers := runtime.NumCPU()
	if workers > 12 {
		workers = 12
	}
	jobs := make(chan Fields, 64)
	var wg sync.WaitGroup
	for w := 0; w < workers; w++ {
		wg.Add(1)
		go func() {
			defer wg.Done()
			for in := range jobs {
				o := c02tRunSafe(in)
				c02tCacheMu.Lock()
				c02tCache[in.String()] = o
				c02tCacheMu.Unlock()
			}
		}()
	}
	for _, in := range ins {
		jobs <- in
	}
	close(jobs)
	wg.Wait()
	for _, in := range ins {
		emit(in)
	}
}
