package main

// C06: lifecycle events fire exactly once and agree with Connected().
// Cases are fault scripts (lifecycle_common.go): every singleton ender and every pairwise
// coincidence, at two moments (before / after 001), with an idle or a running handler,
// under the four configuration switches, with refused Connects injected; observation = the
// event history, judged by the extracted C06_ok.

func init() {
	props["C06"] = &Prop{Gen: c06Gen, Exec: lcExec, Class: lcClass}
}

type c06Ender struct {
	closeN                    int
	eof, rderr, wrerr, cancel bool
}

var c06Singles = []c06Ender{{closeN: 1}, {closeN: 2}, {closeN: 8}, {eof: true}, {rderr: true}, {wrerr: true}, {cancel: true}}

func c06Pairs() []c06Ender {
	base := []c06Ender{{closeN: 1}, {eof: true}, {rderr: true}, {wrerr: true}, {cancel: true}}
	var out []c06Ender
	for i := range base {
		for j := i + 1; j < len(base); j++ {
			a, b := base[i], base[j]
			out = append(out, c06Ender{closeN: a.closeN + b.closeN, eof: a.eof || b.eof, rderr: a.rderr || b.rderr,
				wrerr: a.wrerr || b.wrerr, cancel: a.cancel || b.cancel})
		}
	}
	out = append(out, c06Ender{closeN: 3, eof: true}, c06Ender{closeN: 8, cancel: true}, c06Ender{closeN: 4, rderr: true})
	return out
}

func c06Cycle(e c06Ender, r *Rand) lcCycle {
	return lcCycle{closeN: e.closeN, eof: e.eof, rderr: e.rderr, wrerr: e.wrerr, cancel: e.cancel, segs: 1,
		origin: 1, welcome: r.Bool()}
}

// lcFix makes a script self-consistent (see lifecycle_common.go for why)
func lcFix(sc *lcScript) {
	if sc.flood {
		// with flood control on every line costs ~2 s once the burst is used up: no client pings
		// and no marker round trips beyond the necessary, or the 10 s budget is the rate limiter's
		sc.pingMs = 0
	}
	for i := range sc.cycles {
		c := &sc.cycles[i]
		// a share of the scripted servers behave like real ones: "ERROR :Closing Link" before
		// they hang up; some send an ERROR line mid-session and carry on (derived from the script,
		// not from the clock)
		h := c.closeN*7 + c.inN*3 + c.outN*5 + c.refA + 2*c.refN + 4*c.refD + c.hs + i
		if c.eof && h%2 == 0 {
			c.errLine |= 1
		}
		if h%4 == 1 && !sc.flood {
			c.errLine |= 2
		}
		if c.cancel {
			sc.ctx = true
		}
		others := c.eof || c.rderr || c.wrerr || c.cancel
		if c.origin == 0 && c.closeN >= 1 && others {
			c.origin = 1 // a straggling Close would legitimately hit the next connection
		}
		if c.closeN == 0 && !others {
			c.closeN = 1
		}
		if c.hs == 2 && (c.outN == 0 || c.outBy != 1) {
			c.outBy = 1
			if c.outN == 0 {
				c.outN = 40
			}
		}
		if c.hs != 2 && c.outBy == 1 {
			c.outBy = 2
		}
		if c.outN > 0 && c.outBy == 0 {
			c.outBy = 2
		}
		if c.hs != 1 {
			c.hlock, c.relFirst = false, false
		}
		if c.hs != 0 {
			c.welcome = true
		}
		if c.rderr && c.hs == 2 && c.inN >= 30 {
			// recv is blocked on the full in queue behind the blocked handler and never reads
			// again: a read error cannot OCCUR there; use the write side instead
			c.rderr, c.wrerr = false, true
		}
	}
}

func c06Gen(r *Rand, tier string, scale int, emit func(Fields)) {
	if scale == 0 {
		scale = 150
	}
	var scripts []lcScript
	cfgOf := func(n int) lcScript {
		sc := lcScript{tracking: n&1 == 1, ctx: n&2 == 2}
		if n&4 == 4 {
			sc.pingMs = 2
		}
		return sc
	}
	n := 0
	add := func(sc lcScript) {
		lcFix(&sc)
		scripts = append(scripts, sc)
		n++
	}
	// 1. every singleton, both moments, idle / running handler, rotating configurations
	for _, e := range c06Singles {
		for w := 0; w < 2; w++ {
			for hs := 0; hs < 2; hs++ {
				sc := cfgOf(n)
				c := c06Cycle(e, r)
				c.welcome, c.hs = w == 1, hs
				c.relFirst = hs == 1 && r.Bool()
				c.hlock = hs == 1 && !c.relFirst && r.Bool()
				c.refA, c.refN, c.refD = r.Intn(2), r.Intn(2), r.Intn(2)
				sc.cycles = []lcCycle{c}
				add(sc)
			}
		}
	}
	// 1b. every singleton while the foreground handler is blocked in a send (the server is not
	//     reading, the out queue is full): nobody but the ender itself can notice
	for _, e := range c06Singles {
		sc := cfgOf(n)
		c := c06Cycle(e, r)
		c.hs, c.outN, c.outBy = 2, 40, 1
		sc.cycles = []lcCycle{c}
		add(sc)
	}
	// 2. every pairwise coincidence
	for _, e := range c06Pairs() {
		for hs := 0; hs < 2; hs++ {
			sc := cfgOf(n)
			c := c06Cycle(e, r)
			c.hs = hs
			c.refA = r.Intn(2)
			sc.cycles = []lcCycle{c}
			add(sc)
		}
	}
	// 3. two and three cycles: reconnect from the handler / from a woken goroutine, refused
	//    Connects at random points, flood control on for a few short ones
	for n < scale {
		sc := cfgOf(r.Intn(8))
		ncy := r.Range(1, 3)
		for i := 0; i < ncy; i++ {
			var e c06Ender
			switch r.Intn(3) {
			case 0:
				e = c06Singles[r.Intn(len(c06Singles))]
			case 1:
				ps := c06Pairs()
				e = ps[r.Intn(len(ps))]
			default: // random triple
				e = c06Ender{closeN: r.Intn(3), eof: r.Bool(), rderr: r.Bool(), wrerr: r.Bool(), cancel: r.Bool()}
			}
			c := c06Cycle(e, r)
			c.origin = r.Intn(2)
			c.hs = r.Intn(2)
			c.refA, c.refN, c.refD = r.Intn(3), r.Intn(2), r.Intn(2)
			if r.Chance(30) {
				c.inN = r.Pick2([]int{1, 5, 33, 70})
			}
			sc.cycles = append(sc.cycles, c)
		}
		if ncy == 1 && r.Chance(10) {
			sc.flood = true
			sc.cycles[0].refA, sc.cycles[0].refN = 0, 0
		}
		add(sc)
	}
	if tier == "thorough" {
		// larger random product
		for i := 0; i < scale; i++ {
			sc := cfgOf(r.Intn(8))
			ncy := r.Range(1, 5)
			for j := 0; j < ncy; j++ {
				e := c06Ender{closeN: r.Intn(9), eof: r.Chance(30), rderr: r.Chance(20), wrerr: r.Chance(20), cancel: r.Chance(30)}
				c := c06Cycle(e, r)
				c.origin, c.hs = r.Intn(2), r.Intn(3)
				c.inN = r.Pick2([]int{0, 0, 1, 33, 66, 100})
				c.outN = r.Pick2([]int{0, 0, 1, 33, 65})
				c.refA, c.refN, c.refD = r.Intn(3), r.Intn(2), r.Intn(2)
				sc.cycles = append(sc.cycles, c)
			}
			add(sc)
		}
	}
	var ins []Fields
	// a connect deadline that expires during a dial that then SUCCEEDS (plain proxy.Dialer)
	for i := 0; i < 3; i++ {
		d := r.Range(20, 60)
		ins = append(ins, F("lcslow", d, d+r.Range(40, 120)))
	}
	for _, sc := range scripts[:len(scripts)-3] {
		ins = append(ins, sc.fields())
	}
	lcPrefetch(ins, 12)
	for _, in := range ins {
		emit(in)
	}
}

func (r *Rand) Pick2(xs []int) int { return xs[r.Intn(len(xs))] }
