package main

import (
	"bytes"
	"fmt"
	"net"
	"strings"
	"sync"
	"sync/atomic"
	"time"

	"github.com/fluffle/goirc/client"
)

// C10: flood protection.
//   kind "rule":  one call of rateLimit (via the verif export) from a chosen state, bracketed
//                 by the harness's own clock readings; judged under interval arithmetic.
//   kind "burst": a fresh client connected to the in-memory server sends a burst of lines;
//                 the server end timestamps every line it receives (registration included).
//   kind "hold":  a connected client (Flood=false) whose flood counters are set so that a line is
//                 held; the effect of two WHOLE write() calls on counters and wire is observed.
//   kind "fresh": a brand-new client whose counters are NEVER touched (Flood=false): registration,
//                 then 3-4 lines of varied content at once; arrival stamps since creation.
// Every choice comes from the one PRNG; clock readings are measurements, not choices.

var c10conn *client.Conn

func init() {
	props["C10"] = &Prop{
		Setup: func() {
			cfg := client.NewConfig("vbot", "vident", "v name")
			c10conn = client.Client(cfg) // never connected
		},
		Gen:   c10Gen,
		Exec:  c10Exec,
		Class: c10Class,
	}
}

const (
	c10Sec       = int64(1000000000)
	c10Threshold = 10 * c10Sec
	c10MaxBad    = 14 * c10Sec
	c10MaxGap    = 600 * c10Sec
	c10Dense     = 200 * int64(1000000) // 200 ms
)

func c10Linetime(chars int64) int64 { return 2*c10Sec + chars*c10Sec/120 }

// uniform in [0, n)
func c10U(r *Rand, n int64) int64 {
	if n <= 0 {
		return 0
	}
	return int64(r.U64() % uint64(n))
}

// log-uniform in [0, max]: a random bit width, then uniform below it
func c10Log(r *Rand, max int64) int64 {
	w := r.Intn(41) // up to 2^40 ns ~ 18 min
	v := c10U(r, int64(1)<<uint(w))
	if v > max {
		v = c10U(r, max+1)
	}
	return v
}

// signed offset within +-200 ms, dense near 0 (the scale of scheduling noise)
func c10Delta(r *Rand) int64 {
	var m int64
	switch r.Intn(8) {
	case 0:
		m = c10U(r, 2001) // 0..2 us
	case 1, 2:
		// gap short of the boundary by about the call's own latency (some 60..100 ns here):
		// the elapsed time rateLimit sees then lands the penalty exactly ON the boundary value
		// in a few cases per run, which is what tells "> 10 s" from ">= 10 s"
		if r.Bool() {
			return -(48 + c10U(r, 64))
		}
		return -c10U(r, 256)
	case 3:
		m = c10U(r, c10Dense+1)
	default:
		m = c10Log(r, c10Dense)
	}
	if r.Bool() {
		return -m
	}
	return m
}

func c10Chars(r *Rand) int64 {
	switch r.Intn(6) {
	case 0:
		return 0
	case 1:
		return 510
	case 2:
		return int64(r.Range(0, 20))
	case 3:
		return int64(120 * r.Range(0, 4)) // exact multiples of 120: no truncation
	default:
		return int64(r.Range(0, 510))
	}
}

func c10RuleCase(r *Rand) Fields {
	chars := c10Chars(r)
	lt := c10Linetime(chars)
	var bad, gap int64
	switch r.Intn(8) {
	case 0: // idle client: no penalty, any gap
		bad, gap = 0, c10Log(r, c10MaxGap)
	case 1: // back-to-back: any penalty, (almost) no gap
		bad, gap = c10U(r, c10MaxBad+1), c10U(r, 3000)
	case 2: // anything
		bad, gap = c10U(r, c10MaxBad+1), c10Log(r, c10MaxGap)
	case 3: // around the floor: bad + lt - gap close to 0, from both sides
		bad = c10U(r, c10MaxBad+1)
		gap = bad + lt + c10Delta(r)
	default: // around the threshold: bad + lt - gap close to 10 s, from both sides
		bad = c10Threshold - lt + c10U(r, c10MaxBad-(c10Threshold-lt)+1)
		gap = bad + lt - c10Threshold + c10Delta(r)
	}
	if gap < 0 {
		gap = 0
	}
	if gap > c10MaxGap {
		gap = c10MaxGap
	}
	return F("rule", chars, bad, gap)
}

func c10BurstCase(r *Rand, flood bool, quick bool) Fields {
	m := r.Range(6, 12)
	if quick && !flood {
		m = 2 // NICK + USER + 2 short lines stay below 10 s of penalty: no real sleeping
	}
	style := r.Intn(4)
	var xs []interface{}
	xs = append(xs, "burst", flood)
	var total int64
	for k := 0; k < m; k++ {
		var l int
		switch style {
		case 0:
			l = r.Range(0, 30)
		case 1:
			l = r.Range(400, 510)
		case 2:
			l = 510
		default:
			l = int(c10Chars(r))
		}
		if quick && !flood {
			l = r.Range(0, 20)
		}
		total += c10Linetime(int64(l))
		// keep one burst below about a minute of real time (6 lines of 510 always fit)
		if !flood && k >= 6 && total > 62*c10Sec {
			break
		}
		pause := 0
		if !quick && r.Chance(30) {
			pause = r.Range(0, 3000) // ms of idle time before this line
		}
		xs = append(xs, l, pause)
	}
	return F(xs...)
}

// line content must never matter to flood protection: every submitted line of the hold and
// fresh kinds takes its shape from a PRNG-shuffled cycle over these kinds, so that each kind
// occurs among any 5 consecutive lines
var c10Kinds = []string{"PONG :", "PING :", "PRIVMSG #chan :", "PASS", ""}

type c10Cycle struct {
	perm []int
	k    int
}

func c10NewCycle(r *Rand) *c10Cycle {
	p := []int{0, 1, 2, 3, 4}
	for i := len(p) - 1; i > 0; i-- {
		j := r.Intn(i + 1)
		p[i], p[j] = p[j], p[i]
	}
	return &c10Cycle{perm: p}
}

// a line of about n bytes (at least the kind's prefix plus one byte) of the next kind
func (cy *c10Cycle) line(r *Rand, n int) string {
	pre := c10Kinds[cy.perm[cy.k%len(cy.perm)]]
	cy.k++
	if n <= len(pre) {
		n = len(pre) + 1
	}
	if r.Chance(50) {
		// multi-byte UTF-8 text: the charge is per BYTE on the wire, not per character
		runes := []string{"\u00e9", "\u20ac", "\U0001F600", "\u0416", "x"}
		b := pre
		for len(b) < n {
			b += runes[r.Intn(len(runes))]
		}
		return b
	}
	return pre + string(r.Bytes(n-len(pre), []byte("abcdefghijklmnopqrstuvwxyz0123456789 ")))
}

// reconnect case: kind "burst" with flag "r<K>": Flood off; lines 0..K-1 are submitted on the
// first connection and all arrive (none is held: the accumulated charge stays below 10 s), then
// the client is closed and connected again at once; entries K and K+1 of the length list stand
// for the NICK and USER the client itself sends on the second connection, the rest is
// submitted there.  The penalty belongs to the client, not to the connection: the lines of the
// second connection are held exactly as if the first had never ended (window oracle over the
// whole wire history).
// close case: kind "burst" with flag "c": Flood off, twelve lines submitted at once (all but
// the first few are held back by flood protection), and 300 ms later the application calls
// Close().  Whatever reached the wire obeys the window bound; the rest is dropped.
func c10CloseCase(r *Rand) Fields {
	xs := []interface{}{"burst", "c"}
	for k := 0; k < 12; k++ {
		xs = append(xs, r.Range(30, 50), 0)
	}
	return F(xs...)
}

func c10ReconnCase(r *Rand) Fields {
	a, b, c := r.Range(40, 70), r.Range(40, 70), r.Range(40, 70)
	return F("burst", "r2", a, 0, b, 0, 9, 0, 24, 0, c, 0)
}

// fresh case: 3 or 4 lines of 30..60 bytes; with NICK (9 bytes) and USER (24) the accumulated
// charge passes 10 s at the 5th line on the wire by at least 1 s
func c10FreshCase(r *Rand, cy *c10Cycle, m int) Fields {
	xs := []interface{}{"fresh"}
	for k := 0; k < m; k++ {
		xs = append(xs, cy.line(r, r.Range(30, 60)))
	}
	return F(xs...)
}

// hold case: style 0 = first line held (and so must the second be), 1 = first passes, second
// held, 2 = neither held (instant)
func c10HoldCase(r *Rand, cy *c10Cycle, style int) Fields {
	l1, l2 := cy.line(r, r.Range(1, 20)), cy.line(r, r.Range(1, 20))
	var bad int64
	switch style {
	case 0:
		bad = 9500*1000000 + c10U(r, 490*1000000)
	case 1:
		bad = 7000*1000000 + c10U(r, 800*1000000)
	default:
		bad = c10U(r, 5*c10Sec)
	}
	return F("hold", l1, bad, l2)
}

type c10Future struct {
	done chan struct{}
	obs  Fields
}

var c10memo sync.Map // input line -> *c10Future (bursts started ahead of time, in parallel)

func c10Gen(r *Rand, tier string, scale int, emit func(Fields)) {
	if scale == 0 {
		scale = 3000
	}
	var bursts, holds []Fields
	nh := 2
	if tier == "thorough" {
		nh = 8
	}
	cy := c10NewCycle(r)
	for k := 0; k < nh; k++ {
		holds = append(holds, c10HoldCase(r, cy, k%2))
	}
	holds = append(holds, c10HoldCase(r, cy, 2), c10HoldCase(r, cy, 2))
	for k := 0; k < nh; k++ {
		holds = append(holds, c10FreshCase(r, cy, 3+k%2))
	}
	// holds sleep in real time (2 s per held line): run them concurrently, each on its own client
	for _, h := range holds {
		fut := &c10Future{done: make(chan struct{})}
		c10memo.Store(h.String(), fut)
		go func(h Fields, fut *c10Future) {
			if h.S(0) == "fresh" {
				fut.obs = c10RunFresh(h)
			} else {
				fut.obs = c10RunHold(h)
			}
			close(fut.done)
		}(h, fut)
	}
	nrc := 1
	if tier == "thorough" {
		nrc = 3
	}
	var reconns []Fields
	for k := 0; k < 2*nrc; k++ {
		rc := c10ReconnCase(r)
		if k >= nrc {
			rc = c10CloseCase(r)
		}
		reconns = append(reconns, rc)
		fut := &c10Future{done: make(chan struct{})}
		c10memo.Store(rc.String(), fut)
		go func(b Fields, fut *c10Future) {
			fut.obs = c10RunBurst(b)
			close(fut.done)
		}(rc, fut)
	}
	if tier == "thorough" {
		for k := 0; k < 12; k++ {
			bursts = append(bursts, c10BurstCase(r, false, false))
		}
		for k := 0; k < 4; k++ {
			bursts = append(bursts, c10BurstCase(r, true, false))
		}
		// the bursts sleep in real time: run them concurrently with each other and with the
		// rule cases (the oracles are delay-independent, so the extra load cannot alarm)
		for _, b := range bursts {
			fut := &c10Future{done: make(chan struct{})}
			c10memo.Store(b.String(), fut)
			go func(b Fields, fut *c10Future) {
				fut.obs = c10RunBurst(b)
				close(fut.done)
			}(b, fut)
		}
	} else {
		bursts = append(bursts, c10BurstCase(r, false, true), c10BurstCase(r, true, true),
			c10BurstCase(r, false, true), c10BurstCase(r, true, true))
	}
	for k := 0; k < scale; k++ {
		emit(c10RuleCase(r))
	}
	for _, b := range bursts {
		emit(b)
	}
	for _, b := range reconns {
		emit(b)
	}
	for _, h := range holds {
		emit(h)
	}
}

func c10Exec(in Fields) Fields {
	switch in.S(0) {
	case "rule":
		chars, bad, gap := in.I(1), in.I(2), in.I(3)
		t0 := time.Now()
		ret, nb, nl := c10conn.VerifRateLimit(chars, time.Duration(bad), t0.Add(-time.Duration(gap)))
		t1 := time.Now()
		return F(int64(ret), int64(nb), int64(t1.Sub(t0)), int64(nl.Sub(t0)))
	case "burst":
		if f, ok := c10memo.LoadAndDelete(in.String()); ok {
			fut := f.(*c10Future)
			<-fut.done
			return fut.obs
		}
		return c10RunBurst(in)
	case "hold":
		if f, ok := c10memo.LoadAndDelete(in.String()); ok {
			fut := f.(*c10Future)
			<-fut.done
			return fut.obs
		}
		return c10RunHold(in)
	case "fresh":
		if f, ok := c10memo.LoadAndDelete(in.String()); ok {
			fut := f.(*c10Future)
			<-fut.done
			return fut.obs
		}
		return c10RunFresh(in)
	}
	return F("bad")
}

var c10seq int64

type c10rec struct {
	n int
	t int64
}

// c10Session: a client connected to the in-memory server whose server end stamps every line
type c10Session struct {
	c       *client.Conn
	srv     net.Conn
	created time.Time
	mu      sync.Mutex
	recs    []c10rec
}

func (s *c10Session) count() int { s.mu.Lock(); defer s.mu.Unlock(); return len(s.recs) }
func (s *c10Session) waitFor(n int, d time.Duration) bool {
	dl := time.Now().Add(d)
	for s.count() < n {
		if !time.Now().Before(dl) {
			return false
		}
		time.Sleep(200 * time.Microsecond)
	}
	return true
}
func (s *c10Session) rec(i int) c10rec { s.mu.Lock(); defer s.mu.Unlock(); return s.recs[i] }
func (s *c10Session) close() {
	s.srv.Close()
	done := make(chan struct{})
	go func() { s.c.Close(); close(done) }()
	select {
	case <-done:
	case <-time.After(5 * time.Second):
	}
}

func c10NewSession(flood bool) *c10Session {
	ms := NewMemServer(fmt.Sprintf("c10-%d", atomic.AddInt64(&c10seq, 1)))
	cfg := client.NewConfig("vbot", "vident", "v name")
	cfg.Server = "irc.example"
	cfg.Proxy = ms.URL()
	cfg.Flood = flood
	cfg.PingFreq = 0
	s := &c10Session{created: time.Now()}
	s.c = client.Client(cfg)
	errc := make(chan error, 1)
	go func() { errc <- s.c.Connect() }()
	select {
	case s.srv = <-ms.Conns:
	case <-time.After(10 * time.Second):
		return nil
	}
	go func() {
		buf := make([]byte, 65536)
		var pend []byte
		for {
			n, err := s.srv.Read(buf)
			t := int64(time.Since(s.created))
			pend = append(pend, buf[:n]...)
			s.mu.Lock()
			for {
				k := bytes.Index(pend, []byte("\r\n"))
				if k < 0 {
					break
				}
				s.recs = append(s.recs, c10rec{k, t})
				pend = pend[k+2:]
			}
			s.mu.Unlock()
			if err != nil {
				return
			}
		}
	}()
	select {
	case <-errc:
	case <-time.After(10 * time.Second):
	}
	s.waitFor(2, 8*time.Second) // NICK, USER
	return s
}

// c10RunHold: see Entry/EntryC10.v kind "hold".  The send goroutine is idle (blocked on
// conn.out) whenever the counters are set or read: both registration lines have arrived
// before the set, and each read happens after the arrival of the line just written, when
// write() has nothing left to do but log.
func c10RunHold(in Fields) Fields {
	line1, bad, line2 := in.S(1), in.I(2), in.S(3)
	s := c10NewSession(false)
	if s == nil || s.count() != 2 {
		return F("noconn")
	}
	defer s.close()
	t0 := time.Now()
	s.c.VerifSetFloodState(time.Duration(bad), t0)
	off := int64(t0.Sub(s.created))
	s.c.Raw(line1)
	if !s.waitFor(3, 12*time.Second) {
		return F("line1-missing")
	}
	b1, l1 := s.c.VerifFloodState()
	r1 := int64(time.Since(t0))
	s.c.Raw(line2)
	if !s.waitFor(4, 12*time.Second) {
		return F("line2-missing", int64(b1), int64(l1.Sub(t0)))
	}
	b2, l2 := s.c.VerifFloodState()
	return F(int64(l1.Sub(t0)), int64(b1), s.rec(2).t-off, r1, int64(b2), int64(l2.Sub(t0)), s.rec(3).t-off)
}

// c10RunFresh: the counters of this client are never set or read; s.created was taken just
// before client.Client(cfg), so the model's fresh state has lastsent >= the origin of the stamps
func c10RunFresh(in Fields) Fields {
	s := c10NewSession(false)
	if s == nil {
		return F("noconn")
	}
	defer s.close()
	nreg := s.count()
	lines := in[1:]
	submit := make([]int64, len(lines))
	var total int64
	for k, l := range lines {
		total += c10Linetime(int64(len(l)))
		submit[k] = int64(time.Since(s.created))
		s.c.Raw(string(l))
	}
	s.waitFor(nreg+len(lines), time.Duration(total)+10*time.Second)
	s.mu.Lock()
	got := append([]c10rec{}, s.recs...)
	s.mu.Unlock()
	xs := []interface{}{nreg}
	for i, rc := range got {
		q := rc.t
		if i >= nreg && i-nreg < len(submit) {
			q = submit[i-nreg]
		}
		xs = append(xs, rc.n, rc.t, q)
	}
	return F(xs...)
}

func c10RunBurst(in Fields) Fields {
	flood := in.S(1) == "t"
	var lens, pauses []int
	for k := 2; k+1 < len(in); k += 2 {
		lens = append(lens, in.I(k))
		pauses = append(pauses, in.I(k+1))
	}
	ms := NewMemServer(fmt.Sprintf("c10-%d", atomic.AddInt64(&c10seq, 1)))
	cfg := client.NewConfig("vbot", "vident", "v name")
	cfg.Server = "irc.example"
	cfg.Proxy = ms.URL()
	cfg.Flood = flood
	cfg.PingFreq = 0
	created := time.Now() // before Client(): lastsent >= created, so "last_0 <= a_1" and all times >= 0
	c := client.Client(cfg)
	errc := make(chan error, 1)
	go func() { errc <- c.Connect() }()
	var srv net.Conn
	select {
	case srv = <-ms.Conns:
	case <-time.After(10 * time.Second):
		return F(0)
	}
	reconnAt := -1
	if strings.HasPrefix(in.S(1), "r") {
		fmt.Sscanf(in.S(1)[1:], "%d", &reconnAt)
	}
	var mu sync.Mutex
	var recs []c10rec
	var reader func(srv net.Conn)
	reader = func(srv net.Conn) { // server end: read promptly, stamp each line with the time its CRLF arrived
		buf := make([]byte, 65536)
		var pend []byte
		for {
			n, err := srv.Read(buf)
			t := int64(time.Since(created))
			pend = append(pend, buf[:n]...)
			mu.Lock()
			for {
				k := bytes.Index(pend, []byte("\r\n"))
				if k < 0 {
					break
				}
				recs = append(recs, c10rec{k, t})
				pend = pend[k+2:]
			}
			mu.Unlock()
			if err != nil {
				return
			}
		}
	}
	go reader(srv)
	count := func() int { mu.Lock(); defer mu.Unlock(); return len(recs) }
	waitFor := func(n int, d time.Duration) {
		dl := time.Now().Add(d)
		for count() < n && time.Now().Before(dl) {
			time.Sleep(2 * time.Millisecond)
		}
	}
	select {
	case <-errc:
	case <-time.After(10 * time.Second):
	}
	waitFor(2, 8*time.Second) // NICK, USER: lines on the wire like any other, charged too
	nreg := count()
	submit := make([]int64, len(lens))
	var total int64
	for k, l := range lens {
		if k == reconnAt {
			// everything submitted so far has arrived (nothing is lost by closing); close and
			// connect again at once; the client sends entries k and k+1 (NICK, USER) itself
			waitFor(nreg+k, time.Duration(total)+20*time.Second)
			cdone := make(chan struct{})
			go func() { c.Close(); close(cdone) }()
			select {
			case <-cdone:
			case <-time.After(10 * time.Second):
			}
			srv.Close()
			go func() { errc <- c.Connect() }()
			select {
			case srv = <-ms.Conns:
			case <-time.After(10 * time.Second):
				return F(0)
			}
			go reader(srv)
			select {
			case <-errc:
			case <-time.After(10 * time.Second):
			}
		}
		total += c10Linetime(int64(l)) + int64(pauses[k])*1000000
		if reconnAt >= 0 && (k == reconnAt || k == reconnAt+1) {
			submit[k] = -1
			continue
		}
		if pauses[k] > 0 {
			time.Sleep(time.Duration(pauses[k]) * time.Millisecond)
		}
		submit[k] = int64(time.Since(created))
		c.Raw(c10Filler(k, l))
	}
	if in.S(1) == "c" {
		time.Sleep(300 * time.Millisecond)
		cdone := make(chan struct{})
		go func() { c.Close(); close(cdone) }()
		select {
		case <-cdone:
		case <-time.After(10 * time.Second):
		}
		time.Sleep(100 * time.Millisecond)
	} else {
		waitFor(nreg+len(lens), time.Duration(total)+20*time.Second)
	}
	mu.Lock()
	got := append([]c10rec{}, recs...)
	mu.Unlock()
	srv.Close()
	done := make(chan struct{})
	go func() { c.Close(); close(done) }()
	select {
	case <-done:
	case <-time.After(5 * time.Second):
	}
	var xs []interface{}
	xs = append(xs, nreg)
	for i, rc := range got {
		q := rc.t
		if i >= nreg && i-nreg < len(submit) && submit[i-nreg] >= 0 {
			q = submit[i-nreg]
		}
		xs = append(xs, rc.n, rc.t, q)
	}
	return F(xs...)
}

// c10Filler: l bytes of content; every second line of a burst is multi-byte UTF-8 text
// (3-byte characters, padded to the exact byte length)
func c10Filler(k, l int) string {
	if k%2 == 0 {
		return strings.Repeat("x", l)
	}
	return strings.Repeat("\u20ac", l/3) + strings.Repeat("x", l%3)
}

func c10Class(in Fields) string {
	if in.S(0) == "fresh" {
		return fmt.Sprintf("fresh:%d-lines", len(in)-1)
	}
	if in.S(0) == "hold" {
		p := int64(in.I(2)) + c10Linetime(int64(len(in[1])))
		switch {
		case p > c10Threshold:
			return "hold:first-and-second-held"
		case p+c10Linetime(int64(len(in[3]))) > c10Threshold:
			return "hold:second-held"
		}
		return "hold:none-held"
	}
	if in.S(0) == "burst" {
		if in.S(1) == "t" {
			return "burst:flood-on"
		}
		if strings.HasPrefix(in.S(1), "r") {
			return "burst:flood-off:reconnect"
		}
		if in.S(1) == "c" {
			return "burst:flood-off:close-with-backlog"
		}
		return fmt.Sprintf("burst:flood-off:%d-lines", (len(in)-2)/2)
	}
	chars, bad, gap := int64(in.I(1)), int64(in.I(2)), int64(in.I(3))
	p := bad + c10Linetime(chars) - gap // the new penalty if no time passed inside the call
	d := p - c10Threshold
	switch {
	case p <= -c10Dense:
		return "rule:floored"
	case p <= 0:
		return "rule:floor-within-200ms"
	case p < 2000 && p > 0:
		return "rule:floor-within-2us"
	case d > c10Dense:
		return "rule:held-back"
	case d > 2000:
		return "rule:held-back-within-200ms"
	case d >= -2000:
		return "rule:threshold-within-2us"
	case d >= -c10Dense:
		return "rule:passes-within-200ms"
	default:
		return "rule:passes"
	}
}
