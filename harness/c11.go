package main

import (
	"os"
	"sync"
	"time"

	"github.com/fluffle/goirc/client"
)

// C11: splitMessage directly (kind "split") and through Privmsg/Notice/Ctcp/CtcpReply on
// the wire (kind "wire").
var c11ws *WireSession

func init() {
	props["C11"] = &Prop{
		Setup:    func() { c11ws = NewWireSession(nil) },
		Teardown: func() { c11ws.Close() },
		Gen:      c11Gen,
		Exec:     c11Exec,
		Class: func(in Fields) string {
			if in.S(0) == "split" {
				return classLen("split", len(in[1]), in.I(2))
			}
			return classLen("wire-"+in.S(1), len(in[4]), in.I(5))
		},
	}
}

func classLen(kind string, l, n int) string {
	eff := n
	if eff < 13 {
		eff = 450
	}
	switch {
	case l == 0:
		return kind + ":empty"
	case l <= eff:
		return kind + ":fits"
	case l <= 2*eff:
		return kind + ":2pieces~"
	default:
		return kind + ":many"
	}
}

var c11SplitLens = []int{-1, 0, 1, 12, 13, 14, 16, 23, 50, 449, 450, 451, 3000}

// text generator with controlled punctuation / space layout
func c11Text(r *Rand, n int) []byte {
	eff := n
	if eff < 13 {
		eff = 450
	}
	var l int
	switch r.Intn(8) {
	case 0:
		l = r.Intn(eff + 1)
	case 1:
		l = eff + r.Range(-3, 3)
	case 2:
		l = r.Range(eff+1, 2*eff+5)
	case 3:
		l = r.Range(0, 40)
	default:
		l = r.Range(eff, 7*eff)
	}
	if l < 0 {
		l = 0
	}
	if l > 3200 {
		l = r.Range(2000, 3200)
	}
	seps := []byte(".:;,!?\"'")
	style := r.Intn(12)
	rep := byte(r.Intn(256))
	for rep == '\r' || rep == '\n' {
		rep = byte(r.Intn(256))
	}
	b := make([]byte, l)
	for i := range b {
		var c byte
		switch style {
		case 0: // no spaces at all
			c = byte('a' + r.Intn(26))
		case 1: // dense spaces and punctuation
			switch r.Intn(4) {
			case 0:
				c = ' '
			case 1:
				c = seps[r.Intn(len(seps))]
			default:
				c = byte('a' + r.Intn(26))
			}
		case 2: // runs of spaces
			if r.Intn(3) == 0 {
				c = ' '
			} else {
				c = byte('A' + r.Intn(26))
			}
		case 3: // arbitrary bytes except CR/LF
			c = byte(r.Intn(256))
			for c == '\r' || c == '\n' {
				c = byte(r.Intn(256))
			}
		case 4: // words
			if r.Intn(7) == 0 {
				c = ' '
			} else {
				c = byte('a' + r.Intn(26))
			}
		case 5: // sentences
			switch r.Intn(20) {
			case 0:
				c = seps[r.Intn(len(seps))]
			case 1, 2, 3:
				c = ' '
			default:
				c = byte('a' + r.Intn(26))
			}
		case 7: // rows of UTF-8 continuation bytes / Latin-1 bytes, a few spaces
			if r.Intn(40) == 0 {
				c = ' '
			} else {
				c = byte(0x80 + r.Intn(0x40))
			}
		case 8: // UTF-8 continuation bytes only, no space anywhere
			c = byte(0x80 + r.Intn(0x40))
		case 9: // UTF-8 lead bytes only
			c = byte(0xC0 + r.Intn(0x38))
		case 10: // valid multi-byte UTF-8 (2-, 3- and 4-byte sequences laid out by position), no spaces
			switch i % 9 {
			case 0:
				c = 0xC3
			case 2:
				c = 0xE2
			case 5:
				c = 0xF0
			case 6:
				c = 0x9F
			default:
				c = byte(0x80 + r.Intn(0x40))
			}
		case 11: // one byte repeated
			c = rep
		default: // only spaces / only separators
			if r.Bool() {
				c = ' '
			} else {
				c = seps[r.Intn(len(seps))]
			}
		}
		b[i] = c
	}
	// plant separators / spaces around the cut-off
	if l > eff && r.Chance(60) {
		for k := 0; k < 3; k++ {
			pos := eff - 3 + r.Range(-4, 3)
			if pos >= 1 && pos < l {
				if r.Bool() {
					b[pos] = ' '
					if r.Bool() {
						b[pos-1] = seps[r.Intn(len(seps))]
					}
				}
			}
		}
		if r.Chance(30) {
			b[0] = ' '
		}
		if r.Chance(30) && l > 1 {
			b[0] = '.'
			b[1] = ' '
		}
	}
	return b
}

func c11Gen(r *Rand, tier string, scale int, emit func(Fields)) {
	if scale == 0 {
		scale = 5000
		if tier == "thorough" {
			scale = 100000
		}
	}
	nwire := scale / 10
	for i := 0; i < scale-nwire; i++ {
		n := c11SplitLens[r.Intn(len(c11SplitLens))]
		if r.Chance(15) {
			n = r.Range(-20, 700)
		}
		emit(F("split", c11Text(r, n), n))
	}
	targets := []string{"#chan", "nick", "&x", "a", "#a-very-long-channel-name-indeed"}
	verbs := []string{"ACTION", "version", "Ping", "x", "FOO9"}
	ms := []string{"Privmsg", "Notice", "Ctcp", "CtcpReply", "Privmsgln", "Privmsgf"}
	// the first message this Conn ever sends goes out under the largest limit: every later
	// case then runs under a SplitLen that was CHANGED on a live client (smaller or larger)
	emit(F("wire", "Privmsg", "#chan", "x", c11Text(r, 3000), 3000))
	for i := 0; i < nwire; i++ {
		n := c11SplitLens[r.Intn(len(c11SplitLens))]
		if i%10 == 0 && i < 600 {
			// many pieces (more than the 32-slot output queue holds) against a server that pauses
			emit(F("wire", r.Pick(ms), r.Pick(targets), r.Pick(verbs), r.Bytes(r.Range(600, 1200), []byte("abcdefgh ijkl. mnop, qrs")), 13, "slow"))
			continue
		}
		emit(F("wire", r.Pick(ms), r.Pick(targets), r.Pick(verbs), c11Text(r, n), n))
	}
}

func c11Exec(in Fields) (obs Fields) {
	switch in.S(0) {
	case "split":
		// run on its own goroutine: a split that never terminates must end the harness while
		// this input is still the one in flight (the driver then reports it as the failing case)
		done := make(chan Fields, 1)
		go func() {
			defer func() {
				if e := recover(); e != nil {
					done <- F("panic")
				}
			}()
			ps := client.VerifSplitMessage(in.S(1), in.I(2))
			done <- F("ok", ps)
		}()
		select {
		case o := <-done:
			return o
		case <-time.After(15 * time.Second):
			os.Exit(4)
		}
	case "wire":
		m, t, ctcp, text, n := in.S(1), in.S(2), in.S(3), in.S(4), in.I(5)
		c11ws.Conn.Config().SplitLen = n
		var args []string
		if m == "Ctcp" || m == "CtcpReply" {
			args = []string{t, ctcp, text}
		} else {
			args = []string{t, text}
		}
		if len(in) > 6 && in.S(6) == "slow" {
			// the server end pauses before each of its first reads: the 32-slot queue fills up
			// while the method is still handing pieces to Raw
			var pmu sync.Mutex
			left := 8
			c11ws.Pace = func() int {
				pmu.Lock()
				defer pmu.Unlock()
				if left > 0 {
					left--
					time.Sleep(25 * time.Millisecond)
				}
				return 0
			}
			defer func() { c11ws.Pace = nil }()
		}
		slow := len(in) > 6 && in.S(6) == "slow"
		const otherLine = "PRIVMSG #zz-other :b"
		wc := make(chan []byte, 1)
		go func() {
			wc <- c11ws.Call(func() {
				bdone := make(chan struct{})
				if slow {
					// while this call is blocked half-way (full output queue), another goroutine
					// sends a one-piece message to another target on the same client: the
					// pieces of THIS message must keep their own target
					go func() {
						defer close(bdone)
						time.Sleep(30 * time.Millisecond)
						c11ws.Conn.Privmsg("#zz-other", "b")
					}()
				} else {
					close(bdone)
				}
				callMethod(c11ws.Conn, m, args)
				<-bdone
			})
		}()
		select {
		case w := <-wc:
			ls := splitCRLF(w)
			if slow { // the other goroutine's own line (exact match) is not part of this call's output
				for k, l := range ls {
					if l == otherLine {
						ls = append(ls[:k:k], ls[k+1:]...)
						break
					}
				}
			}
			return F(ls)
		case <-time.After(60 * time.Second): // the method itself never returned
			os.Exit(4)
		}
	}
	return F("bad")
}
