package main

// C01: well-formed IRC messages (RFC 2812 2.3.1 + IRCv3 tags) are rendered by the harness
// and given to the real receiver, either directly (kind "parse": client.ParseLine) or over
// a connection (kind "conn": the line a foreground handler gets).  The structured message
// travels with the rendered bytes so that the Coq side (Entry/EntryC01.v) can re-render it
// with LineSend.render and evaluate wf_msg / C01_ok.  c01Msg, c01Render, c01Escape and
// c01Wf mirror Model/LineSend.v (msg, render, escape, wf_msg) definition by definition.

import (
	"bytes"
	"sort"
	"strconv"
	"sync"
	"time"

	"github.com/fluffle/goirc/client"
)

// ---------- the message (LineSend.msg) ----------
type c01Tag struct {
	Key    []byte
	HasVal bool
	Val    []byte
}

type c01Mid struct {
	Extra int // number of EXTRA spaces before the parameter (one is always written)
	P     []byte
}

type c01Msg struct {
	HasTags  bool
	Tags     []c01Tag
	SrcKind  int    // 0 none, 1 server, 2 user
	A, B, C  []byte // server: A; user: nick=A user=B host=C
	Verb     []byte
	Mids     []c01Mid
	HasTrail bool
	Trail    []byte
}

var c01ws *WireSession

func init() {
	props["C01"] = &Prop{
		Setup: func() { c01ws = NewWireSession(nil) },
		Teardown: func() {
			if c01ws != nil {
				c01ws.Close()
				c01ws = nil
			}
		},
		Gen:   c01Gen,
		Exec:  c01Exec,
		Class: c01Class,
	}
}

// ---------- render (LineSend.render) ----------
func c01Escape(v []byte) []byte {
	o := []byte{}
	for _, c := range v {
		switch c {
		case ';':
			o = append(o, '\\', ':')
		case ' ':
			o = append(o, '\\', 's')
		case '\\':
			o = append(o, '\\', '\\')
		case '\r':
			o = append(o, '\\', 'r')
		case '\n':
			o = append(o, '\\', 'n')
		default:
			o = append(o, c)
		}
	}
	return o
}

func c01Render(m *c01Msg) []byte {
	o := []byte{}
	if m.HasTags {
		o = append(o, '@')
		for i, t := range m.Tags {
			if i > 0 {
				o = append(o, ';')
			}
			o = append(o, t.Key...)
			if t.HasVal {
				o = append(o, '=')
				o = append(o, c01Escape(t.Val)...)
			}
		}
		o = append(o, ' ')
	}
	switch m.SrcKind {
	case 1:
		o = append(o, ':')
		o = append(o, m.A...)
		o = append(o, ' ')
	case 2:
		o = append(o, ':')
		o = append(o, m.A...)
		o = append(o, '!')
		o = append(o, m.B...)
		o = append(o, '@')
		o = append(o, m.C...)
		o = append(o, ' ')
	}
	o = append(o, m.Verb...)
	for _, p := range m.Mids {
		for i := 0; i < 1+p.Extra; i++ {
			o = append(o, ' ')
		}
		o = append(o, p.P...)
	}
	if m.HasTrail {
		o = append(o, ' ', ':')
		o = append(o, m.Trail...)
	}
	return o
}

// ---------- well-formedness (LineSend.wf_msg) ----------
func c01IsSpace(c byte) bool { return c == 9 || c == 10 || c == 11 || c == 12 || c == 13 || c == 32 }

func c01WordOK(w []byte) bool {
	if len(w) == 0 {
		return false
	}
	for _, c := range w {
		if c01IsSpace(c) || c == 0 {
			return false
		}
	}
	return true
}

func c01KeyOK(k []byte) bool {
	if len(k) == 0 {
		return false
	}
	for _, c := range k {
		switch c {
		case '=', ';', ' ', '\\', '\r', '\n', 0:
			return false
		}
	}
	return true
}

func c01TagsOK(m *c01Msg) bool {
	if !m.HasTags {
		return true
	}
	if len(m.Tags) == 0 {
		return false
	}
	for _, t := range m.Tags {
		if !c01KeyOK(t.Key) {
			return false
		}
		if t.HasVal && bytes.IndexByte(t.Val, 0) >= 0 {
			return false
		}
	}
	return true
}

func c01NameOK(w []byte) bool {
	return c01WordOK(w) && bytes.IndexByte(w, '!') < 0 && bytes.IndexByte(w, '@') < 0
}

func c01ServerOK(w []byte) bool {
	return c01WordOK(w) && !(bytes.IndexByte(w, '!') >= 0 && bytes.IndexByte(w, '@') >= 0)
}

func c01SrcOK(m *c01Msg) bool {
	switch m.SrcKind {
	case 1:
		return c01ServerOK(m.A)
	case 2:
		return c01NameOK(m.A) && c01NameOK(m.B) && c01NameOK(m.C)
	}
	return true
}

func c01IsLetter(c byte) bool { return (c >= 'A' && c <= 'Z') || (c >= 'a' && c <= 'z') }
func c01IsDigit(c byte) bool  { return c >= '0' && c <= '9' }

func c01AllLetters(v []byte) bool {
	for _, c := range v {
		if !c01IsLetter(c) {
			return false
		}
	}
	return true
}

func c01AllDigits(v []byte) bool {
	for _, c := range v {
		if !c01IsDigit(c) {
			return false
		}
	}
	return true
}

func c01VerbOK(v []byte) bool {
	return (len(v) > 0 && c01AllLetters(v)) || (len(v) == 3 && c01AllDigits(v))
}

func c01MiddleOK(p []byte) bool { return c01WordOK(p) && p[0] != ':' }

func c01MiddlesOK(m *c01Msg) bool {
	if len(m.Mids) > 14 {
		return false
	}
	for _, p := range m.Mids {
		if !c01MiddleOK(p.P) {
			return false
		}
	}
	return true
}

func c01TrailingOK(m *c01Msg) bool {
	if !m.HasTrail {
		return true
	}
	for _, c := range m.Trail {
		if c == 0 || c == '\r' || c == '\n' {
			return false
		}
	}
	return true
}

// ASCII upper-casing (GoBytes.to_upper)
func c01Upper(s []byte) []byte {
	o := make([]byte, len(s))
	for i, c := range s {
		if c >= 'a' && c <= 'z' {
			c -= 32
		}
		o[i] = c
	}
	return o
}

func c01CtcpShaped(p []byte) bool { return len(p) > 2 && p[0] == 1 && p[len(p)-1] == 1 }

// LineSend.ctcp_parts: \x01 VERB SP text \x01 with an in-claim VERB and text
func c01CtcpParts(p []byte) (v, t []byte, ok bool) {
	if len(p) < 2 || p[0] != 1 || p[len(p)-1] != 1 {
		return nil, nil, false
	}
	inner := p[1 : len(p)-1]
	k := bytes.IndexByte(inner, ' ')
	if k < 0 {
		return nil, nil, false
	}
	v, t = inner[:k], inner[k+1:]
	if len(v) == 0 || len(t) == 0 {
		return nil, nil, false
	}
	for _, c := range v {
		if !(c >= 33 && c <= 126) || (c >= 'a' && c <= 'z') {
			return nil, nil, false
		}
	}
	if bytes.IndexByte(t, 1) >= 0 {
		return nil, nil, false
	}
	return v, t, true
}

func c01Args(m *c01Msg) [][]byte {
	var a [][]byte
	for _, p := range m.Mids {
		a = append(a, p.P)
	}
	if m.HasTrail {
		a = append(a, m.Trail)
	}
	return a
}

func c01IsMsgCmd(cmd []byte) bool { return string(cmd) == "PRIVMSG" || string(cmd) == "NOTICE" }

func c01CtcpWf(m *c01Msg) bool {
	if !c01IsMsgCmd(c01Upper(m.Verb)) {
		return true
	}
	args := c01Args(m)
	if len(args) < 2 || !c01CtcpShaped(args[1]) {
		return true
	}
	if len(args) != 2 {
		return false
	}
	_, _, ok := c01CtcpParts(args[1])
	return ok
}

func c01Wf(m *c01Msg) bool {
	return c01TagsOK(m) && c01SrcOK(m) && c01VerbOK(m.Verb) && c01MiddlesOK(m) &&
		c01TrailingOK(m) && c01CtcpWf(m)
}

// ---------- field encoding (header of Entry/EntryC01.v) ----------
func c01Encode(kind string, m *c01Msg) Fields {
	f := F(kind, c01Render(m))
	if m.HasTags {
		f = append(f, F("1", len(m.Tags))...)
		for _, t := range m.Tags {
			if t.HasVal {
				f = append(f, F(t.Key, "1", t.Val)...)
			} else {
				f = append(f, F(t.Key, "0", "")...)
			}
		}
	} else {
		f = append(f, F("0", 0)...)
	}
	switch m.SrcKind {
	case 1:
		f = append(f, F("1", m.A, "", "")...)
	case 2:
		f = append(f, F("2", m.A, m.B, m.C)...)
	default:
		f = append(f, F("0", "", "", "")...)
	}
	f = append(f, F(m.Verb, len(m.Mids))...)
	for _, p := range m.Mids {
		f = append(f, F(p.Extra, p.P)...)
	}
	if m.HasTrail {
		f = append(f, F("1", m.Trail)...)
	} else {
		f = append(f, F("0", "")...)
	}
	return f
}

// c01Decode reads the structured message back out of in[2:] (kind "cbig": in[4:])
// (EntryC01.decode_msg)
func c01Decode(in Fields) (*c01Msg, bool) {
	i := 2
	if in.S(0) == "cbig" {
		i = 4
	}
	next := func() ([]byte, bool) {
		if i >= len(in) {
			return nil, false
		}
		x := in[i]
		i++
		return x, true
	}
	num := func() (int, bool) {
		x, ok := next()
		if !ok {
			return 0, false
		}
		n, err := strconv.Atoi(string(x))
		if err != nil || n < 0 || n > 1<<20 {
			return 0, false
		}
		return n, true
	}
	m := &c01Msg{}
	tf, ok := next()
	if !ok {
		return nil, false
	}
	nt, ok := num()
	if !ok {
		return nil, false
	}
	var tags []c01Tag
	for k := 0; k < nt; k++ {
		key, ok1 := next()
		vf, ok2 := next()
		val, ok3 := next()
		if !ok1 || !ok2 || !ok3 {
			return nil, false
		}
		if string(vf) == "1" {
			tags = append(tags, c01Tag{Key: key, HasVal: true, Val: val})
		} else {
			tags = append(tags, c01Tag{Key: key})
		}
	}
	if string(tf) == "1" {
		m.HasTags, m.Tags = true, tags
	}
	sk, ok0 := next()
	a, ok1 := next()
	b, ok2 := next()
	c, ok3 := next()
	verb, ok4 := next()
	if !ok0 || !ok1 || !ok2 || !ok3 || !ok4 {
		return nil, false
	}
	switch string(sk) {
	case "1":
		m.SrcKind, m.A = 1, a
	case "2":
		m.SrcKind, m.A, m.B, m.C = 2, a, b, c
	}
	m.Verb = verb
	nm, ok := num()
	if !ok {
		return nil, false
	}
	for k := 0; k < nm; k++ {
		e, ok1 := num()
		p, ok2 := next()
		if !ok1 || !ok2 {
			return nil, false
		}
		m.Mids = append(m.Mids, c01Mid{Extra: e, P: p})
	}
	trf, ok1 := next()
	tr, ok2 := next()
	if !ok1 || !ok2 || i != len(in) {
		return nil, false
	}
	if string(trf) == "1" {
		m.HasTrail, m.Trail = true, tr
	}
	return m, true
}

// ---------- Exec ----------
func c01Obs(l *client.Line) Fields {
	f := F("line")
	if l.Tags == nil {
		f = append(f, F("nil", 0)...)
	} else {
		keys := make([]string, 0, len(l.Tags))
		for k := range l.Tags {
			keys = append(keys, k)
		}
		sort.Strings(keys) // bytewise order
		f = append(f, F("map", len(keys))...)
		for _, k := range keys {
			f = append(f, F(k, l.Tags[k])...)
		}
	}
	f = append(f, F(l.Nick, l.Ident, l.Host, l.Src, l.Cmd, l.Raw, len(l.Args))...)
	for _, a := range l.Args {
		f = append(f, []byte(a))
	}
	f = append(f, c01Guard(func() Fields { return F(l.Text()) })...)
	f = append(f, c01Guard(func() Fields { return F(l.Target()) })...)
	f = append(f, c01Guard(func() Fields { return F(l.Public()) })...)
	return f
}

// c01Guard runs one accessor under its own recover: "ok", value | "panic", ""
func c01Guard(g func() Fields) (out Fields) {
	defer func() {
		if e := recover(); e != nil {
			out = F("panic", "")
		}
	}()
	v := g()
	return append(F("ok"), v...)
}

func c01Exec(in Fields) (obs Fields) {
	switch in.S(0) {
	case "parse":
		defer func() {
			if e := recover(); e != nil {
				obs = F("panic")
			}
		}()
		l := client.ParseLine(in.S(1))
		if l == nil {
			return F("nil")
		}
		return c01Obs(l)
	case "conn":
		return c01ExecConn(in)
	case "cbig":
		return c01ExecBig(in)
	}
	return F("bad")
}

// the short ordinary message written right after a long one (EntryC01.follow_msg)
func c01FollowRender(serial []byte) []byte {
	return append([]byte(":fnick!fuser@fhost PRIVMSG #c01follow :serial "), serial...)
}

// "cbig": a LONG rendered line (around and beyond bufio's 4096-byte buffer) followed by a
// short ordinary PRIVMSG, written by the in-memory server in one Write (chunk 0) or in
// pieces of chunk bytes.  Observation: the first two lines the foreground handlers get,
// in order (dispatch waits for a line's handlers before it takes the next line).
func c01ExecBig(in Fields) Fields {
	m, ok := c01Decode(in)
	if !ok || len(in) < 4 {
		return F("bad")
	}
	chunk := in.I(2)
	if c01ws == nil {
		c01ws = NewWireSession(nil)
	}
	ws := c01ws
	names := []string{"PRIVMSG"}
	for _, n := range []string{string(c01Upper(m.Verb)), "ACTION", "CTCP", "CTCPREPLY"} {
		dup := false
		for _, x := range names {
			dup = dup || x == n
		}
		if !dup {
			names = append(names, n)
		}
	}
	ch := make(chan *client.Line, 64)
	var rem []client.Remover
	for _, n := range names {
		rem = append(rem, ws.Conn.HandleFunc(n, func(c *client.Conn, l *client.Line) {
			select {
			case ch <- l.Copy():
			default:
			}
		}))
	}
	defer func() {
		for _, x := range rem {
			x.Remove()
		}
	}()
	wire := append(append([]byte{}, in[1]...), '\r', '\n')
	wire = append(append(wire, c01FollowRender(in[3])...), '\r', '\n')
	done := make(chan struct{})
	go func() { // net.Pipe is synchronous
		defer close(done)
		ws.Srv.SetWriteDeadline(time.Now().Add(10 * time.Second))
		if chunk <= 0 {
			ws.Srv.Write(wire)
			return
		}
		for k := 0; k < len(wire); k += chunk {
			e := k + chunk
			if e > len(wire) {
				e = len(wire)
			}
			if _, err := ws.Srv.Write(wire[k:e]); err != nil {
				return
			}
		}
	}()
	var got []*client.Line
	wait := 5 * time.Second
	for len(got) < 2 {
		select {
		case l := <-ch:
			got = append(got, l)
			wait = 2 * time.Second
			continue
		case <-time.After(wait):
		}
		break
	}
	<-done
	if len(got) < 2 { // something was lost or cut: the next case gets a fresh session
		ws.Close()
		c01ws = nil
	}
	if len(got) == 0 {
		return F("timeout")
	}
	obs := Fields{}
	for _, l := range got {
		obs = append(obs, c01Obs(l)...)
	}
	return obs
}

// "conn": rendered CR LF is written by the in-memory server; the observation is the line a
// FOREGROUND handler receives.  Conn.dispatch runs the internal handlers for line.Cmd, then
// the foreground handlers registered under lower(line.Cmd); ParseLine may have rewritten
// Cmd to ACTION / CTCP / CTCPREPLY, so handlers are registered for the (upper-cased) verb
// of the STRUCTURED input and for those three names, and removed again after the case.
func c01ExecConn(in Fields) Fields {
	m, ok := c01Decode(in)
	if !ok || len(in) < 2 {
		return F("bad")
	}
	if c01ws == nil {
		c01ws = NewWireSession(nil)
	}
	ws := c01ws
	names := []string{string(c01Upper(m.Verb))}
	for _, n := range []string{"ACTION", "CTCP", "CTCPREPLY"} {
		if n != names[0] {
			names = append(names, n)
		}
	}
	ch := make(chan *client.Line, 8)
	var rem []client.Remover
	// Two foreground handlers per name: the first one scribbles over every field of the line
	// IT was given and then signals; the recording one waits for that signal before it looks
	// at its own line, which must still equal the message (each handler owns its line).
	scribbled := make(chan struct{})
	var once sync.Once
	for _, n := range names {
		rem = append(rem, ws.Conn.HandleFunc(n, func(c *client.Conn, l *client.Line) {
			for i := range l.Args {
				l.Args[i] = "scribbled"
			}
			for k := range l.Tags {
				l.Tags[k] = "scribbled"
			}
			if l.Tags != nil {
				l.Tags["scribbled"] = "1"
			}
			l.Nick, l.Ident, l.Host, l.Src, l.Cmd, l.Raw = "s", "s", "s", "s", "S", "s"
			once.Do(func() { close(scribbled) })
		}))
		rem = append(rem, ws.Conn.HandleFunc(n, func(c *client.Conn, l *client.Line) {
			select {
			case <-scribbled:
			case <-time.After(3 * time.Second):
			}
			cp := l.Copy()
			select {
			case ch <- cp:
			default:
			}
		}))
	}
	defer func() {
		for _, x := range rem {
			x.Remove()
		}
	}()
	wire := append(append([]byte{}, in[1]...), '\r', '\n')
	done := make(chan struct{})
	go func() { // net.Pipe is synchronous
		ws.Srv.SetWriteDeadline(time.Now().Add(5 * time.Second))
		ws.Srv.Write(wire)
		close(done)
	}()
	select {
	case l := <-ch:
		<-done
		return c01Obs(l)
	case <-time.After(5 * time.Second):
		// the line never reached a handler; start the next conn case on a fresh session
		<-done
		ws.Close()
		c01ws = nil
		return F("timeout")
	}
}

// ---------- Class ----------
func c01CtcpKind(m *c01Msg) string {
	cmd := c01Upper(m.Verb)
	args := c01Args(m)
	if !c01IsMsgCmd(cmd) || len(args) != 2 {
		return "none"
	}
	v, _, ok := c01CtcpParts(args[1])
	if !ok {
		return "none"
	}
	if string(cmd) == "PRIVMSG" {
		if string(c01Upper(v)) == "ACTION" {
			return "action"
		}
		return "ctcp"
	}
	return "ctcpreply"
}

func c01Class(in Fields) string {
	m, ok := c01Decode(in)
	if !ok {
		return in.S(0) + ":undecodable"
	}
	if in.S(0) == "cbig" {
		n := len(in[1]) + 2 // with CR LF, as bufio sees it
		size := "<=4096"
		switch {
		case n > 16384:
			size = ">16384"
		case n > 8192:
			size = "8193-16384"
		case n > 4096:
			size = "4097-8192"
		}
		mode := "onewrite"
		if in.I(2) > 0 {
			mode = "chunked"
		}
		shape := "trailing"
		switch {
		case m.HasTags && len(m.Mids) == 14:
			shape = "mixed"
		case m.HasTags:
			shape = "tags"
		case len(m.Mids) == 14:
			shape = "middles"
		}
		return "cbig:" + size + ":" + mode + ":" + shape
	}
	tags := "notags"
	if m.HasTags {
		tags = "tags"
		seen := map[string]bool{}
		dup, esc := false, false
		for _, t := range m.Tags {
			if seen[string(t.Key)] {
				dup = true
			}
			seen[string(t.Key)] = true
			if t.HasVal && bytes.IndexAny(t.Val, "; \\\r\n") >= 0 {
				esc = true
			}
		}
		if esc {
			tags = "tags-esc"
		} else if dup {
			tags = "tags-dup"
		}
	}
	src := []string{"nosrc", "server", "user"}[m.SrcKind]
	verb := "letters"
	if len(m.Verb) > 0 && c01IsDigit(m.Verb[0]) {
		verb = "digits"
	}
	mids := "m1-13"
	if len(m.Mids) == 0 {
		mids = "m0"
	} else if len(m.Mids) >= 14 {
		mids = "m14"
	}
	trail := "notrail"
	if m.HasTrail {
		switch {
		case len(m.Trail) == 0:
			trail = "empty"
		case bytes.Contains(m.Trail, []byte(" :")):
			trail = "trail-spcolon"
		default:
			trail = "trail"
		}
	}
	return in.S(0) + ":" + tags + ":" + src + ":" + verb + ":" + mids + ":" + trail + ":" + c01CtcpKind(m)
}

// ---------- Gen ----------
const (
	c01Letters = "abcdefghijklmnopqrstuvwxyzABCDEFGHIJKLMNOPQRSTUVWXYZ"
	c01Digits  = "0123456789"
)

var (
	c01KeyAlpha    = []byte(c01Letters + c01Digits + "-/.+-/.+")
	c01NameAlpha   = []byte(c01Letters + c01Letters + c01Digits + "-_.[]{}|^`~:/*+#&$%=;\\,")
	c01ServerAlpha = []byte(c01Letters + c01Digits + "....--::")
	c01MidAlpha    = []byte(c01Letters + c01Letters + c01Digits + "#&+!:@.,-_*=;\\/~:::")
	c01TextAlpha   = []byte(c01Letters + c01Digits + "      ::..,!?#@\t")
	c01OddText     = []byte(" : \t::x#\x01\xa0\xc2\x85")
	c01CtcpVAlpha  = []byte("ABCDEFGHIJKLMNOPQRSTUVWXYZ0123456789!#$%&*+-./:<=>?@[]^_{|}~")
	// verbs (any letter case) the generator likes
	c01VerbWords = []string{"privmsg", "notice", "PRIVMSG", "NOTICE", "PrivMsg", "join", "ACTION", "CTCP",
		"ctcpreply", "part", "quit", "mode", "nick", "ping", "cap", "topic", "kick", "wallops", "error"}
	// Verbs for "conn" cases.  The session is a default client (no state tracking: the
	// stHandlers of state_handlers.go - JOIN KICK MODE NICK PART QUIT TOPIC 311 324 332 352
	// 353 671 - are only installed by EnableStateTracking), so the only internal handlers
	// are the ones of handlers.go: REGISTER 001 433 CTCP NICK PING CAP 410 AUTHENTICATE 903
	// 904 908.  Of these 001/433/NICK change the client's nick, PING/CAP/410/433/908 index
	// line.Args without a length check (a recovered panic, but noise) and CAP/903/904/908
	// write CAP END: none of them is used.  Everything below has NO internal handler, except
	// that PRIVMSG/NOTICE carrying a CTCP payload become CTCP (h_CTCP answers VERSION and
	// PING with a CTCPREPLY that the in-memory server swallows: harmless), ACTION or
	// CTCPREPLY (no internal handler).  The literal verbs CTCP/ACTION/CTCPREPLY are not
	// in the list (a bare "CTCP" line would make h_CTCP index Args[0]).
	c01ConnVerbs    = []string{"PRIVMSG", "NOTICE", "privmsg", "nOtIcE", "FOO", "bar", "wAlLoPs", "305", "306", "TOPIC", "KICK", "MODE", "JOIN", "part", "Quit", "INVITE", "332", "353", "005"}
	c01ConnMsgVerbs = []string{"PRIVMSG", "NOTICE", "privmsg", "nOtIcE", "Privmsg", "notice"}
	c01CtcpVerbs    = []string{"ACTION", "ACTION", "ACTION", "VERSION", "PING", "TIME", "X", "A1", "DCC", "FINGER", "CLIENTINFO"}
	c01Targets      = []string{"#c", "&x", "+y", "!z", "#chan", "nick", "vbot", "n", "#", "&", "a:b"}
)

// a byte >= 0x80 that cannot start a UTF-8 encoded Unicode white space (Go's strings.Fields /
// TrimSpace are Unicode aware: U+0085 U+00A0 = C2 xx, U+1680 = E1.., U+2000.. = E2.., U+3000 = E3..)
func c01High(r *Rand) byte {
	for {
		c := byte(0x80 + r.Intn(128))
		if c != 0xC2 && c != 0xE1 && c != 0xE2 && c != 0xE3 {
			return c
		}
	}
}

// a control byte that is neither NUL nor ASCII white space
func c01Ctl(r *Rand) byte {
	cs := []byte{1, 1, 1, 2, 3, 4, 7, 8, 14, 15, 22, 27, 31, 127}
	return cs[r.Intn(len(cs))]
}

// c01Word: lo..hi bytes from alpha; ~10% of the words also carry high bytes, a few carry
// control bytes.  Never NUL / ASCII white space (the alphabets contain none).
func c01Word(r *Rand, lo, hi int, alpha []byte) []byte {
	n := r.Range(lo, hi)
	high := r.Chance(10)
	ctl := r.Chance(6)
	b := make([]byte, n)
	for i := range b {
		switch {
		case high && r.Chance(45):
			b[i] = c01High(r)
		case ctl && r.Chance(35):
			b[i] = c01Ctl(r)
		default:
			b[i] = alpha[r.Intn(len(alpha))]
		}
	}
	return b
}

func c01RandCase(r *Rand, s string) []byte {
	b := []byte(s)
	for i, c := range b {
		if c01IsLetter(c) && r.Bool() {
			b[i] = c ^ 0x20
		}
	}
	return b
}

func c01GenKey(r *Rand) []byte {
	k := c01Word(r, 1, 8, c01KeyAlpha)
	if r.Chance(15) { // tab : @ ! and other odd-but-legal key bytes
		odd := []byte("\t:@!,*#\x01\x7f")
		k[r.Intn(len(k))] = odd[r.Intn(len(odd))]
	}
	for i, c := range k { // control bytes planted by c01Word are fine, '\\' etc. never occur
		switch c {
		case '=', ';', ' ', '\\', '\r', '\n', 0:
			k[i] = 'k'
		}
	}
	return k
}

func c01GenVal(r *Rand) []byte {
	n := r.Range(0, 12)
	special := []byte("; \\\r\n=:")
	escs := []byte(":s\\rnx")
	v := []byte{}
	for len(v) < n {
		switch x := r.Intn(100); {
		case x < 40:
			v = append(v, special[r.Intn(len(special))])
		case x < 55:
			v = append(v, '\\', escs[r.Intn(len(escs))])
		case x < 85:
			v = append(v, c01Letters[r.Intn(len(c01Letters))])
		default:
			v = append(v, byte(1+r.Intn(255)))
		}
	}
	if len(v) > 12 {
		v = v[:12]
	}
	if len(v) > 0 && r.Chance(15) {
		v[len(v)-1] = '\\'
	}
	return v
}

func c01GenTag(r *Rand) c01Tag {
	t := c01Tag{Key: c01GenKey(r)}
	switch x := r.Intn(100); {
	case x < 20: // key only
	case x < 35:
		t.HasVal, t.Val = true, []byte{}
	default:
		t.HasVal, t.Val = true, c01GenVal(r)
	}
	return t
}

func c01GenTags(r *Rand, m *c01Msg) {
	m.HasTags = true
	n := r.Range(1, 6)
	if r.Chance(8) {
		n = r.Range(7, 12)
	}
	dup := n > 1 && r.Chance(25)
	for i := 0; i < n; i++ {
		t := c01GenTag(r)
		if dup && i > 0 && r.Chance(50) {
			t.Key = append([]byte{}, m.Tags[r.Intn(i)].Key...)
		}
		m.Tags = append(m.Tags, t)
	}
	if dup { // make sure at least one key repeats
		m.Tags[n-1].Key = append([]byte{}, m.Tags[r.Intn(n-1)].Key...)
	}
}

func c01GenName(r *Rand) []byte { return c01Word(r, 1, 12, c01NameAlpha) }

func c01GenSrc(r *Rand, m *c01Msg, kind int) {
	m.SrcKind = kind
	switch kind {
	case 1:
		var w []byte
		switch x := r.Intn(100); {
		case x < 10:
			w = []byte(r.Pick([]string{"::1", ":", "irc.example.net", "a.b", "[::1]", "*.net", "nick!user", "user@host", "@", "!"}))
		default:
			w = c01Word(r, 1, 12, c01ServerAlpha)
			if r.Chance(20) { // one of '!' / '@' (never both kinds)
				c := byte('!')
				if r.Bool() {
					c = '@'
				}
				for k := r.Range(1, 2); k > 0; k-- {
					w[r.Intn(len(w))] = c
				}
			}
		}
		m.A = w
	case 2:
		m.A, m.B, m.C = c01GenName(r), c01GenName(r), c01GenName(r)
		if r.Chance(30) {
			m.A = []byte(r.Pick([]string{"nick", "vbot", "Bob", "a"}))
		}
		if r.Chance(30) {
			m.C = []byte(r.Pick([]string{"host.example", "10.0.0.1", "::1", "h"}))
		}
	}
}

func c01GenSrcKind(r *Rand) int {
	switch x := r.Intn(100); {
	case x < 30:
		return 0
	case x < 60:
		return 1
	}
	return 2
}

func c01GenVerb(r *Rand) []byte {
	if r.Chance(30) {
		if r.Chance(30) {
			return []byte(r.Pick([]string{"001", "005", "332", "353", "366", "372", "433", "000", "999"}))
		}
		return r.Bytes(3, []byte(c01Digits))
	}
	if r.Chance(55) {
		return c01RandCase(r, r.Pick(c01VerbWords))
	}
	return r.Bytes(r.Range(1, 10), []byte(c01Letters))
}

func c01GenMiddle(r *Rand) []byte {
	p := c01Word(r, 1, 10, c01MidAlpha)
	switch x := r.Intn(100); {
	case x < 25: // channel-like
		p[0] = "#&+!"[r.Intn(4)]
	case x < 33: // \x01 bytes (also at both ends: CTCP-shaped middles)
		p[r.Intn(len(p))] = 1
		if r.Bool() {
			p[0] = 1
			p[len(p)-1] = 1
		}
	case x < 43 && len(p) > 1:
		p[1+r.Intn(len(p)-1)] = ':'
	}
	if p[0] == ':' {
		p[0] = c01Letters[r.Intn(len(c01Letters))]
	}
	return p
}

func c01GenExtra(r *Rand) int {
	if r.Chance(85) {
		return 0
	}
	return r.Range(1, 4)
}

func c01GenMids(r *Rand, m *c01Msg, n int) {
	m.Mids = nil
	for i := 0; i < n; i++ {
		m.Mids = append(m.Mids, c01Mid{Extra: c01GenExtra(r), P: c01GenMiddle(r)})
	}
}

func c01GenMidCount(r *Rand) int {
	switch x := r.Intn(100); {
	case x < 20:
		return 0
	case x < 40:
		return 1
	case x < 60:
		return 2
	case x < 75:
		return 14
	}
	return r.Range(0, 14)
}

// free text: no NUL CR LF; soh says whether \x01 may occur
func c01TextByte(r *Rand, style int, soh bool) byte {
	for {
		var c byte
		switch style {
		case 0:
			c = c01TextAlpha[r.Intn(len(c01TextAlpha))]
		case 1:
			c = byte(1 + r.Intn(255))
		default:
			c = c01OddText[r.Intn(len(c01OddText))]
		}
		if c == 0 || c == '\r' || c == '\n' || (c == 1 && !soh) {
			continue
		}
		return c
	}
}

func c01Insert(b []byte, pos int, ins string) []byte {
	o := append([]byte{}, b[:pos]...)
	o = append(o, ins...)
	return append(o, b[pos:]...)
}

func c01GenTrailText(r *Rand) []byte {
	n := r.Range(1, 40)
	style := r.Intn(3)
	t := make([]byte, n)
	for i := range t {
		t[i] = c01TextByte(r, style, true)
	}
	if r.Chance(20) {
		t = c01Insert(t, r.Intn(len(t)+1), " :")
	}
	if r.Chance(10) {
		t = c01Insert(t, r.Intn(len(t)+1), "\xc2\xa0")
	}
	if r.Chance(10) {
		t = c01Insert(t, r.Intn(len(t)+1), "\x01")
	}
	if r.Chance(4) { // CTCP-shaped by accident (mostly rejected for PRIVMSG/NOTICE)
		t = c01Insert(c01Insert(t, len(t), "\x01"), 0, "\x01")
	}
	if r.Chance(20) {
		t = c01Insert(t, 0, ":")
	}
	if r.Chance(15) {
		t = c01Insert(t, 0, " ")
	}
	if r.Chance(15) {
		t = c01Insert(t, len(t), "   "[:r.Range(1, 3)])
	}
	if r.Chance(8) {
		t = c01Insert(t, len(t), "\t")
	}
	if len(t) > 40 {
		t = t[:40]
	}
	return t
}

func c01GenTrail(r *Rand, m *c01Msg) {
	switch x := r.Intn(100); {
	case x < 25:
		m.HasTrail, m.Trail = false, nil
	case x < 35:
		m.HasTrail, m.Trail = true, []byte{}
	default:
		m.HasTrail, m.Trail = true, c01GenTrailText(r)
	}
}

func c01GenCtcpPayload(r *Rand) []byte {
	var v []byte
	if r.Chance(25) {
		v = r.Bytes(r.Range(1, 8), c01CtcpVAlpha)
	} else {
		v = []byte(r.Pick(c01CtcpVerbs))
	}
	n := r.Range(1, 20)
	style := r.Intn(2)
	t := make([]byte, n)
	for i := range t {
		t[i] = c01TextByte(r, style, false)
	}
	if r.Chance(15) {
		t[0] = ' '
	}
	if r.Chance(10) {
		t[len(t)-1] = ' '
	}
	p := []byte{1}
	p = append(p, v...)
	p = append(p, ' ')
	p = append(p, t...)
	return append(p, 1)
}

func c01GenTarget(r *Rand) []byte {
	if r.Chance(70) {
		return []byte(r.Pick(c01Targets))
	}
	return c01GenMiddle(r)
}

// one candidate message (possibly not well formed: the caller filters with c01Wf)
func c01GenOnce(r *Rand, conn bool) *c01Msg {
	m := &c01Msg{}
	shape := r.Intn(100)
	msgVerb := false // the verb must stay a PRIVMSG / NOTICE spelling
	if r.Chance(50) {
		c01GenTags(r, m)
	}
	c01GenSrc(r, m, c01GenSrcKind(r))
	m.Verb = c01GenVerb(r)
	switch {
	case shape < 20: // dedicated CTCP: PRIVMSG/NOTICE target :\x01V text\x01
		msgVerb = true
		if r.Chance(60) && m.SrcKind != 2 {
			c01GenSrc(r, m, 2)
		}
		m.Verb = c01RandCase(r, r.Pick([]string{"PRIVMSG", "NOTICE"}))
		m.Mids = []c01Mid{{Extra: c01GenExtra(r), P: c01GenTarget(r)}}
		m.HasTrail, m.Trail = true, c01GenCtcpPayload(r)
	case shape < 30: // corner cases
		switch r.Intn(8) {
		case 0: // 14 middles + trailing
			c01GenMids(r, m, 14)
			m.HasTrail, m.Trail = true, c01GenTrailText(r)
		case 1: // the verb alone
			m.HasTags, m.Tags, m.SrcKind, m.A, m.B, m.C = false, nil, 0, nil, nil, nil
		case 2: // no middle, trailing
			m.HasTrail, m.Trail = true, c01GenTrailText(r)
		case 3: // verb only, with tags and source
			if !m.HasTags {
				c01GenTags(r, m)
			}
			if m.SrcKind == 0 {
				c01GenSrc(r, m, r.Range(1, 2))
			}
		case 4: // trailing beginning with ':'
			c01GenMids(r, m, r.Range(0, 3))
			m.HasTrail, m.Trail = true, append([]byte(":"), c01GenTrailText(r)...)
		case 5: // trailing containing " :"
			c01GenMids(r, m, r.Range(0, 3))
			t := c01GenTrailText(r)
			m.HasTrail, m.Trail = true, c01Insert(t, r.Intn(len(t)+1), " :")
		case 6: // a single key-only tag
			m.HasTags, m.Tags = true, []c01Tag{{Key: c01GenKey(r)}}
			c01GenMids(r, m, c01GenMidCount(r))
			c01GenTrail(r, m)
		default: // numeric with many parameters
			m.Verb = r.Bytes(3, []byte(c01Digits))
			c01GenMids(r, m, r.Range(10, 14))
			c01GenTrail(r, m)
		}
	default:
		if r.Chance(25) { // ordinary chat lines
			msgVerb = true
			m.Verb = c01RandCase(r, r.Pick([]string{"PRIVMSG", "NOTICE"}))
			m.Mids = []c01Mid{{Extra: c01GenExtra(r), P: c01GenTarget(r)}}
			if r.Chance(15) {
				c01GenMids(r, m, c01GenMidCount(r))
			}
		} else {
			c01GenMids(r, m, c01GenMidCount(r))
		}
		c01GenTrail(r, m)
	}
	if conn {
		if msgVerb {
			m.Verb = []byte(r.Pick(c01ConnMsgVerbs))
		} else {
			m.Verb = []byte(r.Pick(c01ConnVerbs))
		}
	}
	return m
}

func c01GenMsg(r *Rand, conn bool) *c01Msg {
	for {
		m := c01GenOnce(r, conn)
		if c01Wf(m) {
			return m
		}
	}
}

// ---------- long lines (kind "cbig") ----------
// escaped length of a tag value
func c01EscLen(v []byte) int { return len(c01Escape(v)) }

// a tag value whose ESCAPED form has about n bytes: letters with escapes sprinkled in
func c01LongVal(r *Rand, n int) []byte {
	special := []byte("; \\\r\n=:")
	v := []byte{}
	l := 0
	for l < n {
		switch x := r.Intn(100); {
		case x < 12 && l+2 <= n:
			v = append(v, special[r.Intn(len(special))])
		case x < 16:
			v = append(v, byte(1+r.Intn(255)))
		default:
			v = append(v, c01Letters[r.Intn(len(c01Letters))])
		}
		l = c01EscLen(v)
	}
	return v
}

func c01LongWord(r *Rand, n int) []byte {
	if n < 1 {
		n = 1
	}
	p := c01Word(r, n, n, c01MidAlpha)
	if p[0] == ':' {
		p[0] = 'm'
	}
	return p
}

// c01GenBig: a well-formed message whose rendered length is EXACTLY target bytes.
// layout 0: huge tag section, 1: long trailing, 2: 14 long middles, 3: all three.
func c01GenBig(r *Rand, target, layout int, serial []byte) *c01Msg {
	for {
		m := &c01Msg{}
		c01GenSrc(r, m, 2)
		m.Verb = []byte(r.Pick(c01ConnVerbs))
		m.HasTrail = true
		m.Trail = append([]byte("big "), serial...)
		m.Trail = append(m.Trail, ' ')
		base := len(c01Render(m))
		budget := target - base - 40
		if budget < 0 {
			budget = 0
		}
		tagB, midB := 0, 0
		switch layout {
		case 0:
			tagB = budget
		case 2:
			midB = budget
		case 3:
			tagB, midB = budget/3, budget/3
		}
		if tagB > 0 {
			m.HasTags = true
			used, i := 0, 0
			for used < tagB-30 {
				k := append([]byte("t"+strconv.Itoa(i)+"."), c01GenKey(r)...)
				if i > 2 && r.Chance(10) { // duplicate key: last wins
					k = append([]byte{}, m.Tags[r.Intn(i)].Key...)
				}
				vl := r.Range(20, 700)
				if rest := tagB - used - len(k) - 2; vl > rest {
					vl = rest
				}
				if vl < 0 {
					vl = 0
				}
				t := c01Tag{Key: k, HasVal: true, Val: c01LongVal(r, vl)}
				if r.Chance(5) {
					t = c01Tag{Key: k}
				}
				m.Tags = append(m.Tags, t)
				used += len(k) + 2 + c01EscLen(t.Val)
				i++
			}
		}
		if midB > 0 {
			per := midB/14 - 2
			for i := 0; i < 14; i++ {
				m.Mids = append(m.Mids, c01Mid{Extra: c01GenExtra(r) / 2, P: c01LongWord(r, per)})
			}
		}
		// pad to the exact length: the trailing (layouts 1, 3), the last tag value (0), the last middle (2)
		d := target - len(c01Render(m))
		if d < 0 {
			continue
		}
		pad := bytes.Repeat([]byte("x"), d)
		switch {
		case layout == 0 && len(m.Tags) > 0 && m.Tags[len(m.Tags)-1].HasVal:
			t := &m.Tags[len(m.Tags)-1]
			t.Val = append(t.Val, pad...)
		case layout == 2 && len(m.Mids) > 0:
			p := &m.Mids[len(m.Mids)-1]
			p.P = append(p.P, pad...)
		default:
			for i := range pad { // words and spaces, " :" now and then
				if i%9 == 8 {
					pad[i] = ' '
				} else if i%50 == 9 {
					pad[i] = ':'
				}
			}
			m.Trail = append(m.Trail, pad...)
		}
		if c01Wf(m) && len(c01Render(m)) == target {
			return m
		}
	}
}

var c01BigChunks = []int{1, 3, 64, 500, 1500, 4095, 4097}

// every run: rendered lengths around bufio's 4096-byte buffer (the line with CR LF is
// rendered+2 bytes: 4094 just fits) and well beyond it, each once in one Write and once
// in pieces, all four layouts rotating
func c01GenBigCases(r *Rand, emit func(Fields)) {
	sizes := []int{4094, 4095, 4096, 4097, r.Range(4090, 4093), r.Range(4098, 4100), r.Range(4090, 4100),
		r.Range(4101, 4999), 5000, r.Range(5001, 8190), 8191 + 510, 20000}
	serial := 0
	for i, sz := range sizes {
		for mode := 0; mode < 2; mode++ {
			serial++
			ser := []byte(strconv.Itoa(serial) + "-" + strconv.Itoa(r.Intn(1000000)))
			m := c01GenBig(r, sz, (i+mode)%4, ser)
			chunk := 0
			if mode == 1 {
				chunk = c01BigChunks[r.Intn(len(c01BigChunks))]
			}
			in := F("cbig", c01Render(m), chunk, ser)
			in = append(in, c01Encode("x", m)[2:]...)
			d, ok := c01Decode(in)
			if !ok || !c01Wf(d) || !bytes.Equal(c01Render(d), in[1]) || len(in[1]) != sz {
				panic("c01Gen: emitted cbig case is not in the claim")
			}
			emit(in)
		}
	}
}

func c01Gen(r *Rand, tier string, scale int, emit func(Fields)) {
	if scale == 0 {
		scale = 3000
		if tier == "thorough" {
			scale = 100000
		}
	}
	nconn := scale / 10
	if nconn > 200 {
		nconn = 200
	}
	for i := 0; i < scale; i++ {
		kind, conn := "parse", false
		if i >= scale-nconn {
			kind, conn = "conn", true
		}
		in := c01Encode(kind, c01GenMsg(r, conn))
		// self-check: what is emitted decodes to a well-formed message that renders to field 1
		d, ok := c01Decode(in)
		if !ok || !c01Wf(d) || !bytes.Equal(c01Render(d), in[1]) {
			panic("c01Gen: emitted case is not in the claim: " + in.String())
		}
		emit(in)
	}
	c01GenBigCases(r, emit)
}
