package main

import (
	"fmt"
	"reflect"
	"runtime"
	"sort"
	"strconv"
	"strings"
	"sync"
	"sync/atomic"

	"github.com/fluffle/goirc/state"
)

// C14: tracker answers are private snapshots, and the tracker is safe to share.
//
// kind "alias": input = ["alias"; me; #N; nicks...; #C; chans...; (opcode; #args; args...)*]
//   After EACH operation on one real tracker the harness
//     (1) renders the returned value (= a deep copy, in canonical form; recorded),
//     (2) OVERWRITES every field of it through the pointers it was given (strings, every bool of
//         *NickMode / *ChanMode / *ChanPrivs, Key, Limit, map entries deleted / added / flipped),
//     (3) sweeps every query once more and scribbles over all those results too (not recorded),
//     (4) sweeps every query again and records the results (kept pristine);
//   every value ever returned is kept, together with its rendering AND a reflective deep
//   fingerprint (every field, also ones the harness does not know) at the time it was last
//   touched by the harness; at the end each is rendered and fingerprinted again.  The scribble
//   also goes through reflection over everything reachable (scalars, slice elements and spare
//   capacity, map values); the fingerprints of sweep (3), taken before the scribbling, must equal
//   those of sweep (4).
//   obs = per operation: return value, sweep (4)   [the format of C12]
//         then one flag per operation: "t" iff every value obtained during that step still
//         renders the same after all later operations.
// kind "conc": input = ["conc"; me; #fields of setup; setup ops...; T; (#fields; ops...) x T]
//   The setup runs sequentially; then T goroutines hammer the one tracker, each call stamped
//   with invoke / return numbers from ONE atomic counter.
//   obs = per goroutine, per call: inv; ret; #fields; rendered result.

// kind "hammer": input = ["hammer"; note; me; #fields; setup ops...; #fields; writer ops w_1..w_n;
//                          R; #fields; query ops...; cap]
//   ONE writer goroutine applies w_1..w_n (multi-field updates of one channel / one nick) while R
//   reader goroutines call the queries in a tight loop until the writer is done.  The writer
//   publishes started = i before calling w_i and done = i after it returned.  Each read is
//   stamped lo = done read BEFORE the call, hi = started read AFTER it returned: with a single
//   writer the read is linearizable iff its result is the query's answer in the state after
//   SOME prefix w_1..w_j with lo <= j <= hi.  A torn snapshot matches no prefix at all.
//   obs = per recorded read: query index; lo; hi; #fields; rendered result.  Every read that
//   overlapped a writer call (hi > lo) is recorded (up to cap per reader), of the others every 16th
//   (if the writer contains Wipe calls: every read whose window contains one, of the others a sample).
//   Variant "wipe": the setup puts the client on N channels, the writer does ONE Wipe() among
//   cheap calls, the readers spin on Me() and GetChannel(first/last): a Me() listing k of N
//   channels, 0 < k < N, matches no prefix (Wipe is one call).
//   The observation depends on the schedule: a replay re-runs the race, it does not reproduce
//   the recorded reads bit for bit.

func init() {
	props["C14"] = &Prop{Gen: c14Gen, Exec: c14Exec, Class: c14Class}
}

type c14Op struct {
	code string
	args []string
}

func c14OpFields(ops []c14Op) Fields {
	var f Fields
	for _, o := range ops {
		f = append(f, F(o.code, len(o.args), o.args)...)
	}
	return f
}

// parses (opcode; #args; args...)* from in[i:j]
func c14ParseOps(in Fields, i, j int) ([]c14Op, bool) {
	var ops []c14Op
	for i < j {
		if i+1 >= j {
			return nil, false
		}
		code := string(in[i])
		n, err := strconv.Atoi(string(in[i+1]))
		if err != nil || n < 0 || i+2+n > j {
			return nil, false
		}
		o := c14Op{code: code}
		for k := 0; k < n; k++ {
			o.args = append(o.args, string(in[i+2+k]))
		}
		ops = append(ops, o)
		i += 2 + n
	}
	return ops, true
}

// ---------- a returned value ----------
type c14Val struct {
	kind  byte // 'N' *Nick, 'C' *Channel, 'I' (*ChanPrivs, bool), 'P' *ChanPrivs, 'U' nothing
	nick  *state.Nick
	ch    *state.Channel
	privs *state.ChanPrivs
	ok    bool
}

func c14Flag(b bool, ch byte) string {
	if b {
		return string(ch)
	}
	return ""
}

func c14Privs(p *state.ChanPrivs) string {
	return c14Flag(p.Owner, 'q') + c14Flag(p.Admin, 'a') + c14Flag(p.Op, 'o') + c14Flag(p.HalfOp, 'h') + c14Flag(p.Voice, 'v')
}

func c14OptPrivs(p *state.ChanPrivs) string {
	if p == nil {
		return "nil"
	}
	return "P" + c14Privs(p)
}

func c14Pairs(m map[string]*state.ChanPrivs) Fields {
	keys := make([]string, 0, len(m))
	for k := range m {
		keys = append(keys, k)
	}
	sort.Strings(keys)
	f := F(len(m))
	for _, k := range keys {
		if m[k] == nil {
			f = append(f, F(k, "nilprivs")...)
		} else {
			f = append(f, F(k, c14Privs(m[k]))...)
		}
	}
	return f
}

func (v c14Val) render() Fields {
	switch v.kind {
	case 'N':
		n := v.nick
		if n == nil {
			return F("nil")
		}
		modes := "nilmodes"
		if m := n.Modes; m != nil {
			modes = c14Flag(m.Bot, 'B') + c14Flag(m.Invisible, 'i') + c14Flag(m.Oper, 'o') + c14Flag(m.WallOps, 'w') + c14Flag(m.HiddenHost, 'x') + c14Flag(m.SSL, 'z')
		}
		return F("N", n.Nick, n.Ident, n.Host, n.Name, modes, c14Pairs(n.Channels))
	case 'C':
		c := v.ch
		if c == nil {
			return F("nil")
		}
		if c.Modes == nil {
			return F("C", c.Name, c.Topic, "nilmodes", "", 0, c14Pairs(c.Nicks))
		}
		m := c.Modes
		flags := c14Flag(m.Private, 'p') + c14Flag(m.Secret, 's') + c14Flag(m.ProtectedTopic, 't') + c14Flag(m.NoExternalMsg, 'n') +
			c14Flag(m.Moderated, 'm') + c14Flag(m.InviteOnly, 'i') + c14Flag(m.OperOnly, 'O') + c14Flag(m.SSLOnly, 'z') +
			c14Flag(m.Registered, 'r') + c14Flag(m.AllSSL, 'Z')
		return F("C", c.Name, c.Topic, flags, m.Key, m.Limit, c14Pairs(c.Nicks))
	case 'I':
		return F(c14OptPrivs(v.privs), v.ok)
	case 'P':
		return F(c14OptPrivs(v.privs))
	case 'U':
		return F("u")
	}
	return F("badop")
}

func c14FlipPrivs(p *state.ChanPrivs) {
	if p == nil {
		return
	}
	p.Owner, p.Admin, p.Op, p.HalfOp, p.Voice = !p.Owner, !p.Admin, !p.Op, !p.HalfOp, !p.Voice
}

func c14ScribbleMap(m map[string]*state.ChanPrivs) {
	if m == nil {
		return
	}
	keys := make([]string, 0, len(m))
	for k, cp := range m {
		c14FlipPrivs(cp) // through the pointer the tracker handed out
		keys = append(keys, k)
	}
	sort.Strings(keys)
	if len(keys) > 0 {
		delete(m, keys[0])
	}
	if len(keys) > 1 {
		m[keys[1]] = &state.ChanPrivs{Owner: true, Voice: true} // replace an entry
	}
	m["~zz"] = &state.ChanPrivs{Op: true} // add one
	m["me"] = &state.ChanPrivs{Admin: true}
	m["#x"] = &state.ChanPrivs{HalfOp: true}
}

// overwrite every field of everything reachable from v
func (v c14Val) scribble() {
	switch v.kind {
	case 'N':
		n := v.nick
		if n == nil {
			return
		}
		n.Nick += "~"
		n.Ident += "~"
		n.Host += "~"
		n.Name += "~"
		if m := n.Modes; m != nil {
			m.Bot, m.Invisible, m.Oper, m.WallOps, m.HiddenHost, m.SSL = !m.Bot, !m.Invisible, !m.Oper, !m.WallOps, !m.HiddenHost, !m.SSL
		}
		c14ScribbleMap(n.Channels)
	case 'C':
		c := v.ch
		if c == nil {
			return
		}
		c.Name += "~"
		c.Topic += "~"
		if m := c.Modes; m != nil {
			m.Private, m.Secret, m.ProtectedTopic, m.NoExternalMsg, m.Moderated = !m.Private, !m.Secret, !m.ProtectedTopic, !m.NoExternalMsg, !m.Moderated
			m.InviteOnly, m.OperOnly, m.SSLOnly, m.Registered, m.AllSSL = !m.InviteOnly, !m.OperOnly, !m.SSLOnly, !m.Registered, !m.AllSSL
			m.Key += "~"
			m.Limit += 7
		}
		c14ScribbleMap(c.Nicks)
	case 'I', 'P':
		c14FlipPrivs(v.privs)
	}
}

func c14Arg(o c14Op, i int) string {
	if i < len(o.args) {
		return o.args[i]
	}
	return ""
}

// one operation on the real tracker
func c14Call(st state.Tracker, o c14Op) c14Val {
	a := func(i int) string { return c14Arg(o, i) }
	switch o.code {
	case "NN":
		return c14Val{kind: 'N', nick: st.NewNick(a(0))}
	case "GN":
		return c14Val{kind: 'N', nick: st.GetNick(a(0))}
	case "RN":
		return c14Val{kind: 'N', nick: st.ReNick(a(0), a(1))}
	case "DN":
		return c14Val{kind: 'N', nick: st.DelNick(a(0))}
	case "NI":
		return c14Val{kind: 'N', nick: st.NickInfo(a(0), a(1), a(2), a(3))}
	case "NM":
		return c14Val{kind: 'N', nick: st.NickModes(a(0), a(1))}
	case "NC":
		return c14Val{kind: 'C', ch: st.NewChannel(a(0))}
	case "GC":
		return c14Val{kind: 'C', ch: st.GetChannel(a(0))}
	case "DC":
		return c14Val{kind: 'C', ch: st.DelChannel(a(0))}
	case "TO":
		return c14Val{kind: 'C', ch: st.Topic(a(0), a(1))}
	case "CM":
		var rest []string
		if len(o.args) > 2 {
			rest = o.args[2:]
		}
		return c14Val{kind: 'C', ch: st.ChannelModes(a(0), a(1), rest...)}
	case "ME":
		return c14Val{kind: 'N', nick: st.Me()}
	case "IO":
		p, ok := st.IsOn(a(0), a(1))
		return c14Val{kind: 'I', privs: p, ok: ok}
	case "AS":
		return c14Val{kind: 'P', privs: st.Associate(a(0), a(1))}
	case "DI":
		st.Dissociate(a(0), a(1))
		return c14Val{kind: 'U'}
	case "WI":
		st.Wipe()
		return c14Val{kind: 'U'}
	}
	return c14Val{kind: '?'}
}

func c14SweepOps(nicks, chans []string) []c14Op {
	var qs []c14Op
	for _, n := range nicks {
		qs = append(qs, c14Op{"GN", []string{n}})
	}
	for _, c := range chans {
		qs = append(qs, c14Op{"GC", []string{c}})
	}
	for _, c := range chans {
		for _, n := range nicks {
			qs = append(qs, c14Op{"IO", []string{c, n}})
		}
	}
	return append(qs, c14Op{"ME", nil})
}

type c14Held struct {
	v    c14Val
	want string // canonical rendering (the fields the model knows)
	fp   string // reflective deep fingerprint (EVERY field, also ones added later)
	step int
}

// field-agnostic deep fingerprint: structs (all fields), pointers, maps (sorted keys), slices
// (the len elements), strings, bools, integers
func c14FPValue(sb *strings.Builder, v reflect.Value, depth int) {
	if depth > 12 {
		sb.WriteString("<deep>")
		return
	}
	switch v.Kind() {
	case reflect.Ptr, reflect.Interface:
		if v.IsNil() {
			sb.WriteString("nil")
			return
		}
		sb.WriteString("&")
		c14FPValue(sb, v.Elem(), depth+1)
	case reflect.Struct:
		sb.WriteString("{")
		for i := 0; i < v.NumField(); i++ {
			sb.WriteString(v.Type().Field(i).Name + ":")
			c14FPValue(sb, v.Field(i), depth+1)
			sb.WriteString(";")
		}
		sb.WriteString("}")
	case reflect.Map:
		if v.IsNil() {
			sb.WriteString("nilmap")
			return
		}
		keys := v.MapKeys()
		ks := make([]string, len(keys))
		idx := map[string]reflect.Value{}
		for i, k := range keys {
			var kb strings.Builder
			c14FPValue(&kb, k, depth+1)
			ks[i] = kb.String()
			idx[ks[i]] = k
		}
		sort.Strings(ks)
		sb.WriteString("map[")
		for _, k := range ks {
			sb.WriteString(k + "=>")
			c14FPValue(sb, v.MapIndex(idx[k]), depth+1)
			sb.WriteString(",")
		}
		sb.WriteString("]")
	case reflect.Slice, reflect.Array:
		if v.Kind() == reflect.Slice && v.IsNil() {
			sb.WriteString("nilslice")
			return
		}
		fmt.Fprintf(sb, "[%d:", v.Len())
		for i := 0; i < v.Len(); i++ {
			c14FPValue(sb, v.Index(i), depth+1)
			sb.WriteString(",")
		}
		sb.WriteString("]")
	case reflect.String:
		fmt.Fprintf(sb, "%q", v.String())
	case reflect.Bool:
		fmt.Fprintf(sb, "%t", v.Bool())
	case reflect.Int, reflect.Int8, reflect.Int16, reflect.Int32, reflect.Int64:
		fmt.Fprintf(sb, "%d", v.Int())
	case reflect.Uint, reflect.Uint8, reflect.Uint16, reflect.Uint32, reflect.Uint64, reflect.Uintptr:
		fmt.Fprintf(sb, "%d", v.Uint())
	case reflect.Float32, reflect.Float64:
		fmt.Fprintf(sb, "%g", v.Float())
	default:
		fmt.Fprintf(sb, "<%s>", v.Kind())
	}
}

func (v c14Val) fingerprint() string {
	var sb strings.Builder
	sb.WriteByte(v.kind)
	switch v.kind {
	case 'N':
		c14FPValue(&sb, reflect.ValueOf(v.nick), 0)
	case 'C':
		c14FPValue(&sb, reflect.ValueOf(v.ch), 0)
	case 'I', 'P':
		c14FPValue(&sb, reflect.ValueOf(v.privs), 0)
		fmt.Fprintf(&sb, "%t", v.ok)
	}
	return sb.String()
}

// a scribbled replacement for a value that is not settable in place (map values)
func c14Scribbled(v reflect.Value) reflect.Value {
	n := reflect.New(v.Type()).Elem()
	n.Set(v)
	c14RSValue(n, 0)
	return n
}

// field-agnostic scribble: set every settable string / bool / integer reachable from v, every
// slice element, the spare capacity of every slice, every map value
func c14RSValue(v reflect.Value, depth int) {
	if depth > 12 {
		return
	}
	switch v.Kind() {
	case reflect.Ptr, reflect.Interface:
		if !v.IsNil() {
			c14RSValue(v.Elem(), depth+1)
		}
	case reflect.Struct:
		for i := 0; i < v.NumField(); i++ {
			c14RSValue(v.Field(i), depth+1)
		}
	case reflect.Map:
		if v.IsNil() {
			return
		}
		for _, k := range v.MapKeys() {
			e := v.MapIndex(k)
			if e.Kind() == reflect.Ptr || e.Kind() == reflect.Map || e.Kind() == reflect.Slice {
				c14RSValue(e, depth+1)
			} else {
				v.SetMapIndex(k, c14Scribbled(e))
			}
		}
	case reflect.Slice:
		if v.IsNil() {
			return
		}
		for i := 0; i < v.Len(); i++ {
			c14RSValue(v.Index(i), depth+1)
		}
		if v.Cap() > v.Len() { // what an append by the caller would overwrite
			ext := v.Slice(0, v.Cap())
			for i := v.Len(); i < v.Cap(); i++ {
				c14RSValue(ext.Index(i), depth+1)
			}
		}
	case reflect.Array:
		for i := 0; i < v.Len(); i++ {
			c14RSValue(v.Index(i), depth+1)
		}
	case reflect.String:
		if v.CanSet() {
			v.SetString(v.String() + "~r")
		}
	case reflect.Bool:
		if v.CanSet() {
			v.SetBool(!v.Bool())
		}
	case reflect.Int, reflect.Int8, reflect.Int16, reflect.Int32, reflect.Int64:
		if v.CanSet() {
			v.SetInt(v.Int() + 1)
		}
	case reflect.Uint, reflect.Uint8, reflect.Uint16, reflect.Uint32, reflect.Uint64:
		if v.CanSet() {
			v.SetUint(v.Uint() + 1)
		}
	}
}

func (v c14Val) scribbleAll() {
	v.scribble() // the fields the harness knows: also deletes / replaces / adds map entries
	switch v.kind {
	case 'N':
		c14RSValue(reflect.ValueOf(v.nick), 0)
	case 'C':
		c14RSValue(reflect.ValueOf(v.ch), 0)
	case 'I', 'P':
		c14RSValue(reflect.ValueOf(v.privs), 0)
	}
}

func c14ExecAlias(in Fields) (obs Fields) {
	defer func() {
		if r := recover(); r != nil {
			obs = append(obs, []byte("panic"))
		}
	}()
	// ["alias"; me; #N; nicks; #C; chans; ops]
	if len(in) < 4 {
		return F("bad")
	}
	me := string(in[1])
	i := 2
	var lists [2][]string
	for k := 0; k < 2; k++ {
		if i >= len(in) {
			return F("bad")
		}
		n, err := strconv.Atoi(string(in[i]))
		if err != nil || n < 0 || i+1+n > len(in) {
			return F("bad")
		}
		for j := 0; j < n; j++ {
			lists[k] = append(lists[k], string(in[i+1+j]))
		}
		i += 1 + n
	}
	ops, ok := c14ParseOps(in, i, len(in))
	if !ok {
		return F("bad")
	}
	qs := c14SweepOps(lists[0], lists[1])
	st := state.Tracker(state.NewTracker(me))
	var held []c14Held
	good := make([]bool, len(ops))
	for k := range good {
		good[k] = true
	}
	for step, o := range ops {
		v := c14Call(st, o)
		obs = append(obs, v.render()...) // (1)
		// (3) one sweep: fingerprint every answer first (the tracker as it is BEFORE any scribbling) ...
		ws := make([]c14Val, len(qs))
		before := make([]string, len(qs))
		for k, q := range qs {
			ws[k] = c14Call(st, q)
			before[k] = ws[k].fingerprint()
		}
		// (2) ... then overwrite everything reachable from the operation's result and from all of them
		v.scribbleAll()
		held = append(held, c14Held{v, v.render().String(), v.fingerprint(), step})
		for _, w := range ws {
			w.scribbleAll()
			held = append(held, c14Held{w, w.render().String(), w.fingerprint(), step})
		}
		for k, q := range qs { // (4) recorded; must also fingerprint as before the scribbling
			w := c14Call(st, q)
			r := w.render()
			obs = append(obs, r...)
			fp := w.fingerprint()
			if fp != before[k] {
				good[step] = false
			}
			held = append(held, c14Held{w, r.String(), fp, step})
		}
	}
	for _, h := range held {
		if h.v.render().String() != h.want || h.v.fingerprint() != h.fp {
			good[h.step] = false
		}
	}
	for _, g := range good {
		obs = append(obs, F(g)...)
	}
	return obs
}

type c14Rec struct {
	inv, ret int64
	res      Fields
}

func c14ExecConc(in Fields) Fields { return c14RunConc(in, 1, false, true) }

// kind "nihammer": input = ["nihammer"; note; me; #fields; setup; T; (#fields; ops...) x T]
//   like "conc", but the goroutines run their (long) programs in a tight loop, and the LAST
//   program is an epilogue run by itself after all the others have returned.  The generator
//   makes 4-8 programs of NickInfo calls on ONE nick (all three strings of a call carry that
//   call's stamp), 2 programs of GetNick on it, and the epilogue GetNick.
func c14ExecNIHammer(in Fields) Fields { return c14RunConc(in, 2, true, false) }

// in[off] = me; in[off+1] = #setup fields; ...
func c14RunConc(in Fields, off int, epilogue, yield bool) (obs Fields) {
	if len(in) < off+3 {
		return F("bad")
	}
	me := string(in[off])
	ns, err := strconv.Atoi(string(in[off+1]))
	if err != nil || ns < 0 || off+2+ns >= len(in) {
		return F("bad")
	}
	setup, ok := c14ParseOps(in, off+2, off+2+ns)
	if !ok {
		return F("bad")
	}
	i := off + 2 + ns
	T, err := strconv.Atoi(string(in[i]))
	if err != nil || T < 0 || T > 64 {
		return F("bad")
	}
	i++
	progs := make([][]c14Op, T)
	for t := 0; t < T; t++ {
		if i >= len(in) {
			return F("bad")
		}
		nf, err := strconv.Atoi(string(in[i]))
		if err != nil || nf < 0 || i+1+nf > len(in) {
			return F("bad")
		}
		progs[t], ok = c14ParseOps(in, i+1, i+1+nf)
		if !ok {
			return F("bad")
		}
		i += 1 + nf
	}
	st := state.Tracker(state.NewTracker(me))
	for _, o := range setup {
		c14Call(st, o)
	}
	var ctr int64
	recs := make([][]c14Rec, T)
	panicked := int32(0)
	start := make(chan struct{})
	var ready int32
	var wg sync.WaitGroup
	conc := T
	if epilogue && T > 0 {
		conc = T - 1
	}
	if runtime.GOMAXPROCS(0) < 4 && runtime.NumCPU() >= 4 {
		runtime.GOMAXPROCS(4)
	}
	for t := 0; t < conc; t++ {
		wg.Add(1)
		go func(t int) {
			defer wg.Done()
			defer func() {
				if r := recover(); r != nil {
					atomic.StoreInt32(&panicked, 1)
				}
			}()
			<-start
			// spinning barrier: all goroutines leave together, so that the calls really overlap
			atomic.AddInt32(&ready, 1)
			for spin := 0; atomic.LoadInt32(&ready) < int32(conc); spin++ {
				if spin%2000 == 1999 {
					runtime.Gosched()
				}
			}
			for k, o := range progs[t] {
				inv := atomic.AddInt64(&ctr, 1)
				v := c14Call(st, o)
				ret := atomic.AddInt64(&ctr, 1)
				recs[t] = append(recs[t], c14Rec{inv, ret, v.render()})
				if yield && (k+t)%3 == 0 {
					runtime.Gosched()
				}
			}
		}(t)
	}
	close(start)
	wg.Wait()
	if atomic.LoadInt32(&panicked) != 0 {
		return F("panic")
	}
	if epilogue && T > 0 {
		for _, o := range progs[T-1] {
			inv := atomic.AddInt64(&ctr, 1)
			v := c14Call(st, o)
			ret := atomic.AddInt64(&ctr, 1)
			recs[T-1] = append(recs[T-1], c14Rec{inv, ret, v.render()})
		}
	}
	for t := 0; t < T; t++ {
		for _, r := range recs[t] {
			obs = append(obs, F(int(r.inv), int(r.ret), len(r.res), r.res)...)
		}
	}
	return obs
}

type c14Read struct {
	q, lo, hi int
	res       Fields
}

func c14ExecHammer(in Fields) (obs Fields) {
	// ["hammer"; note; me; #sf; setup; #wf; writer; R; #qf; queries; cap]
	if len(in) < 8 {
		return F("bad")
	}
	me := string(in[2])
	i := 3
	section := func() ([]c14Op, bool) {
		if i >= len(in) {
			return nil, false
		}
		nf, err := strconv.Atoi(string(in[i]))
		if err != nil || nf < 0 || i+1+nf > len(in) {
			return nil, false
		}
		ops, ok := c14ParseOps(in, i+1, i+1+nf)
		i += 1 + nf
		return ops, ok
	}
	setup, ok1 := section()
	writer, ok2 := section()
	if !ok1 || !ok2 || i >= len(in) {
		return F("bad")
	}
	R, err := strconv.Atoi(string(in[i]))
	if err != nil || R < 1 || R > 32 {
		return F("bad")
	}
	i++
	queries, ok3 := section()
	if !ok3 || len(queries) == 0 || i >= len(in) {
		return F("bad")
	}
	limit, err := strconv.Atoi(string(in[i]))
	if err != nil || limit < 1 {
		return F("bad")
	}
	if runtime.GOMAXPROCS(0) < 4 {
		runtime.GOMAXPROCS(4)
	}
	st := state.Tracker(state.NewTracker(me))
	for _, o := range setup {
		c14Call(st, o)
	}
	// hot[k]: writer call k (1-based) is a multi-step call (Wipe); if there are any, reads whose
	// window contains one are always recorded, other overlapping reads only every 8th
	hot := make([]bool, len(writer)+2)
	anyHot := false
	for k, o := range writer {
		if o.code == "WI" {
			hot[k+1] = true
			anyHot = true
		}
	}
	var started, done, ready, panicked int32
	var stop int32
	reads := make([][]c14Read, R)
	var wg sync.WaitGroup
	barrier := func() {
		atomic.AddInt32(&ready, 1)
		for spin := 0; atomic.LoadInt32(&ready) < int32(R+1); spin++ {
			if spin%2000 == 1999 {
				runtime.Gosched()
			}
		}
	}
	wg.Add(1)
	go func() {
		defer wg.Done()
		defer atomic.StoreInt32(&stop, 1)
		defer func() {
			if r := recover(); r != nil {
				atomic.StoreInt32(&panicked, 1)
			}
		}()
		barrier()
		for k, o := range writer {
			atomic.StoreInt32(&started, int32(k+1))
			c14Call(st, o)
			atomic.StoreInt32(&done, int32(k+1))
		}
	}()
	for r := 0; r < R; r++ {
		wg.Add(1)
		go func(r int) {
			defer wg.Done()
			defer func() {
				if x := recover(); x != nil {
					atomic.StoreInt32(&panicked, 1)
				}
			}()
			barrier()
			quiet, busy := 0, 0
			for n := r; ; n++ {
				q := n % len(queries)
				lo := int(atomic.LoadInt32(&done))
				v := c14Call(st, queries[q])
				hi := int(atomic.LoadInt32(&started))
				isHot := false
				for k := lo + 1; k <= hi && k < len(hot); k++ {
					isHot = isHot || hot[k]
				}
				if hi > lo && (isHot || !anyHot) {
					if len(reads[r]) < limit {
						reads[r] = append(reads[r], c14Read{q, lo, hi, v.render()})
					}
				} else if hi > lo {
					if busy++; busy%8 == 0 && len(reads[r]) < limit/2 {
						reads[r] = append(reads[r], c14Read{q, lo, hi, v.render()})
					}
				} else if quiet++; quiet%16 == 0 && len(reads[r]) < limit/2 {
					reads[r] = append(reads[r], c14Read{q, lo, hi, v.render()})
				}
				if atomic.LoadInt32(&stop) != 0 {
					break
				}
			}
		}(r)
	}
	wg.Wait()
	if atomic.LoadInt32(&panicked) != 0 {
		return F("panic")
	}
	for r := 0; r < R; r++ {
		for _, rd := range reads[r] {
			obs = append(obs, F(rd.q, rd.lo, rd.hi, len(rd.res), rd.res)...)
		}
	}
	return obs
}

func c14Exec(in Fields) Fields {
	switch in.S(0) {
	case "hammer":
		return c14ExecHammer(in)
	case "nihammer":
		return c14ExecNIHammer(in)
	case "alias":
		return c14ExecAlias(in)
	case "conc":
		return c14ExecConc(in)
	}
	return F("bad")
}

func c14Class(in Fields) string {
	switch in.S(0) {
	case "alias":
		n := strings.Count(" "+in.String()+" ", " ") // rough size only
		_ = n
		ops := 0
		// count operations: walk the op section
		i := 2
		for k := 0; k < 2 && i < len(in); k++ {
			i += 1 + in.I(i)
		}
		for i+1 < len(in) {
			ops++
			i += 2 + in.I(i+1)
		}
		switch {
		case ops < 20:
			return "alias:len<20"
		case ops < 100:
			return "alias:len=20-99"
		case ops < 250:
			return "alias:len=100-249"
		}
		return "alias:len=250+"
	case "nihammer":
		return "nihammer"
	case "hammer":
		for _, f := range in {
			if string(f) == "WI" {
				return "hammer:wipe"
			}
		}
		return "hammer:fields"
	case "conc":
		ns := in.I(2)
		T := in.I(3 + ns)
		switch {
		case T <= 2:
			return "conc:T=2"
		case T <= 5:
			return fmt.Sprintf("conc:T=%d", T)
		case T <= 8:
			return "conc:T=6-8"
		}
		return "conc:T=9-16"
	}
	return "bad"
}

// ---------- generators ----------
var c14Nicks = []string{"", "me", "al", "bo", "cy", "di"}
var c14Chans = []string{"", "#x", "#y", "#z"}

func c14O(code string, args ...string) c14Op { return c14Op{code, args} }

// mode string grammar of C12 (same rule for the situations the property leaves open: after a
// privilege letter naming a non-member, or after -k, no argument-consuming letter follows)
func c14ModeString(r *Rand, isOn func(n string) bool) (string, []string) {
	nargs := r.Intn(5)
	var args []string
	for i := 0; i < nargs; i++ {
		switch r.Intn(10) {
		case 0:
			args = append(args, r.Pick([]string{"key", "", "s3cret"}))
		case 1:
			args = append(args, r.Pick([]string{"5", "-3", "+7", "abc", "", "12x", "0", "99999999999999999999", "40"}))
		default:
			args = append(args, r.Pick(c14Nicks))
		}
	}
	n := r.Range(1, 7)
	var sb strings.Builder
	opAdd := false
	open := false
	rest := args
	for i := 0; i < n; i++ {
		var ch byte
		switch k := r.Intn(20); {
		case k < 3:
			ch = '+'
		case k < 5:
			ch = '-'
		case k < 9:
			ch = "imnprstzZO"[r.Intn(10)]
		case k < 11:
			ch = 'k'
		case k < 13:
			ch = 'l'
		case k < 18:
			ch = "qaohv"[r.Intn(5)]
		default:
			ch = "bXe!I"[r.Intn(5)]
		}
		switch ch {
		case '+':
			opAdd = true
		case '-':
			opAdd = false
		case 'k', 'l':
			if opAdd {
				if open {
					continue
				}
				if len(rest) > 0 {
					rest = rest[1:]
				}
			} else if ch == 'k' {
				open = true
			}
		case 'q', 'a', 'o', 'h', 'v':
			if open {
				continue
			}
			if len(rest) > 0 {
				if isOn(rest[0]) {
					rest = rest[1:]
				} else {
					open = true
				}
			}
		}
		sb.WriteByte(ch)
	}
	return sb.String(), args
}

func c14NickModeString(r *Rand) string {
	n := r.Range(0, 6)
	b := make([]byte, n)
	for i := range b {
		b[i] = "++--BiowxzBiowxzqk!"[r.Intn(19)]
	}
	return string(b)
}

// one random operation over the big universe; shadow answers the membership question only
func c14RandomOp(r *Rand, shadow state.Tracker) c14Op {
	N := func() string { return r.Pick(c14Nicks) }
	C := func() string {
		if r.Chance(4) {
			return ""
		}
		return c14Chans[1+r.Intn(3)]
	}
	switch k := r.Intn(100); {
	case k < 12:
		return c14O("NN", N())
	case k < 34:
		return c14O("AS", C(), N())
	case k < 43:
		return c14O("NC", C())
	case k < 52:
		return c14O("DI", C(), N())
	case k < 59:
		return c14O("RN", N(), N())
	case k < 63:
		return c14O("DN", N())
	case k < 66:
		return c14O("DC", C())
	case k < 67:
		return c14O("WI")
	case k < 70:
		// list modes, one letter per call: +b m1, +b m2, -b m1 ... (also e, I)
		return c14O("CM", C(), r.Pick([]string{"+b", "+b", "+b", "-b", "-b", "+e", "-e", "+I"}), r.Pick([]string{"m1!*@*", "m2!*@*", "m3!*@*", "*!*@m4"}))
	case k < 79:
		ch := C()
		ms, args := c14ModeString(r, func(n string) bool {
			_, ok := shadow.IsOn(ch, n)
			return ok
		})
		return c14O("CM", append([]string{ch, ms}, args...)...)
	case k < 83:
		return c14O("NM", N(), c14NickModeString(r))
	case k < 86:
		return c14O("NI", N(), r.Pick([]string{"", "id", "ident"}), r.Pick([]string{"", "host.example"}), r.Pick([]string{"", "Real Name"}))
	case k < 89:
		return c14O("TO", C(), r.Pick([]string{"", "a topic", "t"}))
	case k < 92:
		return c14O("GN", N())
	case k < 95:
		return c14O("GC", C())
	case k < 98:
		return c14O("IO", C(), N())
	}
	return c14O("ME")
}

func c14Alias(r *Rand, nops int) Fields {
	me := "me"
	if r.Chance(5) {
		me = ""
	}
	shadow := state.Tracker(state.NewTracker(me))
	var ops []c14Op
	if r.Chance(30) { // a ban list that grows and then loses a NON-last entry
		c := c14Chans[1+r.Intn(3)]
		ops = append(ops, c14O("NC", c), c14O("AS", c, me), c14O("CM", c, "+b", "m1!*@*"), c14O("CM", c, "+b", "m2!*@*"),
			c14O("CM", c, "+b", "m3!*@*"), c14O("GC", c), c14O("CM", c, "-b", "m1!*@*"), c14O("CM", c, "+e", "*!*@m4"),
			c14O("CM", c, "+I", "m2!*@*"), c14O("CM", c, "-b", "m3!*@*"))
		for _, o := range ops {
			c14Call(shadow, o)
		}
	}
	for i := 0; i < nops; i++ {
		o := c14RandomOp(r, shadow)
		ops = append(ops, o)
		func() {
			defer func() { recover() }()
			c14Call(shadow, o)
		}()
	}
	return append(F("alias", me, len(c14Nicks), c14Nicks, len(c14Chans), c14Chans), c14OpFields(ops)...)
}

var c14CNicks = []string{"me", "al", "bo"}
var c14CChans = []string{"#x", "#y"}

// operations for the concurrent histories: small universe, single-letter mode strings (so
// the argument-consumption cases the property leaves open cannot arise)
func c14ConcOp(r *Rand) c14Op {
	N := func() string { return r.Pick(c14CNicks) }
	C := func() string { return r.Pick(c14CChans) }
	switch k := r.Intn(100); {
	case k < 10:
		return c14O("NN", N())
	case k < 28:
		return c14O("AS", C(), N())
	case k < 36:
		return c14O("NC", C())
	case k < 46:
		return c14O("DI", C(), N())
	case k < 52:
		return c14O("RN", N(), N())
	case k < 56:
		return c14O("DN", N())
	case k < 59:
		return c14O("DC", C())
	case k < 60:
		return c14O("WI")
	case k < 70:
		switch r.Intn(6) {
		case 0:
			return c14O("CM", C(), "+t")
		case 1:
			return c14O("CM", C(), "-t")
		case 2:
			return c14O("CM", C(), "+k", r.Pick([]string{"k1", "k2"}))
		case 3:
			return c14O("CM", C(), r.Pick([]string{"+o", "-o", "+v", "-v"}), N())
		case 4:
			return c14O("CM", C(), "+l", r.Pick([]string{"5", "9"}))
		}
		return c14O("CM", C(), "-k")
	case k < 74:
		return c14O("NM", N(), r.Pick([]string{"+i", "-i", "+w", "+o-w"}))
	case k < 77:
		return c14O("NI", N(), r.Pick([]string{"i1", "i2"}), "h", "n")
	case k < 80:
		return c14O("TO", C(), r.Pick([]string{"t1", "t2"}))
	case k < 87:
		return c14O("GN", N())
	case k < 93:
		return c14O("GC", C())
	case k < 98:
		return c14O("IO", C(), N())
	}
	return c14O("ME")
}

func c14Conc(r *Rand) Fields {
	var setup []c14Op
	if r.Chance(70) { // a populated starting state
		setup = append(setup, c14O("NC", "#x"), c14O("AS", "#x", "me"))
		if r.Bool() {
			setup = append(setup, c14O("NN", "al"), c14O("AS", "#x", "al"))
		}
		if r.Bool() {
			setup = append(setup, c14O("NC", "#y"), c14O("AS", "#y", "me"))
		}
	}
	for k := r.Intn(6); k > 0; k-- {
		setup = append(setup, c14ConcOp(r))
	}
	T := r.Range(2, 5)
	maxOps := 6
	if r.Chance(30) {
		T = r.Range(6, 16)
		maxOps = 2
	}
	sf := c14OpFields(setup)
	f := append(F("conc", "me", len(sf)), sf...)
	f = append(f, F(T)...)
	for t := 0; t < T; t++ {
		n := r.Range(1, maxOps)
		var ops []c14Op
		for k := 0; k < n; k++ {
			ops = append(ops, c14ConcOp(r))
		}
		of := c14OpFields(ops)
		f = append(f, F(len(of))...)
		f = append(f, of...)
	}
	return f
}

const c14HammerNote = "concurrent case: a replay re-runs the race, the recorded reads are not reproduced bit for bit"

// one writer, R readers, one channel #c (members me, al, bo) and one nick al.  Every writer
// call moves SEVERAL fields together, all derived from the call's index i.
func c14Hammer(r *Rand) Fields {
	setup := []c14Op{c14O("NC", "#c"), c14O("AS", "#c", "me"), c14O("NN", "al"), c14O("AS", "#c", "al"),
		c14O("NN", "bo"), c14O("AS", "#c", "bo"), c14O("CM", "#c", "+kl", "00000000", "0")}
	n := r.Range(600, 1500)
	mix := 0 // 0: channel only (50%), 1: nick only (15%), 2: both (35%)
	if k := r.Intn(100); k >= 85 {
		mix = 1
	} else if k >= 50 {
		mix = 2
	}
	var w []c14Op
	for i := 1; i <= n; i++ {
		k := r.Intn(4)
		if mix == 0 {
			k = r.Intn(3)
		} else if mix == 1 {
			k = 3
		}
		si := fmt.Sprintf("%08d", i)
		switch k {
		case 0:
			w = append(w, c14O("CM", "#c", "+kl", si, strconv.Itoa(i)))
		case 1:
			w = append(w, c14O("TO", "#c", "topic "+si))
		case 2:
			if i%2 == 0 {
				w = append(w, c14O("CM", "#c", "+ovh+tn", "al", "bo", "me"))
			} else {
				w = append(w, c14O("CM", "#c", "-ovh-tn", "al", "bo", "me"))
			}
		default:
			w = append(w, c14O("NI", "al", "i"+si, "h"+si, "n"+si))
		}
	}
	queries := []c14Op{c14O("GC", "#c"), c14O("GN", "al"), c14O("IO", "#c", "al")}
	if mix == 0 {
		queries = []c14Op{c14O("GC", "#c"), c14O("IO", "#c", "bo")}
	} else if mix == 1 {
		queries = []c14Op{c14O("GN", "al"), c14O("GC", "#c")}
	}
	R := r.Range(4, 8)
	sf, wf, qf := c14OpFields(setup), c14OpFields(w), c14OpFields(queries)
	f := append(F("hammer", c14HammerNote, "me", len(sf)), sf...)
	f = append(append(f, F(len(wf))...), wf...)
	f = append(append(f, F(R, len(qf))...), qf...)
	return append(f, F(300)...)
}

// hammer variant for ONE multi-step call: the setup puts the client on N channels; the writer
// warms up with cheap calls, performs ONE Wipe(), and finishes with a few more calls, while the
// readers spin on Me() (whose Channels map lists all channels the client is on) and on
// GetChannel(first)/GetChannel(last).  No prefix of the writer's calls leaves the client on k of
// the N channels with 0 < k < N, so a Me() taken in the middle of a non-atomic Wipe fails the gate.
func c14HammerWipe(r *Rand) Fields {
	N := r.Range(60, 150)
	name := func(i int) string { return fmt.Sprintf("#w%03d", i) }
	var setup []c14Op
	setup = append(setup, c14O("NN", "al"))
	for i := 0; i < N; i++ {
		setup = append(setup, c14O("NC", name(i)), c14O("AS", name(i), "me"))
		if i%7 == 0 {
			setup = append(setup, c14O("AS", name(i), "al"))
		}
	}
	var w []c14Op
	cnt := 0
	ni := func() c14Op {
		cnt++
		si := fmt.Sprintf("%08d", cnt)
		return c14O("NI", "me", "i"+si, "h"+si, "n"+si)
	}
	rounds := r.Range(3, 5)
	for k := 0; k < rounds; k++ {
		for i, pre := 0, r.Range(10, 40); i < pre; i++ {
			w = append(w, ni())
		}
		w = append(w, c14O("WI"))
		if k+1 < rounds { // put the client back on all N channels
			for i := 0; i < N; i++ {
				w = append(w, c14O("NC", name(i)), c14O("AS", name(i), "me"))
			}
		}
	}
	for i, post := 0, r.Range(5, 20); i < post; i++ {
		w = append(w, ni())
	}
	queries := []c14Op{c14O("ME"), c14O("ME"), c14O("GC", name(0)), c14O("ME"), c14O("ME"), c14O("GC", name(N-1))}
	R := r.Range(4, 8)
	sf, wf, qf := c14OpFields(setup), c14OpFields(w), c14OpFields(queries)
	f := append(F("hammer", c14HammerNote, "me", len(sf)), sf...)
	f = append(append(f, F(len(wf))...), wf...)
	f = append(append(f, F(R, len(qf))...), qf...)
	return append(f, F(150)...)
}

// several writers on ONE nick: W goroutines each call NickInfo(nick, "i<t>.<k>", "h<t>.<k>", "n<t>.<k>")
// K times, 2 goroutines call GetNick(nick) K times, epilogue GetNick(nick)
func c14NIHammer(r *Rand) Fields {
	nick := r.Pick([]string{"al", "me"})
	setup := []c14Op{c14O("NC", "#c"), c14O("AS", "#c", "me"), c14O("NN", "al"), c14O("AS", "#c", "al"), c14O("NM", nick, "+iw")}
	W := r.Range(4, 8)
	K := r.Range(150, 300)
	sf := c14OpFields(setup)
	f := append(F("nihammer", c14HammerNote, "me", len(sf)), sf...)
	f = append(f, F(W+3)...)
	for t := 0; t < W; t++ {
		var ops []c14Op
		for k := 0; k < K; k++ {
			st := fmt.Sprintf("%d.%03d", t, k)
			ops = append(ops, c14O("NI", nick, "i"+st, "h"+st, "n"+st))
		}
		of := c14OpFields(ops)
		f = append(append(f, F(len(of))...), of...)
	}
	for t := 0; t < 3; t++ { // two readers and the epilogue
		n := K
		if t == 2 {
			n = 1
		}
		var ops []c14Op
		for k := 0; k < n; k++ {
			ops = append(ops, c14O("GN", nick))
		}
		of := c14OpFields(ops)
		f = append(append(f, F(len(of))...), of...)
	}
	return f
}

func c14Gen(r *Rand, tier string, scale int, emit func(Fields)) {
	if scale == 0 {
		scale = 200
	}
	for i := 0; i < scale; i++ {
		rr := r.Fork()
		lo, hi := 20, 250
		if i%10 == 0 {
			lo, hi = 250, 400
		}
		emit(c14Alias(rr, rr.Range(lo, hi)))
	}
	for i := 0; i < scale*3/2; i++ {
		emit(c14Conc(r.Fork()))
	}
	for i := 0; i < 2+scale/40; i++ {
		emit(c14Hammer(r.Fork()))
	}
	for i := 0; i < 2+scale/50; i++ {
		emit(c14HammerWipe(r.Fork()))
	}
	for i := 0; i < 2+scale/50; i++ {
		emit(c14NIHammer(r.Fork()))
	}
}
