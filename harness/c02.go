package main

// C02: no input from the server can crash the client or stop it processing.
//
// kind "parse":   ParseLine on an arbitrary byte string under recover(), then Text / Target /
//                 Public each under recover(); the observation carries the panic classes AND
//                 the whole parsed line so the Coq model can be compared field for field.
// kind "session": a REAL client (internal handlers, optionally state tracking) connected over
//                 the in-memory socket; the server end sends hostile lines and, every 50 lines
//                 and at the end, "PING :VERIFMARK<k>", waiting for "PONG :VERIFMARK<k>".
//                 Field 1 is the mode: bit 0 = state tracking, bit 1 = chunked delivery (some
//                 lines written byte by byte, split inside CRLF, split mid-line, or coalesced
//                 with the next line: framing must not depend on read chunking).  Sessions
//                 contain over-long lines (around bufio's 4096-byte buffer, 5000, 8191+512,
//                 20000, ~70000 bytes) and "long homogeneous payloads" (about SplitLen bytes of ONE
//                 byte class inside CTCP PING / PING / 433: the handlers that re-send server text),
//                 each followed by a marker: a handler that never returns = no PONG within 5 s.
//                 Each session runs in a CHILD PROCESS (this binary re-executed as
//                 "h C02child") because an unrecovered panic on a goirc goroutine kills the
//                 whole process; child crash / stall / missing pong = "dead".

import (
	"bufio"
	"bytes"
	"fmt"
	"net"
	"os"
	"os/exec"
	"runtime"
	"sort"
	"strings"
	"sync"
	"time"

	"github.com/fluffle/goirc/client"
)

func init() {
	props["C02"] = &Prop{
		Gen:   c02Gen,
		Exec:  c02Exec,
		Class: c02Class,
	}
	// hidden sub-command: run ONE session read from stdin, journal to stdout
	props["C02child"] = &Prop{
		Gen:  func(r *Rand, tier string, scale int, emit func(Fields)) { c02ChildMain() },
		Exec: func(in Fields) Fields { return F("bad") },
	}
}

// the 27 symbols the parser or a built-in handler branches on (DESIGN.md C02 G)
var c02Alphabet = []byte("@: !;=\\\x01#PRIVMSGNOTCEA013\t\r")

var c02Verbs = []string{"PING", "001", "433", "CTCP", "NICK", "CAP", "410", "AUTHENTICATE", "903", "904",
	"908", "JOIN", "KICK", "MODE", "PART", "QUIT", "TOPIC", "311", "324", "332", "352", "353", "671",
	"PRIVMSG", "NOTICE"}

// ---------- implementation side, kind "parse" ----------

func c02Panics(f func()) (p bool) {
	defer func() {
		if e := recover(); e != nil {
			p = true
		}
	}()
	f()
	return false
}

func c02Cls(f func()) string {
	if c02Panics(f) {
		return "panic"
	}
	return "ok"
}

func c02ParseObs(raw string) Fields {
	var line *client.Line
	if c02Panics(func() { line = client.ParseLine(raw) }) {
		return F("panic")
	}
	if line == nil {
		return F("nil")
	}
	var text, target string
	var public bool
	cT := c02Cls(func() { text = line.Text() })
	cG := c02Cls(func() { target = line.Target() })
	cP := c02Cls(func() { public = line.Public() })
	obs := F("line", cT, cG, cP)
	if line.Tags == nil {
		obs = append(obs, F("nil", 0)...)
	} else {
		keys := make([]string, 0, len(line.Tags))
		for k := range line.Tags {
			keys = append(keys, k)
		}
		sort.Strings(keys)
		obs = append(obs, F("map", len(keys))...)
		for _, k := range keys {
			obs = append(obs, []byte(k), []byte(line.Tags[k]))
		}
	}
	obs = append(obs, F(line.Nick, line.Ident, line.Host, line.Src, line.Cmd, line.Raw, len(line.Args))...)
	for _, a := range line.Args {
		obs = append(obs, []byte(a))
	}
	pub := ""
	if cP == "ok" {
		pub = "f"
		if public {
			pub = "t"
		}
	}
	obs = append(obs, F(text, target, pub)...)
	return obs
}

func c02Exec(in Fields) Fields {
	switch in.S(0) {
	case "parse":
		return c02ParseObs(in.S(1))
	case "session":
		return c02RunChild(in)
	case "transcript": // c02t.go: a whole session compared with the composed model
		return c02tExec(in)
	}
	return F("bad")
}

func c02Class(in Fields) string {
	if in.S(0) == "transcript" {
		return c02tClass(in)
	}
	if in.S(0) == "session" {
		nlong, necho := 0, 0
		for _, l := range in[2:] {
			if len(l)+2 > 4096 {
				nlong++
			} else if len(l) > 380 {
				necho++
			}
		}
		m := in.I(1)
		pb := "0"
		if necho >= 8 {
			pb = "8+"
		} else if necho > 0 {
			pb = "1-7"
		}
		return fmt.Sprintf("session:tracking=%d:chunked=%d:longlines=%d:payloads~SplitLen=%s", m&1, (m>>1)&1, nlong, pb)
	}
	raw := in.S(1)
	origin := "other"
	high := false
	alpha := true
	for i := 0; i < len(raw); i++ {
		if raw[i] >= 0x80 {
			high = true
		}
		if bytes.IndexByte(c02Alphabet, raw[i]) < 0 {
			alpha = false
		}
	}
	var line *client.Line
	panicked := c02Panics(func() { line = client.ParseLine(raw) })
	out := "nil"
	verb := ""
	switch {
	case panicked:
		out = "PANIC"
	case line != nil:
		out = "line"
		verb = line.Cmd
		if len(line.Args) > 0 && (line.Cmd == "CTCP" || line.Cmd == "CTCPREPLY") && strings.Contains(raw, "\x01") {
			out = "line-ctcp"
		} else if line.Cmd == "ACTION" && strings.Contains(raw, "\x01") {
			out = "line-action"
		}
	}
	switch {
	case high:
		origin = "highbyte"
	case alpha && len(raw) <= 4:
		origin = fmt.Sprintf("exhaustive-len%d", len(raw))
	case alpha:
		origin = "alphabet-random"
	default:
		origin = "other"
		for _, v := range c02Verbs {
			if verb == v {
				origin = "verb-" + v
			}
		}
		if verb == "ACTION" || verb == "CTCPREPLY" {
			origin = "verb-" + verb
		}
	}
	return "parse:" + origin + ":" + out
}

// ---------- generator ----------

func c02Enumerate(maxLen int, emit func(Fields)) {
	buf := make([]byte, 0, maxLen)
	var rec func(depth int)
	rec = func(depth int) {
		emit(F("parse", append([]byte{}, buf...)))
		if depth == maxLen {
			return
		}
		for _, c := range c02Alphabet {
			buf = append(buf, c)
			rec(depth + 1)
			buf = buf[:len(buf)-1]
		}
	}
	rec(0)
}

var c02Chans = []string{"#a", "#b", "&c", "+d", "!e", "#"}
var c02Nicks = []string{"vbot", "n1", "n2", "N1", "@n1", "+n2", "vbot_"}

func c02Arg(r *Rand) string {
	switch r.Intn(22) {
	case 0:
		return ""
	case 1, 2, 3:
		return r.Pick(c02Chans)
	case 4, 5, 6:
		return r.Pick(c02Nicks)
	case 7:
		return r.Pick([]string{"+o", "-o", "+v", "+k", "+l", "+ovk", "-l+k", "+b", "+imnpst", "+", "-", "+ql", "+kl"})
	case 8:
		return r.Pick([]string{"*", "=", "@", "H", "G", "H@", "G*+", "0", "-1", "99999999999999999999"})
	case 9:
		return r.Pick([]string{"LS", "ACK", "NAK", "REQ", "END", "NEW", "DEL", "LIST", "ls", "*"})
	case 10:
		return r.Pick([]string{"sasl", "-sasl", "multi-prefix", "sasl=PLAIN", "~sasl", "=x", "a b", "=", "-", "--a", "a=", "-a=b", "=PLAIN", "a  b"})
	case 11:
		return r.Pick([]string{"+", "PLAIN", "AGFiYw==", "=", "****"})
	case 12:
		return string(r.Bytes(r.Range(1, 6), c02Alphabet))
	case 13:
		return strings.Repeat(r.Pick([]string{"x", "#", "+o", " "}), r.Range(1, 300))
	case 14:
		return "\x01" + r.Pick([]string{"ACTION", "VERSION", "PING", "action", "", "X Y", " ", "\x01"}) + r.Pick([]string{"", " ", " text", " a b c"}) + r.Pick([]string{"\x01", "", "\x01\x01"})
	case 15:
		return r.Pick([]string{"n1!u@h", "!@", "a@b!c", "n!u", "@h", "!", "n1!u@h.example"})
	case 16:
		return r.Pick([]string{"irc.example", "0", "1", "3", ":", "::", ":a"})
	default:
		return r.Pick([]string{"n1", "#a", "vbot", "hello", "x"})
	}
}

func c02Tags(r *Rand) string {
	n := r.Intn(5)
	var parts []string
	for i := 0; i < n; i++ {
		k := r.Pick([]string{"a", "b", "time", "+x/y", "", "a", "k\\:", "=", "a=b"})
		switch r.Intn(4) {
		case 0:
			parts = append(parts, k)
		case 1:
			parts = append(parts, k+"=")
		default:
			v := r.Pick([]string{"1", "x\\sy", "\\\\", "\\:", "\\r\\n", "\\", "a=b", "\\\\s", "\\x", "2020-01-01T00:00:00Z", "\\\\\\", ""})
			parts = append(parts, k+"="+v)
		}
	}
	return "@" + strings.Join(parts, ";")
}

// one hostile but grammar-shaped line for [verb]
func c02Line(r *Rand, verb string) string {
	var b strings.Builder
	if r.Chance(25) {
		b.WriteString(c02Tags(r))
		b.WriteString(r.Pick([]string{" ", " ", "  ", ""}))
	}
	if r.Chance(60) {
		b.WriteString(":")
		b.WriteString(r.Pick([]string{"n1!u@h", "vbot!vident@host", "irc.example", "n2!u2@h2", "a@b!c", "!@", "", "n!u", "@h", "\tn1!u@h\t", "vbot"}))
		b.WriteString(r.Pick([]string{" ", " ", " ", "  ", ""}))
	}
	switch r.Intn(10) {
	case 0:
		b.WriteString(strings.ToLower(verb))
	case 1:
		b.WriteString(strings.ToLower(verb[:1]) + verb[1:])
	default:
		b.WriteString(verb)
	}
	nargs := r.Intn(8)
	for i := 0; i < nargs; i++ {
		b.WriteString(r.Pick([]string{" ", " ", " ", "  ", "\t"}))
		b.WriteString(c02Arg(r))
	}
	switch r.Intn(5) {
	case 0: // no trailing
	case 1:
		b.WriteString(" :")
	case 2:
		b.WriteString(" :" + c02Arg(r) + " " + c02Arg(r))
	case 3:
		b.WriteString(" :" + c02Arg(r) + " :" + c02Arg(r))
	default:
		b.WriteString(" :" + c02Arg(r))
	}
	return b.String()
}

// lines that exercise Go's Unicode-aware Fields / ToUpper / TrimSpace (outside the ASCII model)
func c02NonASCII(r *Rand) string {
	sp := []string{"\u0085", "\u00a0", "\u2003", "\u3000", "\u1680", "\xc2", "\xa0", "\xff", "\u00e9", "\u00df", "\u0131", "\u017f", "\u1e9e"}
	v := r.Pick(append([]string{"privmsg", "notice"}, c02Verbs...))
	var b strings.Builder
	if r.Chance(40) {
		b.WriteString(":" + r.Pick(sp) + "n!u@h" + r.Pick(sp) + " ")
	}
	b.WriteString(v)
	if r.Chance(50) {
		b.WriteString(r.Pick(sp))
	}
	for i := r.Intn(4); i > 0; i-- {
		b.WriteString(r.Pick([]string{" ", r.Pick(sp)}))
		b.WriteString(r.Pick([]string{"#a", "x", r.Pick(sp), "\u00e9t\u00e9"}))
	}
	if r.Chance(60) {
		b.WriteString(" :\x01" + r.Pick([]string{"action", "versi\u00f6n", "\u017ftra\u00dfe", "ping"}) + r.Pick(sp) + "x\x01")
	}
	return b.String()
}

// PRIVMSG / NOTICE whose second argument is (nearly) CTCP-wrapped: the rewrite path
func c02CtcpLine(r *Rand) string {
	var b strings.Builder
	if r.Chance(15) {
		b.WriteString(c02Tags(r) + " ")
	}
	if r.Chance(70) {
		b.WriteString(":" + r.Pick([]string{"n1!u@h", "irc.example", "a@b!c", "vbot!vident@host"}) + " ")
	}
	b.WriteString(r.Pick([]string{"PRIVMSG", "NOTICE", "privmsg", "Notice", "PRIVMSG", "NOTICE", "TOPIC"}))
	b.WriteString(" " + r.Pick([]string{"#a", "vbot", "&c", "", "n1", "+d", "!e", ":"}))
	body := r.Pick([]string{"ACTION", "action", "VERSION", "PING", "version", "X", "", " ", "ACTION ", "a\x01b"}) +
		r.Pick([]string{"", " ", " text", " a b c", "  two", " \x01", " :x"})
	wrap := r.Pick([]string{"\x01%s\x01", "\x01%s\x01", "\x01%s\x01", "\x01%s", "%s\x01", "\x01\x01%s\x01", "\x01%s\x01\x01", "\x01%s\x01 ", " \x01%s\x01"})
	w := fmt.Sprintf(wrap, body)
	switch r.Intn(6) {
	case 0:
		b.WriteString(" " + w) // as a middle (no spaces survive: Fields cuts it)
	case 1:
		b.WriteString(" :" + w + " :" + w)
	case 2:
		b.WriteString(" extra :" + w)
	default:
		b.WriteString(" :" + w)
	}
	return b.String()
}

func c02SessionLine(r *Rand) string {
	var s string
	switch r.Intn(10) {
	case 0:
		s = string(r.Bytes(r.Range(0, 12), c02Alphabet))
	case 1:
		s = string(r.Bytes(r.Range(0, 30), nil))
	case 2:
		s = c02CtcpLine(r)
	default:
		s = c02Line(r, r.Pick(c02Verbs))
	}
	// the server end frames with CR LF itself; a LF inside would just be two lines
	s = strings.ReplaceAll(s, "\n", "\r")
	if strings.Contains(s, "VERIFMARK") {
		s = "x"
	}
	return s
}

// total wire lengths (line + CR LF) of the over-long lines: around bufio.Reader's default
// 4096-byte buffer, beyond it, the IRCv3 maximum (8191 tag bytes + 512), and far beyond
var c02LongLens = []int{4094, 4095, 4096, 4097, 4098, 4099, 4100, 5000, 8191 + 512, 20000}

// a line of exactly total-2 bytes: a tagged PRIVMSG with a huge tag section, a plain long
// trailing text, a long PING (must be answered), or a space-free blob
func c02LongLine(r *Rand, total int) string {
	n := total - 2
	pad := func(prefix, suffix string, fill func(k int) string) string {
		k := n - len(prefix) - len(suffix)
		if k < 0 {
			k = 0
		}
		return prefix + fill(k) + suffix
	}
	rep := func(unit string) func(int) string {
		return func(k int) string {
			return (strings.Repeat(unit, k/len(unit)+1))[:k]
		}
	}
	switch r.Intn(6) {
	case 0: // one huge tag value
		return pad("@time=2020-01-01T00:00:00Z;big=", " :n1!u@h PRIVMSG #a :hi", rep("v"))
	case 1: // very many small tags, with escapes
		return pad("@", " :n1!u@h PRIVMSG vbot :\x01ACTION waves\x01", rep("k\\s=a\\:b;x;"))
	case 2: // long trailing text
		return pad(":n1!u@h PRIVMSG #a :", "", rep("lorem ipsum. "))
	case 3: // long text inside a CTCP
		return pad(":n1!u@h NOTICE vbot :\x01VERSION ", "\x01", rep("y"))
	case 4: // very many arguments
		return pad("353 vbot = #a :", "", rep("@n1 +n2 n3 "))
	default: // no space at all
		return pad("", "", rep("x"))
	}
}

// ---------- "long homogeneous payload" lines (seeded C02-6) ----------
// Built-in handlers that RE-SEND server-controlled text run it through commands.go: h_CTCP answers
// CTCP PING <arg> with CtcpReply(nick, PING, arg) = splitMessage(arg, SplitLen); h_PING echoes its
// argument in a PONG; h_433 derives the next NICK from the rejected one.  A boundary computation in
// there that depends on the CLASS of the bytes around the cut (UTF-8 continuation / lead bytes, spaces,
// no spaces) is only reached by a payload of about SplitLen bytes drawn from ONE class.
var c02EchoClasses = []string{"cont", "lead", "spaces", "nospace", "utf8-2", "utf8-3", "utf8-4", "repeat", "cont+space", "sentence"}

// eff = the effective split length (SplitLen, or 450 when SplitLen < 13)
func c02EchoLen(r *Rand, eff int) int {
	switch r.Intn(10) {
	case 0, 1, 2:
		return eff + r.Range(-3, 3)
	case 3, 4:
		return eff + r.Range(1, 8) // just over: the first cut happens, a short rest remains
	case 5:
		return 2*eff + r.Range(-6, 6) // a second cut
	case 6:
		return 3*eff + r.Range(0, 40)
	default:
		return r.Range(380, 500)
	}
}

func c02EchoPayload(r *Rand, class string, n int) []byte {
	b := make([]byte, 0, n+4)
	seq := func(f func() []byte) {
		for len(b) < n {
			b = append(b, f()...)
		}
		b = b[:n] // may cut the last sequence: a truncated rune at the very end
	}
	switch class {
	case "cont":
		seq(func() []byte { return []byte{byte(0x80 + r.Intn(0x40))} })
	case "lead":
		seq(func() []byte { return []byte{byte(0xC0 + r.Intn(0x38))} })
	case "spaces":
		seq(func() []byte { return []byte{' '} })
	case "nospace":
		seq(func() []byte { return []byte{"abcxyzABC0189_-"[r.Intn(15)]} })
	case "utf8-2":
		seq(func() []byte { return []byte(string(rune(r.Range(0x80, 0x7FF)))) })
	case "utf8-3":
		seq(func() []byte {
			c := r.Range(0x800, 0xFFFF)
			if c >= 0xD800 && c <= 0xDFFF {
				c = 0x20AC
			}
			return []byte(string(rune(c)))
		})
	case "utf8-4":
		seq(func() []byte { return []byte(string(rune(r.Range(0x10000, 0x10FFFF)))) })
	case "repeat":
		c := byte(r.Intn(256))
		if c == '\n' || c == 0 {
			c = 0xBF
		}
		seq(func() []byte { return []byte{c} })
	case "cont+space": // one class, with ONE space (or ". ") planted near the cut
		seq(func() []byte { return []byte{byte(0x80 + r.Intn(0x40))} })
		if n > 20 {
			pos := n - 1 - r.Intn(20)
			if r.Bool() && pos < len(b) {
				pos = r.Intn(n)
			}
			b[pos] = ' '
			if r.Bool() && pos > 0 {
				b[pos-1] = '.'
			}
		}
	default: // "sentence": words and sentence separators, the ordinary case
		seq(func() []byte { return []byte(r.Pick([]string{"word ", "lorem. ", "ipsum, ", "x! ", "y? ", "z: ", "a; ", "b\" ", "c' ", "longerword"})) })
	}
	return b
}

// a line whose built-in handler re-sends the payload; [me] = the client's nick.  The 433 form carries
// the payload among the MIDDLE parameters (strings.Fields sees it): with asciiMiddles its class is
// restricted to space-free ASCII (transcripts: the executable model instance is ASCII there, and the
// derived "NICK ..." reply must not look like one of the transcript oracle's probe answers)
func c02EchoLine(r *Rand, me string, eff int, asciiMiddles bool) string {
	class := c02EchoClasses[r.Intn(len(c02EchoClasses))]
	form := r.Intn(10)
	if form == 2 && asciiMiddles {
		class = "nospace"
	}
	p := string(c02EchoPayload(r, class, c02EchoLen(r, eff)))
	src := r.Pick([]string{"n1!u@h", "al!u0@h0.example", "irc.example", "x!y@z"})
	switch form {
	case 0:
		return "PING :" + p // h_PING: PONG :<payload>
	case 1:
		return ":" + src + " PRIVMSG " + me + " :\x01VERSION " + p + "\x01" // h_CTCP VERSION: replies cfg.Version
	case 2:
		return ":irc.example 433 * " + strings.ReplaceAll(p, " ", "_") + " :Nickname is already in use" // h_433: NICK <derived>
	case 3:
		return ":" + src + " PRIVMSG #a :\x01PING " + p + "\x01" // to a channel: same reply path
	default:
		return ":" + src + " PRIVMSG " + me + " :\x01PING " + p + "\x01" // h_CTCP PING: CtcpReply -> splitMessage
	}
}

func c02Session(r *Rand, mode int) Fields {
	in := F("session", mode)
	var lines []string
	for k := 0; k < 200; k++ {
		lines = append(lines, c02SessionLine(r))
	}
	// over-long lines at PRNG-chosen positions, each followed by ordinary lines
	nlong := r.Range(4, 7)
	for k := 0; k < nlong; k++ {
		total := c02LongLens[r.Intn(len(c02LongLens))]
		if k == 0 {
			total = r.Range(4094, 4100) // always one at the buffer boundary
		}
		if k == 1 && r.Chance(50) {
			total = r.Range(66000, 74000) // beyond bufio.Scanner's 64 KiB token limit too
		}
		pos := r.Intn(len(lines) - 3)
		lines = append(lines[:pos], append([]string{c02LongLine(r, total)}, lines[pos:]...)...)
	}
	// two-step histories: a CAP LS / ACK line with hostile payload tokens (c02t.go), and LATER two
	// well-formed ones of the same subcommand — a handler that leaves a lock behind wedges the
	// event loop only on the next CAP line; the closing marker then stays unanswered
	for _, sub := range []string{"LS", "ACK"} {
		p1 := r.Intn(len(lines) - 10)
		hostile := ":irc.example CAP * " + sub + " :" + r.Pick([]string{"=PLAIN", "=x", "=", "a =b", "-= a", "sasl =EXTERNAL"})
		if r.Chance(30) {
			hostile = c02HostileCapLine(r, "vbot")
		}
		lines = append(lines[:p1], append([]string{hostile}, lines[p1:]...)...)
		for k := 0; k < 2; k++ {
			p2 := p1 + 1 + r.Intn(len(lines)-p1-1)
			lines = append(lines[:p2], append([]string{":irc.example CAP * " + sub + " :" + r.Pick([]string{"a b", "a", "multi-prefix"})}, lines[p2:]...)...)
		}
	}
	// long homogeneous payloads for the handlers that re-send server text (SplitLen is the default 450)
	for k := r.Range(4, 8); k > 0; k-- {
		pos := r.Intn(len(lines) - 3)
		l := strings.ReplaceAll(c02EchoLine(r, "vbot", 450, false), "\n", "\r")
		lines = append(lines[:pos], append([]string{l}, lines[pos:]...)...)
	}
	for _, l := range lines {
		in = append(in, []byte(l))
	}
	return in
}

func c02Gen(r *Rand, tier string, scale int, emit func(Fields)) {
	maxLen, sessions := 3, 20
	if tier == "thorough" {
		maxLen, sessions = 4, 200
	}
	if scale == 0 {
		scale = 45000
		if tier == "thorough" {
			scale = 400000
		}
	}
	// 1. exhaustive over the alphabet
	c02Enumerate(maxLen, emit)
	// 2. grammar-based hostile lines, every built-in verb / numeric
	ngram := scale * 35 / 100
	for i := 0; i < ngram; i++ {
		emit(F("parse", c02Line(r, c02Verbs[i%len(c02Verbs)])))
	}
	nctcp := scale * 10 / 100
	for i := 0; i < nctcp; i++ {
		emit(F("parse", c02CtcpLine(r)))
	}
	// 3. random strings over the alphabet, length 5..12
	nalpha := scale * 35 / 100
	for i := 0; i < nalpha; i++ {
		emit(F("parse", r.Bytes(r.Range(5, 12), c02Alphabet)))
	}
	// 4. fully random bytes, and mutations of grammar lines by random bytes
	nrand := scale * 12 / 100
	for i := 0; i < nrand; i++ {
		if r.Bool() {
			emit(F("parse", r.Bytes(r.Range(0, 40), nil)))
		} else {
			b := []byte(c02Line(r, r.Pick(c02Verbs)))
			for k := r.Range(1, 4); k > 0 && len(b) > 0; k-- {
				b[r.Intn(len(b))] = byte(r.Intn(256))
			}
			emit(F("parse", b))
		}
	}
	// 5. non-ASCII white space / letters (panic-or-not only is compared with the model)
	nhigh := scale * 8 / 100
	for i := 0; i < nhigh; i++ {
		emit(F("parse", c02NonASCII(r)))
	}
	// 6. sessions through a real connection: tracking off/on x whole-line/chunked delivery
	for i := 0; i < sessions; i++ {
		emit(c02Session(r, i%4))
	}
	// 7. transcripts: whole sessions compared line for line with the composed model (c02t.go)
	c02tGen(r, tier, emit)
}

// ---------- kind "session": parent side ----------

func c02RunChild(in Fields) Fields {
	exe, err := os.Executable()
	if err != nil {
		exe = os.Args[0]
	}
	cmd := exec.Command(exe, "C02child")
	cmd.Stdin = strings.NewReader(in.String() + "\n")
	var out, errb bytes.Buffer
	cmd.Stdout = &out
	cmd.Stderr = &errb
	done := make(chan error, 1)
	if err := cmd.Start(); err != nil {
		return F("dead", "cannot-start-child", err.Error())
	}
	go func() { done <- cmd.Wait() }()
	select {
	case err = <-done:
	case <-time.After(90 * time.Second):
		cmd.Process.Kill()
		<-done
		err = fmt.Errorf("child timed out")
	}
	journal := strings.Split(strings.TrimSpace(out.String()), "\n")
	last := journal[len(journal)-1]
	if err == nil && last == "alive" {
		return F("alive")
	}
	inflight := ""
	for k := len(journal) - 1; k >= 0; k-- {
		if strings.HasPrefix(journal[k], "send ") {
			inflight = "in flight: " + journal[k]
			break
		}
	}
	first := strings.SplitN(strings.TrimSpace(errb.String()), "\n", 2)[0]
	if err != nil && first == "" {
		first = err.Error()
	}
	return F("dead", last, inflight, first)
}

// ---------- kind "session": child side ----------

// how long the server end waits for a PONG / for the client to take a write: a clean client answers
// in well under a millisecond; a wedged event loop (a handler that never returns) is "dead"
const c02Wait = 5 * time.Second

type c02Srv struct {
	mu   sync.Mutex
	cond *sync.Cond
	buf  []byte
	eof  bool
}

func (s *c02Srv) reader(c net.Conn) {
	b := make([]byte, 65536)
	for {
		n, err := c.Read(b)
		s.mu.Lock()
		s.buf = append(s.buf, b[:n]...)
		if err != nil {
			s.eof = true
		}
		s.cond.Broadcast()
		s.mu.Unlock()
		if err != nil {
			return
		}
	}
}

// waitFor consumes the client's output up to and including [needle]
func (s *c02Srv) waitFor(needle []byte, d time.Duration) string {
	deadline := time.Now().Add(d)
	s.mu.Lock()
	defer s.mu.Unlock()
	for {
		if k := bytes.Index(s.buf, needle); k >= 0 {
			s.buf = s.buf[k+len(needle):]
			return ""
		}
		if s.eof {
			return "connection-closed"
		}
		if time.Now().After(deadline) {
			return "no-pong"
		}
		t := time.AfterFunc(200*time.Millisecond, func() { s.mu.Lock(); s.cond.Broadcast(); s.mu.Unlock() })
		s.cond.Wait()
		t.Stop()
	}
}

func c02ChildMain() {
	say := func(format string, a ...interface{}) { os.Stdout.WriteString(fmt.Sprintf(format, a...) + "\n") }
	sc := bufio.NewScanner(os.Stdin)
	sc.Buffer(make([]byte, 1<<20), 1<<28)
	if !sc.Scan() {
		say("no-input")
		os.Exit(4)
	}
	in, err := ParseFields(sc.Text())
	if err != nil || len(in) < 2 || in.S(0) != "session" {
		say("bad-input")
		os.Exit(4)
	}
	mode := in.I(1)
	tracking := mode&1 == 1
	chunked := mode&2 == 2
	lines := in[2:]

	ms := NewMemServer("c02child")
	cfg := client.NewConfig("vbot", "vident", "v name")
	cfg.Server = "irc.example"
	cfg.Proxy = ms.URL()
	cfg.Flood = true
	cfg.PingFreq = 0
	c := client.Client(cfg)
	if tracking {
		c.EnableStateTracking()
	}
	// user handlers that touch the accessors on every event, foreground and background
	touch := func(conn *client.Conn, line *client.Line) { _ = line.Text() + line.Target(); _ = line.Public() }
	for _, v := range append([]string{"ACTION", "CTCPREPLY"}, c02Verbs...) {
		c.HandleFunc(v, touch)
		c.HandleBG(v, client.HandlerFunc(touch))
	}
	errc := make(chan error, 1)
	go func() { errc <- c.Connect() }()
	srvConn := <-ms.Conns
	srv := &c02Srv{}
	srv.cond = sync.NewCond(&srv.mu)
	go srv.reader(srvConn)
	if err := <-errc; err != nil {
		say("connect-failed %v", err)
		os.Exit(4)
	}
	say("connected tracking=%v chunked=%v lines=%d", tracking, chunked, len(lines))
	// a handler that never returns usually allocates while it spins: do not let the child grow
	go func() {
		var m runtime.MemStats
		for {
			time.Sleep(100 * time.Millisecond)
			runtime.ReadMemStats(&m)
			if m.HeapAlloc > 768<<20 {
				say("stalled memory-runaway heap=%dMB", m.HeapAlloc>>20)
				os.Exit(3)
			}
		}
	}()
	mark := 0
	syncMark := func() {
		mark++
		srvConn.SetWriteDeadline(time.Now().Add(c02Wait))
		if _, err := srvConn.Write([]byte(fmt.Sprintf("PING :VERIFMARK%d\r\n", mark))); err != nil {
			say("stalled mark=%d write: %v", mark, err)
			os.Exit(3)
		}
		if why := srv.waitFor([]byte(fmt.Sprintf("PONG :VERIFMARK%d\r\n", mark)), c02Wait); why != "" {
			say("stalled mark=%d %s", mark, why)
			os.Exit(3)
		}
		say("ok mark=%d connected=%v", mark, c.Connected())
	}
	syncMark()
	write := func(i int, b []byte) {
		srvConn.SetWriteDeadline(time.Now().Add(c02Wait))
		if _, err := srvConn.Write(b); err != nil {
			say("stalled line=%d write: %v", i, err)
			os.Exit(3)
		}
	}
	var carry []byte // a line held back to be coalesced with the next one
	for i, l := range lines {
		head := l
		if len(head) > 48 {
			head = head[:48]
		}
		say("send %d len=%d %x", i, len(l), head)
		wire := append(append(carry, l...), '\r', '\n')
		carry = nil
		style := 0
		if chunked {
			style = (i*7 + len(l)) % 6
		}
		switch {
		case style == 1 && len(wire) <= 6000: // byte by byte
			for k := range wire {
				write(i, wire[k:k+1])
			}
		case style == 2: // split between CR and LF
			write(i, wire[:len(wire)-1])
			write(i, wire[len(wire)-1:])
		case style == 3: // split just before CR LF
			write(i, wire[:len(wire)-2])
			write(i, wire[len(wire)-2:])
		case style == 4 && len(wire) > 3: // split mid-line
			write(i, wire[:len(wire)/2])
			write(i, wire[len(wire)/2:])
		case style == 5 && i+1 < len(lines) && (i+1)%50 != 0 && len(l) <= 300: // coalesce with the next line
			carry = wire
		default:
			write(i, wire)
		}
		// a marker after every 50 lines AND right after every long line (over-long lines, payloads
		// of about SplitLen bytes): a handler that never returns is reported with that line in flight
		if (i+1)%50 == 0 || len(l) > 300 {
			syncMark()
		}
	}
	if carry != nil {
		write(len(lines), carry)
	}
	syncMark()
	if !c.Connected() {
		say("disconnected")
		os.Exit(3)
	}
	say("alive")
}
