(* Model/Caps.v — client/handlers.go: IRCv3 capability negotiation and SASL.
   capSet (Add/Has/Intersect/Slice/Size), getRequestCapabilities, negotiateCapabilities,
   handleCapAck, handleCapNak, h_REGISTER, h_CAP, h_410, h_AUTHENTICATE, h_903/904/908,
   transliterated statement by statement; Cap/Authenticate/Nick/User are [emit] of
   Model/Commands.v.  Then the property C19 as a boolean predicate on a transcript
   ([C19_ok]: theorem statement AND runtime oracle).  Executable definitions only. *)
From Verif Require Export GoBytes Split Commands CapsLib Base64.
Open Scope Z_scope.

(* ---------- constants (tied to the source by tie_C19 over Gen/Consts.v) ---------- *)
Definition s_sasl : bytes := [115;97;115;108]%N.     (* saslCap = "sasl" *)
Definition s_LS : bytes := [76;83]%N.
Definition s_REQ : bytes := [82;69;81]%N.
Definition s_ACK : bytes := [65;67;75]%N.
Definition s_NAK : bytes := [78;65;75]%N.
Definition s_END : bytes := [69;78;68]%N.
Definition s_dash : bytes := [45]%N.                 (* "-" *)
Definition s_plus : bytes := [43]%N.                 (* "+" *)
Definition s_410 : bytes := [52;49;48]%N.
Definition s_903 : bytes := [57;48;51]%N.
Definition s_904 : bytes := [57;48;52]%N.
Definition s_908 : bytes := [57;48;56]%N.
Definition default_caps : list bytes := [].          (* var defaultCaps = []string{} *)
Definition cmd_cfg0 : cmd_cfg := {| cc_split_len := 0; cc_quit_message := [] |}.  (* not read by Cap/Authenticate/Nick/User *)

(* ---------- type capSet struct { caps map[string]bool } ---------- *)
Definition cap_set := kmap.

(* func (c *capSet) Add(caps ...string) — [cap[1:]] is a slice expression: partial *)
Definition cap_add1 (c : cap_set) (cap : bytes) : res cap_set :=
  if has_prefix cap s_dash
  then k <- slice_from cap 1 ;; Ok (km_set c k false)
  else Ok (km_set c cap true).
Fixpoint cap_add (c : cap_set) (caps : list bytes) : res cap_set :=
  match caps with
  | [] => Ok c
  | cap :: caps' => c' <- cap_add1 c cap ;; cap_add c' caps'
  end.

(* func (c *capSet) Has(cap string) bool — c.caps[cap], missing key = zero value *)
Definition cap_has (c : cap_set) (cap : bytes) : bool :=
  match km_get c cap with Some v => v | None => false end.

(* func (c *capSet) Intersect(other *capSet): delete every key of c that other does not Have *)
Definition cap_intersect (c other : cap_set) : cap_set := km_filter (cap_has other) c.

(* func (c *capSet) Slice() []string: all keys, sort.Strings *)
Definition cap_slice (c : cap_set) : list bytes := isort (km_keys c).

(* func (c *capSet) Size() int *)
Definition cap_size (c : cap_set) : Z := km_size c.

(* ---------- configuration and per-connection state ---------- *)
(* sasl.Client as an oracle given as data: Start() = (mech, ir, err) with ir possibly nil;
   Next(challenge) = (response, err).  [None] = non-nil error. *)
Record sasl_client := {
  sc_start : option (bytes * option bytes);
  sc_next : bytes -> option bytes
}.

(* go-sasl plain.go / external.go *)
Definition s_PLAIN : bytes := [80;76;65;73;78]%N.
Definition s_EXTERNAL : bytes := [69;88;84;69;82;78;65;76]%N.
Definition sasl_plain (identity username password : bytes) : sasl_client :=
  {| sc_start := Some (s_PLAIN, Some (identity ++ [0%N] ++ username ++ [0%N] ++ password));
     sc_next := fun _ => None |}.
Definition sasl_external (identity : bytes) : sasl_client :=
  {| sc_start := Some (s_EXTERNAL, Some identity);      (* []byte(a.Identity): non-nil even when empty *)
     sc_next := fun _ => None |}.

Record caps_cfg := {
  cf_wanted : list bytes;              (* cfg.Capabilites *)
  cf_sasl : option sasl_client         (* cfg.Sasl, nil = None *)
}.

Record cstate := {
  cs_supported : cap_set;              (* conn.supportedCaps *)
  cs_current : cap_set;                (* conn.currCaps *)
  cs_remaining : option bytes          (* conn.saslRemainingData, nil = None *)
}.
Definition cstate0 : cstate :=
  {| cs_supported := km_empty; cs_current := km_empty; cs_remaining := None |}.
Definition set_supported (st : cstate) (s : cap_set) : cstate :=
  {| cs_supported := s; cs_current := cs_current st; cs_remaining := cs_remaining st |}.
Definition set_current (st : cstate) (s : cap_set) : cstate :=
  {| cs_supported := cs_supported st; cs_current := s; cs_remaining := cs_remaining st |}.
Definition set_remaining (st : cstate) (r : option bytes) : cstate :=
  {| cs_supported := cs_supported st; cs_current := cs_current st; cs_remaining := r |}.

(* a parsed line as the handlers see it: line.Cmd (upper-cased by ParseLine) and line.Args *)
Record event := { ev_cmd : bytes; ev_args : list bytes }.

(* func (line *Line) Text() string: last argument, "" when there is none *)
Definition ev_text (e : event) : bytes := last (ev_args e) [].

(* ---------- property-side vocabulary (also used by the oracle) ---------- *)
(* an advertised / acknowledged token "-x" speaks about x and disables it *)
Definition tok_name (t : bytes) : bytes := if has_prefix t s_dash then skipn 1 t else t.
Definition tok_on (t : bytes) : bool := negb (has_prefix t s_dash).
(* was the LAST token mentioning [c] an enabling one (never mentioned: false) *)
Definition last_mention_from (init : bool) (toks : list bytes) (c : bytes) : bool :=
  fold_left (fun acc t => if beq (tok_name t) c then tok_on t else acc) toks init.
Definition last_mention (toks : list bytes) (c : bytes) : bool := last_mention_from false toks c.

(* a capability name the property speaks about: non-empty, no leading '-', no white space *)
Definition good_name (c : bytes) : bool :=
  negb (beq c []) && negb (has_prefix c s_dash) && forallb (fun x => negb (is_space x)) c.

Definition wanted_all (cfg : caps_cfg) : list bytes :=
  match cf_sasl cfg with Some _ => [s_sasl] | None => [] end ++ cf_wanted cfg.

Definition line_cap_end : bytes := s_CAP ++ s_sp ++ s_END.                (* "CAP END" *)
Definition pre_cap_req : bytes := s_CAP ++ s_sp ++ s_REQ ++ s_sp_colon.   (* "CAP REQ :" *)
Definition pre_auth : bytes := s_AUTHENTICATE ++ s_sp.                    (* "AUTHENTICATE " *)
(* what Authenticate(x) hands to the output queue *)
Definition line_auth (x : bytes) : bytes := cut_newlines (pre_auth ++ x).
(* the payload of AUTHENTICATE carrying [data] (h_AUTHENTICATE) *)
Definition sasl_payload (data : bytes) : bytes :=
  if len data >? 0 then b64_encode data else s_plus.

(* IRCv3 sasl framing: a payload of 400 bytes or more travels in 400-byte chunks, and when the last
   chunk is exactly 400 bytes long a final "+" follows.  handlers.go does NOT chunk (two TODOs):
   it sends one line whatever the length.  The oracle accepts either form. *)
Fixpoint sasl_chunks_fuel (fuel : nat) (p : bytes) : list bytes :=
  match fuel with
  | O => []
  | S f => if (length p <? 400)%nat
           then [match p with [] => s_plus | _ => p end]
           else firstn 400 p :: sasl_chunks_fuel f (skipn 400 p)
  end.
Definition sasl_chunks (p : bytes) : list bytes := sasl_chunks_fuel (S (length p)) p.
Definition sasl_data_ok (ir : bytes) (ls : list bytes) : bool :=
  blist_eqb ls [line_auth (sasl_payload ir)]
  || blist_eqb ls (map line_auth (sasl_chunks (sasl_payload ir))).

Section Caps.
  (* strings.Fields (Unicode-aware in Go): every theorem holds for ANY function here;
     instantiated with the ASCII [fields] for running *)
  Variable flds : bytes -> list bytes.

  (* func (conn *Conn) getRequestCapabilities() *capSet *)
  Definition request_caps (cfg : caps_cfg) : res cap_set :=
    s0 <- cap_add km_empty default_caps ;;
    s1 <- match cf_sasl cfg with
          | Some _ => cap_add s0 [s_sasl]
          | None => Ok s0
          end ;;
    cap_add s1 (cf_wanted cfg).

  (* func (conn *Conn) negotiateCapabilities(supportedCaps []string) *)
  Definition negotiate (cfg : caps_cfg) (st : cstate) (caps : list bytes) : res (cstate * list bytes) :=
    sup <- cap_add (cs_supported st) caps ;;
    let st1 := set_supported st sup in
    req0 <- request_caps cfg ;;
    let req := cap_intersect req0 sup in
    if cap_size req >? 0
    then ls <- emit to_upper MCap cmd_cfg0 (s_REQ :: cap_slice req) ;; Ok (st1, ls)
    else ls <- emit to_upper MCap cmd_cfg0 [s_END] ;; Ok (st1, ls).

  (* the body of the loop of handleCapAck; the accumulator is (state, lines sent, gotSasl) *)
  Definition ack_step (cfg : caps_cfg) (acc : cstate * list bytes * bool) (cap : bytes)
    : res (cstate * list bytes * bool) :=
    let '(st, out, got) := acc in
    cur <- cap_add (cs_current st) [cap] ;;
    let st1 := set_current st cur in
    match cf_sasl cfg with
    | Some cl =>
        if beq cap s_sasl then
          match sc_start cl with
          | None => Ok (st1, out, got)                                    (* err != nil: continue *)
          | Some (mech, ir) =>
              ls <- emit to_upper MAuthenticate cmd_cfg0 [mech] ;;
              Ok (set_remaining st1 ir, out ++ ls, true)
          end
        else Ok (st1, out, got)
    | None => Ok (st1, out, got)
    end.
  Fixpoint ack_loop (cfg : caps_cfg) (acc : cstate * list bytes * bool) (caps : list bytes)
    : res (cstate * list bytes * bool) :=
    match caps with
    | [] => Ok acc
    | cap :: caps' => acc' <- ack_step cfg acc cap ;; ack_loop cfg acc' caps'
    end.

  (* func (conn *Conn) handleCapAck(caps []string) *)
  Definition handle_ack (cfg : caps_cfg) (st : cstate) (caps : list bytes) : res (cstate * list bytes) :=
    r <- ack_loop cfg (st, [], false) caps ;;
    let '(st1, out, got) := r in
    if got then Ok (st1, out)
    else ls <- emit to_upper MCap cmd_cfg0 [s_END] ;; Ok (st1, out ++ ls).

  (* func (conn *Conn) handleCapNak(caps []string) *)
  Definition handle_nak (st : cstate) (caps : list bytes) : res (cstate * list bytes) :=
    ls <- emit to_upper MCap cmd_cfg0 [s_END] ;; Ok (st, ls).

  (* func (conn *Conn) h_CAP(line *Line) *)
  Definition h_CAP (cfg : caps_cfg) (st : cstate) (e : event) : res (cstate * list bytes) :=
    subcommand <- elem_at (ev_args e) 1 ;;
    let caps := flds (ev_text e) in
    if beq subcommand s_LS then negotiate cfg st caps
    else if beq subcommand s_ACK then handle_ack cfg st caps
    else if beq subcommand s_NAK then handle_nak st caps
    else Ok (st, []).

  (* func (conn *Conn) h_410(line *Line): only logs line.Args[1] *)
  Definition h_410 (st : cstate) (e : event) : res (cstate * list bytes) :=
    _ <- elem_at (ev_args e) 1 ;; Ok (st, []).

  (* func (conn *Conn) h_AUTHENTICATE(line *Line) *)
  Definition h_AUTHENTICATE (cfg : caps_cfg) (st : cstate) (e : event) : res (cstate * list bytes) :=
    match cf_sasl cfg with
    | None => Ok (st, [])
    | Some cl =>
        match cs_remaining st with
        | Some rem =>
            let data := if len rem >? 0 then b64_encode rem else s_plus in
            ls <- emit to_upper MAuthenticate cmd_cfg0 [data] ;;
            Ok (set_remaining st None, ls)
        | None =>
            a0 <- elem_at (ev_args e) 0 ;;
            match b64_decode a0 with
            | None => Ok (st, [])
            | Some challenge =>
                match sc_next cl challenge with
                | None => Ok (st, [])
                | Some response =>
                    ls <- emit to_upper MAuthenticate cmd_cfg0 [b64_encode response] ;;
                    Ok (st, ls)
                end
            end
        end
    end.

  (* func (conn *Conn) h_903 / h_904 (line *Line) *)
  Definition h_903 (st : cstate) : res (cstate * list bytes) :=
    ls <- emit to_upper MCap cmd_cfg0 [s_END] ;; Ok (st, ls).
  Definition h_904 (st : cstate) : res (cstate * list bytes) :=
    ls <- emit to_upper MCap cmd_cfg0 [s_END] ;; Ok (st, ls).
  (* func (conn *Conn) h_908(line *Line): logs line.Args[1] BEFORE conn.Cap(CAP_END) *)
  Definition h_908 (st : cstate) (e : event) : res (cstate * list bytes) :=
    _ <- elem_at (ev_args e) 1 ;;
    ls <- emit to_upper MCap cmd_cfg0 [s_END] ;; Ok (st, ls).

  (* intHandlers: the internal handler for the event's command (those of this protocol;
     other commands have no handler here) *)
  Definition handle (cfg : caps_cfg) (st : cstate) (e : event) : res (cstate * list bytes) :=
    let c := ev_cmd e in
    if beq c s_CAP then h_CAP cfg st e
    else if beq c s_410 then h_410 st e
    else if beq c s_AUTHENTICATE then h_AUTHENTICATE cfg st e
    else if beq c s_903 then h_903 st
    else if beq c s_904 then h_904 st
    else if beq c s_908 then h_908 st e
    else Ok (st, []).

  (* one dispatched line.  A handler panic is recovered by cfg.Recover (LogPanic): in every
     handler above the only partial expressions ([line.Args[1]], [line.Args[0]]) are evaluated
     before any line is sent or any field is assigned, so a panic leaves the state unchanged
     and sends nothing (Proofs/CapsProofs.v: handle_panic_iff characterises when) *)
  Definition step (cfg : caps_cfg) (st : cstate) (e : event) : cstate * list bytes :=
    match handle cfg st e with
    | Ok r => r
    | Panic => (st, [])
    end.

  Definition trace := list (event * list bytes).
  Fixpoint run (cfg : caps_cfg) (st : cstate) (evs : list event) : cstate * trace :=
    match evs with
    | [] => (st, [])
    | e :: evs' =>
        let '(st1, ls) := step cfg st e in
        let '(st2, tr) := run cfg st1 evs' in
        (st2, (e, ls) :: tr)
    end.

  (* func (conn *Conn) h_REGISTER(line *Line) with EnableCapabilityNegotiation and Pass == "" *)
  Definition register (nick ident name : bytes) : res (list bytes) :=
    l1 <- emit to_upper MCap cmd_cfg0 [s_LS] ;;
    l2 <- emit to_upper MNick cmd_cfg0 [nick] ;;
    l3 <- emit to_upper MUser cmd_cfg0 [ident; name] ;;
    Ok (l1 ++ l2 ++ l3).

  (* ---------- the property C19 as a boolean predicate on a transcript ---------- *)
  (* which CAP subcommand an event carries, if it is a CAP line with at least two arguments *)
  Definition cap_sub (e : event) : option bytes :=
    if beq (ev_cmd e) s_CAP then
      match ev_args e with
      | _ :: sub :: _ => Some sub
      | _ => None
      end
    else None.
  Definition is_cap (e : event) (sub : bytes) : bool :=
    match cap_sub e with Some s => beq s sub | None => false end.
  Definition ev_tokens (e : event) : list bytes := flds (ev_text e).

  (* a SASL outcome numeric the property names: 903, 904, 908 <nick> <mechs> ... *)
  Definition is_sasl_outcome (e : event) : bool :=
    beq (ev_cmd e) s_903 || beq (ev_cmd e) s_904
    || (beq (ev_cmd e) s_908 && (2 <=? Z.of_nat (length (ev_args e)))).

  (* observations on the lines sent in response to one event *)
  Definition has_end (lines : list bytes) : bool := existsb (beq line_cap_end) lines.
  Definition has_req (lines : list bytes) : bool := existsb (fun l => has_prefix l pre_cap_req) lines.
  Definition req_tokens (lines : list bytes) : list bytes :=
    concat (map (fun l => match strip_prefix l pre_cap_req with
                          | Some p => fields p
                          | None => []
                          end) lines).
  Definition auth_lines (lines : list bytes) : list bytes :=
    filter (fun l => has_prefix l pre_auth) lines.
  Definition no_auth (lines : list bytes) : bool :=
    match auth_lines lines with [] => true | _ => false end.

  (* what must be requested once the tokens [adv] have been advertised *)
  Definition expected_req (cfg : caps_cfg) (adv : list bytes) : list bytes :=
    filter (last_mention adv) (sort_dedup (wanted_all cfg)).
  Definition good_cfg (cfg : caps_cfg) : bool := forallb good_name (cf_wanted cfg).

  (* does this ACK start SASL, and with which mechanism / initial response *)
  Definition ack_starts (cfg : caps_cfg) (toks : list bytes) : option (bytes * option bytes) :=
    match cf_sasl cfg with
    | Some cl => if mem_bytes s_sasl toks then sc_start cl else None
    | None => None
    end.

  (* ghost state of the checker: tokens advertised so far, tokens acknowledged so far,
     the initial response the client owes the server (Some = "sasl acknowledged, data not yet sent") *)
  Record ghost := { g_adv : list bytes; g_acked : list bytes; g_armed : option bytes }.
  Definition ghost0 : ghost := {| g_adv := []; g_acked := []; g_armed := None |}.

  Definition ev_check (cfg : caps_cfg) (g : ghost) (e : event) (lines : list bytes) : bool * ghost :=
    if is_cap e s_LS then
      let adv := g_adv g ++ ev_tokens e in
      let ex := expected_req cfg adv in
      ((if good_cfg cfg then
          match ex with
          | [] => has_end lines && negb (has_req lines)                      (* empty intersection: END *)
          | _ => blist_eqb (sort_dedup (req_tokens lines)) ex                (* exactly wanted /\ advertised *)
          end
        else true) && no_auth lines,
       {| g_adv := adv; g_acked := g_acked g; g_armed := g_armed g |})
    else if is_cap e s_ACK then
      let acked := g_acked g ++ ev_tokens e in
      match ack_starts cfg (ev_tokens e) with
      | Some (mech, ir) =>                             (* starts SASL: AUTHENTICATE <mech>, not END yet *)
          (negb (has_req lines) && negb (has_end lines) && existsb (beq (line_auth mech)) lines
           && forallb (beq (line_auth mech)) (auth_lines lines),
           {| g_adv := g_adv g; g_acked := acked; g_armed := ir |})
      | None =>                                                              (* does not start SASL: END *)
          (negb (has_req lines) && has_end lines && no_auth lines,
           {| g_adv := g_adv g; g_acked := acked; g_armed := g_armed g |})
      end
    else if is_cap e s_NAK || is_sasl_outcome e then
      (has_end lines && negb (has_req lines) && no_auth lines, g)
    else if beq (ev_cmd e) s_AUTHENTICATE then
      match cf_sasl cfg, g_armed g with
      | Some cl, Some ir =>                                                  (* acknowledged and asked for *)
          (negb (has_req lines)
           && match auth_lines lines with
              | [] => true
              | ls => sasl_data_ok ir ls          (* standard base64 with padding, or "+" *)
              end,
           match auth_lines lines with
           | [] => g
           | _ => {| g_adv := g_adv g; g_acked := g_acked g; g_armed := None |}
           end)
      | Some cl, None =>                 (* only a response computed by the mechanism's Next *)
          (negb (has_req lines)
           && match auth_lines lines with
              | [] => true
              | [l] => match ev_args e with
                       | a0 :: _ =>
                           match b64_decode a0 with
                           | Some ch => match sc_next cl ch with
                                        | Some resp => beq l (line_auth (b64_encode resp))
                                        | None => false
                                        end
                           | None => false
                           end
                       | [] => false
                       end
              | _ => false
              end, g)
      | None, _ => (negb (has_req lines) && no_auth lines, g)
      end
    else (negb (has_req lines) && no_auth lines, g).

  Fixpoint walk (cfg : caps_cfg) (g : ghost) (tr : trace) : bool * ghost :=
    match tr with
    | [] => (true, g)
    | (e, lines) :: tr' =>
        let '(ok, g1) := ev_check cfg g e lines in
        let '(ok', g2) := walk cfg g1 tr' in
        (ok && ok', g2)
    end.

  (* the answers of HasCapability / SupportsCapability at the end, per queried name *)
  Record answer := { a_name : bytes; a_has : bool; a_supports : bool }.

  (* [C19_ok cfg tr answers]: the transcript [tr] (per event: the lines the client sent) and
     the final answers are what the property C19 allows *)
  Definition C19_ok (cfg : caps_cfg) (tr : trace) (answers : list answer) : bool :=
    let '(ok, g) := walk cfg ghost0 tr in
    ok && forallb (fun a => Bool.eqb (a_has a) (last_mention (g_acked g) (a_name a))) answers.

  Definition answers_of (st : cstate) (names : list bytes) : list answer :=
    map (fun c => {| a_name := c; a_has := cap_has (cs_current st) c;
                     a_supports := cap_has (cs_supported st) c |}) names.
End Caps.
