(* Model/NetObs.v — C13: case format, tracker dumps, and the property predicates [C13_ok]
   (first sentence: dump = the network's view at every marker) and [C13_rob_ok] (second
   sentence: the three invariants on the dump).  Executable definitions only; std++ side.

   INPUT  = kind ("sim" | "rob"); me user host real; #N nick-names..; #C channel-names..; [RG greet t|f]; items
     RG (optional, first): the registration — the 001 greets the client as [greet] (may differ from
     the configured nick [me]) and its text ends in greet!user@host iff "t"; absent = [me], "t"
     sim items:  CO n u h r | JO n c | PA n c msg | KI actor c victim msg | QU n msg | NI old new
                 | TO actor c topic | MO actor c #k (sign+letter arg)*k | RM c | RW c | RN n | MK
     rob items:  L raw-line | MK
   OBS    = a sequence of records [tag; #fields; fields..], in item order:
     event  -> "L" the wire lines the Go simulator sent for it
     marker -> "Q" the lines the client wrote since the previous marker (its MODE/WHO requests)
               "D" the tracker dump through the public API (Me, GetNick/GetChannel for every
                   name of the universe that is tracked, then "I" and IsOn for every pair of
                   a tracked channel and a tracked nick of the universe)
   Dump rendering: Model/TrackerObs.v ([enc_nick], [enc_chan], [enc_opt_privs]). *)
From Verif Require Export StateHandlers Net TrackerObs.
From Verif Require GoBytes LineLib Line LineSend.
Open Scope Z_scope.

(* ---------- items ---------- *)
Inductive item := IEv (e : event) | IMark | ILine (raw : bytes).

(* [k_me] = the nick the client was CONFIGURED with; [k_greet] = the nick the server's 001 greets it
   under (NICKLEN truncation, forced nick: may differ); [k_mask] = does the 001 text end in
   nick!user@host.  After registration the client's own nick is the greeted one (handlers.go
   h_001: "accept the server's opinion of what our nick actually is"), and it knows its host only
   from the mask. *)
Record c13case := { k_sim : bool; k_me : name; k_greet : name; k_mask : bool; k_ui : uinfo; k_U : universe;
                    k_items : list item }.

Definition nat_of (f : bytes) : option nat :=
  match GoBytes.N_of_dec f with Some n => Some (N.to_nat n) | None => None end.
Definition op2 (a c : N) : bytes := [a; c].

Definition dec_change (chg arg : bytes) : option mchange :=
  match chg with
  | [s; c] =>
      (if decide (s = 43%N) then Some true else if decide (s = 45%N) then Some false else None)
      ≫= fun add =>
      Some (if decide (c = 107%N) then MKey add arg
            else if decide (c = 108%N) then MLimit add (default 0 (GoBytes.Z_of_dec arg))
            else if is_priv_char c then MPriv add c arg
            else if is_list_letter c then MList add c arg
            else MFlag add c)
  | _ => None
  end.
Fixpoint dec_changes (k : nat) (l : list bytes) : option (list mchange * list bytes) :=
  match k with
  | O => Some ([], l)
  | S k' => match l with
            | chg :: arg :: r => m ← dec_change chg arg; x ← dec_changes k' r; Some (m :: fst x, snd x)
            | _ => None
            end
  end.

Fixpoint dec_items (fuel : nat) (sim : bool) (l : list bytes) : option (list item) :=
  match fuel with
  | O => match l with [] => Some [] | _ => None end
  | S f =>
      match l with
      | [] => Some []
      | o :: r =>
          let ev (e : event) (r' : list bytes) := x ← dec_items f sim r'; Some (IEv e :: x) in
          if bool_decide (o = op2 77 75) then x ← dec_items f sim r; Some (IMark :: x)
          else if negb sim then
            if bool_decide (o = [76%N]) then
              match r with raw :: r' => x ← dec_items f sim r'; Some (ILine raw :: x) | _ => None end
            else None
          else if bool_decide (o = op2 67 79) then
            match r with n :: u :: h :: rn :: r' => ev (EConnect n u h rn) r' | _ => None end
          else if bool_decide (o = op2 74 79) then
            match r with n :: c :: r' => ev (EJoin n c) r' | _ => None end
          else if bool_decide (o = op2 80 65) then
            match r with n :: c :: m :: r' => ev (EPart n c m) r' | _ => None end
          else if bool_decide (o = op2 75 73) then
            match r with a :: c :: v :: m :: r' => ev (EKick a c v m) r' | _ => None end
          else if bool_decide (o = op2 81 85) then
            match r with n :: m :: r' => ev (EQuit n m) r' | _ => None end
          else if bool_decide (o = op2 78 73) then
            match r with a :: w :: r' => ev (ENick a w) r' | _ => None end
          else if bool_decide (o = op2 84 79) then
            match r with a :: c :: t :: r' => ev (ETopic a c t) r' | _ => None end
          else if bool_decide (o = op2 77 79) then
            match r with
            | a :: c :: k :: r' => kn ← nat_of k; x ← dec_changes kn r'; ev (EMode a c (fst x)) (snd x)
            | _ => None
            end
          else if bool_decide (o = op2 82 77) then
            match r with c :: r' => ev (EReplyMode c) r' | _ => None end
          else if bool_decide (o = op2 82 87) then
            match r with c :: r' => ev (EReplyWhoChan c) r' | _ => None end
          else if bool_decide (o = op2 82 78) then
            match r with n :: r' => ev (EReplyWhoNick n) r' | _ => None end
          else None
      end
  end.

Definition t_sim : bytes := [115;105;109]%N.
Definition t_rob : bytes := [114;111;98]%N.

Definition decode_C13 (i : list bytes) : option c13case :=
  match i with
  | kind :: me :: u :: h :: r :: cn :: r1 =>
      sim ← (if bool_decide (kind = t_sim) then Some true else if bool_decide (kind = t_rob) then Some false else None);
      kn ← nat_of cn;
      let ns := take kn r1 in
      match drop kn r1 with
      | cc :: r2 =>
          kc ← nat_of cc;
          let cs := take kc r2 in
          let rest0 := drop kc r2 in
          (* optional first item "RG greeted-nick t|f": the registration; default: greeted as configured, with mask *)
          let reg := match rest0 with
                     | o :: g :: m :: r' => if bool_decide (o = op2 82 71) then Some (g, bool_decide (m = [116%N]), r') else None
                     | _ => None
                     end in
          let greet := match reg with Some x => fst (fst x) | None => me end in
          let mask := match reg with Some x => snd (fst x) | None => true end in
          let rest := match reg with Some x => snd x | None => rest0 end in
          its ← dec_items (length rest) sim rest;
          if Nat.eqb (length ns) kn && Nat.eqb (length cs) kc
          then Some {| k_sim := sim; k_me := me; k_greet := greet; k_mask := mask; k_ui := Build_uinfo u h r;
                       k_U := Build_universe ns cs; k_items := its |}
          else None
      | [] => None
      end
  | _ => None
  end.

(* ---------- the dump ---------- *)
Definition t_L : bytes := [76]%N.
Definition t_Q : bytes := [81]%N.
Definition t_D : bytes := [68]%N.
Definition t_I : bytes := [73]%N.

Definition dump (U : universe) (t : tstate) : list bytes :=
  enc_nick (snd (sp_Me t))
  ++ concat (map (fun n => match snd (sp_GetNick t n) with Some r => enc_nick (Some r) | None => [] end) (u_nicks U))
  ++ concat (map (fun c => match snd (sp_GetChannel t c) with Some r => enc_chan (Some r) | None => [] end) (u_chans U))
  ++ [t_I]
  ++ concat (map (fun c => if is_some (snd (sp_GetChannel t c))
                            then omap (fun n => if is_some (snd (sp_GetNick t n))
                                                then Some (enc_opt_privs (fst (snd (sp_IsOn t c n)))) else None) (u_nicks U)
                            else []) (u_chans U)).

Definition rec_ (tag : bytes) (fs : list bytes) : list bytes :=
  tag :: GoBytes.dec_of_Z (Z.of_nat (length fs)) :: fs.

(* ---------- reading a dump back: the tracker state the implementation showed ---------- *)
Definition has (c : N) (s : bytes) : bool := GoBytes.mem_byte c s.
Definition dec_nickmode (s : bytes) : nickmode :=
  Build_nickmode (has 66 s) (has 105 s) (has 111 s) (has 119 s) (has 120 s) (has 122 s).
Definition dec_chanmode (fl key : bytes) (lim : Z) : chanmode :=
  Build_chanmode (has 112 fl) (has 115 fl) (has 116 fl) (has 110 fl) (has 109 fl) (has 105 fl)
                 (has 79 fl) (has 122 fl) (has 114 fl) (has 90 fl) key lim.
Definition dec_privs (s : bytes) : privs :=
  Build_privs (has 113 s) (has 97 s) (has 111 s) (has 104 s) (has 118 s).

Fixpoint take_pairs (k : nat) (l : list bytes) : option (list (name * privs) * list bytes) :=
  match k with
  | O => Some ([], l)
  | S k' => match l with
            | a :: p :: r => x ← take_pairs k' r; Some ((a, dec_privs p) :: fst x, snd x)
            | _ => None
            end
  end.

(* the records of a dump: nick records (the first one is Me()) and channel records *)
Record drec := { d_nicks : list (name * nickattr * list (name * privs));
                 d_chans : list (name * chanattr * list (name * privs)) }.

Fixpoint undump_recs (fuel : nat) (l : list bytes) (acc : drec) : option drec :=
  match fuel with
  | O => None
  | S f =>
      match l with
      | [] => None
      | tag :: r =>
          if bool_decide (tag = t_I) then Some acc
          else if bool_decide (tag = [78%N]) then
            match r with
            | n :: i :: h :: rn :: md :: k :: r' =>
                kn ← nat_of k; x ← take_pairs kn r';
                undump_recs f (snd x)
                  {| d_nicks := d_nicks acc ++ [(n, Build_nickattr i h rn (dec_nickmode md), fst x)];
                     d_chans := d_chans acc |}
            | _ => None
            end
          else if bool_decide (tag = [67%N]) then
            match r with
            | c :: tp :: fl :: key :: lim :: k :: r' =>
                kn ← nat_of k; x ← take_pairs kn r'; lz ← GoBytes.Z_of_dec lim;
                undump_recs f (snd x)
                  {| d_nicks := d_nicks acc;
                     d_chans := d_chans acc ++ [(c, Build_chanattr tp (dec_chanmode fl key lz), fst x)] |}
            | _ => None
            end
          else None
      end
  end.

(* the state a dump describes: Me's name from the first record; the nick sweep; the channel
   sweep with the membership lists of the channels.  [None] when the dump is malformed or
   self-contradictory (Me() differs from GetNick of that name; a nick's channel list differs
   from what the channels' nick lists say) *)
Definition undump (fs : list bytes) : option tstate :=
  d ← undump_recs (S (length fs)) fs (Build_drec [] []);
  match d_nicks d with
  | [] => None
  | (me, mea, mec) :: ns =>
      let t := {| ts_me := me;
                  ts_nicks := list_to_map (map (fun x => (fst (fst x), snd (fst x))) ns);
                  ts_chans := list_to_map (map (fun x => (fst (fst x), snd (fst x))) (d_chans d));
                  ts_member := list_to_map (concat (map (fun x => map (fun np => ((fst (fst x), fst np), snd np)) (snd x))
                                                        (d_chans d))) |} in
      let consistent :=
        forallb (fun x => bool_decide (snd x = sorted_of_map (chans_of t (fst (fst x))))) ns
        && forallb (fun x => bool_decide (snd x = sorted_of_map (nicks_of t (fst (fst x))))) (d_chans d)
        && forallb (fun x => negb (bool_decide (fst (fst x) = me)) || bool_decide (x = (me, mea, mec))) ns in
      if consistent then Some t else None
  end.

(* ---------- OUTSIDE THE CLAIM: user modes of OTHER users (derived from WHO flags) ---------- *)
Definition mask_umodes (t : tstate) : tstate :=
  {| ts_me := ts_me t;
     ts_nicks := map_imap (fun n a => Some (if decide (n = ts_me t) then a
                                            else Build_nickattr (na_ident a) (na_host a) (na_name a) no_nickmode))
                          (ts_nicks t);
     ts_chans := ts_chans t; ts_member := ts_member t |}.

(* ---------- the property predicates ---------- *)
(* "exactly the channels the client is on, exactly the users sharing them", said against the
   TRUTH of the network (not its view): key sets of the shown state vs memberships of the truth *)
Definition exact_dom (nt : net) (shown : tstate) : bool :=
  let me := n_me nt in
  let mem := n_member nt in
  bool_decide (ts_me shown = me)
  && bool_decide (map_Forall (fun c (_ : chanattr) => is_Some (mem !! (c, me))) (ts_chans shown))
  && bool_decide (map_Forall (fun (k : name * name) (_ : privs) =>
                                is_Some (mem !! (fst k, me)) /\ is_Some (mem !! k)) (ts_member shown))
  && bool_decide (map_Forall (fun n (_ : nickattr) => n = me \/ shares nt n = true) (ts_nicks shown))
  && bool_decide (is_Some (ts_nicks shown !! me))
  && bool_decide (map_Forall (fun (k : name * name) (_ : privs) =>
                                is_Some (mem !! (fst k, me)) ->
                                is_Some (ts_chans shown !! fst k) /\ is_Some (ts_member shown !! k)
                                /\ is_Some (ts_nicks shown !! snd k)) mem).

(* first sentence, at one marker: the state the implementation showed has exactly the truth's
   key sets and equals the network's view (privileges / user@host / topics / modes as revealed) *)
Definition C13_ok (nt : net) (shown : tstate) : bool :=
  exact_dom nt shown && bool_decide (mask_umodes shown = mask_umodes (n_view nt)).
(* second sentence, at one marker *)
Definition C13_rob_ok (shown : tstate) : bool := rob_ok shown.

(* the tracker after the lines a conformant server sent (as the parser delivers them: C01) *)
Definition feed (t : tstate) (ms : list LineSend.msg) : tstate := run_lines t (map LineSend.expected ms).

(* ---------- running a case ---------- *)
Definition attr_of (ui : uinfo) : nickattr := Build_nickattr (ui_user ui) (ui_host ui) (ui_real ui) no_nickmode.
(* the network after registration: the client is the user [k_greet]; what it knows about itself is
   its configured ident and real name, and its host iff the 001 carried the mask *)
Definition reg_attr (k : c13case) : nickattr :=
  Build_nickattr (ui_user (k_ui k)) (if k_mask k then ui_host (k_ui k) else []) (ui_real (k_ui k)) no_nickmode.
Definition case_net0 (k : c13case) : net := net0 (k_greet k) (k_ui k) (reg_attr k).

Definition raw_out (t : tstate) (raw : bytes) : tstate * list bytes :=
  match Line.recv_one raw with
  | GoBytes.Ok (Some l) => let r := hres_st (handle_state t l) in (h_trk r, h_out r)
  | _ => (t, [])
  end.

(* the model's prediction of the whole observation *)
Fixpoint predict (U : universe) (nt : net) (t : tstate) (pend : list bytes) (its : list item) : list bytes :=
  match its with
  | [] => []
  | IEv e :: r =>
      let ms := lines_for nt e in
      let x := run_lines_out t (map LineSend.expected ms) in
      rec_ t_L (map LineSend.render ms) ++ predict U (step nt e) (fst x) (pend ++ snd x) r
  | ILine raw :: r =>
      let x := raw_out t raw in predict U nt (fst x) (pend ++ snd x) r
  | IMark :: r => rec_ t_Q pend ++ rec_ t_D (dump U t) ++ predict U nt t [] r
  end.

Definition model_C13 (i : list bytes) : list bytes :=
  match decode_C13 i with
  | Some k => let nt := case_net0 k in predict (k_U k) nt (n_view nt) [] (k_items k)
  | None => [[98;97;100]%N]
  end.

(* one record off the observation *)
Definition next_rec (o : list bytes) : option (bytes * list bytes * list bytes) :=
  match o with
  | tag :: cnt :: r => k ← nat_of cnt;
                       if Nat.leb k (length r) then Some (tag, take k r, drop k r) else None
  | _ => None
  end.

(* the oracle: walk the items and the observation records side by side.  [ok] = every event so
   far is inside the claim (after a mode line outside the claim nothing is required any more) *)
Fixpoint judge (sim : bool) (nt : net) (ok : bool) (its : list item) (o : list bytes) : bool :=
  match its with
  | [] => match o with [] => true | _ => false end
  | IEv e :: r =>
      match next_rec o with
      | Some (tag, _, o') => bool_decide (tag = t_L) && judge sim (step nt e) (ok && ev_inclaim e) r o'
      | None => false
      end
  | ILine _ :: r => judge sim nt ok r o
  | IMark :: r =>
      match next_rec o with
      | Some (tq, _, o1) =>
          match next_rec o1 with
          | Some (td, d, o2) =>
              bool_decide (tq = t_Q) && bool_decide (td = t_D)
              && match undump d with
                 | Some shown => (if sim then negb ok || C13_ok nt shown else true)
                                 && C13_rob_ok shown
                 | None => false
                 end
              && judge sim nt ok r o2
          | None => false
          end
      | None => false
      end
  end.

Definition oracle_C13 (i o : list bytes) : bool :=
  match decode_C13 i with
  | Some k => judge (k_sim k) (case_net0 k) true (k_items k) o
  | None => false
  end.
