(* Model/RegLockLts.v — the LOCK protocol of client/dispatch.go as a small LTS (C04_no_deadlock).
   Executable definitions only.

   State: one sync.RWMutex per handler set (fg / bg / int) — [writer : option tid] and the list of
   goroutines holding it for reading — plus one program counter per goroutine.
   Goroutines:
   (a) a DISPATCHER of set k for one event (hSet.dispatch):
         DStart --RLock (enabled iff no writer)--> DRLocked --copy the list--> DSnapped
                --RUnlock (deferred: runs before getHandlers returns)--> DUnlocked
                --go func{hn.Handle} for every snapshot element--> DWait --wg.Wait: enabled iff all
                spawned handler goroutines have finished--> DDone
   (b) HANDLER goroutines, (c) FREE goroutines: an arbitrary finite script over
         OReg k : Handle / HandleBG / Remove on set k =
                  Lock (enabled iff no writer and no readers) -> add/remove -> Unlock (deferred)
         OPlain : any step that touches no registry lock.
   The parameter [good] selects the shape of the source ([true]) or the alternative in which the
   dispatcher keeps the read lock across its handlers ([false]: spawn while holding, RUnlock after
   wg.Wait) — used only for the refutation witness.
   Not modelled: Go's writer preference (a WAITING writer also blocks new readers); the argument
   "no goroutine blocks while it holds a lock" is insensitive to it, but it is not in this model. *)
From Coq Require Import List Arith Bool.
From Verif Require Import GoBytes Lts Registry.
Import ListNotations.
Open Scope nat_scope.

Definition tid := nat.
Inductive sop := OReg (k : kind) | OPlain.
Inductive dpc := DStart | DRLocked | DSnapped | DUnlocked | DWait | DRelease | DDone.
Inductive tstate :=
| TScript (ops : list sop) (ph : nat)         (* ph of the head OReg: 0 before Lock, 1 holding, 2 body done *)
| TDisp (k : kind) (pc : dpc) (bodies : list (list sop)) (kids : list tid).
Record lock := { writer : option tid; readers : list tid }.
Record lst := { locks : tri lock; threads : list tstate }.

Definition fin (x : tstate) : bool :=
  match x with
  | TScript [] _ => true
  | TDisp _ DDone _ _ => true
  | _ => false
  end.

Fixpoint tupd {A} (l : list A) (i : nat) (x : A) : list A :=
  match l, i with
  | [], _ => []
  | _ :: l', O => x :: l'
  | y :: l', S i' => y :: tupd l' i' x
  end.
Definition free_lock : lock := {| writer := None; readers := [] |}.
Definition runlock (l : lock) (t : tid) : lock :=
  {| writer := writer l; readers := filter (fun x => negb (Nat.eqb x t)) (readers l) |}.
Definition set_thread (s : lst) (t : tid) (x : tstate) : lst :=
  {| locks := locks s; threads := tupd (threads s) t x |}.
Definition kid_done (s : lst) (c : tid) : bool :=
  match nth_error (threads s) c with Some x => fin x | None => false end.
(* go func(hn){...}(hn) for every element of the snapshot *)
Definition spawn (s : lst) (lk : tri lock) (t : tid) (k : kind) (bodies : list (list sop)) : lst :=
  {| locks := lk;
     threads := tupd (threads s) t (TDisp k DWait [] (seq (length (threads s)) (length bodies)))
                ++ map (fun b => TScript b 0) bodies |}.

Definition lstep (good : bool) (s : lst) (t : tid) : option lst :=
  match nth_error (threads s) t with
  | None => None
  | Some (TScript [] _) => None
  | Some (TScript (OPlain :: r) _) => Some (set_thread s t (TScript r 0))
  | Some (TScript (OReg k :: r) 0) =>                                   (* hs.Lock() *)
      match writer (tget (locks s) k), readers (tget (locks s) k) with
      | None, [] => Some {| locks := tput (locks s) k {| writer := Some t; readers := [] |};
                            threads := tupd (threads s) t (TScript (OReg k :: r) 1) |}
      | _, _ => None
      end
  | Some (TScript (OReg k :: r) 1) => Some (set_thread s t (TScript (OReg k :: r) 2))   (* add / remove *)
  | Some (TScript (OReg k :: r) (S (S _))) =>                           (* deferred hs.Unlock() *)
      Some {| locks := tput (locks s) k {| writer := None; readers := readers (tget (locks s) k) |};
              threads := tupd (threads s) t (TScript r 0) |}
  | Some (TDisp k DStart b kids) =>                                      (* hs.RLock() *)
      match writer (tget (locks s) k) with
      | None => Some {| locks := tput (locks s) k {| writer := None; readers := t :: readers (tget (locks s) k) |};
                        threads := tupd (threads s) t (TDisp k DRLocked b kids) |}
      | Some _ => None
      end
  | Some (TDisp k DRLocked b kids) => Some (set_thread s t (TDisp k DSnapped b kids))
  | Some (TDisp k DSnapped b kids) =>
      if good
      then Some {| locks := tput (locks s) k (runlock (tget (locks s) k) t);         (* deferred hs.RUnlock() *)
                   threads := tupd (threads s) t (TDisp k DUnlocked b kids) |}
      else Some (spawn s (locks s) t k b)                                            (* spawn while holding *)
  | Some (TDisp k DUnlocked b kids) => Some (spawn s (locks s) t k b)
  | Some (TDisp k DWait b kids) =>                                       (* wg.Wait() *)
      if forallb (kid_done s) kids
      then Some (set_thread s t (TDisp k (if good then DDone else DRelease) b kids))
      else None
  | Some (TDisp k DRelease b kids) =>
      Some {| locks := tput (locks s) k (runlock (tget (locks s) k) t);
              threads := tupd (threads s) t (TDisp k DDone b kids) |}
  | Some (TDisp k DDone b kids) => None
  end.

(* initial states: all locks free; free goroutines with scripts, dispatchers that have not started *)
Inductive ispec := IFree (ops : list sop) | IDisp (k : kind) (bodies : list (list sop)).
Definition linit (l : list ispec) : lst :=
  {| locks := tri_const free_lock;
     threads := map (fun i => match i with IFree ops => TScript ops 0 | IDisp k b => TDisp k DStart b [] end) l |}.

Definition all_done (s : lst) : bool := forallb fin (threads s).
Definition enabled (good : bool) (s : lst) (t : tid) : bool :=
  match lstep good s t with Some _ => true | None => false end.
(* what a goroutine's pc says it holds *)
Definition holds_w (x : tstate) (k : kind) : bool :=
  match x with TScript (OReg k' :: _) (S _) => kind_eqb k' k | _ => false end.
Definition holds_r (x : tstate) (k : kind) : bool :=
  match x with TDisp k' (DRLocked | DSnapped) _ _ => kind_eqb k' k | _ => false end.
(* pcs at which a goroutine may have to wait: Lock, RLock, wg.Wait *)
Definition waiting_pc (x : tstate) : bool :=
  match x with
  | TScript (OReg _ :: _) 0 => true
  | TDisp _ (DStart | DWait) _ _ => true
  | _ => false
  end.
Definition kids_of (x : tstate) : list tid := match x with TDisp _ _ _ kids => kids | _ => [] end.
