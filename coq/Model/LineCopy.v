(* Model/LineCopy.v — C15: each handler invocation gets its own copy of the line.  Executable only.

   Lines live in an explicit heap (a list that only grows; address = index, allocation = append,
   the allocation watermark is the length).  Go strings are immutable, so string CONTENTS may be
   shared freely; the mutable storage of a *Line is
     - the Line struct itself (scalar fields, the Args slice header, the Tags map pointer),
     - the backing array of Args,
     - the Tags map.
   [copy_line] transliterates Line.Copy(); [step] is one scheduling step of the goroutines that
   hSet.dispatch starts for ONE parsed line: each goroutine first evaluates line.Copy() (inside
   the goroutine: it is the argument of hn.Handle in the go-statement's function literal), enters
   the handler, which reads what it was given, and then performs an arbitrary write program
   through the addresses reachable from ITS argument.  The internal, background and foreground
   sets all go through the same hSet.dispatch with the same parsed *Line, so one pool of threads
   covers the invocations of all three sets. *)
From Verif Require Import GoBytes LineLib.
Open Scope Z_scope.

Definition addr := nat.
Record lineobj := {
  lo_scal : list bytes;          (* Nick, Ident, Host, Src, Cmd, Raw (Time is not modelled) *)
  lo_args_at : addr;             (* Args: pointer to the backing array ... *)
  lo_args_len : nat;             (* ... and length; the capacity is the length of the array object *)
  lo_tags_at : option addr       (* Tags: nil or a map *)
}.
Inductive obj := OLine (l : lineobj) | OArgs (a : list bytes) | OTags (m : tagmap).
Definition lheap := list obj.

Definition get_line (hp : lheap) (a : addr) : res lineobj :=
  match nth_error hp a with Some (OLine l) => Ok l | _ => Panic end.
Definition get_args (hp : lheap) (a : addr) : res (list bytes) :=
  match nth_error hp a with Some (OArgs l) => Ok l | _ => Panic end.
Definition get_tags (hp : lheap) (a : addr) : res tagmap :=
  match nth_error hp a with Some (OTags m) => Ok m | _ => Panic end.
Fixpoint lupd {A} (l : list A) (i : nat) (x : A) : list A :=
  match l, i with
  | [], _ => []
  | _ :: l', O => x :: l'
  | y :: l', S i' => y :: lupd l' i' x
  end.

(* the value of a line: what a handler can read through its pointer *)
Record lval := { v_scal : list bytes; v_args : list bytes; v_tags : option tagmap }.
Definition read_tags (hp : lheap) (t : option addr) : res (option tagmap) :=
  match t with None => Ok None | Some ta => m <- get_tags hp ta ;; Ok (Some m) end.
Definition read_line (hp : lheap) (a : addr) : res lval :=
  l <- get_line hp a ;;
  arr <- get_args hp (lo_args_at l) ;;
  if (length arr <? lo_args_len l)%nat then Panic else
  t <- read_tags hp (lo_tags_at l) ;;
  Ok {| v_scal := lo_scal l; v_args := firstn (lo_args_len l) arr; v_tags := t |}.
(* the mutable storage reachable from a line pointer *)
Definition addrs (hp : lheap) (a : addr) : list addr :=
  match get_line hp a with
  | Ok l => a :: lo_args_at l :: match lo_tags_at l with Some t => [t] | None => [] end
  | Panic => []
  end.

(* ---------- func (l *Line) Copy() *Line ----------
   nl := *l; nl.Args = make([]string, len(l.Args)); copy(nl.Args, l.Args);
   if l.Tags != nil { nl.Tags = make(map); for k, v := range l.Tags { nl.Tags[k] = v } }; return &nl
   [enum] is the order in which range visits the map (Go randomises it). *)
Definition copy_tags_enum (e : tagmap) : tagmap :=
  fold_left (fun acc kv => tags_set acc (fst kv) (snd kv)) e [].
Definition copy_line (enum : tagmap -> tagmap) (hp : lheap) (a : addr) : res (lheap * addr) :=
  l <- get_line hp a ;;
  arr <- get_args hp (lo_args_at l) ;;
  if (length arr <? lo_args_len l)%nat then Panic else
  let hp1 := hp ++ [OArgs (firstn (lo_args_len l) arr)] in
  r <- match lo_tags_at l with
       | None => Ok (hp1, None)
       | Some ta => m <- get_tags hp ta ;;
                    Ok (hp1 ++ [OTags (copy_tags_enum (enum m))], Some (length hp1))
       end ;;
  Ok (fst r ++ [OLine {| lo_scal := lo_scal l; lo_args_at := length hp; lo_args_len := lo_args_len l;
                         lo_tags_at := snd r |}],
      length (fst r)).

(* ---------- what a handler body may do with its *Line ---------- *)
Inductive wop :=
| WSetArg (i : Z) (v : bytes)         (* line.Args[i] = v          (index out of range: the handler panics) *)
| WAppend (v : bytes) (spare : nat)   (* line.Args = append(line.Args, v): in place when the capacity allows,
                                         else a fresh array with [spare] extra slots (growth policy abstracted) *)
| WSetTag (k v : bytes)               (* line.Tags[k] = v          (nil map: the handler panics) *)
| WDelTag (k : bytes)                 (* delete(line.Tags, k)      (no-op on a nil map) *)
| WSetScal (i : nat) (v : bytes).     (* line.Nick = v, ... *)

Fixpoint tags_del (m : tagmap) (k : bytes) : tagmap :=
  match m with
  | [] => []
  | (k', v') :: m' => if beq k k' then tags_del m' k else (k', v') :: tags_del m' k
  end.

Definition apply_wop (hp : lheap) (a : addr) (w : wop) : res lheap :=
  l <- get_line hp a ;;
  match w with
  | WSetArg i v =>
      arr <- get_args hp (lo_args_at l) ;;
      if (0 <=? i) && (i <? Z.of_nat (lo_args_len l)) && (lo_args_len l <=? length arr)%nat
      then Ok (lupd hp (lo_args_at l) (OArgs (lupd arr (Z.to_nat i) v)))
      else Panic
  | WAppend v spare =>
      arr <- get_args hp (lo_args_at l) ;;
      if (lo_args_len l <? length arr)%nat
      then (* capacity left: write the slot after the last element, bump the length *)
        Ok (lupd (lupd hp (lo_args_at l) (OArgs (lupd arr (lo_args_len l) v))) a
                 (OLine {| lo_scal := lo_scal l; lo_args_at := lo_args_at l; lo_args_len := S (lo_args_len l);
                           lo_tags_at := lo_tags_at l |}))
      else if (lo_args_len l =? length arr)%nat
      then (* full: a fresh backing array *)
        Ok (lupd hp a (OLine {| lo_scal := lo_scal l; lo_args_at := length hp; lo_args_len := S (lo_args_len l);
                                lo_tags_at := lo_tags_at l |})
            ++ [OArgs (arr ++ [v] ++ repeat [] spare)])
      else Panic
  | WSetTag k v =>
      match lo_tags_at l with
      | None => Panic
      | Some ta => m <- get_tags hp ta ;; Ok (lupd hp ta (OTags (tags_set m k v)))
      end
  | WDelTag k =>
      match lo_tags_at l with
      | None => Ok hp
      | Some ta => m <- get_tags hp ta ;; Ok (lupd hp ta (OTags (tags_del m k)))
      end
  | WSetScal i v =>
      Ok (lupd hp a (OLine {| lo_scal := lupd (lo_scal l) i v; lo_args_at := lo_args_at l;
                              lo_args_len := lo_args_len l; lo_tags_at := lo_tags_at l |}))
  end.

(* ---------- the handler goroutines of one dispatched line ---------- *)
Record thread := {
  th_line : option addr;         (* None: the goroutine has not evaluated line.Copy() yet *)
  th_entry : option lval;        (* what the handler read on entry *)
  th_prog : list wop             (* the writes it still wants to do *)
}.
Record dstate := { d_heap : lheap; d_threads : list thread; d_fault : bool }.
Definition dinit (hp : lheap) (progs : list (list wop)) : dstate :=
  {| d_heap := hp; d_threads := map (fun p => {| th_line := None; th_entry := None; th_prog := p |}) progs;
     d_fault := false |}.

(* one step of thread i; [p] is the parsed line every hSet.dispatch was given.
   d_fault records a failure of Copy or of the entry read — proved unreachable, never absorbed. *)
Definition step (enum : tagmap -> tagmap) (p : addr) (st : dstate) (i : nat) : dstate :=
  match nth_error (d_threads st) i with
  | None => st
  | Some t =>
      match th_line t with
      | None =>
          match copy_line enum (d_heap st) p with
          | Ok (hp', a) =>
              match read_line hp' a with
              | Ok v => {| d_heap := hp';
                           d_threads := lupd (d_threads st) i {| th_line := Some a; th_entry := Some v; th_prog := th_prog t |};
                           d_fault := d_fault st |}
              | Panic => {| d_heap := d_heap st; d_threads := d_threads st; d_fault := true |}
              end
          | Panic => {| d_heap := d_heap st; d_threads := d_threads st; d_fault := true |}
          end
      | Some a =>
          match th_prog t with
          | [] => st
          | w :: rest =>
              match apply_wop (d_heap st) a w with
              | Ok hp' => {| d_heap := hp';
                             d_threads := lupd (d_threads st) i {| th_line := Some a; th_entry := th_entry t; th_prog := rest |};
                             d_fault := d_fault st |}
              | Panic => (* the handler panicked: hNode.Handle recovers, the goroutine ends *)
                  {| d_heap := d_heap st;
                     d_threads := lupd (d_threads st) i {| th_line := Some a; th_entry := th_entry t; th_prog := [] |};
                     d_fault := d_fault st |}
              end
          end
      end
  end.
Definition run (enum : tagmap -> tagmap) (p : addr) (st : dstate) (sched : list nat) : dstate :=
  fold_left (step enum p) sched st.

(* ---------- the "lazy copy" variant, for the refutation witness only ----------
   hSet.dispatch hands the ORIGINAL *Line to the handler when its set has exactly one handler for
   the event ("a lone handler has nobody to share the line with"): [lone i] says that thread i is
   such a handler.  Everything else is [step]. *)
Definition step_lazy (lone : nat -> bool) (enum : tagmap -> tagmap) (p : addr) (st : dstate) (i : nat) : dstate :=
  match nth_error (d_threads st) i with
  | Some t =>
      match th_line t, lone i with
      | None, true =>
          match read_line (d_heap st) p with
          | Ok v => {| d_heap := d_heap st;
                       d_threads := lupd (d_threads st) i {| th_line := Some p; th_entry := Some v; th_prog := th_prog t |};
                       d_fault := d_fault st |}
          | Panic => {| d_heap := d_heap st; d_threads := d_threads st; d_fault := true |}
          end
      | _, _ => step enum p st i
      end
  | None => st
  end.
Definition run_lazy lone enum p st (sched : list nat) : dstate := fold_left (step_lazy lone enum p) sched st.

(* ---------- the "per-node scratch line" variant, for the refutation witness only ----------
   line.copyInto(&hn.line): the destination struct at [dst] is overwritten with the fields of [a];
   its Args array is reused when its capacity suffices (else a fresh one), Tags get a fresh map.
   The SECOND invocation of a handler node thus receives the address the first one still holds. *)
Definition copy_into (hp : lheap) (a dst : addr) : res lheap :=
  l <- get_line hp a ;;
  arr <- get_args hp (lo_args_at l) ;;
  if (length arr <? lo_args_len l)%nat then Panic else
  d <- get_line hp dst ;;
  darr <- get_args hp (lo_args_at d) ;;
  let src := firstn (lo_args_len l) arr in
  let '(hp1, at_) :=
    if (lo_args_len l <=? length darr)%nat
    then (lupd hp (lo_args_at d) (OArgs (src ++ skipn (lo_args_len l) darr)), lo_args_at d)
    else (hp ++ [OArgs src], length hp) in
  r <- match lo_tags_at l with
       | None => Ok (hp1, None)
       | Some ta => m <- get_tags hp ta ;; Ok (hp1 ++ [OTags (copy_tags_enum m)], Some (length hp1))
       end ;;
  Ok (lupd (fst r) dst (OLine {| lo_scal := lo_scal l; lo_args_at := at_; lo_args_len := lo_args_len l;
                                 lo_tags_at := snd r |})).

(* ---------- value equality and the property predicate ---------- *)
Definition lval_eqb (a b : lval) : bool :=
  list_beq (v_scal a) (v_scal b) && list_beq (v_args a) (v_args b) && opt_tags_eqb (v_tags a) (v_tags b).
(* the runtime oracle: every handler's entry snapshot equals the parsed event *)
Definition C15_ok (parsed : lval) (entries : list lval) : bool := forallb (lval_eqb parsed) entries.
