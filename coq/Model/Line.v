(* Model/Line.v — client/line.go: Line, Copy, Text, Target, Public, ParseLine,
   parseUserHost, and the [strings.Trim(s, "\r\n")] + ParseLine step of connection.go:recv.
   Transliteration, statement by statement; executable definitions only (no proofs).

   Every index / slice expression of the Go source ([s[0]], [s[1:idx]], [args[0]],
   [line.Args[1]], ...) is the PARTIAL operation of Lib/GoBytes.v in the [res] monad, and every
   guard of the source is transliterated separately from the indexing it protects: "ParseLine
   cannot panic" is a theorem (Proofs/LineTotal.v) that fails when a guard is removed here. *)
From Verif Require Export GoBytes LineLib.
Open Scope Z_scope.

(* ---------- constants (tied to the source by tie_C02 / tie_C01 over Gen/Consts.v) ---------- *)
Definition cmd_PRIVMSG : bytes := [80;82;73;86;77;83;71]%N.
Definition cmd_NOTICE : bytes := [78;79;84;73;67;69]%N.
Definition cmd_ACTION : bytes := [65;67;84;73;79;78]%N.
Definition cmd_CTCP : bytes := [67;84;67;80]%N.
Definition cmd_CTCPREPLY : bytes := [67;84;67;80;82;69;80;76;89]%N.

Definition c_at : N := 64%N.        (* '@' *)
Definition c_colon : N := 58%N.     (* ':' *)
Definition c_semi : N := 59%N.      (* ';' *)
Definition c_hash : N := 35%N.      (* '#' *)
Definition c_amp : N := 38%N.       (* '&' *)
Definition c_plus : N := 43%N.      (* '+' *)
Definition c_bang : N := 33%N.      (* '!' *)
Definition s_space : bytes := [32]%N.          (* " " *)
Definition s_space_colon : bytes := [32;58]%N. (* " :" *)
Definition s_eq : bytes := [61]%N.             (* "=" *)
Definition s_soh : bytes := [1]%N.             (* "\001" *)
Definition s_bang : bytes := [33]%N.           (* "!" *)
Definition s_at : bytes := [64]%N.             (* "@" *)
Definition s_crlf : bytes := [13;10]%N.        (* "\r\n" *)

(* var tagsReplacer = strings.NewReplacer("\\:", ";", "\\s", " ", "\\\\", "\\", "\\r", "\r", "\\n", "\n") *)
Definition tags_pairs : list (bytes * bytes) :=
  [([92;58], [59]); ([92;115], [32]); ([92;92], [92]); ([92;114], [13]); ([92;110], [10])]%N.
Definition tags_unescape (s : bytes) : bytes := replace_pairs tags_pairs s.

(* ---------- type Line struct (Time is not modelled) ----------
   l_tags = None is Go's nil map; Some m is a map (association list, see LineLib.tagmap). *)
Record line := {
  l_tags : option (list (bytes * bytes));
  l_nick : bytes; l_ident : bytes; l_host : bytes; l_src : bytes;
  l_cmd : bytes; l_raw : bytes;
  l_args : list bytes
}.

Definition line_eqb (a b : line) : bool :=
  opt_tags_eqb (l_tags a) (l_tags b)
  && beq (l_nick a) (l_nick b) && beq (l_ident a) (l_ident b) && beq (l_host a) (l_host b)
  && beq (l_src a) (l_src b) && beq (l_cmd a) (l_cmd b) && beq (l_raw a) (l_raw b)
  && list_beq (l_args a) (l_args b).

(* ---------- func (l *Line) Copy() *Line ----------
   [for k, v := range l.Tags { nl.Tags[k] = v }] for the enumeration order [enum] *)
Definition copy_tags (enum : tagmap) : tagmap :=
  fold_left (fun acc kv => tags_set acc (fst kv) (snd kv)) enum [].
Definition copy_line (l : line) : line :=
  {| l_tags := match l_tags l with Some m => Some (copy_tags m) | None => None end;
     l_nick := l_nick l; l_ident := l_ident l; l_host := l_host l; l_src := l_src l;
     l_cmd := l_cmd l; l_raw := l_raw l;
     l_args := map (fun a => a) (l_args l) |}.

(* ---------- func (line *Line) Text() string ---------- *)
Definition text (l : line) : res bytes :=
  if llen (l_args l) >? 0 then elem_at (l_args l) (llen (l_args l) - 1)
  else Ok [].

(* the inner [switch x[0] { case '#', '&', '+', '!': return true }] *)
Definition is_chan_byte (c : N) : bool :=
  N.eqb c c_hash || N.eqb c c_amp || N.eqb c c_plus || N.eqb c c_bang.

(* ---------- func (line *Line) Public() bool ---------- *)
Definition public (l : line) : res bool :=
  let cmd := l_cmd l in
  let args := l_args l in
  if beq cmd cmd_PRIVMSG || beq cmd cmd_NOTICE || beq cmd cmd_ACTION then
    (* if len(line.Args) < 1 || line.Args[0] == "" { return false } *)
    g <- (if llen args <? 1 then Ok true
          else a0 <- elem_at args 0 ;; Ok (beq a0 [])) ;;
    if g then Ok false
    else
      (* switch line.Args[0][0] *)
      a0 <- elem_at args 0 ;;
      c <- byte_at a0 0 ;;
      if is_chan_byte c then Ok true else Ok false
  else if beq cmd cmd_CTCP || beq cmd cmd_CTCPREPLY then
    (* if len(line.Args) < 2 || line.Args[1] == "" { return false } *)
    g <- (if llen args <? 2 then Ok true
          else a1 <- elem_at args 1 ;; Ok (beq a1 [])) ;;
    if g then Ok false
    else
      (* switch line.Args[1][0] *)
      a1 <- elem_at args 1 ;;
      c <- byte_at a1 0 ;;
      if is_chan_byte c then Ok true else Ok false
  else Ok false.

(* ---------- func (line *Line) Target() string ---------- *)
Definition target (l : line) : res bytes :=
  let cmd := l_cmd l in
  let args := l_args l in
  (* the statements after the switch *)
  let after := if llen args >? 0 then elem_at args 0 else Ok [] in
  if beq cmd cmd_PRIVMSG || beq cmd cmd_NOTICE || beq cmd cmd_ACTION then
    p <- public l ;;
    if negb p then Ok (l_nick l) else after
  else if beq cmd cmd_CTCP || beq cmd cmd_CTCPREPLY then
    p <- public l ;;
    if negb p then Ok (l_nick l) else elem_at args 1
  else after.

(* ---------- func parseUserHost(uh string) (nick, ident, host string, ok bool) ---------- *)
Section ParseLine.
  (* stdlib functions that are Unicode-aware in Go and not transliterated: the totality
     theorems hold for ANY functions here ([fields_fn] must return non-empty fields) *)
  Variable fields_fn : bytes -> list bytes.      (* strings.Fields *)
  Variable upper_fn : bytes -> bytes.            (* strings.ToUpper *)
  Variable trim_space_fn : bytes -> bytes.       (* strings.TrimSpace *)

  (* [None] = ok false *)
  Definition parse_user_host_with (uh0 : bytes) : res (option (bytes * bytes * bytes)) :=
    let uh := trim_space_fn uh0 in
    let nidx := index uh s_bang in
    let uidx := index uh s_at in
    if (uidx =? -1) || (nidx =? -1) || (nidx >? uidx) then Ok None
    else
      n <- slice_to uh nidx ;;
      i <- slice uh (nidx + 1) uidx ;;
      h <- slice_from uh (uidx + 1) ;;
      Ok (Some (n, i, h)).

  (* one iteration of [for _, tag := range strings.Split(rawTags, ";")] *)
  Definition parse_tag (m : tagmap) (tag : bytes) : res tagmap :=
    if beq tag [] then Ok m                                      (* continue *)
    else
      let pair := split2 (tags_unescape tag) s_eq in             (* SplitN(Replace(tag), "=", 2) *)
      if llen pair <? 2 then Ok (tags_set m tag [])              (* line.Tags[tag] = "" *)
      else
        k <- elem_at pair 0 ;;
        v <- elem_at pair 1 ;;
        Ok (tags_set m k v).                                     (* line.Tags[pair[0]] = pair[1] *)

  (* the [if s[0] == '@' {...}] block: [Ok None] = return nil, else (line.Tags, s) *)
  Definition parse_tags_stage (s : bytes) : res (option (option tagmap * bytes)) :=
    c0 <- byte_at s 0 ;;
    if N.eqb c0 c_at then
      let idx := index s s_space in
      if negb (idx =? -1) then
        rawTags <- slice s 1 idx ;;
        s' <- slice_from s (idx + 1) ;;
        m <- fold_res parse_tag (split_byte rawTags c_semi) [] ;;
        Ok (Some (Some m, s'))
      else Ok None
    else Ok (Some (None, s)).

  (* the [if s[0] == ':' {...}] block: [Ok None] = return nil, else ((Src,Nick,Ident,Host), s) *)
  Definition parse_src_stage (s : bytes) : res (option ((bytes * bytes * bytes * bytes) * bytes)) :=
    c0 <- byte_at s 0 ;;
    if N.eqb c0 c_colon then
      let idx := index s s_space in
      if negb (idx =? -1) then
        src <- slice s 1 idx ;;
        s' <- slice_from s (idx + 1) ;;
        uh <- parse_user_host_with src ;;
        match uh with
        | Some (n, i, h) => Ok (Some ((src, n, i, h), s'))
        | None => Ok (Some ((src, [], [], src), s'))            (* line.Host = line.Src *)
        end
      else Ok None
    else Ok (Some (([], [], [], []), s)).

  (* "cmd args[] :text" -> (Cmd, Args); [Ok None] = return nil *)
  Definition parse_args_stage (s : bytes) : res (option (bytes * list bytes)) :=
    let args0 := split2 s s_space_colon in                       (* SplitN(s, " :", 2) *)
    a0 <- elem_at args0 0 ;;
    let flds := fields_fn a0 in
    if llen flds =? 0 then Ok None
    else
      args <- (if llen args0 >? 1
               then a1 <- elem_at args0 1 ;; Ok (flds ++ [a1])   (* append(fields, args[1]) *)
               else Ok flds) ;;
      c <- elem_at args 0 ;;
      let cmd := upper_fn c in
      largs <- (if llen args >? 1 then elems_from args 1 else Ok []) ;;
      Ok (Some (cmd, largs)).

  (* the condition of the CTCP [if]; && is short-circuit, each [line.Args[1]] is an index op *)
  Definition is_ctcp_cond (cmd : bytes) (largs : list bytes) : res bool :=
    if beq cmd cmd_PRIVMSG || beq cmd cmd_NOTICE then
      if llen largs >? 1 then
        x1 <- elem_at largs 1 ;;
        if len x1 >? 2 then
          x2 <- elem_at largs 1 ;;
          if has_prefix x2 s_soh then
            x3 <- elem_at largs 1 ;;
            Ok (has_suffix x3 s_soh)
          else Ok false
        else Ok false
      else Ok false
    else Ok false.

  (* the body of the CTCP [if]: new (Cmd, Args) *)
  Definition ctcp_rewrite (cmd : bytes) (largs : list bytes) : res (bytes * list bytes) :=
    x <- elem_at largs 1 ;;
    let t := split2 (trim x s_soh) s_space in                    (* SplitN(Trim(Args[1], "\001"), " ", 2) *)
    largs1 <- (if llen t >? 1
               then t1 <- elem_at t 1 ;; set_elem largs 1 t1     (* line.Args[1] = t[1] *)
               else Ok largs) ;;
    t0 <- elem_at t 0 ;;
    let c := upper_fn t0 in
    if beq c cmd_ACTION && beq cmd cmd_PRIVMSG then Ok (c, largs1)
    else
      let cmd' := if beq cmd cmd_PRIVMSG then cmd_CTCP else cmd_CTCPREPLY in
      Ok (cmd', c :: largs1).                                    (* append([]string{c}, line.Args...) *)

  (* func ParseLine(s string) *Line *)
  Definition parse_with (s0 : bytes) : res (option line) :=
    if beq s0 [] then Ok None
    else
      r1 <- parse_tags_stage s0 ;;
      match r1 with
      | None => Ok None
      | Some (tags, s1) =>
          if beq s1 [] then Ok None
          else
            r2 <- parse_src_stage s1 ;;
            match r2 with
            | None => Ok None
            | Some ((src, nick, ident, host), s2) =>
                r3 <- parse_args_stage s2 ;;
                match r3 with
                | None => Ok None
                | Some (cmd, largs) =>
                    b <- is_ctcp_cond cmd largs ;;
                    ca <- (if b then ctcp_rewrite cmd largs else Ok (cmd, largs)) ;;
                    Ok (Some {| l_tags := tags; l_nick := nick; l_ident := ident;
                                l_host := host; l_src := src; l_cmd := fst ca;
                                l_raw := s0; l_args := snd ca |})
                end
            end
      end.

  (* connection.go recv: [s = strings.Trim(s, "\r\n")] then [ParseLine(s)] *)
  Definition recv_one_with (s : bytes) : res (option line) := parse_with (trim s s_crlf).
End ParseLine.

(* ---------- the executable ASCII instance ---------- *)
Definition parse_user_host : bytes -> res (option (bytes * bytes * bytes)) :=
  parse_user_host_with trim_space.
Definition parse : bytes -> res (option line) := parse_with fields to_upper trim_space.
Definition recv_one : bytes -> res (option line) := recv_one_with fields to_upper trim_space.

(* ---------- the property C02 (parser part) as a boolean predicate ----------
   One flag per call made on an input: did it panic?  [parse] first, then — when a line was
   returned — Text, Target, Public.  Theorem statement AND runtime oracle. *)
Definition c02_flags_with (p : bytes -> res (option line)) (s : bytes) : list bool :=
  match p s with
  | Panic => [true]
  | Ok None => [false]
  | Ok (Some l) => [false; panicked (text l); panicked (target l); panicked (public l)]
  end.
Definition c02_flags : bytes -> list bool := c02_flags_with parse.
Definition C02_ok (flags : list bool) : bool := negb (existsb (fun b => b) flags).
