(* Model/TrackerSpec.v — C12: the "plain model" of the state tracker.
   A set of nicks and a set of channels with their attributes, plus a membership relation
   carrying per-channel privileges.  One function per method of state.Tracker, each returning
   (new state, result); results are SNAPSHOTS as pure values ([option] for Go's nil).
   Executable definitions only (std++ gmap; runs under vm_compute and extraction).

   The DEFINING clauses are the five sentences of property C12:
     (1) a rename carries the nick's memberships and privileges along      [sp_renick]
     (2) removing the client itself from a channel, or deleting a channel, forgets the
         channel and every other nick that is left sharing no channel     [sp_drop_channel]
     (3) deleting a nick removes all its memberships                       [sp_delnick]
     (4) the client's own nick can never be deleted                        [sp_delnick, gc]
     (5) Wipe forgets every channel                                        [sp_wipe]
   Everything marked "LEFT OPEN BY THE PROPERTY" follows the code in state/tracker.go,
   nick.go, channel.go. *)
From stdpp Require Export gmap.
From Verif Require GoBytes.   (* NOT imported: its [x <- r ;; k] notation clashes with std++ (level 61) *)
Open Scope Z_scope.

(* Go strings: [GoBytes.bytes = list N] (notations, so that type-class search sees [list N]) *)
Notation bytes := (list N) (only parsing).
Notation name := (list N) (only parsing).

(* ---------- attributes ---------- *)
(* state.NickMode: +B +i +o +w +x +z *)
Record nickmode := { nm_B : bool; nm_i : bool; nm_o : bool; nm_w : bool; nm_x : bool; nm_z : bool }.
(* state.ChanMode: +p +s +t +n +m +i +O +z +r +Z, +k key, +l limit (field order of the Go struct) *)
Record chanmode := { cm_p : bool; cm_s : bool; cm_t : bool; cm_n : bool; cm_m : bool;
                     cm_i : bool; cm_O : bool; cm_z : bool; cm_r : bool; cm_Z : bool;
                     cm_key : bytes; cm_limit : Z }.
(* state.ChanPrivs: +q +a +o +h +v *)
Record privs := { cp_q : bool; cp_a : bool; cp_o : bool; cp_h : bool; cp_v : bool }.

Record nickattr := { na_ident : bytes; na_host : bytes; na_name : bytes; na_modes : nickmode }.
Record chanattr := { ca_topic : bytes; ca_modes : chanmode }.

Definition no_nickmode : nickmode := Build_nickmode false false false false false false.
Definition no_chanmode : chanmode :=
  Build_chanmode false false false false false false false false false false [] 0.
Definition no_privs : privs := Build_privs false false false false false.
Definition new_nickattr : nickattr := Build_nickattr [] [] [] no_nickmode.
Definition new_chanattr : chanattr := Build_chanattr [] no_chanmode.

(* ---------- the state ---------- *)
Record tstate := {
  ts_me : name;                                   (* the client's own current nick *)
  ts_nicks : gmap name nickattr;                  (* tracked nicks *)
  ts_chans : gmap name chanattr;                  (* tracked channels *)
  ts_member : gmap (name * name) privs            (* (channel, nick) |-> privileges *)
}.

(* state.NewTracker(me) *)
Definition sp_new (me : name) : tstate :=
  {| ts_me := me; ts_nicks := {[ me := new_nickattr ]}; ts_chans := ∅; ts_member := ∅ |}.

(* ---------- snapshots (the values behind *state.Nick / *state.Channel) ---------- *)
Record nick_snap := { sn_nick : bytes; sn_ident : bytes; sn_host : bytes; sn_name : bytes;
                      sn_modes : nickmode;
                      sn_chans : list (name * privs) }.       (* sorted by channel name *)
Record chan_snap := { sc_name : bytes; sc_topic : bytes;
                      sc_modes : chanmode;
                      sc_nicks : list (name * privs) }.       (* sorted by nick *)

(* bytewise lexicographic order (Go: sort.Strings) *)
Fixpoint bytes_leb (a b : bytes) : bool :=
  match a, b with
  | [], _ => true
  | _ :: _, [] => false
  | x :: a', y :: b' => if (x <? y)%N then true else if (y <? x)%N then false else bytes_leb a' b'
  end.
Fixpoint insert_sorted {A} (k : bytes) (v : A) (l : list (bytes * A)) : list (bytes * A) :=
  match l with
  | [] => [(k, v)]
  | (k', v') :: l' => if bytes_leb k k' then (k, v) :: l else (k', v') :: insert_sorted k v l'
  end.
Definition sorted_of_map {A} (m : gmap name A) : list (name * A) :=
  foldr (fun kv acc => insert_sorted (fst kv) (snd kv) acc) [] (map_to_list m).

(* the channels of nick [n]: for every tracked channel, the privileges of the pair *)
Definition chans_of (s : tstate) (n : name) : gmap name privs :=
  map_imap (fun c _ => ts_member s !! (c, n)) (ts_chans s).
(* the nicks of channel [c] *)
Definition nicks_of (s : tstate) (c : name) : gmap name privs :=
  map_imap (fun n _ => ts_member s !! (c, n)) (ts_nicks s).

Definition nick_snapshot (s : tstate) (n : name) : option nick_snap :=
  match ts_nicks s !! n with
  | Some a => Some {| sn_nick := n; sn_ident := na_ident a; sn_host := na_host a; sn_name := na_name a;
                      sn_modes := na_modes a; sn_chans := sorted_of_map (chans_of s n) |}
  | None => None
  end.
Definition chan_snapshot (s : tstate) (c : name) : option chan_snap :=
  match ts_chans s !! c with
  | Some a => Some {| sc_name := c; sc_topic := ca_topic a; sc_modes := ca_modes a;
                      sc_nicks := sorted_of_map (nicks_of s c) |}
  | None => None
  end.
(* the snapshot Go builds from an object that has just been unlinked from everything *)
Definition bare_nick_snap (n : name) (a : nickattr) : nick_snap :=
  {| sn_nick := n; sn_ident := na_ident a; sn_host := na_host a; sn_name := na_name a;
     sn_modes := na_modes a; sn_chans := [] |}.
Definition bare_chan_snap (c : name) (a : chanattr) : chan_snap :=
  {| sc_name := c; sc_topic := ca_topic a; sc_modes := ca_modes a; sc_nicks := [] |}.

(* ---------- membership helpers ---------- *)
(* nick [n] occurs in no pair of [mem] *)
Definition no_pair (mem : gmap (name * name) privs) (n : name) : Prop :=
  map_Forall (fun (k : name * name) (_ : privs) => snd k <> n) mem.
Global Instance no_pair_dec mem n : Decision (no_pair mem n).
Proof. unfold no_pair. apply map_Forall_dec. intros; apply _. Defined.

Definition drop_chan_pairs (c : name) (mem : gmap (name * name) privs) :=
  filter (fun kv : name * name * privs => fst (fst kv) <> c) mem.
Definition drop_nick_pairs (n : name) (mem : gmap (name * name) privs) :=
  filter (fun kv : name * name * privs => snd (fst kv) <> n) mem.

(* (2): forget channel [c], its pairs, and every OTHER nick that was on it and is left with
   no pair.  Nicks that were not on [c] are untouched (in particular a nick that was created
   with NewNick and never associated stays tracked: LEFT OPEN BY THE PROPERTY, as the code). *)
Definition sp_drop_channel (s : tstate) (c : name) : tstate :=
  let mem' := drop_chan_pairs c (ts_member s) in
  {| ts_me := ts_me s;
     ts_nicks := filter (fun kv : name * nickattr =>
                           fst kv = ts_me s \/ ts_member s !! (c, fst kv) = None \/ ~ no_pair mem' (fst kv))
                        (ts_nicks s);
     ts_chans := delete c (ts_chans s);
     ts_member := mem' |}.

(* (1): rename.  [neu] is not in use when this is applied, so exchanging the two names in
   every pair re-keys exactly the pairs of [old]. *)
Definition swap_name (old neu n : name) : name :=
  if decide (n = old) then neu else if decide (n = neu) then old else n.
Definition swap_pair (old neu : name) (k : name * name) : name * name := (fst k, swap_name old neu (snd k)).
Global Instance swap_pair_inj old neu : Inj (=) (=) (swap_pair old neu).
Proof.
  intros [c1 n1] [c2 n2]; unfold swap_pair, swap_name; simpl; intros H; inversion H; subst; f_equal.
  repeat case_decide; congruence.
Qed.
Definition rekey (old neu : name) (mem : gmap (name * name) privs) : gmap (name * name) privs :=
  kmap (swap_pair old neu) mem.

(* ---------- mode strings ---------- *)
(* nick.parseModes: '+'/'-' switch the operation (initially "remove"), B i o w x z set the
   field, every other byte is ignored *)
Definition nick_mode_char (m : N) (op : bool) (nm : nickmode) : nickmode :=
  match m with
  | 66%N  => {| nm_B := op; nm_i := nm_i nm; nm_o := nm_o nm; nm_w := nm_w nm; nm_x := nm_x nm; nm_z := nm_z nm |}
  | 105%N => {| nm_B := nm_B nm; nm_i := op; nm_o := nm_o nm; nm_w := nm_w nm; nm_x := nm_x nm; nm_z := nm_z nm |}
  | 111%N => {| nm_B := nm_B nm; nm_i := nm_i nm; nm_o := op; nm_w := nm_w nm; nm_x := nm_x nm; nm_z := nm_z nm |}
  | 119%N => {| nm_B := nm_B nm; nm_i := nm_i nm; nm_o := nm_o nm; nm_w := op; nm_x := nm_x nm; nm_z := nm_z nm |}
  | 120%N => {| nm_B := nm_B nm; nm_i := nm_i nm; nm_o := nm_o nm; nm_w := nm_w nm; nm_x := op; nm_z := nm_z nm |}
  | 122%N => {| nm_B := nm_B nm; nm_i := nm_i nm; nm_o := nm_o nm; nm_w := nm_w nm; nm_x := nm_x nm; nm_z := op |}
  | _ => nm
  end.
Definition nick_parse_char (st : bool * nickmode) (m : N) : bool * nickmode :=
  if decide (m = 43%N) then (true, snd st)
  else if decide (m = 45%N) then (false, snd st)
  else (fst st, nick_mode_char m (fst st) (snd st)).
Definition nick_parse_modes (modes : bytes) (op : bool) (nm : nickmode) : nickmode :=
  snd (fold_left nick_parse_char modes (op, nm)).

(* the boolean channel flags i m n p r s t z Z O *)
Definition chan_flag_char (m : N) (op : bool) (cm : chanmode) : option chanmode :=
  let mk p s t n m' i O z r Z' :=
    Some (Build_chanmode p s t n m' i O z r Z' (cm_key cm) (cm_limit cm)) in
  match m with
  | 112%N => mk op (cm_s cm) (cm_t cm) (cm_n cm) (cm_m cm) (cm_i cm) (cm_O cm) (cm_z cm) (cm_r cm) (cm_Z cm)
  | 115%N => mk (cm_p cm) op (cm_t cm) (cm_n cm) (cm_m cm) (cm_i cm) (cm_O cm) (cm_z cm) (cm_r cm) (cm_Z cm)
  | 116%N => mk (cm_p cm) (cm_s cm) op (cm_n cm) (cm_m cm) (cm_i cm) (cm_O cm) (cm_z cm) (cm_r cm) (cm_Z cm)
  | 110%N => mk (cm_p cm) (cm_s cm) (cm_t cm) op (cm_m cm) (cm_i cm) (cm_O cm) (cm_z cm) (cm_r cm) (cm_Z cm)
  | 109%N => mk (cm_p cm) (cm_s cm) (cm_t cm) (cm_n cm) op (cm_i cm) (cm_O cm) (cm_z cm) (cm_r cm) (cm_Z cm)
  | 105%N => mk (cm_p cm) (cm_s cm) (cm_t cm) (cm_n cm) (cm_m cm) op (cm_O cm) (cm_z cm) (cm_r cm) (cm_Z cm)
  | 79%N  => mk (cm_p cm) (cm_s cm) (cm_t cm) (cm_n cm) (cm_m cm) (cm_i cm) op (cm_z cm) (cm_r cm) (cm_Z cm)
  | 122%N => mk (cm_p cm) (cm_s cm) (cm_t cm) (cm_n cm) (cm_m cm) (cm_i cm) (cm_O cm) op (cm_r cm) (cm_Z cm)
  | 114%N => mk (cm_p cm) (cm_s cm) (cm_t cm) (cm_n cm) (cm_m cm) (cm_i cm) (cm_O cm) (cm_z cm) op (cm_Z cm)
  | 90%N  => mk (cm_p cm) (cm_s cm) (cm_t cm) (cm_n cm) (cm_m cm) (cm_i cm) (cm_O cm) (cm_z cm) (cm_r cm) op
  | _ => None
  end.
Definition set_key (k : bytes) (cm : chanmode) : chanmode :=
  Build_chanmode (cm_p cm) (cm_s cm) (cm_t cm) (cm_n cm) (cm_m cm) (cm_i cm) (cm_O cm) (cm_z cm)
                 (cm_r cm) (cm_Z cm) k (cm_limit cm).
Definition set_limit (l : Z) (cm : chanmode) : chanmode :=
  Build_chanmode (cm_p cm) (cm_s cm) (cm_t cm) (cm_n cm) (cm_m cm) (cm_i cm) (cm_O cm) (cm_z cm)
                 (cm_r cm) (cm_Z cm) (cm_key cm) l.
(* the privilege letters q a o h v *)
Definition priv_char (m : N) (op : bool) (p : privs) : option privs :=
  match m with
  | 113%N => Some {| cp_q := op; cp_a := cp_a p; cp_o := cp_o p; cp_h := cp_h p; cp_v := cp_v p |}
  | 97%N  => Some {| cp_q := cp_q p; cp_a := op; cp_o := cp_o p; cp_h := cp_h p; cp_v := cp_v p |}
  | 111%N => Some {| cp_q := cp_q p; cp_a := cp_a p; cp_o := op; cp_h := cp_h p; cp_v := cp_v p |}
  | 104%N => Some {| cp_q := cp_q p; cp_a := cp_a p; cp_o := cp_o p; cp_h := op; cp_v := cp_v p |}
  | 118%N => Some {| cp_q := cp_q p; cp_a := cp_a p; cp_o := cp_o p; cp_h := cp_h p; cp_v := op |}
  | _ => None
  end.
Definition is_priv_char (m : N) : bool :=
  match m with 113%N | 97%N | 111%N | 104%N | 118%N => true | _ => false end.
(* the list modes b e I (bans, ban exceptions, invite exceptions): not tracked, but they come
   with a mask that must be skipped *)
Definition is_list_mode_char (m : N) : bool :=
  match m with 98%N | 101%N | 73%N => true | _ => false end.

(* strconv.Atoi with the error dropped ([ch.modes.Limit, _ = strconv.Atoi(arg)]): optional
   sign, at least one digit, digits only — otherwise 0; a value outside int64 is clamped
   (ParseInt returns the nearest bound together with the range error the code ignores). *)
Definition max_int : Z := 9223372036854775807.
Definition min_int : Z := -9223372036854775808.
Definition clamp_int (z : Z) : Z := if z >? max_int then max_int else if z <? min_int then min_int else z.
Definition atoi (s : bytes) : Z :=
  match s with
  | 45%N :: d => match GoBytes.N_of_dec d with Some n => clamp_int (- Z.of_N n) | None => 0 end
  | 43%N :: d => match GoBytes.N_of_dec d with Some n => clamp_int (Z.of_N n) | None => 0 end
  | _ => match GoBytes.N_of_dec s with Some n => clamp_int (Z.of_N n) | None => 0 end
  end.

(* channel.parseModes on channel [c]: the channel's modes, the membership relation (privileges
   of pairs (c, _)) and the remaining arguments are threaded through the string.
   LEFT OPEN BY THE PROPERTY, as the code: +k/+l consume one argument when adding and one is
   available; -k/-l consume none; q a o h v consume one only when it names a nick on the
   channel (otherwise nothing changes and the argument stays); the list modes b e I consume one
   argument when one is available, for + and for -, and change nothing else; unknown bytes are
   ignored. *)
Record pstate := { ps_op : bool; ps_args : list bytes; ps_cm : chanmode;
                   ps_mem : gmap (name * name) privs }.
Definition chan_parse_char (c : name) (st : pstate) (m : N) : pstate :=
  let op := ps_op st in let args := ps_args st in let cm := ps_cm st in let mem := ps_mem st in
  if decide (m = 43%N) then Build_pstate true args cm mem
  else if decide (m = 45%N) then Build_pstate false args cm mem
  else if decide (m = 107%N) then                                     (* k *)
    match op, args with
    | true, a :: args' => Build_pstate op args' (set_key a cm) mem
    | true, [] => st
    | false, _ => Build_pstate op args (set_key [] cm) mem
    end
  else if decide (m = 108%N) then                                     (* l *)
    match op, args with
    | true, a :: args' => Build_pstate op args' (set_limit (atoi a) cm) mem
    | true, [] => st
    | false, _ => Build_pstate op args (set_limit 0 cm) mem
    end
  else if is_list_mode_char m then                                    (* b e I *)
    match args with
    | _ :: args' => Build_pstate op args' cm mem
    | [] => st
    end
  else if is_priv_char m then                                         (* q a o h v *)
    match args with
    | a :: args' =>
        match mem !! (c, a) with
        | Some p => match priv_char m op p with
                    | Some p' => Build_pstate op args' cm (<[(c, a) := p']> mem)
                    | None => st
                    end
        | None => st
        end
    | [] => st
    end
  else match chan_flag_char m op cm with
       | Some cm' => Build_pstate op args cm' mem
       | None => st
       end.
Definition chan_parse_modes (c : name) (modes : bytes) (op : bool) (args : list bytes)
           (cm : chanmode) (mem : gmap (name * name) privs) : chanmode * gmap (name * name) privs :=
  let st := fold_left (chan_parse_char c) modes (Build_pstate op args cm mem) in
  (ps_cm st, ps_mem st).

(* ---------- the Tracker methods ---------- *)
Definition sp_GetNick (s : tstate) (n : name) : tstate * option nick_snap := (s, nick_snapshot s n).
Definition sp_GetChannel (s : tstate) (c : name) : tstate * option chan_snap := (s, chan_snapshot s c).
Definition sp_Me (s : tstate) : tstate * option nick_snap := (s, nick_snapshot s (ts_me s)).

(* LEFT OPEN BY THE PROPERTY: NewNick "" and NewNick of a tracked nick are refused *)
Definition sp_NewNick (s : tstate) (n : name) : tstate * option nick_snap :=
  match n with
  | [] => (s, None)
  | _ => match ts_nicks s !! n with
         | Some _ => (s, None)
         | None => let s' := {| ts_me := ts_me s; ts_nicks := <[n := new_nickattr]> (ts_nicks s);
                                ts_chans := ts_chans s; ts_member := ts_member s |} in
                   (s', nick_snapshot s' n)
         end
  end.

(* (1).  LEFT OPEN BY THE PROPERTY: renaming onto a tracked name (itself included) is refused;
   renaming to "" is accepted.  Renaming the client's own nick changes [ts_me]. *)
Definition sp_ReNick (s : tstate) (old neu : name) : tstate * option nick_snap :=
  match ts_nicks s !! old with
  | None => (s, None)
  | Some a =>
      match ts_nicks s !! neu with
      | Some _ => (s, None)
      | None => let s' := {| ts_me := if decide (old = ts_me s) then neu else ts_me s;
                             ts_nicks := <[neu := a]> (delete old (ts_nicks s));
                             ts_chans := ts_chans s;
                             ts_member := rekey old neu (ts_member s) |} in
                (s', nick_snapshot s' neu)
      end
  end.

(* (3), (4).  The snapshot returned is taken AFTER the nick was unlinked: no channels. *)
Definition sp_DelNick (s : tstate) (n : name) : tstate * option nick_snap :=
  match ts_nicks s !! n with
  | None => (s, None)
  | Some a =>
      if decide (n = ts_me s) then (s, None)
      else ({| ts_me := ts_me s; ts_nicks := delete n (ts_nicks s); ts_chans := ts_chans s;
               ts_member := drop_nick_pairs n (ts_member s) |}, Some (bare_nick_snap n a))
  end.

Definition sp_NickInfo (s : tstate) (n ident host rname : bytes) : tstate * option nick_snap :=
  match ts_nicks s !! n with
  | None => (s, None)
  | Some a => let s' := {| ts_me := ts_me s;
                           ts_nicks := <[n := Build_nickattr ident host rname (na_modes a)]> (ts_nicks s);
                           ts_chans := ts_chans s; ts_member := ts_member s |} in
              (s', nick_snapshot s' n)
  end.

Definition sp_NickModes (s : tstate) (n modes : bytes) : tstate * option nick_snap :=
  match ts_nicks s !! n with
  | None => (s, None)
  | Some a => let a' := Build_nickattr (na_ident a) (na_host a) (na_name a)
                                       (nick_parse_modes modes false (na_modes a)) in
              let s' := {| ts_me := ts_me s; ts_nicks := <[n := a']> (ts_nicks s);
                           ts_chans := ts_chans s; ts_member := ts_member s |} in
              (s', nick_snapshot s' n)
  end.

(* LEFT OPEN BY THE PROPERTY: NewChannel "" and NewChannel of a tracked channel are refused *)
Definition sp_NewChannel (s : tstate) (c : name) : tstate * option chan_snap :=
  match c with
  | [] => (s, None)
  | _ => match ts_chans s !! c with
         | Some _ => (s, None)
         | None => let s' := {| ts_me := ts_me s; ts_nicks := ts_nicks s;
                                ts_chans := <[c := new_chanattr]> (ts_chans s);
                                ts_member := ts_member s |} in
                   (s', chan_snapshot s' c)
         end
  end.

(* (2).  The snapshot returned is taken AFTER the channel was unlinked: no nicks. *)
Definition sp_DelChannel (s : tstate) (c : name) : tstate * option chan_snap :=
  match ts_chans s !! c with
  | None => (s, None)
  | Some a => (sp_drop_channel s c, Some (bare_chan_snap c a))
  end.

Definition sp_Topic (s : tstate) (c topic : bytes) : tstate * option chan_snap :=
  match ts_chans s !! c with
  | None => (s, None)
  | Some a => let s' := {| ts_me := ts_me s; ts_nicks := ts_nicks s;
                           ts_chans := <[c := Build_chanattr topic (ca_modes a)]> (ts_chans s);
                           ts_member := ts_member s |} in
              (s', chan_snapshot s' c)
  end.

Definition sp_ChannelModes (s : tstate) (c modes : bytes) (args : list bytes) : tstate * option chan_snap :=
  match ts_chans s !! c with
  | None => (s, None)
  | Some a => let '(cm', mem') := chan_parse_modes c modes false args (ca_modes a) (ts_member s) in
              let s' := {| ts_me := ts_me s; ts_nicks := ts_nicks s;
                           ts_chans := <[c := Build_chanattr (ca_topic a) cm']> (ts_chans s);
                           ts_member := mem' |} in
              (s', chan_snapshot s' c)
  end.

(* Go: (nil, false) unless both are tracked and the pair exists *)
Definition sp_IsOn (s : tstate) (c n : name) : tstate * (option privs * bool) :=
  match ts_nicks s !! n, ts_chans s !! c with
  | Some _, Some _ => match ts_member s !! (c, n) with
                      | Some p => (s, (Some p, true))
                      | None => (s, (None, false))
                      end
  | _, _ => (s, (None, false))
  end.

(* LEFT OPEN BY THE PROPERTY: associating an untracked channel/nick, or a nick already on the
   channel, changes nothing and returns nil *)
Definition sp_Associate (s : tstate) (c n : name) : tstate * option privs :=
  match ts_chans s !! c, ts_nicks s !! n with
  | Some _, Some _ =>
      match ts_member s !! (c, n) with
      | Some _ => (s, None)
      | None => ({| ts_me := ts_me s; ts_nicks := ts_nicks s; ts_chans := ts_chans s;
                    ts_member := <[(c, n) := no_privs]> (ts_member s) |}, Some no_privs)
      end
  | _, _ => (s, None)
  end.

(* (2): dissociating the client drops the channel; dissociating another nick removes the
   pair and forgets the nick if that was its last one *)
Definition sp_Dissociate (s : tstate) (c n : name) : tstate :=
  match ts_chans s !! c, ts_nicks s !! n, ts_member s !! (c, n) with
  | Some _, Some _, Some _ =>
      if decide (n = ts_me s) then sp_drop_channel s c
      else let mem' := delete (c, n) (ts_member s) in
           {| ts_me := ts_me s;
              ts_nicks := if decide (no_pair mem' n) then delete n (ts_nicks s) else ts_nicks s;
              ts_chans := ts_chans s; ts_member := mem' |}
  | _, _, _ => s
  end.

(* (5): every channel and every pair is forgotten, and with them every other nick that was on
   some channel.  LEFT OPEN BY THE PROPERTY (as the code; the comment in tracker.go claims
   otherwise): a nick that is on no channel survives Wipe. *)
Definition sp_Wipe (s : tstate) : tstate :=
  {| ts_me := ts_me s;
     ts_nicks := filter (fun kv : name * nickattr => fst kv = ts_me s \/ no_pair (ts_member s) (fst kv))
                        (ts_nicks s);
     ts_chans := ∅; ts_member := ∅ |}.

(* ---------- operations as data; runs ---------- *)
Inductive op :=
| ONewNick (n : name) | OGetNick (n : name) | OReNick (old neu : name) | ODelNick (n : name)
| ONickInfo (n ident host rname : bytes) | ONickModes (n modes : bytes)
| ONewChannel (c : name) | OGetChannel (c : name) | ODelChannel (c : name)
| OTopic (c topic : bytes) | OChannelModes (c modes : bytes) (args : list bytes)
| OMe | OIsOn (c n : name) | OAssociate (c n : name) | ODissociate (c n : name) | OWipe.

Inductive result :=
| RNick (r : option nick_snap) | RChan (r : option chan_snap)
| RIsOn (p : option privs) (ok : bool) | RPrivs (r : option privs) | RUnit.

Definition with_res {A} (f : A -> result) (x : tstate * A) : tstate * result := (fst x, f (snd x)).

Definition sp_step (s : tstate) (o : op) : tstate * result :=
  match o with
  | ONewNick n => with_res RNick (sp_NewNick s n)
  | OGetNick n => with_res RNick (sp_GetNick s n)
  | OReNick a b => with_res RNick (sp_ReNick s a b)
  | ODelNick n => with_res RNick (sp_DelNick s n)
  | ONickInfo n i h r0 => with_res RNick (sp_NickInfo s n i h r0)
  | ONickModes n m => with_res RNick (sp_NickModes s n m)
  | ONewChannel c => with_res RChan (sp_NewChannel s c)
  | OGetChannel c => with_res RChan (sp_GetChannel s c)
  | ODelChannel c => with_res RChan (sp_DelChannel s c)
  | OTopic c t => with_res RChan (sp_Topic s c t)
  | OChannelModes c m a => with_res RChan (sp_ChannelModes s c m a)
  | OMe => with_res RNick (sp_Me s)
  | OIsOn c n => with_res (fun r => RIsOn (fst r) (snd r)) (sp_IsOn s c n)
  | OAssociate c n => with_res RPrivs (sp_Associate s c n)
  | ODissociate c n => (sp_Dissociate s c n, RUnit)
  | OWipe => (sp_Wipe s, RUnit)
  end.

(* state after / results of a sequence of operations *)
Fixpoint sp_run (s : tstate) (ops : list op) : tstate * list result :=
  match ops with
  | [] => (s, [])
  | o :: ops' => let (s1, r) := sp_step s o in
                 let (s2, rs) := sp_run s1 ops' in (s2, r :: rs)
  end.
