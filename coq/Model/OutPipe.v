(* Model/OutPipe.v — the outgoing pipeline of client/commands.go + connection.go while the
   connection stays up and flood control is off:
       n senders --Raw: conn.out <- line-->  [bounded FIFO]  --send goroutine: line := <-conn.out-->
       write(line): WriteString(line+CRLF); Flush  --> wire
   Program points of the send goroutine: idle (in the select) / holding a dequeued line that
   is not yet written.  Each sender is a goroutine (handler or user) with a list of lines
   it will hand to Raw, in order; Raw blocks while the queue is full. *)
From Coq Require Import List Arith Bool.
From Verif Require Import GoBytes Lts.
Import ListNotations.

Section OutPipe.
  Variable A : Type.                       (* a line *)
  Variable cap : nat.                      (* capacity of conn.out (32 in the source) *)

  Record ost := { todo : list (list A);    (* per sender: lines not yet handed to Raw *)
                  outq : list A;           (* conn.out, oldest first *)
                  infl : option A;         (* dequeued by send, not yet written *)
                  wire : list A }.         (* lines written, in order *)

  Inductive otid := TSend | TSender (i : nat).

  Fixpoint upd {B} (l : list B) (i : nat) (x : B) : list B :=
    match l, i with
    | [], _ => []
    | _ :: l', O => x :: l'
    | y :: l', S i' => y :: upd l' i' x
    end.

  Definition ostep (s : ost) (t : otid) : option ost :=
    match t with
    | TSend =>
        match infl s with
        | Some l => Some {| todo := todo s; outq := outq s; infl := None; wire := wire s ++ [l] |}
        | None => match outq s with
                  | l :: q => Some {| todo := todo s; outq := q; infl := Some l; wire := wire s |}
                  | [] => None
                  end
        end
    | TSender i =>
        match nth_error (todo s) i with
        | Some (l :: rest) =>
            if Nat.ltb (length (outq s)) cap
            then Some {| todo := upd (todo s) i rest; outq := outq s ++ [l]; infl := infl s; wire := wire s |}
            else None
        | _ => None
        end
    end.

  Definition oinit (lines : list (list A)) : ost :=
    {| todo := lines; outq := []; infl := None; wire := [] |}.

  Definition opt_list (o : option A) : list A := match o with Some x => [x] | None => [] end.

  Definition quiescent (s : ost) : Prop :=
    Forall (fun l => l = []) (todo s) /\ outq s = [] /\ infl s = None.
End OutPipe.

Arguments todo {A} _. Arguments outq {A} _. Arguments infl {A} _. Arguments wire {A} _.

(* ---------- the property as a boolean predicate on what the server saw ---------- *)
(* lines are tagged by the sender that issued them *)
Definition tagged := (nat * bytes)%type.

Fixpoint lines_eqb (a b : list bytes) : bool :=
  match a, b with
  | [], [] => true
  | x :: a', y :: b' => beq x y && lines_eqb a' b'
  | _, _ => false
  end.

Definition of_sender (i : nat) (w : list tagged) : list bytes :=
  map snd (filter (fun x => Nat.eqb (fst x) i) w).

(* [C09_ok issued w]: every wire line belongs to a known sender and, sender by sender, the
   wire carries exactly the lines that sender issued, in the order it issued them — hence
   every line exactly once and none invented *)
Definition C09_ok (issued : list (list bytes)) (w : list tagged) : bool :=
  forallb (fun x => Nat.ltb (fst x) (length issued)) w
  && forallb (fun i => lines_eqb (of_sender i w) (nth i issued [])) (seq 0 (length issued)).
