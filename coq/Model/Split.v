(* Model/Split.v — client/commands.go: cutNewLines, indexFragment, splitMessage, splitArgs.
   Transliteration, statement by statement; executable definitions only. *)
From Verif Require Export GoBytes.
Open Scope Z_scope.

(* constants of commands.go (checked against the source by Gen/Consts.v + tie lemmas) *)
Definition default_split : Z := 450.
Definition min_split : Z := 13.
Definition marker : bytes := [46; 46; 46]%N.              (* three dots *)
Definition marker_len : Z := 3.
Definition sp : N := 32%N.
Definition sentence_seps : list bytes :=                   (* one of . : ; , ! ? dquote quote, then a space *)
  [[46; 32]; [58; 32]; [59; 32]; [44; 32]; [33; 32]; [63; 32]; [34; 32]; [39; 32]]%N.

(* func cutNewLines(s string) string *)
Definition cut_newlines (s : bytes) : bytes :=
  let r0 := hd [] (split2 s [13%N]) in
  hd [] (split2 r0 [10%N]).

(* func indexFragment(s string) int *)
Definition index_fragment (s : bytes) : Z :=
  let mx := fold_left (fun mx sep => let idx := last_index s sep in
                                     if idx >? mx then idx else mx)
                      sentence_seps (-1) in
  if mx >? 0 then mx + 2
  else let idx := last_index s [sp] in
       if idx >? 0 then idx + 1 else -1.

Definition eff_split (n : Z) : Z := if n <? min_split then default_split else n.

(* the loop of splitMessage; [fuel] bounds the iterations, exhaustion is a Panic
   (shown unreachable in Proofs/SplitProofs.v) *)
Fixpoint split_loop (fuel : nat) (msg : bytes) (n : Z) : res (list bytes) :=
  if len msg >? n then
    match fuel with
    | O => Panic
    | S f =>
        pre <- slice_to msg (n - marker_len) ;;
        let idx0 := index_fragment pre in
        let idx := if idx0 <? 0 then n - marker_len else idx0 in
        head <- slice_to msg idx ;;
        rest <- slice_from msg idx ;;
        tl <- split_loop f rest n ;;
        Ok ((head ++ marker) :: tl)
    end
  else Ok [msg].

(* func splitMessage(msg string, splitLen int) (msgs []string) *)
Definition split_message (msg : bytes) (n : Z) : res (list bytes) :=
  split_loop (S (length msg)) msg (eff_split n).

(* func splitArgs(args []string, maxLen int) []string *)
Fixpoint split_args_inner (cur : bytes) (args : list bytes) (maxlen : Z) : bytes * list bytes :=
  match args with
  | a :: args' =>
      if len cur + len a + 1 <? maxlen
      then split_args_inner (cur ++ [sp] ++ a) args' maxlen
      else (cur, args)
  | [] => (cur, [])
  end.

Fixpoint split_args_fuel (fuel : nat) (args : list bytes) (maxlen : Z) : list bytes :=
  match fuel, args with
  | S f, a :: args' =>
      let '(cur, rest) := split_args_inner a args' maxlen in
      cur :: split_args_fuel f rest maxlen
  | _, _ => []
  end.
Definition split_args (args : list bytes) (maxlen : Z) : list bytes :=
  split_args_fuel (length args) args maxlen.

(* ---------- the property C11 as a boolean predicate (theorem statement AND runtime oracle) ---------- *)

Definition strip_marker (p : bytes) : bytes := firstn (length p - 3) p.

Fixpoint all_but_last_ok (ps : list bytes) (f : bytes -> bool) : bool :=
  match ps with
  | [] => true
  | [_] => true
  | p :: ps' => f p && all_but_last_ok ps' f
  end.

Fixpoint rejoin (ps : list bytes) : bytes :=
  match ps with
  | [] => []
  | [p] => p
  | p :: ps' => strip_marker p ++ rejoin ps'
  end.

Fixpoint stripped_nonempty (ps : list bytes) : bool :=
  match ps with
  | [] => true
  | [p] => negb (beq p [])
  | p :: ps' => negb (beq (strip_marker p) []) && stripped_nonempty ps'
  end.

(* [C11_ok msg n ps]: [ps] is an acceptable result of splitting [msg] with SplitLen [n] *)
Definition C11_ok (msg : bytes) (n : Z) (ps : list bytes) : bool :=
  let n' := eff_split n in
  negb (Nat.eqb (length ps) 0)
  && forallb (fun p => len p <=? n') ps                                   (* bounded *)
  && all_but_last_ok ps (fun p => has_suffix p marker)                    (* marked *)
  && beq (rejoin ps) msg                                                  (* lossless *)
  && (if len msg >? n' then stripped_nonempty ps else true).              (* no empty piece of a split text *)
