(* Model/LogModel.v — C20: a SEQUENTIAL model of one client session that returns the stream of
   records handed to the installed logging.Logger.  Executable definitions only (no proofs).

   Sources: client/connection.go internalConnect, dialProxy (connect phase), write (flood
   message, PASS mask, "-> %s"), send (write error), recv ("<- %s", parse warning, read error),
   closeIf ("Disconnected"); client/handlers.go h_REGISTER (the only reader of cfg.Pass).
   A record is (level, fmt.Sprintf(format, args...)).

   What is abstract (Section variables, any function):
     fmt_secs   the rendering of "%.2f" applied to t.Seconds() — a function of the DURATION only;
     quote      the rendering of "%q" applied to a string;
     parse_fn   ParseLine (instance: Line.parse);
     hstate, h_init, handle   everything the event handlers log and send, as a function of the
                handler state and the parsed line.  The initial handler state is built from
                [pubcfg], the configuration WITHOUT the password: that handlers cannot depend
                on the password is thus true by typing, and rests on the source fact that
                cfg.Pass is read by h_REGISTER only (Props/C20.v, C20_only_producer).
   The environment of a session ([env]): how dialling went, the flood-control state the client
   starts from, clock readings, which write (if any) fails, the lines the server sends, how
   the connection ends.  None of it is a function of the password.

   Goroutines: the real client logs from three threads (the connecting / handler thread, send,
   recv).  The model emits the records in one canonical sequential order (each server line is
   logged, handled and its answers written before the next one is read); the real stream is an
   interleaving of the three per-thread subsequences [proj TOther/TSend/TRecv].  After a
   failed write the model stops processing server lines (the socket is closed). *)
From Coq Require Import String.
From Verif Require Export GoBytes LineLib Line Split Commands Flood NewNick LogLib.
Open Scope Z_scope.

Inductive level := LDebug | LInfo | LWarn | LError.
Definition logrec := (level * bytes)%type.

Definition level_eqb (a b : level) : bool :=
  match a, b with
  | LDebug, LDebug | LInfo, LInfo | LWarn, LWarn | LError, LError => true
  | _, _ => false
  end.
Definition rec_eqb (a b : logrec) : bool := level_eqb (fst a) (fst b) && beq (snd a) (snd b).
Fixpoint recs_eqb (a b : list logrec) : bool :=
  match a, b with
  | [], [] => true
  | x :: a', y :: b' => rec_eqb x y && recs_eqb a' b'
  | _, _ => false
  end.

(* ---------- the constant parts of the format strings (tied to Gen/Consts.v by tie_C20) ---------- *)
Definition m_out : bytes := Eval vm_compute in bs "-> ".
Definition m_in : bytes := Eval vm_compute in bs "<- ".
Definition s_masked : bytes := Eval vm_compute in bs "PASS **************".
Definition m_connecting : bytes := Eval vm_compute in bs "irc.Connect(): Connecting to ".
Definition m_dot : bytes := Eval vm_compute in bs ".".
Definition m_via_proxy : bytes := Eval vm_compute in bs "irc.Connect(): Connecting via proxy ".
Definition m_colon_sp : bytes := Eval vm_compute in bs ": ".
Definition m_no_ctx : bytes :=
  Eval vm_compute in bs "Dialer for proxy does not support context, please implement DialContext".
Definition m_ssl : bytes := Eval vm_compute in bs "irc.Connect(): Performing SSL handshake.".
Definition m_send_err : bytes := Eval vm_compute in bs "irc.send(): ".
Definition m_recv_err : bytes := Eval vm_compute in bs "irc.recv(): ".
Definition m_parse : bytes :=
  Eval vm_compute in bs "irc.recv(): problems parsing line:" ++ [10%N] ++ bs "  ".
Definition m_flood_pre : bytes := Eval vm_compute in bs "irc.rateLimit(): Flood! Sleeping for ".
Definition m_flood_post : bytes := Eval vm_compute in bs " secs.".
Definition m_closed : bytes := Eval vm_compute in bs "irc.Close(): Disconnected from server.".
Definition m_url_err : bytes := Eval vm_compute in bs "parsing url: ".
Definition m_dialer_err : bytes := Eval vm_compute in bs "creating dialer: ".
Definition port_ssl : bytes := Eval vm_compute in bs "6697".
Definition port_plain : bytes := Eval vm_compute in bs "6667".
Definition s_LS : bytes := Eval vm_compute in bs "LS".

(* ---------- configuration: everything but the password, and the password ---------- *)
Record pubcfg := {
  pc_nick : bytes; pc_ident : bytes; pc_name : bytes;      (* cfg.Me.Nick / Ident / Name *)
  pc_server : bytes; pc_proxy : bytes; pc_ssl : bool;      (* cfg.Server, cfg.Proxy, cfg.SSL *)
  pc_neg : bool;                                           (* cfg.EnableCapabilityNegotiation *)
  pc_track : bool;                                         (* EnableStateTracking() was called *)
  pc_flood : bool                                          (* cfg.Flood (true = protection OFF) *)
}.
Record lcfg := { lc_pub : pubcfg; lc_pass : bytes }.       (* lc_pass = cfg.Pass *)
Definition with_pass (c : lcfg) (p : bytes) : lcfg := {| lc_pub := lc_pub c; lc_pass := p |}.

(* ---------- the environment of one session ---------- *)
Inductive dial_env :=
| DUrlErr (e : bytes)                        (* url.Parse(cfg.Proxy) failed with text e *)
| DDialerErr (e : bytes)                     (* proxy.FromURL failed with text e *)
| DDial (ctxd : bool) (err : option bytes).  (* dialled (through a ContextDialer or not): error text or success *)

Record env := {
  ev_dial : dial_env;
  ev_tls : option bytes;                     (* TLS handshake error, if cfg.SSL *)
  ev_fs0 : flood_state;                      (* conn.badness / conn.lastsent before the first write *)
  ev_clock : nat -> Z -> Z * Z;              (* k-th write, delay requested for the previous one |->
                                                (time since lastsent at the first clock reading of
                                                rateLimit, time between its two readings) *)
  ev_wfail : option (nat * bytes);           (* the k-th write fails with this error text *)
  ev_lines : list bytes;                     (* what ReadString returns, line by line *)
  ev_end : option bytes                      (* how reading ends: None = io.EOF, Some e = error e *)
}.

(* ---------- hasPort / net.JoinHostPort ---------- *)
Definition has_port (s : bytes) : bool := last_index s [58%N] >? last_index s [93%N].
Definition join_host_port (h port : bytes) : bytes :=
  if 0 <=? index h [58%N] then [91%N] ++ h ++ [93; 58]%N ++ port else h ++ [58%N] ++ port.
Definition server_addr (pc : pubcfg) : bytes :=
  if has_port (pc_server pc) then pc_server pc
  else join_host_port (pc_server pc) (if pc_ssl pc then port_ssl else port_plain).

(* ---------- write: the mask ---------- *)
(* if strings.HasPrefix(line, "PASS") { line = "PASS **************" } *)
Definition mask (line : bytes) : bytes := if has_prefix line s_PASS then s_masked else line.
Definition out_rec (line : bytes) : logrec := (LDebug, m_out ++ mask line).

(* h_REGISTER: the lines handed to Raw (after cutNewLines) *)
Definition pass_line (p : bytes) : bytes := raw (s_PASS ++ s_sp ++ p).
Definition reg_lines (c : lcfg) : list bytes :=
  let pc := lc_pub c in
  (if pc_neg pc then [raw (s_CAP ++ s_sp ++ s_LS)] else [])
  ++ (if beq (lc_pass c) [] then [] else [pass_line (lc_pass c)])
  ++ [raw (s_NICK ++ s_sp ++ pc_nick pc); raw (s_USER ++ s_sp ++ pc_ident pc ++ s_user_mid ++ pc_name pc)].

(* the state of the send goroutine *)
Record sstate := {
  ss_fs : flood_state;     (* conn.badness, conn.lastsent *)
  ss_k : nat;              (* number of write calls so far *)
  ss_prev : Z;             (* delay requested for the previous line *)
  ss_dead : bool           (* a write failed: send has called closeIf and returned *)
}.

(* what one session fixes for every write *)
Record wenv := { we_flood : bool; we_clock : nat -> Z -> Z * Z; we_wfail : option (nat * bytes) }.

Definition wfail_at (w : wenv) (k : nat) : option bytes :=
  match we_wfail w with
  | Some (k', e) => if Nat.eqb k' k then Some e else None
  | None => None
  end.

Section Session.
  Variable fmt_secs : Z -> bytes.                (* "%.2f" of t.Seconds() *)
  Variable quote : bytes -> bytes.               (* "%q" of a string *)
  Variable parse_fn : bytes -> res (option line).
  Variable hstate : Type.
  Variable h_init : pubcfg -> hstate.
  (* all handlers of one event together: records logged, strings handed to Raw, new state *)
  Variable handle : hstate -> line -> (list logrec * list bytes) * hstate.

  (* ----- connect phase: records, and whether the connection was established ----- *)
  Definition rec_connecting (pc : pubcfg) : logrec := (LInfo, m_connecting ++ server_addr pc ++ m_dot).
  Definition rec_via_proxy (pc : pubcfg) (err : bytes) : logrec :=
    (LInfo, m_via_proxy ++ quote (pc_proxy pc) ++ m_colon_sp ++ err).

  Definition connect_recs (pc : pubcfg) (d : dial_env) (tls : option bytes) : list logrec * bool :=
    if beq (pc_server pc) [] then ([], false)            (* "cfg.Server must be non-empty": returned, not logged *)
    else
      let dialled :=
        if negb (beq (pc_proxy pc) []) then
          match d with
          | DUrlErr e => ([rec_via_proxy pc (m_url_err ++ e)], false)
          | DDialerErr e => ([rec_via_proxy pc (m_dialer_err ++ e)], false)
          | DDial ctxd err =>
              let pre := (if ctxd then [] else [(LWarn, m_no_ctx)]) ++ [rec_connecting pc] in
              match err with
              | Some e => (pre ++ [rec_via_proxy pc e], false)
              | None => (pre, true)
              end
          end
        else
          ([rec_connecting pc],
           match d with DDial _ None => true | _ => false end)   (* a dial error is returned, not logged *)
      in
      if negb (snd dialled) then dialled
      else if pc_ssl pc then
        (fst dialled ++ [(LInfo, m_ssl)], match tls with None => true | Some _ => false end)
      else dialled.

  (* ----- write(line) as called by send ----- *)
  Definition flood_rec (t : Z) : logrec := (LInfo, m_flood_pre ++ fmt_secs t ++ m_flood_post).

  Definition write_one (w : wenv) (st : sstate) (line : bytes) : list logrec * sstate :=
    if ss_dead st then ([], st)
    else
      let gd := we_clock w (ss_k st) (ss_prev st) in
      let a := fs_last (ss_fs st) + fst gd in
      let r := write_delay (we_flood w) (ss_fs st) a (a + snd gd) (len line) in
      let t := snd r in
      let frec := if t =? 0 then [] else [flood_rec t] in
      match wfail_at w (ss_k st) with
      | Some e =>
          (* WriteString/Flush returned err: nothing is logged by write; send logs the error and
             calls closeIf *)
          (frec ++ [(LError, m_send_err ++ e); (LInfo, m_closed)],
           {| ss_fs := fst r; ss_k := S (ss_k st); ss_prev := t; ss_dead := true |})
      | None =>
          (frec ++ [out_rec line],
           {| ss_fs := fst r; ss_k := S (ss_k st); ss_prev := t; ss_dead := false |})
      end.

  Fixpoint send_lines (w : wenv) (st : sstate) (ls : list bytes) : list logrec * sstate :=
    match ls with
    | [] => ([], st)
    | l :: ls' =>
        let r := write_one w st l in
        let r' := send_lines w (snd r) ls' in
        (fst r ++ fst r', snd r')
    end.

  (* ----- recv + runLoop, one server line after the other; the bool = a panic escaped ----- *)
  Fixpoint recv_loop (w : wenv) (hs : hstate) (st : sstate) (ls : list bytes)
    : list logrec * sstate * bool :=
    match ls with
    | [] => ([], st, false)
    | rawl :: ls' =>
        if ss_dead st then ([], st, false)
        else
          let s := trim rawl s_crlf in                    (* s = strings.Trim(s, "\r\n") *)
          let r0 : logrec := (LDebug, m_in ++ s) in       (* logging.Debug("<- %s", s) *)
          match parse_fn s with
          | Panic => ([r0], st, true)
          | Ok None =>
              let '(rs, st', c) := recv_loop w hs st ls' in
              (r0 :: (LWarn, m_parse ++ s) :: rs, st', c)
          | Ok (Some l) =>
              let hr := handle hs l in
              let sr := send_lines w st (map raw (snd (fst hr))) in
              let '(rs, st', c) := recv_loop w (snd hr) (snd sr) ls' in
              (r0 :: fst (fst hr) ++ fst sr ++ rs, st', c)
          end
    end.

  Definition end_recs (e : option bytes) (st : sstate) : list logrec :=
    match e with Some t => [(LError, m_recv_err ++ t)] | None => [] end
    ++ (if ss_dead st then [] else [(LInfo, m_closed)]).

  (* ----- one session ----- *)
  Definition run_session (c : lcfg) (e : env) : list logrec :=
    let pc := lc_pub c in
    let cr := connect_recs pc (ev_dial e) (ev_tls e) in
    if negb (snd cr) then fst cr
    else
      let w := {| we_flood := pc_flood pc; we_clock := ev_clock e; we_wfail := ev_wfail e |} in
      let st0 := {| ss_fs := ev_fs0 e; ss_k := 0; ss_prev := 0; ss_dead := false |} in
      let rr := send_lines w st0 (reg_lines c) in
      let '(lrecs, st2, crashed) := recv_loop w (h_init pc) (snd rr) (ev_lines e) in
      fst cr ++ fst rr ++ lrecs ++ (if crashed then [] else end_recs (ev_end e) st2).
End Session.

(* ---------- the three logging threads ---------- *)
Inductive thread := TSend | TRecv | TOther.
Definition thread_eqb (a b : thread) : bool :=
  match a, b with TSend, TSend | TRecv, TRecv | TOther, TOther => true | _, _ => false end.

(* which goroutine a record comes from, read off its level and constant prefix *)
Definition thread_of (r : logrec) : thread :=
  match fst r with
  | LDebug => if has_prefix (snd r) m_out then TSend
              else if has_prefix (snd r) m_in then TRecv else TOther
  | LInfo => if has_prefix (snd r) m_flood_pre then TSend else TOther
  | LWarn => if has_prefix (snd r) m_parse then TRecv else TOther
  | LError => if has_prefix (snd r) m_send_err then TSend
              else if has_prefix (snd r) m_recv_err then TRecv else TOther
  end.
Definition proj (t : thread) (l : list logrec) : list logrec :=
  filter (fun r => thread_eqb (thread_of r) t) l.

(* same stream up to the interleaving of the three threads *)
Definition streams_eqb (a b : list logrec) : bool :=
  recs_eqb (proj TSend a) (proj TSend b) && recs_eqb (proj TRecv a) (proj TRecv b)
  && recs_eqb (proj TOther a) (proj TOther b).

(* ---------- the property as a boolean (theorem predicate AND runtime oracle) ---------- *)
(* (a) no 8-byte window of a password of at least 16 bytes occurs in any record *)
Definition secret_min : Z := 16.
Definition window_len : nat := 8.
Definition no_secret (p : bytes) (l : list logrec) : bool :=
  if len p <? secret_min then true
  else forallb (fun wd => forallb (fun r => negb (contains (snd r) wd)) l) (windows window_len p).

(* (b) every record of an outgoing line that starts with PASS is exactly the masked constant *)
Definition m_out_pass : bytes := m_out ++ s_PASS.
Definition masked_rec : logrec := (LDebug, m_out ++ s_masked).
Definition pass_masked (l : list logrec) : bool :=
  forallb (fun r => match fst r with
                    | LDebug => if has_prefix (snd r) m_out_pass then rec_eqb r masked_rec else true
                    | _ => true
                    end) l.

(* (c) the two runs of a pair give the same stream.  [C20_ok p1 p2 log1 log2] *)
Definition C20_ok (p1 p2 : bytes) (log1 log2 : list logrec) : bool :=
  no_secret p1 log1 && no_secret p2 log2 && no_secret p1 log2 && no_secret p2 log1
  && pass_masked log1 && pass_masked log2
  && streams_eqb log1 log2.

(* ---------- a concrete instance of the handlers, for running ----------
   The internal handlers of client/handlers.go that log or answer, for a client without SASL
   and without requested capabilities, plus what the tracker says when its only nick is the
   client's own and it knows no channel (true as long as the client itself never JOINs):
     PING, 001, 433, NICK (h_NICK / h_STNICK), CAP LS|ACK|NAK, 410, 903, 904, 908.
   A handler that would panic on a missing argument logs through LogPanic a text containing a
   source position, which is not modelled: [m_panic] stands for it. *)
Record chs := { ch_me : bytes; ch_track : bool }.
Definition c_init (pc : pubcfg) : chs := {| ch_me := pc_nick pc; ch_track := pc_track pc |}.

Definition m_panic : bytes := Eval vm_compute in bs "<handler panic>".
Definition m_changed_old : bytes := Eval vm_compute in bs "Server changed our nick on connect: old=".
Definition m_changed_new : bytes := Eval vm_compute in bs " new=".
Definition m_renick : bytes := Eval vm_compute in bs "Tracker.ReNick(): ".
Definition m_exists : bytes := Eval vm_compute in bs " already exists.".
Definition m_not_tracked : bytes := Eval vm_compute in bs " not tracked.".
Definition m_410 : bytes := Eval vm_compute in bs "Invalid cap subcommand: %!(EXTRA string=".
Definition m_rparen : bytes := Eval vm_compute in bs ")".
Definition m_904 : bytes := Eval vm_compute in bs "SASL authentication failed".
Definition m_908 : bytes :=
  Eval vm_compute in bs "SASL mechanism not supported, supported mechanisms are: ".
Definition s_001 : bytes := Eval vm_compute in bs "001".
Definition s_433 : bytes := Eval vm_compute in bs "433".
Definition s_410 : bytes := Eval vm_compute in bs "410".
Definition s_903 : bytes := Eval vm_compute in bs "903".
Definition s_904 : bytes := Eval vm_compute in bs "904".
Definition s_908 : bytes := Eval vm_compute in bs "908".
Definition s_ACK : bytes := Eval vm_compute in bs "ACK".
Definition s_NAK : bytes := Eval vm_compute in bs "NAK".
Definition cap_end : bytes := Eval vm_compute in bs "CAP END".

Section Concrete.
  Variable quote : bytes -> bytes.

  Definition panic_out (h : chs) : (list logrec * list bytes) * chs := (([(LError, m_panic)], []), h).

  (* st.ReNick(old, neu) when the tracker knows exactly the nick [ch_me]: record and new me *)
  Definition renick (h : chs) (old neu : bytes) : list logrec * chs :=
    if negb (beq old (ch_me h)) then ([(LWarn, m_renick ++ old ++ m_not_tracked)], h)
    else if beq neu (ch_me h) then ([(LWarn, m_renick ++ neu ++ m_exists)], h)
    else ([], {| ch_me := neu; ch_track := ch_track h |}).

  Definition c_handle (h : chs) (l : line) : (list logrec * list bytes) * chs :=
    let cmd := l_cmd l in
    let args := l_args l in
    if beq cmd s_PING then                                  (* conn.Pong(line.Args[0]) *)
      match elem_at args 0 with
      | Ok a0 => (([], [s_PONG ++ s_sp_colon ++ a0]), h)
      | Panic => panic_out h
      end
    else if beq cmd s_001 then
      match target l with
      | Panic => panic_out h
      | Ok nick =>
          let warn := if negb (beq (ch_me h) nick)
                      then [(LWarn, m_changed_old ++ quote (ch_me h) ++ m_changed_new ++ quote nick)]
                      else [] in
          if ch_track h then
            let r := renick h (ch_me h) nick in ((warn ++ fst r, []), snd r)
          else ((warn, []), {| ch_me := nick; ch_track := false |})
      end
    else if beq cmd s_433 then
      match elem_at args 1 with
      | Panic => panic_out h
      | Ok a1 =>
          let neu := default_new_nick a1 in
          let out := [s_NICK ++ s_sp ++ neu] in
          if beq a1 (ch_me h) then
            if ch_track h then let r := renick h (ch_me h) neu in ((fst r, out), snd r)
            else (([], out), {| ch_me := neu; ch_track := false |})
          else (([], out), h)
      end
    else if beq cmd s_NICK then
      if ch_track h then
        match elem_at args 0 with
        | Panic => panic_out h
        | Ok a0 => let r := renick h (l_nick l) a0 in ((fst r, []), snd r)
        end
      else if beq (l_nick l) (ch_me h) then
        match elem_at args 0 with
        | Panic => panic_out h
        | Ok a0 => (([], []), {| ch_me := a0; ch_track := false |})
        end
      else (([], []), h)
    else if beq cmd s_CAP then
      match elem_at args 1 with
      | Panic => panic_out h
      | Ok sub => if beq sub s_LS || beq sub s_ACK || beq sub s_NAK then (([], [cap_end]), h)
                  else (([], []), h)
      end
    else if beq cmd s_410 then
      match elem_at args 1 with
      | Panic => panic_out h
      | Ok a1 => (([(LWarn, m_410 ++ a1 ++ m_rparen)], []), h)
      end
    else if beq cmd s_903 then (([], [cap_end]), h)
    else if beq cmd s_904 then (([(LWarn, m_904)], [cap_end]), h)
    else if beq cmd s_908 then
      match elem_at args 1 with
      | Panic => panic_out h
      | Ok a1 => (([(LWarn, m_908 ++ a1)], [cap_end]), h)
      end
    else (([], []), h).
End Concrete.

(* the executable session: ASCII renderings, Line.parse, the concrete handlers *)
Definition run_concrete (fs : Z -> bytes) : lcfg -> env -> list logrec :=
  run_session fs quote_ascii parse chs c_init (c_handle quote_ascii).

(* an ideal scheduler: no latency, a sleep lasts exactly as requested *)
Definition eager_clock : nat -> Z -> Z * Z := fun _ prev => (prev, 0).
