(* Model/LineSend.v — the SENDING side of property C01: the grammar of well-formed IRC
   messages (RFC 2812 section 2.3.1 + IRCv3 message tags), how such a message is written
   on the wire ([render]), and what a receiver must get out of it ([expected]).
   Nothing here is a transliteration of goirc code: this is the specification that
   Model/Line.v ([parse], a transliteration of client/line.go) is proved against in
   Proofs/LineRoundTrip.v.  Executable definitions only (no proofs). *)
From Verif Require Export GoBytes LineLib Line.
Open Scope Z_scope.

(* ---------- the message as its sender thinks of it ---------- *)
Inductive source :=
| SrcServer (name : bytes)
| SrcUser (nick user host : bytes).

Record msg := {
  mtags : option (list (bytes * option bytes));  (* None: no tag section.  (k, None) = key-only
                                                    tag "k"; (k, Some v) = "k=<escaped v>" *)
  msrc : option source;
  verb : bytes;
  middles : list (nat * bytes);  (* (number of EXTRA spaces before the parameter, parameter);
                                    one separating space is always written *)
  trailing : option bytes
}.

(* ---------- bytes ---------- *)
Definition b_nul : N := 0%N.
Definition b_soh : N := 1%N.
Definition b_lf : N := 10%N.
Definition b_cr : N := 13%N.
Definition b_sp : N := 32%N.
Definition b_bang : N := 33%N.
Definition b_colon : N := 58%N.
Definition b_semi : N := 59%N.
Definition b_eq : N := 61%N.
Definition b_at : N := 64%N.
Definition b_bsl : N := 92%N.

(* ---------- IRCv3 tag value escaping (all five escapes) ---------- *)
Definition escape_byte (c : N) : bytes :=
  if N.eqb c b_semi then [b_bsl; 58%N]          (* ;  -> \: *)
  else if N.eqb c b_sp then [b_bsl; 115%N]      (* SP -> \s *)
  else if N.eqb c b_bsl then [b_bsl; b_bsl]     (* \  -> \\ *)
  else if N.eqb c b_cr then [b_bsl; 114%N]      (* CR -> \r *)
  else if N.eqb c b_lf then [b_bsl; 110%N]      (* LF -> \n *)
  else [c].
Definition escape (v : bytes) : bytes := flat_map escape_byte v.

(* ---------- render: the bytes on the wire (without CR LF) ---------- *)
Definition render_tag (t : bytes * option bytes) : bytes :=
  match snd t with
  | None => fst t
  | Some v => fst t ++ [b_eq] ++ escape v
  end.

Definition render_tags (ot : option (list (bytes * option bytes))) : bytes :=
  match ot with
  | None => []
  | Some ts => [b_at] ++ join (map render_tag ts) [b_semi] ++ [b_sp]
  end.

Definition src_text (s : source) : bytes :=
  match s with
  | SrcServer n => n
  | SrcUser n u h => n ++ [b_bang] ++ u ++ [b_at] ++ h
  end.

Definition render_src (os : option source) : bytes :=
  match os with
  | None => []
  | Some s => [b_colon] ++ src_text s ++ [b_sp]
  end.

Definition render_param (p : nat * bytes) : bytes := repeat b_sp (S (fst p)) ++ snd p.
Definition render_params (ms : list (nat * bytes)) : bytes := flat_map render_param ms.

Definition render_trailing (ot : option bytes) : bytes :=
  match ot with
  | None => []
  | Some t => [b_sp; b_colon] ++ t
  end.

(* "cmd args[] :text" *)
Definition render_body (m : msg) : bytes :=
  verb m ++ render_params (middles m) ++ render_trailing (trailing m).

Definition render (m : msg) : bytes :=
  render_tags (mtags m) ++ render_src (msrc m) ++ render_body m.

(* ---------- well-formedness: the quantifier of C01 ---------- *)
Definition nonempty (s : bytes) : bool := match s with [] => false | _ => true end.

(* a "word": non-empty, no NUL, no ASCII white space (SP \t \n \v \f \r) *)
Definition word_byte (c : N) : bool := negb (is_space c) && negb (N.eqb c b_nul).
Definition word_ok (w : bytes) : bool := nonempty w && forallb word_byte w.

(* tag keys are written as they are (never escaped): no = ; SP \ CR LF NUL *)
Definition key_byte (c : N) : bool := negb (mem_byte c [b_eq; b_semi; b_sp; b_bsl; b_cr; b_lf; b_nul]).
Definition key_ok (k : bytes) : bool := nonempty k && forallb key_byte k.
(* tag values are escaped: any byte but NUL *)
Definition value_ok (v : bytes) : bool := forallb (fun c => negb (N.eqb c b_nul)) v.
Definition mtag_ok (t : bytes * option bytes) : bool :=
  key_ok (fst t) && match snd t with Some v => value_ok v | None => true end.
Definition tags_ok (ot : option (list (bytes * option bytes))) : bool :=
  match ot with
  | None => true
  | Some ts => match ts with [] => false | _ => forallb mtag_ok ts end   (* at least one tag *)
  end.

(* nick / user / host: words without '!' and '@' *)
Definition name_ok (w : bytes) : bool :=
  word_ok w && negb (mem_byte b_bang w) && negb (mem_byte b_at w).
(* a server name is a word that does not contain both '!' and '@' (it would read as a user) *)
Definition server_ok (w : bytes) : bool :=
  word_ok w && negb (mem_byte b_bang w && mem_byte b_at w).
Definition src_ok (os : option source) : bool :=
  match os with
  | None => true
  | Some (SrcServer n) => server_ok n
  | Some (SrcUser n u h) => name_ok n && name_ok u && name_ok h
  end.

Definition is_letter (c : N) : bool :=
  ((65 <=? c)%N && (c <=? 90)%N) || ((97 <=? c)%N && (c <=? 122)%N).
Definition is_digit (c : N) : bool := (48 <=? c)%N && (c <=? 57)%N.
(* one or more ASCII letters in any case, or exactly three digits *)
Definition verb_ok (v : bytes) : bool :=
  (nonempty v && forallb is_letter v)
  || (Nat.eqb (length v) 3 && forallb is_digit v).

(* a middle parameter: a word whose first byte is not ':' (':' may occur later) *)
Definition middle_ok (p : bytes) : bool :=
  word_ok p && match p with c :: _ => negb (N.eqb c b_colon) | [] => false end.
Definition middles_ok (ms : list (nat * bytes)) : bool :=
  Nat.leb (length ms) 14 && forallb (fun p => middle_ok (snd p)) ms.

(* the trailing parameter: anything but NUL CR LF (may be empty, contain spaces and " :") *)
Definition trailing_byte (c : N) : bool :=
  negb (N.eqb c b_nul) && negb (N.eqb c b_cr) && negb (N.eqb c b_lf).
Definition trailing_ok (ot : option bytes) : bool :=
  match ot with None => true | Some t => forallb trailing_byte t end.

(* ---------- CTCP payloads:  \x01 VERB SP text \x01 ----------
   In the claim: VERB non-empty, printable ASCII without lower-case letters (the receiver
   upper-cases it; the property does not say so, hence lower case is left out), no \x01;
   text non-empty and free of \x01 (it may contain spaces). *)
Definition ctcp_verb_byte (c : N) : bool :=
  (33 <=? c)%N && (c <=? 126)%N && negb ((97 <=? c)%N && (c <=? 122)%N).
Definition ctcp_verb_ok (v : bytes) : bool := nonempty v && forallb ctcp_verb_byte v.
Definition ctcp_text_ok (t : bytes) : bool :=
  nonempty t && forallb (fun c => negb (N.eqb c b_soh)) t.

(* what the parameter looks like when the receiver will take it for a CTCP payload *)
Definition ctcp_shaped (p : bytes) : bool :=
  (len p >? 2) && has_prefix p [b_soh] && has_suffix p [b_soh].

(* split an in-claim payload into (VERB, text) *)
Definition ctcp_parts (p : bytes) : option (bytes * bytes) :=
  match p with
  | c :: q =>
      if N.eqb c b_soh then
        match rev q with
        | c' :: rb =>
            if N.eqb c' b_soh then
              match split2 (rev rb) [b_sp] with
              | [v; t] => if ctcp_verb_ok v && ctcp_text_ok t then Some (v, t) else None
              | _ => None
              end
            else None
        | [] => None
        end
      else None
  | [] => None
  end.

Definition is_msg_cmd (cmd : bytes) : bool := beq cmd cmd_PRIVMSG || beq cmd cmd_NOTICE.

Definition msg_args (m : msg) : list bytes :=
  map snd (middles m) ++ match trailing m with Some t => [t] | None => [] end.

(* for PRIVMSG / NOTICE: if the second parameter looks like a CTCP payload it must be an
   in-claim one and be the last parameter (it is then necessarily the trailing one) *)
Definition ctcp_wf (cmd : bytes) (args : list bytes) : bool :=
  if is_msg_cmd cmd then
    match args with
    | _ :: a1 :: rest =>
        if ctcp_shaped a1
        then match rest, ctcp_parts a1 with [], Some _ => true | _, _ => false end
        else true
    | _ => true
    end
  else true.

Definition wf_msg (m : msg) : bool :=
  tags_ok (mtags m) && src_ok (msrc m) && verb_ok (verb m) && middles_ok (middles m)
  && trailing_ok (trailing m) && ctcp_wf (to_upper (verb m)) (msg_args m).

(* ---------- expected: what the receiver must see ---------- *)
Definition tag_value (ov : option bytes) : bytes := match ov with Some v => v | None => [] end.

(* the tag map: every tag in order, a later binding of the same key replaces the earlier *)
Definition exp_tagmap (ts : list (bytes * option bytes)) : tagmap :=
  fold_left (fun m t => tags_set m (fst t) (tag_value (snd t))) ts [].

(* the same said without [tags_set]: the value of the LAST tag with key [k], if any *)
Fixpoint last_binding (ts : list (bytes * option bytes)) (k : bytes) : option bytes :=
  match ts with
  | [] => None
  | t :: ts' => match last_binding ts' k with
                | Some v => Some v
                | None => if beq k (fst t) then Some (tag_value (snd t)) else None
                end
  end.

Definition exp_tags (ot : option (list (bytes * option bytes))) : option tagmap :=
  match ot with None => None | Some ts => Some (exp_tagmap ts) end.

(* (Src, Nick, Ident, Host) *)
Definition exp_src (os : option source) : bytes * bytes * bytes * bytes :=
  match os with
  | None => ([], [], [], [])
  | Some (SrcServer n) => (n, [], [], n)
  | Some (SrcUser n u h) => (src_text (SrcUser n u h), n, u, h)
  end.

(* the CTCP rewrite of (Cmd, Args) *)
Definition exp_ctcp (cmd : bytes) (args : list bytes) : bytes * list bytes :=
  if is_msg_cmd cmd then
    match args with
    | [tgt; p] =>
        match ctcp_parts p with
        | Some (v, t) =>
            let c := to_upper v in
            if beq c cmd_ACTION && beq cmd cmd_PRIVMSG then (cmd_ACTION, [tgt; t])
            else ((if beq cmd cmd_PRIVMSG then cmd_CTCP else cmd_CTCPREPLY), [c; tgt; t])
        | None => (cmd, args)
        end
    | _ => (cmd, args)
    end
  else (cmd, args).

Definition expected (m : msg) : line :=
  let '(src, nick, ident, host) := exp_src (msrc m) in
  let ca := exp_ctcp (to_upper (verb m)) (msg_args m) in
  {| l_tags := exp_tags (mtags m);
     l_nick := nick; l_ident := ident; l_host := host; l_src := src;
     l_cmd := fst ca; l_raw := render m; l_args := snd ca |}.

(* ---------- what Text / Target / Public must answer (total specification) ---------- *)
Definition starts_chan (s : bytes) : bool :=
  match s with c :: _ => mem_byte c [35; 38; 43; 33]%N | [] => false end.   (* # & + ! *)

Definition is_msg3 (cmd : bytes) : bool :=
  beq cmd cmd_PRIVMSG || beq cmd cmd_NOTICE || beq cmd cmd_ACTION.
Definition is_ctcp2 (cmd : bytes) : bool := beq cmd cmd_CTCP || beq cmd cmd_CTCPREPLY.

Definition spec_text (l : line) : bytes := last (l_args l) [].

Definition spec_public (l : line) : bool :=
  if is_msg3 (l_cmd l) then match l_args l with a0 :: _ => starts_chan a0 | [] => false end
  else if is_ctcp2 (l_cmd l) then match l_args l with _ :: a1 :: _ => starts_chan a1 | _ => false end
  else false.

Definition first_arg (l : line) : bytes := match l_args l with a0 :: _ => a0 | [] => [] end.

Definition spec_target (l : line) : bytes :=
  if is_msg3 (l_cmd l) then (if spec_public l then first_arg l else l_nick l)
  else if is_ctcp2 (l_cmd l) then
    (if spec_public l then match l_args l with _ :: a1 :: _ => a1 | _ => [] end else l_nick l)
  else first_arg l.

(* ---------- the property as a boolean predicate: theorem statement AND runtime oracle ----------
   [l] = the line the receiver produced for [render m] (ParseLine's result, or what a handler
   got over a connection); [txt tgt pub] = what Text() / Target() / Public() answered on it. *)
Definition res_beq {A} (eqb : A -> A -> bool) (r : res A) (x : A) : bool :=
  match r with Ok y => eqb y x | Panic => false end.

Definition C01_ok (m : msg) (l : line) (txt tgt : res bytes) (pub : res bool) : bool :=
  line_eqb l (expected m)
  && res_beq beq txt (spec_text (expected m))
  && res_beq beq tgt (spec_target (expected m))
  && res_beq Bool.eqb pub (spec_public (expected m)).

(* ---------- the stream: bufio.Reader.ReadString('\n') framing ----------
   ASSUMPTION (bufio, not transliterated): successive ReadString('\n') calls return the
   successive maximal LF-terminated pieces of the byte stream, independent of how the bytes
   were chunked by the network; a final piece without LF is not returned before EOF/error. *)
Fixpoint frames_aux (s : bytes) (cur : bytes) : list bytes :=
  match s with
  | [] => []
  | c :: s' => if N.eqb c b_lf then rev (c :: cur) :: frames_aux s' []
               else frames_aux s' (c :: cur)
  end.
Definition frames (s : bytes) : list bytes := frames_aux s [].

(* recv's loop over a stream: one outcome per frame, in order *)
Definition recv_stream (s : bytes) : list (res (option line)) := map recv_one (frames s).

Definition wire (m : msg) : bytes := render m ++ [b_cr; b_lf].
