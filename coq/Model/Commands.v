(* Model/Commands.v — client/commands.go: every exported command method as the list of
   strings it hands to the output queue (i.e. AFTER cutNewLines in Raw), and the bytes
   client/connection.go:write puts on the wire for them.  Executable definitions only. *)
From Verif Require Export GoBytes Split.
Open Scope Z_scope.

(* ASCII helpers *)
Definition s_PASS : bytes := [80;65;83;83]%N.
Definition s_NICK : bytes := [78;73;67;75]%N.
Definition s_USER : bytes := [85;83;69;82]%N.
Definition s_JOIN : bytes := [74;79;73;78]%N.
Definition s_PART : bytes := [80;65;82;84]%N.
Definition s_KICK : bytes := [75;73;67;75]%N.
Definition s_QUIT : bytes := [81;85;73;84]%N.
Definition s_WHOIS : bytes := [87;72;79;73;83]%N.
Definition s_WHO : bytes := [87;72;79]%N.
Definition s_PRIVMSG : bytes := [80;82;73;86;77;83;71]%N.
Definition s_NOTICE : bytes := [78;79;84;73;67;69]%N.
Definition s_VERSION : bytes := [86;69;82;83;73;79;78]%N.
Definition s_ACTION : bytes := [65;67;84;73;79;78]%N.
Definition s_TOPIC : bytes := [84;79;80;73;67]%N.
Definition s_MODE : bytes := [77;79;68;69]%N.
Definition s_AWAY : bytes := [65;87;65;89]%N.
Definition s_INVITE : bytes := [73;78;86;73;84;69]%N.
Definition s_OPER : bytes := [79;80;69;82]%N.
Definition s_VHOST : bytes := [86;72;79;83;84]%N.
Definition s_PING : bytes := [80;73;78;71]%N.
Definition s_PONG : bytes := [80;79;78;71]%N.
Definition s_CAP : bytes := [67;65;80]%N.
Definition s_AUTHENTICATE : bytes := [65;85;84;72;69;78;84;73;67;65;84;69]%N.
Definition s_CTCP : bytes := [67;84;67;80]%N.
Definition s_CTCPREPLY : bytes := [67;84;67;80;82;69;80;76;89]%N.
Definition s_sp : bytes := [32]%N.
Definition s_sp_colon : bytes := [32;58]%N.                 (* " :" *)
Definition s_user_mid : bytes := [32;49;50;32;42;32;58]%N.  (* " 12 * :" *)
Definition soh : N := 1%N.
Definition crlf : bytes := [13;10]%N.

Inductive method :=
| MRaw | MPass | MNick | MUser | MJoin | MPart | MKick | MQuit | MWhois | MWho
| MPrivmsg | MPrivmsgln | MPrivmsgf | MNotice | MCtcp | MCtcpReply | MVersion | MAction
| MTopic | MMode | MAway | MInvite | MOper | MVHost | MPing | MPong | MCap | MAuthenticate.

Definition all_methods : list method :=
  [MRaw; MPass; MNick; MUser; MJoin; MPart; MKick; MQuit; MWhois; MWho;
   MPrivmsg; MPrivmsgln; MPrivmsgf; MNotice; MCtcp; MCtcpReply; MVersion; MAction;
   MTopic; MMode; MAway; MInvite; MOper; MVHost; MPing; MPong; MCap; MAuthenticate].

(* the verb each method's lines must begin with; Raw has none *)
Definition verb_of (m : method) : option bytes :=
  match m with
  | MRaw => None
  | MPass => Some s_PASS | MNick => Some s_NICK | MUser => Some s_USER
  | MJoin => Some s_JOIN | MPart => Some s_PART | MKick => Some s_KICK
  | MQuit => Some s_QUIT | MWhois => Some s_WHOIS | MWho => Some s_WHO
  | MPrivmsg | MPrivmsgln | MPrivmsgf | MCtcp | MVersion | MAction => Some s_PRIVMSG
  | MNotice | MCtcpReply => Some s_NOTICE
  | MTopic => Some s_TOPIC | MMode => Some s_MODE | MAway => Some s_AWAY
  | MInvite => Some s_INVITE | MOper => Some s_OPER | MVHost => Some s_VHOST
  | MPing => Some s_PING | MPong => Some s_PONG | MCap => Some s_CAP
  | MAuthenticate => Some s_AUTHENTICATE
  end.

(* the part of Config the command methods read *)
Record cmd_cfg := { cc_split_len : Z; cc_quit_message : bytes }.

Section Commands.
  (* strings.ToUpper on the caller's CTCP verb: arbitrary (Unicode-aware in Go); every
     theorem about this section holds for ANY function here *)
  Variable upper : bytes -> bytes.

  Definition arg (args : list bytes) (i : nat) : bytes := nth i args [].

  (* conn.Raw: what reaches the out queue *)
  Definition raw (line : bytes) : bytes := cut_newlines line.

  (* " :"+msg unless msg is empty *)
  Definition opt_trailing (pre msg : bytes) : bytes :=
    if beq msg [] then [] else pre ++ msg.

  (* Ctcp / CtcpReply share their body up to the verb *)
  Definition ctcp_lines (verb t ctcp : bytes) (args : list bytes) (n : Z) : res (list bytes) :=
    ps <- split_message (join args s_sp) n ;;
    Ok (map (fun s => let s' := if beq s [] then [] else s_sp ++ s in
                      raw (verb ++ s_sp ++ t ++ s_sp_colon ++ [soh] ++ upper ctcp ++ s' ++ [soh])) ps).

  Definition msg_lines (verb t msg : bytes) (n : Z) : res (list bytes) :=
    ps <- split_message msg n ;;
    Ok (map (fun s => raw (verb ++ s_sp ++ t ++ s_sp_colon ++ s)) ps).

  (* every exported command method; [args] are the positional then the variadic arguments *)
  Definition emit (m : method) (cfg : cmd_cfg) (args : list bytes) : res (list bytes) :=
    let a := arg args in
    match m with
    | MRaw => Ok [raw (a 0%nat)]
    | MPass => Ok [raw (s_PASS ++ s_sp ++ a 0%nat)]
    | MNick => Ok [raw (s_NICK ++ s_sp ++ a 0%nat)]
    | MUser => Ok [raw (s_USER ++ s_sp ++ a 0%nat ++ s_user_mid ++ a 1%nat)]
    | MJoin => let k := match skipn 1 args with k0 :: _ => s_sp ++ k0 | [] => [] end in
               Ok [raw (s_JOIN ++ s_sp ++ a 0%nat ++ k)]
    | MPart => Ok [raw (s_PART ++ s_sp ++ a 0%nat ++ opt_trailing s_sp_colon (join (skipn 1 args) s_sp))]
    | MKick => Ok [raw (s_KICK ++ s_sp ++ a 0%nat ++ s_sp ++ a 1%nat
                        ++ opt_trailing s_sp_colon (join (skipn 2 args) s_sp))]
    | MQuit => let msg := join args s_sp in
               let msg := if beq msg [] then cc_quit_message cfg else msg in
               Ok [raw (s_QUIT ++ s_sp_colon ++ msg)]
    | MWhois => Ok [raw (s_WHOIS ++ s_sp ++ a 0%nat)]
    | MWho => Ok [raw (s_WHO ++ s_sp ++ a 0%nat)]
    | MPrivmsg | MPrivmsgln | MPrivmsgf => msg_lines s_PRIVMSG (a 0%nat) (a 1%nat) (cc_split_len cfg)
    | MNotice => msg_lines s_NOTICE (a 0%nat) (a 1%nat) (cc_split_len cfg)
    | MCtcp => ctcp_lines s_PRIVMSG (a 0%nat) (a 1%nat) (skipn 2 args) (cc_split_len cfg)
    | MCtcpReply => ctcp_lines s_NOTICE (a 0%nat) (a 1%nat) (skipn 2 args) (cc_split_len cfg)
    | MVersion => ctcp_lines s_PRIVMSG (a 0%nat) s_VERSION [] (cc_split_len cfg)
    | MAction => ctcp_lines s_PRIVMSG (a 0%nat) s_ACTION [a 1%nat] (cc_split_len cfg)
    | MTopic => Ok [raw (s_TOPIC ++ s_sp ++ a 0%nat ++ opt_trailing s_sp_colon (join (skipn 1 args) s_sp))]
    | MMode => Ok [raw (s_MODE ++ s_sp ++ a 0%nat ++ opt_trailing s_sp (join (skipn 1 args) s_sp))]
    | MAway => Ok [raw (s_AWAY ++ opt_trailing s_sp_colon (join args s_sp))]
    | MInvite => Ok [raw (s_INVITE ++ s_sp ++ a 0%nat ++ s_sp ++ a 1%nat)]
    | MOper => Ok [raw (s_OPER ++ s_sp ++ a 0%nat ++ s_sp ++ a 1%nat)]
    | MVHost => Ok [raw (s_VHOST ++ s_sp ++ a 0%nat ++ s_sp ++ a 1%nat)]
    | MPing => Ok [raw (s_PING ++ s_sp_colon ++ a 0%nat)]
    | MPong => Ok [raw (s_PONG ++ s_sp_colon ++ a 0%nat)]
    | MCap =>
        match skipn 1 args with
        | [] => Ok [raw (s_CAP ++ s_sp ++ a 0%nat)]
        | caps => let pre := s_CAP ++ s_sp ++ a 0%nat ++ s_sp_colon in
                  Ok (map (fun x => raw (pre ++ x)) (split_args caps (default_split - len pre)))
        end
    | MAuthenticate => Ok [raw (s_AUTHENTICATE ++ s_sp ++ a 0%nat)]
    end.
End Commands.

(* connection.go:write — exactly one CRLF appended per line, flushed per line *)
Definition wire_of (lines : list bytes) : bytes := concat (map (fun l => l ++ crlf) lines).

(* ---------- framing as the server sees it ---------- *)
(* [frames w] = Some ls iff w is a concatenation of CRLF-terminated lines with no CR or LF
   inside them (ls are those lines); None otherwise *)
Fixpoint frames_aux (w cur : bytes) : option (list bytes) :=
  match w with
  | [] => match cur with [] => Some [] | _ => None end
  | c :: w' =>
      if N.eqb c 13 then
        match w' with
        | d :: w'' =>
            if N.eqb d 10
            then match frames_aux w'' [] with Some ls => Some (rev cur :: ls) | None => None end
            else None
        | [] => None
        end
      else if N.eqb c 10 then None
      else frames_aux w' (c :: cur)
  end.
Definition frames (w : bytes) : option (list bytes) := frames_aux w [].

(* a line "begins with the verb": it is the verb alone or the verb followed by a space *)
Definition verb_prefixed (verb line : bytes) : bool :=
  beq line verb || has_prefix line (verb ++ s_sp).

(* ---------- property C08 as a boolean predicate on the wire bytes ---------- *)
(* for Raw the claim is: one line, the longest CR/LF-free prefix of the argument *)
Definition C08_ok (m : method) (args : list bytes) (wire : bytes) : bool :=
  match frames wire with
  | None => false
  | Some ls =>
      match verb_of m with
      | Some v => forallb (verb_prefixed v) ls
      | None => match ls with
                | [l] => beq l (cut_newlines (nth 0 args []))
                | _ => false
                end
      end
  end.

(* ---------- C11 on the wire: the four splitting methods ---------- *)
Definition strip_prefix (s p : bytes) : option bytes :=
  if has_prefix s p then Some (skipn (length p) s) else None.
Definition strip_suffix (s p : bytes) : option bytes :=
  if has_suffix s p then Some (firstn (length s - length p) s) else None.

(* recover the text piece embedded in one line of Privmsg/Notice (pre = "VERB t :") *)
Definition piece_of_msg (pre line : bytes) : option bytes := strip_prefix line pre.
(* ... and of Ctcp/CtcpReply (pre = "VERB t :\001CTCP"): "\001" alone means the empty piece *)
Definition piece_of_ctcp (pre line : bytes) : option bytes :=
  match strip_prefix line pre with
  | None => None
  | Some r =>
      match strip_suffix r [soh] with
      | None => None
      | Some [] => Some []
      | Some (32%N :: s) => Some s
      | Some _ => None
      end
  end.

Fixpoint all_some {A} (l : list (option A)) : option (list A) :=
  match l with
  | [] => Some []
  | Some x :: l' => match all_some l' with Some r => Some (x :: r) | None => None end
  | None :: _ => None
  end.

(* is [m] one of the four methods C11 speaks about, and is it a CTCP one *)
Definition msg_kind (m : method) : option (bytes * bool) :=
  match m with
  | MPrivmsg | MPrivmsgln | MPrivmsgf => Some (s_PRIVMSG, false)
  | MNotice => Some (s_NOTICE, false)
  | MCtcp => Some (s_PRIVMSG, true)
  | MCtcpReply => Some (s_NOTICE, true)
  | _ => None
  end.

(* lines = what the server received for m(t, [ctcp,] text) with SplitLen n; uctcp is the
   upper-cased CTCP verb as sent *)
Definition C11_wire_ok (m : method) (t uctcp text : bytes) (n : Z) (lines : list bytes) : bool :=
  match msg_kind m with
  | None => false
  | Some (verb, is_ctcp) =>
      let pre := verb ++ s_sp ++ t ++ s_sp_colon in
      let pieces := if is_ctcp
                    then all_some (map (piece_of_ctcp (pre ++ [soh] ++ uctcp)) lines)
                    else all_some (map (piece_of_msg pre) lines) in
      match pieces with
      | Some ps => C11_ok text n ps
      | None => false
      end
  end.

(* decoding of method names for the harness *)
Definition method_name (m : method) : bytes :=
  match m with
  | MRaw => [82;97;119]%N | MPass => [80;97;115;115]%N | MNick => [78;105;99;107]%N
  | MUser => [85;115;101;114]%N | MJoin => [74;111;105;110]%N | MPart => [80;97;114;116]%N
  | MKick => [75;105;99;107]%N | MQuit => [81;117;105;116]%N | MWhois => [87;104;111;105;115]%N
  | MWho => [87;104;111]%N | MPrivmsg => [80;114;105;118;109;115;103]%N
  | MPrivmsgln => [80;114;105;118;109;115;103;108;110]%N
  | MPrivmsgf => [80;114;105;118;109;115;103;102]%N
  | MNotice => [78;111;116;105;99;101]%N | MCtcp => [67;116;99;112]%N
  | MCtcpReply => [67;116;99;112;82;101;112;108;121]%N
  | MVersion => [86;101;114;115;105;111;110]%N | MAction => [65;99;116;105;111;110]%N
  | MTopic => [84;111;112;105;99]%N | MMode => [77;111;100;101]%N | MAway => [65;119;97;121]%N
  | MInvite => [73;110;118;105;116;101]%N | MOper => [79;112;101;114]%N
  | MVHost => [86;72;111;115;116]%N | MPing => [80;105;110;103]%N | MPong => [80;111;110;103]%N
  | MCap => [67;97;112]%N
  | MAuthenticate => [65;117;116;104;101;110;116;105;99;97;116;101]%N
  end.
Definition method_of_name (s : bytes) : option method :=
  find (fun m => beq (method_name m) s) all_methods.
