(* Model/TrackerObs.v — C12: what one case observes, and the property predicate [C12_ok].
   A case is an operation sequence over a fresh tracker [NewTracker me] together with a
   universe of names.  The observation is, per operation, the canonicalised return value
   followed by a full query sweep (GetNick for every nick name, GetChannel for every channel
   name, IsOn for every pair, Me), each rendered as byte-string fields:
     nil                                              "nil"
     *Nick      "N" nick ident host name modes #chans (channel privs)*     channels sorted
     *Channel   "C" name topic flags key limit #nicks (nick privs)*        nicks sorted
     *ChanPrivs "P"++flags | "nil"      bool "t" | "f"        no value "u"
   modes/privileges are flag strings in the field order of the Go structs.
   [C12_ok]: the observation equals the plain model's prediction — the property says "every
   query result and every returned snapshot equals that of a plain model".
   Executable definitions only. *)
From Verif Require Export TrackerImpl.
Open Scope Z_scope.

Definition t_nil : bytes := [110; 105; 108]%N.
Definition t_panic : bytes := [112; 97; 110; 105; 99]%N.
Definition t_true : bytes := [116]%N.
Definition t_false : bytes := [102]%N.
Definition t_unit : bytes := [117]%N.

Definition fl (b : bool) (c : N) : bytes := if b then [c] else [].
Definition enc_nickmode (m : nickmode) : bytes :=
  fl (nm_B m) 66 ++ fl (nm_i m) 105 ++ fl (nm_o m) 111 ++ fl (nm_w m) 119 ++ fl (nm_x m) 120 ++ fl (nm_z m) 122.
Definition enc_chanflags (m : chanmode) : bytes :=
  fl (cm_p m) 112 ++ fl (cm_s m) 115 ++ fl (cm_t m) 116 ++ fl (cm_n m) 110 ++ fl (cm_m m) 109 ++
  fl (cm_i m) 105 ++ fl (cm_O m) 79 ++ fl (cm_z m) 122 ++ fl (cm_r m) 114 ++ fl (cm_Z m) 90.
Definition enc_privs (p : privs) : bytes :=
  fl (cp_q p) 113 ++ fl (cp_a p) 97 ++ fl (cp_o p) 111 ++ fl (cp_h p) 104 ++ fl (cp_v p) 118.
Definition enc_pairs (l : list (name * privs)) : list bytes :=
  concat (map (fun kv => [fst kv; enc_privs (snd kv)]) l).
Definition enc_count {A} (l : list A) : bytes := GoBytes.dec_of_Z (Z.of_nat (length l)).

Definition enc_nick (r : option nick_snap) : list bytes :=
  match r with
  | None => [t_nil]
  | Some r => [[78%N]; sn_nick r; sn_ident r; sn_host r; sn_name r; enc_nickmode (sn_modes r);
               enc_count (sn_chans r)] ++ enc_pairs (sn_chans r)
  end.
Definition enc_chan (r : option chan_snap) : list bytes :=
  match r with
  | None => [t_nil]
  | Some r => [[67%N]; sc_name r; sc_topic r; enc_chanflags (sc_modes r); cm_key (sc_modes r);
               GoBytes.dec_of_Z (cm_limit (sc_modes r)); enc_count (sc_nicks r)] ++ enc_pairs (sc_nicks r)
  end.
Definition enc_opt_privs (p : option privs) : bytes :=
  match p with None => t_nil | Some p => 80%N :: enc_privs p end.
Definition enc_bool (b : bool) : bytes := if b then t_true else t_false.

Definition enc_result (r : result) : list bytes :=
  match r with
  | RNick r => enc_nick r
  | RChan r => enc_chan r
  | RIsOn p ok => [enc_opt_privs p; enc_bool ok]
  | RPrivs p => [enc_opt_privs p]
  | RUnit => [t_unit]
  end.

(* the universe of a case: nick names and channel names *)
Record universe := { u_nicks : list name; u_chans : list name }.

(* the queries of one sweep *)
Definition sweep_ops (U : universe) : list op :=
  map OGetNick (u_nicks U) ++ map OGetChannel (u_chans U)
  ++ concat (map (fun c => map (fun n => OIsOn c n) (u_nicks U)) (u_chans U)) ++ [OMe].

Definition sp_sweep (U : universe) (s : tstate) : list bytes :=
  concat (map (fun q => enc_result (snd (sp_step s q))) (sweep_ops U)).

Fixpoint sp_observe (U : universe) (s : tstate) (ops : list op) : list bytes :=
  match ops with
  | [] => []
  | o :: ops' => let (s', r) := sp_step s o in
                 enc_result r ++ sp_sweep U s' ++ sp_observe U s' ops'
  end.

(* the same for the object-graph model; a panic ends the observation with "panic" *)
Section ImplObs.
Variable enumA : gmap addr addr -> list (addr * addr).
Variable enumN : gmap name addr -> list (name * addr).

Fixpoint im_sweep_aux (s : istate) (qs : list op) : option (list bytes) :=
  match qs with
  | [] => Some []
  | q :: qs' => x ← im_step enumA enumN s q; r ← im_sweep_aux s qs'; Some (enc_result (snd x) ++ r)
  end.
Definition im_sweep (U : universe) (s : istate) : option (list bytes) := im_sweep_aux s (sweep_ops U).

Fixpoint im_observe (U : universe) (s : istate) (ops : list op) : list bytes :=
  match ops with
  | [] => []
  | o :: ops' =>
      match im_step enumA enumN s o with
      | Some (s', r) =>
          match im_sweep U s' with
          | Some sw => enc_result r ++ sw ++ im_observe U s' ops'
          | None => [t_panic]
          end
      | None => [t_panic]
      end
  end.
End ImplObs.

(* the prediction of the plain model for a whole case, and the property predicate *)
Definition C12_predict (me : name) (U : universe) (ops : list op) : list bytes :=
  sp_observe U (sp_new me) ops.
Definition C12_ok (me : name) (U : universe) (ops : list op) (obs : list bytes) : bool :=
  bool_decide (obs = C12_predict me U ops).
