(* Model/Flood.v — C10: Hybrid's flood-control rule as implemented by
   client/connection.go Conn.rateLimit and its use in Conn.write.
   Executable definitions only (no proofs).

   Durations and clock readings are [Z] nanoseconds (time.Duration is an int64 count of
   nanoseconds; a clock reading is "nanoseconds since some fixed origin" on Go's MONOTONIC
   clock, which is what time.Now().Sub(t) uses when both readings carry one).
   Time enters only as explicit clock readings supplied by the environment:
     a   the first  time.Now() in rateLimit (used for [elapsed]),
     a'  the second time.Now() in rateLimit (stored in lastsent),
     w   the moment the line is handed to the socket by write.
   No overflow modelling: the property is not about int64 wrap-around; see
   FloodProofs.no_overflow (values stay far below 2^63 for line lengths < 9*10^9). *)
From Verif Require Import GoBytes.
Open Scope Z_scope.

(* ---------- constants (compared with Gen/Consts.v by Props/C10.tie_C10) ---------- *)
Definition second : Z := 1000000000.              (* time.Second *)
Definition line_base : Z := 2000000000.           (* 2*time.Second *)
Definition per_char_div : Z := 120.
Definition threshold : Z := 10000000000.          (* 10*time.Second *)

(* linetime := 2*time.Second + time.Duration(chars)*time.Second/120
   (multiplication first, then Go's truncating integer division = Z.quot) *)
Definition linetime (chars : Z) : Z := line_base + (chars * second) ÷ per_char_div.

(* ---------- rateLimit ---------- *)
Record flood_state := { fs_bad : Z;      (* conn.badness  *)
                        fs_last : Z }.   (* conn.lastsent *)

(* statement by statement:
     linetime := ...
     elapsed := time.Now().Sub(conn.lastsent)                    -- clock reading a
     if conn.badness += linetime - elapsed; conn.badness < 0 { conn.badness = 0 }
     conn.lastsent = time.Now()                                  -- clock reading a'
     if conn.badness > 10*time.Second { return linetime }
     return 0 *)
Definition rate_limit (st : flood_state) (a a' : Z) (chars : Z) : flood_state * Z :=
  let lt := linetime chars in
  let elapsed := a - fs_last st in
  let bad1 := fs_bad st + (lt - elapsed) in
  let bad2 := if bad1 <? 0 then 0 else bad1 in
  let st' := {| fs_bad := bad2; fs_last := a' |} in
  (st', if bad2 >? threshold then lt else 0).

(* write: "if !conn.cfg.Flood { if t := conn.rateLimit(len(line)); t != 0 { <-time.After(t) } }"
   — the delay write asks the runtime for before handing the line to the socket.  With
   Flood set rateLimit is not even called: the state is untouched. *)
Definition write_delay (flood : bool) (st : flood_state) (a a' : Z) (chars : Z) : flood_state * Z :=
  if flood then (st, 0) else rate_limit st a a' chars.

(* a freshly created client: badness = 0, lastsent = time.Now() at creation *)
Definition fresh (created : Z) : flood_state := {| fs_bad := 0; fs_last := created |}.

(* ---------- histories ---------- *)
(* one outgoing line: its length and the three clock readings *)
Record send := { s_chars : Z; s_a : Z; s_a2 : Z; s_w : Z }.

Definition step (st : flood_state) (e : send) : flood_state * Z :=
  rate_limit st (s_a e) (s_a2 e) (s_chars e).

(* the ONLY assumptions about clock and scheduler, for one line sent from state [st] when
   the previous line was written at [pw]:
     - the send goroutine is sequential and the clock monotone: pw <= a <= a' <= w;
     - a sleep lasts at least the requested duration: a' + ret <= w;
     - len(line) >= 0. *)
Definition honoured1 (st : flood_state) (pw : Z) (e : send) : Prop :=
  0 <= s_chars e /\ pw <= s_a e /\ s_a e <= s_a2 e /\ s_a2 e + snd (step st e) <= s_w e.

Fixpoint honoured (st : flood_state) (pw : Z) (l : list send) : Prop :=
  match l with
  | [] => True
  | e :: l' => honoured1 st pw e /\ honoured (fst (step st e)) (s_w e) l'
  end.

(* state and last write time after a history *)
Fixpoint final (st : flood_state) (pw : Z) (l : list send) : flood_state * Z :=
  match l with
  | [] => (st, pw)
  | e :: l' => final (fst (step st e)) (s_w e) l'
  end.

(* total charge of a run of lines *)
Fixpoint charge (l : list send) : Z :=
  match l with
  | [] => 0
  | e :: l' => linetime (s_chars e) + charge l'
  end.

(* per line: (charge, requested delay, penalty after accounting) *)
Fixpoint trace (st : flood_state) (l : list send) : list (Z * Z * Z) :=
  match l with
  | [] => []
  | e :: l' => let r := step st e in
               (linetime (s_chars e), snd r, fs_bad (fst r)) :: trace (fst r) l'
  end.

(* boolean form of [honoured] (for examples and for the harness) *)
Fixpoint honouredb (st : flood_state) (pw : Z) (l : list send) : bool :=
  match l with
  | [] => true
  | e :: l' => (0 <=? s_chars e) && (pw <=? s_a e) && (s_a e <=? s_a2 e)
               && (s_a2 e + snd (step st e) <=? s_w e)
               && honouredb (fst (step st e)) (s_w e) l'
  end.

(* an eager client and an ideal scheduler: every line is submitted at once at time [t],
   each sleep lasts exactly as requested, no other latency *)
Fixpoint eager (st : flood_state) (t : Z) (lens : list Z) : list send :=
  match lens with
  | [] => []
  | c :: lens' =>
      let r := rate_limit st t t c in
      {| s_chars := c; s_a := t; s_a2 := t; s_w := t + snd r |} :: eager (fst r) (t + snd r) lens'
  end.

(* ---------- the runtime oracles ---------- *)

(* C10_ok: ONE call of rateLimit, observed from outside under interval arithmetic.
   Before the call: badness = bad, lastsent = t0 - gap where t0 is a clock reading taken
   just before the call; t1 = t0 + slack is a reading taken just after it.  Observed: the
   returned delay [ret], the new badness [bad'] and lastoff = new lastsent - t0.
   The two readings a <= a' inside rateLimit satisfy t0 <= a <= a' <= t1, so the elapsed
   time it saw, e = a - (t0 - gap), lies in [gap, gap + slack] and a' - t0 = lastoff >= e - gap.
   The observation is accepted iff SOME such pair (a, a') makes the rule produce exactly
   (ret, bad', lastsent).  [e_lo] is the least elapsed time consistent with bad':
   the unique one when bad' > 0, and max gap (bad + linetime) when the floor was hit. *)
Definition C10_ok (chars bad gap slack ret bad' lastoff : Z) : bool :=
  let lt := linetime chars in
  let e_lo := if bad' >? 0 then bad + lt - bad' else Z.max gap (bad + lt) in
  (0 <=? bad')                                   (* never below zero *)
  && (gap <=? e_lo) && (e_lo <=? gap + slack)    (* charge lt, decay by the real elapsed time *)
  && (e_lo - gap <=? lastoff) && (lastoff <=? slack)   (* lastsent := now *)
  && (ret =? (if bad' >? threshold then lt else 0)).   (* held back for its own charge iff > 10 s *)

(* C10_window_ok: the window bound on a measured run.  [ws] = (chars_k, w_k) for the
   consecutive lines on the wire; for all i < j the charge of lines i+2..j must not exceed
   (w_j - w_i) + 10 s (+ tol), which is the same as
   "charge of lines i..j <= (w_j - w_i) + 10 s + charge of line i + charge of line i+1". *)
Fixpoint window_from (wi : Z) (tol : Z) (acc : Z) (rest : list (Z * Z)) : bool :=
  match rest with
  | [] => true
  | (c, w) :: rest' =>
      let acc' := acc + linetime c in
      (acc' <=? (w - wi) + threshold + tol) && window_from wi tol acc' rest'
  end.

Fixpoint C10_window_ok (tol : Z) (ws : list (Z * Z)) : bool :=
  match ws with
  | [] => true
  | (_, wi) :: rest =>
      match rest with
      | [] => true
      | (_, w2) :: rest2 => (0 <=? (w2 - wi) + threshold + tol) && window_from wi tol 0 rest2
      end && C10_window_ok tol rest
  end.

(* C10_hold_ok: the effect of two WHOLE write() calls on the flood counters and on the wire,
   observed from outside.  At clock reading t0 (the origin: all times below are relative to
   it) the harness sets badness = bad, lastsent = t0 and submits line 1 (c1 bytes); when the
   server end has it (measured arrival m1, at or after the true write time) the harness
   reads the counters (b1, lastsent = lo1) and its clock (r1), then submits line 2 (c2
   bytes): arrival m2, counters (b2, lo2).
   - the counters after a write are those rateLimit left: nothing in write (in particular
     not the sleep) touches them.  Line 1: elapsed in [0, lo1] (the first reading of
     rateLimit lies between t0 and the second one, which is lo1).  Line 2: its first
     reading lies in [r1, lo2], so elapsed in [r1 - lo1, lo2 - lo1];
   - a line whose new penalty exceeds 10 s reaches the wire no earlier than lastsent + its
     charge (the hold is served), judged on the arrival stamp (late, never early);
   - anchored window bound (FloodProofs.anchored_bound): penalty at t0 plus the charges sent
     since never exceed the time since t0 by more than 10 s. *)
Definition C10_hold_ok (c1 bad c2 lo1 b1 m1 r1 b2 lo2 m2 : Z) : bool :=
  let ret1 := if b1 >? threshold then linetime c1 else 0 in
  let ret2 := if b2 >? threshold then linetime c2 else 0 in
  C10_ok c1 bad 0 lo1 ret1 b1 lo1
  && (lo1 + ret1 <=? m1)
  && (lo1 <=? r1)
  && C10_ok c2 b1 (r1 - lo1) (lo2 - r1) ret2 b2 (lo2 - r1)
  && (lo2 + ret2 <=? m2)
  && (bad + linetime c1 <=? m1 + threshold)
  && (bad + linetime c1 + linetime c2 <=? m2 + threshold).

(* C10_fresh_ok: a run observed from a genuinely fresh client (badness 0, lastsent = its
   creation time, which is at or after the origin 0 of the time stamps): for every line j,
   the charges of lines 1..j never exceed its write time by more than 10 s — the anchored
   bound from the fresh state.  Unlike the window bound it has no slack of two charges: the
   first line whose accumulated penalty exceeds 10 s must really wait. *)
Fixpoint fresh_from (acc : Z) (ws : list (Z * Z)) : bool :=
  match ws with
  | [] => true
  | (c, w) :: rest =>
      let acc' := acc + linetime c in
      (acc' <=? w + threshold) && fresh_from acc' rest
  end.
Definition C10_fresh_ok (ws : list (Z * Z)) : bool := fresh_from 0 ws.
