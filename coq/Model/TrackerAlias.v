(* Model/TrackerAlias.v — C14, part A: the values the tracker RETURNS live in the heap too.
   Built on Model/TrackerImpl.v (the object graph of state/tracker.go): the state-changing part
   of every method is TrackerImpl's [im_step]; the RESULT is rebuilt here as Go builds it, by
   transliterating
       func (nk *nick) Nick() *Nick            (state/nick.go)
       func (ch *channel) Channel() *Channel   (state/channel.go)
       func (nk *nick) isOn(ch) ( *ChanPrivs, bool)
       cp.Copy() at the end of Associate       (state/tracker.go)
       NickMode.Copy  ChanMode.Copy  ChanPrivs.Copy  (pointer receivers)
   over the same heap and the same allocation counter:
       *Nick      -> [a_rnick]  {Nick Ident Host Name; Modes *NickMode; Channels map}
       *Channel   -> [a_rchan]  {Name Topic; Modes *ChanMode; Nicks map}
       *NickMode  -> [a_nmode]     *ChanMode -> [a_cmode]
       map[string]*ChanPrivs -> [a_pmap]  (a Go map value is a reference to a map object)
       *ChanPrivs -> TrackerImpl's [h_priv]: ONE heap for the tracker's own (shared) privilege
                     objects and for the copies handed out, so that "handing out the tracker's
                     own object" is expressible.
   [ChanPrivs.Copy] is a Section variable [pcopy]: [privs_Copy] is the code as it is,
   [privs_share] is the regression "return cp instead of cp.Copy()".
   (The tracker's *NickMode / *ChanMode are stored inline in TrackerImpl, so the analogous
   regression for Modes is not expressible in this model; the correspondence check covers it.)
   Executable definitions only; [None] = Go would panic. *)
From Verif Require Export TrackerImpl.
Open Scope Z_scope.

(* ---------- returned objects ---------- *)
Record rnickobj := { rn_nick : bytes; rn_ident : bytes; rn_host : bytes; rn_name : bytes;
                     rn_modes : option addr;        (* Modes *NickMode *)
                     rn_chans : option addr }.      (* Channels map[string]*ChanPrivs *)
Record rchanobj := { rc_name : bytes; rc_topic : bytes;
                     rc_modes : option addr;        (* Modes *ChanMode *)
                     rc_nicks : option addr }.      (* Nicks map[string]*ChanPrivs *)
Notation pmap := (gmap name (option addr)) (only parsing).   (* values may be nil *)

Record astate := {
  a_tr : istate;                      (* the tracker, ALL ChanPrivs objects, the allocation counter *)
  a_rnick : gmap addr rnickobj;
  a_rchan : gmap addr rchanobj;
  a_nmode : gmap addr nickmode;
  a_cmode : gmap addr chanmode;
  a_pmap : gmap addr pmap
}.

Definition with_tr (s : astate) t := Build_astate t (a_rnick s) (a_rchan s) (a_nmode s) (a_cmode s) (a_pmap s).
Definition set_rnick (s : astate) h := Build_astate (a_tr s) h (a_rchan s) (a_nmode s) (a_cmode s) (a_pmap s).
Definition set_rchan (s : astate) h := Build_astate (a_tr s) (a_rnick s) h (a_nmode s) (a_cmode s) (a_pmap s).
Definition set_nmode (s : astate) h := Build_astate (a_tr s) (a_rnick s) (a_rchan s) h (a_cmode s) (a_pmap s).
Definition set_cmode (s : astate) h := Build_astate (a_tr s) (a_rnick s) (a_rchan s) (a_nmode s) h (a_pmap s).
Definition set_pmap (s : astate) h := Build_astate (a_tr s) (a_rnick s) (a_rchan s) (a_nmode s) (a_cmode s) h.

Definition a_next (s : astate) : addr := h_next (a_tr s).
Definition a_bump (s : astate) : astate := with_tr s (bump (a_tr s)).

(* &T{...} / new(T) / make(map): store at the counter, advance it *)
Definition alloc_rnick (s : astate) (o : rnickobj) : astate := a_bump (set_rnick s (<[a_next s := o]> (a_rnick s))).
Definition alloc_rchan (s : astate) (o : rchanobj) : astate := a_bump (set_rchan s (<[a_next s := o]> (a_rchan s))).
Definition alloc_nmode (s : astate) (m : nickmode) : astate := a_bump (set_nmode s (<[a_next s := m]> (a_nmode s))).
Definition alloc_cmode (s : astate) (m : chanmode) : astate := a_bump (set_cmode s (<[a_next s := m]> (a_cmode s))).
Definition alloc_pmap (s : astate) (m : pmap) : astate := a_bump (set_pmap s (<[a_next s := m]> (a_pmap s))).
Definition alloc_priv (s : astate) (p : privs) : astate := with_tr s (put_priv (bump (a_tr s)) (a_next s) p).

Definition al_new (me : bytes) : astate := Build_astate (im_new me) ∅ ∅ ∅ ∅ ∅.

(* func (cp *ChanPrivs) Copy() *ChanPrivs { if cp == nil { return nil }; c := *cp; return &c } *)
Definition privs_Copy (s : astate) (cp : option addr) : option (astate * option addr) :=
  match cp with
  | None => Some (s, None)
  | Some a => p ← h_priv (a_tr s) !! a; Some (alloc_priv s p, Some (a_next s))
  end.
(* THE REGRESSION: "cp" where the code says "cp.Copy()" *)
Definition privs_share (s : astate) (cp : option addr) : option (astate * option addr) := Some (s, cp).

(* what a method hands back: addresses (None = Go nil) *)
Inductive rvalue :=
| VNick (a : option addr) | VChan (a : option addr)
| VIsOn (a : option addr) (ok : bool) | VPrivs (a : option addr) | VUnit.

Section WithCopy.
Variable enumA : gmap addr addr -> list (addr * addr).
Variable enumN : gmap name addr -> list (name * addr).
Variable pcopy : astate -> option addr -> option (astate * option addr).

(* m[k] = cp.Copy()   for the map object at [ac] *)
Definition copy_into (s : astate) (ac : addr) (k : name) (cp : addr) : option astate :=
  x ← pcopy s (Some cp);
  m ← a_pmap (fst x) !! ac;
  Some (set_pmap (fst x) (<[ac := <[k := snd x]> m]> (a_pmap (fst x)))).

(* func (nk *nick) Nick() *Nick {
     n := &Nick{Nick: nk.nick, ..., Modes: nk.modes.Copy(), Channels: make(map[string]*ChanPrivs, len(nk.chans))}
     for c, cp := range nk.chans { n.Channels[c.name] = cp.Copy() }
     return n } *)
Definition al_Nick (s : astate) (nk : addr) : option (astate * addr) :=
  o ← h_nick (a_tr s) !! nk;
  let am := a_next s in let s1 := alloc_nmode s (no_modes o) in          (* nk.modes.Copy(): n := *nm; &n *)
  let ac := a_next s1 in let s2 := alloc_pmap s1 ∅ in                    (* make(map[string]*ChanPrivs) *)
  let an := a_next s2 in
  let s3 := alloc_rnick s2 (Build_rnickobj (no_nick o) (no_ident o) (no_host o) (no_name o) (Some am) (Some ac)) in
  s4 ← foldM (fun s (e : addr * addr) => c ← h_chan (a_tr s) !! fst e; copy_into s ac (co_name c) (snd e))
             s3 (enumA (no_chans o));
  Some (s4, an).

(* func (ch *channel) Channel() *Channel — the same shape *)
Definition al_Channel (s : astate) (ch : addr) : option (astate * addr) :=
  c ← h_chan (a_tr s) !! ch;
  let am := a_next s in let s1 := alloc_cmode s (co_modes c) in
  let ac := a_next s1 in let s2 := alloc_pmap s1 ∅ in
  let an := a_next s2 in
  let s3 := alloc_rchan s2 (Build_rchanobj (co_name c) (co_topic c) (Some am) (Some ac)) in
  s4 ← foldM (fun s (e : addr * addr) => o ← h_nick (a_tr s) !! fst e; copy_into s ac (no_nick o) (snd e))
             s3 (enumA (co_nicks c));
  Some (s4, an).

(* func (nk *nick) isOn(ch *channel) ( *ChanPrivs, bool) { cp, ok := nk.chans[ch]; return cp.Copy(), ok } *)
Definition al_isOn (s : astate) (nk ch : addr) : option (astate * option addr * bool) :=
  o ← h_nick (a_tr s) !! nk;
  let cp := no_chans o !! ch in
  x ← pcopy s cp; Some (fst x, snd x, bool_decide (is_Some cp)).

(* which tracker object the method calls .Nick() / .Channel() on.  [t] is the tracker before the
   call, [t'] after it (DelNick / DelChannel snapshot the object they have just unlinked). *)
Definition nick_target (t t' : istate) (o : op) : option addr :=
  match o with
  | ONewNick n | OGetNick n | ONickInfo n _ _ _ | ONickModes n _ => st_nicks t' !! n
  | OReNick _ neu => st_nicks t' !! neu
  | ODelNick n => st_nicks t !! n
  | OMe => Some (st_me t')
  | _ => None
  end.
Definition chan_target (t t' : istate) (o : op) : option addr :=
  match o with
  | ONewChannel c | OGetChannel c | OTopic c _ | OChannelModes c _ _ => st_chans t' !! c
  | ODelChannel c => st_chans t !! c
  | _ => None
  end.

(* one method call: TrackerImpl's state change (and its pure snapshot [r], kept for comparison),
   then the result built in the heap.  A nil result is a nil pointer. *)
Definition al_step (s : astate) (o : op) : option (astate * rvalue * result) :=
  x ← im_step enumA enumN (a_tr s) o;
  let t' := fst x in let r := snd x in let s1 := with_tr s t' in
  match r with
  | RNick None => Some (s1, VNick None, r)
  | RNick (Some _) => nk ← nick_target (a_tr s) t' o; y ← al_Nick s1 nk; Some (fst y, VNick (Some (snd y)), r)
  | RChan None => Some (s1, VChan None, r)
  | RChan (Some _) => ch ← chan_target (a_tr s) t' o; y ← al_Channel s1 ch; Some (fst y, VChan (Some (snd y)), r)
  | RIsOn _ _ =>
      match o with
      | OIsOn c n =>
          match st_nicks t' !! n, st_chans t' !! c with
          | Some nk, Some ch => y ← al_isOn s1 nk ch; Some (fst (fst y), VIsOn (snd (fst y)) (snd y), r)
          | _, _ => Some (s1, VIsOn None false, r)                       (* return nil, false *)
          end
      | _ => None
      end
  | RPrivs None => Some (s1, VPrivs None, r)
  | RPrivs (Some _) =>                                                   (* Associate: return cp.Copy() *)
      match o with
      | OAssociate c n =>
          nk ← st_nicks t' !! n; ch ← st_chans t' !! c; ob ← h_nick t' !! nk;
          cp ← no_chans ob !! ch;
          y ← pcopy s1 (Some cp); Some (fst y, VPrivs (snd y), r)
      | _ => None
      end
  | RUnit => Some (s1, VUnit, r)
  end.

Fixpoint al_run (s : astate) (ops : list op) : option (astate * list (rvalue * result)) :=
  match ops with
  | [] => Some (s, [])
  | o :: ops' => x ← al_step s o; y ← al_run (fst (fst x)) ops';
                 Some (fst y, (snd (fst x), snd x) :: snd y)
  end.
End WithCopy.

(* ---------- reading a returned value back (what the caller sees through the pointers) ---------- *)
Definition rd_pmap (s : astate) (m : pmap) : option (gmap name privs) :=
  if bool_decide (map_Forall (fun _ (oa : option addr) => is_Some (oa ≫= fun a => h_priv (a_tr s) !! a)) m)
  then Some (omap (fun oa : option addr => oa ≫= fun a => h_priv (a_tr s) !! a) m)
  else None.                                           (* a nil or dangling *ChanPrivs in the map *)
Definition rd_nick (s : astate) (a : addr) : option nick_snap :=
  o ← a_rnick s !! a; am ← rn_modes o; md ← a_nmode s !! am;
  ac ← rn_chans o; m ← a_pmap s !! ac; pm ← rd_pmap s m;
  Some {| sn_nick := rn_nick o; sn_ident := rn_ident o; sn_host := rn_host o; sn_name := rn_name o;
          sn_modes := md; sn_chans := sorted_of_map pm |}.
Definition rd_chan (s : astate) (a : addr) : option chan_snap :=
  o ← a_rchan s !! a; am ← rc_modes o; md ← a_cmode s !! am;
  ac ← rc_nicks o; m ← a_pmap s !! ac; pm ← rd_pmap s m;
  Some {| sc_name := rc_name o; sc_topic := rc_topic o; sc_modes := md; sc_nicks := sorted_of_map pm |}.
Definition rd_opt {A} (f : addr -> option A) (a : option addr) : option (option A) :=
  match a with None => Some None | Some a => x ← f a; Some (Some x) end.
Definition rd_value (s : astate) (v : rvalue) : option result :=
  match v with
  | VNick a => RNick <$> rd_opt (rd_nick s) a
  | VChan a => RChan <$> rd_opt (rd_chan s) a
  | VIsOn a ok => (fun p => RIsOn p ok) <$> rd_opt (fun a => h_priv (a_tr s) !! a) a
  | VPrivs a => RPrivs <$> rd_opt (fun a => h_priv (a_tr s) !! a) a
  | VUnit => Some RUnit
  end.

(* ---------- the addresses reachable from a returned value ---------- *)
Definition opt_set (a : option addr) : gset addr := match a with Some a => {[ a ]} | None => ∅ end.
Definition pmap_set (m : pmap) : gset addr :=
  list_to_set (omap (fun kv : name * option addr => snd kv) (map_to_list m)).
Definition map_reach (s : astate) (ac : option addr) : gset addr :=
  opt_set ac ∪ match ac ≫= fun a => a_pmap s !! a with Some m => pmap_set m | None => ∅ end.
Definition reach_nick (s : astate) (a : addr) : gset addr :=
  {[ a ]} ∪ match a_rnick s !! a with
           | Some o => opt_set (rn_modes o) ∪ map_reach s (rn_chans o)
           | None => ∅
           end.
Definition reach_chan (s : astate) (a : addr) : gset addr :=
  {[ a ]} ∪ match a_rchan s !! a with
           | Some o => opt_set (rc_modes o) ∪ map_reach s (rc_nicks o)
           | None => ∅
           end.
Definition reach (s : astate) (v : rvalue) : gset addr :=
  match v with
  | VNick (Some a) => reach_nick s a
  | VChan (Some a) => reach_chan s a
  | VIsOn (Some a) _ | VPrivs (Some a) => {[ a ]}
  | _ => ∅
  end.

(* ---------- the tracker's own object graph ---------- *)
(* every nick/channel object ever allocated, and every ChanPrivs object a nick or channel object
   points to (garbage included: a superset of what is reachable from st.nicks/st.chans/st.me) *)
(* [pown]: the ChanPrivs objects; [oown]: the nick/channel objects themselves *)
Definition pown (t : istate) (a : addr) : Prop :=
  (exists nk o ch, h_nick t !! nk = Some o /\ no_chans o !! ch = Some a)
  \/ (exists ch co nk, h_chan t !! ch = Some co /\ co_nicks co !! nk = Some a).
Definition oown (t : istate) (a : addr) : Prop := is_Some (h_nick t !! a) \/ is_Some (h_chan t !! a).
Definition owns (t : istate) (a : addr) : Prop := oown t a \/ pown t a.

(* ---------- what the CALLER can do with the pointers it was given ---------- *)
(* overwrite the object behind a pointer it holds: all fields of a struct at once, any number of
   insertions/deletions/replacements in a map at once *)
Inductive cwrite :=
| WNick (a : addr) (o : rnickobj) | WChan (a : addr) (o : rchanobj)
| WNMode (a : addr) (m : nickmode) | WCMode (a : addr) (m : chanmode)
| WMap (a : addr) (m : pmap) | WPriv (a : addr) (p : privs).

Definition put_priv_if (t : istate) (a : addr) (p : privs) : istate :=
  set_h_priv t (alter (fun _ => p) a (h_priv t)).
Definition apply_write (s : astate) (w : cwrite) : astate :=
  match w with
  | WNick a o => set_rnick s (alter (fun _ => o) a (a_rnick s))
  | WChan a o => set_rchan s (alter (fun _ => o) a (a_rchan s))
  | WNMode a m => set_nmode s (alter (fun _ => m) a (a_nmode s))
  | WCMode a m => set_cmode s (alter (fun _ => m) a (a_cmode s))
  | WMap a m => set_pmap s (alter (fun _ => m) a (a_pmap s))
  | WPriv a p => with_tr s (put_priv_if (a_tr s) a p)
  end.
Definition apply_writes (s : astate) (ws : list cwrite) : astate := fold_left apply_write ws s.

Definition w_target (w : cwrite) : addr :=
  match w with WNick a _ | WChan a _ | WNMode a _ | WCMode a _ | WMap a _ | WPriv a _ => a end.
Definition w_refs (w : cwrite) : gset addr :=
  match w with
  | WNick _ o => opt_set (rn_modes o) ∪ opt_set (rn_chans o)
  | WChan _ o => opt_set (rc_modes o) ∪ opt_set (rc_nicks o)
  | WMap _ m => pmap_set m
  | _ => ∅
  end.
(* the caller holds the addresses [K] (everything reachable from the values it was given): it
   can write through those pointers only, and store only pointers it holds *)
Definition legal (K : gset addr) (w : cwrite) : Prop := w_target w ∈ K /\ w_refs w ⊆ K.

(* a caller that scribbles over everything reachable from a value: used for running the model *)
Definition flip_nm (m : nickmode) : nickmode :=
  Build_nickmode (negb (nm_B m)) (negb (nm_i m)) (negb (nm_o m)) (negb (nm_w m)) (negb (nm_x m)) (negb (nm_z m)).
Definition flip_cm (m : chanmode) : chanmode :=
  Build_chanmode (negb (cm_p m)) (negb (cm_s m)) (negb (cm_t m)) (negb (cm_n m)) (negb (cm_m m)) (negb (cm_i m))
                 (negb (cm_O m)) (negb (cm_z m)) (negb (cm_r m)) (negb (cm_Z m)) (126%N :: cm_key m) (cm_limit m + 1).
Definition flip_p (p : privs) : privs :=
  Build_privs (negb (cp_q p)) (negb (cp_a p)) (negb (cp_o p)) (negb (cp_h p)) (negb (cp_v p)).
Definition scribble_at (s : astate) (a : addr) : astate :=
  let s1 := set_rnick s (alter (fun o => Build_rnickobj (126%N :: rn_nick o) (126%N :: rn_ident o) (126%N :: rn_host o)
                                                       (126%N :: rn_name o) (rn_modes o) (rn_chans o)) a (a_rnick s)) in
  let s2 := set_rchan s1 (alter (fun o => Build_rchanobj (126%N :: rc_name o) (126%N :: rc_topic o) (rc_modes o) (rc_nicks o))
                                a (a_rchan s1)) in
  let s3 := set_nmode s2 (alter flip_nm a (a_nmode s2)) in
  let s4 := set_cmode s3 (alter flip_cm a (a_cmode s3)) in
  let s5 := set_pmap s4 (alter (fun _ => ∅) a (a_pmap s4)) in
  with_tr s5 (set_h_priv (a_tr s5) (alter flip_p a (h_priv (a_tr s5)))).
Definition scribble (s : astate) (v : rvalue) : astate :=
  fold_left scribble_at (elements (reach s v)) s.
