(* Model/LifecycleLts.v — ONE executable model of connect/close in client/connection.go,
   shared by C06 (lifecycle events exactly once, agree with Connected()) and C07 (disconnect
   completes, leaks nothing, client can reconnect).  No proofs in this file.

   A state holds the shared fields of *Conn and the program counter of every goroutine; a
   schedule is an arbitrary list of (thread, choice) pairs (Lib/Lts.v): the choice number
   resolves a select with several ready cases, decides what a user handler does, and when a
   fault fires.  Line CONTENTS are abstracted away: only counts matter here.

   Generations.  Every initialise() allocates a fresh pair of queues; we number the pairs
   1,2,3,... (nq = how many so far) and a connection established on pair g is "generation g":
   the identity of its bufio pair conn.io is g (cur = g; cur = 0 models conn.io == nil).
   in_ref / out_ref say which pair the FIELDS conn.in / conn.out point at: goroutines
   re-read the field every time round their loop, exactly as the Go code does.

   Abstractions (all listed in checks/C06.json, C07.json as assumptions):
   * mutex / WaitGroup / context / channel semantics are the rules below (RWMutex: a reader
     waits while a writer holds it; readers are atomic);
   * a closed socket fails pending and later reads and writes; bytes already buffered may
     still be delivered (over-approximated: remaining lines MAY still be read after close);
   * hSet.dispatch runs the handlers in goroutines and waits for them: the waiting caller and
     its (single) handler are fused into one thread — the caller does nothing but wait;
   * handlers dispatched by the event loop only call Raw and Connected(); a handler that
     calls Close, Connect, Enable/DisableStateTracking (which take conn.mu) while a teardown
     waits for the loop blocks it — Close-from-handler is outside the claim of C07, the others
     are a documented limitation (notes/design-C07.md);
   * adjacent statements under conn.mu whose intermediate states no lock-free reader can tell
     apart are fused (connected=false; sock.Close(); die()  |  postConnect; connected=true). *)
From Coq Require Import List Arith Bool.
From Verif Require Import Lts.
Import ListNotations.

Definition gen := nat.
Definition qcap : nat := 32.      (* make(chan ..., 32) twice in initialise: tie_C07 *)

Inductive Thr :=
| Recv (g : gen) | Loop (g : gen) | Send (g : gen) | Ping (g : gen)
| Watch (g : gen)                 (* go func(rw){ <-ctx.Done(); closeIf(rw) }(conn.io) *)
| Waiter (g : gen)                (* go func(){ wg.Wait(); close(done) }() of the closer of g *)
| User (i : nat)                  (* a goroutine of the application *)
| Env.                            (* the environment: server closes, context is cancelled *)

Definition thr_eqb (a b : Thr) : bool :=
  match a, b with
  | Recv x, Recv y | Loop x, Loop y | Send x, Send y | Ping x, Ping y
  | Watch x, Watch y | Waiter x, Waiter y | User x, User y => Nat.eqb x y
  | Env, Env => true
  | _, _ => false
  end.

Definition Tid := (Thr * nat)%type.      (* thread, choice *)

(* ---------- events (the monotone history) ---------- *)
Inductive skind := SReg | SLine | SDisc | SUser.   (* where Connected() was sampled *)
Inductive Ev :=
| EConnCall (t : Thr)                    (* Connect/ConnectContext called by t *)
| EEstab (g : gen) (t : Thr)             (* dial succeeded, postConnect, connected = true *)
| EReg (g : gen)                         (* dispatch(REGISTER) of generation g *)
| EConnRet (t : Thr) (r : option gen)    (* returned: Some g = nil error; None = error *)
| ECloseCall (t : Thr)                   (* user Close() called *)
| ETeardown (g : gen) (t : Thr)          (* t passed the test of closeIf with conn.io = g *)
| EDisc (g : gen)                        (* dispatch(DISCONNECTED) for generation g *)
| ECloseRet (t : Thr)                    (* closeIf returned in t *)
| EEnder (g : gen)                       (* environment: EOF / read / write error / cancel on g begun *)
| ESample (k : skind) (g : gen) (b : bool).   (* Connected() = b inside a handler of generation g *)

(* ---------- programs ---------- *)
Inductive ckind := CkOk (ping : bool) | CkDialErr | CkNoServer.
Inductive op := OpClose | OpConnect (k : ckind) | OpRaw (n : nat) | OpSample.
Definition cont := option (list op).     (* what the thread does after the call returns:
                                            None = goroutine ends, Some p = user program p *)

(* closeIf(rw), statement by statement (connection.go:632-668) *)
Inductive cpc :=
| C0                  (* conn.mu.Lock() *)
| C1                  (* if !connected || (rw != nil && rw != conn.io) {Unlock; return}
                         else connected=false; sock.Close(); die()     [g := conn.io] *)
| C2 (g : gen)        (* done := make(chan); go func(){wg.Wait(); close(done)}() *)
| C3 (g : gen)        (* for !drained { select {<-conn.in | <-conn.out | <-done: drained=true} } *)
| C3a (g : gen) | C3b (g : gen) | C3w (g : gen)
                      (* PINNED shape: drainIn(); drainOut(); wg.Wait() *)
| C4 (g : gen)        (* conn.mu.Unlock() *)
| C5 (g : gen)        (* conn.dispatch(DISCONNECTED) *)
| C6 (g : gen)        (* the DISCONNECTED handler samples Connected() *)
| C7 (g : gen)        (* ... and may call Connect (choice) *)
| C8.                 (* return *)

(* ConnectContext/internalConnect/postConnect (connection.go:374-481) *)
Inductive kpc :=
| K0                  (* conn.mu.Lock() *)
| K1                  (* if cfg.Server == "" {return err}; if conn.connected {return err} *)
| K2                  (* conn.initialise() *)
| K3                  (* dial (may fail: return err); postConnect(ctx,true); connected = true *)
| K4 (g : gen)        (* deferred conn.mu.Unlock() *)
| K5 (g : gen)        (* conn.dispatch(REGISTER) *)
| K6 (g : gen)        (* the REGISTER handler samples Connected() *)
| K7 (g : gen).       (* return nil *)

Inductive pc :=
| PIdle | PDone
(* recv: rw := conn.io; for { s, err := rw.ReadString; if err {wg.Done; closeIf(rw); return};
         conn.in <- line } *)
| R0 | R1 (rw : gen) | R3 (rw : gen) | R4 (rw : gen)
(* runLoop: rw := conn.io; for { select { line := <-conn.in: dispatch(line)
            | <-ctx.Done(): wg.Done; closeIf(rw); return } } ;
   LS = the line's handler samples Connected(), LH k = the handler still calls Raw k times *)
| L0 | L1 (rw : gen) | LS (rw : gen) (k : nat) | LH (rw : gen) (k : nat) | L5 (rw : gen)
(* send: rw := conn.io; for { select { line := <-conn.out: if write(line) fails {wg.Done;
         closeIf(rw); return} | <-ctx.Done(): wg.Done; return } } *)
| S0 | S1 (rw : gen) | S2 (rw : gen) | S3 (rw : gen) | S4
(* ping: defer wg.Done; for { select { <-tick.C: conn.Ping(..) [= Raw] | <-ctx.Done(): return } } *)
| P1 | P2
| W1                                     (* watcher: <-ctx.Done() *)
| T1                                     (* waiter: wg.Wait() *)
| U (prog : list op)                     (* user goroutine between calls *)
| URaw (k : nat) (prog : list op)        (* user goroutine inside k more Raw calls *)
| PClose (c : cpc) (id : option gen) (ret : cont)       (* inside closeIf(id) *)
| PConn (k : kpc) (ck : ckind) (inh : bool) (ret : cont).
                                         (* inside Connect; inh: called from the DISCONNECTED
                                            handler run by this thread's closeIf *)

Record St := mkSt {
  connected : bool;
  mu : option Thr;
  cur : gen;
  nq : gen;
  in_ref : gen;
  out_ref : gen;
  inq : gen -> nat;
  outq : gen -> nat;
  cancelled : gen -> bool;
  sock_closed : gen -> bool;
  srv_in : gen -> nat;
  srv_eof : gen -> bool;
  srv_out : gen -> nat;
  ticks : gen -> nat;
  wg : nat;
  pcs : Thr -> pc;
  hist : list Ev }.

Definition set_connected (v : bool) (s : St) : St :=
  {| connected := v; mu := mu s; cur := cur s; nq := nq s; in_ref := in_ref s; out_ref := out_ref s; inq := inq s; outq := outq s; cancelled := cancelled s; sock_closed := sock_closed s; srv_in := srv_in s; srv_eof := srv_eof s; srv_out := srv_out s; ticks := ticks s; wg := wg s; pcs := pcs s; hist := hist s |}.
Definition set_mu (v : option Thr) (s : St) : St :=
  {| connected := connected s; mu := v; cur := cur s; nq := nq s; in_ref := in_ref s; out_ref := out_ref s; inq := inq s; outq := outq s; cancelled := cancelled s; sock_closed := sock_closed s; srv_in := srv_in s; srv_eof := srv_eof s; srv_out := srv_out s; ticks := ticks s; wg := wg s; pcs := pcs s; hist := hist s |}.
Definition set_cur (v : gen) (s : St) : St :=
  {| connected := connected s; mu := mu s; cur := v; nq := nq s; in_ref := in_ref s; out_ref := out_ref s; inq := inq s; outq := outq s; cancelled := cancelled s; sock_closed := sock_closed s; srv_in := srv_in s; srv_eof := srv_eof s; srv_out := srv_out s; ticks := ticks s; wg := wg s; pcs := pcs s; hist := hist s |}.
Definition set_nq (v : gen) (s : St) : St :=
  {| connected := connected s; mu := mu s; cur := cur s; nq := v; in_ref := in_ref s; out_ref := out_ref s; inq := inq s; outq := outq s; cancelled := cancelled s; sock_closed := sock_closed s; srv_in := srv_in s; srv_eof := srv_eof s; srv_out := srv_out s; ticks := ticks s; wg := wg s; pcs := pcs s; hist := hist s |}.
Definition set_in_ref (v : gen) (s : St) : St :=
  {| connected := connected s; mu := mu s; cur := cur s; nq := nq s; in_ref := v; out_ref := out_ref s; inq := inq s; outq := outq s; cancelled := cancelled s; sock_closed := sock_closed s; srv_in := srv_in s; srv_eof := srv_eof s; srv_out := srv_out s; ticks := ticks s; wg := wg s; pcs := pcs s; hist := hist s |}.
Definition set_out_ref (v : gen) (s : St) : St :=
  {| connected := connected s; mu := mu s; cur := cur s; nq := nq s; in_ref := in_ref s; out_ref := v; inq := inq s; outq := outq s; cancelled := cancelled s; sock_closed := sock_closed s; srv_in := srv_in s; srv_eof := srv_eof s; srv_out := srv_out s; ticks := ticks s; wg := wg s; pcs := pcs s; hist := hist s |}.
Definition set_inq (v : gen -> nat) (s : St) : St :=
  {| connected := connected s; mu := mu s; cur := cur s; nq := nq s; in_ref := in_ref s; out_ref := out_ref s; inq := v; outq := outq s; cancelled := cancelled s; sock_closed := sock_closed s; srv_in := srv_in s; srv_eof := srv_eof s; srv_out := srv_out s; ticks := ticks s; wg := wg s; pcs := pcs s; hist := hist s |}.
Definition set_outq (v : gen -> nat) (s : St) : St :=
  {| connected := connected s; mu := mu s; cur := cur s; nq := nq s; in_ref := in_ref s; out_ref := out_ref s; inq := inq s; outq := v; cancelled := cancelled s; sock_closed := sock_closed s; srv_in := srv_in s; srv_eof := srv_eof s; srv_out := srv_out s; ticks := ticks s; wg := wg s; pcs := pcs s; hist := hist s |}.
Definition set_cancelled (v : gen -> bool) (s : St) : St :=
  {| connected := connected s; mu := mu s; cur := cur s; nq := nq s; in_ref := in_ref s; out_ref := out_ref s; inq := inq s; outq := outq s; cancelled := v; sock_closed := sock_closed s; srv_in := srv_in s; srv_eof := srv_eof s; srv_out := srv_out s; ticks := ticks s; wg := wg s; pcs := pcs s; hist := hist s |}.
Definition set_sock_closed (v : gen -> bool) (s : St) : St :=
  {| connected := connected s; mu := mu s; cur := cur s; nq := nq s; in_ref := in_ref s; out_ref := out_ref s; inq := inq s; outq := outq s; cancelled := cancelled s; sock_closed := v; srv_in := srv_in s; srv_eof := srv_eof s; srv_out := srv_out s; ticks := ticks s; wg := wg s; pcs := pcs s; hist := hist s |}.
Definition set_srv_in (v : gen -> nat) (s : St) : St :=
  {| connected := connected s; mu := mu s; cur := cur s; nq := nq s; in_ref := in_ref s; out_ref := out_ref s; inq := inq s; outq := outq s; cancelled := cancelled s; sock_closed := sock_closed s; srv_in := v; srv_eof := srv_eof s; srv_out := srv_out s; ticks := ticks s; wg := wg s; pcs := pcs s; hist := hist s |}.
Definition set_srv_eof (v : gen -> bool) (s : St) : St :=
  {| connected := connected s; mu := mu s; cur := cur s; nq := nq s; in_ref := in_ref s; out_ref := out_ref s; inq := inq s; outq := outq s; cancelled := cancelled s; sock_closed := sock_closed s; srv_in := srv_in s; srv_eof := v; srv_out := srv_out s; ticks := ticks s; wg := wg s; pcs := pcs s; hist := hist s |}.
Definition set_srv_out (v : gen -> nat) (s : St) : St :=
  {| connected := connected s; mu := mu s; cur := cur s; nq := nq s; in_ref := in_ref s; out_ref := out_ref s; inq := inq s; outq := outq s; cancelled := cancelled s; sock_closed := sock_closed s; srv_in := srv_in s; srv_eof := srv_eof s; srv_out := v; ticks := ticks s; wg := wg s; pcs := pcs s; hist := hist s |}.
Definition set_ticks (v : gen -> nat) (s : St) : St :=
  {| connected := connected s; mu := mu s; cur := cur s; nq := nq s; in_ref := in_ref s; out_ref := out_ref s; inq := inq s; outq := outq s; cancelled := cancelled s; sock_closed := sock_closed s; srv_in := srv_in s; srv_eof := srv_eof s; srv_out := srv_out s; ticks := v; wg := wg s; pcs := pcs s; hist := hist s |}.
Definition set_wg (v : nat) (s : St) : St :=
  {| connected := connected s; mu := mu s; cur := cur s; nq := nq s; in_ref := in_ref s; out_ref := out_ref s; inq := inq s; outq := outq s; cancelled := cancelled s; sock_closed := sock_closed s; srv_in := srv_in s; srv_eof := srv_eof s; srv_out := srv_out s; ticks := ticks s; wg := v; pcs := pcs s; hist := hist s |}.
Definition set_pcs (v : Thr -> pc) (s : St) : St :=
  {| connected := connected s; mu := mu s; cur := cur s; nq := nq s; in_ref := in_ref s; out_ref := out_ref s; inq := inq s; outq := outq s; cancelled := cancelled s; sock_closed := sock_closed s; srv_in := srv_in s; srv_eof := srv_eof s; srv_out := srv_out s; ticks := ticks s; wg := wg s; pcs := v; hist := hist s |}.
Definition set_hist (v : list Ev) (s : St) : St :=
  {| connected := connected s; mu := mu s; cur := cur s; nq := nq s; in_ref := in_ref s; out_ref := out_ref s; inq := inq s; outq := outq s; cancelled := cancelled s; sock_closed := sock_closed s; srv_in := srv_in s; srv_eof := srv_eof s; srv_out := srv_out s; ticks := ticks s; wg := wg s; pcs := pcs s; hist := v |}.

Definition updf {A} (f : gen -> A) (g : gen) (v : A) : gen -> A :=
  fun x => if Nat.eqb x g then v else f x.
Definition updt (f : Thr -> pc) (t : Thr) (v : pc) : Thr -> pc :=
  fun x => if thr_eqb x t then v else f x.

Definition setpc (t : Thr) (p : pc) (s : St) : St := set_pcs (updt (pcs s) t p) s.
Definition log (e : Ev) (s : St) : St := set_hist (hist s ++ [e]) s.

(* ---------- the shapes of the code: today's (all false) and the pinned pre-fix ones ---------- *)
Record shape := { init_first : bool;    (* initialise() before the two guards        (D4, fixed ae2d05c) *)
                  drain_once : bool;    (* drainIn; drainOut; wg.Wait under the lock (D6/D7, fixed 6188a16) *)
                  no_ident : bool;      (* goroutines call Close(): no identity test (D8, fixed e804943) *)
                  no_watch : bool;      (* no watcher goroutine                      (D9, fixed 1659575) *)
                  sample_mu : bool }.   (* Connected() takes conn.mu.RLock           (D12, fixed a078b17) *)
Definition fixed_shape : shape :=
  {| init_first := false; drain_once := false; no_ident := false; no_watch := false; sample_mu := false |}.

Record params := { sh : shape;
                   hmax : nat;          (* a line's foreground handler calls Raw at most hmax times *)
                   hlock : bool }.      (* do those handlers call Connected()? *)

(* Connected(): today an atomic read of the flag under its own small lock connectedMu, which is
   never held while waiting — always enabled.  In the pinned shape it took conn.mu.RLock and
   so waited while a closer or a connector held the write lock. *)
Definition can_sample (P : params) (s : St) : bool :=
  if sample_mu (sh P) then match mu s with None => true | Some _ => false end else true.

Definition is_env (t : Thr) : bool := match t with Env => true | _ => false end.
Definition after (ret : cont) : pc := match ret with None => PDone | Some p => U p end.

(* where a thread continues when its Connect call returns *)
Definition fin_pc (inh : bool) (ret : cont) : pc := if inh then PClose C8 None ret else after ret.

Definition ck_of (n : nat) : ckind :=
  match n with 0 => CkOk false | 1 => CkOk true | 2 => CkDialErr | _ => CkNoServer end.

Section Step.
  Variable P : params.

  (* ---- closeIf(id) executed by thread me ---- *)
  Definition close_step (me : Thr) (c : cpc) (id : option gen) (ret : cont) (ch : nat) (s : St) : option St :=
    let goto c' s' := Some (setpc me (PClose c' id ret) s') in
    match c with
    | C0 => match mu s with None => goto C1 (set_mu (Some me) s) | Some _ => None end
    | C1 =>
        let stale := match id with
                     | Some g => if no_ident (sh P) then false else negb (Nat.eqb g (cur s))
                     | None => false end in
        if negb (connected s) || stale then goto C8 (set_mu None s)
        else let g := cur s in
             goto (C2 g) (log (ETeardown g me)
                    (set_connected false
                    (set_sock_closed (updf (sock_closed s) g true)
                    (set_cancelled (updf (cancelled s) g true) s))))
    | C2 g => if drain_once (sh P) then goto (C3a g) s
              else goto (C3 g) (setpc (Waiter g) T1 s)
    | C3 g =>
        match ch with
        | 0 => match inq s (in_ref s) with      (* case <-conn.in *)
               | S n => goto (C3 g) (set_inq (updf (inq s) (in_ref s) n) s) | 0 => None end
        | 1 => match outq s (out_ref s) with    (* case <-conn.out *)
               | S n => goto (C3 g) (set_outq (updf (outq s) (out_ref s) n) s) | 0 => None end
        | _ => match pcs s (Waiter g) with     (* case <-done: the waiter has closed it *)
               | PDone => goto (C4 g) s | _ => None end
        end
    | C3a g => goto (C3b g) (set_inq (updf (inq s) (in_ref s) 0) s)
    | C3b g => goto (C3w g) (set_outq (updf (outq s) (out_ref s) 0) s)
    | C3w g => match wg s with 0 => goto (C4 g) s | _ => None end
    | C4 g => goto (C5 g) (set_mu None s)
    | C5 g => goto (C6 g) (log (EDisc g) s)
    | C6 g => if can_sample P s then goto (C7 g) (log (ESample SDisc g (connected s)) s) else None
    | C7 g => match ch with
              | 0 => goto C8 s
              | S n => Some (setpc me (PConn K0 (ck_of n) true ret) (log (EConnCall me) s))
              end
    | C8 => Some (setpc me (after ret) (log (ECloseRet me) s))
    end.

  (* ---- postConnect(ctx, true); connected = true, for the pair g the fields point at ---- *)
  Definition post_connect (me : Thr) (g : gen) (ping : bool) (s : St) : St :=
    let s1 := setpc (Send g) S0 (setpc (Recv g) R0 (setpc (Loop g) L0 s)) in
    let s2 := if ping then setpc (Ping g) P1 s1 else s1 in
    let s3 := if no_watch (sh P) then s2 else setpc (Watch g) W1 s2 in
    log (EEstab g me)
      (set_connected true (set_cur g (set_wg (wg s + (if ping then 4 else 3)) s3))).

  (* ---- ConnectContext executed by thread me ---- *)
  Definition conn_step (me : Thr) (k : kpc) (ck : ckind) (inh : bool) (ret : cont) (s : St) : option St :=
    let goto k' s' := Some (setpc me (PConn k' ck inh ret) s') in
    let fin s' := Some (setpc me (fin_pc inh ret) s') in
    match k with
    | K0 => match mu s with
            | None => goto (if init_first (sh P) then K2 else K1) (set_mu (Some me) s)
            | Some _ => None end
    | K1 => if (match ck with CkNoServer => true | _ => false end) || connected s
            then fin (log (EConnRet me None) (set_mu None s))
            else goto (if init_first (sh P) then K3 else K2) s
    | K2 => let q := S (nq s) in       (* io = nil; sock = nil; in, out = fresh; die = nil *)
            goto (if init_first (sh P) then K1 else K3)
                 (set_nq q (set_in_ref q (set_out_ref q (set_cur 0 s))))
    | K3 => match ck with
            | CkOk ping => let g := in_ref s in goto (K4 g) (post_connect me g ping s)
            | _ => fin (log (EConnRet me None) (set_mu None s))
            end
    | K4 g => goto (K5 g) (set_mu None s)
    | K5 g => goto (K6 g) (log (EReg g) s)
    | K6 g => if can_sample P s then goto (K7 g) (log (ESample SReg g (connected s)) s) else None
    | K7 g => fin (log (EConnRet me (Some g)) s)
    end.

  (* blocking send on the queue the FIELD conn.out points at now (Raw, commands.go) *)
  Definition push_out (s : St) : option St :=
    let q := out_ref s in
    if Nat.ltb (outq s q) qcap then Some (set_outq (updf (outq s) q (S (outq s q))) s) else None.

  Definition wg_done (s : St) : St := set_wg (pred (wg s)) s.

  Definition lstep (s : St) (tid : Tid) : option St :=
    let '(t, ch) := tid in
    match pcs s t with
    (* ---- inside closeIf / Connect, whoever runs it ---- *)
    | PClose c id ret => if is_env t then None else close_step t c id ret ch s
    | PConn k ck inh ret => if is_env t then None else conn_step t k ck inh ret s
    | p =>
    match t, p with
    (* ---- recv of generation g ---- *)
    | Recv g, R0 => Some (setpc t (R1 (cur s)) s)
    | Recv g, R1 rw =>
        match ch with
        | 0 => match srv_in s rw with       (* a line arrives (possibly from bufio's buffer) *)
               | S n => Some (setpc t (R3 rw) (set_srv_in (updf (srv_in s) rw n) s))
               | 0 => None end
        | _ => if sock_closed s rw || srv_eof s rw      (* ReadString fails *)
               then Some (setpc t (R4 rw) s) else None
        end
    | Recv g, R3 rw =>                       (* conn.in <- line *)
        let q := in_ref s in
        if Nat.ltb (inq s q) qcap
        then Some (setpc t (R1 rw) (set_inq (updf (inq s) q (S (inq s q))) s)) else None
    | Recv g, R4 rw => Some (setpc t (PClose C0 (Some rw) None) (wg_done s))
    (* ---- runLoop of generation g ---- *)
    | Loop g, L0 => Some (setpc t (L1 (cur s)) s)
    | Loop g, L1 rw =>
        match ch with
        | 0 => if cancelled s g then Some (setpc t (L5 rw) s) else None
        | S n => let q := in_ref s in
                 match inq s q with
                 | S m => let k := Nat.min n (hmax P) in
                          Some (setpc t (if hlock P then LS rw k else LH rw k)
                                  (set_inq (updf (inq s) q m) s))
                 | 0 => None end
        end
    | Loop g, LS rw k =>
        if can_sample P s then Some (setpc t (LH rw k) (log (ESample SLine g (connected s)) s)) else None
    | Loop g, LH rw (S k) =>
        match push_out s with Some s' => Some (setpc t (LH rw k) s') | None => None end
    | Loop g, LH rw 0 => Some (setpc t (L1 rw) s)
    | Loop g, L5 rw => Some (setpc t (PClose C0 (Some rw) None) (wg_done s))
    (* ---- send of generation g ---- *)
    | Send g, S0 => Some (setpc t (S1 (cur s)) s)
    | Send g, S1 rw =>
        match ch with
        | 0 => if cancelled s g then Some (setpc t S4 s) else None
        | _ => let q := out_ref s in
               match outq s q with
               | S m => Some (setpc t (S2 rw) (set_outq (updf (outq s) q m) s))
               | 0 => None end
        end
    | Send g, S2 rw =>                       (* conn.io.WriteString + Flush: the FIELD conn.io *)
        let w := cur s in
        if sock_closed s w || srv_eof s w then Some (setpc t (S3 rw) s)
        else match srv_out s w with
             | S n => Some (setpc t (S1 rw) (set_srv_out (updf (srv_out s) w n) s))
             | 0 => None end                 (* the server is not reading: blocked *)
    | Send g, S3 rw => Some (setpc t (PClose C0 (Some rw) None) (wg_done s))
    | Send g, S4 => Some (setpc t PDone (wg_done s))
    (* ---- ping of generation g ---- *)
    | Ping g, P1 =>
        match ch with
        | 0 => if cancelled s g then Some (setpc t PDone (wg_done s)) else None
        | _ => match ticks s g with
               | S n => Some (setpc t P2 (set_ticks (updf (ticks s) g n) s))
               | 0 => None end
        end
    | Ping g, P2 => match push_out s with Some s' => Some (setpc t P1 s') | None => None end
    (* ---- watcher and waiter ---- *)
    | Watch g, W1 => if cancelled s g then Some (setpc t (PClose C0 (Some g) None) s) else None
    | Waiter g, T1 => match wg s with
                      | 0 => Some (setpc t PDone s)       (* close(done) = the waiter is at PDone *)
                      | _ => None end
    (* ---- user goroutines ---- *)
    | User i, U (OpClose :: p) => Some (setpc t (PClose C0 None (Some p)) (log (ECloseCall t) s))
    | User i, U (OpConnect k :: p) => Some (setpc t (PConn K0 k false (Some p)) (log (EConnCall t) s))
    | User i, U (OpRaw n :: p) => Some (setpc t (URaw n p) s)
    | User i, U (OpSample :: p) =>
        if can_sample P s then Some (setpc t (U p) (log (ESample SUser 0 (connected s)) s)) else None
    | User i, URaw (S k) p =>
        match push_out s with Some s' => Some (setpc t (URaw k p) s') | None => None end
    | User i, URaw 0 p => Some (setpc t (U p) s)
    (* ---- environment: the server closes generation g's socket (choice 2g) or the connect
            context of generation g is cancelled (choice 2g+1) ---- *)
    | Env, PIdle =>
        let g := Nat.div2 ch in
        if (Nat.leb 1 g && Nat.leb g (nq s))%bool then
          if Nat.even ch
          then Some (log (EEnder g) (set_srv_eof (updf (srv_eof s) g true) s))
          else Some (log (EEnder g) (set_cancelled (updf (cancelled s) g true) s))
        else None
    | _, _ => None
    end
    end.
End Step.

(* ---------- initial states ---------- *)
Record world := { w_progs : list (list op);     (* the application's goroutines *)
                  w_srv_in : gen -> nat;        (* lines the server will send on connection g *)
                  w_srv_out : gen -> nat;       (* lines the server will read on connection g *)
                  w_ticks : gen -> nat }.       (* ping ticks that will fire on connection g *)

Definition init (w : world) : St :=
  {| connected := false; mu := None; cur := 0; nq := 0; in_ref := 0; out_ref := 0;
     inq := fun _ => 0; outq := fun _ => 0; cancelled := fun _ => false;
     sock_closed := fun _ => false; srv_in := w_srv_in w; srv_eof := fun _ => false;
     srv_out := w_srv_out w; ticks := w_ticks w; wg := 0;
     pcs := fun t => match t with
                     | User i => match nth_error (w_progs w) i with Some p => U p | None => PIdle end
                     | _ => PIdle end;
     hist := [] |}.

Definition fixedP (hmax : nat) : params := {| sh := fixed_shape; hmax := hmax; hlock := false |}.

(* ================================================================================== *)
(* The properties as boolean predicates over histories: the runtime oracles of the
   correspondence checks AND the predicates the theorems of Props/C06.v, C07.v use.    *)
(* ================================================================================== *)
Definition memg (g : gen) (l : list gen) : bool := existsb (Nat.eqb g) l.

Definition ests (h : list Ev) : list gen := flat_map (fun e => match e with EEstab g _ => [g] | _ => [] end) h.
Definition regs (h : list Ev) : list gen := flat_map (fun e => match e with EReg g => [g] | _ => [] end) h.
Definition discs (h : list Ev) : list gen := flat_map (fun e => match e with EDisc g => [g] | _ => [] end) h.
Definition tds (h : list Ev) : list gen := flat_map (fun e => match e with ETeardown g _ => [g] | _ => [] end) h.
Definition enders (h : list Ev) : list gen := flat_map (fun e => match e with EEnder g => [g] | _ => [] end) h.
Definition retoks (h : list Ev) : list gen := flat_map (fun e => match e with EConnRet _ (Some g) => [g] | _ => [] end) h.

(* the last Connect-related event of thread t *)
Definition conn_ev_of (t : Thr) (e : Ev) : bool :=
  match e with EConnCall t' | EEstab _ t' | EConnRet t' _ => thr_eqb t t' | _ => false end.
Definition last_conn (t : Thr) (h : list Ev) : option Ev :=
  fold_left (fun acc e => if conn_ev_of t e then Some e else acc) h None.
Definition is_call (o : option Ev) : bool := match o with Some (EConnCall _) => true | _ => false end.
Definition is_estab (g : gen) (o : option Ev) : bool :=
  match o with Some (EEstab g' _) => Nat.eqb g g' | _ => false end.

(* closeIf calls of thread t that have not returned *)
Definition open_closes (t : Thr) (h : list Ev) : nat :=
  fold_left (fun n e => match e with
                        | ECloseCall t' => if thr_eqb t t' then S n else n
                        | ECloseRet t' => if thr_eqb t t' then pred n else n
                        | _ => n end) h 0.

(* C06: is event e legal after history h? *)
Definition ok6 (h : list Ev) (e : Ev) : bool :=
  match e with
  | EEstab g t => negb (memg g (ests h)) && is_call (last_conn t h)
       (* a connection is established only by a Connect call that is still running *)
  | EReg g => memg g (ests h) && negb (memg g (regs h))
       (* REGISTER at most once per connection, only for an established one *)
  | EConnRet t None => is_call (last_conn t h)
       (* a failed / refused Connect established nothing ... *)
  | EConnRet t (Some g) => is_estab g (last_conn t h) && memg g (regs h) && negb (memg g (retoks h))
       (* a successful one established g and REGISTER(g) was dispatched before it returned *)
  | EDisc g => memg g (ests h) && negb (memg g (discs h))
       (* DISCONNECTED at most once per connection, only for an established one *)
  | ESample SDisc g b => negb b || existsb (fun g' => Nat.ltb g g') (ests h)
       (* false inside DISCONNECTED handlers (unless somebody has connected again) *)
  | ESample SReg g b | ESample SLine g b => b || memg g (tds h) || memg g (enders h)
       (* true inside REGISTER / CONNECTED handlers while no disconnect has begun *)
  | _ => true
  end.

(* C07: no stale close — a connection is torn down only by Close() of the application or by
   a goroutine of ITS OWN generation, and DISCONNECTED(g) needs an ender of g *)
Definition own_gen (t : Thr) (g : gen) : bool :=
  match t with
  | User _ => true
  | Recv g' | Loop g' | Send g' | Watch g' => Nat.eqb g' g
  | _ => false
  end.
Definition ok7 (h : list Ev) (e : Ev) : bool :=
  match e with
  | ETeardown g t => memg g (ests h) && negb (memg g (tds h)) && own_gen t g
  | EDisc g => memg g (tds h) || memg g (enders h)
  | _ => true
  end.

Fixpoint check_from (ok : list Ev -> Ev -> bool) (pre rest : list Ev) : bool :=
  match rest with
  | [] => true
  | e :: r => ok pre e && check_from ok (pre ++ [e]) r
  end.

(* prefix-closed parts *)
Definition C06_safe (h : list Ev) : bool := check_from ok6 [] h.
Definition C07_safe (h : list Ev) : bool := check_from ok7 [] h.

(* at the end of a COMPLETE run (every connection that was established has been ended and
   the harness has waited for the dust to settle): exactly one DISCONNECTED each, every
   successful Connect has returned, every Close that began has returned *)
Definition users_of (h : list Ev) : list Thr :=
  flat_map (fun e => match e with ECloseCall t | EConnCall t => [t] | _ => [] end) h.
Definition C06_final (h : list Ev) : bool :=
  forallb (fun g => memg g (discs h) && memg g (regs h)) (ests h).
Definition C07_final (h : list Ev) : bool :=
  forallb (fun t => Nat.eqb (open_closes t h) 0) (users_of h)
  && forallb (fun g => memg g (discs h)) (ests h).

Definition C06_ok (complete : bool) (h : list Ev) : bool :=
  C06_safe h && (negb complete || C06_final h).
(* [leaked]: goroutines of the library still alive after the settle time; [hung]: some
   Close/Connect/DISCONNECTED did not finish within the budget; [fresh]: every reconnect
   answered its sync marker, registered first, tracker = just the client *)
Definition C07_ok (complete : bool) (h : list Ev) (leaked : nat) (hung fresh : bool) : bool :=
  C07_safe h && (negb complete || C07_final h) && Nat.eqb leaked 0 && negb hung && fresh.

(* ---------- state predicates (model side of "no leak", "completed") ---------- *)
(* pcs at which a goroutine of a finished generation may still be found: it has left the
   wait group, and every step left to it is its own closeIf that can only return *)
Definition winding_down (g : gen) (p : pc) : bool :=
  match p with
  | PDone | PIdle => true
  | W1 => true
  | PClose C0 (Some g') None | PClose C1 (Some g') None => Nat.eqb g g'
  | PClose C8 _ None => true
  | _ => false
  end.
(* the (single) thread that runs the teardown of g keeps running the DISCONNECTED handler *)
Definition closer_tail (p : pc) : bool :=
  match p with
  | PClose (C5 _) _ _ | PClose (C6 _) _ _ | PClose (C7 _) _ _ | PClose C8 _ _ => true
  | PConn _ _ true _ => true
  | _ => false
  end.
Definition gen_threads (g : gen) : list Thr := [Recv g; Loop g; Send g; Ping g; Watch g; Waiter g].
Definition no_leak (g : gen) (s : St) : bool :=
  forallb (fun t => winding_down g (pcs s t) || closer_tail (pcs s t)) (gen_threads g).

(* a closer is between the teardown and the unlock: which generation it is tearing down *)
Definition td_pc (p : pc) : option gen :=
  match p with
  | PClose (C2 g) _ _ | PClose (C3 g) _ _ | PClose (C3a g) _ _ | PClose (C3b g) _ _
  | PClose (C3w g) _ _ | PClose (C4 g) _ _ => Some g
  | _ => None
  end.
Definition in_teardown (s : St) : option gen :=
  match mu s with Some t => td_pc (pcs s t) | None => None end.
