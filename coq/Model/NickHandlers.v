(* Model/NickHandlers.v — C17: how the client follows its own nick.
   Transliteration of client/handlers.go h_001, h_433, h_NICK, client/state_handlers.go
   h_STNICK, client/connection.go Me / EnableStateTracking / Client (the Config.Me repair),
   the part of state.Tracker these use (NewTracker, Me, NickInfo, ReNick, NewNick, DelNick;
   validated against Model/TrackerSpec.v in Proofs/NickTrackerRefine.v), and a SCRIPTED
   SERVER as ground truth.  Executable definitions only (no proofs).

   Conventions: [cfg_me : option nickrec] is Go's [conn.cfg.Me *state.Nick] (None = nil);
   a handler returns the state AS MODIFIED SO FAR, the lines it handed to conn.Raw, and
   whether it panicked (hNode.Handle runs it under [defer conn.cfg.Recover], default
   LogPanic: the panic is contained, the rest of the handler is not executed). *)
From Verif Require Export GoBytes LineLib Line LineSend Split Commands NewNick.
Open Scope Z_scope.

(* ---------- state.Nick as a value ---------- *)
Record nickrec := { nk_nick : bytes; nk_ident : bytes; nk_host : bytes; nk_name : bytes }.
Definition set_nick (r : nickrec) (n : bytes) : nickrec :=
  {| nk_nick := n; nk_ident := nk_ident r; nk_host := nk_host r; nk_name := nk_name r |}.
Definition set_info (r : nickrec) (ident host name : bytes) : nickrec :=
  {| nk_nick := nk_nick r; nk_ident := ident; nk_host := host; nk_name := name |}.
Definition bare_nick (n : bytes) : nickrec := {| nk_nick := n; nk_ident := []; nk_host := []; nk_name := [] |}.

(* ---------- the tracker as the nick handlers see it ----------
   [tr_me] is st.me (a pointer that is set once and never nil), [tr_others] the other entries
   of st.nicks.  Channels, modes and memberships are not visible to these handlers. *)
Record tracker := { tr_me : nickrec; tr_others : list nickrec }.

Definition has_nick (n : bytes) (r : nickrec) : bool := beq (nk_nick r) n.
Definition tk_tracked (t : tracker) (n : bytes) : bool :=
  beq (nk_nick (tr_me t)) n || existsb (has_nick n) (tr_others t).

(* state.NewTracker(mynick) *)
Definition tk_new (n : bytes) : tracker := {| tr_me := bare_nick n; tr_others := [] |}.
(* st.Me(): st.me.Nick() — never nil *)
Definition tk_Me (t : tracker) : option nickrec := Some (tr_me t).

(* st.NickInfo(n, ident, host, name): nil when n is not tracked *)
Definition tk_NickInfo (t : tracker) (n ident host name : bytes) : tracker * option nickrec :=
  if beq (nk_nick (tr_me t)) n then
    let m := set_info (tr_me t) ident host name in
    ({| tr_me := m; tr_others := tr_others t |}, Some m)
  else
    match find (has_nick n) (tr_others t) with
    | Some r =>
        let r' := set_info r ident host name in
        ({| tr_me := tr_me t;
            tr_others := map (fun x => if has_nick n x then set_info x ident host name else x) (tr_others t) |},
         Some r')
    | None => (t, None)
    end.

(* st.ReNick(old, neu): nil when old is not tracked or neu is tracked (old itself included) *)
Definition tk_ReNick (t : tracker) (old neu : bytes) : tracker * option nickrec :=
  if negb (tk_tracked t old) then (t, None)
  else if tk_tracked t neu then (t, None)
  else if beq (nk_nick (tr_me t)) old then
    let m := set_nick (tr_me t) neu in
    ({| tr_me := m; tr_others := tr_others t |}, Some m)
  else
    match find (has_nick old) (tr_others t) with
    | Some r =>
        ({| tr_me := tr_me t;
            tr_others := map (fun x => if has_nick old x then set_nick x neu else x) (tr_others t) |},
         Some (set_nick r neu))
    | None => (t, None)
    end.

(* st.NewNick(n): nil for "" and for a tracked nick *)
Definition tk_NewNick (t : tracker) (n : bytes) : tracker * option nickrec :=
  if beq n [] then (t, None)
  else if tk_tracked t n then (t, None)
  else ({| tr_me := tr_me t; tr_others := tr_others t ++ [bare_nick n] |}, Some (bare_nick n)).

(* st.DelNick(n): nil for the client's own nick and for an untracked one *)
Definition tk_DelNick (t : tracker) (n : bytes) : tracker * option nickrec :=
  if beq (nk_nick (tr_me t)) n then (t, None)
  else
    match find (has_nick n) (tr_others t) with
    | Some r => ({| tr_me := tr_me t; tr_others := filter (fun x => negb (has_nick n x)) (tr_others t) |}, Some r)
    | None => (t, None)
    end.

(* ---------- the client's nick state ---------- *)
Record cstate := { cfg_me : option nickrec; c_st : option tracker }.

Definition s_idiot : bytes := [95;95;105;100;105;111;116;95;95]%N.                        (* "__idiot__" *)
Definition s_goirc : bytes := [103;111;105;114;99]%N.                                     (* "goirc" *)
Definition s_powered : bytes := [80;111;119;101;114;101;100;32;98;121;32;71;111;73;82;67]%N. (* "Powered by GoIRC" *)

(* NewConfig(nick, ident, name) followed by Client(cfg):
   [if len(args) > 0 && args[0] != "" { Ident = args[0] }] etc., then in Client
   [if cfg.Me == nil || cfg.Me.Nick == "" || cfg.Me.Ident == "" { cfg.Me = __idiot__ }] *)
Definition client_init (nick ident name : bytes) : cstate :=
  let ident' := if beq ident [] then s_goirc else ident in
  let name' := if beq name [] then s_powered else name in
  let me := {| nk_nick := nick; nk_ident := ident'; nk_host := []; nk_name := name' |} in
  let me' := if beq nick [] || beq ident' []
             then {| nk_nick := s_idiot; nk_ident := s_goirc; nk_host := []; nk_name := s_powered |}
             else me in
  {| cfg_me := Some me'; c_st := None |}.

Record hout := { ho_st : cstate; ho_out : list bytes; ho_panic : bool }.
Definition done (s : cstate) (out : list bytes) : hout := {| ho_st := s; ho_out := out; ho_panic := false |}.
Definition panic (s : cstate) (out : list bytes) : hout := {| ho_st := s; ho_out := out; ho_panic := true |}.

(* func (conn *Conn) EnableStateTracking(): [n := conn.cfg.Me; st = NewTracker(n.Nick);
   st.NickInfo(n.Nick, n.Ident, n.Host, n.Name); conn.cfg.Me = st.Me()] *)
Definition enable_tracking (s : cstate) : hout :=
  match c_st s with
  | Some _ => done s []
  | None =>
      match cfg_me s with
      | None => panic s []                                          (* n.Nick on a nil *Nick *)
      | Some n =>
          let t := fst (tk_NickInfo (tk_new (nk_nick n)) (nk_nick n) (nk_ident n) (nk_host n) (nk_name n)) in
          done {| cfg_me := tk_Me t; c_st := Some t |} []
      end
  end.

(* func (conn *Conn) Me() *state.Nick — NOTE: assigns conn.cfg.Me when tracking *)
Definition do_Me (s : cstate) : cstate * option nickrec :=
  match c_st s with
  | Some t => let m := tk_Me t in ({| cfg_me := m; c_st := Some t |}, m)
  | None => (s, cfg_me s)
  end.

(* func (line *Line) argslen(minlen int) bool: false when len(line.Args) <= minlen *)
Definition argslen (l : line) (minlen : Z) : bool := negb (llen (l_args l) <=? minlen).

(* conn.Nick(n): the lines handed to the output queue (Model/Commands.v, cutNewLines applied) *)
Definition nick_lines (n : bytes) : list bytes :=
  match emit to_upper MNick {| cc_split_len := 0; cc_quit_message := [] |} [n] with
  | Ok ls => ls
  | Panic => []
  end.

Section Handlers.
  (* conn.cfg.NewNick: any function (default DefaultNewNick = Model/NewNick.default_new_nick) *)
  Variable new_nick : bytes -> bytes.

  (* [if n := conn.st.ReNick(old, neu); n != nil { conn.cfg.Me = n }] *)
  Definition renick_keep (s : cstate) (t : tracker) (old neu : bytes) : cstate :=
    let '(t', n) := tk_ReNick t old neu in
    {| cfg_me := match n with Some r => Some r | None => cfg_me s end; c_st := Some t' |}.
  (* the pre-repair form [conn.cfg.Me = conn.st.ReNick(old, neu)] *)
  Definition renick_assign (s : cstate) (t : tracker) (old neu : bytes) : cstate :=
    let '(t', n) := tk_ReNick t old neu in {| cfg_me := n; c_st := Some t' |}.

  (* the argument evaluation of h_001 after conn.Me():
       nick, t := line.Target(), line.Text()
       if idx := strings.LastIndex(t, " "); idx != -1 { t = t[idx+1:] }
       _, ident, host, ok := parseUserHost(t) *)
  Definition welcome_pre (l : line) : res (bytes * option (bytes * bytes * bytes)) :=
    nick <- target l ;;
    t <- text l ;;
    let idx := last_index t s_space in
    t' <- (if negb (idx =? -1) then slice_from t (idx + 1) else Ok t) ;;
    uh <- parse_user_host t' ;;
    Ok (nick, uh).

  (* func (conn *Conn) h_001(line *Line); [renick] = how the ReNick result is stored *)
  Definition h_001_with (renick : cstate -> tracker -> bytes -> bytes -> cstate) (s : cstate) (l : line) : hout :=
    (* me, nick, t := conn.Me(), line.Target(), line.Text() *)
    let '(s1, me) := do_Me s in
    let pre := welcome_pre l in
    match pre with
    | Panic => panic s1 []
    | Ok (nick, uh) =>
        match me with
        | None => panic s1 []                                       (* me.Nick on a nil *Nick *)
        | Some m =>
            match c_st s1 with
            | Some t =>
                (* if ok { conn.st.NickInfo(me.Nick, ident, host, me.Name) } *)
                let t1 := match uh with
                          | Some (_, ident, host) => fst (tk_NickInfo t (nk_nick m) ident host (nk_name m))
                          | None => t
                          end in
                done (renick s1 t1 (nk_nick m) nick) []
            | None =>
                match cfg_me s1 with
                | None => panic s1 []                               (* conn.cfg.Me.Nick = nick on nil *)
                | Some c =>
                    let c1 := set_nick c nick in
                    let c2 := match uh with
                              | Some (_, ident, host) => set_info c1 ident host (nk_name c1)
                              | None => c1
                              end in
                    done {| cfg_me := Some c2; c_st := None |} []
                end
            end
        end
    end.
  Definition h_001 := h_001_with renick_keep.
  Definition h_001_old := h_001_with renick_assign.

  (* func (conn *Conn) h_433(line *Line) *)
  Definition h_433_with (renick : cstate -> tracker -> bytes -> bytes -> cstate) (s : cstate) (l : line) : hout :=
    (* me := conn.Me() *)
    let '(s1, me) := do_Me s in
    (* neu := conn.cfg.NewNick(line.Args[1]) — BEFORE the argslen test *)
    match elem_at (l_args l) 1 with
    | Panic => panic s1 []
    | Ok refused =>
        let neu := new_nick refused in
        let out := nick_lines neu in                                (* conn.Nick(neu) *)
        if negb (argslen l 1) then done s1 out                      (* if !line.argslen(1) { return } *)
        else
          match elem_at (l_args l) 1, me with
          | Panic, _ => panic s1 out
          | Ok _, None => panic s1 out                              (* me.Nick on a nil *Nick *)
          | Ok a1, Some m =>
              if beq a1 (nk_nick m) then
                match c_st s1 with
                | Some t => done (renick s1 t (nk_nick m) neu) out
                | None =>
                    match cfg_me s1 with
                    | None => panic s1 out
                    | Some c => done {| cfg_me := Some (set_nick c neu); c_st := None |} out
                    end
                end
              else done s1 out
          end
    end.
  Definition h_433 := h_433_with renick_keep.
  Definition h_433_old := h_433_with renick_assign.

  (* func (conn *Conn) h_NICK(line *Line):
     [if conn.st == nil && line.Nick == conn.cfg.Me.Nick { conn.cfg.Me.Nick = line.Args[0] }] *)
  Definition h_NICK (s : cstate) (l : line) : hout :=
    match c_st s with
    | Some _ => done s []
    | None =>
        match cfg_me s with
        | None => panic s []
        | Some c =>
            if beq (l_nick l) (nk_nick c) then
              match elem_at (l_args l) 0 with
              | Panic => panic s []
              | Ok a0 => done {| cfg_me := Some (set_nick c a0); c_st := None |} []
              end
            else done s []
        end
    end.

  (* func (conn *Conn) h_STNICK(line *Line): [conn.st.ReNick(line.Nick, line.Args[0])];
     registered only while tracking is enabled *)
  Definition h_STNICK (s : cstate) (l : line) : hout :=
    match elem_at (l_args l) 0 with
    | Panic => panic s []
    | Ok a0 =>
        match c_st s with
        | None => panic s []                                        (* method call on a nil interface *)
        | Some t => done {| cfg_me := cfg_me s; c_st := Some (fst (tk_ReNick t (l_nick l) a0)) |} []
        end
    end.

  Definition c_001 : bytes := [48;48;49]%N.
  Definition c_433 : bytes := [52;51;51]%N.
  Definition c_NICK : bytes := [78;73;67;75]%N.
  Definition nick_cmd (c : bytes) : bool := beq c c_001 || beq c c_433 || beq c c_NICK.

  (* one after the other (hSet.dispatch starts them in parallel and waits for all) *)
  Definition seq_h (h1 h2 : cstate -> line -> hout) (s : cstate) (l : line) : hout :=
    let r1 := h1 s l in
    let r2 := h2 (ho_st r1) l in
    {| ho_st := ho_st r2; ho_out := ho_out r1 ++ ho_out r2; ho_panic := ho_panic r1 || ho_panic r2 |}.

  (* the internal handlers that touch the nick, per event name.  For NICK both h_NICK
     (intHandlers) and, while tracking, h_STNICK (stHandlers) run; they touch disjoint state
     (NickProofs.nick_handlers_commute), so the order chosen here is immaterial *)
  Definition handle_with (h1 h4 : cstate -> line -> hout) (s : cstate) (l : line) : hout :=
    if beq (l_cmd l) c_001 then h1 s l
    else if beq (l_cmd l) c_433 then h4 s l
    else if beq (l_cmd l) c_NICK then
      match c_st s with
      | Some _ => seq_h h_NICK h_STNICK s l
      | None => h_NICK s l
      end
    else done s [].
  Definition handle := handle_with h_001 h_433.
  Definition handle_old := handle_with h_001_old h_433_old.

  (* ---------- what can happen to the client ---------- *)
  Inductive cinput :=
  | InLine (raw : bytes)        (* recv: a CRLF-terminated line from the server *)
  | InMe                        (* user code calls conn.Me() *)
  | InNick (n : bytes)          (* user code calls conn.Nick(n) *)
  | InTrack (n : bytes)         (* something makes the tracker learn n: st.NewNick(n) *)
  | InForget (n : bytes).       (* ... or forget it: st.DelNick(n) *)

  Definition client_step_with (hdl : cstate -> line -> hout) (s : cstate) (i : cinput) : hout :=
    match i with
    | InLine raw =>
        match recv_one raw with
        | Ok (Some l) => hdl s l
        | _ => done s []                                            (* nil line: dropped *)
        end
    | InMe => done (fst (do_Me s)) []
    | InNick n => done s (nick_lines n)
    | InTrack n =>
        match c_st s with
        | Some t => done {| cfg_me := cfg_me s; c_st := Some (fst (tk_NewNick t n)) |} []
        | None => done s []
        end
    | InForget n =>
        match c_st s with
        | Some t => done {| cfg_me := cfg_me s; c_st := Some (fst (tk_DelNick t n)) |} []
        | None => done s []
        end
    end.
  Definition client_step := client_step_with handle.

  Fixpoint client_run_with hdl (s : cstate) (is : list cinput) : cstate :=
    match is with
    | [] => s
    | i :: is' => client_run_with hdl (ho_st (client_step_with hdl s i)) is'
    end.
  Definition client_run := client_run_with handle.

  (* the nick Me() would report now (without calling it) *)
  Definition me_nick_of (s : cstate) : option bytes := option_map nk_nick (snd (do_Me s)).
  Definition cfg_nick_of (s : cstate) : option bytes := option_map nk_nick (cfg_me s).

  (* ================= the scripted server ================= *)
  Definition srv_name : bytes := [105;114;99;46;101;120;97;109;112;108;101]%N.          (* "irc.example" *)
  Definition s_star : bytes := [42]%N.
  Definition s_inuse : bytes :=
    [78;105;99;107;110;97;109;101;32;105;115;32;97;108;114;101;97;100;121;32;105;110;32;117;115;101]%N.
  Definition s_erroneous : bytes := [69;114;114;111;110;101;111;117;115;32;78;105;99;107;110;97;109;101]%N.
  Definition s_welcome : bytes := [87;101;108;99;111;109;101;32;116;111;32;116;104;101;32;110;101;116;32]%N.
  Definition s_user : bytes := [117]%N.                                                  (* "u" *)
  Definition s_host : bytes := [104;111;115;116;46;101;120;97;109;112;108;101]%N.        (* "host.example" *)
  Definition c_432 : bytes := [52;51;50]%N.

  Definition smsg (verb : bytes) (mids : list bytes) (tr : option bytes) : msg :=
    {| mtags := None; msrc := Some (SrcServer srv_name); verb := verb;
       middles := map (fun p => (0%nat, p)) mids; trailing := tr |}.
  (* :irc.example 433 <cur|*> <refused> :Nickname is already in use *)
  Definition coll_msg (cur refused : bytes) : msg := smsg c_433 [cur; refused] (Some s_inuse).
  (* :irc.example 432 <cur|*> <bad> :Erroneous Nickname *)
  Definition ignore_msg (cur bad : bytes) : msg := smsg c_432 [cur; bad] (Some s_erroneous).
  (* the user@host a server shows for a client: what it welcomed it with, or a cloak / vhost *)
  Definition uhost := (bytes * bytes)%type.
  Definition uh_ok (uh : uhost) : bool := name_ok (fst uh) && name_ok (snd uh).
  Definition uh_std : uhost := (s_user, s_host).
  (* :irc.example 001 <n> :Welcome to the net <n>[!<user>@<host>] *)
  Definition welcome_msg_with (n : bytes) (tail : option uhost) : msg :=
    smsg c_001 [n] (Some (s_welcome ++ n ++ match tail with
                                            | Some (u, h) => [b_bang] ++ u ++ [b_at] ++ h
                                            | None => []
                                            end)).
  Definition welcome_msg (n : bytes) : msg := welcome_msg_with n (Some uh_std).
  (* :<old>!<user>@<host> NICK <new> *)
  Definition nick_msg_from (old : bytes) (uh : uhost) (neu : bytes) : msg :=
    {| mtags := None; msrc := Some (SrcUser old (fst uh) (snd uh)); verb := c_NICK;
       middles := [(0%nat, neu)]; trailing := None |}.
  Definition nick_msg (old neu : bytes) : msg := nick_msg_from old uh_std neu.

  (* a nick the server can put in a line: a word without '!' '@' that does not start with ':' *)
  Definition nick_ok (n : bytes) : bool := name_ok n && middle_ok n.

  Record server := {
    sv_reg : bool;                (* the welcome has been sent *)
    sv_nick : bytes;              (* the nick the server uses for the client (meaningful once sv_reg) *)
    sv_pending : list bytes;      (* NICK requests of the client not yet answered, oldest first *)
    sv_others : list bytes        (* nicks in use by other users *)
  }.
  Definition in_use (srv : server) (n : bytes) : bool := existsb (beq n) (sv_others srv).
  Definition cur_or_star (srv : server) : bytes := if sv_reg srv then sv_nick srv else s_star.

  Inductive event :=
  | EColl                         (* 433 for the oldest pending request (registration: collision; later: refusal) *)
  | EWelcome (n : option bytes) (tail : option uhost)
                                  (* 001 with the nick last requested (None) or a server-assigned one; the
                                     text ends in nick!user@host (Some) or in the bare nick (None) *)
  | EReq (y : bytes)              (* the client's user code calls conn.Nick(y) *)
  | EConfirm (uh : uhost)         (* the oldest pending request is granted: ":cur!user@host NICK x"; the
                                     user@host shown is the server's business (welcomed host, cloak, vhost) *)
  | EIgnore                       (* ... is dropped with 432 (no handler in the client) *)
  | EForce (y : bytes) (uh : uhost)  (* the server changes the client's nick by itself *)
  | EOther (a b : bytes)          (* another user changes nick from a to b *)
  | ENew (a : bytes)              (* another user appears with nick a (no line) *)
  | ETrack (a : bytes)            (* the tracker learns about user a *)
  | EForget (a : bytes)           (* the tracker forgets user a *)
  | EMe                           (* user code calls conn.Me() *)
  | ERaw (l : bytes).             (* any line (without CRLF): noise, or non-conformant if it is a 001/433/NICK *)

  Definition set_pending (srv : server) (p : list bytes) : server :=
    {| sv_reg := sv_reg srv; sv_nick := sv_nick srv; sv_pending := p; sv_others := sv_others srv |}.
  Definition set_current (srv : server) (n : bytes) : server :=
    {| sv_reg := true; sv_nick := n; sv_pending := sv_pending srv; sv_others := sv_others srv |}.
  Definition set_others (srv : server) (o : list bytes) : server :=
    {| sv_reg := sv_reg srv; sv_nick := sv_nick srv; sv_pending := sv_pending srv; sv_others := o |}.

  Definition is_noise (l : bytes) : bool :=
    match recv_one (l ++ s_crlf) with
    | Ok (Some ln) => negb (nick_cmd (l_cmd ln))
    | _ => true
    end.

  (* is the event something a protocol-conformant server/environment can do in this state? *)
  Definition enabled (srv : server) (e : event) : bool :=
    match e with
    | EColl => match sv_pending srv with
               | x :: _ => nick_ok x && negb (sv_reg srv && beq x (sv_nick srv))
               | [] => false
               end
    | EWelcome None tail => negb (sv_reg srv) &&
                       match sv_pending srv with
                       | x :: _ => nick_ok x && negb (in_use srv x)
                       | [] => false
                       end && match tail with Some uh => uh_ok uh | None => true end
    | EWelcome (Some n) tail => negb (sv_reg srv) && nick_ok n && negb (in_use srv n)
                                && match tail with Some uh => uh_ok uh | None => true end
    | EReq _ => sv_reg srv
    | EConfirm uh => sv_reg srv &&
                  match sv_pending srv with
                  | x :: _ => nick_ok x && negb (in_use srv x) && negb (beq x (sv_nick srv))
                  | [] => false
                  end && uh_ok uh
    | EIgnore => match sv_pending srv with _ :: _ => true | [] => false end
    | EForce y uh => sv_reg srv && nick_ok y && negb (in_use srv y) && negb (beq y (sv_nick srv)) && uh_ok uh
    | EOther a b => sv_reg srv && in_use srv a && nick_ok a && nick_ok b
                    && negb (in_use srv b) && negb (beq b (sv_nick srv))
    | ENew a => nick_ok a && negb (in_use srv a) && negb (sv_reg srv && beq a (sv_nick srv))
    | ETrack a => in_use srv a
    | EForget _ => true
    | EMe => true
    | ERaw l => is_noise l
    end.

  (* what the server/environment does for an ENABLED event: its new state and the client inputs *)
  Definition srv_act (srv : server) (e : event) : server * list cinput :=
    match e with
    | EColl =>
        match sv_pending srv with
        | x :: rest => (set_pending srv rest, [InLine (wire (coll_msg (cur_or_star srv) x))])
        | [] => (srv, [])
        end
    | EWelcome on tail =>
        let n := match on with Some n => n | None => hd [] (sv_pending srv) end in
        (set_pending (set_current srv n) [], [InLine (wire (welcome_msg_with n tail))])
    | EReq y => (srv, [InNick y])
    | EConfirm uh =>
        match sv_pending srv with
        | x :: rest => (set_pending (set_current srv x) rest, [InLine (wire (nick_msg_from (sv_nick srv) uh x))])
        | [] => (srv, [])
        end
    | EIgnore =>
        match sv_pending srv with
        | x :: rest => (set_pending srv rest,
                        [InLine (wire (ignore_msg (cur_or_star srv) (if nick_ok x then x else s_star)))])
        | [] => (srv, [])
        end
    | EForce y uh => (set_current srv y, [InLine (wire (nick_msg_from (sv_nick srv) uh y))])
    | EOther a b => (set_others srv (map (fun o => if beq o a then b else o) (sv_others srv)),
                     [InLine (wire (nick_msg a b))])
    | ENew a => (set_others srv (sv_others srv ++ [a]), [])
    | ETrack a => (srv, [InTrack a])
    | EForget a => (srv, [InForget a])
    | EMe => (srv, [InMe])
    | ERaw l => (srv, [InLine (l ++ s_crlf)])
    end.

  (* a non-enabled event is skipped, except ERaw which is always delivered *)
  Definition srv_pre (srv : server) (e : event) : bool * server * list cinput :=
    let en := enabled srv e in
    match e with
    | ERaw _ => (en, srv, snd (srv_act srv e))
    | _ => if en then (en, fst (srv_act srv e), snd (srv_act srv e)) else (en, srv, [])
    end.

  (* the NICK requests among lines the client wrote: the server reads them off the wire *)
  Definition s_NICK_sp : bytes := [78;73;67;75;32]%N.
  Definition nick_requests (outs : list bytes) : list bytes :=
    flat_map (fun l => match strip_prefix l s_NICK_sp with Some n => [n] | None => [] end) outs.
  Definition is_nick_line (l : bytes) : bool := has_prefix l s_NICK_sp.
  Definition srv_post (srv : server) (outs : list bytes) : server :=
    set_pending srv (sv_pending srv ++ nick_requests outs).

  Record world := { w_cli : cstate; w_srv : server; w_ok : bool }.

  (* feed a list of inputs to the client, collecting its output *)
  Fixpoint feed_with hdl (s : cstate) (is : list cinput) : cstate * list bytes :=
    match is with
    | [] => (s, [])
    | i :: is' =>
        let r := client_step_with hdl s i in
        let '(s', o) := feed_with hdl (ho_st r) is' in
        (s', ho_out r ++ o)
    end.
  Definition feed := feed_with handle.

  Definition wstep_with hdl (w : world) (e : event) : world * list bytes :=
    let '(en, srv1, ins) := srv_pre (w_srv w) e in
    let '(cli1, outs) := feed_with hdl (w_cli w) ins in
    ({| w_cli := cli1; w_srv := srv_post srv1 outs; w_ok := w_ok w && en |}, outs).
  Definition wstep := wstep_with handle.

  Fixpoint wrun_with hdl (w : world) (es : list event) : world :=
    match es with
    | [] => w
    | e :: es' => wrun_with hdl (fst (wstep_with hdl w e)) es'
    end.
  Definition wrun := wrun_with handle.

  (* the situation right after a successful Connect: Client(NewConfig(nick, ident, name)),
     optionally EnableStateTracking, h_REGISTER has sent NICK <nick>; [others0] = users
     already on the server *)
  Definition server0 (c : cstate) (others0 : list bytes) : server :=
    {| sv_reg := false; sv_nick := [];
       sv_pending := match cfg_me c with Some m => nick_requests (nick_lines (nk_nick m)) | None => [] end;
       sv_others := others0 |}.
  Definition client0 (track : bool) (nick ident name : bytes) : cstate :=
    let c := client_init nick ident name in
    if track then ho_st (enable_tracking c) else c.
  Definition world0 (track : bool) (nick ident name : bytes) (others0 : list bytes) : world :=
    let c := client0 track nick ident name in
    {| w_cli := c; w_srv := server0 c others0; w_ok := forallb nick_ok others0 |}.

  (* [conformant]: every event of the script was enabled when it happened *)
  Definition conformant (w0 : world) (es : list event) : bool := w_ok (wrun w0 es).

  (* ================= observations and the property predicate ================= *)
  (* what the harness records at the sync marker after each event: Config().Me (nil-ness,
     Nick) BEFORE calling Me(), then Me() (nil-ness, Nick), then Config().Me again, the
     nil-ness of Config().Me seen by a CONNECTED foreground handler during the step, and the
     NICK lines the client wrote.  Calling Me() is itself an input (it assigns cfg.Me). *)
  (* [o_cfg] Config().Me.Nick read FIRST (None = nil); [o_me] then Me().Nick; [o_cfg2] then
     Config().Me.Nick again; [o_conn] one flag per CONNECTED event dispatched during the step
     (h_001 defers it: a foreground handler reads Config().Me there) — true = it was nil *)
  Record obs := { o_cfg : option bytes; o_me : option bytes; o_cfg2 : option bytes;
                  o_conn : list bool; o_nicks : list bytes }.

  Definition is_welcome_in (i : cinput) : bool :=
    match i with
    | InLine raw => match recv_one raw with Ok (Some l) => beq (l_cmd l) c_001 | _ => false end
    | _ => false
    end.
  Definition is_nil {A} (o : option A) : bool := match o with None => true | Some _ => false end.

  Fixpoint observe_with hdl (w : world) (es : list event) : list obs :=
    match es with
    | [] => []
    | e :: es' =>
        let '(w1, outs) := wstep_with hdl w e in
        let o := {| o_cfg := cfg_nick_of (w_cli w1); o_me := me_nick_of (w_cli w1);
                    o_cfg2 := cfg_nick_of (fst (do_Me (w_cli w1)));
                    o_conn := map (fun _ => is_nil (cfg_me (w_cli w1)))
                                  (filter is_welcome_in (snd (srv_pre (w_srv w) e)));
                    o_nicks := filter is_nick_line outs |} in
        o :: observe_with hdl (fst (wstep_with hdl w1 EMe)) es'
    end.
  Definition observe := observe_with handle.

  (* the refused nick of a 433 delivered by this event, when the line has >= 2 arguments *)
  Definition refused_of (srv : server) (e : event) : option bytes :=
    match e with
    | EColl => if enabled srv EColl then match sv_pending srv with x :: _ => Some x | [] => None end else None
    | ERaw l => match recv_one (l ++ s_crlf) with
                | Ok (Some ln) => if beq (l_cmd ln) c_433
                                  then match l_args ln with _ :: r :: _ => Some r | _ => None end
                                  else None
                | _ => None
                end
    | _ => None
    end.

  Definition opt_beq' (a b : option bytes) : bool :=
    match a, b with Some x, Some y => beq x y | None, None => true | _, _ => false end.

  (* The property as a boolean on (script, observations): walk the script with the server's
     own state — what the client requested is read off the OBSERVED wire —
       (1) Config().Me (before and after the call of Me(), and inside every CONNECTED handler)
           and Me() are never nil;
       (2) as long as every event so far was conformant and the welcome has been sent,
           Me().Nick is the nick the server uses for the client;
       (3) every 433 with >= 2 arguments is answered by exactly NICK <generator(refused)>,
           and Me() changes at that step only if the refused nick was the one Me() reported
           before, and then to the generated nick. *)
  Fixpoint C17_walk (srv : server) (ok : bool) (prev : option bytes) (es : list event) (os : list obs) : bool :=
    match es, os with
    | [], [] => true
    | e :: es', o :: os' =>
        let '(en, srv1, _) := srv_pre srv e in
        let srv2 := srv_post srv1 (o_nicks o) in
        let ok' := ok && en in
        let never_nil := match o_cfg o, o_me o, o_cfg2 o with Some _, Some _, Some _ => true | _, _, _ => false end
                         && negb (existsb (fun b => b) (o_conn o)) in
        let tracks := if ok' && sv_reg srv2 then opt_beq' (o_me o) (Some (sv_nick srv2)) else true in
        let coll := match refused_of srv e with
                    | Some r => list_beq (o_nicks o) (nick_lines (new_nick r))
                                && (opt_beq' (o_me o) prev
                                    || (opt_beq' prev (Some r) && opt_beq' (o_me o) (Some (new_nick r))))
                    | None => true
                    end in
        never_nil && tracks && coll && C17_walk srv2 ok' (o_me o) es' os'
    | _, _ => false
    end.

  Definition C17_ok (w0 : world) (es : list event) (os : list obs) : bool :=
    C17_walk (w_srv w0) (w_ok w0) (me_nick_of (w_cli w0)) es os.
End Handlers.

(* ---------- generators used by the correspondence check ---------- *)
Definition gen_append (s : bytes) : bytes := s ++ underscore.                 (* old + "_" *)
Definition gen_rotate (s : bytes) : bytes :=                                   (* old[1:] + old[:1] *)
  match s with [] => [] | c :: r => r ++ [c] end.
