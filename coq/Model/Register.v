(* Model/Register.v — C18: registration and keep-alive.
   Transliteration of client/handlers.go h_REGISTER and h_PING, client/connection.go hasPort,
   the default-port part of internalConnect (with net.JoinHostPort), the PingFreq test of
   postConnect and one tick of ping.  The command methods are those of Model/Commands.v
   (cutNewLines applied).  Executable definitions only (no proofs). *)
From Verif Require Export GoBytes LineLib Line LineSend Split Commands NickHandlers.
Open Scope Z_scope.

(* the part of Config these functions read; [rc_me] = conn.cfg.Me (None = nil) *)
Record reg_cfg := {
  rc_negotiate : bool;          (* EnableCapabilityNegotiation *)
  rc_pass : bytes;              (* Pass *)
  rc_me : option nickrec;       (* Me *)
  rc_server : bytes;            (* Server *)
  rc_ssl : bool;                (* SSL *)
  rc_ping_freq : Z              (* PingFreq, nanoseconds *)
}.

Definition s_LS : bytes := [76;83]%N.               (* CAP_LS = "LS" *)
Definition no_cmd_cfg : cmd_cfg := {| cc_split_len := 0; cc_quit_message := [] |}.
Definition cmd_lines (m : method) (args : list bytes) : res (list bytes) := emit to_upper m no_cmd_cfg args.

(* func (conn *Conn) h_REGISTER(line *Line): the lines handed to conn.Raw, and whether the
   handler panicked (conn.cfg.Me.Nick on a nil Me — AFTER CAP LS and PASS have been sent) *)
Definition emit_register (c : reg_cfg) : list bytes * bool :=
  (* if conn.cfg.EnableCapabilityNegotiation { conn.Cap(CAP_LS) } *)
  let caps := if rc_negotiate c then match cmd_lines MCap [s_LS] with Ok ls => ls | Panic => [] end else [] in
  (* if conn.cfg.Pass != "" { conn.Pass(conn.cfg.Pass) } *)
  let pass := if negb (beq (rc_pass c) []) then match cmd_lines MPass [rc_pass c] with Ok ls => ls | Panic => [] end else [] in
  match rc_me c with
  | None => (caps ++ pass, true)
  | Some me =>
      (* conn.Nick(conn.cfg.Me.Nick); conn.User(conn.cfg.Me.Ident, conn.cfg.Me.Name) *)
      let nick := match cmd_lines MNick [nk_nick me] with Ok ls => ls | Panic => [] end in
      let user := match cmd_lines MUser [nk_ident me; nk_name me] with Ok ls => ls | Panic => [] end in
      (caps ++ pass ++ nick ++ user, false)
  end.

(* ---------- the dial address ---------- *)
Definition s_colon : bytes := [58]%N.
Definition s_rbracket : bytes := [93]%N.
Definition s_lbracket : bytes := [91]%N.
Definition port_ssl : bytes := [54;54;57;55]%N.     (* "6697" *)
Definition port_plain : bytes := [54;54;54;55]%N.   (* "6667" *)

(* func hasPort(s string) bool { return strings.LastIndex(s, ":") > strings.LastIndex(s, "]") } *)
Definition has_port (s : bytes) : bool := last_index s s_colon >? last_index s s_rbracket.

(* net.JoinHostPort: a host containing ':' is taken for an IPv6 literal and bracketed *)
Definition join_host_port (host port : bytes) : bytes :=
  if index host s_colon >=? 0 then s_lbracket ++ host ++ s_rbracket ++ s_colon ++ port
  else host ++ s_colon ++ port.

(* internalConnect: [if !hasPort(Server) { Server = JoinHostPort(Server, SSL ? "6697" : "6667") }];
   the result is what dialProxy / dialer.DialContext receive *)
Definition dial_addr (c : reg_cfg) : bytes :=
  if negb (has_port (rc_server c)) then
    if rc_ssl c then join_host_port (rc_server c) port_ssl else join_host_port (rc_server c) port_plain
  else rc_server c.

(* ---------- PING from the server ---------- *)
(* func (conn *Conn) h_PING(line *Line) { conn.Pong(line.Args[0]) }: lines sent, panicked? *)
Definition h_PING (l : line) : list bytes * bool :=
  match elem_at (l_args l) 0 with
  | Panic => ([], true)
  | Ok tok => (match cmd_lines MPong [tok] with Ok ls => ls | Panic => [] end, false)
  end.

Definition c_PING : bytes := [80;73;78;71]%N.
(* what the client writes for one line from the server, as far as PING is concerned *)
Definition pong_of_raw (raw : bytes) : list bytes * bool :=
  match recv_one raw with
  | Ok (Some l) => if beq (l_cmd l) c_PING then h_PING l else ([], false)
  | _ => ([], false)
  end.

(* the server's PING in its three usual shapes *)
Definition ping_trailing (src : option source) (tok : bytes) : msg :=
  {| mtags := None; msrc := src; verb := c_PING; middles := []; trailing := Some tok |}.
Definition ping_middle (src : option source) (tok : bytes) : msg :=
  {| mtags := None; msrc := src; verb := c_PING; middles := [(0%nat, tok)]; trailing := None |}.

(* ---------- PING from the client ---------- *)
(* postConnect: [if conn.cfg.PingFreq > 0 { conn.wg.Add(1); go conn.ping(ctx) }] *)
Definition pings_enabled (c : reg_cfg) : bool := rc_ping_freq c >? 0.
(* ping: on every tick [conn.Ping(fmt.Sprintf("%d", time.Now().UnixNano()))] *)
Definition ping_tick (nanos : Z) : list bytes :=
  match cmd_lines MPing [dec_of_Z nanos] with Ok ls => ls | Panic => [] end.

(* ================= the property as boolean predicates (theorem statements AND runtime oracle) ================= *)
Definition no_nl (s : bytes) : bool := forallb (fun c => negb (N.eqb c 13 || N.eqb c 10)) s.
Definition first_word (l : bytes) : bytes := hd [] (split2 l s_sp).

(* registration: [lines] = what the server received first, up to and including USER.
   Always: the verbs are CAP (iff negotiation), PASS (iff a password), NICK, USER — once each,
   in this order — and the CAP line is "CAP LS".  When password / nick / ident / name contain no
   CR or LF the lines are exactly PASS <password>, NICK <nick>, USER <ident> 12 * :<name>. *)
Definition reg_verbs (negotiate : bool) (pass : bytes) : list bytes :=
  (if negotiate then [s_CAP] else []) ++ (if beq pass [] then [] else [s_PASS]) ++ [s_NICK; s_USER].
Definition reg_exact (negotiate : bool) (pass nick ident name : bytes) : list bytes :=
  (if negotiate then [s_CAP ++ s_sp ++ s_LS] else [])
  ++ (if beq pass [] then [] else [s_PASS ++ s_sp ++ pass])
  ++ [s_NICK ++ s_sp ++ nick; s_USER ++ s_sp ++ ident ++ s_user_mid ++ name].
Definition C18_reg_ok (negotiate : bool) (pass : bytes) (me : nickrec) (lines : list bytes) : bool :=
  list_beq (map first_word lines) (reg_verbs negotiate pass)
  && (if negotiate then match lines with l :: _ => beq l (s_CAP ++ s_sp ++ s_LS) | [] => false end else true)
  && (if no_nl pass && no_nl (nk_nick me) && no_nl (nk_ident me) && no_nl (nk_name me)
      then list_beq lines (reg_exact negotiate pass (nk_nick me) (nk_ident me) (nk_name me))
      else true).

(* dial address: claim for servers of the form host or host:port where host has no ':' *)
Definition is_digit_b (c : N) : bool := (48 <=? c)%N && (c <=? 57)%N.
Definition C18_dial_ok (server : bytes) (ssl : bool) (addr : bytes) : bool :=
  if negb (mem_byte 58%N server) then
    beq addr (server ++ s_colon ++ (if ssl then port_ssl else port_plain))       (* no port given: default added *)
  else if negb (mem_byte 93%N server) && negb (mem_byte 91%N server)
          && Nat.eqb (length (filter (N.eqb 58%N) server)) 1 then
    beq addr server                                                            (* host:port — unchanged *)
  else true.                                                                   (* IPv6 literals: outside the claim *)

(* PING from the server: [lines] = what the client wrote in answer to one line *)
Definition is_pong_line (l : bytes) : bool := beq (first_word l) s_PONG.
Definition C18_pong_ok (tok : option bytes) (lines : list bytes) : bool :=
  match tok with
  | Some t => list_beq (filter is_pong_line lines) [s_PONG ++ s_sp_colon ++ t]
  | None => match filter is_pong_line lines with [] => true | _ => false end
  end.

(* a burst of PINGs (more than the input queue holds, while the event loop is busy): every
   one of them is answered, once, in order *)
Definition C18_busy_ok (toks : list bytes) (lines : list bytes) : bool :=
  list_beq (filter is_pong_line lines) (map (fun t => s_PONG ++ s_sp_colon ++ t) toks).

(* PING from the client: seen within the window iff PingFreq > 0; payload all digits *)
Definition C18_pings_ok (freq : Z) (present wellformed : bool) : bool :=
  Bool.eqb present (freq >? 0) && wellformed.
