(* Model/Client.v — the COMPOSITION: one sequential model of what the client does with a
   whole server session.  connection.go recv (Trim + ParseLine, Model/Line.v) -> runLoop ->
   dispatch.go Conn.dispatch -> intHandlers.dispatch: every handler registered under
   ToLower(line.Cmd) in [var intHandlers] (handlers.go) and — while state tracking is on — in
   [var stHandlers] (state_handlers.go) runs on its own copy of the line under
   [defer conn.cfg.Recover] (hNode.Handle; default LogPanic).

   The handler BODIES are the component models, imported, not copied:
     001 / 433 / NICK (tracking off)   Model/NickHandlers.v (C17)   h_001, h_433, h_NICK
     REGISTER, PING                    Model/Register.v (C18)       emit_register, h_PING
     CAP 410 AUTHENTICATE 903 904 908  Model/Caps.v (C19)           h_CAP .. h_908
     the 13 state handlers             Model/StateHandlers.v (C13)  sth_run over TrackerSpec
     conn.CtcpReply / Nick / ...       Model/Commands.v (C08)       emit
   NEW here: h_CTCP; h_001 / h_433 with tracking ON over the FULL tracker (C17's model runs
   them over its own small tracker {me; others}: [g_001] / [g_433] below are the same bodies,
   generic in the tracker; Proofs/ClientProofs.v shows that instantiated with C17's tracker
   they ARE C17's h_001 / h_433); and the side effect of [conn.Me()] inside the state handlers
   (it ASSIGNS conn.cfg.Me while tracking — C13's model has no cfg.Me, C17's has no JOIN).

   A panic keeps the effects performed so far and emits nothing more from THAT handler.
   Handlers of ONE line run concurrently in the real client (hSet.dispatch starts a goroutine
   each and waits for all); only NICK with tracking on has two (h_NICK, h_STNICK): they commute
   (ClientProofs.nick_pair_commute), the model runs them in registration order.
   Not modelled: user (fg/bg) handlers, the CONNECTED event h_001 defers (no internal handler
   listens), Time, goroutines, the output queue (C09), EnableStateTracking mid-session.

   std++ side (TrackerSpec): the GoBytes-side modules are Required, not Imported.
   Executable definitions only. *)
From Verif Require Export StateHandlers.
From Verif Require GoBytes LineLib Line Commands NickHandlers Register Caps.
Open Scope Z_scope.

Notation nickrec := NickHandlers.nickrec (only parsing).
Notation res := GoBytes.res (only parsing).

(* ---------- configuration and state: the product of the component states ---------- *)
Record ccfg := {
  k_new_nick : bytes -> bytes;       (* cfg.NewNick *)
  k_negotiate : bool;                (* cfg.EnableCapabilityNegotiation *)
  k_pass : bytes;                    (* cfg.Pass *)
  k_caps : Caps.caps_cfg;            (* cfg.Capabilites, cfg.Sasl *)
  k_version : bytes;                 (* cfg.Version *)
  k_quit : bytes;                    (* cfg.QuitMessage (read by no internal handler) *)
  k_split_len : Z                    (* cfg.SplitLen *)
}.

Record cstate := {
  c_cfg : ccfg;
  c_me : option nickrec;             (* conn.cfg.Me (None = nil) — C17's cfg_me *)
  c_trk : option tstate;             (* conn.st (None = tracking off) — C12/C13's tracker *)
  c_caps : Caps.cstate               (* supportedCaps, currCaps, saslRemainingData — C19 *)
}.

Definition set_me (s : cstate) (m : option nickrec) : cstate :=
  {| c_cfg := c_cfg s; c_me := m; c_trk := c_trk s; c_caps := c_caps s |}.
Definition set_trk (s : cstate) (t : option tstate) : cstate :=
  {| c_cfg := c_cfg s; c_me := c_me s; c_trk := t; c_caps := c_caps s |}.
Definition set_caps (s : cstate) (c : Caps.cstate) : cstate :=
  {| c_cfg := c_cfg s; c_me := c_me s; c_trk := c_trk s; c_caps := c |}.

(* the result of ONE handler invocation: state as modified so far, lines handed to conn.Raw *)
Inductive cres := CDone (s : cstate) (out : list bytes) | CPanic (s : cstate) (out : list bytes).
Definition cres_st (r : cres) : cstate := match r with CDone s _ => s | CPanic s _ => s end.
Definition cres_out (r : cres) : list bytes := match r with CDone _ o => o | CPanic _ o => o end.
Definition cres_panicked (r : cres) : bool := match r with CDone _ _ => false | CPanic _ _ => true end.
Definition mk_cres (panicked : bool) (s : cstate) (out : list bytes) : cres :=
  if panicked then CPanic s out else CDone s out.

Definition cmd_cfg_of (k : ccfg) : Commands.cmd_cfg := Commands.Build_cmd_cfg (k_split_len k) (k_quit k).

(* ---------- own nick, tracking OFF: C17's handlers as they are ---------- *)
Definition nh_state (s : cstate) : NickHandlers.cstate := NickHandlers.Build_cstate (c_me s) None.
Definition of_hout (s : cstate) (r : NickHandlers.hout) : cres :=
  mk_cres (NickHandlers.ho_panic r) (set_me s (NickHandlers.cfg_me (NickHandlers.ho_st r))) (NickHandlers.ho_out r).

(* ---------- own nick, tracking ON: h_001 / h_433 generic in the tracker ----------
   [Me_] = st.Me(), [NickInfo_] = st.NickInfo (result unused), [ReNick_] = st.ReNick.
   Statement by statement as Model/NickHandlers.v h_001_with / h_433_with renick_keep. *)
Section OwnNick.
  Context {T : Type}.
  Variable Me_ : T -> option nickrec.
  Variable NickInfo_ : T -> bytes -> bytes -> bytes -> bytes -> T.
  Variable ReNick_ : T -> bytes -> bytes -> T * option nickrec.
  Variable new_nick : bytes -> bytes.

  Record gst := { g_me : option nickrec; g_trk : T }.
  Record gout := { go_st : gst; go_out : list bytes; go_panic : bool }.
  Definition gdone (s : gst) (o : list bytes) : gout := {| go_st := s; go_out := o; go_panic := false |}.
  Definition gpanic (s : gst) (o : list bytes) : gout := {| go_st := s; go_out := o; go_panic := true |}.

  (* func (conn *Conn) Me(): [conn.cfg.Me = conn.st.Me(); return conn.cfg.Me] *)
  Definition g_do_Me (s : gst) : gst * option nickrec :=
    let m := Me_ (g_trk s) in ({| g_me := m; g_trk := g_trk s |}, m).
  (* [if n := conn.st.ReNick(old, neu); n != nil { conn.cfg.Me = n }] *)
  Definition g_renick (s : gst) (t : T) (old neu : bytes) : gst :=
    let r := ReNick_ t old neu in
    {| g_me := match snd r with Some n => Some n | None => g_me s end; g_trk := fst r |}.

  Definition g_001 (s : gst) (l : line) : gout :=
    let s1 := fst (g_do_Me s) in
    let me := snd (g_do_Me s) in
    match NickHandlers.welcome_pre l with
    | GoBytes.Panic => gpanic s1 []
    | GoBytes.Ok (nick, uh) =>
        match me with
        | None => gpanic s1 []                                      (* me.Nick on a nil *Nick *)
        | Some m =>
            (* if ok { conn.st.NickInfo(me.Nick, ident, host, me.Name) } *)
            let t1 := match uh with
                      | Some (_, ident, host) =>
                          NickInfo_ (g_trk s1) (NickHandlers.nk_nick m) ident host (NickHandlers.nk_name m)
                      | None => g_trk s1
                      end in
            gdone (g_renick s1 t1 (NickHandlers.nk_nick m) nick) []
        end
    end.

  Definition g_433 (s : gst) (l : line) : gout :=
    let s1 := fst (g_do_Me s) in
    let me := snd (g_do_Me s) in
    (* neu := conn.cfg.NewNick(line.Args[1]) — BEFORE the argslen test *)
    match GoBytes.elem_at (Line.l_args l) 1 with
    | GoBytes.Panic => gpanic s1 []
    | GoBytes.Ok refused =>
        let neu := new_nick refused in
        let out := NickHandlers.nick_lines neu in                  (* conn.Nick(neu) *)
        if negb (NickHandlers.argslen l 1) then gdone s1 out
        else
          match GoBytes.elem_at (Line.l_args l) 1, me with
          | GoBytes.Panic, _ => gpanic s1 out
          | GoBytes.Ok _, None => gpanic s1 out
          | GoBytes.Ok a1, Some m =>
              if GoBytes.beq a1 (NickHandlers.nk_nick m)
              then gdone (g_renick s1 (g_trk s1) (NickHandlers.nk_nick m) neu) out
              else gdone s1 out
          end
    end.
End OwnNick.
Arguments gst : clear implicits.
Arguments gout : clear implicits.

(* the full tracker (Model/TrackerSpec.v) behind that interface; a *state.Nick snapshot read
   through Nick / Ident / Host / Name *)
Definition rec_of_snap (n : nick_snap) : nickrec :=
  NickHandlers.Build_nickrec (sn_nick n) (sn_ident n) (sn_host n) (sn_name n).
Definition st_Me (t : tstate) : option nickrec := option_map rec_of_snap (snd (sp_Me t)).
Definition st_NickInfo (t : tstate) (n i h r : bytes) : tstate := fst (sp_NickInfo t n i h r).
Definition st_ReNick (t : tstate) (old neu : bytes) : tstate * option nickrec :=
  let r := sp_ReNick t old neu in (fst r, option_map rec_of_snap (snd r)).

Definition of_gout (s : cstate) (r : gout tstate) : cres :=
  mk_cres (go_panic r)
          {| c_cfg := c_cfg s; c_me := g_me (go_st r); c_trk := Some (g_trk (go_st r)); c_caps := c_caps s |}
          (go_out r).

(* ---------- the internal handlers on the composed state ---------- *)
Definition c_001 (s : cstate) (l : line) : cres :=
  match c_trk s with
  | None => of_hout s (NickHandlers.h_001 (nh_state s) l)
  | Some t => of_gout s (g_001 st_Me st_NickInfo st_ReNick {| g_me := c_me s; g_trk := t |} l)
  end.
Definition c_433 (s : cstate) (l : line) : cres :=
  match c_trk s with
  | None => of_hout s (NickHandlers.h_433 (k_new_nick (c_cfg s)) (nh_state s) l)
  | Some t => of_gout s (g_433 st_Me st_ReNick (k_new_nick (c_cfg s)) {| g_me := c_me s; g_trk := t |} l)
  end.
(* h_NICK: [if conn.st == nil && ...]: a no-op while tracking (short-circuit: cfg.Me not read) *)
Definition c_NICK (s : cstate) (l : line) : cres :=
  match c_trk s with
  | None => of_hout s (NickHandlers.h_NICK (nh_state s) l)
  | Some _ => CDone s []
  end.

(* func (conn *Conn) h_PING *)
Definition c_PING (s : cstate) (l : line) : cres :=
  let r := Register.h_PING l in mk_cres (snd r) s (fst r).

(* func (conn *Conn) h_REGISTER — reads conn.cfg.Me DIRECTLY (not Me()) *)
Definition reg_cfg_of (s : cstate) : Register.reg_cfg :=
  Register.Build_reg_cfg (k_negotiate (c_cfg s)) (k_pass (c_cfg s)) (c_me s) [] false 0.
Definition c_REGISTER (s : cstate) (l : line) : cres :=
  let r := Register.emit_register (reg_cfg_of s) in mk_cres (snd r) s (fst r).

(* capability negotiation and SASL: a panic happens before any effect (C19_panics) *)
Definition cap_ev (l : line) : Caps.event := Caps.Build_event (Line.l_cmd l) (Line.l_args l).
Definition of_caps (s : cstate) (r : res (Caps.cstate * list bytes)) : cres :=
  match r with
  | GoBytes.Ok x => CDone (set_caps s (fst x)) (snd x)
  | GoBytes.Panic => CPanic s []
  end.
Definition c_CAP (s : cstate) (l : line) : cres :=
  of_caps s (Caps.h_CAP GoBytes.fields (k_caps (c_cfg s)) (c_caps s) (cap_ev l)).
Definition c_410 (s : cstate) (l : line) : cres := of_caps s (Caps.h_410 (c_caps s) (cap_ev l)).
Definition c_AUTHENTICATE (s : cstate) (l : line) : cres :=
  of_caps s (Caps.h_AUTHENTICATE (k_caps (c_cfg s)) (c_caps s) (cap_ev l)).
Definition c_903 (s : cstate) (l : line) : cres := of_caps s (Caps.h_903 (c_caps s)).
Definition c_904 (s : cstate) (l : line) : cres := of_caps s (Caps.h_904 (c_caps s)).
Definition c_908 (s : cstate) (l : line) : cres := of_caps s (Caps.h_908 (c_caps s) (cap_ev l)).

(* func (conn *Conn) h_CTCP(line *Line) {
     if line.Args[0] == VERSION { conn.CtcpReply(line.Nick, VERSION, conn.cfg.Version) }
     else if line.Args[0] == PING && line.argslen(2) { conn.CtcpReply(line.Nick, PING, line.Args[2]) } }
   [line.Args[0]] is indexed (twice) without a guard; CtcpReply = emit MCtcpReply (splitMessage
   with cfg.SplitLen, cutNewLines in Raw) *)
Definition ctcp_reply (s : cstate) (t ctcp arg : bytes) : cres :=
  match Commands.emit GoBytes.to_upper Commands.MCtcpReply (cmd_cfg_of (c_cfg s)) [t; ctcp; arg] with
  | GoBytes.Ok ls => CDone s ls
  | GoBytes.Panic => CPanic s []
  end.
Definition c_CTCP (s : cstate) (l : line) : cres :=
  match GoBytes.elem_at (Line.l_args l) 0 with
  | GoBytes.Panic => CPanic s []
  | GoBytes.Ok a0 =>
      if GoBytes.beq a0 Commands.s_VERSION
      then ctcp_reply s (Line.l_nick l) Commands.s_VERSION (k_version (c_cfg s))
      else
        match GoBytes.elem_at (Line.l_args l) 0 with
        | GoBytes.Panic => CPanic s []
        | GoBytes.Ok b0 =>
            if GoBytes.beq b0 Commands.s_PING && NickHandlers.argslen l 2
            then match GoBytes.elem_at (Line.l_args l) 2 with
                 | GoBytes.Panic => CPanic s []
                 | GoBytes.Ok a2 => ctcp_reply s (Line.l_nick l) Commands.s_PING a2
                 end
            else CDone s []
        end
  end.

(* ---------- the state handlers on the composed state ----------
   [conn.Me()] inside h_JOIN / h_MODE / h_311 / h_352 assigns conn.cfg.Me = conn.st.Me();
   it is evaluated before the handler changes anything, and nothing the handler does later
   changes Nick / Ident / Host / Name of the client's own entry. *)
Definition arg_ok (l : line) (i : Z) (p : bytes -> bool) : bool :=
  match GoBytes.elem_at (Line.l_args l) i with GoBytes.Ok a => p a | GoBytes.Panic => false end.
Definition st_calls_me (h : sth) (t : tstate) (l : line) : bool :=
  match h with
  | StJOIN =>   (* ch := GetChannel(Args[0]); ...; if ch == nil { if !conn.Me().Equals(nk) *)
      arg_ok l 0 (fun a0 => negb (is_some (snd (sp_GetChannel t a0))))
  | StMODE =>   (* argslen(1); GetChannel(Args[0]) == nil; nk := GetNick(Args[0]); nk != nil { conn.Me() *)
      argslen l 1 && arg_ok l 0 (fun a0 => negb (is_some (snd (sp_GetChannel t a0)))
                                          && is_some (snd (sp_GetNick t a0)))
  | St311 =>    (* argslen(5); nk := GetNick(Args[1]); (nk != nil) && !conn.Me().Equals(nk) *)
      argslen l 5 && arg_ok l 1 (fun a1 => is_some (snd (sp_GetNick t a1)))
  | St352 =>    (* argslen(5); nk := GetNick(Args[5]); nk == nil => return; conn.Me().Equals(nk) *)
      argslen l 5 && arg_ok l 5 (fun a5 => is_some (snd (sp_GetNick t a5)))
  | _ => false
  end.

Definition c_sth (h : sth) (s : cstate) (l : line) : cres :=
  match c_trk s with
  | None => CPanic s []               (* conn.st == nil: method call on a nil interface; never
                                         registered while tracking is off *)
  | Some t =>
      let r := sth_run h l {| h_trk := t; h_out := [] |} in
      let me' := if st_calls_me h t l then st_Me t else c_me s in
      mk_cres (hres_panicked r)
              {| c_cfg := c_cfg s; c_me := me'; c_trk := Some (h_trk (hres_st r)); c_caps := c_caps s |}
              (h_out (hres_st r))
  end.

(* ---------- var intHandlers (handlers.go), in source order ---------- *)
Inductive ih := IhREGISTER | Ih001 | Ih433 | IhCTCP | IhNICK | IhPING | IhCAP | Ih410
              | IhAUTHENTICATE | Ih903 | Ih904 | Ih908.
Definition all_ih : list ih :=
  [IhREGISTER; Ih001; Ih433; IhCTCP; IhNICK; IhPING; IhCAP; Ih410; IhAUTHENTICATE; Ih903; Ih904; Ih908].
Definition s_REGISTER : bytes := [82;69;71;73;83;84;69;82]%N.
Definition ih_verb (h : ih) : bytes :=
  match h with
  | IhREGISTER => s_REGISTER | Ih001 => NickHandlers.c_001 | Ih433 => NickHandlers.c_433
  | IhCTCP => Commands.s_CTCP | IhNICK => Commands.s_NICK | IhPING => Commands.s_PING
  | IhCAP => Commands.s_CAP | Ih410 => Caps.s_410 | IhAUTHENTICATE => Commands.s_AUTHENTICATE
  | Ih903 => Caps.s_903 | Ih904 => Caps.s_904 | Ih908 => Caps.s_908
  end.
Definition ih_run (h : ih) : cstate -> line -> cres :=
  match h with
  | IhREGISTER => c_REGISTER | Ih001 => c_001 | Ih433 => c_433 | IhCTCP => c_CTCP
  | IhNICK => c_NICK | IhPING => c_PING | IhCAP => c_CAP | Ih410 => c_410
  | IhAUTHENTICATE => c_AUTHENTICATE | Ih903 => c_903 | Ih904 => c_904 | Ih908 => c_908
  end.

(* a registered internal handler: from intHandlers, or (tracking on) from stHandlers *)
Inductive hnd := HInt (h : ih) | HSt (h : sth).
Definition hnd_run (h : hnd) : cstate -> line -> cres :=
  match h with HInt i => ih_run i | HSt x => c_sth x end.

(* hSet.dispatch: [ev := strings.ToLower(line.Cmd)]; hSet.add stored them under ToLower(name).
   addIntHandlers runs in Client(), addSTHandlers in EnableStateTracking: h_NICK before h_STNICK *)
Definition verb_matches (verb cmd : bytes) : bool :=
  GoBytes.beq (GoBytes.to_lower verb) (GoBytes.to_lower cmd).
Definition handlers_for (s : cstate) (cmd : bytes) : list hnd :=
  map HInt (filter (fun h => verb_matches (ih_verb h) cmd) all_ih)
  ++ match c_trk s with
     | Some _ => map HSt (filter (fun h => verb_matches (sth_verb h) cmd) all_sth)
     | None => []
     end.

(* hNode.Handle: [defer conn.cfg.Recover(conn, line)] — with LogPanic a panic stops there;
   WITHOUT it ([unprotected_c], only to show the wrapper matters) it escapes: None *)
Definition wrapper := cres -> option (cstate * list bytes).
Definition recovering_c : wrapper := fun r => Some (cres_st r, cres_out r).
Definition unprotected_c : wrapper :=
  fun r => match r with CDone s o => Some (s, o) | CPanic _ _ => None end.

(* one after the other, each on its own copy of the line (line.Copy()) *)
Fixpoint run_handlers (wrap : wrapper) (hs : list hnd) (s : cstate) (l : line) : option (cstate * list bytes) :=
  match hs with
  | [] => Some (s, [])
  | h :: hs' =>
      match wrap (hnd_run h s (Line.copy_line l)) with
      | None => None
      | Some r1 =>
          match run_handlers wrap hs' (fst r1) l with
          | None => None
          | Some r2 => Some (fst r2, snd r1 ++ snd r2)
          end
      end
  end.

(* Conn.dispatch as far as the internal set is concerned *)
Definition client_dispatch_with (wrap : wrapper) (s : cstate) (l : line) : option (cstate * list bytes) :=
  run_handlers wrap (handlers_for s (Line.l_cmd l)) s l.

(* one raw line as read by recv (before Trim): Panic = the process dies (recv and runLoop have
   no recover of their own) *)
Definition client_line_with (wrap : wrapper) (s : cstate) (raw : bytes) : res (cstate * list bytes) :=
  match Line.recv_one raw with
  | GoBytes.Panic => GoBytes.Panic
  | GoBytes.Ok None => GoBytes.Ok (s, [])                           (* ParseLine returned nil: logged *)
  | GoBytes.Ok (Some l) =>
      match client_dispatch_with wrap s l with
      | Some r => GoBytes.Ok r
      | None => GoBytes.Panic
      end
  end.
Definition client_line_res : cstate -> bytes -> res (cstate * list bytes) := client_line_with recovering_c.

(* THE composed step (ClientProofs.client_line_total: the Panic branch is dead) *)
Definition client_line (s : cstate) (raw : bytes) : cstate * list bytes :=
  match client_line_res s raw with
  | GoBytes.Ok r => r
  | GoBytes.Panic => (s, [])
  end.

(* a whole session: final state and, per line, the lines handed to Raw *)
Fixpoint client_session (s : cstate) (raws : list bytes) : cstate * list (list bytes) :=
  match raws with
  | [] => (s, [])
  | raw :: raws' =>
      let r := client_line s raw in
      let r' := client_session (fst r) raws' in
      (fst r', snd r :: snd r')
  end.
Definition session_state (s : cstate) (raws : list bytes) : cstate := fst (client_session s raws).
Definition session_out (s : cstate) (raws : list bytes) : list (list bytes) := snd (client_session s raws).

(* ConnectContext: [conn.dispatch(&Line{Cmd: REGISTER})] — the lines of h_REGISTER *)
Definition register_line : line :=
  Line.Build_line None [] [] [] [] s_REGISTER [] [].
Definition client_register (s : cstate) : list bytes :=
  match client_dispatch_with recovering_c s register_line with
  | Some r => snd r
  | None => []
  end.

(* ---------- the client before Connect ----------
   Client(cfg): the Config.Me repair (NickHandlers.client_init), SASL forces negotiation on;
   EnableStateTracking: [st = NewTracker(n.Nick); st.NickInfo(n.Nick, n.Ident, n.Host, n.Name);
   cfg.Me = st.Me()].  (internalConnect's initialise() wipes a tracker that holds no channel.) *)
Definition enable_tracking (s : cstate) : cstate :=
  match c_trk s, c_me s with
  | None, Some n =>
      let t := st_NickInfo (sp_new (NickHandlers.nk_nick n)) (NickHandlers.nk_nick n)
                           (NickHandlers.nk_ident n) (NickHandlers.nk_host n) (NickHandlers.nk_name n) in
      {| c_cfg := c_cfg s; c_me := st_Me t; c_trk := Some t; c_caps := c_caps s |}
  | _, _ => s
  end.
Definition client_cfg (k : ccfg) : ccfg :=
  {| k_new_nick := k_new_nick k;
     k_negotiate := k_negotiate k || is_some (Caps.cf_sasl (k_caps k));
     k_pass := k_pass k; k_caps := k_caps k; k_version := k_version k; k_quit := k_quit k;
     k_split_len := k_split_len k |}.
Definition client0 (k : ccfg) (nick ident name : bytes) (tracking : bool) : cstate :=
  let s := {| c_cfg := client_cfg k;
              c_me := NickHandlers.cfg_me (NickHandlers.client_init nick ident name);
              c_trk := None; c_caps := Caps.cstate0 |} in
  if tracking then enable_tracking s else s.

(* conn.Me() called by user code *)
Definition client_Me (s : cstate) : cstate * option nickrec :=
  match c_trk s with
  | Some t => (set_me s (st_Me t), st_Me t)
  | None => (s, c_me s)
  end.
