(* Model/TrackerC14.v — C14: what the two kinds of cases observe, and the property predicates.
   "alias": the observation of C12 (per operation: canonical return value + full query sweep)
            taken while the harness scribbles over EVERYTHING it is handed, followed by one flag
            per operation ("every value obtained in that step still reads the same at the end").
            [C14_alias_ok]: the observation is the plain model's prediction (scribbling changed
            nothing the tracker answers) and every flag is "t" (no later tracker operation
            changed a value handed out earlier).
   "conc":  a timed history of completed calls.  [C14_conc_ok]: it is linearizable w.r.t. the
            plain model [sp_step] from the state the sequential setup produced (LinCheck).
   [al_observe]: the same "alias" experiment run INSIDE the heap model (Model/TrackerAlias.v):
            the model's caller scribbles over everything reachable from every value it gets
            (operation results and sweep results, right after reading them back through the
            heap); at the end every value is read back once more.  Used for agreement (model
            vs. code) on sequences of at most [al_observe_max] operations, not for gating.
   Executable definitions only. *)
From Verif Require Export TrackerObs TrackerAlias.
From Verif Require LinCheck.
Open Scope Z_scope.

Definition C14_alias_predict (me : name) (U : universe) (ops : list op) : list bytes :=
  C12_predict me U ops ++ repeat t_true (length ops).
Definition C14_alias_ok (me : name) (U : universe) (ops : list op) (obs : list bytes) : bool :=
  bool_decide (obs = C14_alias_predict me U ops).

(* ---------- concurrent histories ---------- *)
Definition sp_step_obs (s : tstate) (o : op) : tstate * list bytes :=
  let (s', r) := sp_step s o in (s', enc_result r).
Definition obs_eqb (a b : list bytes) : bool := bool_decide (a = b).
Definition C14_budget : N := 400000%N.
Notation hcall := (LinCheck.hcall op (list bytes)) (only parsing).
Definition C14_conc_start (me : name) (setup : list op) : tstate := fst (sp_run (sp_new me) setup).
Definition C14_conc_ok (me : name) (setup : list op) (h : list hcall) : bool :=
  LinCheck.linearizable tstate op (list bytes) sp_step_obs obs_eqb (C14_conc_start me setup) h C14_budget.

(* ---------- the alias experiment inside the heap model ---------- *)
Definition al_step_std := al_step enumA_std enumN_std privs_Copy.
Definition rd_enc (s : astate) (v : rvalue) : list bytes :=
  match rd_value s v with Some r => enc_result r | None => [t_panic] end.

(* values held by the caller: step index, value, how it read when the caller last touched it *)
Definition held := (N * rvalue * list bytes)%type.

(* one query sweep: every result is read back (recorded), then scribbled over *)
Fixpoint al_sweep (k : N) (s : astate) (qs : list op) : option (astate * list bytes * list held) :=
  match qs with
  | [] => Some (s, [], [])
  | q :: qs' =>
      x ← al_step_std s q;
      let s1 := fst (fst x) in let v := snd (fst x) in
      let out := rd_enc s1 v in
      let s2 := scribble s1 v in
      y ← al_sweep k s2 qs';
      Some (fst (fst y), out ++ snd (fst y), (k, v, rd_enc s2 v) :: snd y)
  end.

Fixpoint al_observe_aux (U : universe) (k : N) (s : astate) (ops : list op) : option (astate * list bytes * list held) :=
  match ops with
  | [] => Some (s, [], [])
  | o :: ops' =>
      x ← al_step_std s o;
      let s1 := fst (fst x) in let v := snd (fst x) in
      let out := rd_enc s1 v in
      let s2 := scribble s1 v in
      b ← al_sweep k s2 (sweep_ops U);
      y ← al_observe_aux U (N.succ k) (fst (fst b)) ops';
      Some (fst (fst y), out ++ snd (fst b) ++ snd (fst y), ((k, v, rd_enc s2 v) :: snd b) ++ snd y)
  end.

Definition al_observe_max : nat := 120.
Definition al_observe (me : name) (U : universe) (ops : list op) : list bytes :=
  match al_observe_aux U 0%N (al_new me) ops with
  | None => [t_panic]
  | Some (s, out, hs) =>
      let oks := map (fun h : held => (fst (fst h), bool_decide (rd_enc s (snd (fst h)) = snd h))) hs in
      out ++ map (fun k => if forallb (fun p : N * bool => if N.eqb (fst p) (N.of_nat k) then snd p else true) oks
                           then t_true else t_false)
                 (seq 0 (length ops))
  end.
